-- Root of the `CompmechVerif` library: property theorems (which import models, specs, generated files).
import CompmechVerif.Props.C01
