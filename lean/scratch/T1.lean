import CompmechVerif.Model.NewtonRaphson
import Mathlib.Algebra.Order.Field.Basic
import Mathlib.Tactic.Linarith
import Mathlib.Tactic.NormNum
import Mathlib.Tactic.Ring

namespace Compmech.NR
variable {K : Type} [Field K] [LinearOrder K]

/-- the tangent-refresh part of one Newton iteration -/
def refreshSt (cfg : Cfg K) (total : K) (stepNum iteration : Nat) (s : Inner K) (l : Log K) :
    Inner K × Log K :=
  if (s.computeKT || (cfg.kTInitialState && stepNum == 1 && iteration == 1)
        || s.iterNR == cfg.computeEveryN - 1) = true then
    ({ s with iterNR := 0, kT := l.nKT + 1 },
      ({ l with nKT := l.nKT + 1 } : Log K).push (.kT s.c total (l.nKT + 1)))
  else
    ({ s with iterNR := s.iterNR + 1, computeKT := if cfg.modifiedNR then s.computeKT else true }, l)

theorem innerLoop_succ (cfg : Cfg K) (env : Env K) (total : K) (stepNum rem : Nat) (s : Inner K)
    (l : Log K) :
    innerLoop cfg env total stepNum (rem + 1) s l =
      (let iteration := cfg.maxNumIter - rem
       let p := refreshSt cfg total stepNum iteration s l
       let r := env.rmax p.2.nR
       let l1 := ({ p.2 with nR := p.2.nR + 1 } : Log K).push (.fint p.1.c total iteration r)
       if iteration ≥ 2 ∧ r < cfg.absTOL then (.converged, p.1, l1)
       else if r > p.1.prevR ∧ r > p.1.minR ∧ iteration > 2 then (.diverged, p.1, l1)
       else if iteration > 2 ∧ p.1.prevR ≠ 0 ∧ absK (p.1.prevR - r) / absK p.1.prevR < cfg.tooSlowTOL then
         (.tooSlow, { p.1 with minR := min p.1.minR r }, l1)
       else
         let l2 := l1.push (.solveD p.1.kT)
         let q := if cfg.lineSearch then lineSearch env cfg.maxIterLS 0 1 l2 else (1, l2)
         let l3 := ({ q.2 with nC := q.2.nC + 1 } : Log K).push (.update q.1 (.upd (q.2.nC + 1)))
         innerLoop cfg env total stepNum rem
           { p.1 with minR := min p.1.minR r, prevR := r, c := .upd (q.2.nC + 1) } l3) := by
  rw [innerLoop]
  unfold refreshSt
  dsimp only
  split_ifs <;> rfl

end Compmech.NR
