import CompmechVerif.Model.NewtonRaphson
open Compmech.NR
#check @Log.push
#check @Log.note
#check @bisect
#check @innerLoop
