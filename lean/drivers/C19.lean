/- line-protocol driver of the C19 model -/
import CompmechVerif.Drv.C19
def main : IO Unit := Compmech.Proto.runLoop Compmech.Drv.C19.handle
