/- line-protocol driver of the C06 model: `lake env lean --run drivers/C06.lean < ops.txt` -/
import CompmechVerif.Drv.C06
def main : IO Unit := Compmech.Proto.runLoop Compmech.Drv.C06.handle
