/- line-protocol driver of the C01 model: `lake env lean --run drivers/C01.lean < ops.txt` -/
import CompmechVerif.Drv.C01
def main : IO Unit := Compmech.Proto.runLoop Compmech.Drv.C01.handle
