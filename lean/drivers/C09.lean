/- line-protocol driver of the C09 model: `lake env lean --run drivers/C09.lean < ops.txt` -/
import CompmechVerif.Drv.C09
def main : IO Unit := Compmech.Proto.runLoop Compmech.Drv.C09.handle
