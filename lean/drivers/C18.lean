/- line-protocol driver of the C18 model: `lake env lean --run drivers/C18.lean < ops.txt` -/
import CompmechVerif.Drv.C18
def main : IO Unit := Compmech.Proto.runLoop Compmech.Drv.C18.handle
