/- line-protocol driver of the C07 model -/
import CompmechVerif.Drv.C07
def main : IO Unit := Compmech.Proto.runLoop Compmech.Drv.C07.handle
