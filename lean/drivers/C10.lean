/- line-protocol driver of the C10 generated tables: `lake env lean --run drivers/C10.lean < ops.txt` -/
import CompmechVerif.Drv.C10
def main : IO Unit := Compmech.Proto.runLoop Compmech.Drv.C10.handle
