/- line-protocol driver of the C12 model: `lake env lean --run drivers/C12.lean < ops.txt` -/
import CompmechVerif.Drv.C12
def main : IO Unit := Compmech.Proto.runLoop Compmech.Drv.C12.handle
