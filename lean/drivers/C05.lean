/- line-protocol driver of the C05 model: `lake env lean --run drivers/C05.lean < ops.txt` -/
import CompmechVerif.Drv.C05
def main : IO Unit := Compmech.Proto.runLoop Compmech.Drv.C05.handle
