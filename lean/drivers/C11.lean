/- line-protocol driver of the C11 model -/
import CompmechVerif.Drv.C11
def main : IO Unit := Compmech.Proto.runLoop Compmech.Drv.C11.handle
