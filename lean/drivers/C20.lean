/- line-protocol driver of the C20 models: `lake env lean --run drivers/C20.lean < ops.txt` -/
import CompmechVerif.Drv.C20
def main : IO Unit := Compmech.Proto.runLoop Compmech.Drv.C20.handle
