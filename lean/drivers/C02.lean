/- line-protocol driver of the C02 glue model: `lake env lean --run drivers/C02.lean < ops.txt` -/
import CompmechVerif.Drv.C02
def main : IO Unit := Compmech.Proto.runLoop Compmech.Drv.C02.handle
