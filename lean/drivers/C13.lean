/- line-protocol driver of the C13 model: `lake env lean --run drivers/C13.lean < ops.txt` -/
import CompmechVerif.Drv.C13
def main : IO Unit := Compmech.Proto.runLoop Compmech.Drv.C13.handle
