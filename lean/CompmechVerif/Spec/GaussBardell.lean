/-
The tensor Gauss–Legendre rule of the numerically integrated panel kernels with Bardell basis values
(glue between `Spec/GaussLift.lean`, `Spec/WholeMatrix.lean` and `Bardell/GaussProducts.lean`).

`bardellRule rx ry fl i k j l` : the abscissae are `(node, weight)` pairs; the basis values are those of the Bardell
series of each field (edge flags `fl dir f`) for row series indices `(i, j)` and column series indices `(k, l)`.
`quadIntegrals rx ry fl` : the one-dimensional QUADRATURE integrals as an `Integrals` family (so that the whole-matrix
theorems of C02/C03 apply to them), `exactIntegrals fl` : the REAL integrals; `quadIntegrals_close` : for the tabulated
rules (binary64 roundings) they differ by at most the C10 tolerance when the rule is large enough for the degrees.
-/
import CompmechVerif.Spec.GaussLift
import CompmechVerif.Spec.WholeMatrix
import CompmechVerif.Bardell.GaussProducts
import CompmechVerif.Gen.CTables.LegGaussAll

set_option linter.unusedSectionVars false

namespace Compmech.Panel
open Compmech.C10

variable {K : Type} [Field K]

/-- the tensor rule with abscissae `(node, weight)` in each direction and the values of the Bardell functions
`D^d (flag · u_a)` there; `a` is the series index of the row (`i` along x, `j` along y) or of the column
(`k` along x, `l` along y) degree of freedom; `fl dir f t`, `t = 0..3`, are the four edge flags of field `f` in direction `dir` -/
def bardellRule (rx ry : List (K × K)) (fl : Dir → Fld → Nat → K) (i k j l : Nat) : TensorRule K (K × K) (K × K) where
  gx := rx
  gy := ry
  wx := Prod.snd
  wy := Prod.snd
  Ex := fun g d f a => bardellVal (fl .x f) d (pick .x a i k j l) g.1
  Ey := fun h d f a => bardellVal (fl .y f) d (pick .y a i k j l) h.1

/-- the one-dimensional quadrature integrals `Σ_g w_g · D^{d₁}φ^{f₁}_a(x_g) · D^{d₂}φ^{f₂}_b(x_g)` (rule `rx` along x,
`ry` along y; the quadrature is over the whole edge whatever the declared domain) -/
def quadIntegrals (rx ry : List (K × K)) (fl : Dir → Fld → Nat → K) : Integrals K
  | .x, _, d₁, f₁, a, d₂, f₂, b =>
    (rx.map fun g : K × K => g.2 * (bardellVal (fl .x f₁) d₁ a g.1 * bardellVal (fl .x f₂) d₂ b g.1)).sum
  | .y, _, d₁, f₁, a, d₂, f₂, b =>
    (ry.map fun g : K × K => g.2 * (bardellVal (fl .y f₁) d₁ a g.1 * bardellVal (fl .y f₂) d₂ b g.1)).sum

theorem quadIntegrals_comm (rx ry : List (K × K)) (fl : Dir → Fld → Nat → K) : (quadIntegrals rx ry fl).Comm := by
  intro dir dom d₁ f₁ a d₂ f₂ b
  cases dir <;> exact congrArg List.sum (List.map_congr_left fun g _ => by ring)

/-- the context with the quadrature integrals of the Bardell rule is the kernel context `ctxAt` for the series indices
`(i, j)`, `(k, l)` with the integral family `quadIntegrals` -/
theorem bardellRule_quadCtx (rx ry : List (K × K)) (fl : Dir → Fld → Nat → K) (i k j l : Nat) (base : PCtx K) :
    (bardellRule rx ry fl i k j l).quadCtx base = ctxAt base (quadIntegrals rx ry fl) i k j l := by
  unfold TensorRule.quadCtx ctxAt
  congr 1
  funext dir dom d₁ f₁ a d₂ f₂ b
  cases dir <;> rfl

open intervalIntegral in
/-- the REAL integrals `flag_a · flag_b · ∫_{-1}^{1} D^{d₁}u_a · D^{d₂}u_b` over the whole edge -/
noncomputable def exactIntegrals (fl : Dir → Fld → Nat → ℝ) : Integrals ℝ :=
  fun dir _ d₁ f₁ a d₂ f₂ b =>
    bflag (fl dir f₁) a * bflag (fl dir f₂) b * ∫ x in (-1 : ℝ)..1, (dbasis d₁ a).eval x * (dbasis d₂ b).eval x

/-- scale of the quadrature error of one integral: `|flag_a·flag_b| · ‖num_a · num_b‖₁ / (den_a · den_b)`
(1-norm of the integer coefficients of the product of the two numerator polynomials over the common denominators) -/
noncomputable def quadScale (fl : Dir → Fld → Nat → ℝ) (dir : Dir) (d₁ : Nat) (f₁ : Fld) (a : Nat) (d₂ : Nat) (f₂ : Fld)
    (b : Nat) : ℝ :=
  |bflag (fl dir f₁) a * bflag (fl dir f₂) b|
    * norm1 (coeffs (K := ℝ) (IPoly.mul (dbasis d₁ a).num (dbasis d₂ b).num))
    / (((dbasis d₁ a).den : ℝ) * ((dbasis d₂ b).den : ℝ))

/-- every `case n` of the regenerated Gauss–Legendre table passed the binary64 moment check (C10 `leggauss_ok`) -/
theorem table_gaussB64Ok {n : Nat} {pts wts : List Lit} (h : (n, pts, wts) ∈ Gen.LegGauss.table) :
    gaussB64Ok tolB64N tolB64D n pts wts = true := by
  have hc := casesOk_mem Gen.LegGaussAll.ok _ h
  simp only [caseOk, Bool.and_eq_true] at hc
  exact hc.1

/-- order of the rule used in a direction -/
def ruleOrder (nx ny : Nat) : Dir → Nat
  | .x => nx
  | .y => ny

/-- **quadrature integrals vs. real integrals.**  For tabulated rules `case nx`, `case ny` (binary64 roundings of the
literals) and any two Bardell functions `a`, `b`, derivative orders `d₁`, `d₂`, whose product has degree at most
`2n − 1` (`n` the order of the rule of that direction), the quadrature integral is within
`2·10⁻¹⁵ · quadScale` of `flag_a·flag_b·∫_{-1}^{1} D^{d₁}u_a·D^{d₂}u_b` — for ALL real values of the edge flags. -/
theorem quadIntegrals_close {nx ny : Nat} {ptsx wtsx ptsy wtsy : List Lit}
    (hx : (nx, ptsx, wtsx) ∈ Gen.LegGauss.table) (hy : (ny, ptsy, wtsy) ∈ Gen.LegGauss.table)
    (fl : Dir → Fld → Nat → ℝ) (dir : Dir) (dom : Dom) (d₁ : Nat) (f₁ : Fld) (a : Nat) (d₂ : Nat) (f₂ : Fld) (b : Nat)
    (hdeg : (max a 3 + 1 - d₁) + (max b 3 + 1 - d₂) - 1 ≤ 2 * ruleOrder nx ny dir) :
    |quadIntegrals (gaussRuleB64 ptsx wtsx) (gaussRuleB64 ptsy wtsy) fl dir dom d₁ f₁ a d₂ f₂ b
        - exactIntegrals fl dir dom d₁ f₁ a d₂ f₂ b| * 10 ^ 15
      ≤ 2 * quadScale fl dir d₁ f₁ a d₂ f₂ b := by
  have h1 : ((tolB64D : Nat) : ℝ) = 10 ^ 15 := by norm_num [tolB64D]
  have h2 : ((tolB64N : Nat) : ℝ) = 2 := by norm_num [tolB64N]
  have htd : 0 < tolB64D := by norm_num [tolB64D]
  rw [← dbasis_num_length, ← dbasis_num_length] at hdeg
  cases dir with
  | x =>
    have := gaussB64Ok_bardell_product htd (table_gaussB64Ok hx) d₁ d₂ a b hdeg (fl .x f₁) (fl .x f₂)
    rw [gaussQuadB64_eq_sum, h1, h2] at this
    exact this
  | y =>
    have := gaussB64Ok_bardell_product htd (table_gaussB64Ok hy) d₁ d₂ a b hdeg (fl .y f₁) (fl .y f₂)
    rw [gaussQuadB64_eq_sum, h1, h2] at this
    exact this

/-- the degree condition of `quadIntegrals_close` in terms of the series indices: it holds for every pair of
derivative orders as soon as the rule of that direction has at least 4 points and more points than either index -/
theorem degree_ok_of_lt {n a b : Nat} (d₁ d₂ : Nat) (h4 : 4 ≤ n) (ha : a < n) (hb : b < n) :
    (max a 3 + 1 - d₁) + (max b 3 + 1 - d₂) - 1 ≤ 2 * n := by
  omega

/-- …and it FAILS for the smallest series: two cubic Hermite functions (`a, b < 4`, no derivative) need a 4-point rule,
whatever the series order -/
theorem degree_not_ok_three : ¬ ((max 0 3 + 1 - 0) + (max 0 3 + 1 - 0) - 1 ≤ 2 * 3) := by decide

/-- **the context the analytic kernel is evaluated in vs. the context of the real integrals.**  For series indices
`(i, j)` (row) and `(k, l)` (column) with `4 ≤ nx`, `i, k < nx`, `4 ≤ ny`, `j, l < ny`, EVERY one-dimensional integral of
the quadrature context `ctxAt base (quadIntegrals …) i k j l` over the whole edge — any derivative orders, any fields,
any real edge flags — is within `2·10⁻¹⁵·quadScale` of the same integral of the exact context
`ctxAt base (exactIntegrals fl) i k j l` (`flag·flag·∫_{-1}^{1} D^{d₁}u·D^{d₂}u`). -/
theorem ctxAt_quad_close {nx ny : Nat} {ptsx wtsx ptsy wtsy : List Lit}
    (hx : (nx, ptsx, wtsx) ∈ Gen.LegGauss.table) (hy : (ny, ptsy, wtsy) ∈ Gen.LegGauss.table)
    (fl : Dir → Fld → Nat → ℝ) (base : PCtx ℝ) {i k j l : Nat}
    (hxo : 4 ≤ nx ∧ i < nx ∧ k < nx) (hyo : 4 ≤ ny ∧ j < ny ∧ l < ny)
    (dir : Dir) (d₁ : Nat) (f₁ : Fld) (a : Idx) (d₂ : Nat) (f₂ : Fld) (b : Idx) :
    |(ctxAt base (quadIntegrals (gaussRuleB64 ptsx wtsx) (gaussRuleB64 ptsy wtsy) fl) i k j l).J dir .full d₁ f₁ a d₂ f₂ b
        - (ctxAt base (exactIntegrals fl) i k j l).J dir .full d₁ f₁ a d₂ f₂ b| * 10 ^ 15
      ≤ 2 * quadScale fl dir d₁ f₁ (pick dir a i k j l) d₂ f₂ (pick dir b i k j l) := by
  refine quadIntegrals_close hx hy fl dir .full d₁ f₁ _ d₂ f₂ _ ?_
  obtain ⟨h4x, hi, hk⟩ := hxo
  obtain ⟨h4y, hj, hl⟩ := hyo
  cases dir <;> cases a <;> cases b <;> simp only [pick, ruleOrder] <;> omega

end Compmech.Panel
