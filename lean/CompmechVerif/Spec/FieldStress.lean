/-
The C kernel `cfstrain` (compmech/panel/models/clt_bardell_field.pyx) at ONE evaluation point, assembled from the REGENERATED
per-degree-of-freedom increments of `Gen/Field/Clt.lean`: `exx = 0; …; for j: for i: exx += …` — the sum over the degrees of
freedom of the increments, with the branch `flagcyl` (`r != 0`) for `eyy`.  A point is described by the list of the `FCtx` its
degrees of freedom see there (amplitudes, basis values, `a, b, r`); the `NLterms` flag handed to the kernel overwrites `X.NL`.
Used by `Props/C11.lean` to state `Panel.stress` on the regenerated strain terms.
-/
import CompmechVerif.Gen.Field.Clt
import CompmechVerif.Spec.Kinematics
import CompmechVerif.Model.ChunkingLemmas
import CompmechVerif.Core.OpSpecTactics
import Mathlib.Tactic.FinCases
import Mathlib.Tactic.FieldSimp
import Mathlib.Tactic.Ring

namespace Compmech.Panel
open Compmech.Gen.Field Compmech.Chunking

variable {K : Type} [Field K]

/-- the six accumulators of `cfstrain` after the loops over `j, i` -/
def cltStrainAt (cyl : Bool) (dofs : List (FCtx K)) : Strain6 K :=
  { exx := (dofs.map Clt.cfstrain.exx).sum
    eyy := (dofs.map fun X => if cyl then Clt.cfstrain.eyy_cyl X else Clt.cfstrain.eyy_flat X).sum
    gxy := (dofs.map Clt.cfstrain.gxy).sum
    kxx := (dofs.map Clt.cfstrain.kxx).sum
    kyy := (dofs.map Clt.cfstrain.kyy).sum
    kxy := (dofs.map Clt.cfstrain.kxy).sum }

/-- `cfstrain(…, NLterms)` as a point kernel: `dofsAt x` are the degrees of freedom as seen at the point `x` -/
def cltKernel {α : Type} (cyl : Bool) (dofsAt : α → List (FCtx K)) (flag : Nat) (x : α) : Strain6 K :=
  cltStrainAt cyl ((dofsAt x).map fun X => { X with NL := (flag : K) })

/-- the Donnell operator table of the model: cylindrical (`r ≠ 0`) or flat -/
def donnellOps (cyl : Bool) (P : PCtx K) : Fld → Fin 6 → List (OpTerm K) :=
  if cyl then cpanelOps P else plateOps P

/-- linear Donnell strain vector of the whole series at a point: sum over the degrees of freedom of the operator table -/
def donnellStrain (cyl : Bool) (dofs : List (FCtx K)) (q : Fin 6) : K :=
  (dofs.map fun X => dofOp X (donnellOps cyl X.toP) q).sum

/-- the increment one degree of freedom adds to accumulator `q` -/
def cltIncr (cyl : Bool) (q : Fin 6) (X : FCtx K) : K :=
  match q with
  | 0 => Clt.cfstrain.exx X
  | 1 => if cyl then Clt.cfstrain.eyy_cyl X else Clt.cfstrain.eyy_flat X
  | 2 => Clt.cfstrain.gxy X
  | 3 => Clt.cfstrain.kxx X
  | 4 => Clt.cfstrain.kyy X
  | 5 => Clt.cfstrain.kxy X

theorem cltStrainAt_vec (cyl : Bool) (dofs : List (FCtx K)) (q : Fin 6) :
    (cltStrainAt cyl dofs).vec q = (dofs.map (cltIncr cyl q)).sum := by
  fin_cases q <;> rfl

set_option linter.unusedSimpArgs false in
set_option linter.unnecessarySeqFocus false in
/-- with `NLterms = 0` every increment is the Donnell operator table applied to that degree of freedom (flat: no condition on `r`) -/
theorem cltIncr_linear [CharZero K] (cyl : Bool) (X : FCtx K) (ha : X.a ≠ 0) (hb : X.b ≠ 0) (hr : cyl = true → X.r ≠ 0)
    (h0 : X.NL = 0) (q : Fin 6) : cltIncr cyl q X = dofOp X (donnellOps cyl X.toP) q := by
  cases cyl
  · fin_cases q <;>
      simp only [Fin.reduceFinMk, Fin.isValue, Fin.zero_eta, Fin.mk_one, cltIncr, donnellOps, panel_entry, dofOp, plateOps, FCtx.toP, h0, List.map, List.sum_cons, List.sum_nil,
        Bool.false_eq_true, if_false] <;>
      field_simp <;> ring
  · have hr' : X.r ≠ 0 := hr rfl
    fin_cases q <;>
      simp only [Fin.reduceFinMk, Fin.isValue, Fin.zero_eta, Fin.mk_one, cltIncr, donnellOps, panel_entry, dofOp, plateOps, cpanelOps, FCtx.toP, h0, List.map, List.sum_cons,
        List.sum_nil, if_true] <;>
      field_simp <;> ring

/-- `cfstrain(…, NLterms=0)` returns, at every point, the linear Donnell strains of the WHOLE series -/
theorem cltKernel_linear [CharZero K] {α : Type} (cyl : Bool) (dofsAt : α → List (FCtx K)) (x : α)
    (h : ∀ X ∈ dofsAt x, X.a ≠ 0 ∧ X.b ≠ 0 ∧ (cyl = true → X.r ≠ 0)) (q : Fin 6) :
    (cltKernel cyl dofsAt 0 x).vec q = donnellStrain cyl (dofsAt x) q := by
  unfold cltKernel donnellStrain
  rw [cltStrainAt_vec, List.map_map]
  refine congrArg List.sum (List.map_congr_left fun X hX => ?_)
  obtain ⟨ha, hb, hr⟩ := h X hX
  exact cltIncr_linear cyl { X with NL := ((0 : Nat) : K) } ha hb hr (by simp) q

end Compmech.Panel
