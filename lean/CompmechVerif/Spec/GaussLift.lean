/-
From ONE integration point to the WHOLE tensor quadrature (C03, C08, C14).

The numerically integrated kernels loop `for ptx: for pty:` over a tensor rule: the point `(g, h)` has weight
`wx_g · wy_h`, and the basis values it sees depend on `g` only in the x-direction and on `h` only in the y-direction.
`NCtx.toP` reads one point as a `PCtx` whose "integrals" are the products of the point values.  This file proves
(bilinearity; list-sum manipulations only, any field) that the weighted sum over all points of ANY expression that is a
finite sum of terms `coef · J.x(…) · J.y(…)` (`biForm`; `pairInt` and `hessian` of `Core/OpSpec.lean` are of this kind)
is the same expression read with the QUADRATURE integrals
  `J.x := Σ_g wx_g · E_g · E_g`,  `J.y := Σ_h wy_h · E_h · E_h`     (`TensorRule.Jq`, `TensorRule.quadCtx`).
-/
import CompmechVerif.Core.NumSpec
import CompmechVerif.Core.OpSpecLemmas
import CompmechVerif.Spec.Kinematics
import Mathlib.Algebra.BigOperators.Group.List.Basic
import Mathlib.Algebra.BigOperators.Ring.List
import Mathlib.Tactic.Ring
import Mathlib.Tactic.FinCases
import Mathlib.Data.Fintype.Basic

namespace Compmech.Panel

/-- a tensor-product integration rule together with the basis values seen at its abscissae:
`gx`, `gy` the abscissae (in loop order), `wx`, `wy` the weights, `Ex g d f i` the value at abscissa `g` of
`D^d φ^f` of the row (`i = A`) or column (`i = B`) degree of freedom in the x-direction, `Ey` likewise in y. -/
structure TensorRule (K : Type) (ιx ιy : Type) where
  gx : List ιx
  gy : List ιy
  wx : ιx → K
  wy : ιy → K
  Ex : ιx → Nat → Fld → Idx → K
  Ey : ιy → Nat → Fld → Idx → K

variable {K : Type} [Field K] {ιx ιy : Type}

namespace TensorRule

/-- the plain sum over all integration points, in the loop order `for ptx: for pty:` of the kernels -/
def sum (T : TensorRule K ιx ιy) (f : ιx → ιy → K) : K :=
  (T.gx.map fun g => (T.gy.map fun h => f g h).sum).sum

/-- the weighted sum `Σ_g Σ_h wx_g · wy_h · f(g, h)` -/
def wsum (T : TensorRule K ιx ιy) (f : ιx → ιy → K) : K :=
  T.sum fun g h => T.wx g * T.wy h * f g h

/-- the one-dimensional quadrature integrals: `Σ_g wx_g · E_g(d₁,f₁,i₁) · E_g(d₂,f₂,i₂)` along x, likewise along y -/
def Jq (T : TensorRule K ιx ιy) : Dir → Nat → Fld → Idx → Nat → Fld → Idx → K
  | .x, d₁, f₁, i₁, d₂, f₂, i₂ => (T.gx.map fun g => T.wx g * (T.Ex g d₁ f₁ i₁ * T.Ex g d₂ f₂ i₂)).sum
  | .y, d₁, f₁, i₁, d₂, f₂, i₂ => (T.gy.map fun h => T.wy h * (T.Ey h d₁ f₁ i₁ * T.Ey h d₂ f₂ i₂)).sum

/-- `base` with every one-dimensional integral (whatever the declared domain) replaced by its quadrature -/
def quadCtx (T : TensorRule K ιx ιy) (base : PCtx K) : PCtx K :=
  { base with J := fun dir _ => T.Jq dir }

/-- `X` is a family of integration-point contexts on the rule `T`: weight `wx_g · wy_h`, x-values depending on `g`
only, y-values on `h` only.  (Geometry, laminate and state of the points are NOT constrained here.) -/
structure Family (T : TensorRule K ιx ιy) (X : ιx → ιy → NCtx K) : Prop where
  weight : ∀ g h, (X g h).weight = T.wx g * T.wy h
  Ex : ∀ g h, (X g h).E .x = T.Ex g
  Ey : ∀ g h, (X g h).E .y = T.Ey h

/-! ### linearity of the weighted sum -/

theorem sum_zero (T : TensorRule K ιx ιy) : T.sum (fun _ _ => (0 : K)) = 0 := by
  simp [sum]

theorem sum_add (T : TensorRule K ιx ιy) (f f' : ιx → ιy → K) :
    T.sum (fun g h => f g h + f' g h) = T.sum f + T.sum f' := by
  simp only [sum, List.sum_map_add]

theorem sum_mul_left (T : TensorRule K ιx ιy) (c : K) (f : ιx → ιy → K) :
    T.sum (fun g h => c * f g h) = c * T.sum f := by
  simp only [sum, List.sum_map_mul_left]

theorem sum_congr (T : TensorRule K ιx ιy) {f f' : ιx → ιy → K} (h : ∀ g h, f g h = f' g h) : T.sum f = T.sum f' := by
  have : f = f' := funext fun g => funext fun h' => h g h'
  rw [this]

theorem wsum_zero (T : TensorRule K ιx ιy) : T.wsum (fun _ _ => (0 : K)) = 0 := by
  simp [wsum, sum]

theorem wsum_add (T : TensorRule K ιx ιy) (f f' : ιx → ιy → K) :
    T.wsum (fun g h => f g h + f' g h) = T.wsum f + T.wsum f' := by
  simp only [wsum, mul_add, sum_add]

theorem wsum_mul_left (T : TensorRule K ιx ιy) (c : K) (f : ιx → ιy → K) :
    T.wsum (fun g h => c * f g h) = c * T.wsum f := by
  unfold wsum
  rw [← sum_mul_left]
  exact T.sum_congr fun g h => by ring

theorem wsum_congr (T : TensorRule K ιx ιy) {f f' : ιx → ιy → K} (h : ∀ g h, f g h = f' g h) : T.wsum f = T.wsum f' := by
  have : f = f' := funext fun g => funext fun h' => h g h'
  rw [this]

/-- the weighted sum of a finite sum is the finite sum of the weighted sums -/
theorem wsum_list_sum {α : Type} (T : TensorRule K ιx ιy) (l : List α) (F : α → ιx → ιy → K) :
    T.wsum (fun g h => (l.map fun a => F a g h).sum) = (l.map fun a => T.wsum (F a)).sum := by
  induction l with
  | nil => simpa using T.wsum_zero
  | cons a l ih =>
    simp only [List.map_cons, List.sum_cons]
    rw [wsum_add, ih]

/-- **the tensor structure**: the weighted sum of `c · u(g) · v(h)` is `c · (Σ_g wx_g u_g) · (Σ_h wy_h v_h)` -/
theorem wsum_prod (T : TensorRule K ιx ιy) (c : K) (u : ιx → K) (v : ιy → K) :
    T.wsum (fun g h => c * u g * v h) = c * (T.gx.map fun g => T.wx g * u g).sum * (T.gy.map fun h => T.wy h * v h).sum := by
  unfold wsum sum
  have inner : ∀ g, (T.gy.map fun h => T.wx g * T.wy h * (c * u g * v h)).sum
      = (c * (T.gy.map fun h => T.wy h * v h).sum) * (T.wx g * u g) := by
    intro g
    rw [← List.sum_map_mul_left, ← List.sum_map_mul_right]
    exact congrArg List.sum (List.map_congr_left fun h _ => by ring)
  simp only [inner, List.sum_map_mul_left]
  ring

end TensorRule

/-! ### finite sums of terms `coef · J.x(…) · J.y(…)` -/

/-- the six arguments `(d₁, f₁, i₁, d₂, f₂, i₂)` of a one-dimensional integral `∫ D^{d₁}φ^{f₁}_{i₁} · D^{d₂}φ^{f₂}_{i₂}` -/
structure JArgs where
  d₁ : Nat
  f₁ : Fld
  i₁ : Idx
  d₂ : Nat
  f₂ : Fld
  i₂ : Idx

def PCtx.Jat (P : PCtx K) (dir : Dir) (dom : Dom) (k : JArgs) : K := P.J dir dom k.d₁ k.f₁ k.i₁ k.d₂ k.f₂ k.i₂

/-- a finite sum of terms `coef · J.x(…) · J.y(…)`: the general shape of an analytic kernel entry -/
def biForm (P : PCtx K) (dx dy : Dom) (ts : List (K × JArgs × JArgs)) : K :=
  (ts.map fun t => t.1 * P.Jat .x dx t.2.1 * P.Jat .y dy t.2.2).sum

namespace TensorRule

/-- a family of analytic-kernel contexts whose "integrals" are the products of the values at the abscissae of `T` -/
structure PFamily (T : TensorRule K ιx ιy) (P : ιx → ιy → PCtx K) : Prop where
  Jx : ∀ g h dom d₁ f₁ i₁ d₂ f₂ i₂, (P g h).J .x dom d₁ f₁ i₁ d₂ f₂ i₂ = T.Ex g d₁ f₁ i₁ * T.Ex g d₂ f₂ i₂
  Jy : ∀ g h dom d₁ f₁ i₁ d₂ f₂ i₂, (P g h).J .y dom d₁ f₁ i₁ d₂ f₂ i₂ = T.Ey h d₁ f₁ i₁ * T.Ey h d₂ f₂ i₂

/-- the points of a family on `T`, each read as a `PCtx` (`NCtx.toP`), form such a family -/
theorem Family.toP {T : TensorRule K ιx ιy} {X : ιx → ιy → NCtx K} (hX : T.Family X) :
    T.PFamily fun g h => (X g h).toP where
  Jx := fun g h _ _ _ _ _ _ _ => by simp only [NCtx.toP, hX.Ex g h]
  Jy := fun g h _ _ _ _ _ _ _ => by simp only [NCtx.toP, hX.Ey g h]

/-- replacing the laminate matrix does not touch the integrals -/
theorem PFamily.withF {T : TensorRule K ιx ιy} {P : ιx → ιy → PCtx K} (hP : T.PFamily P)
    (F : ιx → ιy → Fin 6 → Fin 6 → K) : T.PFamily fun g h => { P g h with F := F g h } :=
  ⟨hP.Jx, hP.Jy⟩

/-- **tensor Gauss sum of ANY finite sum of terms `coef · J.x · J.y`** (coefficients independent of the point):
`Σ_g Σ_h wx_g wy_h · form(point (g,h)) = form(quadrature integrals)` -/
theorem wsum_biForm (T : TensorRule K ιx ιy) {P : ιx → ιy → PCtx K} (hP : T.PFamily P) (base : PCtx K) (dx dy : Dom)
    (ts : List (K × JArgs × JArgs)) :
    T.wsum (fun g h => biForm (P g h) dx dy ts) = biForm (T.quadCtx base) dx dy ts := by
  unfold biForm
  rw [wsum_list_sum]
  refine congrArg List.sum (List.map_congr_left fun t _ => ?_)
  simp only [PCtx.Jat, hP.Jx, hP.Jy]
  rw [wsum_prod]
  rfl

/-- the same for `pairInt` (two operators given by term lists) -/
theorem wsum_pairInt (T : TensorRule K ιx ιy) {P : ιx → ιy → PCtx K} (hP : T.PFamily P) (base : PCtx K) (dx dy : Dom)
    (α β : Fld) (S U : List (OpTerm K)) :
    T.wsum (fun g h => pairInt (P g h) dx dy α β S U) = pairInt (T.quadCtx base) dx dy α β S U := by
  unfold pairInt
  rw [wsum_list_sum]
  refine congrArg List.sum (List.map_congr_left fun s _ => ?_)
  rw [wsum_list_sum]
  refine congrArg List.sum (List.map_congr_left fun t _ => ?_)
  simp only [hP.Jx, hP.Jy]
  rw [wsum_prod]
  rfl

/-- **tensor Gauss sum of a Hessian form**: if all points have the panel dimensions `a`, `b` of `base`, the weighted sum
over the points of the bilinear form `hessian` (operator table `ops`, weight matrix `W`, both the same at every point)
is the bilinear form read with the quadrature integrals -/
theorem wsum_hessian (T : TensorRule K ιx ιy) {P : ιx → ιy → PCtx K} (hP : T.PFamily P) (base : PCtx K)
    (ha : ∀ g h, (P g h).a = base.a) (hb : ∀ g h, (P g h).b = base.b) {n : Nat} (dx dy : Dom)
    (ops : Fld → Fin n → List (OpTerm K)) (W : Fin n → Fin n → K) (α β : Fld) :
    T.wsum (fun g h => hessian (P g h) dx dy ops W α β) = hessian (T.quadCtx base) dx dy ops W α β := by
  unfold hessian
  simp only [ha, hb]
  rw [wsum_mul_left]
  refine congrArg (base.a * base.b / 4 * ·) ?_
  rw [wsum_list_sum]
  refine congrArg List.sum (List.map_congr_left fun p _ => ?_)
  rw [wsum_list_sum]
  refine congrArg List.sum (List.map_congr_left fun q _ => ?_)
  rw [wsum_mul_left, T.wsum_pairInt hP base]

/-- an entry expression that is a Hessian form (fixed operator table and weight matrix) at every point and at the
quadrature context sums over the points to itself at the quadrature context -/
theorem wsum_of_eq_hessian (T : TensorRule K ιx ιy) {P : ιx → ιy → PCtx K} (hP : T.PFamily P) (base : PCtx K)
    (ha : ∀ g h, (P g h).a = base.a) (hb : ∀ g h, (P g h).b = base.b) {n : Nat} (dx dy : Dom)
    (ops : Fld → Fin n → List (OpTerm K)) (W : Fin n → Fin n → K) (α β : Fld) (entry : PCtx K → K)
    (hpt : ∀ g h, entry (P g h) = hessian (P g h) dx dy ops W α β)
    (hq : entry (T.quadCtx base) = hessian (T.quadCtx base) dx dy ops W α β) :
    T.wsum (fun g h => entry (P g h)) = entry (T.quadCtx base) := by
  rw [T.wsum_congr hpt, T.wsum_hessian hP base ha hb, hq]

/-- the sum over the points of `weight × f` is the weighted sum of `f` -/
theorem sum_weight_mul (T : TensorRule K ιx ιy) {X : ιx → ιy → NCtx K} (hX : T.Family X) (f : ιx → ιy → K) :
    T.sum (fun g h => (X g h).weight * f g h) = T.wsum f := by
  unfold wsum
  exact T.sum_congr fun g h => by rw [hX.weight]

/-- the point `(g, h)` of the rule with everything else (geometry, laminate, state) taken from `X0` -/
def point (T : TensorRule K ιx ιy) (X0 : NCtx K) (g : ιx) (h : ιy) : NCtx K :=
  { X0 with weight := T.wx g * T.wy h, E := fun dir => match dir with | .x => T.Ex g | .y => T.Ey h }

/-- such points exist for every rule: the hypotheses `Family` are satisfiable -/
theorem family_point (T : TensorRule K ιx ιy) (X0 : NCtx K) : T.Family (T.point X0) :=
  ⟨fun _ _ => rfl, fun _ _ => rfl, fun _ _ => rfl⟩

end TensorRule

/-! ### the operator tables depend on the context only through the geometry -/

theorem plateOps_congr {P Q : PCtx K} (ha : P.a = Q.a) (hb : P.b = Q.b) : plateOps P = plateOps Q := by
  funext f p
  unfold plateOps
  rw [ha, hb]

theorem cpanelOps_congr {P Q : PCtx K} (ha : P.a = Q.a) (hb : P.b = Q.b) (hr : P.r = Q.r) :
    cpanelOps P = cpanelOps Q := by
  funext f p
  unfold cpanelOps
  rw [plateOps_congr ha hb, hr]

theorem gradOps_congr {P Q : PCtx K} (ha : P.a = Q.a) (hb : P.b = Q.b) : gradOps P = gradOps Q := by
  funext f p
  unfold gradOps
  rw [ha, hb]

omit [Field K] in
theorem prestressW_congr {P Q : PCtx K} (h1 : P.Nxx = Q.Nxx) (h2 : P.Nyy = Q.Nyy) (h3 : P.Nxy = Q.Nxy) :
    prestressW P = prestressW Q := by
  funext p q
  unfold prestressW
  rw [h1, h2, h3]

/-! ### the laminate matrix as the kernels read it

The kernels read only the 18 upper entries `A11 … D66` of the laminate matrix (`B12 = F[0,4]` etc. once, used for both
`B12` and `B21`).  `abdOf F` is the ABD matrix with exactly these entries; it lets statements about the generated
terms that were proved for symmetric laminate matrices be used for ANY table `F`. -/

def abdOf (F : Fin 6 → Fin 6 → K) : Fin 6 → Fin 6 → K
  | 1, 0 => F 0 1 | 2, 0 => F 0 2 | 3, 0 => F 0 3 | 4, 0 => F 0 4 | 5, 0 => F 0 5
  | 2, 1 => F 1 2 | 3, 1 => F 0 4 | 4, 1 => F 1 4 | 5, 1 => F 1 5
  | 3, 2 => F 0 5 | 4, 2 => F 1 5 | 5, 2 => F 2 5
  | 4, 3 => F 3 4 | 5, 3 => F 3 5 | 5, 4 => F 4 5
  | 1, 3 => F 0 4 | 2, 3 => F 0 5 | 2, 4 => F 1 5
  | p, q => F p q

omit [Field K] in
theorem isABD_abdOf (F : Fin 6 → Fin 6 → K) : IsABD (abdOf F) where
  symm := by
    intro p q
    fin_cases p <;> fin_cases q <;> rfl
  b12 := rfl
  b16 := rfl
  b26 := rfl

omit [Field K] in
/-- for a laminate matrix that already is an ABD matrix nothing changes -/
theorem abdOf_eq_self (F : Fin 6 → Fin 6 → K) (hF : IsABD F) : abdOf F = F := by
  funext p q
  have s := hF.symm
  fin_cases p <;> fin_cases q <;>
    (first | rfl | exact s _ _ | exact hF.b12.symm | exact hF.b16.symm | exact hF.b26.symm | exact hF.b12.symm.trans (s _ _) | exact hF.b16.symm.trans (s _ _) | exact hF.b26.symm.trans (s _ _))

end Compmech.Panel
