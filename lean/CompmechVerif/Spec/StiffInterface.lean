/-
What C13 says about the STIFFENER kernels (compmech/stiffener/models/*.pyx): the operator tables and weights whose quadratic
energies the kernels are the Hessians of — read off the source, stated here explicitly, proved entry by entry in Props/C13.lean.

Conventions as in Spec/Interface.lean: for a LINE energy `OpTerm.dx` is the derivative order ALONG the line (ξ, integrated over the
length `a`) and `OpTerm.dy` the order NORMAL to it (η, evaluated on the line); for the SURFACE penalty `dx`, `dy` are the ξ and η orders.
Physical derivatives: `∂/∂x = (2/a) ∂ξ`, `∂/∂y = (2/b) ∂η`.
-/
import CompmechVerif.Core.StiffSpec
import CompmechVerif.Spec.Interface
import CompmechVerif.Core.OpSpecTactics
import Mathlib.Tactic.FinCases
import Mathlib.Data.Fintype.Basic

namespace Compmech.Panel

/-- `stiff_eq_hess [unfold lemmas]`: generated stiffener connection entry = penalty Hessian (the `conn_eq_hess` of Props/C12 with the
stiffener contexts unfolded as well) -/
syntax "stiff_eq_hess " "[" Lean.Parser.Tactic.simpLemma,* "]" : tactic
macro_rules
  | `(tactic| stiff_eq_hess [$ls,*]) => `(tactic|
      (simp only [Fin.reduceFinMk, Fin.isValue, Fin.zero_eta, Fin.mk_one, panel_entry, $ls,*, lineHess, surfHess,
         penaltyW, Pan.sgn, CCtx.a, CCtx.b, fld3, List.finRange, List.map, List.sum_cons, List.sum_nil]
       simp only [List.ofFn, Fin.foldr, Fin.foldr.loop, List.map, List.sum_cons, List.sum_nil,
         mul_zero, zero_mul, add_zero, zero_add]
       try simp
       try field_simp
       try ring))

variable {K : Type} [Field K]

/-! ### 2-D blade stiffener: skin (panel 1, on its line `y = ys`) – flange (panel 2, on its edge `η = −1`), `bladestiff2d…pyx`

The flange stands perpendicular on the skin: its in-plane transverse displacement `v` is the skin's `−w`, its deflection `w` is the
skin's `v`.  Penalised jumps (weights `kt, kt, kt, kr`):

  component 0 :  u_s − u_f            component 2 :  w_s + v_f
  component 1 :  v_s − w_f            component 3 :  w_s,y − w_f,y   (rotation about x; `w,y = (2/b) ∂η w` skin, `(2/bf) ∂η w` flange)

integrated along x over the length `a`:  U = kt/2 ∫ (c0² + c1² + c2²) dx + kr/2 ∫ c3² dx.  In a `CCtx`: `a1 = a`, `b1 = b`, `b2 = bf`. -/
def blade2dOps (C : CCtx K) : Pan → Fld → Fin 4 → List (OpTerm K)
  | .p1, .u, 0 => [⟨1, 0, 0⟩]
  | .p1, .v, 1 => [⟨1, 0, 0⟩]
  | .p1, .w, 2 => [⟨1, 0, 0⟩]
  | .p1, .w, 3 => [⟨2 / C.b1, 0, 1⟩]
  | .p2, .u, 0 => [⟨1, 0, 0⟩]
  | .p2, .w, 1 => [⟨1, 0, 0⟩]
  | .p2, .v, 2 => [⟨-1, 0, 0⟩]
  | .p2, .w, 3 => [⟨2 / C.b2, 0, 1⟩]
  | _, _, _ => []

/-- it is the base–flange table of the panel connections (`kCBFycte`, C12) with the skin in the role of the base -/
theorem blade2dOps_eq_bfyOps (C : CCtx K) : blade2dOps C = bfyOps C := by
  funext p f c
  fin_cases c <;> cases p <;> cases f <;> rfl

/-! ### T stiffener: skin (panel 1) – base (panel 2) face to face over the strip `y1 ≤ y ≤ y2`, `tstiff2d…pyx`

The base lies on the skin with the distance `dpb` between the two mid-surfaces.  Penalised jumps (weight `kt` each, no rotational
penalty), integrated over the strip:

  component 0 :  u_s + dpb · w_s,x − u_b          `w_s,x = (2/a) ∂ξ w_s`
  component 1 :  v_s + dpb · w_s,y − v_b          `w_s,y = (2/b) ∂η w_s`   (`b` = BAY width: the skin's own coordinate)
  component 2 :  w_s − w_b -/
def tsbOps (T : TCtx K) : Pan → Fld → Fin 4 → List (OpTerm K)
  | _, .u, 0 => [⟨1, 0, 0⟩]
  | _, .v, 1 => [⟨1, 0, 0⟩]
  | _, .w, 2 => [⟨1, 0, 0⟩]
  | .p1, .w, 0 => [⟨T.dpb * (2 / T.a), 1, 0⟩]
  | .p1, .w, 1 => [⟨T.dpb * (2 / T.b), 0, 1⟩]
  | _, _, _ => []

def tsbW (T : TCtx K) : Fin 4 → K
  | 3 => 0
  | _ => T.kt

/-! ### 1-D blade flange: a beam on the skin line `y = ys`, `bladestiff1d…pyx`

`fk0f` — generalised strains of the beam (flange of height `bf`, centroid at the distance `df` from the skin mid-surface):

  component 0 :  ε = u,x + df · w,xx          (axial strain at the centroid)
  component 1 :  κ = w,xx                      (bending about the flange's own strong axis: `F1 = bf²/12 · E1`)
  component 2 :  τ = w,xy                      (rate of twist)

strain energy  U = ½ ∫_0^a bf · [ E1 ε² + F1 κ² + Jxx τ² − 2 S1 ε τ ] dx.
`Jxx` is used as it is handed over (the caller passes a pure geometric quantity, finding `C13-blade1d-twist-stiffness-without-modulus`). -/
def beamStrainOps (B : BCtx K) : Fld → Fin 3 → List (OpTerm K)
  | .u, 0 => [⟨2 / B.a, 1, 0⟩]
  | .w, 0 => [⟨B.df * (4 / (B.a * B.a)), 2, 0⟩]
  | .w, 1 => [⟨4 / (B.a * B.a), 2, 0⟩]
  | .w, 2 => [⟨4 / (B.a * B.b), 1, 1⟩]
  | _, _ => []

def beamLaw (B : BCtx K) : Fin 3 → Fin 3 → K
  | 0, 0 => B.bf * B.E1
  | 1, 1 => B.bf * B.F1
  | 2, 2 => B.bf * B.Jxx
  | 0, 2 => -(B.bf * B.S1)
  | 2, 0 => -(B.bf * B.S1)
  | _, _ => 0

/-- `fkG0f` — work of the axial pre-load `Fx` of the flange on the rotation of the skin line:  ½ ∫_0^a Fx · (w,x)² dx
(the parameter `bf` of the kernel is not used) -/
def beamSlopeOps (B : BCtx K) : Fld → Fin 1 → List (OpTerm K)
  | .w, _ => [⟨2 / B.a, 1, 0⟩]
  | _, _ => []

def beamPreload (B : BCtx K) : Fin 1 → Fin 1 → K := fun _ _ => B.Fx

/-- `fkMf` — velocities of the flange: components `u̇, v̇, ẇ, ẇ,x, ẇ,y` on the skin line -/
def beamVelocityOps (B : BCtx K) : Fld → Fin 5 → List (OpTerm K)
  | .u, 0 => [⟨1, 0, 0⟩]
  | .v, 1 => [⟨1, 0, 0⟩]
  | .w, 2 => [⟨1, 0, 0⟩]
  | .w, 3 => [⟨2 / B.a, 1, 0⟩]
  | .w, 4 => [⟨2 / B.b, 0, 1⟩]
  | _, _ => []

/-- second moment of the flange's height about the skin mid-surface divided by its height: `(1/bf) ∫_{z0}^{z0+bf} z² dz`,
`z0 = h/2 + hb`, in the form the source writes it: `(4 bf² + 6 bf (h + 2 hb) + 3 (h + 2 hb)²)/12` -/
def beamRotaryInertia (B : BCtx K) : K :=
  (4 * (B.bf * B.bf) + 6 * B.bf * (B.h + 2 * B.hb) + 3 * (B.h + 2 * B.hb) ^ 2) / 12

/-- the weight AS ENCODED by `fkMf`: `T = ½ ∫_0^a μ bf hf [ u̇² + v̇² + ẇ² + 2·(κ df)·(u̇ ẇ,x + v̇ ẇ,y) + I (ẇ,x² + ẇ,y²) ] dx` with the coupling
factor `κ = 2`.  The kinetic energy of the blade (material point at the height `z` moving with `(u̇ − z ẇ,x, v̇ − z ẇ,y, ẇ)`, `df` the mean
height) has `|κ| = 1`: finding `C13-blade1d-flange-mass-coupling-doubled`. -/
def beamMassW (coupling : K) (B : BCtx K) : Fin 5 → Fin 5 → K
  | 0, 0 => B.mu * B.bf * B.hf
  | 1, 1 => B.mu * B.bf * B.hf
  | 2, 2 => B.mu * B.bf * B.hf
  | 3, 3 => B.mu * B.bf * B.hf * beamRotaryInertia B
  | 4, 4 => B.mu * B.bf * B.hf * beamRotaryInertia B
  | 0, 3 => B.mu * B.bf * B.hf * (coupling * B.df)
  | 3, 0 => B.mu * B.bf * B.hf * (coupling * B.df)
  | 1, 4 => B.mu * B.bf * B.hf * (coupling * B.df)
  | 4, 1 => B.mu * B.bf * B.hf * (coupling * B.df)
  | _, _ => 0

end Compmech.Panel
