/-
What the lamination-parameter part of C01 *says*, independent of `matobj.u` and of the loops in `laminate.py`:
double-angle values, the textbook invariants of a plane-stress ply matrix, the lamination-parameter formulas
written out entry by entry, quadratic forms of the reported 6×6 matrix.
-/
import CompmechVerif.Model.LaminationParams
import CompmechVerif.Spec.Rotation

namespace Compmech.Laminate

variable {K : Type} [Field K]

/-- `(cos 2θ, sin 2θ, cos 4θ, sin 4θ)` from `c = cos θ`, `s = sin θ` by the double-angle identities. -/
def trigOf (c s : K) : Trig K :=
  ⟨c ^ 2 - s ^ 2, 2 * s * c, (c ^ 2 - s ^ 2) ^ 2 - (2 * s * c) ^ 2, 2 * (2 * s * c) * (c ^ 2 - s ^ 2)⟩

/-- `(1, cos 2θ, sin 2θ, cos 4θ, sin 4θ)` -/
def Trig.toXi (g : Trig K) : Xi K := ⟨1, g.cos2t, g.sin2t, g.cos4t, g.sin4t⟩

/-- Tsai–Pagano invariants of a PLANE-STRESS ply matrix (`U1 … U5` of `q11, q22, q12, q66`), and the two
transverse-shear invariants `(q44 ± q55)/2`. -/
def planeInvariants (q : Q9 K) : Invariants K :=
  { u1 := (3 * q.q11 + 3 * q.q22 + 2 * q.q12 + 4 * q.q66) / 8
    u2 := (q.q11 - q.q22) / 2
    u3 := (q.q11 + q.q22 - 2 * q.q12 - 4 * q.q66) / 8
    u4 := (q.q11 + q.q22 + 6 * q.q12 - 4 * q.q66) / 8
    u5 := (q.q11 + q.q22 - 2 * q.q12 + 4 * q.q66) / 8
    u6 := (q.q44 + q.q55) / 2
    u7 := (q.q44 - q.q55) / 2 }

/-- The lamination-parameter formulas, entry by entry: with `x = (x0, x1, x2, x3, x4)` the weighted sums of
`(1, cos 2θ, sin 2θ, cos 4θ, sin 4θ)`,
`Q11 = U1 x0 + U2 x1 + U3 x3`, `Q22 = U1 x0 − U2 x1 + U3 x3`, `Q12 = U4 x0 − U3 x3`, `Q66 = U5 x0 − U3 x3`,
`Q16 = U2/2 x2 + U3 x4`, `Q26 = U2/2 x2 − U3 x4`, `Q44 = U6 x0 + U7 x1`, `Q55 = U6 x0 − U7 x1`, `Q45 = −U7 x2`. -/
def lpFormula (u : Invariants K) (x : Xi K) : Q9 K :=
  { q11 := u.u1 * x.x0 + u.u2 * x.x1 + u.u3 * x.x3
    q22 := u.u1 * x.x0 - u.u2 * x.x1 + u.u3 * x.x3
    q12 := u.u4 * x.x0 - u.u3 * x.x3
    q66 := u.u5 * x.x0 - u.u3 * x.x3
    q16 := u.u2 / 2 * x.x2 + u.u3 * x.x4
    q26 := u.u2 / 2 * x.x2 - u.u3 * x.x4
    q44 := u.u6 * x.x0 + u.u7 * x.x1
    q55 := u.u6 * x.x0 - u.u7 * x.x1
    q45 := -u.u7 * x.x2 }

/-- the constant (isotropic) part `Γ0` of a rotated ply matrix -/
def gamma0 (u : Invariants K) : Q9 K := lpFormula u ⟨1, 0, 0, 0, 0⟩

/-- the 2×2 array `[[E55, E45], [E45, E44]]`: the transverse-shear block with the two directions EXCHANGED with
respect to `A_general[3:5, 3:5] = [[E44, E45], [E45, E55]]` -/
def shearSwapped (q : Q9 K) : Mat 2 K := mat2 q.q55 q.q45 q.q45 q.q44

/-- the 2×2 array `[[E44, E45], [E45, E55]]` (`A_general[3:5, 3:5]`) -/
def shearBlock (q : Q9 K) : Mat 2 K := mat2 q.q44 q.q45 q.q45 q.q55

/-- A ply of material `m` at `(c, s) = (cos θ, sin θ)` with thickness `t`, carrying the four double-angle attributes. -/
def mkLPly (m : MatProps K) (x : K × K × K) : LPly K :=
  ⟨x.2.2, rotQ x.1 x.2.1 (planeStressQ m), some (trigOf x.1 x.2.1)⟩

/-- `(i, j)` couples a direct component (`0, 1` resp. `0, 1, 3, 4`) with a shear component (`2` resp. `2, 5`):
the positions `(1,3), (2,3)` and transposes of `A`, `B`, `D` in one-based notation. -/
def shearCoupling {n : Nat} (i j : Fin n) : Prop := (i.val % 3 = 2) ≠ (j.val % 3 = 2)

instance {n : Nat} (i j : Fin n) : Decidable (shearCoupling i j) := by unfold shearCoupling; infer_instance

/-- `xᵀ M x` for the reported 6×6 matrix -/
def qform6 (M : Mat 6 K) (x : Fin 6 → K) : K := dotProduct x (Matrix.mulVec (M : Matrix (Fin 6) (Fin 6) K) x)

/-- positive definite: `xᵀ M x > 0` for every `x ≠ 0` -/
def PosDef6 {K : Type} [Field K] [LT K] (M : Mat 6 K) : Prop := ∀ x : Fin 6 → K, x ≠ 0 → 0 < qform6 M x

/-! ## Concrete witnesses (over ℚ) used by the refutations in `Props/C01.lean` -/

/-- isotropic `(E, E, nu) = (1, 1, 1/4)` as `read_laminaprop` completes it -/
def mIso : MatProps ℚ := ⟨1, 1, 1/4, 2/5, 2/5, 2/5, 1, 1/4, 1/4⟩

/-- the one-ply laminate of the material counterexample -/
def lamIso : Lam ℚ := { (Lam.fresh : Lam ℚ) with plies := [mkLPly mIso (1, 0, 1)], matobj := some mIso }

/-- two planar materials that differ in `e1` -/
def mOne : MatProps ℚ := ⟨1, 1, 0, 1, 1, 1, 1, 0, 0⟩

def mTwo : MatProps ℚ := ⟨2, 1, 0, 1, 1, 1, 1, 0, 0⟩

/-- the two-ply, two-material laminate of the mixed-material counterexample; `lam.matobj` is the first material -/
def lamMixed : Lam ℚ :=
  { (Lam.fresh : Lam ℚ) with plies := [mkLPly mOne (1, 0, 1), mkLPly mTwo (1, 0, 1)], matobj := some mOne }

/-- non-vacuity of the two general refutations: a planar material, one ply at 0°, offset `1`, `g13 ≠ g23` -/
def mPlanar : MatProps ℚ := ⟨2, 1, 1/4, 1, 3, 5, 1, 0, 0⟩

def lamOffset : Lam ℚ :=
  { (Lam.fresh : Lam ℚ) with plies := [mkLPly mPlanar (1, 0, 1)], matobj := some mPlanar, offset := 1 }

end Compmech.Laminate
