/-
C08, assembly level: helper definitions and lemmas for `assembly_tangent_is_jacobian` (Props/C08.lean).

Nothing here is a second model of the assembly.  `asmFint` / `asmKT` are the EXISTING model functions
`calcFint` / `calcK0 true` of `Model/Assembly.lean` fed with state-dependent panel parts:

* `fP k x` : what `panels[k].calc_fint(c, size, col0)` returns inside its own range when the panel's own slice
  `c[col_start:col_end]` of the global amplitude vector is `x` (a vector of length `3 m n`);
* `kP k x` : the stand-alone (`row0 = col0 = 0`, `finalize=False`) COO result of
  `panels[k].calc_k0(c, NLgeom=True) + panels[k].calc_kG0(c, NLgeom=True)` at that slice — upper triangle only, as
  the kernels skip `row > col`; the panel's own tangent MATRIX therefore is `finalize (kP k x)`;
* `slice ps k c` : `c[col_start:col_end]` with the ranges of `PanelAssembly.__init__` (`startOf (panelSizes ps) k`);
* `axpy c t d = c + t d`, `unitVec n j = e_j`.
-/
import CompmechVerif.Model.AssemblyLemmas
import Mathlib.Analysis.Calculus.Deriv.Add
import Mathlib.Analysis.Calculus.Deriv.Mul
import Mathlib.Analysis.Calculus.Deriv.Pow
import Mathlib.Algebra.BigOperators.Intervals
import Mathlib.Algebra.BigOperators.Group.Finset.Basic
import Mathlib.Algebra.BigOperators.Ring.Finset
import Mathlib.Tactic.IntervalCases
import Mathlib.Tactic.NormNum

namespace Compmech.Asm
open scoped BigOperators

set_option linter.unusedSectionVars false
set_option linter.unusedVariables false

section generic
variable {K : Type} [Field K]

/-- number of amplitudes of panel `k` (`3 m n`; 0 outside the list) -/
def sizeAt (ps : List (Nat × Nat)) (k : Nat) : Nat := (panelSizes ps).getD k 0

/-- `c[col_start : col_end]` of panel `k` -/
def slice (ps : List (Nat × Nat)) (k : Nat) (c : List K) : List K :=
  (c.drop (startOf (panelSizes ps) k)).take (sizeAt ps k)

/-- `c + t d` -/
def axpy (c : List K) (t : K) (d : List K) : List K := List.zipWith (fun x y => x + t * y) c d

/-- the unit vector `e_j` of length `n` -/
def unitVec (n j : Nat) : List K := (List.range n).map fun q => if q = j then 1 else 0

/-- the zero vector of length `n` -/
def zeroVec (n : Nat) : List K := List.replicate n 0

/-- the panels' internal force vectors at the global state `c` (each panel reads its own slice) -/
def panelVecs (ps : List (Nat × Nat)) (fP : Nat → List K → List K) (c : List K) : List (List K) :=
  (List.range ps.length).map fun k => fP k (slice ps k c)

/-- the panels' unfinalized tangent COO lists at the global state `c` -/
def panelMats (ps : List (Nat × Nat)) (kP : Nat → List K → Coo K) (c : List K) : List (Coo K) :=
  (List.range ps.length).map fun k => kP k (slice ps k c)

/-- `PanelAssembly.calc_fint(c)` = `calcFint` of Model/Assembly.lean with the panel forces of the state `c` -/
def asmFint (ps : List (Nat × Nat)) (fP : Nat → List K → List K) (conns : List (Conn K)) (c : List K) : List K :=
  calcFint ps (panelVecs ps fP c) conns c

/-- `PanelAssembly.calc_kT(c)` = `calcK0 true` of Model/Assembly.lean with the panel tangents of the state `c` -/
def asmKT (ps : List (Nat × Nat)) (kP : Nat → List K → Coo K) (conns : List (Conn K)) (c : List K) : Coo K :=
  calcK0 true ps (panelMats ps kP c) conns

/-! ### vectors -/

theorem length_axpy (c d : List K) (t : K) (h : c.length = d.length) : (axpy c t d).length = c.length := by
  simp [axpy, h]

theorem getD_axpy (c d : List K) (t : K) (h : c.length = d.length) (i : Nat) :
    (axpy c t d).getD i 0 = c.getD i 0 + t * d.getD i 0 := by
  by_cases hi : i < c.length
  · rw [List.getD_eq_getElem _ _ (by rw [length_axpy c d t h]; exact hi), List.getD_eq_getElem _ _ hi,
      List.getD_eq_getElem _ _ (by omega)]
    simp [axpy]
  · rw [List.getD_eq_default _ _ (by rw [length_axpy c d t h]; omega), List.getD_eq_default _ _ (by omega),
      List.getD_eq_default _ _ (by omega)]
    simp

theorem axpy_zero_dir (c : List K) (t : K) (n : Nat) (h : c.length = n) : axpy c t (zeroVec n) = c := by
  subst h
  apply List.ext_getElem
  · simp [axpy, zeroVec]
  · intro i h1 h2
    simp [axpy, zeroVec]

theorem length_unitVec (n j : Nat) : (unitVec n j : List K).length = n := by simp [unitVec]

theorem getD_unitVec (n j q : Nat) : (unitVec n j : List K).getD q 0 = if q = j ∧ q < n then 1 else 0 := by
  by_cases hq : q < n
  · rw [List.getD_eq_getElem _ _ (by rw [length_unitVec]; exact hq)]
    simp [unitVec, hq]
  · rw [List.getD_eq_default _ _ (by rw [length_unitVec]; omega)]
    simp [hq]

theorem length_zeroVec (n : Nat) : (zeroVec n : List K).length = n := by simp [zeroVec]

theorem getD_zeroVec (n q : Nat) : (zeroVec n : List K).getD q 0 = 0 := by
  by_cases hq : q < n
  · rw [List.getD_eq_getElem _ _ (by rw [length_zeroVec]; exact hq)]
    simp [zeroVec]
  · rw [List.getD_eq_default _ _ (by rw [length_zeroVec]; omega)]

/-! ### matrix times vector -/

theorem mulVecAt_nil (c : List K) (i : Nat) : mulVecAt ([] : Coo K) c i = 0 := rfl

theorem mulVecAt_cons (e : Nat × Nat × K) (l : Coo K) (c : List K) (i : Nat) :
    mulVecAt (e :: l) c i = (if e.1 = i then e.2.2 * c.getD e.2.1 0 else 0) + mulVecAt l c i := by
  simp [mulVecAt]

theorem mulVecAt_axpy (l : Coo K) (c d : List K) (t : K) (h : c.length = d.length) (i : Nat) :
    mulVecAt l (axpy c t d) i = mulVecAt l c i + t * mulVecAt l d i := by
  induction l with
  | nil => simp [mulVecAt_nil]
  | cons e l ih =>
    rw [mulVecAt_cons, mulVecAt_cons, mulVecAt_cons, ih, getD_axpy c d t h]
    by_cases he : e.1 = i
    · simp only [if_pos he]; ring
    · simp only [if_neg he]; ring

/-- `K · d` written with the dense meaning `toFun` of the COO list (entries in columns `≥ n` meet zeros of `d`) -/
theorem mulVecAt_eq_sum (l : Coo K) (d : List K) (n : Nat) (hd : d.length ≤ n) (i : Nat) :
    mulVecAt l d i = ∑ j ∈ Finset.range n, toFun l i j * d.getD j 0 := by
  induction l with
  | nil => simp [mulVecAt_nil]
  | cons e l ih =>
    rw [mulVecAt_cons, ih]
    simp only [toFun_cons, add_mul, Finset.sum_add_distrib]
    congr 1
    by_cases he : e.1 = i
    · simp only [he, true_and, if_true, ite_mul, zero_mul]
      rw [Finset.sum_ite_eq]
      by_cases hm : e.2.1 ∈ Finset.range n
      · rw [if_pos hm]
      · rw [if_neg hm, List.getD_eq_default _ _ (by simp at hm; omega), mul_zero]
    · simp [he]

theorem mulVecAt_zeroVec (l : Coo K) (n i : Nat) : mulVecAt l (zeroVec n) i = 0 := by
  induction l with
  | nil => rfl
  | cons e l ih => rw [mulVecAt_cons, ih, getD_zeroVec]; simp

/-! ### slices -/

theorem sizeAt_eq (ps : List (Nat × Nat)) (k : Nat) (hk : k < ps.length) :
    sizeAt ps k = (panelSizes ps)[k]'(by rw [panelSizes_length]; exact hk) := by
  unfold sizeAt
  rw [List.getD_eq_getElem _ _ (by rw [panelSizes_length]; exact hk)]

theorem range_end_le (ps : List (Nat × Nat)) (k : Nat) (hk : k < ps.length) :
    startOf (panelSizes ps) k + sizeAt ps k ≤ getSize ps := by
  have hl := panelSizes_length ps
  rw [sizeAt_eq ps k hk, ← startOf_succ _ _ (by omega), getSize_eq, ← startOf_length]
  exact startOf_mono _ (by omega)

theorem slice_axpy (ps : List (Nat × Nat)) (k : Nat) (c d : List K) (t : K) :
    slice ps k (axpy c t d) = axpy (slice ps k c) t (slice ps k d) := by
  unfold slice axpy
  rw [List.drop_zipWith, List.take_zipWith]

theorem length_slice (ps : List (Nat × Nat)) (k : Nat) (hk : k < ps.length) (c : List K)
    (hc : c.length = getSize ps) : (slice ps k c).length = sizeAt ps k := by
  have := range_end_le ps k hk
  unfold slice
  rw [List.length_take, List.length_drop]
  omega

theorem getD_slice (ps : List (Nat × Nat)) (k : Nat) (c : List K) (b : Nat) (hb : b < sizeAt ps k) :
    (slice ps k c).getD b 0 = c.getD (startOf (panelSizes ps) k + b) 0 := by
  unfold slice
  simp only [List.getD_eq_getElem?_getD, List.getElem?_take, if_pos hb, List.getElem?_drop]

theorem slice_zeroVec (ps : List (Nat × Nat)) (k : Nat) (hk : k < ps.length) :
    slice ps k (zeroVec (getSize ps) : List K) = zeroVec (sizeAt ps k) := by
  have := range_end_le ps k hk
  unfold slice zeroVec
  rw [List.drop_replicate, List.take_replicate]
  congr 1
  omega

/-- the slice of a global unit vector: the local unit vector in the panel that owns the index, zero elsewhere -/
theorem slice_unitVec (ps : List (Nat × Nat)) (k : Nat) (hk : k < ps.length) (j : Nat) :
    slice ps k (unitVec (getSize ps) j : List K) =
      if startOf (panelSizes ps) k ≤ j ∧ j < startOf (panelSizes ps) k + sizeAt ps k then
        unitVec (sizeAt ps k) (j - startOf (panelSizes ps) k)
      else zeroVec (sizeAt ps k) := by
  have hlen := length_slice ps k hk (unitVec (getSize ps) j : List K) (length_unitVec _ _)
  have hend := range_end_le ps k hk
  by_cases hjk : startOf (panelSizes ps) k ≤ j ∧ j < startOf (panelSizes ps) k + sizeAt ps k
  · rw [if_pos hjk]
    apply List.ext_getElem
    · rw [hlen, length_unitVec]
    · intro b h1 h2
      have hb : b < sizeAt ps k := by rw [hlen] at h1; exact h1
      have e1 := getD_slice ps k (unitVec (getSize ps) j : List K) b hb
      rw [List.getD_eq_getElem _ _ h1, getD_unitVec] at e1
      have e2 := getD_unitVec (K := K) (sizeAt ps k) (j - startOf (panelSizes ps) k) b
      rw [List.getD_eq_getElem _ _ h2] at e2
      rw [e1, e2]
      by_cases hq : startOf (panelSizes ps) k + b = j
      · rw [if_pos ⟨hq, by omega⟩, if_pos ⟨by omega, hb⟩]
      · rw [if_neg (fun h => hq h.1), if_neg (fun h => hq (by omega))]
  · rw [if_neg hjk]
    apply List.ext_getElem
    · rw [hlen, length_zeroVec]
    · intro b h1 h2
      have hb : b < sizeAt ps k := by rw [hlen] at h1; exact h1
      have e1 := getD_slice ps k (unitVec (getSize ps) j : List K) b hb
      rw [List.getD_eq_getElem _ _ h1, getD_unitVec] at e1
      have e2 := getD_zeroVec (K := K) (sizeAt ps k) b
      rw [List.getD_eq_getElem _ _ h2] at e2
      rw [e1, e2, if_neg]
      intro h
      exact hjk (by omega)

/-! ### which panel owns a global index -/

theorem locate_general (sizes : List Nat) (i : Nat) (hi : i < sizes.sum) :
    ∃ p, ∃ hp : p < sizes.length, startOf sizes p ≤ i ∧ i < startOf sizes p + sizes[p] := by
  induction sizes generalizing i with
  | nil => simp at hi
  | cons a t ih =>
    by_cases h : i < a
    · exact ⟨0, by simp, by simp [startOf], by simpa [startOf] using h⟩
    · rw [List.sum_cons] at hi
      obtain ⟨p, hp, h1, h2⟩ := ih (i - a) (by omega)
      refine ⟨p + 1, by simpa using hp, ?_, ?_⟩
      · rw [startOf_cons_succ]; omega
      · rw [startOf_cons_succ, List.getElem_cons_succ]; omega

theorem locate (ps : List (Nat × Nat)) (i : Nat) (hi : i < getSize ps) :
    ∃ p, p < ps.length ∧ startOf (panelSizes ps) p ≤ i ∧ i < startOf (panelSizes ps) p + sizeAt ps p := by
  rw [getSize_eq] at hi
  obtain ⟨p, hp, h1, h2⟩ := locate_general (panelSizes ps) i hi
  have hp' : p < ps.length := by rw [panelSizes_length] at hp; exact hp
  exact ⟨p, hp', h1, by rw [sizeAt_eq ps p hp']; exact h2⟩

theorem owner_unique (ps : List (Nat × Nat)) (k p x : Nat) (hk : k < ps.length) (hp : p < ps.length)
    (hxk : startOf (panelSizes ps) k ≤ x ∧ x < startOf (panelSizes ps) k + sizeAt ps k)
    (hxp : startOf (panelSizes ps) p ≤ x ∧ x < startOf (panelSizes ps) p + sizeAt ps p) : k = p := by
  have hl := panelSizes_length ps
  rw [sizeAt_eq ps k hk] at hxk
  rw [sizeAt_eq ps p hp] at hxp
  exact range_unique (panelSizes ps) k p x (by omega) (by omega) hxk hxp

/-! ### the panel part of the assembled matrix, row by row -/

theorem list_sum_single (n p : Nat) (hp : p < n) (g : Nat → K) (hz : ∀ k, k < n → k ≠ p → g k = 0) :
    ((List.range n).map g).sum = g p := by
  induction n with
  | zero => omega
  | succ n ih =>
    rw [List.range_succ, List.map_append, List.sum_append]
    simp only [List.map_cons, List.map_nil, List.sum_cons, List.sum_nil, add_zero]
    by_cases h : p = n
    · subst h
      have : ((List.range p).map g).sum = 0 := by
        apply List.sum_eq_zero
        intro v hv
        obtain ⟨k, hk, rfl⟩ := List.mem_map.mp hv
        have hk' : k < p := List.mem_range.mp hk
        exact hz k (by omega) (by omega)
      rw [this, zero_add]
    · rw [ih (by omega) (fun k hk hne => hz k (by omega) hne), hz n (by omega) (fun hh => h hh.symm), add_zero]

/-- only the panel that owns the row (or the column) contributes to an entry of the placed sum -/
theorem placed_sum_single (ps : List (Nat × Nat)) (comps : List (Coo K))
    (hw : ∀ k, k < ps.length → Within (sizeAt ps k) (sizeAt ps k) (comps.getD k []))
    (p : Nat) (hp : p < ps.length) (x y : Nat)
    (hxy : (startOf (panelSizes ps) p ≤ x ∧ x < startOf (panelSizes ps) p + sizeAt ps p) ∨
           (startOf (panelSizes ps) p ≤ y ∧ y < startOf (panelSizes ps) p + sizeAt ps p)) :
    ((List.range ps.length).map fun k =>
        placedAt (startOf (panelSizes ps) k) (startOf (panelSizes ps) k) (comps.getD k []) x y).sum =
      placedAt (startOf (panelSizes ps) p) (startOf (panelSizes ps) p) (comps.getD p []) x y := by
  apply list_sum_single ps.length p hp
  intro k hk hne
  apply placedAt_support _ _ _ (hw k hk)
  intro hc
  rcases hxy with h | h
  · exact hne (owner_unique ps k p x hk hp ⟨hc.1, hc.2.1⟩ h)
  · exact hne (owner_unique ps k p y hk hp ⟨hc.2.2.1, hc.2.2.2⟩ h)

/-- ROW `i` (owned by panel `p`) of the finalized panel part of `calc_k0 / calc_kT`: the panel's own finalized matrix in the
panel's columns, zero in every other column -/
theorem calcNoConn_row (ps : List (Nat × Nat)) (comps : List (Coo K)) (h : comps.length = ps.length)
    (hw : ∀ k, k < ps.length → Within (sizeAt ps k) (sizeAt ps k) (comps.getD k []))
    (p : Nat) (hp : p < ps.length) (i j : Nat)
    (hi : startOf (panelSizes ps) p ≤ i ∧ i < startOf (panelSizes ps) p + sizeAt ps p) :
    toFun (calcNoConn true ps comps) i j =
      if startOf (panelSizes ps) p ≤ j ∧ j < startOf (panelSizes ps) p + sizeAt ps p then
        toFun (finalize (comps.getD p [])) (i - startOf (panelSizes ps) p) (j - startOf (panelSizes ps) p)
      else 0 := by
  rw [assembly_noconn_eq_sum_of_placed_aux ps comps h]
  rw [placed_sum_single ps comps hw p hp i j (Or.inl hi), placed_sum_single ps comps hw p hp j i (Or.inr hi)]
  unfold finalize
  rw [toFun_makeSymmetric]
  by_cases hj : startOf (panelSizes ps) p ≤ j ∧ j < startOf (panelSizes ps) p + sizeAt ps p
  · rw [if_pos hj]
    unfold placedAt
    have c1 : startOf (panelSizes ps) p ≤ i ∧ startOf (panelSizes ps) p ≤ j := ⟨hi.1, hj.1⟩
    have c2 : startOf (panelSizes ps) p ≤ j ∧ startOf (panelSizes ps) p ≤ i := ⟨hj.1, hi.1⟩
    simp only [if_pos c1, if_pos c2]
    by_cases hij : i ≤ j
    · have : i - startOf (panelSizes ps) p ≤ j - startOf (panelSizes ps) p := by omega
      rw [if_pos hij, if_pos this]
    · have : ¬ i - startOf (panelSizes ps) p ≤ j - startOf (panelSizes ps) p := by omega
      rw [if_neg hij, if_neg this]
  · rw [if_neg hj]
    have z1 := placedAt_support (startOf (panelSizes ps) p) (sizeAt ps p) (comps.getD p []) (hw p hp) i j
      (fun hc => hj ⟨hc.2.2.1, hc.2.2.2⟩)
    have z2 := placedAt_support (startOf (panelSizes ps) p) (sizeAt ps p) (comps.getD p []) (hw p hp) j i
      (fun hc => hj ⟨hc.1, hc.2.1⟩)
    rw [z1, z2]
    simp

/-- a sum over `[0, N)` of a function supported in `[s, s + n)` -/
theorem sum_range_block (N s n : Nat) (h : s + n ≤ N) (f : Nat → K) :
    ∑ j ∈ Finset.range N, (if s ≤ j ∧ j < s + n then f j else 0) = ∑ b ∈ Finset.range n, f (s + b) := by
  rw [← Finset.sum_filter]
  have : (Finset.range N).filter (fun j => s ≤ j ∧ j < s + n) = Finset.Ico s (s + n) := by
    ext j
    simp only [Finset.mem_filter, Finset.mem_range, Finset.mem_Ico]
    omega
  rw [this, Finset.sum_Ico_eq_sum_range]
  simp

theorem panelMats_length (ps : List (Nat × Nat)) (kP : Nat → List K → Coo K) (c : List K) :
    (panelMats ps kP c).length = ps.length := by simp [panelMats]

theorem panelMats_getD (ps : List (Nat × Nat)) (kP : Nat → List K → Coo K) (c : List K) (k : Nat)
    (hk : k < ps.length) : (panelMats ps kP c).getD k [] = kP k (slice ps k c) := by
  rw [List.getD_eq_getElem _ _ (by rw [panelMats_length]; exact hk)]
  simp [panelMats]

theorem panelVecs_length (ps : List (Nat × Nat)) (fP : Nat → List K → List K) (c : List K) :
    (panelVecs ps fP c).length = ps.length := by simp [panelVecs]

theorem panelVecs_getD (ps : List (Nat × Nat)) (fP : Nat → List K → List K) (c : List K) (k : Nat)
    (hk : k < ps.length) : (panelVecs ps fP c).getD k [] = fP k (slice ps k c) := by
  rw [List.getD_eq_getElem _ _ (by rw [panelVecs_length]; exact hk)]
  simp [panelVecs]

theorem panelVecs_lengths (ps : List (Nat × Nat)) (fP : Nat → List K → List K) (c : List K)
    (hc : c.length = getSize ps)
    (hlen : ∀ k, k < ps.length → ∀ x : List K, x.length = sizeAt ps k → (fP k x).length = sizeAt ps k) :
    (panelVecs ps fP c).map List.length = panelSizes ps := by
  apply List.ext_getElem
  · simp [panelVecs, panelSizes]
  · intro k h1 h2
    have hk : k < ps.length := by rw [panelSizes_length] at h2; exact h2
    simp only [panelVecs, List.getElem_map, List.getElem_range]
    rw [hlen k hk _ (length_slice ps k hk c hc), sizeAt_eq ps k hk]

/-- entry `i` (owned by panel `p`) of the assembled internal force: the panel's own force entry plus row `i` of `K_conn · c` -/
theorem asmFint_getD (ps : List (Nat × Nat)) (fP : Nat → List K → List K) (conns : List (Conn K)) (c : List K)
    (hc : c.length = getSize ps)
    (hlen : ∀ k, k < ps.length → ∀ x : List K, x.length = sizeAt ps k → (fP k x).length = sizeAt ps k)
    (p : Nat) (hp : p < ps.length) (i : Nat)
    (hi : startOf (panelSizes ps) p ≤ i ∧ i < startOf (panelSizes ps) p + sizeAt ps p) :
    (asmFint ps fP conns c).getD i 0 =
      (fP p (slice ps p c)).getD (i - startOf (panelSizes ps) p) 0 + mulVecAt (k0Conn ps conns) c i := by
  have hN := range_end_le ps p hp
  have hl := panelVecs_lengths ps fP c hc hlen
  unfold asmFint
  rw [fint_aux ps _ conns c hl i (by omega)]
  congr 1
  have hpl : p < (panelVecs ps fP c).length := by rw [panelVecs_length]; exact hp
  have hfl := flatten_piece (panelVecs ps fP c) p (i - startOf (panelSizes ps) p) hpl
    (by rw [panelVecs_getD ps fP c p hp, hlen p hp _ (length_slice ps p hp c hc)]; omega)
  rw [hl, panelVecs_getD ps fP c p hp] at hfl
  rw [← hfl]
  congr 1
  omega

/-- row `i` (owned by panel `p`) of the assembled tangent times a vector -/
theorem asmKT_row_mul (ps : List (Nat × Nat)) (kP : Nat → List K → Coo K) (conns : List (Conn K)) (c d : List K)
    (hd : d.length = getSize ps)
    (hw : ∀ k, k < ps.length → Within (sizeAt ps k) (sizeAt ps k) (kP k (slice ps k c)))
    (p : Nat) (hp : p < ps.length) (i : Nat)
    (hi : startOf (panelSizes ps) p ≤ i ∧ i < startOf (panelSizes ps) p + sizeAt ps p) :
    ∑ j ∈ Finset.range (getSize ps), toFun (asmKT ps kP conns c) i j * d.getD j 0 =
      ∑ b ∈ Finset.range (sizeAt ps p),
          toFun (finalize (kP p (slice ps p c))) (i - startOf (panelSizes ps) p) b * (slice ps p d).getD b 0
        + mulVecAt (k0Conn ps conns) d i := by
  have hN := range_end_le ps p hp
  have hw' : ∀ k, k < ps.length → Within (sizeAt ps k) (sizeAt ps k) ((panelMats ps kP c).getD k []) := by
    intro k hk; rw [panelMats_getD ps kP c k hk]; exact hw k hk
  unfold asmKT calcK0
  simp only [toFun_append, add_mul, Finset.sum_add_distrib]
  rw [← mulVecAt_eq_sum (k0Conn ps conns) d (getSize ps) (by omega) i]
  congr 1
  have hrow : ∀ j, toFun (calcNoConn true ps (panelMats ps kP c)) i j * d.getD j 0 =
      if startOf (panelSizes ps) p ≤ j ∧ j < startOf (panelSizes ps) p + sizeAt ps p then
        toFun (finalize (kP p (slice ps p c))) (i - startOf (panelSizes ps) p) (j - startOf (panelSizes ps) p) *
          d.getD j 0
      else 0 := by
    intro j
    rw [calcNoConn_row ps _ (panelMats_length ps kP c) hw' p hp i j hi, panelMats_getD ps kP c p hp]
    split <;> simp
  simp only [hrow]
  rw [sum_range_block _ _ _ hN]
  refine Finset.sum_congr rfl fun b hb => ?_
  rw [getD_slice ps p d b (Finset.mem_range.mp hb), Nat.add_sub_cancel_left]

/-- the assembled tangent is symmetric at every state: both the panel part and the connection part are finalized
(`make_symmetric`: upper triangle mirrored) before they are added -/
theorem asmKT_symm (ps : List (Nat × Nat)) (kP : Nat → List K → Coo K) (conns : List (Conn K)) (c : List K)
    (i j : Nat) : toFun (asmKT ps kP conns c) i j = toFun (asmKT ps kP conns c) j i := by
  unfold asmKT calcK0 calcNoConn k0Conn finalize
  simp only [if_true, toFun_append]
  rw [toFun_makeSymmetric_symm _ i j, toFun_makeSymmetric_symm (placeAll (connAllBlocks ps conns)) i j]

theorem getD_eq_zero_of_forall (l : List K) (h : ∀ x ∈ l, x = 0) (i : Nat) : l.getD i 0 = 0 := by
  by_cases hi : i < l.length
  · rw [List.getD_eq_getElem _ _ hi]; exact h _ (List.getElem_mem hi)
  · rw [List.getD_eq_default _ _ (by omega)]

/-- at the undeformed state the assembled internal force vanishes when every panel's does -/
theorem asmFint_zero_aux (ps : List (Nat × Nat)) (fP : Nat → List K → List K) (conns : List (Conn K))
    (hz : ∀ k, k < ps.length → fP k (zeroVec (sizeAt ps k)) = zeroVec (sizeAt ps k)) :
    asmFint ps fP conns (zeroVec (getSize ps)) = zeroVec (getSize ps) := by
  have hv : panelVecs ps fP (zeroVec (getSize ps)) = (List.range ps.length).map fun k => (zeroVec (sizeAt ps k) : List K) := by
    unfold panelVecs
    apply List.map_congr_left
    intro k hk
    have hk' : k < ps.length := List.mem_range.mp hk
    rw [slice_zeroVec ps k hk', hz k hk']
  have hl : (panelVecs ps fP (zeroVec (getSize ps))).map List.length = panelSizes ps := by
    rw [hv]
    apply List.ext_getElem
    · simp [panelSizes]
    · intro k h1 h2
      have hk : k < ps.length := by rw [panelSizes_length] at h2; exact h2
      simp only [List.getElem_map, List.getElem_range, length_zeroVec]
      exact sizeAt_eq ps k hk
  apply List.ext_getElem
  · simp [asmFint, calcFint, zeroVec]
  · intro i h1 h2
    have hi : i < getSize ps := by rw [length_zeroVec] at h2; exact h2
    have e2 := getD_zeroVec (K := K) (getSize ps) i
    rw [List.getD_eq_getElem _ _ h2] at e2
    have e1 := fint_aux ps _ conns (zeroVec (getSize ps) : List K) hl i hi
    have h1' : i < (calcFint ps (panelVecs ps fP (zeroVec (getSize ps))) conns (zeroVec (getSize ps) : List K)).length := h1
    rw [List.getD_eq_getElem _ _ h1'] at e1
    rw [e2]
    change (calcFint ps (panelVecs ps fP (zeroVec (getSize ps))) conns (zeroVec (getSize ps)))[i] = 0
    rw [e1, mulVecAt_zeroVec, add_zero]
    apply getD_eq_zero_of_forall
    intro x hx
    rw [hv] at hx
    obtain ⟨v, hv1, hxv⟩ := List.mem_flatten.mp hx
    obtain ⟨k, _, rfl⟩ := List.mem_map.mp hv1
    exact List.eq_of_mem_replicate hxv

/-- LINEAR panels (`fint_k(x) = K0_k x` with `K0_k` the panel's finalized linear stiffness): the assembled internal force is the
assembled linear stiffness `calc_k0` (placed panel stiffnesses + connection matrix) times the amplitude vector, exactly -/
theorem asmFint_linear_aux (ps : List (Nat × Nat)) (k0P : Nat → Coo K) (fP : Nat → List K → List K)
    (conns : List (Conn K)) (c : List K) (hc : c.length = getSize ps)
    (hw : ∀ k, k < ps.length → Within (sizeAt ps k) (sizeAt ps k) (k0P k))
    (hlin : ∀ k, k < ps.length → ∀ x : List K, x.length = sizeAt ps k →
      fP k x = (List.range (sizeAt ps k)).map fun a =>
        ∑ b ∈ Finset.range (sizeAt ps k), toFun (finalize (k0P k)) a b * x.getD b 0)
    (i : Nat) (hi : i < getSize ps) :
    (asmFint ps fP conns c).getD i 0 =
      ∑ j ∈ Finset.range (getSize ps), toFun (asmKT ps (fun k _ => k0P k) conns c) i j * c.getD j 0 := by
  obtain ⟨p, hp, hip⟩ := locate ps i hi
  have hlen : ∀ k, k < ps.length → ∀ x : List K, x.length = sizeAt ps k → (fP k x).length = sizeAt ps k := by
    intro k hk x hx
    rw [hlin k hk x hx]
    simp
  rw [asmFint_getD ps fP conns c hc hlen p hp i hip,
    asmKT_row_mul ps (fun k _ => k0P k) conns c c hc (fun k hk => hw k hk) p hp i hip,
    hlin p hp _ (length_slice ps p hp c hc)]
  congr 1
  have ha : i - startOf (panelSizes ps) p < sizeAt ps p := by omega
  rw [List.getD_eq_getElem _ _ (by simpa using ha)]
  simp

end generic

/-! ### the derivative statement (over ℝ) -/

/-- MAIN LEMMA.  State `c`, direction `d` (both of the assembly's size).  If for every panel the derivative at `t = 0` of its own
internal force along the panel's slice of `d` is its own finalized tangent matrix times that slice, then the derivative of the
ASSEMBLED internal force `calcFint` along `d` is the ASSEMBLED tangent `calcK0 true` (placed panel tangents + finalized connection
matrix) times `d`. -/
theorem assembly_tangent_is_jacobian_aux (ps : List (Nat × Nat)) (fP : Nat → List ℝ → List ℝ)
    (kP : Nat → List ℝ → Coo ℝ) (conns : List (Conn ℝ)) (c d : List ℝ)
    (hc : c.length = getSize ps) (hd : d.length = getSize ps)
    (hlen : ∀ k, k < ps.length → ∀ x : List ℝ, x.length = sizeAt ps k → (fP k x).length = sizeAt ps k)
    (hw : ∀ k, k < ps.length → Within (sizeAt ps k) (sizeAt ps k) (kP k (slice ps k c)))
    (hP : ∀ k, k < ps.length → ∀ a, a < sizeAt ps k →
      HasDerivAt (fun t : ℝ => (fP k (axpy (slice ps k c) t (slice ps k d))).getD a 0)
        (∑ b ∈ Finset.range (sizeAt ps k), toFun (finalize (kP k (slice ps k c))) a b * (slice ps k d).getD b 0) 0)
    (i : Nat) (hi : i < getSize ps) :
    HasDerivAt (fun t : ℝ => (asmFint ps fP conns (axpy c t d)).getD i 0)
      (∑ j ∈ Finset.range (getSize ps), toFun (asmKT ps kP conns c) i j * d.getD j 0) 0 := by
  obtain ⟨p, hp, hip⟩ := locate ps i hi
  have hf : (fun t : ℝ => (asmFint ps fP conns (axpy c t d)).getD i 0) =
      fun t : ℝ => (fP p (axpy (slice ps p c) t (slice ps p d))).getD (i - startOf (panelSizes ps) p) 0 +
        (mulVecAt (k0Conn ps conns) c i + t * mulVecAt (k0Conn ps conns) d i) := by
    funext t
    rw [asmFint_getD ps fP conns (axpy c t d) (by rw [length_axpy c d t (by omega)]; exact hc) hlen p hp i hip,
      slice_axpy, mulVecAt_axpy _ c d t (by omega)]
  rw [hf, asmKT_row_mul ps kP conns c d hd hw p hp i hip]
  have h1 := hP p hp (i - startOf (panelSizes ps) p) (by omega)
  have h2 : HasDerivAt (fun t : ℝ => mulVecAt (k0Conn ps conns) c i + t * mulVecAt (k0Conn ps conns) d i)
      (mulVecAt (k0Conn ps conns) d i) 0 := by
    have := ((hasDerivAt_id (0 : ℝ)).mul_const (mulVecAt (k0Conn ps conns) d i)).const_add
      (mulVecAt (k0Conn ps conns) c i)
    simpa using this
  exact h1.fun_add h2

/-- the same along the unit direction `e_j`: entry `(i, j)` of the assembled tangent is `∂ fint_i / ∂ c_j`, from the hypothesis in
the form the panel theorems deliver it (`∂ fint_a / ∂ c_b` = entry `(a, b)` of the panel's tangent, for the panel's own indices) -/
theorem assembly_tangent_entry_aux (ps : List (Nat × Nat)) (fP : Nat → List ℝ → List ℝ)
    (kP : Nat → List ℝ → Coo ℝ) (conns : List (Conn ℝ)) (c : List ℝ)
    (hc : c.length = getSize ps)
    (hlen : ∀ k, k < ps.length → ∀ x : List ℝ, x.length = sizeAt ps k → (fP k x).length = sizeAt ps k)
    (hw : ∀ k, k < ps.length → Within (sizeAt ps k) (sizeAt ps k) (kP k (slice ps k c)))
    (hP : ∀ k, k < ps.length → ∀ a b, a < sizeAt ps k → b < sizeAt ps k →
      HasDerivAt (fun t : ℝ => (fP k (axpy (slice ps k c) t (unitVec (sizeAt ps k) b))).getD a 0)
        (toFun (finalize (kP k (slice ps k c))) a b) 0)
    (i j : Nat) (hi : i < getSize ps) (hj : j < getSize ps) :
    HasDerivAt (fun t : ℝ => (asmFint ps fP conns (axpy c t (unitVec (getSize ps) j))).getD i 0)
      (toFun (asmKT ps kP conns c) i j) 0 := by
  have key := assembly_tangent_is_jacobian_aux ps fP kP conns c (unitVec (getSize ps) j) hc (length_unitVec _ _) hlen hw
    ?_ i hi
  · have e : ∑ q ∈ Finset.range (getSize ps), toFun (asmKT ps kP conns c) i q * (unitVec (getSize ps) j : List ℝ).getD q 0
        = toFun (asmKT ps kP conns c) i j := by
      simp only [getD_unitVec, mul_ite, mul_one, mul_zero]
      rw [Finset.sum_eq_single j]
      · rw [if_pos ⟨rfl, hj⟩]
      · intro q _ hq; rw [if_neg (fun h => hq h.1)]
      · intro h; exact absurd (Finset.mem_range.mpr hj) h
    rw [e] at key
    exact key
  · intro k hk a ha
    rw [slice_unitVec ps k hk j]
    split
    · next hjk =>
      have hb : j - startOf (panelSizes ps) k < sizeAt ps k := by omega
      have := hP k hk a (j - startOf (panelSizes ps) k) ha hb
      have e : ∑ b ∈ Finset.range (sizeAt ps k), toFun (finalize (kP k (slice ps k c))) a b *
          (unitVec (sizeAt ps k) (j - startOf (panelSizes ps) k) : List ℝ).getD b 0 =
          toFun (finalize (kP k (slice ps k c))) a (j - startOf (panelSizes ps) k) := by
        simp only [getD_unitVec, mul_ite, mul_one, mul_zero]
        rw [Finset.sum_eq_single (j - startOf (panelSizes ps) k)]
        · rw [if_pos ⟨rfl, hb⟩]
        · intro q _ hq; rw [if_neg (fun h => hq h.1)]
        · intro h; exact absurd (Finset.mem_range.mpr hb) h
      rw [e]
      exact this
    · next hjk =>
      have hsl : (slice ps k c).length = sizeAt ps k := length_slice ps k hk c hc
      simp only [axpy_zero_dir (slice ps k c) _ (sizeAt ps k) hsl, getD_zeroVec, mul_zero, Finset.sum_const_zero]
      exact hasDerivAt_const (0 : ℝ) _

/-- LINEAR PART of the assembled internal force.  If at the undeformed state every panel's tangent matrix is its linear stiffness
`K0_k` (entry by entry) and is the derivative of the panel's internal force there, then along every direction `d`
`d/dt fint(t d) |_{t=0} = (K0 + K_conn) d`, where `K0 + K_conn` IS the matrix `PanelAssembly.calc_k0` returns
(`calcK0 true` of the panels' linear stiffnesses and the same connections). -/
theorem asmFint_linear_part_aux (ps : List (Nat × Nat)) (fP : Nat → List ℝ → List ℝ)
    (kP : Nat → List ℝ → Coo ℝ) (k0P : Nat → Coo ℝ) (conns : List (Conn ℝ)) (d : List ℝ)
    (hd : d.length = getSize ps)
    (hlen : ∀ k, k < ps.length → ∀ x : List ℝ, x.length = sizeAt ps k → (fP k x).length = sizeAt ps k)
    (hw : ∀ k, k < ps.length → Within (sizeAt ps k) (sizeAt ps k) (kP k (zeroVec (sizeAt ps k))))
    (hw0 : ∀ k, k < ps.length → Within (sizeAt ps k) (sizeAt ps k) (k0P k))
    (h0 : ∀ k, k < ps.length → ∀ a b, a < sizeAt ps k → b < sizeAt ps k →
      toFun (finalize (kP k (zeroVec (sizeAt ps k)))) a b = toFun (finalize (k0P k)) a b)
    (hP : ∀ k, k < ps.length → ∀ a, a < sizeAt ps k →
      HasDerivAt (fun t : ℝ => (fP k (axpy (zeroVec (sizeAt ps k)) t (slice ps k d))).getD a 0)
        (∑ b ∈ Finset.range (sizeAt ps k),
          toFun (finalize (kP k (zeroVec (sizeAt ps k)))) a b * (slice ps k d).getD b 0) 0)
    (i : Nat) (hi : i < getSize ps) :
    HasDerivAt (fun t : ℝ => (asmFint ps fP conns (axpy (zeroVec (getSize ps)) t d)).getD i 0)
      (∑ j ∈ Finset.range (getSize ps),
        toFun (calcK0 true ps ((List.range ps.length).map k0P) conns) i j * d.getD j 0) 0 := by
  have hsl : ∀ k, k < ps.length → slice ps k (zeroVec (getSize ps) : List ℝ) = zeroVec (sizeAt ps k) :=
    fun k hk => slice_zeroVec ps k hk
  have key := assembly_tangent_is_jacobian_aux ps fP kP conns (zeroVec (getSize ps)) d (length_zeroVec _) hd hlen
    (fun k hk => by rw [hsl k hk]; exact hw k hk)
    (fun k hk a ha => by rw [hsl k hk]; exact hP k hk a ha) i hi
  obtain ⟨p, hp, hip⟩ := locate ps i hi
  have e1 := asmKT_row_mul ps kP conns (zeroVec (getSize ps)) d hd
    (fun k hk => by rw [hsl k hk]; exact hw k hk) p hp i hip
  have e2 := asmKT_row_mul ps (fun k _ => k0P k) conns (zeroVec (getSize ps)) d hd (fun k hk => hw0 k hk) p hp i hip
  have e3 : asmKT ps (fun k _ => k0P k) conns (zeroVec (getSize ps)) =
      calcK0 true ps ((List.range ps.length).map k0P) conns := rfl
  rw [e3] at e2
  rw [e2]
  rw [e1, hsl p hp] at key
  have e4 : ∑ b ∈ Finset.range (sizeAt ps p),
      toFun (finalize (kP p (zeroVec (sizeAt ps p)))) (i - startOf (panelSizes ps) p) b * (slice ps p d).getD b 0 =
      ∑ b ∈ Finset.range (sizeAt ps p),
      toFun (finalize (k0P p)) (i - startOf (panelSizes ps) p) b * (slice ps p d).getD b 0 :=
    Finset.sum_congr rfl fun b hb => by rw [h0 p hp _ b (by omega) (Finset.mem_range.mp hb)]
  rw [e4] at key
  exact key

/-! ### a concrete instance (non-vacuity of the assembly theorems of Props/C08) -/
namespace AsmJacExample

/-- two panels with `m = n = 1` (three amplitudes each) whose internal force is cubic entry by entry, `fint_a = x_a³ + x_a` … -/
def cubF (_ : Nat) (x : List ℝ) : List ℝ := x.map fun v => v ^ 3 + v
/-- … with the (diagonal) tangent `3 x_a² + 1` -/
def cubK (_ : Nat) (x : List ℝ) : Coo ℝ :=
  [(0, 0, 3 * (x.getD 0 0) ^ 2 + 1), (1, 1, 3 * (x.getD 1 0) ^ 2 + 1), (2, 2, 3 * (x.getD 2 0) ^ 2 + 1)]
def ps2 : List (Nat × Nat) := [(1, 1), (1, 1)]
/-- one connection, listed with `p1` AFTER `p2` (the coupling block is transposed into the upper triangle) -/
def conn2 : List (Conn ℝ) := [⟨1, 0, [(0, 0, 2)], [(0, 0, -2)], [(0, 0, 2)]⟩]

theorem sz (k : Nat) (hk : k < ps2.length) : sizeAt ps2 k = 3 := by
  have : k < 2 := hk
  interval_cases k <;> rfl

theorem cub_row (k : Nat) (X Y : List ℝ) (a : Nat) (ha : a < 3) :
    ∑ b ∈ Finset.range 3, toFun (finalize (cubK k X)) a b * Y.getD b 0 = (3 * X.getD a 0 ^ 2 + 1) * Y.getD a 0 := by
  simp only [finalize, toFun_makeSymmetric]
  interval_cases a <;> simp [toFun, cubK]

theorem cub_len (k : Nat) (x : List ℝ) (n : Nat) (hx : x.length = n) : (cubF k x).length = n := by
  simpa [cubF] using hx

theorem cub_within (k : Nat) (x : List ℝ) : Within 3 3 (cubK k x) := by
  intro e he
  simp only [cubK, List.mem_cons, List.not_mem_nil, or_false] at he
  rcases he with rfl | rfl | rfl <;> exact ⟨by norm_num, by norm_num⟩

/-- the panel-level hypothesis holds for the cubic panels, along every direction -/
theorem cub_hasDerivAt (k : Nat) (x d : List ℝ) (hl : x.length = d.length) (a : Nat) (ha : a < 3) :
    HasDerivAt (fun t : ℝ => (cubF k (axpy x t d)).getD a 0)
      (∑ b ∈ Finset.range 3, toFun (finalize (cubK k x)) a b * d.getD b 0) 0 := by
  have hf : (fun t : ℝ => (cubF k (axpy x t d)).getD a 0) =
      fun t : ℝ => (x.getD a 0 + t * d.getD a 0) ^ 3 + (x.getD a 0 + t * d.getD a 0) := by
    funext t
    have := List.getD_map (f := fun v : ℝ => v ^ 3 + v) (l := axpy x t d) (n := a) (d := 0)
    simp only [cubF]
    rw [← getD_axpy _ _ t hl a]
    simpa using this
  rw [hf, cub_row k _ _ a ha]
  have hlin : HasDerivAt (fun t : ℝ => x.getD a 0 + t * d.getD a 0) (d.getD a 0) 0 := by
    simpa using ((hasDerivAt_id (0 : ℝ)).mul_const (d.getD a 0)).const_add (x.getD a 0)
  have hd3 := (hlin.pow 3).add hlin
  have e : (3 * x.getD a 0 ^ 2 + 1) * d.getD a 0 =
      ((3 : ℕ) : ℝ) * (x.getD a 0 + 0 * d.getD a 0) ^ (3 - 1) * d.getD a 0 + d.getD a 0 := by
    norm_num
    ring
  rw [e]
  exact hd3

/-- the unit-direction form of the panel hypothesis for the cubic panels -/
theorem cub_hasDerivAt_unit (k : Nat) (x : List ℝ) (hx : x.length = 3) (a b : Nat) (ha : a < 3) (hb : b < 3) :
    HasDerivAt (fun t : ℝ => (cubF k (axpy x t (unitVec 3 b))).getD a 0) (toFun (finalize (cubK k x)) a b) 0 := by
  have h := cub_hasDerivAt k x (unitVec 3 b) (by rw [hx, length_unitVec]) a ha
  have e : ∑ q ∈ Finset.range 3, toFun (finalize (cubK k x)) a q * (unitVec 3 b : List ℝ).getD q 0 =
      toFun (finalize (cubK k x)) a b := by
    simp only [getD_unitVec, mul_ite, mul_one, mul_zero]
    rw [Finset.sum_eq_single b]
    · rw [if_pos ⟨rfl, hb⟩]
    · intro q _ hq; rw [if_neg (fun h => hq h.1)]
    · intro h; exact absurd (Finset.mem_range.mpr hb) h
  rw [e] at h
  exact h

theorem cub_zero (k n : Nat) : cubF k (zeroVec n) = zeroVec n := by
  simp [cubF, zeroVec]

/-- the linear stiffness of a cubic panel: the identity -/
def cubK0 (_ : Nat) : Coo ℝ := [(0, 0, 1), (1, 1, 1), (2, 2, 1)]

theorem cubK0_within (k : Nat) : Within 3 3 (cubK0 k) := by
  intro e he
  simp only [cubK0, List.mem_cons, List.not_mem_nil, or_false] at he
  rcases he with rfl | rfl | rfl <;> exact ⟨by norm_num, by norm_num⟩

theorem cubK_zero (k : Nat) (a b : Nat) :
    toFun (finalize (cubK k (zeroVec 3))) a b = toFun (finalize (cubK0 k)) a b := by
  have h : cubK k (zeroVec 3) = cubK0 k := by
    unfold cubK cubK0
    rw [getD_zeroVec, getD_zeroVec, getD_zeroVec]
    norm_num
  rw [h]

/-- a LINEAR panel: `fint(x) = K0 x` -/
noncomputable def linF (k : Nat) (x : List ℝ) : List ℝ :=
  (List.range (sizeAt ps2 k)).map fun a => ∑ b ∈ Finset.range (sizeAt ps2 k), toFun (finalize (cubK0 k)) a b * x.getD b 0

end AsmJacExample

end Compmech.Asm
