/-
Donnell strain-displacement operator tables (what C02/C03/C04/C11/C14 *say*), in the natural
coordinates `ξ = 2x/a − 1`, `η = 2y/b − 1`, so `∂x = (2/a)∂ξ`, `∂y = (2/b)∂η`.
Strain vector order: `(εxx, εyy, γxy, κxx, κyy, κxy)` as in `F = ABD`.
Source: theory/panel/*/…nb and DESIGN.md A.2.
-/
import CompmechVerif.Core.OpSpec

namespace Compmech.Panel
variable {K : Type} [Field K]

/-- flat plate -/
def plateOps (P : PCtx K) : Fld → Fin 6 → List (OpTerm K)
  | .u, 0 => [⟨2 / P.a, 1, 0⟩]
  | .u, 2 => [⟨2 / P.b, 0, 1⟩]
  | .v, 1 => [⟨2 / P.b, 0, 1⟩]
  | .v, 2 => [⟨2 / P.a, 1, 0⟩]
  | .w, 3 => [⟨-(4 / (P.a * P.a)), 2, 0⟩]
  | .w, 4 => [⟨-(4 / (P.b * P.b)), 0, 2⟩]
  | .w, 5 => [⟨-(8 / (P.a * P.b)), 1, 1⟩]
  | _, _ => []

/-- cylindrical panel of radius `r`: `εyy` gains `w / r` -/
def cpanelOps (P : PCtx K) : Fld → Fin 6 → List (OpTerm K)
  | .w, 1 => [⟨1 / P.r, 0, 0⟩]
  | f, p => plateOps P f p

/-- conical panel, locally constant radius `r`, semi-vertex angle α (`sina`, `cosa`):
`εθ = (sinα/r) u + v,y + (cosα/r) w`, `γ = u,y + v,x − (sinα/r) v`,
`κθ = −w,yy − (sinα/r) w,x`, `κxθ = −2 w,xy + (sinα/r) w,y`. -/
def kpanelOps (P : PCtx K) : Fld → Fin 6 → List (OpTerm K)
  | .u, 1 => [⟨P.sina / P.r, 0, 0⟩]
  | .v, 2 => [⟨2 / P.a, 1, 0⟩, ⟨-(P.sina / P.r), 0, 0⟩]
  | .w, 1 => [⟨P.cosa / P.r, 0, 0⟩]
  | .w, 4 => [⟨-(4 / (P.b * P.b)), 0, 2⟩, ⟨-(P.sina / P.r * (2 / P.a)), 1, 0⟩]
  | .w, 5 => [⟨-(8 / (P.a * P.b)), 1, 1⟩, ⟨P.sina / P.r * (2 / P.b), 0, 1⟩]
  | f, p => plateOps P f p

/-- pre-stress work `½∬ Nxx w,x² + 2 Nxy w,x w,y + Nyy w,y²`: gradient operator `(w,x, w,y)` -/
def gradOps (P : PCtx K) : Fld → Fin 2 → List (OpTerm K)
  | .w, 0 => [⟨2 / P.a, 1, 0⟩]
  | .w, 1 => [⟨2 / P.b, 0, 1⟩]
  | _, _ => []

def prestressW (P : PCtx K) : Fin 2 → Fin 2 → K
  | 0, 0 => P.Nxx
  | 1, 1 => P.Nyy
  | _, _ => P.Nxy

end Compmech.Panel

namespace Compmech.Panel
variable {K : Type} [Field K]

/-- velocity "strain" of the kinetic energy `½ μ ∭ (u̇ − z ẇ,x)² + (v̇ − z ẇ,y)² + ẇ² dz dA`:
components `(u, v, w, w,x, w,y)` -/
def velOps (P : PCtx K) : Fld → Fin 5 → List (OpTerm K)
  | .u, 0 => [⟨1, 0, 0⟩]
  | .v, 1 => [⟨1, 0, 0⟩]
  | .w, 2 => [⟨1, 0, 0⟩]
  | .w, 3 => [⟨2 / P.a, 1, 0⟩]
  | .w, 4 => [⟨2 / P.b, 0, 1⟩]
  | _, _ => []

/-- through-thickness moments of a plate of density `mu`, thickness `h`, whose mid-plane sits at
`z = δ`: `∫ dz = h`, `∫ z dz = h δ`, `∫ z² dz = h (δ² + h²/12)` -/
def massW (P : PCtx K) (δ : K) : Fin 5 → Fin 5 → K
  | 0, 0 => P.mu * P.h
  | 1, 1 => P.mu * P.h
  | 2, 2 => P.mu * P.h
  | 0, 3 => -(P.mu * P.h * δ)
  | 3, 0 => -(P.mu * P.h * δ)
  | 1, 4 => -(P.mu * P.h * δ)
  | 4, 1 => -(P.mu * P.h * δ)
  | 3, 3 => P.mu * P.h * (δ * δ + P.h * P.h / 12)
  | 4, 4 => P.mu * P.h * (δ * δ + P.h * P.h / 12)
  | _, _ => 0

end Compmech.Panel
