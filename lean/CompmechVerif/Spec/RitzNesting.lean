/-
C15 helper: the finalized panel matrices as `Matrix (Fin N) (Fin N) ℝ`, the index embedding of the `(m, n)` model into
the `(m', n')` model, and the fact that the small matrix IS the principal sub-matrix of the large one along it
(consequence of `panelCoo_entry`: the entry at the positions of two degrees of freedom is the entry expression of
that pair, which has no `m`, `n` argument).  Ties `Spec/CourantFischer` to the whole-matrix layer of C02/C03/C04.
-/
import CompmechVerif.Spec.CourantFischer
import CompmechVerif.Spec.WholeMatrix

namespace Compmech.Ritz

open Compmech.Panel Compmech.Asm

/-- every position below `num·m·n` is the position of exactly one amplitude `(α, i, j)` -/
theorem dofIndex_decode (num m n p : ℕ) (hp : p < num * m * n) :
    p = dofIndex num m (p % num) (p / num % m) (p / num / m) ∧
      p % num < num ∧ p / num % m < m ∧ p / num / m < n := by
  have hnum : 0 < num := by
    rcases Nat.eq_zero_or_pos num with h | h
    · subst h; simp at hp
    · exact h
  have hm : 0 < m := by
    rcases Nat.eq_zero_or_pos m with h | h
    · subst h; simp at hp
    · exact h
  have hq : p / num < m * n := by
    rw [Nat.div_lt_iff_lt_mul hnum]
    calc p < num * m * n := hp
      _ = m * n * num := by ring
  refine ⟨?_, Nat.mod_lt _ hnum, Nat.mod_lt _ hm, ?_⟩
  · unfold dofIndex
    have h1 : p / num / m * m + p / num % m = p / num := by
      rw [Nat.mul_comm]; exact Nat.div_add_mod _ _
    rw [h1]
    exact (Nat.div_add_mod p num).symm
  · rw [Nat.div_lt_iff_lt_mul hm]
    calc p / num < m * n := hq
      _ = n * m := Nat.mul_comm _ _

theorem dofIndex_lt (num m n : ℕ) {α i j : ℕ} (hα : α < num) (hi : i < m) (hj : j < n) :
    dofIndex num m α i j < num * m * n := by
  unfold dofIndex
  have h1 : j * m + i < n * m := by
    calc j * m + i < j * m + m := by omega
      _ = (j + 1) * m := by ring
      _ ≤ n * m := Nat.mul_le_mul_right _ hj
  calc num * (j * m + i) + α < num * (j * m + i) + num := by omega
    _ = num * (j * m + i + 1) := by ring
    _ ≤ num * (n * m) := Nat.mul_le_mul_left _ h1
    _ = num * m * n := by ring

theorem dofIndex_inj (num m : ℕ) {α i j α' i' j' : ℕ}
    (hα : α < num) (hα' : α' < num) (hi : i < m) (hi' : i' < m)
    (h : dofIndex num m α i j = dofIndex num m α' i' j') : α = α' ∧ i = i' ∧ j = j' := by
  have hnum : 0 < num := Nat.lt_of_le_of_lt (Nat.zero_le _) hα
  unfold dofIndex at h
  have h1 : α = α' := by
    have := congrArg (· % num) h
    simp only [Nat.mul_add_mod] at this
    rwa [Nat.mod_eq_of_lt hα, Nat.mod_eq_of_lt hα'] at this
  subst h1
  have h2 : j * m + i = j' * m + i' := Nat.eq_of_mul_eq_mul_left hnum (Nat.add_right_cancel h)
  have h3 : i = i' := by
    have := congrArg (· % m) h2
    simp only [Nat.mul_add_mod_self_right] at this
    rwa [Nat.mod_eq_of_lt hi, Nat.mod_eq_of_lt hi'] at this
  subst h3
  have hm : 0 < m := Nat.lt_of_le_of_lt (Nat.zero_le _) hi
  exact ⟨rfl, rfl, Nat.eq_of_mul_eq_mul_right hm (Nat.add_right_cancel h2)⟩

/-- the index embedding of the `(m, n)` model into the `(m', n')` model: the amplitude `(α, i, j)` keeps its
field and series indices and moves from position `num·(j·m + i) + α` to `num·(j·m' + i) + α` -/
def embedIndex (num : ℕ) {m n m' n' : ℕ} (hm : m ≤ m') (hn : n ≤ n') (p : Fin (num * m * n)) :
    Fin (num * m' * n') :=
  ⟨dofIndex num m' (p.val % num) (p.val / num % m) (p.val / num / m), by
    obtain ⟨-, hα, hi, hj⟩ := dofIndex_decode num m n p.val p.2
    exact dofIndex_lt num m' n' hα (lt_of_lt_of_le hi hm) (lt_of_lt_of_le hj hn)⟩

theorem embedIndex_injective (num : ℕ) {m n m' n' : ℕ} (hm : m ≤ m') (hn : n ≤ n') :
    Function.Injective (embedIndex num hm hn) := by
  intro p p' h
  obtain ⟨hp, hα, hi, _⟩ := dofIndex_decode num m n p.val p.2
  obtain ⟨hp', hα', hi', _⟩ := dofIndex_decode num m n p'.val p'.2
  have h' := congrArg Fin.val h
  simp only [embedIndex] at h'
  obtain ⟨e1, e2, e3⟩ := dofIndex_inj num m' hα hα' (lt_of_lt_of_le hi hm) (lt_of_lt_of_le hi' hm) h'
  apply Fin.ext
  rw [hp, hp', e1, e2, e3]

/-- the finalized matrix of a flat / cylindrical panel kernel with series orders `(m, n)` (placed at `row0 = 0`),
as a square real matrix of order `num·m·n` -/
noncomputable def panelMatrix (num m n : ℕ) (entry : Fin num → Fin num → PCtx ℝ → ℝ) (base : PCtx ℝ) (I : Integrals ℝ) :
    Matrix (Fin (num * m * n)) (Fin (num * m * n)) ℝ :=
  fun r c => toFun (panelCoo num m n 0 entry base I) r.val c.val

theorem panelMatrix_isHermitian (num m n : ℕ) (entry : Fin num → Fin num → PCtx ℝ → ℝ) (base : PCtx ℝ)
    (I : Integrals ℝ) : (panelMatrix num m n entry base I).IsHermitian := by
  ext r c
  simp only [Matrix.conjTranspose_apply, panelMatrix, star_trivial]
  exact panelCoo_symmetric num m n 0 entry base I c.val r.val

/-- entry of the panel matrix at two decoded positions -/
theorem panelMatrix_apply (num m n : ℕ) (entry : Fin num → Fin num → PCtx ℝ → ℝ) (base : PCtx ℝ) (I : Integrals ℝ)
    (hI : I.Comm) (hsym : ∀ ro co i k j l, entry ro co (ctxAt base I i k j l) = entry co ro (ctxAt base I i k j l).swap)
    {i k j l : ℕ} (hi : i < m) (hk : k < m) (hj : j < n) (hl : l < n) (α β : Fin num)
    (r c : Fin (num * m * n)) (hr : r.val = dofIndex num m α.val i j) (hc : c.val = dofIndex num m β.val k l) :
    panelMatrix num m n entry base I r c = entry α β (ctxAt base I i k j l) := by
  have h := panelCoo_entry num m n 0 entry base I hI hsym hi hk hj hl α β
  simp only [Nat.zero_add] at h
  unfold panelMatrix
  rw [hr, hc]
  exact h

/-- **nesting**: the `(m, n)` matrix is the principal sub-matrix of the `(m', n')` matrix along `embedIndex`, for
every kernel whose entry expressions are symmetric under exchange of the two basis functions (C02 `k0_entry_symm_*`,
C03 `kG0_symm_*`, C04 `kM_symm_*`) -/
theorem panelMatrix_nested (num : ℕ) {m n m' n' : ℕ} (hm : m ≤ m') (hn : n ≤ n')
    (entry : Fin num → Fin num → PCtx ℝ → ℝ) (base : PCtx ℝ) (I : Integrals ℝ) (hI : I.Comm)
    (hsym : ∀ ro co i k j l, entry ro co (ctxAt base I i k j l) = entry co ro (ctxAt base I i k j l).swap) :
    panelMatrix num m n entry base I =
      (panelMatrix num m' n' entry base I).submatrix (embedIndex num hm hn) (embedIndex num hm hn) := by
  ext r c
  obtain ⟨hr, hα, hi, hj⟩ := dofIndex_decode num m n r.val r.2
  obtain ⟨hc, hβ, hk, hl⟩ := dofIndex_decode num m n c.val c.2
  rw [Matrix.submatrix_apply]
  rw [panelMatrix_apply num m n entry base I hI hsym hi hk hj hl ⟨_, hα⟩ ⟨_, hβ⟩ r c hr hc]
  rw [panelMatrix_apply num m' n' entry base I hI hsym (lt_of_lt_of_le hi hm) (lt_of_lt_of_le hk hm)
    (lt_of_lt_of_le hj hn) (lt_of_lt_of_le hl hn) ⟨_, hα⟩ ⟨_, hβ⟩ _ _ rfl rfl]

/-- positive definiteness of the `(m', n')` matrix is inherited by the `(m, n)` matrix -/
theorem panelMatrix_posDef_of_le (num : ℕ) {m n m' n' : ℕ} (hm : m ≤ m') (hn : n ≤ n')
    (entry : Fin num → Fin num → PCtx ℝ → ℝ) (base : PCtx ℝ) (I : Integrals ℝ) (hI : I.Comm)
    (hsym : ∀ ro co i k j l, entry ro co (ctxAt base I i k j l) = entry co ro (ctxAt base I i k j l).swap)
    (hpd : (panelMatrix num m' n' entry base I).PosDef) : (panelMatrix num m n entry base I).PosDef := by
  rw [panelMatrix_nested num hm hn entry base I hI hsym]
  exact hpd.submatrix (embedIndex_injective num hm hn)

/-! ### the same for the sub-interval kernels (`panelCooYX`: loops nested `j, l, i, k`) and the conical panel
(`conePanelCoo`: one loop nest per constant-radius section), and the three monotonicity statements for ANY pair of
matrices of which one is a principal sub-matrix of the other (so every family above gets them by its `*_nested`) -/

/-- the finalized matrix of a sub-interval (`*y1y2`) kernel of the flat / cylindrical models -/
noncomputable def panelMatrixYX (num m n : ℕ) (entry : Fin num → Fin num → PCtx ℝ → ℝ) (base : PCtx ℝ)
    (I : Integrals ℝ) : Matrix (Fin (num * m * n)) (Fin (num * m * n)) ℝ :=
  fun r c => toFun (panelCooYX num m n 0 entry base I) r.val c.val

/-- the loop order does not change the matrix -/
theorem panelMatrixYX_eq (num m n : ℕ) (entry : Fin num → Fin num → PCtx ℝ → ℝ) (base : PCtx ℝ) (I : Integrals ℝ) :
    panelMatrixYX num m n entry base I = panelMatrix num m n entry base I := by
  ext r c
  exact panelCooYX_eq num m n 0 entry base I r.val c.val

theorem panelMatrixYX_isHermitian (num m n : ℕ) (entry : Fin num → Fin num → PCtx ℝ → ℝ) (base : PCtx ℝ)
    (I : Integrals ℝ) : (panelMatrixYX num m n entry base I).IsHermitian := by
  rw [panelMatrixYX_eq]; exact panelMatrix_isHermitian num m n entry base I

theorem panelMatrixYX_nested (num : ℕ) {m n m' n' : ℕ} (hm : m ≤ m') (hn : n ≤ n')
    (entry : Fin num → Fin num → PCtx ℝ → ℝ) (base : PCtx ℝ) (I : Integrals ℝ) (hI : I.Comm)
    (hsym : ∀ ro co i k j l, entry ro co (ctxAt base I i k j l) = entry co ro (ctxAt base I i k j l).swap) :
    panelMatrixYX num m n entry base I =
      (panelMatrixYX num m' n' entry base I).submatrix (embedIndex num hm hn) (embedIndex num hm hn) := by
  rw [panelMatrixYX_eq, panelMatrixYX_eq]
  exact panelMatrix_nested num hm hn entry base I hI hsym

theorem panelMatrixYX_posDef_of_le (num : ℕ) {m n m' n' : ℕ} (hm : m ≤ m') (hn : n ≤ n')
    (entry : Fin num → Fin num → PCtx ℝ → ℝ) (base : PCtx ℝ) (I : Integrals ℝ) (hI : I.Comm)
    (hsym : ∀ ro co i k j l, entry ro co (ctxAt base I i k j l) = entry co ro (ctxAt base I i k j l).swap)
    (hpd : (panelMatrixYX num m' n' entry base I).PosDef) : (panelMatrixYX num m n entry base I).PosDef := by
  rw [panelMatrixYX_nested num hm hn entry base I hI hsym]
  exact hpd.submatrix (embedIndex_injective num hm hn)

/-- the finalized matrix of a conical-panel kernel (`s` constant-radius sections, section `sec` with its own geometry
`sectionBase base s sec` and its own integrals `I sec`), placed at `row0 = 0` -/
noncomputable def conePanelMatrix (s num m n : ℕ) (entry : Fin num → Fin num → PCtx ℝ → ℝ) (base : PCtx ℝ)
    (I : ℕ → Integrals ℝ) : Matrix (Fin (num * m * n)) (Fin (num * m * n)) ℝ :=
  fun r c => toFun (conePanelCoo s num m n 0 entry base I) r.val c.val

theorem conePanelMatrix_isHermitian (s num m n : ℕ) (entry : Fin num → Fin num → PCtx ℝ → ℝ) (base : PCtx ℝ)
    (I : ℕ → Integrals ℝ) : (conePanelMatrix s num m n entry base I).IsHermitian := by
  ext r c
  simp only [Matrix.conjTranspose_apply, conePanelMatrix, star_trivial]
  exact Compmech.PanelLoop.finalize_symmetric _ c.val r.val

/-- entry of the conical panel matrix at two decoded positions: the sum over the sections -/
theorem conePanelMatrix_apply (s num m n : ℕ) (entry : Fin num → Fin num → PCtx ℝ → ℝ) (base : PCtx ℝ)
    (I : ℕ → Integrals ℝ) (hI : ∀ sec, (I sec).Comm)
    (hsym : ∀ sec ro co i k j l, entry ro co (ctxAt (sectionBase base s sec) (I sec) i k j l)
      = entry co ro (ctxAt (sectionBase base s sec) (I sec) i k j l).swap)
    {i k j l : ℕ} (hi : i < m) (hk : k < m) (hj : j < n) (hl : l < n) (α β : Fin num)
    (r c : Fin (num * m * n)) (hr : r.val = dofIndex num m α.val i j) (hc : c.val = dofIndex num m β.val k l) :
    conePanelMatrix s num m n entry base I r c
      = ((List.range s).map fun sec => entry α β (ctxAt (sectionBase base s sec) (I sec) i k j l)).sum := by
  have h := conePanelCoo_entry s num m n 0 entry base I hI hsym hi hk hj hl α β
  simp only [Nat.zero_add] at h
  unfold conePanelMatrix
  rw [hr, hc]
  exact h

/-- **nesting, conical panel**: nesting holds section by section, hence for the sum over the sections -/
theorem conePanelMatrix_nested (s num : ℕ) {m n m' n' : ℕ} (hm : m ≤ m') (hn : n ≤ n')
    (entry : Fin num → Fin num → PCtx ℝ → ℝ) (base : PCtx ℝ) (I : ℕ → Integrals ℝ) (hI : ∀ sec, (I sec).Comm)
    (hsym : ∀ sec ro co i k j l, entry ro co (ctxAt (sectionBase base s sec) (I sec) i k j l)
      = entry co ro (ctxAt (sectionBase base s sec) (I sec) i k j l).swap) :
    conePanelMatrix s num m n entry base I =
      (conePanelMatrix s num m' n' entry base I).submatrix (embedIndex num hm hn) (embedIndex num hm hn) := by
  ext r c
  obtain ⟨hr, hα, hi, hj⟩ := dofIndex_decode num m n r.val r.2
  obtain ⟨hc, hβ, hk, hl⟩ := dofIndex_decode num m n c.val c.2
  rw [Matrix.submatrix_apply]
  rw [conePanelMatrix_apply s num m n entry base I hI hsym hi hk hj hl ⟨_, hα⟩ ⟨_, hβ⟩ r c hr hc]
  rw [conePanelMatrix_apply s num m' n' entry base I hI hsym (lt_of_lt_of_le hi hm) (lt_of_lt_of_le hk hm)
    (lt_of_lt_of_le hj hn) (lt_of_lt_of_le hl hn) ⟨_, hα⟩ ⟨_, hβ⟩ _ _ rfl rfl]

theorem conePanelMatrix_posDef_of_le (s num : ℕ) {m n m' n' : ℕ} (hm : m ≤ m') (hn : n ≤ n')
    (entry : Fin num → Fin num → PCtx ℝ → ℝ) (base : PCtx ℝ) (I : ℕ → Integrals ℝ) (hI : ∀ sec, (I sec).Comm)
    (hsym : ∀ sec ro co i k j l, entry ro co (ctxAt (sectionBase base s sec) (I sec) i k j l)
      = entry co ro (ctxAt (sectionBase base s sec) (I sec) i k j l).swap)
    (hpd : (conePanelMatrix s num m' n' entry base I).PosDef) : (conePanelMatrix s num m n entry base I).PosDef := by
  rw [conePanelMatrix_nested s num hm hn entry base I hI hsym]
  exact hpd.submatrix (embedIndex_injective num hm hn)

/-! #### monotonicity for any nested pair -/

section Nested
open Matrix
variable {N N' : ℕ} {e : Fin N → Fin N'}

/-- standard problem: `A` a principal sub-matrix of `A'` ⇒ `λ_k(A') ≤ λ_k(A)` -/
theorem nested_ascEigenvalues_le {A : Matrix (Fin N) (Fin N) ℝ} {A' : Matrix (Fin N') (Fin N') ℝ}
    (he : Function.Injective e) (hnest : A = A'.submatrix e e) (hA : A.IsHermitian) (hA' : A'.IsHermitian)
    (k : Fin N) : ascEigenvalues hA' (Fin.castLE (le_of_injective he) k) ≤ ascEigenvalues hA k := by
  subst hnest
  exact ascEigenvalues_le_submatrix hA' he hA k

/-- generalised pencil `K v = λ M v` -/
theorem nested_genEigenvalues_le {K M : Matrix (Fin N) (Fin N) ℝ} {K' M' : Matrix (Fin N') (Fin N') ℝ}
    (he : Function.Injective e) (hnK : K = K'.submatrix e e) (hnM : M = M'.submatrix e e)
    (hK : K.IsHermitian) (hM : M.PosDef) (hK' : K'.IsHermitian) (hM' : M'.PosDef) (k : Fin N) :
    genEigenvalues hK' hM' (Fin.castLE (le_of_injective he) k) ≤ genEigenvalues hK hM k := by
  subst hnK hnM
  exact genEigenvalues_le_submatrix hK' hM' he hK hM k

/-- buckling pencil `(K + λ KG) v = 0` -/
theorem nested_bucklingMultiplier_le {KG K : Matrix (Fin N) (Fin N) ℝ} {KG' K' : Matrix (Fin N') (Fin N') ℝ}
    (he : Function.Injective e) (hnG : KG = KG'.submatrix e e) (hnK : K = K'.submatrix e e)
    (hKG : KG.IsHermitian) (hK : K.PosDef) (hKG' : KG'.IsHermitian) (hK' : K'.PosDef) (k : Fin N)
    (hneg : genEigenvalues hKG hK k < 0) :
    genEigenvalues hKG' hK' (Fin.castLE (le_of_injective he) k) < 0 ∧
      bucklingMultiplier hKG' hK' (Fin.castLE (le_of_injective he) k) ≤ bucklingMultiplier hKG hK k := by
  subst hnG hnK
  exact bucklingMultiplier_le_submatrix hKG' hK' he hKG hK k hneg

end Nested

/-- the size of the small model does not exceed the size of the large one -/
theorem size_le (num : ℕ) {m n m' n' : ℕ} (hm : m ≤ m') (hn : n ≤ n') : num * m * n ≤ num * m' * n' :=
  Nat.mul_le_mul (Nat.mul_le_mul_left _ hm) hn

end Compmech.Ritz
