/-
What C12 says: the interface quantities whose jump is penalised, per connection kind.
Component order: 3 translations (weight kt each), 1 rotation (weight kr).
In `OpTerm` the field `dx` is the derivative order ALONG the interface line (integrated) and `dy` the
order NORMAL to it (evaluated at the interface coordinate) for the line kinds; for the surface kind
`dx`, `dy` are the ξ and η orders.
-/
import CompmechVerif.Core.ConnSpec

namespace Compmech.Panel
variable {K : Type} [Field K]

def penaltyW (C : CCtx K) : Fin 4 → K
  | 3 => C.kr
  | _ => C.kt

/-- skin–skin along a line `y = const` (`SSycte`): `⟦u⟧, ⟦v⟧, ⟦w⟧`, `⟦w,y⟧` with `w,y = (2/b_p) ∂η w` -/
def ssyOps (C : CCtx K) (p : Pan) : Fld → Fin 4 → List (OpTerm K)
  | .u, 0 => [⟨1, 0, 0⟩]
  | .v, 1 => [⟨1, 0, 0⟩]
  | .w, 2 => [⟨1, 0, 0⟩]
  | .w, 3 => [⟨2 / C.b p, 0, 1⟩]
  | _, _ => []

/-- skin–skin along a line `x = const` (`SSxcte`): rotation `w,x = (2/a_p) ∂ξ w` -/
def ssxOps (C : CCtx K) (p : Pan) : Fld → Fin 4 → List (OpTerm K)
  | .u, 0 => [⟨1, 0, 0⟩]
  | .v, 1 => [⟨1, 0, 0⟩]
  | .w, 2 => [⟨1, 0, 0⟩]
  | .w, 3 => [⟨2 / C.a p, 0, 1⟩]
  | _, _ => []

/-- base (panel 1) – perpendicular flange (panel 2) along `y = const` (`BFycte`): the flange's `w` is
the base's `v` and the flange's `−v` is the base's `w`:
`u₁ − u₂`, `v₁ − w₂`, `w₁ + v₂`, `w₁,y − w₂,y`. -/
def bfyOps (C : CCtx K) : Pan → Fld → Fin 4 → List (OpTerm K)
  | .p1, f, c => ssyOps C .p1 f c
  | .p2, .u, 0 => [⟨1, 0, 0⟩]
  | .p2, .w, 1 => [⟨1, 0, 0⟩]
  | .p2, .v, 2 => [⟨-1, 0, 0⟩]
  | .p2, .w, 3 => [⟨2 / C.b2, 0, 1⟩]
  | .p2, _, _ => []

/-- base – perpendicular flange along `x = const` (`BFxcte`): `u₁ − w₂`, `v₁ − v₂`, `w₁ + u₂`, `w₁,x − w₂,x` -/
def bfxOps (C : CCtx K) : Pan → Fld → Fin 4 → List (OpTerm K)
  | .p1, f, c => ssxOps C .p1 f c
  | .p2, .w, 0 => [⟨1, 0, 0⟩]
  | .p2, .v, 1 => [⟨1, 0, 0⟩]
  | .p2, .u, 2 => [⟨-1, 0, 0⟩]
  | .p2, .w, 3 => [⟨2 / C.a2, 0, 1⟩]
  | .p2, _, _ => []

/-- face to face with thickness offset `dsb` (`SB`): `u₁ + dsb·w₁,x − u₂`, `v₁ + dsb·w₁,y − v₂`, `w₁ − w₂`;
no rotational penalty. -/
def sbOps (C : CCtx K) : Pan → Fld → Fin 4 → List (OpTerm K)
  | _, .u, 0 => [⟨1, 0, 0⟩]
  | _, .v, 1 => [⟨1, 0, 0⟩]
  | _, .w, 2 => [⟨1, 0, 0⟩]
  | .p1, .w, 0 => [⟨C.dsb * (2 / C.a1), 1, 0⟩]
  | .p1, .w, 1 => [⟨C.dsb * (2 / C.b1), 0, 1⟩]
  | _, _, _ => []

def sbW (C : CCtx K) : Fin 4 → K
  | 3 => 0
  | _ => C.kt

end Compmech.Panel
