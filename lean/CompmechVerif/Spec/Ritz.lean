/-
C15, algebraic half: hierarchical Ritz spaces are nested, the smaller matrices are principal sub-matrices of
the larger ones, and min–max values can only go down when the space grows.
-/
import Mathlib.LinearAlgebra.Dimension.Finrank
import Mathlib.Data.EReal.Basic
import Mathlib.Order.CompleteLattice.Basic

namespace Compmech.Ritz

/-- position of the amplitude `(field α, x-index i, y-index j)` in a panel with `m` terms along x
(the dof map `num*(j*m + i) + α` of every kernel) -/
def dofIndex (num m : ℕ) (α i j : ℕ) : ℕ := num * (j * m + i) + α

variable {E : Type*} [AddCommGroup E] [Module ℝ E]

/-- Courant–Fischer value: infimum over the `k`-dimensional subspaces `W` of the trial space `V` of the
supremum of the Rayleigh quotient `R` over the non-zero vectors of `W` -/
noncomputable def minmax (R : E → EReal) (k : ℕ) (V : Submodule ℝ E) : EReal :=
  ⨅ W : {W : Submodule ℝ E // W ≤ V ∧ Module.finrank ℝ W = k},
    ⨆ x : {x : E // x ∈ W.1 ∧ x ≠ 0}, R x.1

end Compmech.Ritz
