/-
Model-independent algebra behind C17 stage 2 (non-linear shell kernels): if the regenerated pieces of a model have the
STRUCTURE of a Green-Lagrange type theory at the point,

    strains          e(c) = e0(c) + eL(c),   e0 linear in the amplitudes,
                     eL(c) = eLc + Σ_k c_k · bL_k(σ(c)),   bL_k affine in the slopes σ(c) = Σ_k c_k g_k,  reciprocal,
    internal force   f_A = ρ Σ_pq [ b0_A p · F pq · eL q + BL_A p · F pq · (e0 q + eL q) ],   BL_A = 2 bL_A(σ) − bL_A(0),

then along ANY direction the internal force is a cubic in the step `t` whose linear coefficient is
`ρ Σ_pq [ b0_A F BL_D + BL_A F b0_D + BL_A F BL_D + 2 lin_A(g_D) F (e0 + eL) ]` — the pieces `k0L`, `k0Lᵀ`, `kLL`, `kG`.
No analysis: a polynomial identity in `t`.  (Spec/ShellJacobian/Generic.lean instantiates it with a `PointModel`.)
-/
import CompmechVerif.Core.ShellNLSpec
import Mathlib.Tactic.Ring
import Mathlib.Algebra.BigOperators.Group.List.Basic

namespace Compmech.ShellNL.Abstract

variable {K : Type} [Field K]

/-- what one degree of freedom (or a linear combination of them) contributes at the point -/
structure ADof (K : Type) where
  /-- slopes per unit amplitude -/
  g : Fin 3 → K
  /-- linear strains per unit amplitude -/
  b0 : Fin 6 → K
  /-- non-linear strains per unit amplitude, at the total slopes `σ` -/
  bL : (Fin 3 → K) → Fin 6 → K

/-- the part of `bL` that is linear in the slopes -/
def ADof.lin (d : ADof K) (τ : Fin 3 → K) (p : Fin 6) : K := d.bL τ p - d.bL (fun _ => 0) p

/-- variation of the non-linear strain of the state w.r.t. this dof: `2 bL(σ) − bL(0)` -/
def ADof.BL (d : ADof K) (σ : Fin 3 → K) (p : Fin 6) : K := 2 * d.bL σ p - d.bL (fun _ => 0) p

/-- `bL` is affine in the slopes -/
def ADof.Affine (d : ADof K) : Prop :=
  ∀ (σ τ : Fin 3 → K) (t : K) (p : Fin 6), d.bL (fun s => σ s + t * τ s) p = d.bL σ p + t * d.lin τ p

/-- reciprocity: the bilinear form behind `bL` is symmetric -/
def Recip (d e : ADof K) : Prop := ∀ p, d.lin e.g p = e.lin d.g p

/-- `C + t·D` -/
def ADof.addSmul (C : ADof K) (t : K) (D : ADof K) : ADof K :=
  { g := fun s => C.g s + t * D.g s, b0 := fun p => C.b0 p + t * D.b0 p, bL := fun σ p => C.bL σ p + t * D.bL σ p }

/-- linear combination of a list of dofs -/
def comb (l : List (K × ADof K)) : ADof K :=
  { g := fun s => (l.map fun x => x.1 * x.2.g s).sum
    b0 := fun p => (l.map fun x => x.1 * x.2.b0 p).sum
    bL := fun σ p => (l.map fun x => x.1 * x.2.bL σ p).sum }

/-! ### the state seen through ONE combined dof `C` (amplitude 1) -/

/-- non-linear strain of the state `C` -/
def eLof (eLc : Fin 6 → K) (C : ADof K) (q : Fin 6) : K := eLc q + C.bL C.g q

/-- internal-force integrand of the row dof `A` at the state `C` -/
def fintA (ρ : K) (F : Fin 6 → Fin 6 → K) (eLc : Fin 6 → K) (A C : ADof K) : K :=
  ρ * sum6 fun p => sum6 fun q =>
    A.b0 p * F p q * eLof eLc C q + A.BL C.g p * F p q * (C.b0 q + eLof eLc C q)

/-- tangent integrand, row dof `A`, column data (`b0`, `BL`, `lin_A(g)`) of the direction -/
def tangentRaw (ρ : K) (F : Fin 6 → Fin 6 → K) (eLc : Fin 6 → K) (A C : ADof K) (b0D BLD linAD : Fin 6 → K) : K :=
  ρ * sum6 fun p => sum6 fun q =>
    A.b0 p * F p q * BLD q + A.BL C.g p * F p q * (b0D q + BLD q) + 2 * linAD p * F p q * (C.b0 q + eLof eLc C q)

def tangent (ρ : K) (F : Fin 6 → Fin 6 → K) (eLc : Fin 6 → K) (A C D : ADof K) : K :=
  tangentRaw ρ F eLc A C D.b0 (D.BL C.g) (A.lin D.g)

def R2 (ρ : K) (F : Fin 6 → Fin 6 → K) (A C D : ADof K) : K :=
  ρ * sum6 fun p => sum6 fun q =>
    A.b0 p * F p q * D.lin D.g q + A.BL C.g p * F p q * D.lin D.g q + 2 * A.lin D.g p * F p q * (D.b0 q + D.BL C.g q)

def R3 (ρ : K) (F : Fin 6 → Fin 6 → K) (A D : ADof K) : K :=
  ρ * sum6 fun p => sum6 fun q => 2 * A.lin D.g p * F p q * D.lin D.g q

theorem lin_add_smul {d : ADof K} (h : d.Affine) (σ τ : Fin 3 → K) (t : K) (p : Fin 6) :
    d.lin (fun s => σ s + t * τ s) p = d.lin σ p + t * d.lin τ p := by
  unfold ADof.lin; rw [h σ τ t p]; unfold ADof.lin; ring

theorem BL_add_smul {d : ADof K} (h : d.Affine) (σ τ : Fin 3 → K) (t : K) (p : Fin 6) :
    d.BL (fun s => σ s + t * τ s) p = d.BL σ p + 2 * t * d.lin τ p := by
  unfold ADof.BL; rw [h σ τ t p]; ring

/-- the non-linear strain of the perturbed state -/
theorem eLof_addSmul (eLc : Fin 6 → K) {C D : ADof K} (hC : C.Affine) (hD : D.Affine) (hCD : Recip C D) (t : K) (q : Fin 6) :
    eLof eLc (C.addSmul t D) q = eLof eLc C q + t * D.BL C.g q + t ^ 2 * D.lin D.g q := by
  unfold eLof ADof.addSmul
  simp only []
  rw [hC C.g D.g t q, hD C.g D.g t q, hCD q]
  unfold ADof.BL ADof.lin
  ring

/-- CORE: the internal-force integrand along `C + t·D` is a cubic in `t` with the tangent as linear coefficient. -/
theorem fintA_addSmul (ρ : K) (F : Fin 6 → Fin 6 → K) (eLc : Fin 6 → K) {A C D : ADof K}
    (hA : A.Affine) (hC : C.Affine) (hD : D.Affine) (hCD : Recip C D) (t : K) :
    fintA ρ F eLc A (C.addSmul t D) =
      fintA ρ F eLc A C + t * tangent ρ F eLc A C D + t ^ 2 * R2 ρ F A C D + t ^ 3 * R3 ρ F A D := by
  have hg : (C.addSmul t D).g = fun s => C.g s + t * D.g s := rfl
  have hb : ∀ q, (C.addSmul t D).b0 q = C.b0 q + t * D.b0 q := fun _ => rfl
  unfold fintA tangent tangentRaw R2 R3
  simp only [eLof_addSmul eLc hC hD hCD, hg, BL_add_smul hA, hb, sum6]
  ring

/-! ### lists of dofs -/

theorem comb_nil_g : (comb ([] : List (K × ADof K))).g = fun _ => 0 := rfl

theorem comb_cons (x : K × ADof K) (l : List (K × ADof K)) :
    comb (x :: l) = { g := fun s => x.1 * x.2.g s + (comb l).g s, b0 := fun p => x.1 * x.2.b0 p + (comb l).b0 p,
                      bL := fun σ p => x.1 * x.2.bL σ p + (comb l).bL σ p } := by
  unfold comb; simp only [List.map_cons, List.sum_cons]

/-- appending `t`-scaled terms to the amplitude list = moving the combined dof along the combined direction -/
theorem comb_append_scale (l₁ l₂ : List (K × ADof K)) (t : K) :
    comb (l₁ ++ l₂.map fun x => (t * x.1, x.2)) = (comb l₁).addSmul t (comb l₂) := by
  unfold comb ADof.addSmul
  simp only [List.map_append, List.sum_append, List.map_map, Function.comp_def, mul_assoc]
  have h : ∀ f : K × ADof K → K, (l₂.map fun x => t * (x.1 * f x)).sum = t * (l₂.map fun x => x.1 * f x).sum := by
    intro f
    induction l₂ with
    | nil => simp
    | cons a l ih => simp only [List.map_cons, List.sum_cons, ih]; ring
  congr 1
  · funext s; rw [h fun x => x.2.g s]
  · funext p; rw [h fun x => x.2.b0 p]
  · funext σ p; rw [h fun x => x.2.bL σ p]

theorem comb_lin (l : List (K × ADof K)) (τ : Fin 3 → K) (p : Fin 6) :
    (comb l).lin τ p = (l.map fun x => x.1 * x.2.lin τ p).sum := by
  induction l with
  | nil => simp [comb, ADof.lin]
  | cons a l ih =>
    rw [comb_cons]; simp only [List.map_cons, List.sum_cons, ← ih]; unfold ADof.lin; ring

theorem comb_BL (l : List (K × ADof K)) (σ : Fin 3 → K) (p : Fin 6) :
    (comb l).BL σ p = (l.map fun x => x.1 * x.2.BL σ p).sum := by
  induction l with
  | nil => simp [comb, ADof.BL]
  | cons a l ih =>
    rw [comb_cons]; simp only [List.map_cons, List.sum_cons, ← ih]; unfold ADof.BL; ring

theorem comb_affine (l : List (K × ADof K)) (h : ∀ x ∈ l, x.2.Affine) : (comb l).Affine := by
  intro σ τ t p
  rw [comb_lin]
  induction l with
  | nil => simp [comb]
  | cons a l ih =>
    have ha := h a (List.mem_cons_self)
    have hl := ih fun x hx => h x (List.mem_cons_of_mem _ hx)
    simp only [comb_cons, List.map_cons, List.sum_cons] at hl ⊢
    rw [hl, ha σ τ t p]; ring

/-- `lin` of an affine dof is linear in the slopes: along a combination of dofs -/
theorem lin_comb {e : ADof K} (he : e.Affine) (l : List (K × ADof K)) (p : Fin 6) :
    e.lin (comb l).g p = (l.map fun x => x.1 * e.lin x.2.g p).sum := by
  induction l with
  | nil => simp [comb, ADof.lin]
  | cons a l ih =>
    rw [comb_cons]
    simp only [List.map_cons, List.sum_cons, ← ih]
    have := lin_add_smul he (comb l).g a.2.g a.1 p
    have hfun : (fun s => a.1 * a.2.g s + (comb l).g s) = fun s => (comb l).g s + a.1 * a.2.g s := by
      funext s; ring
    rw [hfun, this]; ring

theorem recip_comb_left (l : List (K × ADof K)) {e : ADof K} (he : e.Affine) (h : ∀ x ∈ l, Recip x.2 e) :
    Recip (comb l) e := by
  intro p
  rw [comb_lin, lin_comb he]
  congr 1
  apply List.map_congr_left
  intro x hx
  rw [h x hx p]

theorem recip_symm {d e : ADof K} (h : Recip d e) : Recip e d := fun p => (h p).symm

theorem recip_comb (l₁ l₂ : List (K × ADof K)) (h₁ : ∀ x ∈ l₁, x.2.Affine) (h₂ : ∀ x ∈ l₂, x.2.Affine)
    (h : ∀ x ∈ l₁, ∀ y ∈ l₂, Recip x.2 y.2) : Recip (comb l₁) (comb l₂) := by
  apply recip_comb_left l₁ (comb_affine l₂ h₂)
  intro x hx
  exact recip_symm (recip_comb_left l₂ (h₁ x hx) fun y hy => recip_symm (h x hx y hy))

theorem tangentRaw_add_smul (ρ : K) (F : Fin 6 → Fin 6 → K) (eLc : Fin 6 → K) (A C : ADof K) (c : K)
    (u₁ v₁ w₁ u₂ v₂ w₂ : Fin 6 → K) :
    tangentRaw ρ F eLc A C (fun q => c * u₁ q + u₂ q) (fun q => c * v₁ q + v₂ q) (fun q => c * w₁ q + w₂ q) =
      c * tangentRaw ρ F eLc A C u₁ v₁ w₁ + tangentRaw ρ F eLc A C u₂ v₂ w₂ := by
  unfold tangentRaw; simp only [sum6]; ring

/-- the tangent is linear in the direction -/
theorem tangent_comb (ρ : K) (F : Fin 6 → Fin 6 → K) (eLc : Fin 6 → K) {A : ADof K} (hA : A.Affine) (C : ADof K)
    (l : List (K × ADof K)) :
    tangent ρ F eLc A C (comb l) = (l.map fun x => x.1 * tangent ρ F eLc A C x.2).sum := by
  induction l with
  | nil =>
    unfold tangent tangentRaw ADof.BL ADof.lin comb
    simp [sum6]
  | cons a l ih =>
    simp only [List.map_cons, List.sum_cons, ← ih]
    unfold tangent
    rw [← tangentRaw_add_smul]
    have h1 : (comb (a :: l)).b0 = fun q => a.1 * a.2.b0 q + (comb l).b0 q := by rw [comb_cons]
    have h2 : (comb (a :: l)).BL C.g = fun q => a.1 * a.2.BL C.g q + (comb l).BL C.g q := by
      funext q; rw [comb_BL, comb_BL]; simp only [List.map_cons, List.sum_cons]
    have h3 : A.lin (comb (a :: l)).g = fun q => a.1 * A.lin a.2.g q + A.lin (comb l).g q := by
      funext q; rw [lin_comb hA, lin_comb hA]; simp only [List.map_cons, List.sum_cons]
    rw [h1, h2, h3]

/-- symmetry of the tangent integrand under exchange of the two dofs -/
theorem tangent_symm (ρ : K) (F : Fin 6 → Fin 6 → K) (hF : ∀ p q, F p q = F q p) (eLc : Fin 6 → K) (A C B : ADof K)
    (hAB : Recip A B) : tangent ρ F eLc A C B = tangent ρ F eLc B C A := by
  unfold tangent tangentRaw
  simp only [sum6, hAB _]
  rw [hF 1 0, hF 2 0, hF 3 0, hF 4 0, hF 5 0, hF 2 1, hF 3 1, hF 4 1, hF 5 1, hF 3 2, hF 4 2, hF 5 2, hF 4 3, hF 5 3, hF 5 4]
  ring

end Compmech.ShellNL.Abstract
