/-
The amplitude layout of the CLPT complete-shell models (`num0 = num1 = 3`, `num2 = 6`, `i0 = 0`, `j0 = 1`), as the dof maps of
the sources define it:

    j < 3                         leading amplitudes                      type j,            base 0
    3 ≤ j < 3 + 3 m1              term i1 = (j − 3) / 3                   type 3 + (j−3) % 3, base 3 + 3·((j−3)/3)
    3 + 3 m1 ≤ j                  q = (j − 3 − 3 m1) / 6,  i2 = q % m2,   type 6 + (…) % 6,   base 3 + 3 m1 + 6 q
                                  j2 = q / m2 + 1
The trigonometric values and the point geometry are PARAMETERS (`sinx i x` stands for `sin(iπx/L)` …): every statement holds
for arbitrary ones.  `AsmOK` (types and indices ordered by class, `base` monotone) is proved here once.
-/
import CompmechVerif.Spec.ShellJacobian.Assembly
import Mathlib.Tactic.Ring

namespace Compmech.ShellNL

variable {K : Type} [Field K]

/-- the `row > col` skip flag of block (rc, cc) in a regenerated `schema_*` -/
def skipOf (schema : List (Nat × Nat × Bool × List (Nat × Nat))) (rc cc : Nat) : Bool :=
  schema.any fun b => b.1 == rc && b.2.1 == cc && b.2.2.1

theorem skipOf_false (schema : List (Nat × Nat × Bool × List (Nat × Nat))) (h : ∀ b ∈ schema, b.2.2.1 = false)
    (rc cc : Nat) : skipOf schema rc cc = false := by
  unfold skipOf
  rw [List.any_eq_false]
  intro b hb
  simp [h b hb]

/-- type number of the global index `j` -/
def stdTyVal (m1 j : Nat) : Nat :=
  if j < 3 then j else if j < 3 + 3 * m1 then 3 + (j - 3) % 3 else 6 + (j - 3 - 3 * m1) % 6

theorem stdTyVal_lt (m1 j : Nat) : stdTyVal m1 j < 12 := by
  unfold stdTyVal; split_ifs <;> omega

def stdTy (m1 j : Nat) : Fin 12 := ⟨stdTyVal m1 j, stdTyVal_lt m1 j⟩

def stdBase (m1 j : Nat) : Nat :=
  if j < 3 then 0 else if j < 3 + 3 * m1 then 3 + 3 * ((j - 3) / 3) else 3 + 3 * m1 + 6 * ((j - 3 - 3 * m1) / 6)

/-- point values of the degree of freedom `j` -/
def stdDof (m1 m2 : Nat) (sinx cosx sint cost : Nat → K → K) (j : Nat) (x y : K) : Dof K :=
  if j < 3 then ⟨0, 0, 0, 0, 0, 0⟩
  else if j < 3 + 3 * m1 then
    let i1 := (j - 3) / 3
    ⟨(i1 : K), 0, sinx i1 x, cosx i1 x, 0, 0⟩
  else
    let q := (j - 3 - 3 * m1) / 6
    let i2 := q % m2
    let j2 := q / m2 + 1
    ⟨(i2 : K), (j2 : K), sinx i2 x, cosx i2 x, sint j2 y, cost j2 y⟩

/-- the standard layout with the skip flags of the regenerated schemas -/
def stdAsm (m1 m2 n2 : Nat) (geo : K → K → Geo K) (sinx cosx sint cost : Nat → K → K)
    (s0L sLL sG : List (Nat × Nat × Bool × List (Nat × Nat))) : Asm 12 K :=
  { n := 3 + 3 * m1 + 6 * m2 * n2
    ty := stdTy m1
    dof := stdDof m1 m2 sinx cosx sint cost
    geo := geo
    base := stdBase m1
    skip0L := skipOf s0L
    skipLL := skipOf sLL
    skipG := skipOf sG }

/-- classes of the twelve CLPT types -/
def cls12 (A : Fin 12) : Nat := if A.val < 3 then 0 else if A.val < 6 then 1 else 2

theorem stdAsm_ok (M : PointModel 12 K) (hcls : ∀ A, M.cls A = cls12 A) (m1 m2 n2 : Nat) (geo : K → K → Geo K)
    (sinx cosx sint cost : Nat → K → K) (s0L sLL sG : List (Nat × Nat × Bool × List (Nat × Nat))) :
    AsmOK M (stdAsm m1 m2 n2 geo sinx cosx sint cost s0L sLL sG) := by
  refine ⟨?_, ?_, ?_⟩
  · intro A B hAB
    rw [hcls, hcls]; unfold cls12
    have : A.val ≤ B.val := hAB
    split_ifs <;> omega
  · intro i j hij
    rw [hcls, hcls]
    show cls12 (stdTy m1 i) ≤ cls12 (stdTy m1 j)
    unfold cls12 stdTy stdTyVal
    simp only
    split_ifs <;> omega
  · intro i j hij
    show stdBase m1 i ≤ stdBase m1 j
    unfold stdBase
    split_ifs <;> omega

end Compmech.ShellNL
