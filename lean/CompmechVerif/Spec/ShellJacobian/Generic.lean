/-
C17 stage 2, model-independent part: from the STRUCTURAL identities of a regenerated `PointModel` (`ModelOK`, small `ring`
goals proved per model in Spec/ShellJacobian/<Model>.lean) to the statements about `fintAt` / `kTAt`:
tangent integrand = exact derivative of the internal-force integrand (cubic expansion), symmetry, zero at the undeformed state.
-/
import CompmechVerif.Spec.ShellJacobian.Abstract
import Mathlib.Tactic.FinCases
import Mathlib.Data.Fintype.Basic
import Mathlib.Tactic.LinearCombination
import Mathlib.Tactic.NormNum
import Mathlib.Algebra.CharZero.Defs

namespace Compmech.ShellNL

variable {K : Type} [Field K] {nT : Nat}

theorem Res.n0_ofFn (n0 nL : Fin 6 → K) : (Res.ofFn n0 nL).n0 = n0 := by
  funext p; fin_cases p <;> rfl
theorem Res.nL_ofFn (n0 nL : Fin 6 → K) : (Res.ofFn n0 nL).nL = nL := by
  funext p; fin_cases p <;> rfl
theorem Strains.e0_ofFn (e0 eL : Fin 6 → K) : (Strains.ofFn e0 eL).e0 = e0 := by
  funext p; fin_cases p <;> rfl
theorem Strains.eL_ofFn (e0 eL : Fin 6 → K) : (Strains.ofFn e0 eL).eL = eL := by
  funext p; fin_cases p <;> rfl

theorem Geo.Fm_symm (G : Geo K) (p q : Fin 6) : G.Fm p q = G.Fm q p := by
  fin_cases p <;> fin_cases q <;> rfl

/-- variation of the non-linear strains of the state w.r.t. a dof of type `A`: `2 eL_A(S) − eL_A(0)` -/
def PointModel.BL (M : PointModel nT K) (A : Fin nT) (p : Fin 6) (G : Geo K) (S : Slopes K) (d : Dof K) : K :=
  2 * M.eL A p G S d - M.eL A p G Slopes.zero d

/-- the slopes of ONE dof of type `B` with unit amplitude -/
def PointModel.slOf (M : PointModel nT K) (B : Fin nT) (G : Geo K) (b : Dof K) : Slopes K :=
  Slopes.ofFn fun s => M.sl B s G b

/-- The structural identities of a model at a geometry `G` (each field: one small identity per dof type / pair of types):
resultants = laminate matrix × strains; `fint` = `r`·(B₀ᵀ N_L + B_Lᵀ (N₀ + N_L)); `k0L` = `r`·B₀ᵀ F B_L; `kLL` = `r`·B_Lᵀ F B_L;
`kG` = `r`·N·(second variation of the non-linear strains); the non-linear strain increments are affine in the slopes,
reciprocal, and confined to the membrane components.
`P` singles out the degree-of-freedom types for which the `k0L` ROW has this form (all of them for the Donnell models; all but
the always-prescribed load-asymmetry amplitude `c[2]` for the Sanders models). -/
structure ModelOK (M : PointModel nT K) (G : Geo K) (P : Fin nT → Prop) : Prop where
  N0_eq : ∀ p E, M.N0 p G E = sum6 fun q => G.Fm p q * E.e0 q
  NL_eq : ∀ p E, M.NL p G E = sum6 fun q => G.Fm p q * E.eL q
  fint_eq : ∀ A S N d, M.fint A G S N d =
    G.r * sum6 fun p => M.e0 A p G d * N.nL p + M.BL A p G S d * (N.n0 p + N.nL p)
  /-- only for row types satisfying `P` (the free amplitudes; see the Sanders models) -/
  k0L_eq : ∀ A B S a b, P A → M.k0L A B G S a b =
    G.r * sum6 fun p => sum6 fun q => M.e0 A p G a * G.Fm p q * M.BL B q G S b
  kLL_eq : ∀ A B S a b, symE M.kLL A B G S a b =
    G.r * sum6 fun p => sum6 fun q => M.BL A p G S a * G.Fm p q * M.BL B q G S b
  kG_eq : ∀ A B NG a b, symE M.kG A B G NG a b =
    G.r * sum6 fun p => 2 * (M.eL A p G (M.slOf B G b) a - M.eL A p G Slopes.zero a) * NG.v p
  /-- entries BELOW the type diagonal inside a diagonal block (11, 22: the kernels write them for `row ≤ col`) have the same
  form, directly -/
  kLL_low : ∀ A B S a b, B < A → M.cls A = M.cls B → M.kLL A B G S a b =
    G.r * sum6 fun p => sum6 fun q => M.BL A p G S a * G.Fm p q * M.BL B q G S b
  kG_low : ∀ A B NG a b, B < A → M.cls A = M.cls B → M.kG A B G NG a b =
    G.r * sum6 fun p => 2 * (M.eL A p G (M.slOf B G b) a - M.eL A p G Slopes.zero a) * NG.v p
  eL_affine : ∀ A p S T t d, M.eL A p G (S.addSmul t T) d =
    M.eL A p G S d + t * (M.eL A p G T d - M.eL A p G Slopes.zero d)
  eL_recip : ∀ A B p a b, M.eL A p G (M.slOf B G b) a - M.eL A p G Slopes.zero a =
    M.eL B p G (M.slOf A G a) b - M.eL B p G Slopes.zero b
  eL_membrane : ∀ A S d, M.eL A 3 G S d = 0 ∧ M.eL A 4 G S d = 0 ∧ M.eL A 5 G S d = 0

namespace Generic
open Abstract

/-- a dof of type `A` with point values `d`, abstractly -/
def toADof (M : PointModel nT K) (G : Geo K) (A : Fin nT) (d : Dof K) : ADof K :=
  { g := fun s => M.sl A s G d, b0 := fun p => M.e0 A p G d, bL := fun σ p => M.eL A p G (Slopes.ofFn σ) d }

/-- the whole state, abstractly -/
def stateDof (M : PointModel nT K) (G : Geo K) (cs : List (Amp nT K)) : ADof K :=
  comb (cs.map fun a => (a.c, toADof M G a.ty a.d))

variable {M : PointModel nT K} {G : Geo K} {P : Fin nT → Prop}

theorem toADof_affine (h : ModelOK M G P) (A : Fin nT) (d : Dof K) : (toADof M G A d).Affine := by
  intro σ τ t p
  exact h.eL_affine A p (Slopes.ofFn σ) (Slopes.ofFn τ) t d

theorem toADof_recip (h : ModelOK M G P) (A B : Fin nT) (a b : Dof K) : Recip (toADof M G A a) (toADof M G B b) := by
  intro p
  exact h.eL_recip A B p a b

theorem stateDof_affine (h : ModelOK M G P) (cs : List (Amp nT K)) : (stateDof M G cs).Affine := by
  apply comb_affine
  intro x hx
  obtain ⟨a, _, rfl⟩ := List.mem_map.mp hx
  exact toADof_affine h a.ty a.d

theorem stateDof_recip (h : ModelOK M G P) (cs ds : List (Amp nT K)) : Recip (stateDof M G cs) (stateDof M G ds) := by
  apply recip_comb
  · intro x hx; obtain ⟨a, _, rfl⟩ := List.mem_map.mp hx; exact toADof_affine h a.ty a.d
  · intro x hx; obtain ⟨a, _, rfl⟩ := List.mem_map.mp hx; exact toADof_affine h a.ty a.d
  · intro x hx y hy
    obtain ⟨a, _, rfl⟩ := List.mem_map.mp hx
    obtain ⟨b, _, rfl⟩ := List.mem_map.mp hy
    exact toADof_recip h a.ty b.ty a.d b.d

theorem stateDof_append_scale (cs ds : List (Amp nT K)) (t : K) :
    stateDof M G (cs ++ ds.map (Amp.scale t)) = (stateDof M G cs).addSmul t (stateDof M G ds) := by
  unfold stateDof
  rw [← comb_append_scale]
  simp only [List.map_append, List.map_map, Function.comp_def, Amp.scale]

theorem slopesOf_eq (cs : List (Amp nT K)) : slopesOf M G cs = Slopes.ofFn (stateDof M G cs).g := by
  unfold slopesOf stateDof comb toADof
  simp only [List.map_map, Function.comp_def]

theorem strains_e0 (cs : List (Amp nT K)) : (strainsOf M G cs).e0 = (stateDof M G cs).b0 := by
  unfold strainsOf; rw [Strains.e0_ofFn]
  unfold stateDof comb toADof
  simp only [List.map_map, Function.comp_def]

theorem strains_eL (cs : List (Amp nT K)) : (strainsOf M G cs).eL = eLof (fun p => M.eLc p G) (stateDof M G cs) := by
  unfold strainsOf; rw [Strains.eL_ofFn, slopesOf_eq]
  unfold eLof stateDof comb toADof
  simp only [List.map_map, Function.comp_def]

theorem BL_toADof (A : Fin nT) (a : Dof K) (σ : Fin 3 → K) (p : Fin 6) :
    (toADof M G A a).BL σ p = M.BL A p G (Slopes.ofFn σ) a := rfl

/-- `fintAt` of the regenerated terms is the abstract internal-force integrand -/
theorem fintAt_eq (h : ModelOK M G P) (cs : List (Amp nT K)) (A : Fin nT) (a : Dof K) :
    fintAt M G cs A a = fintA G.r G.Fm (fun p => M.eLc p G) (toADof M G A a) (stateDof M G cs) := by
  unfold fintAt resOf
  rw [h.fint_eq, Res.n0_ofFn, Res.nL_ofFn]
  simp only [h.N0_eq, h.NL_eq, strains_e0, strains_eL, slopesOf_eq]
  unfold fintA
  simp only [BL_toADof]
  have hb : ∀ p, (toADof M G A a).b0 p = M.e0 A p G a := fun _ => rfl
  simp only [hb, sum6]
  ring

/-- the membrane resultants handed to `cfkG` are laminate × total strain -/
theorem toG_v (h : ModelOK M G P) (cs : List (Amp nT K)) (p : Fin 6) (hp : p.val < 3) :
    (resOf M G cs).toG.v p =
      sum6 fun q => G.Fm p q * ((stateDof M G cs).b0 q + eLof (fun p => M.eLc p G) (stateDof M G cs) q) := by
  have e : (resOf M G cs).toG.v p = (resOf M G cs).n0 p + (resOf M G cs).nL p := by
    fin_cases p <;> first | rfl | (exfalso; simp at hp)
  rw [e]
  unfold resOf
  rw [Res.n0_ofFn, Res.nL_ofFn, h.N0_eq, h.NL_eq, strains_e0, strains_eL]
  simp only [sum6]
  ring

/-- the abstract tangent of two typed dofs, in the vocabulary of the model -/
theorem tangent_toADof (C : ADof K) (A B : Fin nT) (a b : Dof K) :
    tangent G.r G.Fm (fun p => M.eLc p G) (toADof M G A a) C (toADof M G B b) =
      G.r * sum6 fun p => sum6 fun q =>
        M.e0 A p G a * G.Fm p q * M.BL B q G (Slopes.ofFn C.g) b
        + M.BL A p G (Slopes.ofFn C.g) a * G.Fm p q * (M.e0 B q G b + M.BL B q G (Slopes.ofFn C.g) b)
        + 2 * (M.eL A p G (M.slOf B G b) a - M.eL A p G Slopes.zero a) * G.Fm p q
            * (C.b0 q + eLof (fun p => M.eLc p G) C q) := rfl

set_option maxRecDepth 20000 in
/-- `kTAt` of the regenerated terms is the abstract tangent integrand -/
theorem kTAt_eq (h : ModelOK M G P) (cs : List (Amp nT K)) (A B : Fin nT) (hA : P A) (hB : P B) (a b : Dof K) :
    kTAt M G cs A a B b =
      tangent G.r G.Fm (fun p => M.eLc p G) (toADof M G A a) (stateDof M G cs) (toADof M G B b) := by
  unfold kTAt
  rw [h.k0L_eq _ _ _ _ _ hA, h.k0L_eq _ _ _ _ _ hB, h.kLL_eq, h.kG_eq, tangent_toADof, slopesOf_eq]
  obtain ⟨e3, e4, e5⟩ := h.eL_membrane A (M.slOf B G b) a
  obtain ⟨z3, z4, z5⟩ := h.eL_membrane A Slopes.zero a
  have v0 := toG_v h cs 0 (by decide)
  have v1 := toG_v h cs 1 (by decide)
  have v2 := toG_v h cs 2 (by decide)
  simp only [sum6] at v0 v1 v2 ⊢
  simp only [v0, v1, v2, e3, e4, e5, z3, z4, z5]
  rw [G.Fm_symm 1 0, G.Fm_symm 2 0, G.Fm_symm 3 0, G.Fm_symm 4 0, G.Fm_symm 5 0, G.Fm_symm 2 1, G.Fm_symm 3 1,
    G.Fm_symm 4 1, G.Fm_symm 5 1, G.Fm_symm 3 2, G.Fm_symm 4 2, G.Fm_symm 5 2, G.Fm_symm 4 3, G.Fm_symm 5 3, G.Fm_symm 5 4]
  ring

/-- the internal-force integrand depends on the amplitude list only through the combined state -/
theorem fintAt_congr (h : ModelOK M G P) {cs cs' : List (Amp nT K)} (hs : stateDof M G cs = stateDof M G cs') (A : Fin nT)
    (a : Dof K) : fintAt M G cs A a = fintAt M G cs' A a := by
  rw [fintAt_eq h, fintAt_eq h, hs]

/-- … and so does the tangent integrand -/
theorem kTAt_congr (h : ModelOK M G P) {cs cs' : List (Amp nT K)} (hs : stateDof M G cs = stateDof M G cs') (A B : Fin nT)
    (hA : P A) (hB : P B) (a b : Dof K) : kTAt M G cs A a B b = kTAt M G cs' A a B b := by
  rw [kTAt_eq h _ _ _ hA hB, kTAt_eq h _ _ _ hA hB, hs]

/-- second- and third-order coefficients of the expansion (explicit, so that they can be summed over the points) -/
def R2At (M : PointModel nT K) (G : Geo K) (cs ds : List (Amp nT K)) (A : Fin nT) (a : Dof K) : K :=
  R2 G.r G.Fm (toADof M G A a) (stateDof M G cs) (stateDof M G ds)
def R3At (M : PointModel nT K) (G : Geo K) (ds : List (Amp nT K)) (A : Fin nT) (a : Dof K) : K :=
  R3 G.r G.Fm (toADof M G A a) (stateDof M G ds)

theorem tangent_stateDof (h : ModelOK M G P) (cs ds : List (Amp nT K)) (A : Fin nT) (hA : P A)
    (hds : ∀ d ∈ ds, P d.ty ∨ d.c = 0) (a : Dof K) :
    tangent G.r G.Fm (fun p => M.eLc p G) (toADof M G A a) (stateDof M G cs) (stateDof M G ds) =
      (ds.map fun d => d.c * kTAt M G cs A a d.ty d.d).sum := by
  rw [show stateDof M G ds = comb (ds.map fun a => (a.c, toADof M G a.ty a.d)) from rfl,
    tangent_comb _ _ _ (toADof_affine h A a)]
  simp only [List.map_map, Function.comp_def]
  congr 1
  apply List.map_congr_left
  intro d hd
  rcases hds d hd with hp | hz
  · rw [kTAt_eq h _ _ _ hA hp]
  · rw [hz, zero_mul, zero_mul]

/-- GENERIC, explicit form: if the state of `cs'` is the state of `cs` moved by `t` times the state of `ds` -/
theorem kT_expansion (h : ModelOK M G P) (cs ds cs' : List (Amp nT K)) (t : K)
    (hs : stateDof M G cs' = (stateDof M G cs).addSmul t (stateDof M G ds)) (A : Fin nT) (hA : P A)
    (hds : ∀ d ∈ ds, P d.ty ∨ d.c = 0) (a : Dof K) :
    fintAt M G cs' A a =
      fintAt M G cs A a + t * (ds.map fun d => d.c * kTAt M G cs A a d.ty d.d).sum
        + t ^ 2 * R2At M G cs ds A a + t ^ 3 * R3At M G ds A a := by
  rw [fintAt_eq h, fintAt_eq h, hs,
    fintA_addSmul G.r G.Fm _ (toADof_affine h A a) (stateDof_affine h cs) (stateDof_affine h ds) (stateDof_recip h cs ds) t,
    tangent_stateDof h _ _ _ hA hds]
  rfl

/-- GENERIC: along any direction `ds` (a list of dofs with amplitudes) the internal-force integrand of any dof is a cubic
in the step with the `kTAt` combination as linear coefficient. -/
theorem kT_is_jacobian (h : ModelOK M G P) (cs ds : List (Amp nT K)) (A : Fin nT) (hA : P A)
    (hds : ∀ d ∈ ds, P d.ty ∨ d.c = 0) (a : Dof K) :
    ∃ R₂ R₃ : K, ∀ t : K,
      fintAt M G (cs ++ ds.map (Amp.scale t)) A a =
        fintAt M G cs A a + t * (ds.map fun d => d.c * kTAt M G cs A a d.ty d.d).sum + t ^ 2 * R₂ + t ^ 3 * R₃ :=
  ⟨R2At M G cs ds A a, R3At M G ds A a, fun t => kT_expansion h cs ds _ t (stateDof_append_scale cs ds t) A hA hds a⟩

/-- the structural form of the `k0L` integrand at (row type `A`, column type `B`) -/
def k0LForm (M : PointModel nT K) (G : Geo K) (S : Slopes K) (A B : Fin nT) (a b : Dof K) : K :=
  G.r * sum6 fun p => sum6 fun q => M.e0 A p G a * G.Fm p q * M.BL B q G S b

set_option maxRecDepth 20000 in
/-- `kTAt` when only the COLUMN type is known to be good: the defect of the `k0L` row entry stays visible -/
theorem kTAt_eq_defect (h : ModelOK M G P) (cs : List (Amp nT K)) (A B : Fin nT) (hB : P B) (a b : Dof K) :
    kTAt M G cs A a B b =
      tangent G.r G.Fm (fun p => M.eLc p G) (toADof M G A a) (stateDof M G cs) (toADof M G B b)
        + (M.k0L A B G (slopesOf M G cs) a b - k0LForm M G (slopesOf M G cs) A B a b) := by
  unfold kTAt k0LForm
  generalize M.k0L A B G (slopesOf M G cs) a b = X
  rw [h.k0L_eq _ _ _ _ _ hB, h.kLL_eq, h.kG_eq, tangent_toADof, slopesOf_eq]
  obtain ⟨e3, e4, e5⟩ := h.eL_membrane A (M.slOf B G b) a
  obtain ⟨z3, z4, z5⟩ := h.eL_membrane A Slopes.zero a
  have v0 := toG_v h cs 0 (by decide)
  have v1 := toG_v h cs 1 (by decide)
  have v2 := toG_v h cs 2 (by decide)
  simp only [sum6] at v0 v1 v2 ⊢
  simp only [v0, v1, v2, e3, e4, e5, z3, z4, z5]
  rw [G.Fm_symm 1 0, G.Fm_symm 2 0, G.Fm_symm 3 0, G.Fm_symm 4 0, G.Fm_symm 5 0, G.Fm_symm 2 1, G.Fm_symm 3 1,
    G.Fm_symm 4 1, G.Fm_symm 5 1, G.Fm_symm 3 2, G.Fm_symm 4 2, G.Fm_symm 5 2, G.Fm_symm 4 3, G.Fm_symm 5 3, G.Fm_symm 5 4]
  ring

/-- a cubic determines its linear coefficient (characteristic 0) -/
theorem cubic_linear_unique [CharZero K] (f : K → K) (c0 k R2 R3 c0' k' R2' R3' : K)
    (h : ∀ t, f t = c0 + t * k + t ^ 2 * R2 + t ^ 3 * R3) (h' : ∀ t, f t = c0' + t * k' + t ^ 2 * R2' + t ^ 3 * R3') :
    k = k' := by
  have e1 := (h 1).symm.trans (h' 1)
  have em := (h (-1)).symm.trans (h' (-1))
  have e2 := (h 2).symm.trans (h' 2)
  have em2 := (h (-2)).symm.trans (h' (-2))
  have h12 : (12 : K) ≠ 0 := by norm_num
  have : 12 * (k - k') = 0 := by linear_combination 8 * e1 - 8 * em - e2 + em2
  have := (mul_eq_zero.mp this).resolve_left h12
  exact sub_eq_zero.mp this

/-- GENERIC REFUTATION: if at the state `cs` the `k0L` entry (row type `A`, column type `B`, `B` good) does NOT have the
structural form, the internal force of the `A`-dof does not expand along the `B`-dof with `kTAt` as linear coefficient:
the tangent is not the Jacobian there. -/
theorem not_jacobian_of_defect [CharZero K] (h : ModelOK M G P) (cs : List (Amp nT K)) (A B : Fin nT) (hB : P B) (a b : Dof K)
    (hbad : M.k0L A B G (slopesOf M G cs) a b ≠ k0LForm M G (slopesOf M G cs) A B a b) :
    ¬ ∃ R₂ R₃ : K, ∀ t : K,
      fintAt M G (cs ++ [(⟨B, b, 1⟩ : Amp nT K)].map (Amp.scale t)) A a =
        fintAt M G cs A a + t * kTAt M G cs A a B b + t ^ 2 * R₂ + t ^ 3 * R₃ := by
  rintro ⟨R₂, R₃, hexp⟩
  have htrue : ∀ t : K, fintAt M G (cs ++ [(⟨B, b, 1⟩ : Amp nT K)].map (Amp.scale t)) A a =
      fintAt M G cs A a
        + t * tangent G.r G.Fm (fun p => M.eLc p G) (toADof M G A a) (stateDof M G cs) (toADof M G B b)
        + t ^ 2 * R2At M G cs [⟨B, b, 1⟩] A a + t ^ 3 * R3At M G [⟨B, b, 1⟩] A a := by
    intro t
    rw [fintAt_eq h, fintAt_eq h, stateDof_append_scale,
      fintA_addSmul G.r G.Fm _ (toADof_affine h A a) (stateDof_affine h cs) (stateDof_affine h [⟨B, b, 1⟩])
        (stateDof_recip h cs [⟨B, b, 1⟩]) t]
    have e : tangent G.r G.Fm (fun p => M.eLc p G) (toADof M G A a) (stateDof M G cs) (stateDof M G [⟨B, b, 1⟩]) =
        tangent G.r G.Fm (fun p => M.eLc p G) (toADof M G A a) (stateDof M G cs) (toADof M G B b) := by
      rw [show stateDof M G [(⟨B, b, 1⟩ : Amp nT K)] = comb [((1 : K), toADof M G B b)] from rfl,
        tangent_comb _ _ _ (toADof_affine h A a)]
      simp
    rw [e]; rfl
  have hk := cubic_linear_unique _ _ _ _ _ _ _ _ _ hexp htrue
  rw [kTAt_eq_defect h cs A B hB] at hk
  exact hbad (sub_eq_zero.mp (by linear_combination hk))

/-- GENERIC: the tangent integrand is symmetric under exchange of the two dofs. -/
theorem kT_symm (h : ModelOK M G P) (cs : List (Amp nT K)) (A B : Fin nT) (hA : P A) (hB : P B) (a b : Dof K) :
    kTAt M G cs A a B b = kTAt M G cs B b A a := by
  rw [kTAt_eq h _ _ _ hA hB, kTAt_eq h _ _ _ hB hA]
  exact tangent_symm _ _ G.Fm_symm _ _ _ _ (toADof_recip h A B a b)

/-- GENERIC: no amplitudes, no amplitude-independent non-linear strain ⇒ no internal force. -/
theorem fint_zero (h : ModelOK M G P) (hc : ∀ p, M.eLc p G = 0) (A : Fin nT) (a : Dof K) : fintAt M G [] A a = 0 := by
  rw [fintAt_eq h]
  unfold fintA eLof stateDof comb
  simp [sum6, hc]

/-! ### the commons module feeds the matrix kernels the state of `cffint` -/

/-- ties between the regenerated commons functions and the regenerated `cffint` -/
structure CommonsOK (C : CommonsModel nT K) (M : PointModel nT K) (G : Geo K) : Prop where
  sl_eq : ∀ A s d, C.sl A s G d = M.sl A s G d
  e_eq : ∀ A p S d, C.e A p G S d = M.e0 A p G d + M.eL A p G S d
  ec_eq : ∀ p, C.ec p G = M.eLc p G
  N_eq : ∀ p E, p.val < 3 → C.N p G E = sum6 fun q => G.Fm p q * E.e0 q

theorem commons_slopes {C : CommonsModel nT K} (hc : CommonsOK C M G) (cs : List (Amp nT K)) :
    C.slopesAt G cs = slopesOf M G cs := by
  unfold CommonsModel.slopesAt slopesOf
  simp only [hc.sl_eq]

theorem sum_map_add {α : Type} (l : List α) (f g : α → K) :
    (l.map fun a => f a + g a).sum = (l.map f).sum + (l.map g).sum := by
  induction l with
  | nil => simp
  | cons a l ih => simp only [List.map_cons, List.sum_cons, ih]; ring

theorem commons_strain {C : CommonsModel nT K} (hc : CommonsOK C M G) (cs : List (Amp nT K)) (p : Fin 6) :
    C.strainAt G cs p = (strainsOf M G cs).e0 p + (strainsOf M G cs).eL p := by
  unfold CommonsModel.strainAt strainsOf
  rw [Strains.e0_ofFn, Strains.eL_ofFn, commons_slopes hc, hc.ec_eq]
  simp only [hc.e_eq, mul_add, sum_map_add]
  ring

/-- GENERIC: what `cfN` returns for `cfkG` is `N₀ + N_L` of `cffint` at the same amplitudes -/
theorem commons_resG {C : CommonsModel nT K} (h : ModelOK M G P) (hc : CommonsOK C M G) (cs : List (Amp nT K)) :
    C.resGAt G cs = (resOf M G cs).toG := by
  unfold CommonsModel.resGAt Res.toG resOf Res.ofFn
  simp only [hc.N_eq _ _ (show (0 : Fin 6).val < 3 by decide), hc.N_eq _ _ (show (1 : Fin 6).val < 3 by decide),
    hc.N_eq _ _ (show (2 : Fin 6).val < 3 by decide), h.N0_eq, h.NL_eq, Strains.e0_ofFn, commons_strain hc, sum6]
  congr 1 <;> ring

end Generic
end Compmech.ShellNL
