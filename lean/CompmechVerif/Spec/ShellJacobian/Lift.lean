/-
C17 stage 2, quadrature level: the pointwise statements of Spec/ShellJacobian/Generic.lean summed over the integration
points (linearity).  A `Layout` says how the amplitude vector is seen from a point `(x, θ)`: the geometry there, and for every
global index `j < n` the type of that degree of freedom and its point values.  `fNLq` / `Jq` are the quadrature sums
`Σ_p alpha_p · integrand` that `integratev` returns (`integratev_eq_sum`) for the internal force and for the combination
`k0L + k0Lᵀ + kLL + kG`.  Result: the hypothesis `hJ` of `tangent_is_jacobian_glue` in this form.
-/
import CompmechVerif.Spec.ShellJacobian.Generic
import CompmechVerif.Model.ShellNLLemmas

namespace Compmech.ShellNL

open Compmech.Integrate

variable {K : Type} [Field K] {nT : Nat}

/-- how a discretisation looks from the integration points -/
structure Layout (nT : Nat) (K : Type) where
  /-- number of amplitudes -/
  n : Nat
  /-- type of the `j`-th degree of freedom -/
  ty : Nat → Fin nT
  /-- its point values `sin(iπx/L)`, … at `(x, θ)` -/
  dof : Nat → K → K → Dof K
  /-- `r(x)`, `cos(θ − θ_LA)`, imperfection slopes, … at `(x, θ)` -/
  geo : K → K → Geo K

/-- the amplitude vector `c` as the list of terms seen from `(x, θ)` -/
def Layout.amps (Lo : Layout nT K) (c : Vec K) (x y : K) : List (Amp nT K) :=
  (List.range Lo.n).map fun j => ⟨Lo.ty j, Lo.dof j x y, c j⟩

/-- quadrature of the internal-force integrand: component `i` of `calc_fint_0L_L0_LL(c)` -/
def fNLq (M : PointModel nT K) (Lo : Layout nT K) (pts : List (Pt K)) (c : Vec K) (i : Nat) : K :=
  (pts.map fun p => p.alpha * fintAt M (Lo.geo p.x p.y) (Lo.amps c p.x p.y) (Lo.ty i) (Lo.dof i p.x p.y)).sum

/-- quadrature of the tangent integrand: entry `(i, j)` of `k0L + k0Lᵀ + kLL + kG` at the state `c` -/
def Jq (M : PointModel nT K) (Lo : Layout nT K) (pts : List (Pt K)) (c : Vec K) (i j : Nat) : K :=
  (pts.map fun p => p.alpha * kTAt M (Lo.geo p.x p.y) (Lo.amps c p.x p.y) (Lo.ty i) (Lo.dof i p.x p.y)
      (Lo.ty j) (Lo.dof j p.x p.y)).sum

namespace Lift
open Abstract Generic

theorem comb_add_smul {ι : Type} (l : List ι) (c d : ι → K) (x : ι → ADof K) (t : K) :
    comb (l.map fun j => (c j + t * d j, x j)) =
      (comb (l.map fun j => (c j, x j))).addSmul t (comb (l.map fun j => (d j, x j))) := by
  induction l with
  | nil => unfold comb ADof.addSmul; simp
  | cons a l ih =>
    simp only [List.map_cons, comb_cons, ih]
    unfold ADof.addSmul
    simp only []
    congr 1
    · funext s; ring
    · funext p; ring
    · funext σ p; ring

theorem comb_zero {ι : Type} (l : List ι) (x : ι → ADof K) : comb (l.map fun j => ((0 : K), x j)) = comb [] := by
  induction l with
  | nil => rfl
  | cons a l ih => rw [List.map_cons, comb_cons, ih]; unfold comb; simp

theorem stateDof_amps_add (M : PointModel nT K) (Lo : Layout nT K) (c d : Vec K) (t : K) (x y : K) :
    stateDof M (Lo.geo x y) (Lo.amps (fun j => c j + t * d j) x y) =
      (stateDof M (Lo.geo x y) (Lo.amps c x y)).addSmul t (stateDof M (Lo.geo x y) (Lo.amps d x y)) := by
  unfold stateDof Layout.amps
  simp only [List.map_map, Function.comp_def]
  exact comb_add_smul (List.range Lo.n) c d (fun j => toADof M (Lo.geo x y) (Lo.ty j) (Lo.dof j x y)) t

theorem sum_swap (pts : List (Pt K)) (n : Nat) (w : Pt K → K) (k : Pt K → Nat → K) (d : Nat → K) :
    (pts.map fun p => w p * ((List.range n).map fun j => d j * k p j).sum).sum =
      sumTo n fun j => (pts.map fun p => w p * k p j).sum * d j := by
  induction pts with
  | nil => unfold sumTo; simp
  | cons a l ih =>
    simp only [List.map_cons, List.sum_cons, ih]
    have e : (fun j => (w a * k a j + (l.map fun p => w p * k p j).sum) * d j) =
        fun j => w a * (d j * k a j) + (l.map fun p => w p * k p j).sum * d j := by funext j; ring
    rw [e, sumTo_add, sumTo_mul]
    rfl

end Lift

open Lift Generic in
/-- QUADRATURE LEVEL: for a model whose structural identities hold at every integration point, the quadrature of the
internal-force integrand along `c + t·d` is `fNLq c + t · Jq(c) d + t²·R(t)` — the hypothesis `hJ` of
`tangent_is_jacobian_glue`, with `Jq` the quadrature of the `k0L + k0Lᵀ + kLL + kG` integrands. -/
theorem hJ_quadrature (M : PointModel nT K) (Lo : Layout nT K) (pts : List (Pt K)) (P : Fin nT → Prop)
    (hok : ∀ p ∈ pts, ModelOK M (Lo.geo p.x p.y) P) (c d : Vec K) (hd : ∀ j, P (Lo.ty j) ∨ d j = 0) :
    ∃ R : K → Vec K, ∀ (t : K) (i : Nat), P (Lo.ty i) →
      fNLq M Lo pts (fun j => c j + t * d j) i =
        fNLq M Lo pts c i + t * sumTo Lo.n (fun j => Jq M Lo pts c i j * d j) + t ^ 2 * R t i := by
  refine ⟨fun t i => (pts.map fun p => p.alpha *
      (R2At M (Lo.geo p.x p.y) (Lo.amps c p.x p.y) (Lo.amps d p.x p.y) (Lo.ty i) (Lo.dof i p.x p.y)
        + t * R3At M (Lo.geo p.x p.y) (Lo.amps d p.x p.y) (Lo.ty i) (Lo.dof i p.x p.y))).sum, fun t i hi => ?_⟩
  unfold fNLq Jq
  rw [← sum_swap pts Lo.n (fun p => p.alpha)
    (fun p j => kTAt M (Lo.geo p.x p.y) (Lo.amps c p.x p.y) (Lo.ty i) (Lo.dof i p.x p.y) (Lo.ty j) (Lo.dof j p.x p.y)) d]
  induction pts with
  | nil => simp
  | cons p l ih =>
    have hp := hok p (List.mem_cons_self)
    have hl := ih fun q hq => hok q (List.mem_cons_of_mem _ hq)
    simp only [List.map_cons, List.sum_cons] at hl ⊢
    have hds : ∀ a ∈ Lo.amps d p.x p.y, P a.ty ∨ a.c = 0 := by
      intro a ha
      obtain ⟨j, _, rfl⟩ := List.mem_map.mp ha
      exact hd j
    rw [hl, kT_expansion hp (Lo.amps c p.x p.y) (Lo.amps d p.x p.y) _ t (stateDof_amps_add M Lo c d t p.x p.y) _ hi hds]
    have e : ((Lo.amps d p.x p.y).map fun a =>
        a.c * kTAt M (Lo.geo p.x p.y) (Lo.amps c p.x p.y) (Lo.ty i) (Lo.dof i p.x p.y) a.ty a.d).sum =
        ((List.range Lo.n).map fun j => d j *
          kTAt M (Lo.geo p.x p.y) (Lo.amps c p.x p.y) (Lo.ty i) (Lo.dof i p.x p.y) (Lo.ty j) (Lo.dof j p.x p.y)).sum := by
      unfold Layout.amps; simp only [List.map_map, Function.comp_def]
    rw [e]
    ring

open Generic in
/-- QUADRATURE LEVEL: the tangent quadrature is symmetric. -/
theorem Jq_symm (M : PointModel nT K) (Lo : Layout nT K) (pts : List (Pt K)) (P : Fin nT → Prop)
    (hok : ∀ p ∈ pts, ModelOK M (Lo.geo p.x p.y) P) (c : Vec K) (i j : Nat) (hi : P (Lo.ty i)) (hj : P (Lo.ty j)) :
    Jq M Lo pts c i j = Jq M Lo pts c j i := by
  unfold Jq
  congr 1
  apply List.map_congr_left
  intro p hp
  rw [kT_symm (hok p hp) _ _ _ hi hj]

open Generic in
/-- QUADRATURE LEVEL: zero amplitudes, no amplitude-independent non-linear strain ⇒ zero internal force. -/
theorem fNLq_zero (M : PointModel nT K) (Lo : Layout nT K) (pts : List (Pt K)) (P : Fin nT → Prop)
    (hok : ∀ p ∈ pts, ModelOK M (Lo.geo p.x p.y) P) (hc : ∀ p ∈ pts, ∀ q, M.eLc q (Lo.geo p.x p.y) = 0) (i : Nat) :
    fNLq M Lo pts (fun _ => 0) i = 0 := by
  unfold fNLq
  apply List.sum_eq_zero
  intro v hv
  obtain ⟨p, hp, rfl⟩ := List.mem_map.mp hv
  have hz : stateDof M (Lo.geo p.x p.y) (Lo.amps (fun _ => 0) p.x p.y) = stateDof M (Lo.geo p.x p.y) [] := by
    unfold stateDof Layout.amps
    simp only [List.map_map, Function.comp_def, List.map_nil]
    exact Lift.comb_zero (List.range Lo.n) (fun j => toADof M (Lo.geo p.x p.y) (Lo.ty j) (Lo.dof j p.x p.y))
  rw [fintAt_congr (hok p hp) hz, fint_zero (hok p hp) (hc p hp), mul_zero]

end Compmech.ShellNL
