/-
C17 stage 2, matrix level: what `calc_k0L`, `calc_kLL`, `calc_kG` return (dense meaning of their COO triplets) and what
`_calc_NL_matrices` makes of it — against the quadrature `Jq` of the tangent integrand.

`Asm` adds to a `Layout` the value `base j` of `row` / `col` of the index set a degree of freedom belongs to and, per
kernel, in which (row class, column class) blocks the source has the `if row > col: continue` skip (regenerated: `schema_*`).
`k0Lmat`, `kLLmat`, `kGmat`: entry `(i, j)` = quadrature of the integrand written at (type of `i`, type of `j`) for the two
dofs, unless the block skips and `base i > base j`.  (That every position receives exactly this one triplet — injectivity of
the dof maps, no position written twice — is the modelling assumption here; the translator checks that no block writes a
position twice and validation V runs the real loop nest.)

Result: if `calc_k0L` skips nothing, `k0L + k0Lᵀ + make_symmetric(kLL) + make_symmetric(kG) = Jq` entrywise, and the assembled
tangent is the Jacobian of the assembled internal force (`tangent_is_jacobian_assembled`).  `calc_k0L` of `clpt_sanders_bc2`
DOES skip: see Props/C17.lean.
-/
import CompmechVerif.Spec.ShellJacobian.Lift

namespace Compmech.ShellNL

open Compmech.Integrate

variable {K : Type} [Field K] {nT : Nat}

structure Asm (nT : Nat) (K : Type) extends Layout nT K where
  /-- `row` / `col` of the index set the dof belongs to (0 for the leading amplitudes) -/
  base : Nat → Nat
  /-- `if row > col: continue` present in block (row class, column class) of calc_k0L / calc_kLL / calc_kG -/
  skip0L : Nat → Nat → Bool
  skipLL : Nat → Nat → Bool
  skipG : Nat → Nat → Bool

/-- the entry `(i, j)` is skipped by the source -/
def Asm.skipped (L : Asm nT K) (M : PointModel nT K) (sk : Nat → Nat → Bool) (i j : Nat) : Bool :=
  sk (M.cls (L.ty i)) (M.cls (L.ty j)) && decide (L.base j < L.base i)

def k0Lmat (M : PointModel nT K) (L : Asm nT K) (pts : List (Pt K)) (c : Vec K) : Mat K := fun i j =>
  if L.skipped M L.skip0L i j then 0 else
    (pts.map fun p => p.alpha * M.k0L (L.ty i) (L.ty j) (L.geo p.x p.y)
      (slopesOf M (L.geo p.x p.y) (L.amps c p.x p.y)) (L.dof i p.x p.y) (L.dof j p.x p.y)).sum

def kLLmat (M : PointModel nT K) (L : Asm nT K) (pts : List (Pt K)) (c : Vec K) : Mat K := fun i j =>
  if L.skipped M L.skipLL i j then 0 else
    (pts.map fun p => p.alpha * M.kLL (L.ty i) (L.ty j) (L.geo p.x p.y)
      (slopesOf M (L.geo p.x p.y) (L.amps c p.x p.y)) (L.dof i p.x p.y) (L.dof j p.x p.y)).sum

def kGmat (M : PointModel nT K) (L : Asm nT K) (pts : List (Pt K)) (c : Vec K) : Mat K := fun i j =>
  if L.skipped M L.skipG i j then 0 else
    (pts.map fun p => p.alpha * M.kG (L.ty i) (L.ty j) (L.geo p.x p.y)
      (resOf M (L.geo p.x p.y) (L.amps c p.x p.y)).toG (L.dof i p.x p.y) (L.dof j p.x p.y)).sum

/-- the raw kernel outputs at the state `c`, with the linear stiffness `k0` -/
def asmParts (M : PointModel nT K) (L : Asm nT K) (pts : List (Pt K)) (k0 : Mat K) (c : Vec K) : Parts K :=
  { k0 := k0, k0L := k0Lmat M L pts c, kLL := kLLmat M L pts c, kG := kGmat M L pts c }

/-- index facts of a layout: types and global indices are ordered by class, `base` is monotone -/
structure AsmOK (M : PointModel nT K) (L : Asm nT K) : Prop where
  cls_ty : ∀ A B : Fin nT, A ≤ B → M.cls A ≤ M.cls B
  cls_idx : ∀ i j : Nat, i ≤ j → M.cls (L.ty i) ≤ M.cls (L.ty j)
  base_mono : ∀ i j : Nat, i ≤ j → L.base i ≤ L.base j

namespace Assembly
open Generic

variable {M : PointModel nT K} {G : Geo K} {P : Fin nT → Prop}

def formLL (M : PointModel nT K) (G : Geo K) (S : Slopes K) (A B : Fin nT) (a b : Dof K) : K :=
  G.r * sum6 fun p => sum6 fun q => M.BL A p G S a * G.Fm p q * M.BL B q G S b

def formG (M : PointModel nT K) (G : Geo K) (NG : ResG K) (A B : Fin nT) (a b : Dof K) : K :=
  G.r * sum6 fun p => 2 * (M.eL A p G (M.slOf B G b) a - M.eL A p G Slopes.zero a) * NG.v p

theorem formLL_symm (S : Slopes K) (A B : Fin nT) (a b : Dof K) : formLL M G S A B a b = formLL M G S B A b a := by
  unfold formLL
  simp only [sum6]
  rw [G.Fm_symm 1 0, G.Fm_symm 2 0, G.Fm_symm 3 0, G.Fm_symm 4 0, G.Fm_symm 5 0, G.Fm_symm 2 1, G.Fm_symm 3 1,
    G.Fm_symm 4 1, G.Fm_symm 5 1, G.Fm_symm 3 2, G.Fm_symm 4 2, G.Fm_symm 5 2, G.Fm_symm 4 3, G.Fm_symm 5 3, G.Fm_symm 5 4]
  ring

theorem formG_symm (h : ModelOK M G P) (NG : ResG K) (A B : Fin nT) (a b : Dof K) :
    formG M G NG A B a b = formG M G NG B A b a := by
  unfold formG
  simp only [h.eL_recip A B _ a b]

/-- an entry of `cfkLL` that the code reads directly (on or above the type diagonal, or inside a diagonal block) -/
theorem kLL_direct (h : ModelOK M G P) (A B : Fin nT) (hAB : A ≤ B ∨ M.cls A = M.cls B) (S : Slopes K) (a b : Dof K) :
    M.kLL A B G S a b = formLL M G S A B a b := by
  by_cases hle : A ≤ B
  · have := h.kLL_eq A B S a b
    rwa [symE, if_pos hle] at this
  · rcases hAB with h1 | h2
    · exact absurd h1 hle
    · exact h.kLL_low A B S a b (lt_of_not_ge hle) h2

theorem kG_direct (h : ModelOK M G P) (A B : Fin nT) (hAB : A ≤ B ∨ M.cls A = M.cls B) (NG : ResG K) (a b : Dof K) :
    M.kG A B G NG a b = formG M G NG A B a b := by
  by_cases hle : A ≤ B
  · have := h.kG_eq A B NG a b
    rwa [symE, if_pos hle] at this
  · rcases hAB with h1 | h2
    · exact absurd h1 hle
    · exact h.kG_low A B NG a b (lt_of_not_ge hle) h2

theorem cls_of_le {L : Asm nT K} (hA : AsmOK M L) {i j : Nat} (hij : i ≤ j) :
    L.ty i ≤ L.ty j ∨ M.cls (L.ty i) = M.cls (L.ty j) := by
  by_cases hle : L.ty i ≤ L.ty j
  · exact Or.inl hle
  · exact Or.inr (le_antisymm (hA.cls_idx i j hij) (hA.cls_ty _ _ (le_of_lt (lt_of_not_ge hle))))

theorem not_skipped {L : Asm nT K} (hA : AsmOK M L) (sk : Nat → Nat → Bool) {i j : Nat} (hij : i ≤ j) :
    L.skipped M sk i j = false := by
  unfold Asm.skipped
  have : ¬ L.base j < L.base i := not_lt.mpr (hA.base_mono i j hij)
  simp [this]

theorem sum_add4 (pts : List (Pt K)) (w f1 f2 f3 f4 : Pt K → K) :
    (pts.map fun p => w p * (f1 p + f2 p + f3 p + f4 p)).sum =
      (pts.map fun p => w p * f1 p).sum + (pts.map fun p => w p * f2 p).sum + (pts.map fun p => w p * f3 p).sum
        + (pts.map fun p => w p * f4 p).sum := by
  induction pts with
  | nil => simp
  | cons a l ih => simp only [List.map_cons, List.sum_cons, ih]; ring

/-- `make_symmetric(kLL)[i, j]` is the quadrature of the mirrored integrand -/
theorem sym_kLLmat (L : Asm nT K) (pts : List (Pt K)) (hok : ∀ p ∈ pts, ModelOK M (L.geo p.x p.y) P) (hA : AsmOK M L)
    (c : Vec K) (i j : Nat) :
    sym (kLLmat M L pts c) i j =
      (pts.map fun p => p.alpha * symE M.kLL (L.ty i) (L.ty j) (L.geo p.x p.y)
        (slopesOf M (L.geo p.x p.y) (L.amps c p.x p.y)) (L.dof i p.x p.y) (L.dof j p.x p.y)).sum := by
  unfold sym kLLmat
  by_cases hij : i ≤ j
  · rw [if_pos hij, not_skipped hA _ hij]
    simp only [Bool.false_eq_true, if_false]
    congr 1
    apply List.map_congr_left
    intro p hp
    rw [kLL_direct (hok p hp) _ _ (cls_of_le hA hij), (hok p hp).kLL_eq]
    rfl
  · have hji : j ≤ i := le_of_lt (lt_of_not_ge hij)
    rw [if_neg hij, not_skipped hA _ hji]
    simp only [Bool.false_eq_true, if_false]
    congr 1
    apply List.map_congr_left
    intro p hp
    rw [kLL_direct (hok p hp) _ _ (cls_of_le hA hji), (hok p hp).kLL_eq, formLL_symm]
    rfl

theorem sym_kGmat (L : Asm nT K) (pts : List (Pt K)) (hok : ∀ p ∈ pts, ModelOK M (L.geo p.x p.y) P) (hA : AsmOK M L)
    (c : Vec K) (i j : Nat) :
    sym (kGmat M L pts c) i j =
      (pts.map fun p => p.alpha * symE M.kG (L.ty i) (L.ty j) (L.geo p.x p.y)
        (resOf M (L.geo p.x p.y) (L.amps c p.x p.y)).toG (L.dof i p.x p.y) (L.dof j p.x p.y)).sum := by
  unfold sym kGmat
  by_cases hij : i ≤ j
  · rw [if_pos hij, not_skipped hA _ hij]
    simp only [Bool.false_eq_true, if_false]
    congr 1
    apply List.map_congr_left
    intro p hp
    rw [kG_direct (hok p hp) _ _ (cls_of_le hA hij), (hok p hp).kG_eq]
    rfl
  · have hji : j ≤ i := le_of_lt (lt_of_not_ge hij)
    rw [if_neg hij, not_skipped hA _ hji]
    simp only [Bool.false_eq_true, if_false]
    congr 1
    apply List.map_congr_left
    intro p hp
    rw [kG_direct (hok p hp) _ _ (cls_of_le hA hji), (hok p hp).kG_eq, formG_symm (hok p hp)]
    rfl

end Assembly

open Assembly in
/-- MATRIX LEVEL: if `calc_k0L` skips nothing, `k0L + k0Lᵀ + make_symmetric(kLL) + make_symmetric(kG)` is, entry by entry,
the quadrature of the tangent integrand. -/
theorem asm_eq_Jq (M : PointModel nT K) (L : Asm nT K) (pts : List (Pt K)) (P : Fin nT → Prop)
    (hok : ∀ p ∈ pts, ModelOK M (L.geo p.x p.y) P) (hA : AsmOK M L) (h0 : ∀ rc cc, L.skip0L rc cc = false)
    (c : Vec K) (i j : Nat) :
    k0Lmat M L pts c i j + k0Lmat M L pts c j i + sym (kLLmat M L pts c) i j + sym (kGmat M L pts c) i j =
      Jq M L.toLayout pts c i j := by
  rw [sym_kLLmat L pts hok hA, sym_kGmat L pts hok hA]
  unfold k0Lmat Jq kTAt Asm.skipped
  simp only [h0, Bool.false_and, Bool.false_eq_true, if_false]
  rw [sum_add4]

open Assembly in
/-- MATRIX LEVEL, DEFECT: where `calc_k0L` DOES skip (`row > col` inside a block) the entry `(i, j)` of
`k0L + k0Lᵀ + make_symmetric(kLL) + make_symmetric(kG)` misses the quadrature of the `k0L` integrand of that position. -/
theorem asm_defect (M : PointModel nT K) (L : Asm nT K) (pts : List (Pt K)) (P : Fin nT → Prop)
    (hok : ∀ p ∈ pts, ModelOK M (L.geo p.x p.y) P) (hA : AsmOK M L) (c : Vec K) (i j : Nat)
    (hij : L.skipped M L.skip0L i j = true) (hji : L.skipped M L.skip0L j i = false) :
    k0Lmat M L pts c i j + k0Lmat M L pts c j i + sym (kLLmat M L pts c) i j + sym (kGmat M L pts c) i j =
      Jq M L.toLayout pts c i j
        - (pts.map fun p => p.alpha * M.k0L (L.ty i) (L.ty j) (L.geo p.x p.y)
            (slopesOf M (L.geo p.x p.y) (L.amps c p.x p.y)) (L.dof i p.x p.y) (L.dof j p.x p.y)).sum := by
  rw [sym_kLLmat L pts hok hA, sym_kGmat L pts hok hA]
  unfold k0Lmat Jq kTAt
  rw [hij, hji]
  simp only [if_true, Bool.false_eq_true, if_false]
  rw [sum_add4]
  ring

/-- all amplitudes zero: zero slopes -/
theorem slopesOf_amps_zero (M : PointModel nT K) (Lo : Layout nT K) (x y : K) :
    slopesOf M (Lo.geo x y) (Lo.amps (fun _ => 0) x y) = ⟨0, 0, 0⟩ := by
  unfold slopesOf Layout.amps Slopes.ofFn
  have h : ∀ s, ((List.map (fun j => (⟨Lo.ty j, Lo.dof j x y, 0⟩ : Amp nT K)) (List.range Lo.n)).map
      fun a => a.c * M.sl a.ty s (Lo.geo x y) a.d).sum = 0 := by
    intro s
    apply List.sum_eq_zero
    intro v hv
    simp only [List.map_map, List.mem_map, Function.comp_def] at hv
    obtain ⟨j, _, rfl⟩ := hv
    simp
  simp only [h]

open Assembly in
/-- MATRIX LEVEL, FINAL: the assembled tangent `kT = k0 + k0L + k0Lᵀ + kLL + kG` (as `_calc_NL_matrices` forms it from the
kernel outputs at the state `c`) is the Jacobian of the assembled internal force `fint = fint_NL + k0·c` — expansion along
any direction `d` that does not move amplitudes of excluded types, for every component of a non-excluded type. -/
theorem tangent_is_jacobian_assembled (M : PointModel nT K) (L : Asm nT K) (pts : List (Pt K)) (P : Fin nT → Prop)
    (hok : ∀ p ∈ pts, ModelOK M (L.geo p.x p.y) P) (hA : AsmOK M L) (h0 : ∀ rc cc, L.skip0L rc cc = false)
    (k0 : Mat K) (c d : Vec K) (hd : ∀ j, P (L.ty j) ∨ d j = 0) :
    ∃ R : K → Vec K, ∀ (t : K) (i : Nat), P (L.ty i) →
      fint L.n k0 (fNLq M L.toLayout pts) (fun j => c j + t * d j) i =
        fint L.n k0 (fNLq M L.toLayout pts) c i
          + t * sumTo L.n (fun j => kT (asmParts M L pts k0 c) true true i j * d j) + t ^ 2 * R t i := by
  obtain ⟨R, hR⟩ := hJ_quadrature M L.toLayout pts P hok c d hd
  refine ⟨R, fun t i hi => ?_⟩
  unfold fint
  rw [hR t i hi]
  have e1 : sumTo L.n (fun j => k0 i j * (c j + t * d j)) =
      sumTo L.n (fun j => k0 i j * c j) + t * sumTo L.n (fun j => k0 i j * d j) := by
    rw [← sumTo_mul, ← sumTo_add]; congr 1; funext j; ring
  have e2 : sumTo L.n (fun j => kT (asmParts M L pts k0 c) true true i j * d j) =
      sumTo L.n (fun j => k0 i j * d j) + sumTo L.n (fun j => Jq M L.toLayout pts c i j * d j) := by
    rw [← sumTo_add]; congr 1; funext j
    rw [← asm_eq_Jq M L pts P hok hA h0 c i j]
    unfold kT asmParts; simp only [if_true]; ring
  rw [e1, e2]; ring

open Assembly in
/-- MATRIX LEVEL: the assembled tangent is symmetric on the non-excluded types (given a symmetric `k0`). -/
theorem assembled_kT_symm (M : PointModel nT K) (L : Asm nT K) (pts : List (Pt K)) (P : Fin nT → Prop)
    (hok : ∀ p ∈ pts, ModelOK M (L.geo p.x p.y) P) (hA : AsmOK M L) (h0 : ∀ rc cc, L.skip0L rc cc = false)
    (k0 : Mat K) (hk0 : ∀ i j, k0 i j = k0 j i) (c : Vec K) (i j : Nat) :
    kT (asmParts M L pts k0 c) true true i j = kT (asmParts M L pts k0 c) true true j i :=
  kT_symm_aux _ true true hk0 i j

end Compmech.ShellNL
