/-
Tactics shared by the per-model case lemmas of C17 stage 2 (Spec/ShellJacobian/<Model>/*.lean):
`shell_triv` for identities that hold without clearing denominators (mostly `0 = 0` after the table look-ups),
`shell_fs` for the others (`field_simp` needs `L, r, cosa ≠ 0` in the context).
Look-ups go through the `rfl` lemmas tagged `shell_tab` (never through a `match`), leaf definitions through `shell_nl`.
-/
import CompmechVerif.Spec.ShellJacobian.Generic
import Mathlib.Tactic.FieldSimp
import Mathlib.Tactic.Ring
import Mathlib.Algebra.CharZero.Defs
import Mathlib.Tactic.NormNum
import Mathlib.Algebra.Field.Rat
import Mathlib.Tactic.FinCases
import Mathlib.Data.Fintype.Basic

namespace Compmech.ShellNL

variable {K : Type} [Field K] {nT : Nat}

theorem symE_of_le {S : Type} (f : Fin nT → Fin nT → Geo K → S → Dof K → Dof K → K) {A B : Fin nT} (h : A ≤ B)
    (G : Geo K) (s : S) (a b : Dof K) : symE f A B G s a b = f A B G s a b := if_pos h

theorem symE_of_not_le {S : Type} (f : Fin nT → Fin nT → Geo K → S → Dof K → Dof K → K) {A B : Fin nT} (h : ¬ A ≤ B)
    (G : Geo K) (s : S) (a b : Dof K) : symE f A B G s a b = f B A G s b a := if_neg h

/-! denominators of the isotropic variants -/
theorem iso_d1 (G : Geo K) (hn1 : G.nu + 1 ≠ 0) (hn2 : G.nu - 1 ≠ 0) : G.nu * G.nu - 1 ≠ 0 := by
  have e : G.nu * G.nu - 1 = (G.nu - 1) * (G.nu + 1) := by ring
  rw [e]; exact mul_ne_zero hn2 hn1
theorem iso_d2 (G : Geo K) (hn1 : G.nu + 1 ≠ 0) (hn2 : G.nu - 1 ≠ 0) : 1 - G.nu * G.nu ≠ 0 := by
  have e : 1 - G.nu * G.nu = -((G.nu - 1) * (G.nu + 1)) := by ring
  rw [e]; exact neg_ne_zero.mpr (mul_ne_zero hn2 hn1)
theorem iso_d3 (G : Geo K) (hn1 : G.nu + 1 ≠ 0) : 1 + G.nu ≠ 0 := by rw [add_comm]; exact hn1
theorem iso_d4 (G : Geo K) (hn1 : G.nu + 1 ≠ 0) (hn2 : G.nu - 1 ≠ 0) : G.nu ^ 2 - 1 ≠ 0 := by
  have e : G.nu ^ 2 - 1 = (G.nu - 1) * (G.nu + 1) := by ring
  rw [e]; exact mul_ne_zero hn2 hn1
theorem iso_d6 (G : Geo K) (hn1 : G.nu + 1 ≠ 0) (hn2 : G.nu - 1 ≠ 0) : -G.nu ^ 2 + 1 ≠ 0 := by
  have e : -G.nu ^ 2 + 1 = -((G.nu - 1) * (G.nu + 1)) := by ring
  rw [e]; exact neg_ne_zero.mpr (mul_ne_zero hn2 hn1)
theorem iso_d7 (G : Geo K) (hn1 : G.nu + 1 ≠ 0) (hn2 : G.nu - 1 ≠ 0) : -1 + G.nu ^ 2 ≠ 0 := by
  have e : -1 + G.nu ^ 2 = (G.nu - 1) * (G.nu + 1) := by ring
  rw [e]; exact mul_ne_zero hn2 hn1
theorem iso_d5 (G : Geo K) (hn1 : G.nu + 1 ≠ 0) (hn2 : G.nu - 1 ≠ 0) : 1 - G.nu ^ 2 ≠ 0 := by
  have e : 1 - G.nu ^ 2 = -((G.nu - 1) * (G.nu + 1)) := by ring
  rw [e]; exact neg_ne_zero.mpr (mul_ne_zero hn2 hn1)

syntax "shell_look" : tactic
macro_rules
  | `(tactic| shell_look) => `(tactic|
      simp only [Fin.reduceFinMk, Fin.isValue, Fin.zero_eta, Fin.mk_one, shell_tab, shell_nl, PointModel.BL, PointModel.slOf, sum6,
        Slopes.zero, Slopes.ofFn, Slopes.addSmul])

syntax "shell_triv" : tactic
macro_rules
  | `(tactic| shell_triv) => `(tactic| (shell_look <;> ring1))

syntax "shell_fs" : tactic
macro_rules
  | `(tactic| shell_fs) => `(tactic| (shell_look <;> first | ring1 | (field_simp <;> ring1)))

end Compmech.ShellNL
