/-
The WHOLE aerodynamic matrix `Panel.calc_kA(finalize=True)` delivers (after /repo 3ef86b6):

    kA       = make_skew_symmetric(fkA*(beta, 0, …))            # flow-derivative part, completed skew-symmetrically
    kA      += finalize_symmetric_matrix(fkAx(0, gamma, …))      # curvature part (cylindrical panels, flow along x)

with the loop nest of Model/PanelLoop.lean for both kernel calls.
-/
import CompmechVerif.Spec.WholeMatrix
import CompmechVerif.Model.SkewLemmas

namespace Compmech.Panel
open Compmech.Asm Compmech.PanelLoop

variable {K : Type} [Field K]

/-- what the skew-completed COO list of the loop nest denotes -/
theorem toFun_skew_loopNest (num m n row0 : Nat) (e : Fin num → Fin num → Nat → Nat → Nat → Nat → K)
    {i k j l : Nat} (hi : i < m) (hk : k < m) (hj : j < n) (hl : l < n) (α β : Fin num) :
    toFun (makeSkewSymmetric (loopNest num m n row0 row0 e)) (row0 + num * (j * m + i) + α.val)
        (row0 + num * (l * m + k) + β.val)
      = if row0 + num * (j * m + i) + α.val ≤ row0 + num * (l * m + k) + β.val then e α β i k j l
        else -e β α k i l j := by
  rw [toFun_makeSkewSymmetric]
  split
  · next h =>
    apply toFun_loopNest num m n row0 row0 e hi hk hj hl
    have := base_le_of_pos_le (num := num) (A := j * m + i) (B := l * m + k) (a := α.val) β.isLt (by omega)
    omega
  · next h =>
    congr 1
    apply toFun_loopNest num m n row0 row0 e hk hi hl hj
    have := base_le_of_pos_le (num := num) (A := l * m + k) (B := j * m + i) (a := β.val) α.isLt (by omega)
    omega

/-- `Panel.calc_kA`: skew-completed flow part + symmetrically completed curvature part -/
def aeroCoo (num m n row0 : Nat) (eβ eγ : Fin num → Fin num → PCtx K → K) (base : PCtx K) (I : Integrals K) : Coo K :=
  makeSkewSymmetric (loopNest num m n row0 row0 fun ro co i k j l => eβ ro co (ctxAt base I i k j l)) ++
  finalize (loopNest num m n row0 row0 fun ro co i k j l => eγ ro co (ctxAt base I i k j l))

/-- If the flow-part entries are ANTI-symmetric under exchange of the two basis functions (true when the boundary term of
the integration by parts vanishes, i.e. `w` restrained on the upstream and downstream edges) and the curvature-part entries
symmetric, the delivered matrix holds at EVERY pair of positions (upper and lower triangle) the sum of the two entry
expressions of that pair. -/
theorem aeroCoo_entry (num m n row0 : Nat) (eβ eγ : Fin num → Fin num → PCtx K → K) (base : PCtx K) (I : Integrals K)
    (hskew : ∀ ro co i k j l, eβ ro co (ctxAt base I i k j l) = -eβ co ro (ctxAt base I k i l j))
    (hsym : ∀ ro co i k j l, eγ ro co (ctxAt base I i k j l) = eγ co ro (ctxAt base I k i l j))
    {i k j l : Nat} (hi : i < m) (hk : k < m) (hj : j < n) (hl : l < n) (α β : Fin num) :
    toFun (aeroCoo num m n row0 eβ eγ base I) (row0 + num * (j * m + i) + α.val) (row0 + num * (l * m + k) + β.val)
      = eβ α β (ctxAt base I i k j l) + eγ α β (ctxAt base I i k j l) := by
  unfold aeroCoo
  rw [toFun_append, toFun_skew_loopNest num m n row0 _ hi hk hj hl,
    toFun_finalize_loopNest_of_symm num m n row0 _ (fun α β i k j l => hsym α β i k j l) hi hk hj hl]
  split
  · rfl
  · rw [hskew α β i k j l]

theorem ctxAt_gamma0 (base : PCtx K) (I : Integrals K) (i k j l : Nat) :
    ({ ctxAt base I i k j l with gamma := 0 } : PCtx K) = ctxAt { base with gamma := 0 } I i k j l := rfl

theorem ctxAt_beta0 (base : PCtx K) (I : Integrals K) (i k j l : Nat) :
    ({ ctxAt base I i k j l with beta := 0 } : PCtx K) = ctxAt { base with beta := 0 } I i k j l := rfl

end Compmech.Panel
