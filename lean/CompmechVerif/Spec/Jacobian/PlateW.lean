/-
Helper lemmas for C08 (tangent = exact Jacobian of the internal force, pointwise): Plate, perturbing field w.
For the cubic `f(t)` = internal-force integrand of dof A after adding `t` × dof B to the state:
`f(t) = f(0) + t·(kL + kG)_{AB} + t²·R₂ + t³·R₃` with `R₂`, `R₃` the second / third divided differences.
-/
import CompmechVerif.Spec.NonlinearPoint
import CompmechVerif.Core.OpSpecTactics

set_option linter.unusedSimpArgs false
set_option linter.unusedVariables false

namespace Compmech.Panel.Jacobian
open Compmech.Panel Compmech.Gen.PanelNum

variable {K : Type} [Field K] [CharZero K]

set_option maxHeartbeats 8000000 in
theorem plate_0_2 (X : NCtx K) (ha : X.a ≠ 0) (hb : X.b ≠ 0) (s : PtState K) (t : K) :
    PlateNum.fint X (s.perturb X (plateOps X.toP) .w t) 0 =
      PlateNum.fint X s 0
      + t * (Plate.fkL_num.entry 0 2 { X with wxi := s.wxi, weta := s.weta }
              + Plate.fkG_num.entry 0 2 (PlateNum.withState X s))
      + t ^ 2 * ((PlateNum.fint X (s.perturb X (plateOps X.toP) .w 1) 0
                  + PlateNum.fint X (s.perturb X (plateOps X.toP) .w (-1)) 0 - 2 * PlateNum.fint X s 0) / 2)
      + t ^ 3 * ((PlateNum.fint X (s.perturb X (plateOps X.toP) .w 2) 0
                  - 2 * PlateNum.fint X (s.perturb X (plateOps X.toP) .w 1) 0
                  + 2 * PlateNum.fint X (s.perturb X (plateOps X.toP) .w (-1)) 0
                  - PlateNum.fint X (s.perturb X (plateOps X.toP) .w (-2)) 0) / 12) := by
  simp only [PlateNum.fint, PlateNum.withState, PtState.perturb, panel_entry, dofB, plateOps, cpanelOps, NCtx.toP,
    List.map, List.sum_cons, List.sum_nil]
  field_simp
  ring

set_option maxHeartbeats 8000000 in
theorem plate_1_2 (X : NCtx K) (ha : X.a ≠ 0) (hb : X.b ≠ 0) (s : PtState K) (t : K) :
    PlateNum.fint X (s.perturb X (plateOps X.toP) .w t) 1 =
      PlateNum.fint X s 1
      + t * (Plate.fkL_num.entry 1 2 { X with wxi := s.wxi, weta := s.weta }
              + Plate.fkG_num.entry 1 2 (PlateNum.withState X s))
      + t ^ 2 * ((PlateNum.fint X (s.perturb X (plateOps X.toP) .w 1) 1
                  + PlateNum.fint X (s.perturb X (plateOps X.toP) .w (-1)) 1 - 2 * PlateNum.fint X s 1) / 2)
      + t ^ 3 * ((PlateNum.fint X (s.perturb X (plateOps X.toP) .w 2) 1
                  - 2 * PlateNum.fint X (s.perturb X (plateOps X.toP) .w 1) 1
                  + 2 * PlateNum.fint X (s.perturb X (plateOps X.toP) .w (-1)) 1
                  - PlateNum.fint X (s.perturb X (plateOps X.toP) .w (-2)) 1) / 12) := by
  simp only [PlateNum.fint, PlateNum.withState, PtState.perturb, panel_entry, dofB, plateOps, cpanelOps, NCtx.toP,
    List.map, List.sum_cons, List.sum_nil]
  field_simp
  ring

set_option maxHeartbeats 8000000 in
theorem plate_2_2 (X : NCtx K) (ha : X.a ≠ 0) (hb : X.b ≠ 0) (s : PtState K) (t : K) :
    PlateNum.fint X (s.perturb X (plateOps X.toP) .w t) 2 =
      PlateNum.fint X s 2
      + t * (Plate.fkL_num.entry 2 2 { X with wxi := s.wxi, weta := s.weta }
              + Plate.fkG_num.entry 2 2 (PlateNum.withState X s))
      + t ^ 2 * ((PlateNum.fint X (s.perturb X (plateOps X.toP) .w 1) 2
                  + PlateNum.fint X (s.perturb X (plateOps X.toP) .w (-1)) 2 - 2 * PlateNum.fint X s 2) / 2)
      + t ^ 3 * ((PlateNum.fint X (s.perturb X (plateOps X.toP) .w 2) 2
                  - 2 * PlateNum.fint X (s.perturb X (plateOps X.toP) .w 1) 2
                  + 2 * PlateNum.fint X (s.perturb X (plateOps X.toP) .w (-1)) 2
                  - PlateNum.fint X (s.perturb X (plateOps X.toP) .w (-2)) 2) / 12) := by
  simp only [PlateNum.fint, PlateNum.withState, PtState.perturb, panel_entry, dofB, plateOps, cpanelOps, NCtx.toP,
    List.map, List.sum_cons, List.sum_nil]
  field_simp
  ring

end Compmech.Panel.Jacobian
