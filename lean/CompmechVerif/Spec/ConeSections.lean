/-
Helpers for the conical panel (`s` constant-radius sections, `Spec/WholeMatrix.lean: sectionBase`, `conePanelCoo`):
the section bounds `ξ₁, ξ₂` the kernels compute (`xi1 = 2·x1/a − 1`, `x1 = a·section/s`; regenerated `schema.geometry`),
the Bardell integrals of the sections, exchange of a finite sum with the sum over the sections, and the sum of the section
widths (`Σ b_sec = s · b_bot · (1 − a·sinα / (2 r_bot))`: the width at mid-length, so `Σ (a/s)·b_sec` is the exact area of the
developed conical panel).
-/
import CompmechVerif.Spec.WholeMatrix
import CompmechVerif.Spec.BardellIntegrals
import Mathlib.Algebra.BigOperators.Group.Finset.Basic
import Mathlib.Tactic.Ring
import Mathlib.Tactic.FieldSimp

namespace Compmech.Panel
open scoped BigOperators

variable {K : Type} [Field K]

/-- `xi1` of section `sec` of `s`: `2·x1/a − 1` with `x1 = a·sec/s` -/
def sectionXi1 (base : PCtx K) (s sec : Nat) : K := 2 * (base.a * (sec : K) / (s : K)) / base.a - 1

/-- `xi2` of section `sec` of `s`: `2·x2/a − 1` with `x2 = a·(sec+1)/s` -/
def sectionXi2 (base : PCtx K) (s sec : Nat) : K := 2 * (base.a * ((sec : K) + 1) / (s : K)) / base.a - 1

/-- every section covers `2/s` of the computational interval `[−1, 1]` -/
theorem sectionXi_diff [CharZero K] (base : PCtx K) (s sec : Nat) (ha : base.a ≠ 0) (hs : s ≠ 0) :
    sectionXi2 base s sec - sectionXi1 base s sec = 2 / (s : K) := by
  have hs' : (s : K) ≠ 0 := Nat.cast_ne_zero.mpr hs
  unfold sectionXi1 sectionXi2
  field_simp
  ring

theorem sectionXi_le (base : PCtx ℝ) (s sec : Nat) (ha : base.a ≠ 0) (hs : s ≠ 0) :
    sectionXi1 base s sec ≤ sectionXi2 base s sec := by
  have h := sectionXi_diff base s sec ha hs
  have : (0 : ℝ) ≤ 2 / (s : ℝ) := by positivity
  linarith

/-- the exact real integrals of the all-free Bardell basis on the sections of a conical panel: section `sec` integrates over
`[xi1, xi2]` along x and over the whole edge (or the strip `[η₁, η₂]`) along y -/
noncomputable def coneBardellI (base : PCtx ℝ) (s : Nat) (η₁ η₂ : ℝ) (sec : Nat) : Integrals ℝ :=
  bardellI (sectionXi1 base s sec) (sectionXi2 base s sec) η₁ η₂

theorem coneBardellI_comm (base : PCtx ℝ) (s : Nat) (η₁ η₂ : ℝ) (sec : Nat) : (coneBardellI base s η₁ η₂ sec).Comm :=
  bardellI_comm _ _ _ _

/-- a finite sum of sums over the sections is the sum over the sections of the finite sums -/
theorem sum_finset_list_sum {ι κ : Type} (S : Finset ι) (l : List κ) (g : ι → κ → K) :
    ∑ x ∈ S, (l.map (g x)).sum = (l.map fun y => ∑ x ∈ S, g x y).sum := by
  induction l with
  | nil => simp
  | cons y t ih => simp only [List.map_cons, List.sum_cons, Finset.sum_add_distrib, ih]

theorem list_sum_map_mul_left {κ : Type} (l : List κ) (c : K) (g : κ → K) :
    (l.map fun y => c * g y).sum = c * (l.map g).sum := by
  induction l with
  | nil => simp
  | cons y t ih => simp only [List.map_cons, List.sum_cons, ih, mul_add]

/-- the widths of the first `t` of `s` sections add up to `(b/r)·(t·r − sinα·a·t²/(2 s))` -/
theorem sectionBase_b_sum_aux [CharZero K] (base : PCtx K) (s : Nat) (hs : s ≠ 0) (hr : base.r ≠ 0) (t : Nat) :
    ((List.range t).map fun sec => (sectionBase base s sec).b).sum
      = base.b / base.r * ((t : K) * base.r - base.sina * base.a * ((t : K) * (t : K)) / (2 * (s : K))) := by
  have hs' : (s : K) ≠ 0 := Nat.cast_ne_zero.mpr hs
  induction t with
  | zero => simp
  | succ t ih =>
    rw [List.range_succ, List.map_append, List.sum_append, ih]
    simp only [List.map_cons, List.map_nil, List.sum_cons, List.sum_nil, add_zero, sectionBase, Nat.cast_add, Nat.cast_one]
    field_simp
    ring

/-- the section widths add up to `s` times the width at mid-length, `b_bot·(1 − a·sinα/(2 r_bot))` -/
theorem sectionBase_b_sum [CharZero K] (base : PCtx K) (s : Nat) (hs : s ≠ 0) (hr : base.r ≠ 0) :
    ((List.range s).map fun sec => (sectionBase base s sec).b).sum
      = (s : K) * (base.b * (1 - base.a * base.sina / (2 * base.r))) := by
  have hs' : (s : K) ≠ 0 := Nat.cast_ne_zero.mpr hs
  rw [sectionBase_b_sum_aux base s hs hr s]
  field_simp

end Compmech.Panel
