/-
C12/C13: the ASSEMBLED connection matrix of ONE connection.  Helper lemmas for `get_k0_conn_psd*` (Props/C12.lean).

`k0Conn ps [conn]` of Model/Assembly.lean = `finalize (k11 at (s₁, s₁) ++ (k12 at (s₁, s₂), or k12ᵀ at (s₂, s₁) when s₂ < s₁) ++ k22 at (s₂, s₂))`
with `s₁, s₂` the range starts of the two panels.  When the three lists denote the loop nests of Model/ConnLoop.lean with entry
values `e11, e12, e22` (diagonal blocks symmetric under exchange of the two degrees of freedom), the quadratic form of the
finalized matrix over `[0, size)` is the quadratic form of the block matrix `[[e11, e12], [e12ᵀ, e22]]` over the degrees of freedom
of the two panels (`connQuad_eq`) — whichever of the two panels comes first.
-/
import CompmechVerif.Model.ConnLoopLemmas
import CompmechVerif.Spec.AssemblyJacobian
import CompmechVerif.Spec.WholeMatrixPSD
import CompmechVerif.Spec.InterfacePSD
import Mathlib.Data.Fintype.Sum

namespace Compmech.Asm
open Compmech.PanelLoop Compmech.Panel
open scoped BigOperators

set_option linter.unusedSectionVars false
set_option linter.unusedVariables false

/-! ### sums over blocks -/

theorem sum_ite_irrel {ι : Type} (s : Finset ι) (P : Prop) [Decidable P] (g : ι → ℝ) :
    ∑ x ∈ s, (if P then g x else 0) = if P then ∑ x ∈ s, g x else 0 := by
  split <;> simp

/-- a double sum over `[0, N)²` of a function supported in a rectangle -/
theorem sum2_block (N sr nr sc nc : Nat) (hr : sr + nr ≤ N) (hc : sc + nc ≤ N) (f : Nat → Nat → ℝ) :
    ∑ r ∈ Finset.range N, ∑ c ∈ Finset.range N,
        (if (sr ≤ r ∧ r < sr + nr) ∧ (sc ≤ c ∧ c < sc + nc) then f r c else 0)
      = ∑ a ∈ Finset.range nr, ∑ b ∈ Finset.range nc, f (sr + a) (sc + b) := by
  have h1 : ∀ r, ∑ c ∈ Finset.range N, (if (sr ≤ r ∧ r < sr + nr) ∧ (sc ≤ c ∧ c < sc + nc) then f r c else 0)
      = if sr ≤ r ∧ r < sr + nr then ∑ b ∈ Finset.range nc, f r (sc + b) else 0 := by
    intro r
    by_cases hA : sr ≤ r ∧ r < sr + nr
    · simp only [hA, and_self, true_and, if_true]
      exact sum_range_block (K := ℝ) N sc nc hc (fun c => f r c)
    · simp only [hA, false_and, if_false]
      simp
  simp only [h1]
  exact sum_range_block (K := ℝ) N sr nr hr (fun r => ∑ b ∈ Finset.range nc, f r (sc + b))

/-! ### finalize of a concatenation, of a placed list -/

variable {K : Type} [Field K]

theorem toFun_finalize_append (a b : Coo K) (r c : Nat) :
    toFun (finalize (a ++ b)) r c = toFun (finalize a) r c + toFun (finalize b) r c := by
  unfold finalize
  simp only [toFun_makeSymmetric, toFun_append]
  split <;> rfl

theorem toFun_finalize_nil (r c : Nat) : toFun (finalize ([] : Coo K)) r c = 0 := by
  unfold finalize
  rw [toFun_makeSymmetric]
  simp

theorem toFun_finalize_shift_congr (r0 c0 : Nat) (a b : Coo K) (h : ∀ r c, toFun a r c = toFun b r c) (r c : Nat) :
    toFun (finalize (shift r0 c0 a)) r c = toFun (finalize (shift r0 c0 b)) r c := by
  unfold finalize
  simp only [toFun_makeSymmetric, toFun_shift, h]

theorem ite_supp (P Q : Prop) [Decidable P] [Decidable Q] (x : K) (hQP : Q → P) (hz : P → ¬ Q → x = 0) :
    (if P then x else 0) = if Q then x else 0 := by
  by_cases hQ : Q
  · rw [if_pos hQ, if_pos (hQP hQ)]
  · rw [if_neg hQ]
    by_cases hP : P
    · rw [if_pos hP]; exact hz hP hQ
    · rw [if_neg hP]

/-- a diagonal block: nothing outside its own square -/
theorem finalize_diag_support (s n : Nat) (l : Coo K) (hz : ∀ r c, n ≤ r ∨ n ≤ c → toFun l r c = 0) (r c : Nat)
    (hrc : ¬ ((s ≤ r ∧ r < s + n) ∧ (s ≤ c ∧ c < s + n))) : toFun (finalize (shift s s l)) r c = 0 := by
  unfold finalize
  rw [toFun_makeSymmetric]
  simp only [toFun_shift]
  split
  · split
    · apply hz; omega
    · rfl
  · split
    · apply hz; omega
    · rfl

/-- the coupling block, placed by `get_k0_conn` (transposed into the upper triangle when `p1` follows `p2`) and finalized, is the
symmetric completion `[[0, U], [Uᵀ, 0]]` of the coupling values — in BOTH orders of the two panels -/
theorem finalize_coupling (s1 n1 s2 n2 : Nat) (hd : s1 + n1 ≤ s2 ∨ s2 + n2 ≤ s1) (l : Coo K)
    (hz : ∀ a b, n1 ≤ a ∨ n2 ≤ b → toFun l a b = 0) (r c : Nat) :
    toFun (finalize (if s1 > s2 then shift s2 s1 (transpose l) else shift s1 s2 l)) r c =
      (if (s1 ≤ r ∧ r < s1 + n1) ∧ (s2 ≤ c ∧ c < s2 + n2) then toFun l (r - s1) (c - s2) else 0) +
      (if (s2 ≤ r ∧ r < s2 + n2) ∧ (s1 ≤ c ∧ c < s1 + n1) then toFun l (c - s1) (r - s2) else 0) := by
  have f1 : (if s1 ≤ r ∧ s2 ≤ c then toFun l (r - s1) (c - s2) else 0) =
      if (s1 ≤ r ∧ r < s1 + n1) ∧ (s2 ≤ c ∧ c < s2 + n2) then toFun l (r - s1) (c - s2) else 0 :=
    ite_supp _ _ _ (by intro h; omega) (by intro hP hQ; apply hz; omega)
  have f2 : (if s1 ≤ c ∧ s2 ≤ r then toFun l (c - s1) (r - s2) else 0) =
      if (s2 ≤ r ∧ r < s2 + n2) ∧ (s1 ≤ c ∧ c < s1 + n1) then toFun l (c - s1) (r - s2) else 0 :=
    ite_supp _ _ _ (by intro h; omega) (by intro hP hQ; apply hz; omega)
  have f3 : (if s2 ≤ r ∧ s1 ≤ c then toFun l (c - s1) (r - s2) else 0) =
      if (s2 ≤ r ∧ r < s2 + n2) ∧ (s1 ≤ c ∧ c < s1 + n1) then toFun l (c - s1) (r - s2) else 0 :=
    ite_supp _ _ _ (by intro h; omega) (by intro hP hQ; apply hz; omega)
  have f4 : (if s2 ≤ c ∧ s1 ≤ r then toFun l (r - s1) (c - s2) else 0) =
      if (s1 ≤ r ∧ r < s1 + n1) ∧ (s2 ≤ c ∧ c < s2 + n2) then toFun l (r - s1) (c - s2) else 0 :=
    ite_supp _ _ _ (by intro h; omega) (by intro hP hQ; apply hz; omega)
  unfold finalize
  rw [toFun_makeSymmetric]
  by_cases hgt : s1 > s2
  · simp only [if_pos hgt, toFun_shift, toFun_transpose]
    rw [f3, f4]
    by_cases hrc : r ≤ c
    · rw [if_pos hrc]
      have : ¬ ((s1 ≤ r ∧ r < s1 + n1) ∧ (s2 ≤ c ∧ c < s2 + n2)) := by omega
      rw [if_neg this, zero_add]
    · rw [if_neg hrc]
      have : ¬ ((s2 ≤ r ∧ r < s2 + n2) ∧ (s1 ≤ c ∧ c < s1 + n1)) := by omega
      rw [if_neg this, add_zero]
  · simp only [if_neg hgt, toFun_shift]
    rw [f1, f2]
    by_cases hrc : r ≤ c
    · rw [if_pos hrc]
      have : ¬ ((s2 ≤ r ∧ r < s2 + n2) ∧ (s1 ≤ c ∧ c < s1 + n1)) := by omega
      rw [if_neg this, add_zero]
    · rw [if_neg hrc]
      have : ¬ ((s1 ≤ r ∧ r < s1 + n1) ∧ (s2 ≤ c ∧ c < s2 + n2)) := by omega
      rw [if_neg this, zero_add]

/-- two different panels of an assembly have disjoint ranges, in one of the two orders -/
theorem ranges_disjoint (ps : List (Nat × Nat)) (p1 p2 : Nat) (h1 : p1 < ps.length) (h2 : p2 < ps.length) (hne : p1 ≠ p2) :
    startOf (panelSizes ps) p1 + sizeAt ps p1 ≤ startOf (panelSizes ps) p2 ∨
    startOf (panelSizes ps) p2 + sizeAt ps p2 ≤ startOf (panelSizes ps) p1 := by
  have hl := panelSizes_length ps
  have ht := (ranges_tile_general (panelSizes ps)).2.2.2
  rw [sizeAt_eq ps p1 h1, sizeAt_eq ps p2 h2]
  rcases Nat.lt_or_gt_of_ne hne with h | h
  · left; exact ht p1 p2 (by omega) h
  · right; exact ht p2 p1 (by omega) h

theorem sizeAt_eq_mul (ps : List (Nat × Nat)) (k : Nat) (hk : k < ps.length) :
    sizeAt ps k = 3 * (ps.getD k (0, 0)).1 * (ps.getD k (0, 0)).2 := by
  rw [sizeAt_eq ps k hk, panelSizes_getElem ps k hk]

/-! ### the connection matrix of one connection -/

/-- the three placed blocks -/
theorem k0Conn_single (ps : List (Nat × Nat)) (conn : Conn K) (h1 : conn.p1 < ps.length) (h2 : conn.p2 < ps.length)
    (r c : Nat) :
    toFun (k0Conn ps [conn]) r c =
      toFun (finalize (shift (startOf (panelSizes ps) conn.p1) (startOf (panelSizes ps) conn.p1) conn.k11)) r c +
      toFun (finalize (if startOf (panelSizes ps) conn.p1 > startOf (panelSizes ps) conn.p2 then
          shift (startOf (panelSizes ps) conn.p2) (startOf (panelSizes ps) conn.p1) (transpose conn.k12)
        else shift (startOf (panelSizes ps) conn.p1) (startOf (panelSizes ps) conn.p2) conn.k12)) r c +
      toFun (finalize (shift (startOf (panelSizes ps) conn.p2) (startOf (panelSizes ps) conn.p2) conn.k22)) r c := by
  unfold k0Conn connAllBlocks
  simp only [List.flatMap_cons, List.flatMap_nil, List.append_nil]
  rw [conn_blocks_aux ps conn h1 h2]
  simp only [placeAll, List.flatMap_cons, List.flatMap_nil, List.append_nil]
  rw [toFun_finalize_append, toFun_finalize_append, ← add_assoc]
  congr 2
  by_cases hgt : startOf (panelSizes ps) conn.p1 > startOf (panelSizes ps) conn.p2
  · have hlt : startOf (panelSizes ps) conn.p2 < startOf (panelSizes ps) conn.p1 := hgt
    rw [if_pos hlt, if_pos hgt]; rfl
  · have hlt : ¬ startOf (panelSizes ps) conn.p2 < startOf (panelSizes ps) conn.p1 := hgt
    rw [if_neg hlt, if_neg hgt]; rfl

/-- `get_k0_conn()` of an assembly with SEVERAL connections is the sum of the finalized matrices of the single connections -/
theorem k0Conn_sum (ps : List (Nat × Nat)) (conns : List (Conn K)) (r c : Nat) :
    toFun (k0Conn ps conns) r c = (conns.map fun cn => toFun (k0Conn ps [cn]) r c).sum := by
  induction conns with
  | nil => simp [k0Conn, connAllBlocks, placeAll, toFun_finalize_nil]
  | cons cn t ih =>
    have h1 : k0Conn ps (cn :: t) = finalize (placeAll (connBlocks (init ps) cn) ++ placeAll (connAllBlocks ps t)) := by
      unfold k0Conn connAllBlocks
      rw [List.flatMap_cons, placeAll_append]
    have h2 : k0Conn ps [cn] = finalize (placeAll (connBlocks (init ps) cn)) := by
      unfold k0Conn connAllBlocks
      simp
    rw [h1, toFun_finalize_append, List.map_cons, List.sum_cons, ← ih, h2]
    rfl

/-! ### the quadratic form -/

/-- the degrees of freedom of the two connected panels -/
abbrev ConnDof (m1 n1 m2 n2 : Nat) := Dof 3 m1 n1 ⊕ Dof 3 m2 n2

namespace ConnDof
variable {m1 n1 m2 n2 : Nat}

def pan : ConnDof m1 n1 m2 n2 → Pan
  | .inl _ => .p1
  | .inr _ => .p2

/-- field offset -/
def ro : ConnDof m1 n1 m2 n2 → Fin 3
  | .inl A => A.2
  | .inr B => B.2

/-- series index along x -/
def ix : ConnDof m1 n1 m2 n2 → Nat
  | .inl A => A.1.2.val
  | .inr B => B.1.2.val

/-- series index along y -/
def iy : ConnDof m1 n1 m2 n2 → Nat
  | .inl A => A.1.1.val
  | .inr B => B.1.1.val

/-- position in the assembly's amplitude vector (`s1`, `s2`: range starts of the two panels) -/
def gpos (s1 s2 : Nat) : ConnDof m1 n1 m2 n2 → Nat
  | .inl A => s1 + A.pos
  | .inr B => s2 + B.pos

end ConnDof

/-- the block matrix `[[e11, e12], [e12ᵀ, e22]]` of the three kernels' entry values -/
def connBlockMat {m1 n1 m2 n2 : Nat} (e11 e12 e22 : Fin 3 → Fin 3 → Nat → Nat → Nat → Nat → ℝ)
    (X Y : ConnDof m1 n1 m2 n2) : ℝ :=
  match X.pan, Y.pan with
  | .p1, .p1 => e11 X.ro Y.ro X.ix Y.ix X.iy Y.iy
  | .p1, .p2 => e12 X.ro Y.ro X.ix Y.ix X.iy Y.iy
  | .p2, .p1 => e12 Y.ro X.ro Y.ix X.ix Y.iy X.iy
  | .p2, .p2 => e22 X.ro Y.ro X.ix Y.ix X.iy Y.iy

theorem sum2_dofs (m n m' n' : Nat) (g : Nat → Nat → ℝ) :
    ∑ a ∈ Finset.range (3 * m * n), ∑ b ∈ Finset.range (3 * m' * n'), g a b =
      ∑ A : Dof 3 m n, ∑ B : Dof 3 m' n', g A.pos B.pos := by
  rw [sum_range_dofs]
  refine Finset.sum_congr rfl fun A _ => ?_
  rw [sum_range_dofs]

/-- value of a finalized, placed diagonal block at the positions of two degrees of freedom of its panel -/
theorem finalize_diag_value (s m n : Nat) (l : Coo ℝ) (e : Fin 3 → Fin 3 → Nat → Nat → Nat → Nat → ℝ)
    (hl : ∀ r c, toFun l r c = toFun (loopNest 3 m n 0 0 e) r c)
    (hs : ∀ α β i k j l, e α β i k j l = e β α k i l j) (A B : Dof 3 m n) :
    toFun (finalize (shift s s l)) (s + A.pos) (s + B.pos) = e A.2 B.2 A.1.2.val B.1.2.val A.1.1.val B.1.1.val := by
  rw [toFun_finalize_shift_congr s s l _ hl, ← loopNest_shift]
  have := toFun_finalize_loopNest_of_symm 3 m n s e hs A.1.2.isLt B.1.2.isLt A.1.1.isLt B.1.1.isLt A.2 B.2
  simp only [Dof.pos, ← Nat.add_assoc]
  exact this

theorem coupling_value (m1 n1 m2 n2 : Nat) (l : Coo ℝ) (e : Fin 3 → Fin 3 → Nat → Nat → Nat → Nat → ℝ)
    (hl : ∀ r c, toFun l r c = toFun (rectNest 3 m1 n1 m2 n2 0 0 e) r c) (A : Dof 3 m1 n1) (B : Dof 3 m2 n2) :
    toFun l A.pos B.pos = e A.2 B.2 A.1.2.val B.1.2.val A.1.1.val B.1.1.val := by
  rw [hl]
  have := toFun_rectNest 3 m1 n1 m2 n2 0 0 e A.1.2.isLt B.1.2.isLt A.1.1.isLt B.1.1.isLt A.2 B.2
  simp only [Nat.zero_add] at this
  exact this

/-- THE QUADRATIC FORM of the finalized connection matrix of one connection over the whole amplitude vector is the quadratic form of
the block matrix `[[e11, e12], [e12ᵀ, e22]]` over the degrees of freedom of the two panels, at their positions in the assembly —
in whichever order the two panels were listed (`p1` before or after `p2`). -/
theorem connQuad_eq (ps : List (Nat × Nat)) (conn : Conn ℝ) (h1 : conn.p1 < ps.length) (h2 : conn.p2 < ps.length)
    (hne : conn.p1 ≠ conn.p2) (m1 n1 m2 n2 : Nat) (hm1 : ps.getD conn.p1 (0, 0) = (m1, n1))
    (hm2 : ps.getD conn.p2 (0, 0) = (m2, n2))
    (e11 e12 e22 : Fin 3 → Fin 3 → Nat → Nat → Nat → Nat → ℝ)
    (hk11 : ∀ r c, toFun conn.k11 r c = toFun (loopNest 3 m1 n1 0 0 e11) r c)
    (hk12 : ∀ r c, toFun conn.k12 r c = toFun (rectNest 3 m1 n1 m2 n2 0 0 e12) r c)
    (hk22 : ∀ r c, toFun conn.k22 r c = toFun (loopNest 3 m2 n2 0 0 e22) r c)
    (hs11 : ∀ α β i k j l, e11 α β i k j l = e11 β α k i l j)
    (hs22 : ∀ α β i k j l, e22 α β i k j l = e22 β α k i l j) (v : Nat → ℝ) :
    ∑ r ∈ Finset.range (getSize ps), ∑ c ∈ Finset.range (getSize ps), v r * toFun (k0Conn ps [conn]) r c * v c =
      ∑ X : ConnDof m1 n1 m2 n2, ∑ Y : ConnDof m1 n1 m2 n2,
        v (X.gpos (startOf (panelSizes ps) conn.p1) (startOf (panelSizes ps) conn.p2)) *
        v (Y.gpos (startOf (panelSizes ps) conn.p1) (startOf (panelSizes ps) conn.p2)) * connBlockMat e11 e12 e22 X Y := by
  set s1 := startOf (panelSizes ps) conn.p1 with hs1
  set s2 := startOf (panelSizes ps) conn.p2 with hs2
  have hN1 : sizeAt ps conn.p1 = 3 * m1 * n1 := by rw [sizeAt_eq_mul ps _ h1, hm1]
  have hN2 : sizeAt ps conn.p2 = 3 * m2 * n2 := by rw [sizeAt_eq_mul ps _ h2, hm2]
  have he1 : s1 + 3 * m1 * n1 ≤ getSize ps := by rw [← hN1]; exact range_end_le ps _ h1
  have he2 : s2 + 3 * m2 * n2 ≤ getSize ps := by rw [← hN2]; exact range_end_le ps _ h2
  have hdis : s1 + 3 * m1 * n1 ≤ s2 ∨ s2 + 3 * m2 * n2 ≤ s1 := by
    rw [← hN1, ← hN2]; exact ranges_disjoint ps _ _ h1 h2 hne
  -- supports of the three stand-alone lists
  have hz11 : ∀ r c, 3 * m1 * n1 ≤ r ∨ 3 * m1 * n1 ≤ c → toFun conn.k11 r c = 0 :=
    fun r c h => toFun_zero_outside_of_congr (loopNest_within 3 m1 n1 e11) hk11 r c h
  have hz22 : ∀ r c, 3 * m2 * n2 ≤ r ∨ 3 * m2 * n2 ≤ c → toFun conn.k22 r c = 0 :=
    fun r c h => toFun_zero_outside_of_congr (loopNest_within 3 m2 n2 e22) hk22 r c h
  have hz12 : ∀ r c, 3 * m1 * n1 ≤ r ∨ 3 * m2 * n2 ≤ c → toFun conn.k12 r c = 0 :=
    fun r c h => toFun_zero_outside_of_congr (rectNest_within 3 m1 n1 m2 n2 e12) hk12 r c h
  -- the summand, block by block
  have hsplit : ∀ r c, v r * toFun (k0Conn ps [conn]) r c * v c =
      (if (s1 ≤ r ∧ r < s1 + 3 * m1 * n1) ∧ (s1 ≤ c ∧ c < s1 + 3 * m1 * n1) then
        v r * toFun (finalize (shift s1 s1 conn.k11)) r c * v c else 0) +
      (if (s1 ≤ r ∧ r < s1 + 3 * m1 * n1) ∧ (s2 ≤ c ∧ c < s2 + 3 * m2 * n2) then
        v r * toFun conn.k12 (r - s1) (c - s2) * v c else 0) +
      (if (s2 ≤ r ∧ r < s2 + 3 * m2 * n2) ∧ (s1 ≤ c ∧ c < s1 + 3 * m1 * n1) then
        v r * toFun conn.k12 (c - s1) (r - s2) * v c else 0) +
      (if (s2 ≤ r ∧ r < s2 + 3 * m2 * n2) ∧ (s2 ≤ c ∧ c < s2 + 3 * m2 * n2) then
        v r * toFun (finalize (shift s2 s2 conn.k22)) r c * v c else 0) := by
    intro r c
    rw [k0Conn_single ps conn h1 h2 r c, finalize_coupling s1 (3 * m1 * n1) s2 (3 * m2 * n2) hdis conn.k12 hz12 r c]
    have g11 : toFun (finalize (shift s1 s1 conn.k11)) r c =
        if (s1 ≤ r ∧ r < s1 + 3 * m1 * n1) ∧ (s1 ≤ c ∧ c < s1 + 3 * m1 * n1) then
          toFun (finalize (shift s1 s1 conn.k11)) r c else 0 := by
      split
      · rfl
      · next h => exact finalize_diag_support s1 (3 * m1 * n1) conn.k11 hz11 r c h
    have g22 : toFun (finalize (shift s2 s2 conn.k22)) r c =
        if (s2 ≤ r ∧ r < s2 + 3 * m2 * n2) ∧ (s2 ≤ c ∧ c < s2 + 3 * m2 * n2) then
          toFun (finalize (shift s2 s2 conn.k22)) r c else 0 := by
      split
      · rfl
      · next h => exact finalize_diag_support s2 (3 * m2 * n2) conn.k22 hz22 r c h
    conv_lhs => rw [g11, g22]
    simp only [mul_add, add_mul, mul_ite, ite_mul, mul_zero, zero_mul]
    ring
  simp only [hsplit, Finset.sum_add_distrib]
  rw [sum2_block _ s1 _ s1 _ he1 he1, sum2_block _ s1 _ s2 _ he1 he2, sum2_block _ s2 _ s1 _ he2 he1,
    sum2_block _ s2 _ s2 _ he2 he2]
  simp only [Nat.add_sub_cancel_left]
  rw [sum2_dofs, sum2_dofs, sum2_dofs, sum2_dofs]
  -- the right-hand side, block by block
  simp only [Fintype.sum_sum_type, Finset.sum_add_distrib]
  simp only [ConnDof.gpos, connBlockMat, ConnDof.pan, ConnDof.ro, ConnDof.ix, ConnDof.iy]
  have t11 : ∀ A B : Dof 3 m1 n1, v (s1 + A.pos) * toFun (finalize (shift s1 s1 conn.k11)) (s1 + A.pos) (s1 + B.pos) *
      v (s1 + B.pos) = v (s1 + A.pos) * v (s1 + B.pos) * e11 A.2 B.2 A.1.2.val B.1.2.val A.1.1.val B.1.1.val := by
    intro A B; rw [finalize_diag_value s1 m1 n1 conn.k11 e11 hk11 hs11 A B]; ring
  have t22 : ∀ A B : Dof 3 m2 n2, v (s2 + A.pos) * toFun (finalize (shift s2 s2 conn.k22)) (s2 + A.pos) (s2 + B.pos) *
      v (s2 + B.pos) = v (s2 + A.pos) * v (s2 + B.pos) * e22 A.2 B.2 A.1.2.val B.1.2.val A.1.1.val B.1.1.val := by
    intro A B; rw [finalize_diag_value s2 m2 n2 conn.k22 e22 hk22 hs22 A B]; ring
  have t12 : ∀ (A : Dof 3 m1 n1) (B : Dof 3 m2 n2), v (s1 + A.pos) * toFun conn.k12 A.pos B.pos * v (s2 + B.pos) =
      v (s1 + A.pos) * v (s2 + B.pos) * e12 A.2 B.2 A.1.2.val B.1.2.val A.1.1.val B.1.1.val := by
    intro A B; rw [coupling_value m1 n1 m2 n2 conn.k12 e12 hk12 A B]; ring
  have t21 : ∀ (B : Dof 3 m2 n2) (A : Dof 3 m1 n1), v (s2 + B.pos) * toFun conn.k12 A.pos B.pos * v (s1 + A.pos) =
      v (s2 + B.pos) * v (s1 + A.pos) * e12 A.2 B.2 A.1.2.val B.1.2.val A.1.1.val B.1.1.val := by
    intro B A; rw [coupling_value m1 n1 m2 n2 conn.k12 e12 hk12 A B]; ring
  simp only [t11, t22, t12, t21]
  ring

/-! ### with the per-pair values `connEntry` of Spec/InterfacePSD.lean -/

/-- the entry values the three kernels' loop bodies write: `connEntry` on the three blocks -/
def connE (b11 b12 b22 : Fin 3 → Fin 3 → CCtx ℝ → ℝ) (base : CCtx ℝ) (J : ConnIntegrals) (E : ConnEvals) (pA pB : Pan) :
    Fin 3 → Fin 3 → Nat → Nat → Nat → Nat → ℝ :=
  fun ro co i k j l => connEntry b11 b12 b22 base J E pA pB ro co i k j l

theorem connE_11 (b11 b12 b22 : Fin 3 → Fin 3 → CCtx ℝ → ℝ) (base : CCtx ℝ) (J : ConnIntegrals) (E : ConnEvals) :
    connE b11 b12 b22 base J E .p1 .p1 = fun ro co i k j l => b11 ro co (cctxAt base J E i k j l) := rfl
theorem connE_12 (b11 b12 b22 : Fin 3 → Fin 3 → CCtx ℝ → ℝ) (base : CCtx ℝ) (J : ConnIntegrals) (E : ConnEvals) :
    connE b11 b12 b22 base J E .p1 .p2 = fun ro co i k j l => b12 ro co (cctxAt base J E i k j l) := rfl
theorem connE_22 (b11 b12 b22 : Fin 3 → Fin 3 → CCtx ℝ → ℝ) (base : CCtx ℝ) (J : ConnIntegrals) (E : ConnEvals) :
    connE b11 b12 b22 base J E .p2 .p2 = fun ro co i k j l => b22 ro co (cctxAt base J E i k j l) := rfl

theorem connBlockMat_eq_connEntry {m1 n1 m2 n2 : Nat} (b11 b12 b22 : Fin 3 → Fin 3 → CCtx ℝ → ℝ) (base : CCtx ℝ)
    (J : ConnIntegrals) (E : ConnEvals) (X Y : ConnDof m1 n1 m2 n2) :
    connBlockMat (connE b11 b12 b22 base J E .p1 .p1) (connE b11 b12 b22 base J E .p1 .p2)
        (connE b11 b12 b22 base J E .p2 .p2) X Y =
      connEntry b11 b12 b22 base J E X.pan Y.pan X.ro Y.ro X.ix Y.ix X.iy Y.iy := by
  unfold connBlockMat connE
  cases X.pan <;> cases Y.pan <;> rfl

/-- GENERAL FORM: one connection, the three lists being the modelled loop nests (order `yx`) filled with `connEntry` values;
diagonal blocks symmetric; per-pair values positive semi-definite ⇒ assembled, finalized connection matrix positive semi-definite -/
theorem k0Conn_psd_aux (ps : List (Nat × Nat)) (conn : Conn ℝ) (h1 : conn.p1 < ps.length) (h2 : conn.p2 < ps.length)
    (hne : conn.p1 ≠ conn.p2) (m1 n1 m2 n2 : Nat) (hm1 : ps.getD conn.p1 (0, 0) = (m1, n1))
    (hm2 : ps.getD conn.p2 (0, 0) = (m2, n2)) (yx : Bool)
    (b11 b12 b22 : Fin 3 → Fin 3 → CCtx ℝ → ℝ) (base : CCtx ℝ) (J : ConnIntegrals) (E : ConnEvals)
    (hk11 : conn.k11 = connNestDiag yx m1 n1 0 (connE b11 b12 b22 base J E .p1 .p1))
    (hk12 : conn.k12 = connNest12 yx m1 n1 m2 n2 0 0 (connE b11 b12 b22 base J E .p1 .p2))
    (hk22 : conn.k22 = connNestDiag yx m2 n2 0 (connE b11 b12 b22 base J E .p2 .p2))
    (hsym : ∀ (p : Pan) (ro co : Fin 3) (i k j l : Nat),
      connEntry b11 b12 b22 base J E p p ro co i k j l = connEntry b11 b12 b22 base J E p p co ro k i l j)
    (hpsd : ∀ w : ConnDof m1 n1 m2 n2 → ℝ, 0 ≤ ∑ X, ∑ Y, w X * w Y *
      connEntry b11 b12 b22 base J E X.pan Y.pan X.ro Y.ro X.ix Y.ix X.iy Y.iy)
    (v : Nat → ℝ) :
    0 ≤ ∑ r ∈ Finset.range (getSize ps), ∑ c ∈ Finset.range (getSize ps), v r * toFun (k0Conn ps [conn]) r c * v c := by
  rw [connQuad_eq ps conn h1 h2 hne m1 n1 m2 n2 hm1 hm2 (connE b11 b12 b22 base J E .p1 .p1)
    (connE b11 b12 b22 base J E .p1 .p2) (connE b11 b12 b22 base J E .p2 .p2)
    (fun r c => by rw [hk11]; exact toFun_connNestDiag yx m1 n1 _ r c)
    (fun r c => by rw [hk12]; exact toFun_connNest12 yx m1 n1 m2 n2 _ r c)
    (fun r c => by rw [hk22]; exact toFun_connNestDiag yx m2 n2 _ r c)
    (fun α β i k j l => hsym .p1 α β i k j l) (fun α β i k j l => hsym .p2 α β i k j l) v]
  simp only [connBlockMat_eq_connEntry]
  exact hpsd _

/-- symmetry of the diagonal blocks of a LINE penalty connection under exchange of the two degrees of freedom -/
theorem connEntry_line_diag_symm {n : Nat} (b11 b12 b22 : Fin 3 → Fin 3 → CCtx ℝ → ℝ) (base : CCtx ℝ)
    (J : ConnIntegrals) (E : ConnEvals) (along normal : Dir) (len : ℝ)
    (Z : Nat → Fld → Pan → Nat → ℝ → ℝ) (z₁ z₂ : ℝ) (hR : RealLineIntegrals J along Z z₁ z₂)
    (ops : Pan → Fld → Fin n → List (OpTerm ℝ)) (W : Fin n → ℝ)
    (h11 : ∀ ro co i k j l, b11 ro co (cctxAt base J E i k j l)
      = lineHess (cctxAt base J E i k j l) along normal len ops W .p1 .p1 (fld3 ro) (fld3 co))
    (h22 : ∀ ro co i k j l, b22 ro co (cctxAt base J E i k j l)
      = lineHess (cctxAt base J E i k j l) along normal len ops W .p2 .p2 (fld3 ro) (fld3 co))
    (p : Pan) (ro co : Fin 3) (i k j l : Nat) :
    connEntry b11 b12 b22 base J E p p ro co i k j l = connEntry b11 b12 b22 base J E p p co ro k i l j := by
  cases p
  · simp only [connEntry, h11]
    exact (lineHess_transpose base J E along normal len Z z₁ z₂ hR ops W .p1 .p1 _ _ i k j l).symm
  · simp only [connEntry, h22]
    exact (lineHess_transpose base J E along normal len Z z₁ z₂ hR ops W .p2 .p2 _ _ i k j l).symm

/-- LINE penalties (`SSycte`, `SSxcte`, `BFycte`, `BFxcte`): the hypotheses of `connEntry_line_psd` give both the symmetry of the diagonal
blocks and the positive semi-definiteness of the per-pair values -/
theorem k0Conn_psd_line {n : Nat} (ps : List (Nat × Nat)) (conn : Conn ℝ) (h1 : conn.p1 < ps.length)
    (h2 : conn.p2 < ps.length) (hne : conn.p1 ≠ conn.p2) (m1 n1 m2 n2 : Nat)
    (hm1 : ps.getD conn.p1 (0, 0) = (m1, n1)) (hm2 : ps.getD conn.p2 (0, 0) = (m2, n2)) (yx : Bool)
    (b11 b12 b22 : Fin 3 → Fin 3 → CCtx ℝ → ℝ) (base : CCtx ℝ) (J : ConnIntegrals) (E : ConnEvals)
    (hk11 : conn.k11 = connNestDiag yx m1 n1 0 fun ro co i k j l => b11 ro co (cctxAt base J E i k j l))
    (hk12 : conn.k12 = connNest12 yx m1 n1 m2 n2 0 0 fun ro co i k j l => b12 ro co (cctxAt base J E i k j l))
    (hk22 : conn.k22 = connNestDiag yx m2 n2 0 fun ro co i k j l => b22 ro co (cctxAt base J E i k j l))
    (along normal : Dir) (len : ℝ) (hlen : 0 ≤ len)
    (Z : Nat → Fld → Pan → Nat → ℝ → ℝ) (z₁ z₂ : ℝ) (hR : RealLineIntegrals J along Z z₁ z₂)
    (ops : Pan → Fld → Fin n → List (OpTerm ℝ)) (W : Fin n → ℝ) (hW : ∀ q, 0 ≤ W q)
    (h11 : ∀ ro co i k j l, b11 ro co (cctxAt base J E i k j l)
      = lineHess (cctxAt base J E i k j l) along normal len ops W .p1 .p1 (fld3 ro) (fld3 co))
    (h12 : ∀ ro co i k j l, b12 ro co (cctxAt base J E i k j l)
      = lineHess (cctxAt base J E i k j l) along normal len ops W .p1 .p2 (fld3 ro) (fld3 co))
    (h22 : ∀ ro co i k j l, b22 ro co (cctxAt base J E i k j l)
      = lineHess (cctxAt base J E i k j l) along normal len ops W .p2 .p2 (fld3 ro) (fld3 co))
    (v : Nat → ℝ) :
    0 ≤ ∑ r ∈ Finset.range (getSize ps), ∑ c ∈ Finset.range (getSize ps), v r * toFun (k0Conn ps [conn]) r c * v c := by
  refine k0Conn_psd_aux ps conn h1 h2 hne m1 n1 m2 n2 hm1 hm2 yx b11 b12 b22 base J E
    (by rw [connE_11]; exact hk11) (by rw [connE_12]; exact hk12) (by rw [connE_22]; exact hk22) ?_ ?_ v
  · intro p ro co i k j l
    cases p
    · simp only [connEntry, h11]
      exact (lineHess_transpose base J E along normal len Z z₁ z₂ hR ops W .p1 .p1 _ _ i k j l).symm
    · simp only [connEntry, h22]
      exact (lineHess_transpose base J E along normal len Z z₁ z₂ hR ops W .p2 .p2 _ _ i k j l).symm
  · intro w
    have := connEntry_line_psd b11 b12 b22 base J E along normal len hlen Z z₁ z₂ hR ops W hW h11 h12 h22
      (Finset.univ : Finset (ConnDof m1 n1 m2 n2)) ConnDof.pan ConnDof.ro ConnDof.ix ConnDof.iy w
    exact this

/-- SURFACE penalty (`SB`) -/
theorem k0Conn_psd_surf {n : Nat} (ps : List (Nat × Nat)) (conn : Conn ℝ) (h1 : conn.p1 < ps.length)
    (h2 : conn.p2 < ps.length) (hne : conn.p1 ≠ conn.p2) (m1 n1 m2 n2 : Nat)
    (hm1 : ps.getD conn.p1 (0, 0) = (m1, n1)) (hm2 : ps.getD conn.p2 (0, 0) = (m2, n2)) (yx : Bool)
    (b11 b12 b22 : Fin 3 → Fin 3 → CCtx ℝ → ℝ) (base : CCtx ℝ) (J : ConnIntegrals) (E : ConnEvals)
    (hk11 : conn.k11 = connNestDiag yx m1 n1 0 fun ro co i k j l => b11 ro co (cctxAt base J E i k j l))
    (hk12 : conn.k12 = connNest12 yx m1 n1 m2 n2 0 0 fun ro co i k j l => b12 ro co (cctxAt base J E i k j l))
    (hk22 : conn.k22 = connNestDiag yx m2 n2 0 fun ro co i k j l => b22 ro co (cctxAt base J E i k j l))
    (hab : 0 ≤ base.a1 * base.b1)
    (X Y : Nat → Fld → Pan → Nat → ℝ → ℝ) (x₁ x₂ y₁ y₂ : ℝ) (hR : RealSurfIntegrals J X Y x₁ x₂ y₁ y₂)
    (ops : Pan → Fld → Fin n → List (OpTerm ℝ)) (W : Fin n → ℝ) (hW : ∀ q, 0 ≤ W q)
    (h11 : ∀ ro co i k j l, b11 ro co (cctxAt base J E i k j l)
      = surfHess (cctxAt base J E i k j l) ops W .p1 .p1 (fld3 ro) (fld3 co))
    (h12 : ∀ ro co i k j l, b12 ro co (cctxAt base J E i k j l)
      = surfHess (cctxAt base J E i k j l) ops W .p1 .p2 (fld3 ro) (fld3 co))
    (h22 : ∀ ro co i k j l, b22 ro co (cctxAt base J E i k j l)
      = surfHess (cctxAt base J E i k j l) ops W .p2 .p2 (fld3 ro) (fld3 co))
    (v : Nat → ℝ) :
    0 ≤ ∑ r ∈ Finset.range (getSize ps), ∑ c ∈ Finset.range (getSize ps), v r * toFun (k0Conn ps [conn]) r c * v c := by
  refine k0Conn_psd_aux ps conn h1 h2 hne m1 n1 m2 n2 hm1 hm2 yx b11 b12 b22 base J E
    (by rw [connE_11]; exact hk11) (by rw [connE_12]; exact hk12) (by rw [connE_22]; exact hk22) ?_ ?_ v
  · intro p ro co i k j l
    cases p
    · simp only [connEntry, h11]
      exact (surfHess_transpose base J E X Y x₁ x₂ y₁ y₂ hR ops W .p1 .p1 _ _ i k j l).symm
    · simp only [connEntry, h22]
      exact (surfHess_transpose base J E X Y x₁ x₂ y₁ y₂ hR ops W .p2 .p2 _ _ i k j l).symm
  · intro w
    have := connEntry_surf_psd b11 b12 b22 base J E hab X Y x₁ x₂ y₁ y₂ hR ops W hW h11 h12 h22
      (Finset.univ : Finset (ConnDof m1 n1 m2 n2)) ConnDof.pan ConnDof.ro ConnDof.ix ConnDof.iy w
    exact this

/-- SEVERAL connections: if the finalized matrix of every single connection is positive semi-definite, so is `get_k0_conn()` -/
theorem k0Conn_psd_of_each (ps : List (Nat × Nat)) (conns : List (Conn ℝ))
    (h : ∀ cn ∈ conns, ∀ v : Nat → ℝ,
      0 ≤ ∑ r ∈ Finset.range (getSize ps), ∑ c ∈ Finset.range (getSize ps), v r * toFun (k0Conn ps [cn]) r c * v c)
    (v : Nat → ℝ) :
    0 ≤ ∑ r ∈ Finset.range (getSize ps), ∑ c ∈ Finset.range (getSize ps), v r * toFun (k0Conn ps conns) r c * v c := by
  have e : ∀ l : List (Conn ℝ), ∑ r ∈ Finset.range (getSize ps), ∑ c ∈ Finset.range (getSize ps),
      v r * (l.map fun cn => toFun (k0Conn ps [cn]) r c).sum * v c =
      (l.map fun cn => ∑ r ∈ Finset.range (getSize ps), ∑ c ∈ Finset.range (getSize ps),
        v r * toFun (k0Conn ps [cn]) r c * v c).sum := by
    intro l
    induction l with
    | nil => simp
    | cons cn t ih =>
      simp only [List.map_cons, List.sum_cons, mul_add, add_mul, Finset.sum_add_distrib]
      rw [← ih]
  simp only [k0Conn_sum ps conns]
  rw [e]
  apply List.sum_nonneg
  intro x hx
  obtain ⟨cn, hcn, rfl⟩ := List.mem_map.mp hx
  exact h cn hcn v

end Compmech.Asm
