/-
RIGID TRANSLATIONS of an all-free flat panel, as amplitude vectors of the Bardell series, and what the kinetic-energy Hessian
makes of them (total-mass clause of C04).

With every edge flag equal to one and series orders `m, n ≥ 3` the functions 0 and 2 (the two translation Hermite functions,
`u₀ + u₂ = 1`, Bardell/RigidBody.lean) exist in both directions, and the field `f(ξ, η) = Σ c_{ij} u_i(ξ) u_j(η)` with
`c_{ij} = 1` for `i, j ∈ {0, 2}`, zero otherwise, is the constant `1`.  `rigidAmp num m row0 α` is that amplitude vector for the
field with degree-of-freedom offset `α` (`u`: 0, `v`: 1, `w`: 2 for the three-field models; `w`: 0 for the `w`-only plate) of a
panel placed at `row0`: `c (row0 + num·(j·m + i) + α) = 1` for `i, j ∈ {0, 2}`, zero elsewhere.

* `quadForm_rigid3`, `quadForm_rigid1`: `cᵀ M c` over the panel's block is the sum of the 16 entries at the four positions.
* `massHessian_diag`: the kinetic-energy Hessian of two basis functions of the SAME field.
* `massHessian_rigid_sum`: the 16-term sum of these Hessians is `(a b / 4)·mu·h·s_x·s_y` whenever the integrals of the products of
  the translation functions add up to `s_x`, `s_y` and those of the products of their first derivatives add up to `0` — the
  rotary-inertia terms `mu·h·(δ² + h²/12)`, the only place where the mid-plane position `δ` enters a same-field block, multiply
  integrals of derivatives of the constant one and vanish.
-/
import CompmechVerif.Spec.WholeMatrix
import CompmechVerif.Spec.Kinematics
import Mathlib.Algebra.BigOperators.Group.Finset.Basic
import Mathlib.Algebra.BigOperators.Ring.Finset
import Mathlib.Tactic.Ring
import Mathlib.Tactic.LinearCombination
import Mathlib.Tactic.FinCases

set_option linter.unusedSimpArgs false

namespace Compmech.Panel
open scoped BigOperators

variable {K : Type} [Field K]

/-- amplitude vector of the rigid translation "field `α` ≡ 1" of an all-free panel with `num` fields, series order `m` along x,
placed at `row0`: one at the positions `row0 + num·(j·m + i) + α`, `i, j ∈ {0, 2}`, zero elsewhere -/
def rigidAmp (num m row0 α : Nat) (p : Nat) : K :=
  if p = row0 + num * (0 * m + 0) + α ∨ p = row0 + num * (0 * m + 2) + α ∨
     p = row0 + num * (2 * m + 0) + α ∨ p = row0 + num * (2 * m + 2) + α then 1 else 0

/-- `vᵀ M v` over the block `[row0, row0 + N)` for the indicator vector of four distinct offsets `a, b, c, d < N` -/
theorem quadForm_four (N row0 a b c d : Nat) (hab : a ≠ b) (hac : a ≠ c) (had : a ≠ d) (hbc : b ≠ c) (hbd : b ≠ d)
    (hcd : c ≠ d) (ha : a < N) (hb : b < N) (hc : c < N) (hd : d < N) (M : Nat → Nat → K) (v : Nat → K)
    (hv : ∀ r, v (row0 + r) = if r = a ∨ r = b ∨ r = c ∨ r = d then 1 else 0) :
    ∑ r ∈ Finset.range N, ∑ s ∈ Finset.range N, v (row0 + r) * M (row0 + r) (row0 + s) * v (row0 + s)
      = (M (row0 + a) (row0 + a) + M (row0 + a) (row0 + b) + M (row0 + a) (row0 + c) + M (row0 + a) (row0 + d))
        + (M (row0 + b) (row0 + a) + M (row0 + b) (row0 + b) + M (row0 + b) (row0 + c) + M (row0 + b) (row0 + d))
        + (M (row0 + c) (row0 + a) + M (row0 + c) (row0 + b) + M (row0 + c) (row0 + c) + M (row0 + c) (row0 + d))
        + (M (row0 + d) (row0 + a) + M (row0 + d) (row0 + b) + M (row0 + d) (row0 + c) + M (row0 + d) (row0 + d)) := by
  set S : Finset Nat := {a, b, c, d} with hSdef
  have hS : S ⊆ Finset.range N := by
    intro x hx
    simp only [hSdef, Finset.mem_insert, Finset.mem_singleton] at hx
    rcases hx with rfl | rfl | rfl | rfl <;> simpa using ‹_›
  have hmem : ∀ r, (r = a ∨ r = b ∨ r = c ∨ r = d) ↔ r ∈ S := by
    intro r; simp only [hSdef, Finset.mem_insert, Finset.mem_singleton]
  have four : ∀ g : Nat → K, ∑ r ∈ S, g r = g a + g b + g c + g d := by
    intro g
    rw [hSdef, Finset.sum_insert (by simp [hab, hac, had]), Finset.sum_insert (by simp [hbc, hbd]), Finset.sum_pair hcd]
    ring
  calc ∑ r ∈ Finset.range N, ∑ s ∈ Finset.range N, v (row0 + r) * M (row0 + r) (row0 + s) * v (row0 + s)
      = ∑ r ∈ Finset.range N, if r ∈ S then (∑ s ∈ Finset.range N, if s ∈ S then M (row0 + r) (row0 + s) else 0) else 0 := by
        refine Finset.sum_congr rfl fun r _ => ?_
        simp only [hv, hmem]
        by_cases hr : r ∈ S
        · simp only [hr, if_true, one_mul, mul_ite, mul_one, mul_zero]
        · simp only [hr, if_false, zero_mul, Finset.sum_const_zero]
    _ = ∑ r ∈ S, ∑ s ∈ S, M (row0 + r) (row0 + s) := by
        simp only [Finset.sum_ite_mem, Finset.inter_eq_right.2 hS]
    _ = _ := by simp only [four]

/-- three-field models (`num = 3`): `cᵀ M c` for the rigid translation of field `α` is the sum of the entries of `M` at the
positions of the translation functions `i, k ∈ {0, 2}` along x and `j, l ∈ {0, 2}` along y -/
theorem quadForm_rigid3 (m n row0 : Nat) (hm : 3 ≤ m) (hn : 3 ≤ n) (α : Fin 3) (M : Nat → Nat → K) :
    ∑ r ∈ Finset.range (3 * m * n), ∑ s ∈ Finset.range (3 * m * n),
        rigidAmp 3 m row0 α.val (row0 + r) * M (row0 + r) (row0 + s) * rigidAmp 3 m row0 α.val (row0 + s)
      = ∑ j ∈ ({0, 2} : Finset Nat), ∑ i ∈ ({0, 2} : Finset Nat), ∑ l ∈ ({0, 2} : Finset Nat), ∑ k ∈ ({0, 2} : Finset Nat),
          M (row0 + 3 * (j * m + i) + α.val) (row0 + 3 * (l * m + k) + α.val) := by
  have hα := α.isLt
  have hmn : m * 3 ≤ m * n := Nat.mul_le_mul_left m hn
  have hN : 3 * m * n = 3 * (m * n) := Nat.mul_assoc 3 m n
  rw [quadForm_four (3 * m * n) row0 (3 * (0 * m + 0) + α.val) (3 * (0 * m + 2) + α.val) (3 * (2 * m + 0) + α.val)
    (3 * (2 * m + 2) + α.val) (by omega) (by omega) (by omega) (by omega) (by omega) (by omega)
    (by omega) (by omega) (by omega) (by omega) M _
    (fun r => by
      unfold rigidAmp
      refine if_congr ?_ rfl rfl
      constructor <;> (intro h; omega))]
  simp only [Finset.sum_pair (by decide : (0 : Nat) ≠ 2), ← Nat.add_assoc]
  ring

/-- `w`-only plate (`num = 1`) -/
theorem quadForm_rigid1 (m n row0 : Nat) (hm : 3 ≤ m) (hn : 3 ≤ n) (α : Fin 1) (M : Nat → Nat → K) :
    ∑ r ∈ Finset.range (1 * m * n), ∑ s ∈ Finset.range (1 * m * n),
        rigidAmp 1 m row0 α.val (row0 + r) * M (row0 + r) (row0 + s) * rigidAmp 1 m row0 α.val (row0 + s)
      = ∑ j ∈ ({0, 2} : Finset Nat), ∑ i ∈ ({0, 2} : Finset Nat), ∑ l ∈ ({0, 2} : Finset Nat), ∑ k ∈ ({0, 2} : Finset Nat),
          M (row0 + 1 * (j * m + i) + α.val) (row0 + 1 * (l * m + k) + α.val) := by
  have hα := α.isLt
  have hmn : m * 3 ≤ m * n := Nat.mul_le_mul_left m hn
  have hN : 1 * m * n = m * n := by rw [Nat.one_mul]
  rw [quadForm_four (1 * m * n) row0 (1 * (0 * m + 0) + α.val) (1 * (0 * m + 2) + α.val) (1 * (2 * m + 0) + α.val)
    (1 * (2 * m + 2) + α.val) (by omega) (by omega) (by omega) (by omega) (by omega) (by omega)
    (by omega) (by omega) (by omega) (by omega) M _
    (fun r => by
      unfold rigidAmp
      refine if_congr ?_ rfl rfl
      constructor <;> (intro h; omega))]
  simp only [Finset.sum_pair (by decide : (0 : Nat) ≠ 2), ← Nat.add_assoc]
  ring

/-- rotary-inertia switch: only the out-of-plane field carries the `w,x`, `w,y` velocity components -/
def rotSwitch : Fld → K
  | .w => 1
  | _ => 0

/-- the kinetic-energy Hessian of two basis functions of the same field `fld3 α` in a context `P` (operator table and weight
read from `Q`): translational inertia `mu·h·∫∫φ_Aφ_B` plus, for `w` only, the rotary inertia `mu·h·(δ²+h²/12)·∫∫∇φ_A·∇φ_B` -/
theorem massHessian_diag (P Q : PCtx K) (dx dy : Dom) (δ : K) (α : Fin 3) :
    hessian P dx dy (velOps Q) (massW Q δ) (fld3 α) (fld3 α)
      = P.a * P.b / 4 * (Q.mu * Q.h * (P.J .x dx 0 (fld3 α) .A 0 (fld3 α) .B * P.J .y dy 0 (fld3 α) .A 0 (fld3 α) .B)
          + rotSwitch (fld3 α) * (Q.mu * Q.h * (δ * δ + Q.h * Q.h / 12)) *
            (2 / Q.a * (2 / Q.a) * (P.J .x dx 1 (fld3 α) .A 1 (fld3 α) .B * P.J .y dy 0 (fld3 α) .A 0 (fld3 α) .B)
              + 2 / Q.b * (2 / Q.b) * (P.J .x dx 0 (fld3 α) .A 0 (fld3 α) .B * P.J .y dy 1 (fld3 α) .A 1 (fld3 α) .B))) := by
  fin_cases α <;>
  · simp only [velOps, massW, rotSwitch, hessian, pairInt, fld3, List.finRange, List.map, List.sum_cons, List.sum_nil]
    simp only [List.ofFn, Fin.foldr, Fin.foldr.loop, List.map, List.sum_cons, List.sum_nil,
         mul_zero, zero_mul, add_zero, zero_add]
    simp only [Fin.zero_eta, Fin.mk_one, Fin.reduceFinMk, Fin.isValue, List.map_cons, List.map_nil, List.sum_cons,
      List.sum_nil, mul_zero, add_zero, zero_add, zero_mul]
    ring

/-- the sum of the same-field kinetic-energy Hessians over the pairs of translation functions `i, k ∈ {0, 2}` (along x) and
`j, l ∈ {0, 2}` (along y): `(a b / 4)·mu·h·s_x·s_y`, for any mid-plane position `δ` -/
theorem massHessian_rigid_sum (base : PCtx K) (I : Integrals K) (dx dy : Dom) (δ : K) (α : Fin 3) (sx sy : K)
    (hx0 : ∀ f, ∑ i ∈ ({0, 2} : Finset Nat), ∑ k ∈ ({0, 2} : Finset Nat), I .x dx 0 f i 0 f k = sx)
    (hx1 : ∀ f, ∑ i ∈ ({0, 2} : Finset Nat), ∑ k ∈ ({0, 2} : Finset Nat), I .x dx 1 f i 1 f k = 0)
    (hy0 : ∀ f, ∑ j ∈ ({0, 2} : Finset Nat), ∑ l ∈ ({0, 2} : Finset Nat), I .y dy 0 f j 0 f l = sy)
    (hy1 : ∀ f, ∑ j ∈ ({0, 2} : Finset Nat), ∑ l ∈ ({0, 2} : Finset Nat), I .y dy 1 f j 1 f l = 0) :
    ∑ j ∈ ({0, 2} : Finset Nat), ∑ i ∈ ({0, 2} : Finset Nat), ∑ l ∈ ({0, 2} : Finset Nat), ∑ k ∈ ({0, 2} : Finset Nat),
        hessian (ctxAt base I i k j l) dx dy (velOps base) (massW base δ) (fld3 α) (fld3 α)
      = base.a * base.b / 4 * (base.mu * base.h) * sx * sy := by
  have h02 : (0 : Nat) ≠ 2 := by decide
  have X0 := hx0 (fld3 α); have X1 := hx1 (fld3 α); have Y0 := hy0 (fld3 α); have Y1 := hy1 (fld3 α)
  simp only [Finset.sum_pair h02] at X0 X1 Y0 Y1
  simp only [massHessian_diag, ctxAt, pick, Finset.sum_pair h02]
  linear_combination
    (base.a * base.b / 4 * (base.mu * base.h)
        * (I .y dy 0 (fld3 α) 0 0 (fld3 α) 0 + I .y dy 0 (fld3 α) 0 0 (fld3 α) 2
            + (I .y dy 0 (fld3 α) 2 0 (fld3 α) 0 + I .y dy 0 (fld3 α) 2 0 (fld3 α) 2))) * X0
    + (base.a * base.b / 4 * (base.mu * base.h) * sx) * Y0
    + (base.a * base.b / 4 * (rotSwitch (fld3 α) * (base.mu * base.h * (δ * δ + base.h * base.h / 12))) * (2 / base.a * (2 / base.a))
        * (I .y dy 0 (fld3 α) 0 0 (fld3 α) 0 + I .y dy 0 (fld3 α) 0 0 (fld3 α) 2
            + (I .y dy 0 (fld3 α) 2 0 (fld3 α) 0 + I .y dy 0 (fld3 α) 2 0 (fld3 α) 2))) * X1
    + (base.a * base.b / 4 * (rotSwitch (fld3 α) * (base.mu * base.h * (δ * δ + base.h * base.h / 12))) * (2 / base.b * (2 / base.b))
        * (I .x dx 0 (fld3 α) 0 0 (fld3 α) 0 + I .x dx 0 (fld3 α) 0 0 (fld3 α) 2
            + (I .x dx 0 (fld3 α) 2 0 (fld3 α) 0 + I .x dx 0 (fld3 α) 2 0 (fld3 α) 2))) * Y1

end Compmech.Panel
