/-
What C19 says: linear piston theory, pressure `p = −β ∂w/∂flow + γ w`, damping pressure ∝ ∂w/∂t.
Stiffness-side bilinear forms on the out-of-plane amplitudes.
-/
import CompmechVerif.Core.OpSpec

namespace Compmech.Panel
variable {K : Type} [Field K]

def wId : Fld → List (OpTerm K)
  | .w => [⟨1, 0, 0⟩]
  | _ => []

/-- `∂w/∂x = (2/a) ∂w/∂ξ` -/
def wDx (P : PCtx K) : Fld → List (OpTerm K)
  | .w => [⟨2 / P.a, 1, 0⟩]
  | _ => []

/-- `∂w/∂y = (2/b) ∂w/∂η` -/
def wDy (P : PCtx K) : Fld → List (OpTerm K)
  | .w => [⟨2 / P.b, 0, 1⟩]
  | _ => []

/-- the property's form: `β ∬ w_A ∂w_B/∂flow − γ ∬ w_A w_B` -/
def pistonForm (P : PCtx K) (dx dy : Dom) (flow : Fld → List (OpTerm K)) (γ : K) (α β : Fld) : K :=
  P.a * P.b / 4 * (P.beta * pairInt P dx dy α β (wId α) (flow β) - γ * pairInt P dx dy α β (wId α) (wId β))

/-- what the kernels accumulate: `−β ∬ ∂w_A/∂flow w_B − γ ∬ w_A w_B`
(equal to `pistonForm` after integration by parts when `w` vanishes on the flow edges) -/
def pistonFormByParts (P : PCtx K) (dx dy : Dom) (flow : Fld → List (OpTerm K)) (γ : K) (α β : Fld) : K :=
  P.a * P.b / 4 * (-(P.beta * pairInt P dx dy α β (flow α) (wId β)) - γ * pairInt P dx dy α β (wId α) (wId β))

/-- damping: `−aeromu ∬ w_A w_B` (returned times the imaginary unit by `Panel.calc_cA`) -/
def dampingForm (P : PCtx K) (dx dy : Dom) (α β : Fld) : K :=
  P.a * P.b / 4 * (-(P.aeromu * pairInt P dx dy α β (wId α) (wId β)))

end Compmech.Panel
