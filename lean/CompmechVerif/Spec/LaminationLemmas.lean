/-
Helper lemmas behind the lamination-parameter / force_* / equivalent-modulus theorems of `Props/C01.lean`.
-/
import CompmechVerif.Spec.Lamination
import CompmechVerif.Spec.RotationLemmas

namespace Compmech.Laminate

variable {K : Type} [Field K]

/-! ## The invariants identity -/

/-- Textbook identity: for any orthotropic plane-stress matrix the nine closed formulas of `Lamina.rebuild` are
`Γ0 + Γ1 cos 2θ + Γ2 sin 2θ + Γ3 cos 4θ + Γ4 sin 4θ` with the Tsai–Pagano invariants. -/
theorem rotQ_eq_planeInvariants [CharZero K] (c s : K) (q : Q9 K) (hcs : c ^ 2 + s ^ 2 = 1) :
    rotQ c s q = lpFormula (planeInvariants q) (trigOf c s).toXi := by
  have h4 : (c ^ 2 + s ^ 2) ^ 2 = 1 := by rw [hcs]; ring
  ext <;> simp only [rotQ, lpFormula, planeInvariants, trigOf, Trig.toXi]
  · linear_combination ((3 * q.q11 + 3 * q.q22 + 2 * q.q12 + 4 * q.q66) / 8) * h4
      + ((q.q11 - q.q22) / 2 * (c ^ 2 - s ^ 2)) * hcs
  · linear_combination ((q.q11 + q.q22 + 6 * q.q12 - 4 * q.q66) / 8) * h4
  · linear_combination ((3 * q.q11 + 3 * q.q22 + 2 * q.q12 + 4 * q.q66) / 8) * h4
      - ((q.q11 - q.q22) / 2 * (c ^ 2 - s ^ 2)) * hcs
  · linear_combination ((q.q11 - q.q22) / 2 / 2 * (2 * s * c)) * hcs
  · linear_combination ((q.q11 - q.q22) / 2 / 2 * (2 * s * c)) * hcs
  · linear_combination ((q.q11 + q.q22 - 2 * q.q12 + 4 * q.q66) / 8) * h4
  · linear_combination ((q.q44 + q.q55) / 2) * hcs
  · ring
  · linear_combination ((q.q44 + q.q55) / 2) * hcs

/-- With `nu31 = nu32 = 0` (e.g. `nu13 = nu23 = 0`, or `e3 = 0`) the 3-D stiffnesses that `MatLamina.rebuild` feeds into
`u1 … u7` are the plane-stress ones, so `matobj.u` holds the Tsai–Pagano invariants of the ply. -/
theorem invariants_eq_planeInvariants [CharZero K] (m : MatProps K) (he1 : m.e1 ≠ 0) (h31 : m.nu31 = 0)
    (h32 : m.nu32 = 0) : invariants m = planeInvariants (planeStressQ m) := by
  have hnu : m.e1 * m.nu21 = m.nu12 * m.e2 := by
    simp only [MatProps.nu21]; field_simp
  simp only [invariants, invariantsOfQ, matQ, MatProps.den, h31, h32, mul_zero, sub_zero, add_zero, mul_one,
    planeInvariants, planeStressQ, hnu]
  congr 1; ring

/-! ## Weighted sums of `(1, cos 2θ, sin 2θ, cos 4θ, sin 4θ)` through the thickness -/

def Xi.zero : Xi K := ⟨0, 0, 0, 0, 0⟩
def Xi.add (a b : Xi K) : Xi K := ⟨a.x0 + b.x0, a.x1 + b.x1, a.x2 + b.x2, a.x3 + b.x3, a.x4 + b.x4⟩
def Xi.smul (k : K) (a : Xi K) : Xi K := ⟨k * a.x0, k * a.x1, k * a.x2, k * a.x3, k * a.x4⟩
/-- replace the constant component -/
def Xi.setX0 (x0 : K) (a : Xi K) : Xi K := ⟨x0, a.x1, a.x2, a.x3, a.x4⟩

/-- `Σ_k w(z_{k-1}, z_k) • (1, cos 2θ_k, …)`, plies `(t_k, trig_k)` stacked from `h` -/
def xsum (w : K → K → K) : K → List (K × Trig K) → Xi K
  | _, [] => Xi.zero
  | h, p :: ps => (Xi.smul (w h (h + p.1)) p.2.toXi).add (xsum w (h + p.1) ps)

/-- total thickness of a `(t, trig)` list -/
def tsum (ts : List (K × Trig K)) : K := (ts.map (·.1)).sum

theorem tsum_nil : tsum ([] : List (K × Trig K)) = 0 := by simp only [tsum, List.map_nil, List.sum_nil]
theorem tsum_cons (p : K × Trig K) (ps : List (K × Trig K)) : tsum (p :: ps) = p.1 + tsum ps := by
  simp only [tsum, List.map_cons, List.sum_cons]

theorem lpFormula_zero (u : Invariants K) : lpFormula u Xi.zero = Q9.zero := by
  ext <;> simp only [lpFormula, Xi.zero, Q9.zero] <;> ring

theorem lpFormula_add (u : Invariants K) (a b : Xi K) :
    lpFormula u (a.add b) = (lpFormula u a).add (lpFormula u b) := by
  ext <;> simp only [lpFormula, Xi.add, Q9.add] <;> ring

theorem lpFormula_smul (u : Invariants K) (k : K) (a : Xi K) :
    lpFormula u (Xi.smul k a) = Q9.smul k (lpFormula u a) := by
  ext <;> simp only [lpFormula, Xi.smul, Q9.smul] <;> ring

/-- the plies of a stack whose rotated matrices are given by the invariants `u` -/
def pliesOf (u : Invariants K) (ts : List (K × Trig K)) : List (Ply K) :=
  ts.map fun p => ⟨p.1, lpFormula u p.2.toXi⟩

/-- Lemma A: a through-thickness sum of matrices that are all `lpFormula u (1, trig_k)` is `lpFormula u` of the
through-thickness sum of the `(1, trig_k)`. -/
theorem wsum_pliesOf (u : Invariants K) (w : K → K → K) (ts : List (K × Trig K)) (h : K) :
    wsum w h (pliesOf u ts) = lpFormula u (xsum w h ts) := by
  induction ts generalizing h with
  | nil => simp only [pliesOf, List.map_nil, wsum, xsum, lpFormula_zero]
  | cons p ps ih =>
    have := ih (h + p.1)
    simp only [pliesOf, List.map_cons, wsum, xsum, lpFormula_add, lpFormula_smul] at this ⊢
    rw [this]

theorem thickness_pliesOf (u : Invariants K) (ts : List (K × Trig K)) : thickness (pliesOf u ts) = tsum ts := by
  simp only [thickness, pliesOf, tsum, List.map_map, Function.comp_def]

/-- Lemma C: the constant components telescope. -/
theorem xsum_wA_x0 (ts : List (K × Trig K)) (h : K) : (xsum wA h ts).x0 = tsum ts := by
  induction ts generalizing h with
  | nil => simp only [xsum, Xi.zero, tsum_nil]
  | cons p ps ih => simp only [xsum, Xi.add, Xi.smul, Trig.toXi, ih, tsum_cons, wA]; ring

theorem xsum_wB_x0 (ts : List (K × Trig K)) (h : K) :
    (xsum wB h ts).x0 = 1 / 2 * ((h + tsum ts) ^ 2 - h ^ 2) := by
  induction ts generalizing h with
  | nil => simp only [xsum, Xi.zero, tsum_nil]; ring
  | cons p ps ih => simp only [xsum, Xi.add, Xi.smul, Trig.toXi, ih, tsum_cons, wB]; ring

theorem xsum_wD_x0 (ts : List (K × Trig K)) (h : K) :
    (xsum wD h ts).x0 = 1 / 3 * ((h + tsum ts) ^ 3 - h ^ 3) := by
  induction ts generalizing h with
  | nil => simp only [xsum, Xi.zero, tsum_nil]; ring
  | cons p ps ih => simp only [xsum, Xi.add, Xi.smul, Trig.toXi, ih, tsum_cons, wD]; ring

/-- `x + k • (components 1..4 of v)` -/
def Xi4.axpy (x : Xi4 K) (k : K) (v : Xi K) : Xi4 K :=
  ⟨x.x1 + k * v.x1, x.x2 + k * v.x2, x.x3 + k * v.x3, x.x4 + k * v.x4⟩

/-- Lemma B: the loop of `calc_lamination_parameters` in closed form. -/
theorem foldl_lpStep [CharZero K] (T : K) (ts : List (K × Trig K)) (acc : LPAcc K) :
    ts.foldl (lpStep T) acc =
      ⟨acc.h0 + tsum ts, acc.A.axpy (1 / T) (xsum wA acc.h0 ts), acc.B.axpy (4 / T ^ 2) (xsum wB acc.h0 ts),
        acc.D.axpy (12 / T ^ 3) (xsum wD acc.h0 ts), acc.E.axpy (1 / T) (xsum wA acc.h0 ts)⟩ := by
  induction ts generalizing acc with
  | nil =>
    simp only [List.foldl_nil, tsum_nil, xsum, Xi4.axpy, Xi.zero, mul_zero, add_zero]
  | cons p ps ih =>
    rw [List.foldl_cons, ih]
    ext <;> simp only [lpStep, Xi4.addTrig, Xi4.axpy, xsum, Xi.add, Xi.smul, Trig.toXi, tsum_cons, wA, wB, wD] <;> ring

/-! ## `calc_ABDE_from_lamination_parameters` against `lpFormula` -/

theorem mat3_congr {a1 a2 a3 a4 a5 a6 a7 a8 a9 b1 b2 b3 b4 b5 b6 b7 b8 b9 : K}
    (h1 : a1 = b1) (h2 : a2 = b2) (h3 : a3 = b3) (h4 : a4 = b4) (h5 : a5 = b5) (h6 : a6 = b6) (h7 : a7 = b7)
    (h8 : a8 = b8) (h9 : a9 = b9) : mat3 a1 a2 a3 a4 a5 a6 a7 a8 a9 = mat3 b1 b2 b3 b4 b5 b6 b7 b8 b9 := by
  rw [h1, h2, h3, h4, h5, h6, h7, h8, h9]

theorem mat2_congr {a1 a2 a3 a4 b1 b2 b3 b4 : K} (h1 : a1 = b1) (h2 : a2 = b2) (h3 : a3 = b3) (h4 : a4 = b4) :
    mat2 a1 a2 a3 a4 = mat2 b1 b2 b3 b4 := by
  rw [h1, h2, h3, h4]

/-- The unpacking `A11,A22,A12,_,_,_,A66,A16,A26 = fac*np.dot(u, xi)` is the in-plane part of `lpFormula`. -/
theorem inplane_facDot (fac : K) (u : Invariants K) (xi : Xi K) :
    (facDot fac (uMatOfInvariants u) xi).inplane = sym3 (lpFormula u (Xi.smul fac xi)) := by
  simp only [V9.inplane, sym3, facDot, uMatOfInvariants, Xi.dot, lpFormula, Xi.smul]
  apply mat3_congr <;> ring

/-- The unpacking `_,_,_,E44,E55,E45,_,_,_ = fac*np.dot(u, xi)` and `E = [[E55,E45],[E45,E44]]`. -/
theorem shear_facDot (fac : K) (u : Invariants K) (xi : Xi K) :
    (facDot fac (uMatOfInvariants u) xi).shear = shearSwapped (lpFormula u (Xi.smul fac xi)) := by
  simp only [V9.shear, shearSwapped, facDot, uMatOfInvariants, Xi.dot, lpFormula, Xi.smul]
  apply mat2_congr <;> ring

/-- What `calc_ABDE_from_lamination_parameters` reports, for any object on which it does not raise. -/
theorem calcABDEFromLP_eq (L : Lam K) (m : MatProps K) (t : K) (xiA xiB xiD xiE : Xi K)
    (hm : L.matobj = some m) (ht : L.t = some t) (hA : L.xiA = some xiA) (hB : L.xiB = some xiB)
    (hD : L.xiD = some xiD) (hE : L.xiE = some xiE) :
    L.calcABDEFromLP =
      ({ L with
          A := some (sym3 (lpFormula (invariants m) (Xi.smul t xiA)))
          B := some (sym3 (lpFormula (invariants m) (Xi.smul (t ^ 2 / 4) xiB)))
          D := some (sym3 (lpFormula (invariants m) (Xi.smul (t ^ 3 / 12) xiD)))
          E := some (shearSwapped (lpFormula (invariants m) (Xi.smul t xiE)))
          ABD := some (block6 (sym3 (lpFormula (invariants m) (Xi.smul t xiA)))
            (sym3 (lpFormula (invariants m) (Xi.smul (t ^ 2 / 4) xiB)))
            (sym3 (lpFormula (invariants m) (Xi.smul (t ^ 2 / 4) xiB)))
            (sym3 (lpFormula (invariants m) (Xi.smul (t ^ 3 / 12) xiD))))
          ABDE := some (block8 (block6 (sym3 (lpFormula (invariants m) (Xi.smul t xiA)))
            (sym3 (lpFormula (invariants m) (Xi.smul (t ^ 2 / 4) xiB)))
            (sym3 (lpFormula (invariants m) (Xi.smul (t ^ 2 / 4) xiB)))
            (sym3 (lpFormula (invariants m) (Xi.smul (t ^ 3 / 12) xiD))))
            (shearSwapped (lpFormula (invariants m) (Xi.smul t xiE))))
          viewA := false, viewB := false, viewD := false }, none) := by
  simp only [Lam.calcABDEFromLP, hm, ht, hA, hB, hD, hE, uMat, inplane_facDot, shear_facDot]

/-! ## `calc_lamination_parameters` in closed form -/

theorem plyTrigs_lthickness (plies : List (LPly K)) (ts : List (K × Trig K)) (h : plyTrigs plies = some ts) :
    lthickness plies = tsum ts ∧ (plies.isEmpty = true → ts = []) := by
  induction plies generalizing ts with
  | nil =>
    simp only [plyTrigs, Option.some.injEq] at h
    subst h
    simp only [lthickness, List.map_nil, List.sum_nil, tsum_nil, List.isEmpty_nil, imp_self, and_self]
  | cons p ps ih =>
    simp only [plyTrigs] at h
    cases hp : p.trig with
    | none => simp only [hp] at h; exact absurd h (by simp)
    | some g =>
      cases hr : plyTrigs ps with
      | none => simp only [hp, hr] at h; exact absurd h (by simp)
      | some r =>
        simp only [hp, hr, Option.some.injEq] at h
        subst h
        have := (ih r hr).1
        simp only [lthickness, List.map_cons, List.sum_cons] at this ⊢
        simp only [tsum_cons, this, List.isEmpty_cons, Bool.false_eq_true, false_imp_iff, and_self]

theorem calcLaminationParameters_eq [DecidableEq K] [CharZero K] (L : Lam K) (ts : List (K × Trig K))
    (hts : plyTrigs L.plies = some ts) (hT : tsum ts ≠ 0) :
    L.calcLaminationParameters =
      ({ L with
          t := some (tsum ts)
          xiA := some (Xi.setX0 1 (Xi.smul (1 / tsum ts) (xsum wA (-(tsum ts) / 2 + L.offset) ts)))
          xiB := some (Xi.setX0 0 (Xi.smul (4 / tsum ts ^ 2) (xsum wB (-(tsum ts) / 2 + L.offset) ts)))
          xiD := some (Xi.setX0 1 (Xi.smul (12 / tsum ts ^ 3) (xsum wD (-(tsum ts) / 2 + L.offset) ts)))
          xiE := some (Xi.setX0 1 (Xi.smul (1 / tsum ts) (xsum wA (-(tsum ts) / 2 + L.offset) ts))) }, none) := by
  obtain ⟨hth, hemp⟩ := plyTrigs_lthickness L.plies ts hts
  have hne : L.plies.isEmpty = false := by
    cases he : L.plies.isEmpty with
    | false => rfl
    | true => exact absurd (by rw [hemp he, tsum_nil]) hT
  simp only [Lam.calcLaminationParameters, hne, Bool.false_eq_true, if_false, hth, hT, hts, foldl_lpStep,
    Xi4.axpy, Xi4.zero, zero_add, Xi.setX0, Xi.smul]

/-! ## Round trip: stack → lamination parameters → matrices -/

theorem xi_roundtrip_A [CharZero K] (ts : List (K × Trig K)) (h : K) (hT : tsum ts ≠ 0) :
    Xi.smul (tsum ts) (Xi.setX0 1 (Xi.smul (1 / tsum ts) (xsum wA h ts))) = xsum wA h ts := by
  ext <;> simp only [Xi.smul, Xi.setX0]
  · rw [xsum_wA_x0]; ring
  all_goals field_simp

theorem xi_roundtrip_B [CharZero K] (ts : List (K × Trig K)) (d : K) (hT : tsum ts ≠ 0) :
    Xi.smul (tsum ts ^ 2 / 4) (Xi.setX0 0 (Xi.smul (4 / tsum ts ^ 2) (xsum wB (-(tsum ts) / 2 + d) ts))) =
      (xsum wB (-(tsum ts) / 2 + d) ts).add (Xi.smul (-(d * tsum ts)) ⟨1, 0, 0, 0, 0⟩) := by
  ext <;> simp only [Xi.smul, Xi.setX0, Xi.add, mul_zero, add_zero]
  · rw [xsum_wB_x0]; ring
  all_goals field_simp

theorem xi_roundtrip_D [CharZero K] (ts : List (K × Trig K)) (d : K) (hT : tsum ts ≠ 0) :
    Xi.smul (tsum ts ^ 3 / 12) (Xi.setX0 1 (Xi.smul (12 / tsum ts ^ 3) (xsum wD (-(tsum ts) / 2 + d) ts))) =
      (xsum wD (-(tsum ts) / 2 + d) ts).add (Xi.smul (-(d ^ 2 * tsum ts)) ⟨1, 0, 0, 0, 0⟩) := by
  ext <;> simp only [Xi.smul, Xi.setX0, Xi.add, mul_zero, add_zero]
  · rw [xsum_wD_x0]; ring
  all_goals field_simp

/-- the `(t, trig)` list of plies built by `mkLPly` -/
def tsOfCst (cst : List (K × K × K)) : List (K × Trig K) := cst.map fun x => (x.2.2, trigOf x.1 x.2.1)

theorem plyTrigs_mkLPly (m : MatProps K) (cst : List (K × K × K)) :
    plyTrigs (cst.map (mkLPly m)) = some (tsOfCst cst) := by
  induction cst with
  | nil => rfl
  | cons x xs ih => simp only [List.map_cons, plyTrigs, mkLPly, ih, tsOfCst]

theorem toPly_mkLPly [CharZero K] (m : MatProps K) (cst : List (K × K × K))
    (hcs : ∀ x ∈ cst, x.1 ^ 2 + x.2.1 ^ 2 = 1) :
    (cst.map (mkLPly m)).map LPly.toPly = pliesOf (planeInvariants (planeStressQ m)) (tsOfCst cst) := by
  simp only [pliesOf, tsOfCst, List.map_map]
  apply List.map_congr_left
  intro x hx
  simp only [Function.comp_def, LPly.toPly, mkLPly, rotQ_eq_planeInvariants _ _ _ (hcs x hx)]

/-- The lamination-parameter route on ANY object whose plies carry the four attributes (whatever their `QL`), any
material `m` in `lam.matobj`: what `calc_lamination_parameters` followed by `calc_ABDE_from_lamination_parameters`
reports, in terms of the through-thickness sums of `(1, cos 2θ, …)`. -/
theorem lp_route [DecidableEq K] [CharZero K] (L : Lam K) (m : MatProps K) (ts : List (K × Trig K))
    (hts : plyTrigs L.plies = some ts) (hT : tsum ts ≠ 0) (hm : L.matobj = some m)
    (QA QB QD : Q9 K)
    (hQA : QA = lpFormula (invariants m) (xsum wA (-(tsum ts) / 2 + L.offset) ts))
    (hQB : QB = lpFormula (invariants m) ((xsum wB (-(tsum ts) / 2 + L.offset) ts).add
      (Xi.smul (-(L.offset * tsum ts)) ⟨1, 0, 0, 0, 0⟩)))
    (hQD : QD = lpFormula (invariants m) ((xsum wD (-(tsum ts) / 2 + L.offset) ts).add
      (Xi.smul (-(L.offset ^ 2 * tsum ts)) ⟨1, 0, 0, 0, 0⟩))) :
    L.calcLaminationParameters.2 = none ∧ L.calcLaminationParameters.1.calcABDEFromLP.2 = none ∧
    L.calcLaminationParameters.1.calcABDEFromLP.1.t = some (tsum ts) ∧
    L.calcLaminationParameters.1.calcABDEFromLP.1.A = some (sym3 QA) ∧
    L.calcLaminationParameters.1.calcABDEFromLP.1.B = some (sym3 QB) ∧
    L.calcLaminationParameters.1.calcABDEFromLP.1.D = some (sym3 QD) ∧
    L.calcLaminationParameters.1.calcABDEFromLP.1.E = some (shearSwapped QA) ∧
    L.calcLaminationParameters.1.calcABDEFromLP.1.ABD = some (block6 (sym3 QA) (sym3 QB) (sym3 QB) (sym3 QD)) ∧
    L.calcLaminationParameters.1.calcABDEFromLP.1.ABDE =
      some (block8 (block6 (sym3 QA) (sym3 QB) (sym3 QB) (sym3 QD)) (shearSwapped QA)) := by
  have h1 := calcLaminationParameters_eq L ts hts hT
  generalize L.calcLaminationParameters = R at h1 ⊢
  obtain ⟨L1, e1⟩ := R
  simp only [Prod.mk.injEq] at h1
  obtain ⟨hL1, he1⟩ := h1
  have hm1 : L1.matobj = some m := by rw [hL1]; exact hm
  have ht1 : L1.t = some (tsum ts) := by rw [hL1]
  have hA1 : L1.xiA = some (Xi.setX0 1 (Xi.smul (1 / tsum ts) (xsum wA (-(tsum ts) / 2 + L.offset) ts))) := by
    rw [hL1]
  have hB1 : L1.xiB = some (Xi.setX0 0 (Xi.smul (4 / tsum ts ^ 2) (xsum wB (-(tsum ts) / 2 + L.offset) ts))) := by
    rw [hL1]
  have hD1 : L1.xiD = some (Xi.setX0 1 (Xi.smul (12 / tsum ts ^ 3) (xsum wD (-(tsum ts) / 2 + L.offset) ts))) := by
    rw [hL1]
  have hE1 : L1.xiE = some (Xi.setX0 1 (Xi.smul (1 / tsum ts) (xsum wA (-(tsum ts) / 2 + L.offset) ts))) := by
    rw [hL1]
  rw [calcABDEFromLP_eq L1 m _ _ _ _ _ hm1 ht1 hA1 hB1 hD1 hE1]
  simp only [xi_roundtrip_A ts _ hT, xi_roundtrip_B ts _ hT, xi_roundtrip_D ts _ hT, ← hQA, ← hQB, ← hQD, he1,
    ht1, and_self]

/-! ### the stack side -/

theorem sub3_gen5 (q : Q9 K) : sub3 (gen5 q) = sym3 q := by
  funext i j
  fin_cases i <;> fin_cases j <;> rfl

theorem sub2_gen5 (q : Q9 K) : sub2 (gen5 q) = shearBlock q := by
  funext i j
  fin_cases i <;> fin_cases j <;> rfl

theorem thickness_toPly (plies : List (LPly K)) : thickness (plies.map LPly.toPly) = lthickness plies := by
  simp only [thickness, lthickness, List.map_map, Function.comp_def, LPly.toPly]

/-- What `calc_constitutive_matrix` reports, in the vocabulary of the theorems. -/
theorem calcConstitutiveMatrix_fields (L : Lam K) :
    let S := abd (L.plies.map LPly.toPly) L.offset
    L.calcConstitutiveMatrix.t = some (lthickness L.plies) ∧
    L.calcConstitutiveMatrix.A = some (sym3 S.A) ∧ L.calcConstitutiveMatrix.B = some (sym3 S.B) ∧
    L.calcConstitutiveMatrix.D = some (sym3 S.D) ∧ L.calcConstitutiveMatrix.E = some (shearBlock S.A) ∧
    L.calcConstitutiveMatrix.ABD = some (block6 (sym3 S.A) (sym3 S.B) (sym3 S.B) (sym3 S.D)) ∧
    L.calcConstitutiveMatrix.ABDE =
      some (block8 (block6 (sym3 S.A) (sym3 S.B) (sym3 S.B) (sym3 S.D)) (shearBlock S.A)) := by
  simp only [Lam.calcConstitutiveMatrix, sub3_gen5, sub2_gen5, thickness_toPly, and_self]

theorem abd_pliesOf (u : Invariants K) (ts : List (K × Trig K)) (d : K) :
    (abd (pliesOf u ts) d).A = lpFormula u (xsum wA (-(tsum ts) / 2 + d) ts) ∧
    (abd (pliesOf u ts) d).B = lpFormula u (xsum wB (-(tsum ts) / 2 + d) ts) ∧
    (abd (pliesOf u ts) d).D = lpFormula u (xsum wD (-(tsum ts) / 2 + d) ts) := by
  simp only [abd_A, abd_B, abd_D, wsum_pliesOf, thickness_pliesOf, and_self]

theorem gamma0_q11 (u : Invariants K) : (gamma0 u).q11 = u.u1 := by
  simp only [gamma0, lpFormula]; ring

/-- `lp_roundtrip_offset_partial`, statement as in `Props/C01.lean`. -/
theorem lp_roundtrip_offset_partial_aux [DecidableEq K] [CharZero K] (m : MatProps K) (cst : List (K × K × K))
    (L : Lam K) (he1 : m.e1 ≠ 0) (h31 : m.nu31 = 0) (h32 : m.nu32 = 0)
    (hcs : ∀ x ∈ cst, x.1 ^ 2 + x.2.1 ^ 2 = 1)
    (hplies : L.plies = cst.map (mkLPly m)) (hT : lthickness L.plies ≠ 0) (hm : L.matobj = some m) :
    let S := abd (L.plies.map LPly.toPly) L.offset
    let R := L.calcLaminationParameters.1.calcABDEFromLP.1
    let QB := S.B.add (Q9.smul (-(L.offset * lthickness L.plies)) (gamma0 (invariants m)))
    let QD := S.D.add (Q9.smul (-(L.offset ^ 2 * lthickness L.plies)) (gamma0 (invariants m)))
    L.calcLaminationParameters.2 = none ∧ L.calcLaminationParameters.1.calcABDEFromLP.2 = none ∧
    R.t = some (lthickness L.plies) ∧
    R.A = some (sym3 S.A) ∧ R.B = some (sym3 QB) ∧ R.D = some (sym3 QD) ∧ R.E = some (shearSwapped S.A) ∧
    R.ABD = some (block6 (sym3 S.A) (sym3 QB) (sym3 QB) (sym3 QD)) ∧
    R.ABDE = some (block8 (block6 (sym3 S.A) (sym3 QB) (sym3 QB) (sym3 QD)) (shearSwapped S.A)) := by
  intro S R QB QD
  have hts : plyTrigs L.plies = some (tsOfCst cst) := by rw [hplies]; exact plyTrigs_mkLPly m cst
  have hth : lthickness L.plies = tsum (tsOfCst cst) := (plyTrigs_lthickness _ _ hts).1
  have hT' : tsum (tsOfCst cst) ≠ 0 := by rw [← hth]; exact hT
  have hu : invariants m = planeInvariants (planeStressQ m) := invariants_eq_planeInvariants m he1 h31 h32
  have hS : L.plies.map LPly.toPly = pliesOf (invariants m) (tsOfCst cst) := by
    rw [hplies, hu]; exact toPly_mkLPly m cst hcs
  obtain ⟨hA, hB, hD⟩ := abd_pliesOf (invariants m) (tsOfCst cst) L.offset
  rw [← hS] at hA hB hD
  have := lp_route L m (tsOfCst cst) hts hT' hm S.A QB QD hA
    (by simp only [QB, S, hB, hth, lpFormula_add, lpFormula_smul, gamma0])
    (by simp only [QD, S, hD, hth, lpFormula_add, lpFormula_smul, gamma0])
  rw [← hth] at this
  exact this

/-! ## `force_orthotropic`, `force_symmetric` -/

theorem zeroAt_orthoPos3 (A : Mat 3 K) :
    zeroAt orthoPos3 A = fun i j => if shearCoupling i j then 0 else A i j := by
  funext i j
  fin_cases i <;> fin_cases j <;> simp [zeroAt, orthoPos3, shearCoupling]

theorem zeroAt_orthoPos6 (M : Mat 6 K) :
    zeroAt orthoPos6 M = fun i j => if shearCoupling i j then 0 else M i j := by
  funext i j
  fin_cases i <;> fin_cases j <;> simp [zeroAt, orthoPos6, shearCoupling]

theorem zeroAt_orthoPos6_8 (M : Mat 8 K) :
    zeroAt orthoPos6 M = fun i j => if i.val < 6 ∧ j.val < 6 ∧ shearCoupling i j then 0 else M i j := by
  funext i j
  fin_cases i <;> fin_cases j <;> simp [zeroAt, orthoPos6, shearCoupling]

theorem force_orthotropic_spec_aux [DecidableEq K] (L : Lam K) (A B D : Mat 3 K) (M : Mat 6 K) (M8 : Mat 8 K)
    (hoff : L.offset = 0) (hA : L.A = some A) (hB : L.B = some B) (hD : L.D = some D)
    (hM : L.ABD = some M) (hM8 : L.ABDE = some M8) :
    L.forceOrthotropic.2 = none ∧
    L.forceOrthotropic.1.A = some (fun i j => if shearCoupling i j then 0 else A i j) ∧
    L.forceOrthotropic.1.B = some (fun i j => if shearCoupling i j then 0 else B i j) ∧
    L.forceOrthotropic.1.D = some (fun i j => if shearCoupling i j then 0 else D i j) ∧
    L.forceOrthotropic.1.ABD = some (fun i j => if shearCoupling i j then 0 else M i j) ∧
    L.forceOrthotropic.1.ABDE =
      some (fun i j => if i.val < 6 ∧ j.val < 6 ∧ shearCoupling i j then 0 else M8 i j) ∧
    L.forceOrthotropic.1.E = L.E ∧ L.forceOrthotropic.1.t = L.t ∧ L.forceOrthotropic.1.offset = L.offset ∧
    L.forceOrthotropic.1.xiA = L.xiA ∧ L.forceOrthotropic.1.xiB = L.xiB ∧ L.forceOrthotropic.1.xiD = L.xiD ∧
    L.forceOrthotropic.1.xiE = L.xiE ∧ L.forceOrthotropic.1.plies = L.plies ∧
    L.forceOrthotropic.1.matobj = L.matobj := by
  simp only [Lam.forceOrthotropic, hoff, ne_eq, not_true_eq_false, if_false, hA, hB, hD, hM, hM8,
    zeroAt_orthoPos3, zeroAt_orthoPos6, zeroAt_orthoPos6_8, and_self]

theorem force_orthotropic_offset_aux [DecidableEq K] (L : Lam K) (hoff : L.offset ≠ 0) :
    L.forceOrthotropic = (L, some .runtimeError) := by
  simp only [Lam.forceOrthotropic, hoff, ne_eq, not_false_eq_true, if_true]

/-- zeroing the coupling entries block by block is zeroing them in the assembled 6×6 matrix -/
theorem dropShearCoupling_block6 (A B C D : Mat 3 K) :
    (fun i j => if shearCoupling i j then 0 else block6 A B C D i j) =
      block6 (fun i j => if shearCoupling i j then 0 else A i j) (fun i j => if shearCoupling i j then 0 else B i j)
        (fun i j => if shearCoupling i j then 0 else C i j) (fun i j => if shearCoupling i j then 0 else D i j) := by
  funext i j
  fin_cases i <;> fin_cases j <;> simp [block6, shearCoupling]

theorem dropShearCoupling_block8 (M : Mat 6 K) (E : Mat 2 K) :
    (fun i j => if i.val < 6 ∧ j.val < 6 ∧ shearCoupling i j then 0 else block8 M E i j) =
      block8 (fun i j => if shearCoupling i j then 0 else M i j) E := by
  funext i j
  fin_cases i <;> fin_cases j <;> simp [block8, shearCoupling]

omit [Field K] in
theorem shearCoupling_comm {n : Nat} (i j : Fin n) : shearCoupling i j ↔ shearCoupling j i := by
  simp only [shearCoupling, ne_eq, eq_iff_iff]
  constructor <;> intro h h' <;> exact h h'.symm

theorem dropShearCoupling_symm {n : Nat} (M : Mat n K) (h : ∀ i j, M i j = M j i) (i j : Fin n) :
    (if shearCoupling i j then 0 else M i j) = (if shearCoupling j i then 0 else M j i) := by
  by_cases hc : shearCoupling i j
  · rw [if_pos hc, if_pos ((shearCoupling_comm i j).1 hc)]
  · rw [if_neg hc, if_neg (fun h' => hc ((shearCoupling_comm j i).1 h')), h]

/-! ### positive definiteness survives -/

theorem qform6_expand (M : Mat 6 K) (x : Fin 6 → K) :
    qform6 M x = ∑ i, ∑ j, x i * M i j * x j := by
  simp only [qform6, dotProduct, Matrix.mulVec, Finset.mul_sum, mul_assoc]

/-- Zeroing the direct–shear couplings is averaging the matrix with its mirror image `S M S`,
`S = diag(1,1,-1,1,1,-1)` (the laminate with every angle mirrored). -/
theorem qform6_dropShearCoupling (M : Mat 6 ℝ) (x : Fin 6 → ℝ) :
    qform6 (fun i j => if shearCoupling i j then 0 else M i j) x =
      (qform6 M x + qform6 M (fun i => if i.val % 3 = 2 then -x i else x i)) / 2 := by
  simp only [qform6_expand, Fin.sum_univ_six]
  simp [shearCoupling]
  ring

theorem force_orthotropic_posdef_aux (M : Mat 6 ℝ) (h : PosDef6 M) :
    PosDef6 (fun i j => if shearCoupling i j then 0 else M i j) := by
  intro x hx
  rw [qform6_dropShearCoupling]
  have hy : (fun i : Fin 6 => if i.val % 3 = 2 then -x i else x i) ≠ 0 := by
    intro h0
    apply hx
    funext i
    have := congrFun h0 i
    simp only [Pi.zero_apply] at this ⊢
    split_ifs at this with hi
    · linarith
    · exact this
  have h1 := h x hx
  have h2 := h _ hy
  linarith

/-- Zeroing the extension–bending coupling blocks is averaging with `S M S`, `S = diag(1,1,1,-1,-1,-1)`. -/
theorem qform6_zeroCoupling (M : Mat 6 ℝ) (x : Fin 6 → ℝ) :
    qform6 (zeroCoupling M) x =
      (qform6 M x + qform6 M (fun i => if i.val < 3 then x i else -x i)) / 2 := by
  simp only [qform6_expand, Fin.sum_univ_six]
  simp [zeroCoupling]
  ring

theorem force_symmetric_posdef_aux (M : Mat 6 ℝ) (h : PosDef6 M) : PosDef6 (zeroCoupling M) := by
  intro x hx
  rw [qform6_zeroCoupling]
  have hy : (fun i : Fin 6 => if i.val < 3 then x i else -x i) ≠ 0 := by
    intro h0
    apply hx
    funext i
    have := congrFun h0 i
    simp only [Pi.zero_apply] at this ⊢
    split_ifs at this with hi
    · exact this
    · linarith
  have h1 := h x hx
  have h2 := h _ hy
  linarith

theorem block6_sym3_eq_abdMatrix (a : Acc K) :
    block6 (sym3 a.A) (sym3 a.B) (sym3 a.B) (sym3 a.D) = (abdMatrix a : Fin 6 → Fin 6 → K) := by
  funext i j
  fin_cases i <;> fin_cases j <;> rfl

/-- `abd_posdef` in the vocabulary of the object model. -/
theorem posDef6_abd (ps : List (PlyIn ℝ)) (ms : List (MatProps ℝ)) (plies : List (Ply ℝ)) (offset : ℝ)
    (hne : ps ≠ []) (hlen : ms.length = ps.length)
    (hplies : plies = (List.zip ps ms).map fun pm => ⟨pm.1.t, rotQ pm.1.c pm.1.s (planeStressQ pm.2)⟩)
    (hadm : ∀ m ∈ ms, Admissible m) (hcs : ∀ p ∈ ps, p.c ^ 2 + p.s ^ 2 = 1 ∧ 0 < p.t) :
    PosDef6 (block6 (sym3 (abd plies offset).A) (sym3 (abd plies offset).B) (sym3 (abd plies offset).B)
      (sym3 (abd plies offset).D)) := by
  intro x hx
  rw [block6_sym3_eq_abdMatrix]
  have hxv : x = ![(⟨x 0, x 1, x 2⟩ : V3 ℝ).x, (⟨x 0, x 1, x 2⟩ : V3 ℝ).y, (⟨x 0, x 1, x 2⟩ : V3 ℝ).g,
      (⟨x 3, x 4, x 5⟩ : V3 ℝ).x, (⟨x 3, x 4, x 5⟩ : V3 ℝ).y, (⟨x 3, x 4, x 5⟩ : V3 ℝ).g] := by
    funext i
    fin_cases i <;> rfl
  have hq : qform6 (abdMatrix (abd plies offset)) x = quadABD (abd plies offset) ⟨x 0, x 1, x 2⟩ ⟨x 3, x 4, x 5⟩ := by
    rw [quadABD_eq_matrix_aux, ← hxv]; rfl
  rw [hq]
  apply abd_posdef_aux ps ms plies offset hne hlen hplies hadm hcs
  by_contra hall
  apply hx
  funext i
  simp only [not_or, not_not] at hall
  obtain ⟨h0, h1, h2, h3, h4, h5⟩ := hall
  fin_cases i <;> simp only [Pi.zero_apply] <;> assumption

theorem force_orthotropic_posdef_stack_aux (L : Lam ℝ) (ps : List (PlyIn ℝ)) (ms : List (MatProps ℝ))
    (hoff : L.offset = 0) (hne : ps ≠ []) (hlen : ms.length = ps.length)
    (hplies : L.plies.map LPly.toPly =
      (List.zip ps ms).map fun pm => ⟨pm.1.t, rotQ pm.1.c pm.1.s (planeStressQ pm.2)⟩)
    (hadm : ∀ m ∈ ms, Admissible m) (hcs : ∀ p ∈ ps, p.c ^ 2 + p.s ^ 2 = 1 ∧ 0 < p.t) :
    L.calcConstitutiveMatrix.forceOrthotropic.2 = none ∧
    ∃ M, L.calcConstitutiveMatrix.forceOrthotropic.1.ABD = some M ∧ PosDef6 M ∧ ∀ i j, M i j = M j i := by
  obtain ⟨_, hA, hB, hD, _, hM, hM8⟩ := calcConstitutiveMatrix_fields L
  have hoff' : L.calcConstitutiveMatrix.offset = 0 := hoff
  obtain ⟨he, _, _, _, hR, _⟩ := force_orthotropic_spec_aux L.calcConstitutiveMatrix _ _ _ _ _ hoff' hA hB hD hM hM8
  refine ⟨he, _, hR, ?_, ?_⟩
  · apply force_orthotropic_posdef_aux
    exact posDef6_abd ps ms _ L.offset hne hlen hplies hadm hcs
  · intro i j
    apply dropShearCoupling_symm
    intro i j
    rw [block6_sym3_eq_abdMatrix]
    exact (abdMatrix_symm _).apply j i

/-! ### `force_symmetric` -/

theorem zeroCoupling_block6 (A B C D : Mat 3 K) :
    zeroCoupling (block6 A B C D) = block6 A (fun _ _ => 0) (fun _ _ => 0) D := by
  funext i j
  fin_cases i <;> fin_cases j <;> simp [zeroCoupling, block6]

theorem zeroCoupling_block8 (M : Mat 6 K) (E : Mat 2 K) :
    zeroCoupling (block8 M E) = block8 (zeroCoupling M) E := by
  funext i j
  fin_cases i <;> fin_cases j <;> simp [zeroCoupling, block8]

theorem force_symmetric_spec_aux [DecidableEq K] (L : Lam K) (A B C D : Mat 3 K) (E : Mat 2 K)
    (hoff : L.offset = 0) (hM : L.ABD = some (block6 A B C D))
    (hM8 : L.ABDE = some (block8 (block6 A B C D) E)) :
    L.forceSymmetric.2 = none ∧
    L.forceSymmetric.1.B = some (fun _ _ => 0) ∧
    L.forceSymmetric.1.ABD = some (block6 A (fun _ _ => 0) (fun _ _ => 0) D) ∧
    L.forceSymmetric.1.ABDE = some (block8 (block6 A (fun _ _ => 0) (fun _ _ => 0) D) E) ∧
    L.forceSymmetric.1.A = L.A ∧ L.forceSymmetric.1.D = L.D ∧ L.forceSymmetric.1.E = L.E ∧
    L.forceSymmetric.1.t = L.t ∧ L.forceSymmetric.1.BG = L.BG := by
  simp only [Lam.forceSymmetric, hoff, ne_eq, not_true_eq_false, if_false, hM, hM8, zeroCoupling_block8,
    zeroCoupling_block6, and_self]

theorem force_symmetric_offset_aux [DecidableEq K] (L : Lam K) (hoff : L.offset ≠ 0) :
    L.forceSymmetric = (L, some .runtimeError) := by
  simp only [Lam.forceSymmetric, hoff, ne_eq, not_false_eq_true, if_true]

theorem sym3_zero : sym3 (Q9.zero : Q9 K) = fun _ _ => 0 := by
  funext i j
  fin_cases i <;> fin_cases j <;> rfl

/-- On a mid-plane-symmetric stack without offset `force_symmetric` changes none of the reported matrices. -/
theorem force_symmetric_noop_aux [DecidableEq K] [CharZero K] (L : Lam K) (hoff : L.offset = 0)
    (hsym : (L.plies.map LPly.toPly).reverse = L.plies.map LPly.toPly) :
    L.calcConstitutiveMatrix.forceSymmetric.2 = none ∧
    L.calcConstitutiveMatrix.forceSymmetric.1.A = L.calcConstitutiveMatrix.A ∧
    L.calcConstitutiveMatrix.forceSymmetric.1.B = L.calcConstitutiveMatrix.B ∧
    L.calcConstitutiveMatrix.forceSymmetric.1.D = L.calcConstitutiveMatrix.D ∧
    L.calcConstitutiveMatrix.forceSymmetric.1.E = L.calcConstitutiveMatrix.E ∧
    L.calcConstitutiveMatrix.forceSymmetric.1.ABD = L.calcConstitutiveMatrix.ABD ∧
    L.calcConstitutiveMatrix.forceSymmetric.1.ABDE = L.calcConstitutiveMatrix.ABDE := by
  obtain ⟨_, hA, hB, hD, hE, hM, hM8⟩ := calcConstitutiveMatrix_fields L
  have hoff' : L.calcConstitutiveMatrix.offset = 0 := hoff
  have hB0 : (abd (L.plies.map LPly.toPly) L.offset).B = Q9.zero := by
    rw [hoff]; exact symmetric_stack_B_zero_aux _ hsym
  rw [hB0, sym3_zero] at hB hM hM8
  obtain ⟨h1, h2, h3, h4, h5, h6, h7, _⟩ := force_symmetric_spec_aux L.calcConstitutiveMatrix _ _ _ _ _ hoff' hM hM8
  exact ⟨h1, h5, by rw [h2, hB], h6, h7, by rw [h3, hM], by rw [h4, hM8]⟩

/-! ## `force_balanced_LP`, `force_symmetric_LP` -/

theorem force_balanced_LP_spec_aux (L : Lam K) (m : MatProps K) (t : K) (x xiB xiD xiE : Xi K)
    (hm : L.matobj = some m) (ht : L.t = some t) (hA : L.xiA = some x) (hB : L.xiB = some xiB)
    (hD : L.xiD = some xiD) (hE : L.xiE = some xiE) :
    let Q := lpFormula (invariants m) (Xi.smul t ⟨1, x.x1, 0, x.x3, 0⟩)
    let Q0 := lpFormula (invariants m) (Xi.smul t x)
    L.forceBalancedLP.2 = none ∧ L.forceBalancedLP.1.xiA = some ⟨1, x.x1, 0, x.x3, 0⟩ ∧
    L.forceBalancedLP.1.A = some (sym3 Q) ∧ Q.q16 = 0 ∧ Q.q26 = 0 ∧
    (x.x0 = 1 → Q.q11 = Q0.q11 ∧ Q.q12 = Q0.q12 ∧ Q.q22 = Q0.q22 ∧ Q.q66 = Q0.q66) ∧
    L.forceBalancedLP.1.B = L.calcABDEFromLP.1.B ∧ L.forceBalancedLP.1.D = L.calcABDEFromLP.1.D ∧
    L.forceBalancedLP.1.E = L.calcABDEFromLP.1.E ∧
    L.forceBalancedLP.1.ABD = some (block6 (sym3 Q) (sym3 (lpFormula (invariants m) (Xi.smul (t ^ 2 / 4) xiB)))
      (sym3 (lpFormula (invariants m) (Xi.smul (t ^ 2 / 4) xiB)))
      (sym3 (lpFormula (invariants m) (Xi.smul (t ^ 3 / 12) xiD)))) := by
  intro Q Q0
  have h1 := calcABDEFromLP_eq ({ L with xiA := some ⟨1, x.x1, 0, x.x3, 0⟩ }) m t _ xiB xiD xiE hm ht rfl hB hD hE
  have h0 := calcABDEFromLP_eq L m t x xiB xiD xiE hm ht hA hB hD hE
  have e : L.forceBalancedLP = ({ L with xiA := some ⟨1, x.x1, 0, x.x3, 0⟩ } : Lam K).calcABDEFromLP := by
    simp only [Lam.forceBalancedLP, hA]
  have hq16 : Q.q16 = 0 := by simp only [Q, lpFormula, Xi.smul]; ring
  have hq26 : Q.q26 = 0 := by simp only [Q, lpFormula, Xi.smul]; ring
  have hsame : x.x0 = 1 → Q.q11 = Q0.q11 ∧ Q.q12 = Q0.q12 ∧ Q.q22 = Q0.q22 ∧ Q.q66 = Q0.q66 := by
    intro hx0
    simp only [Q, Q0, lpFormula, Xi.smul, hx0, and_self]
  rw [e, h1, h0]
  exact ⟨rfl, rfl, rfl, hq16, hq26, hsame, rfl, rfl, rfl, rfl⟩

theorem lpFormula_smul_zero (u : Invariants K) (k : K) : lpFormula u (Xi.smul k ⟨0, 0, 0, 0, 0⟩) = Q9.zero := by
  ext <;> simp only [lpFormula, Xi.smul, Q9.zero] <;> ring

theorem force_symmetric_LP_spec_aux (L : Lam K) (m : MatProps K) (t : K) (xiA xiD xiE : Xi K)
    (hm : L.matobj = some m) (ht : L.t = some t) (hA : L.xiA = some xiA) (hD : L.xiD = some xiD)
    (hE : L.xiE = some xiE) :
    L.forceSymmetricLP.2 = none ∧ L.forceSymmetricLP.1.xiB = some ⟨0, 0, 0, 0, 0⟩ ∧
    L.forceSymmetricLP.1.B = some (fun _ _ => 0) ∧
    L.forceSymmetricLP.1.A = some (sym3 (lpFormula (invariants m) (Xi.smul t xiA))) ∧
    L.forceSymmetricLP.1.D = some (sym3 (lpFormula (invariants m) (Xi.smul (t ^ 3 / 12) xiD))) ∧
    L.forceSymmetricLP.1.E = some (shearSwapped (lpFormula (invariants m) (Xi.smul t xiE))) ∧
    L.forceSymmetricLP.1.ABD = some (block6 (sym3 (lpFormula (invariants m) (Xi.smul t xiA))) (fun _ _ => 0)
      (fun _ _ => 0) (sym3 (lpFormula (invariants m) (Xi.smul (t ^ 3 / 12) xiD)))) ∧
    L.forceSymmetricLP.1.ABDE = some (block8 (block6 (sym3 (lpFormula (invariants m) (Xi.smul t xiA)))
      (fun _ _ => 0) (fun _ _ => 0) (sym3 (lpFormula (invariants m) (Xi.smul (t ^ 3 / 12) xiD))))
      (shearSwapped (lpFormula (invariants m) (Xi.smul t xiE)))) := by
  have h1 := calcABDEFromLP_eq ({ L with xiB := some ⟨0, 0, 0, 0, 0⟩ }) m t xiA _ xiD xiE hm ht hA rfl hD hE
  simp only [Lam.forceSymmetricLP, h1, lpFormula_smul_zero, sym3_zero, and_self]

/-! ### balanced and symmetric stacks have the lamination parameters the two methods force -/

/-- the attributes of the ply at `-θ` -/
def mirrorT (p : K × Trig K) : K × Trig K := (p.1, ⟨p.2.cos2t, -p.2.sin2t, p.2.cos4t, -p.2.sin4t⟩)

theorem xsum_wA_indep (ts : List (K × Trig K)) (h h' : K) : xsum wA h ts = xsum wA h' ts := by
  induction ts generalizing h h' with
  | nil => rfl
  | cons p ps ih =>
    simp only [xsum, wA, ih (h + p.1) (h' + p.1)]
    congr 2 <;> ring

theorem xsum_wA_append (l l' : List (K × Trig K)) (h : K) :
    xsum wA h (l ++ l') = (xsum wA h l).add (xsum wA h l') := by
  induction l generalizing h with
  | nil => simp only [List.nil_append, xsum]; ext <;> simp only [Xi.add, Xi.zero, zero_add]
  | cons p ps ih =>
    simp only [List.cons_append, xsum, ih, xsum_wA_indep l' (h + p.1) h]
    ext <;> simp only [Xi.add] <;> ring

theorem xsum_wA_mirror (l : List (K × Trig K)) (h : K) :
    (xsum wA h (l.map mirrorT)).x2 = -(xsum wA h l).x2 ∧ (xsum wA h (l.map mirrorT)).x4 = -(xsum wA h l).x4 := by
  induction l generalizing h with
  | nil => simp only [List.map_nil, xsum, Xi.zero, neg_zero, and_self]
  | cons p ps ih =>
    obtain ⟨h2, h4⟩ := ih (h + p.1)
    simp only [List.map_cons, xsum, Xi.add, Xi.smul, Trig.toXi, mirrorT] at h2 h4 ⊢
    rw [h2, h4]
    constructor <;> ring

/-- A balanced stack (every ply accompanied by one of equal thickness at the opposite angle) has `xiA2 = xiA4 = 0`. -/
theorem balanced_stack_xiA_aux (l : List (K × Trig K)) (h : K) :
    (xsum wA h (l ++ l.map mirrorT)).x2 = 0 ∧ (xsum wA h (l ++ l.map mirrorT)).x4 = 0 := by
  obtain ⟨h2, h4⟩ := xsum_wA_mirror l h
  simp only [xsum_wA_append, Xi.add, h2, h4, add_neg_cancel, and_self]

theorem reverse_pliesOf (u : Invariants K) (ts : List (K × Trig K)) (h : ts.reverse = ts) :
    (pliesOf u ts).reverse = pliesOf u ts := by
  simp only [pliesOf, ← List.map_reverse, h]

/-- A mid-plane-symmetric stack without offset has `xiB = 0` (all five components of the weighted sum). -/
theorem symmetric_stack_xiB_aux [CharZero K] (ts : List (K × Trig K)) (h : ts.reverse = ts) :
    xsum wB (-(tsum ts) / 2 + 0) ts = Xi.zero := by
  have key : ∀ u : Invariants K, lpFormula u (xsum wB (-(tsum ts) / 2 + 0) ts) = Q9.zero := by
    intro u
    rw [← (abd_pliesOf u ts 0).2.1]
    exact symmetric_stack_B_zero_aux _ (reverse_pliesOf u ts h)
  have k1 := congrArg Q9.q11 (key ⟨1, 0, 0, 0, 0, 0, 0⟩)
  have k2 := congrArg Q9.q11 (key ⟨0, 1, 0, 0, 0, 0, 0⟩)
  have k3 := congrArg Q9.q11 (key ⟨0, 0, 1, 0, 0, 0, 0⟩)
  have k4 := congrArg Q9.q16 (key ⟨0, 0, 1, 0, 0, 0, 0⟩)
  have k5 := congrArg Q9.q45 (key ⟨0, 0, 0, 0, 0, 0, 1⟩)
  simp only [lpFormula, Q9.zero, zero_mul, one_mul, add_zero, zero_add, zero_div, neg_mul, neg_eq_zero] at k1 k2 k3 k4 k5
  ext <;> simp only [Xi.zero, add_zero] <;> assumption

theorem balanced_stack_calc_xiA_aux [DecidableEq K] [CharZero K] (L : Lam K) (l : List (K × Trig K))
    (hts : plyTrigs L.plies = some (l ++ l.map mirrorT)) (hT : lthickness L.plies ≠ 0) :
    ∃ x : Xi K, L.calcLaminationParameters.1.xiA = some x ∧ x.x0 = 1 ∧ x.x2 = 0 ∧ x.x4 = 0 ∧
      (⟨1, x.x1, 0, x.x3, 0⟩ : Xi K) = x := by
  have hth := (plyTrigs_lthickness _ _ hts).1
  rw [hth] at hT
  rw [calcLaminationParameters_eq L _ hts hT]
  obtain ⟨h2, h4⟩ := balanced_stack_xiA_aux l (-(tsum (l ++ l.map mirrorT)) / 2 + L.offset)
  refine ⟨_, rfl, rfl, ?_, ?_, ?_⟩
  · simp only [Xi.setX0, Xi.smul, h2, mul_zero]
  · simp only [Xi.setX0, Xi.smul, h4, mul_zero]
  · ext <;> simp only [Xi.setX0, Xi.smul, h2, h4, mul_zero]

theorem symmetric_stack_calc_xiB_aux [DecidableEq K] [CharZero K] (L : Lam K) (ts : List (K × Trig K))
    (hts : plyTrigs L.plies = some ts) (hsym : ts.reverse = ts) (hoff : L.offset = 0)
    (hT : lthickness L.plies ≠ 0) :
    L.calcLaminationParameters.1.xiB = some ⟨0, 0, 0, 0, 0⟩ := by
  have hth := (plyTrigs_lthickness _ _ hts).1
  rw [hth] at hT
  rw [calcLaminationParameters_eq L _ hts hT]
  simp only [hoff, symmetric_stack_xiB_aux ts hsym, Xi.setX0, Xi.smul, Xi.zero, mul_zero]

/-! ## `read_lamination_parameters` -/

theorem read_lamination_parameters_spec_aux (th : K) (lp : List K) (m : MatProps K) (a b d e : Xi4 K)
    (hlp : readLaminaprop lp = some m) :
    ∃ R : Lam K, readLaminationParameters th lp a b d e = some (R, none) ∧
      R.t = some th ∧ R.offset = 0 ∧ R.plies = [] ∧ R.matobj = some m ∧
      R.A = some (sym3 (lpFormula (invariants m) (Xi.smul th ⟨1, a.x1, a.x2, a.x3, a.x4⟩))) ∧
      R.B = some (sym3 (lpFormula (invariants m) (Xi.smul (th ^ 2 / 4) ⟨0, b.x1, b.x2, b.x3, b.x4⟩))) ∧
      R.D = some (sym3 (lpFormula (invariants m) (Xi.smul (th ^ 3 / 12) ⟨1, d.x1, d.x2, d.x3, d.x4⟩))) ∧
      R.E = some (shearSwapped (lpFormula (invariants m) (Xi.smul th ⟨1, e.x1, e.x2, e.x3, e.x4⟩))) ∧
      R.ABD = some (block6
        (sym3 (lpFormula (invariants m) (Xi.smul th ⟨1, a.x1, a.x2, a.x3, a.x4⟩)))
        (sym3 (lpFormula (invariants m) (Xi.smul (th ^ 2 / 4) ⟨0, b.x1, b.x2, b.x3, b.x4⟩)))
        (sym3 (lpFormula (invariants m) (Xi.smul (th ^ 2 / 4) ⟨0, b.x1, b.x2, b.x3, b.x4⟩)))
        (sym3 (lpFormula (invariants m) (Xi.smul (th ^ 3 / 12) ⟨1, d.x1, d.x2, d.x3, d.x4⟩)))) ∧
      R.ABDE = some (block8 (block6
        (sym3 (lpFormula (invariants m) (Xi.smul th ⟨1, a.x1, a.x2, a.x3, a.x4⟩)))
        (sym3 (lpFormula (invariants m) (Xi.smul (th ^ 2 / 4) ⟨0, b.x1, b.x2, b.x3, b.x4⟩)))
        (sym3 (lpFormula (invariants m) (Xi.smul (th ^ 2 / 4) ⟨0, b.x1, b.x2, b.x3, b.x4⟩)))
        (sym3 (lpFormula (invariants m) (Xi.smul (th ^ 3 / 12) ⟨1, d.x1, d.x2, d.x3, d.x4⟩))))
        (shearSwapped (lpFormula (invariants m) (Xi.smul th ⟨1, e.x1, e.x2, e.x3, e.x4⟩)))) := by
  have h1 := calcABDEFromLP_eq
    ({ (Lam.fresh : Lam K) with
        t := some th, matobj := some m
        xiA := some ⟨1, a.x1, a.x2, a.x3, a.x4⟩
        xiB := some ⟨0, b.x1, b.x2, b.x3, b.x4⟩
        xiD := some ⟨1, d.x1, d.x2, d.x3, d.x4⟩
        xiE := some ⟨1, e.x1, e.x2, e.x3, e.x4⟩ }) m th _ _ _ _ rfl rfl rfl rfl rfl rfl
  have e0 : readLaminationParameters th lp a b d e = some (Lam.calcABDEFromLP
      { (Lam.fresh : Lam K) with
        t := some th, matobj := some m
        xiA := some ⟨1, a.x1, a.x2, a.x3, a.x4⟩
        xiB := some ⟨0, b.x1, b.x2, b.x3, b.x4⟩
        xiD := some ⟨1, d.x1, d.x2, d.x3, d.x4⟩
        xiE := some ⟨1, e.x1, e.x2, e.x3, e.x4⟩ }) := by
    simp only [readLaminationParameters, hlp]
  rw [h1] at e0
  exact ⟨_, e0, rfl, rfl, rfl, rfl, rfl, rfl, rfl, rfl, rfl, rfl⟩

theorem Xi.add_smul_neg_zero_mul (a e : Xi K) (k : K) : a.add (Xi.smul (-(0 * k)) e) = a := by
  ext <;> simp only [Xi.add, Xi.smul] <;> ring

theorem Xi.add_smul_neg_zero_sq_mul (a e : Xi K) (k : K) : a.add (Xi.smul (-(0 ^ 2 * k)) e) = a := by
  ext <;> simp only [Xi.add, Xi.smul] <;> ring

/-- With the parameters `calc_lamination_parameters` computes for a single-material stack without offset,
`read_lamination_parameters` reports the `A, B, D, ABD` of `calc_constitutive_matrix` (and `E` with its two directions
exchanged). -/
theorem read_lamination_parameters_of_stack_aux [DecidableEq K] [CharZero K] (m : MatProps K) (lp : List K)
    (cst : List (K × K × K)) (L : Lam K) (hlp : readLaminaprop lp = some m)
    (he1 : m.e1 ≠ 0) (h31 : m.nu31 = 0) (h32 : m.nu32 = 0)
    (hcs : ∀ x ∈ cst, x.1 ^ 2 + x.2.1 ^ 2 = 1)
    (hplies : L.plies = cst.map (mkLPly m)) (hT : lthickness L.plies ≠ 0) (hoff : L.offset = 0)
    (xa xb xd xe : Xi K)
    (hxa : L.calcLaminationParameters.1.xiA = some xa) (hxb : L.calcLaminationParameters.1.xiB = some xb)
    (hxd : L.calcLaminationParameters.1.xiD = some xd) (hxe : L.calcLaminationParameters.1.xiE = some xe) :
    ∃ R : Lam K, readLaminationParameters (lthickness L.plies) lp ⟨xa.x1, xa.x2, xa.x3, xa.x4⟩
        ⟨xb.x1, xb.x2, xb.x3, xb.x4⟩ ⟨xd.x1, xd.x2, xd.x3, xd.x4⟩ ⟨xe.x1, xe.x2, xe.x3, xe.x4⟩ = some (R, none) ∧
      R.t = L.calcConstitutiveMatrix.t ∧ R.A = L.calcConstitutiveMatrix.A ∧ R.B = L.calcConstitutiveMatrix.B ∧
      R.D = L.calcConstitutiveMatrix.D ∧ R.ABD = L.calcConstitutiveMatrix.ABD ∧
      R.E = some (shearSwapped (abd (L.plies.map LPly.toPly) L.offset).A) := by
  have hts : plyTrigs L.plies = some (tsOfCst cst) := by rw [hplies]; exact plyTrigs_mkLPly m cst
  have hth : lthickness L.plies = tsum (tsOfCst cst) := (plyTrigs_lthickness _ _ hts).1
  have hT' : tsum (tsOfCst cst) ≠ 0 := by rw [← hth]; exact hT
  have hu : invariants m = planeInvariants (planeStressQ m) := invariants_eq_planeInvariants m he1 h31 h32
  have hS : L.plies.map LPly.toPly = pliesOf (invariants m) (tsOfCst cst) := by
    rw [hplies, hu]; exact toPly_mkLPly m cst hcs
  obtain ⟨hA, hB, hD⟩ := abd_pliesOf (invariants m) (tsOfCst cst) L.offset
  rw [← hS] at hA hB hD
  rw [calcLaminationParameters_eq L _ hts hT'] at hxa hxb hxd hxe
  simp only [Option.some.injEq] at hxa hxb hxd hxe
  obtain ⟨R, hR, ht, _, _, _, hRA, hRB, hRD, hRE, hRM, _⟩ :=
    read_lamination_parameters_spec_aux (lthickness L.plies) lp m ⟨xa.x1, xa.x2, xa.x3, xa.x4⟩
      ⟨xb.x1, xb.x2, xb.x3, xb.x4⟩ ⟨xd.x1, xd.x2, xd.x3, xd.x4⟩ ⟨xe.x1, xe.x2, xe.x3, xe.x4⟩ hlp
  obtain ⟨ct, cA, cB, cD, _, cM, _⟩ := calcConstitutiveMatrix_fields L
  have eA : lpFormula (invariants m) (Xi.smul (lthickness L.plies) ⟨1, xa.x1, xa.x2, xa.x3, xa.x4⟩) =
      (abd (L.plies.map LPly.toPly) L.offset).A := by
    rw [hA, ← hxa, hth]
    exact congrArg _ (xi_roundtrip_A _ _ hT')
  have eE : lpFormula (invariants m) (Xi.smul (lthickness L.plies) ⟨1, xe.x1, xe.x2, xe.x3, xe.x4⟩) =
      (abd (L.plies.map LPly.toPly) L.offset).A := by
    rw [hA, ← hxe, hth]
    exact congrArg _ (xi_roundtrip_A _ _ hT')
  have eB : lpFormula (invariants m) (Xi.smul (lthickness L.plies ^ 2 / 4) ⟨0, xb.x1, xb.x2, xb.x3, xb.x4⟩) =
      (abd (L.plies.map LPly.toPly) L.offset).B := by
    rw [hB, ← hxb, hth, hoff]
    have := xi_roundtrip_B (tsOfCst cst) 0 hT'
    rw [Xi.add_smul_neg_zero_mul] at this
    exact congrArg _ this
  have eD : lpFormula (invariants m) (Xi.smul (lthickness L.plies ^ 3 / 12) ⟨1, xd.x1, xd.x2, xd.x3, xd.x4⟩) =
      (abd (L.plies.map LPly.toPly) L.offset).D := by
    rw [hD, ← hxd, hth, hoff]
    have := xi_roundtrip_D (tsOfCst cst) 0 hT'
    rw [Xi.add_smul_neg_zero_sq_mul] at this
    exact congrArg _ this
  rw [eA] at hRA hRM
  rw [eB] at hRB hRM
  rw [eD] at hRD hRM
  rw [eE] at hRE
  exact ⟨R, hR, by rw [ht, ct], by rw [hRA, cA], by rw [hRB, cB], by rw [hRD, cD], by rw [hRM, cM], hRE⟩

/-! ## `calc_equivalent_modulus` -/

theorem equivalent_modulus_spec_aux (inv : Mat 6 K → Option (Mat 6 K)) (L : Lam K) (M AI : Mat 6 K) (t : K)
    (hM : L.ABD = some M) (hinv : inv M = some AI) (ht : L.t = some t) :
    (L.calcEquivalentModulus inv).2 = none ∧
    (L.calcEquivalentModulus inv).1.e1 = some (1 / (t * AI 0 0)) ∧
    (L.calcEquivalentModulus inv).1.e2 = some (1 / (t * AI 1 1)) ∧
    (L.calcEquivalentModulus inv).1.g12 = some (1 / (t * AI 2 2)) ∧
    (L.calcEquivalentModulus inv).1.nu12 = some (-AI 0 1 / AI 0 0) ∧
    (L.calcEquivalentModulus inv).1.nu21 = some (-AI 0 1 / AI 1 1) ∧
    (L.calcEquivalentModulus inv).1.A = L.A ∧ (L.calcEquivalentModulus inv).1.B = L.B ∧
    (L.calcEquivalentModulus inv).1.D = L.D ∧ (L.calcEquivalentModulus inv).1.E = L.E ∧
    (L.calcEquivalentModulus inv).1.ABD = L.ABD ∧ (L.calcEquivalentModulus inv).1.ABDE = L.ABDE := by
  simp only [Lam.calcEquivalentModulus, hM, hinv, ht, and_self]

/-- If the coupling blocks vanish, the upper-left 3×3 block of any right inverse of the 6×6 matrix is a right inverse
of `A`: the constants of `calc_equivalent_modulus` are then those of `(A/t)⁻¹`. -/
theorem inverse_block_of_uncoupled (A D : Mat 3 K) (AI : Mat 6 K)
    (h : Matrix.of (block6 A (fun _ _ => 0) (fun _ _ => 0) D) * Matrix.of AI = 1) :
    Matrix.of A * Matrix.of (fun (i j : Fin 3) => AI ⟨i.val, by omega⟩ ⟨j.val, by omega⟩) = 1 := by
  ext i j
  have key := congrFun (congrFun h ⟨i.val, by omega⟩) ⟨j.val, by omega⟩
  fin_cases i <;> fin_cases j <;>
    simpa [Matrix.mul_apply, Fin.sum_univ_six, Fin.sum_univ_three, block6, Matrix.one_apply] using key

theorem abd_single_ply [CharZero K] (t : K) (q : Q9 K) :
    (abd [⟨t, q⟩] 0).A = Q9.smul t q ∧ (abd [⟨t, q⟩] 0).B = Q9.zero ∧ (abd [⟨t, q⟩] 0).D = Q9.smul (t ^ 3 / 12) q := by
  refine ⟨?_, ?_, ?_⟩ <;> ext <;>
    simp only [abd, List.foldl_cons, List.foldl_nil, abdStep, thickness, List.map_cons, List.map_nil, List.sum_cons,
      List.sum_nil, Q9.add, Q9.smul, Q9.zero] <;> ring

/-- A single unrotated orthotropic ply, no offset: the constants of `calc_equivalent_modulus` are the ply's own. -/
theorem equivalent_modulus_single_ply_aux [CharZero K] (inv : Mat 6 K → Option (Mat 6 K)) (L : Lam K)
    (m : MatProps K) (t : K)
    (hplies : L.plies.map LPly.toPly = [⟨t, rotQ 1 0 (planeStressQ m)⟩]) (hoff : L.offset = 0)
    (ht : t ≠ 0) (he1 : m.e1 ≠ 0) (he2 : m.e2 ≠ 0) (hg : m.g12 ≠ 0) (hd : 1 - m.nu12 * m.nu21 ≠ 0)
    (M AI : Mat 6 K) (hM : L.calcConstitutiveMatrix.ABD = some M) (hinv : inv M = some AI)
    (hprod : Matrix.of M * Matrix.of AI = 1) :
    (L.calcConstitutiveMatrix.calcEquivalentModulus inv).2 = none ∧
    (L.calcConstitutiveMatrix.calcEquivalentModulus inv).1.e1 = some m.e1 ∧
    (L.calcConstitutiveMatrix.calcEquivalentModulus inv).1.e2 = some m.e2 ∧
    (L.calcConstitutiveMatrix.calcEquivalentModulus inv).1.g12 = some m.g12 ∧
    (L.calcConstitutiveMatrix.calcEquivalentModulus inv).1.nu12 = some m.nu12 ∧
    (L.calcConstitutiveMatrix.calcEquivalentModulus inv).1.nu21 = some m.nu21 := by
  obtain ⟨ct, _, _, _, _, cM, _⟩ := calcConstitutiveMatrix_fields L
  rw [hplies, hoff] at cM
  have hlt : lthickness L.plies = t := by
    rw [← thickness_toPly, hplies]; simp only [thickness, List.map_cons, List.map_nil, List.sum_cons, List.sum_nil, add_zero]
  rw [hlt] at ct
  obtain ⟨sA, sB, sD⟩ := abd_single_ply t (rotQ 1 0 (planeStressQ m))
  rw [sA, sB, sD, hM, Option.some.injEq] at cM
  obtain ⟨h0, h1, h2, h3, h4, h5, _⟩ := equivalent_modulus_spec_aux inv L.calcConstitutiveMatrix M AI t hM hinv ct
  subst cM
  have k00 := congrFun (congrFun hprod 0) 0
  have k10 := congrFun (congrFun hprod 1) 0
  have k01 := congrFun (congrFun hprod 0) 1
  have k11 := congrFun (congrFun hprod 1) 1
  have k22 := congrFun (congrFun hprod 2) 2
  simp [Matrix.mul_apply, Fin.sum_univ_six, block6, sym3, mat3, Q9.smul, Q9.zero, rotQ, planeStressQ] at k00 k10 k01 k11 k22
  have hdet : m.e1 - m.nu12 ^ 2 * m.e2 = m.e1 * (1 - m.nu12 * m.nu21) := by
    simp only [MatProps.nu21]; field_simp
  have hdet0 : m.e1 - m.nu12 ^ 2 * m.e2 ≠ 0 := by rw [hdet]; exact mul_ne_zero he1 hd
  have a00 : AI 0 0 = 1 / (t * m.e1) := by
    field_simp at k00 k10 ⊢
    have : t * m.e1 * AI 0 0 * (m.e1 - m.nu12 ^ 2 * m.e2) = (m.e1 - m.nu12 ^ 2 * m.e2) := by
      linear_combination (m.e1) * k00 - (m.e1 * m.nu12) * k10 - hdet
    exact mul_right_cancel₀ hdet0 (by linear_combination this)
  have a11 : AI 1 1 = 1 / (t * m.e2) := by
    field_simp at k01 k11 ⊢
    have : t * m.e2 * AI 1 1 * (m.e1 - m.nu12 ^ 2 * m.e2) = (m.e1 - m.nu12 ^ 2 * m.e2) := by
      linear_combination (m.e1) * k11 - (m.nu12 * m.e2) * k01 - hdet
    exact mul_right_cancel₀ hdet0 (by linear_combination this)
  have a01 : AI 0 1 = -m.nu12 / (t * m.e1) := by
    field_simp at k01 k11 ⊢
    have : t * m.e1 * AI 0 1 * (m.e1 - m.nu12 ^ 2 * m.e2) = -m.nu12 * (m.e1 - m.nu12 ^ 2 * m.e2) := by
      linear_combination (m.e1) * k01 - (m.e1 * m.nu12) * k11 + m.nu12 * hdet
    exact mul_right_cancel₀ hdet0 (by linear_combination this)
  have a22 : AI 2 2 = 1 / (t * m.g12) := by
    field_simp at k22 ⊢
    linear_combination k22
  refine ⟨h0, ?_, ?_, ?_, ?_, ?_⟩
  · rw [h1, a00]; congr 1; field_simp
  · rw [h2, a11]; congr 1; field_simp
  · rw [h3, a22]; congr 1; field_simp
  · rw [h4, a01, a00]; congr 1; field_simp
  · rw [h5, a01, a11]; congr 1; simp only [MatProps.nu21]; field_simp

/-! ## What the package's own plies do to `calc_lamination_parameters` -/

omit [Field K] in
theorem plyTrigs_none_of_no_trig (plies : List (LPly K)) (hne : plies ≠ []) (h : ∀ p ∈ plies, p.trig = none) :
    plyTrigs plies = none := by
  cases plies with
  | nil => exact absurd rfl hne
  | cons p ps => simp only [plyTrigs, h p List.mem_cons_self]

theorem calc_lamination_parameters_raises_aux [DecidableEq K] (L : Lam K) (hne : L.plies ≠ [])
    (hnone : ∀ p ∈ L.plies, p.trig = none) (hT : lthickness L.plies ≠ 0) :
    L.calcLaminationParameters = ({ L with t := some (lthickness L.plies) }, some .attributeError) := by
  have hemp : L.plies.isEmpty = false := by
    cases h : L.plies with
    | nil => exact absurd h hne
    | cons _ _ => rfl
  simp only [Lam.calcLaminationParameters, hemp, Bool.false_eq_true, if_false, hT,
    plyTrigs_none_of_no_trig L.plies hne hnone]

theorem readStackLam_no_trig [DecidableEq K] (cs : List (K × K)) (plyt : Option K) (laminaprop : Option (List K))
    (plyts : List K) (laminaprops : List (List K)) (offset : K) (L : Lam K)
    (h : readStackLam cs plyt laminaprop plyts laminaprops offset = .ok L) :
    (∀ p ∈ L.plies, p.trig = none) ∧ L.matobj = none ∧ L.offset = offset := by
  unfold readStackLam at h
  cases hp : readStackPlies cs plyt laminaprop plyts laminaprops with
  | error e => rw [hp] at h; exact absurd h (by simp)
  | ok plies =>
    rw [hp] at h
    simp only [Except.ok.injEq] at h
    subst h
    refine ⟨?_, rfl, rfl⟩
    intro p hpm
    simp only [Lam.calcConstitutiveMatrix, Lam.rebuild, List.mem_map] at hpm
    obtain ⟨q, _, rfl⟩ := hpm
    rfl

/-! ## Where the round trip fails -/

theorem sym3_apply_00 (q : Q9 K) : sym3 q 0 0 = q.q11 := rfl
theorem shearSwapped_apply_00 (q : Q9 K) : shearSwapped q 0 0 = q.q55 := rfl
theorem shearBlock_apply_00 (q : Q9 K) : shearBlock q 0 0 = q.q44 := rfl

theorem lp_roundtrip_offset_counterexample_aux [DecidableEq K] [CharZero K] (m : MatProps K)
    (cst : List (K × K × K)) (L : Lam K) (he1 : m.e1 ≠ 0) (h31 : m.nu31 = 0) (h32 : m.nu32 = 0)
    (hcs : ∀ x ∈ cst, x.1 ^ 2 + x.2.1 ^ 2 = 1)
    (hplies : L.plies = cst.map (mkLPly m)) (hT : lthickness L.plies ≠ 0) (hm : L.matobj = some m)
    (hd : L.offset ≠ 0) (hu1 : (invariants m).u1 ≠ 0) :
    L.calcLaminationParameters.1.calcABDEFromLP.1.B ≠ L.calcConstitutiveMatrix.B := by
  obtain ⟨_, _, _, _, hB, _⟩ := lp_roundtrip_offset_partial_aux m cst L he1 h31 h32 hcs hplies hT hm
  obtain ⟨_, _, cB, _⟩ := calcConstitutiveMatrix_fields L
  rw [hB, cB]
  intro h
  have h00 := congrFun (congrFun (Option.some.inj h) 0) 0
  simp only [sym3_apply_00, Q9.add, Q9.smul, gamma0_q11] at h00
  have : L.offset * lthickness L.plies * (invariants m).u1 = 0 := by linear_combination -h00
  rcases mul_eq_zero.1 this with h' | h'
  · rcases mul_eq_zero.1 h' with h'' | h''
    · exact hd h''
    · exact hT h''
  · exact hu1 h'

theorem lp_roundtrip_E_counterexample_aux [DecidableEq K] [CharZero K] (m : MatProps K)
    (cst : List (K × K × K)) (L : Lam K) (he1 : m.e1 ≠ 0) (h31 : m.nu31 = 0) (h32 : m.nu32 = 0)
    (hcs : ∀ x ∈ cst, x.1 ^ 2 + x.2.1 ^ 2 = 1)
    (hplies : L.plies = cst.map (mkLPly m)) (hT : lthickness L.plies ≠ 0) (hm : L.matobj = some m)
    (hne : (abd (L.plies.map LPly.toPly) L.offset).A.q44 ≠ (abd (L.plies.map LPly.toPly) L.offset).A.q55) :
    L.calcLaminationParameters.1.calcABDEFromLP.1.E ≠ L.calcConstitutiveMatrix.E := by
  obtain ⟨_, _, _, _, _, _, hE, _⟩ := lp_roundtrip_offset_partial_aux m cst L he1 h31 h32 hcs hplies hT hm
  obtain ⟨_, _, _, _, cE, _⟩ := calcConstitutiveMatrix_fields L
  rw [hE, cE]
  intro h
  have h00 := congrFun (congrFun (Option.some.inj h) 0) 0
  simp only [shearSwapped_apply_00, shearBlock_apply_00] at h00
  exact hne h00.symm

/-! ### concrete witnesses -/

theorem mIso_read : readLaminaprop [(1:ℚ), 1, 1/4] = some mIso := by
  simp [readLaminaprop, mIso]; norm_num

theorem rotQ_eq_invariants_counterexample_aux :
    (rotQ (1:ℚ) 0 (planeStressQ mIso)).q11 ≠ (lpFormula (invariants mIso) (trigOf 1 0).toXi).q11 := by
  simp [rotQ, planeStressQ, lpFormula, invariants, invariantsOfQ, matQ, MatProps.den, MatProps.nu21, MatProps.nu31,
    MatProps.nu32, trigOf, Trig.toXi, mIso]
  norm_num

theorem lp_roundtrip_material_counterexample_aux :
    lamIso.calcLaminationParameters.1.calcABDEFromLP.1.A ≠ lamIso.calcConstitutiveMatrix.A := by
  have hts : plyTrigs lamIso.plies = some [((1:ℚ), trigOf 1 0)] := rfl
  have hT : tsum [((1:ℚ), trigOf (1:ℚ) 0)] ≠ 0 := by simp [tsum]
  obtain ⟨_, _, _, hA, _⟩ := lp_route lamIso mIso _ hts hT rfl _ _ _ rfl rfl rfl
  obtain ⟨_, cA, _⟩ := calcConstitutiveMatrix_fields lamIso
  rw [hA, cA]
  intro h
  have h00 := congrFun (congrFun (Option.some.inj h) 0) 0
  rw [sym3_apply_00, sym3_apply_00] at h00
  have e : lamIso.plies.map LPly.toPly = [⟨1, rotQ 1 0 (planeStressQ mIso)⟩] := rfl
  rw [e, show lamIso.offset = 0 from rfl, (abd_single_ply _ _).1] at h00
  revert h00
  simp [xsum, Xi.add, Xi.smul, Xi.zero, wA, tsum, Q9.smul, rotQ, planeStressQ, lpFormula, invariants, invariantsOfQ, matQ,
    MatProps.den, MatProps.nu21, MatProps.nu31, MatProps.nu32, trigOf, Trig.toXi, mIso]
  norm_num

theorem lp_roundtrip_mixed_counterexample_aux :
    lamMixed.calcLaminationParameters.1.calcABDEFromLP.1.A ≠ lamMixed.calcConstitutiveMatrix.A := by
  have hts : plyTrigs lamMixed.plies = some [((1:ℚ), trigOf 1 0), ((1:ℚ), trigOf 1 0)] := rfl
  have hT : tsum [((1:ℚ), trigOf (1:ℚ) 0), ((1:ℚ), trigOf (1:ℚ) 0)] ≠ 0 := by norm_num [tsum]
  obtain ⟨_, _, _, hA, _⟩ := lp_route lamMixed mOne _ hts hT rfl _ _ _ rfl rfl rfl
  obtain ⟨_, cA, _⟩ := calcConstitutiveMatrix_fields lamMixed
  rw [hA, cA]
  intro h
  have h00 := congrFun (congrFun (Option.some.inj h) 0) 0
  rw [sym3_apply_00, sym3_apply_00] at h00
  have e : lamMixed.plies.map LPly.toPly =
      [⟨1, rotQ 1 0 (planeStressQ mOne)⟩, ⟨1, rotQ 1 0 (planeStressQ mTwo)⟩] := rfl
  rw [e, show lamMixed.offset = 0 from rfl] at h00
  revert h00
  simp [abd, abdStep, thickness, Q9.add, Q9.zero, xsum, Xi.add, Xi.smul, Xi.zero, wA, tsum, Q9.smul, rotQ, planeStressQ,
    lpFormula, invariants, invariantsOfQ, matQ, MatProps.den, MatProps.nu21, MatProps.nu31, MatProps.nu32, trigOf,
    Trig.toXi, mOne, mTwo]
  norm_num

theorem lamOffset_hyps :
    mPlanar.e1 ≠ 0 ∧ mPlanar.nu31 = 0 ∧ mPlanar.nu32 = 0 ∧
    (∀ x ∈ [((1:ℚ), (0:ℚ), (1:ℚ))], x.1 ^ 2 + x.2.1 ^ 2 = 1) ∧
    lamOffset.plies = [((1:ℚ), (0:ℚ), (1:ℚ))].map (mkLPly mPlanar) ∧ lthickness lamOffset.plies ≠ 0 ∧
    lamOffset.matobj = some mPlanar ∧ lamOffset.offset ≠ 0 ∧ (invariants mPlanar).u1 ≠ 0 ∧
    (abd (lamOffset.plies.map LPly.toPly) lamOffset.offset).A.q44 ≠
      (abd (lamOffset.plies.map LPly.toPly) lamOffset.offset).A.q55 := by
  refine ⟨by norm_num [mPlanar], by norm_num [mPlanar, MatProps.nu31], by norm_num [mPlanar, MatProps.nu32], ?_, rfl, ?_, rfl,
    by norm_num [lamOffset], ?_, ?_⟩
  · intro x hx
    simp only [List.mem_singleton] at hx
    subst hx
    norm_num
  · simp [lthickness, lamOffset, mkLPly]
  · simp [invariants, invariantsOfQ, matQ, MatProps.den, MatProps.nu21, MatProps.nu31, MatProps.nu32, mPlanar]
    norm_num
  · norm_num [lamOffset, mkLPly, LPly.toPly, abd, abdStep, thickness, Q9.add, Q9.smul, Q9.zero, rotQ, planeStressQ, mPlanar]

end Compmech.Laminate
