/-
The laminate matrix `ABD` of C01 (Spec/Rotation.lean `abdMatrix`) as the weight `F` of the panel energy Hessians:
it has the `IsABD` shape, and positive definiteness of its quadratic form `quadABD` (C01 `abd_posdef`) gives the
positive semi-definiteness hypothesis `WeightPSD` of the C02 `k0_matrix_psd_*` theorems.
-/
import CompmechVerif.Spec.RotationLemmas
import CompmechVerif.Core.OpSpecPSD

namespace Compmech.Laminate
open Compmech.Panel
open scoped BigOperators

/-- the 6×6 matrix as a panel weight `F[p, q]` -/
def abdWeight (a : Acc ℝ) : Fin 6 → Fin 6 → ℝ := fun p q => abdMatrix a p q

theorem abdWeight_isABD (a : Acc ℝ) : IsABD (abdWeight a) where
  symm p q := by fin_cases p <;> fin_cases q <;> rfl
  b12 := rfl
  b16 := rfl
  b26 := rfl

theorem abdWeight_quad (a : Acc ℝ) (e : Fin 6 → ℝ) :
    ∑ p, ∑ q, abdWeight a p q * e p * e q = quadABD a ⟨e 0, e 1, e 2⟩ ⟨e 3, e 4, e 5⟩ := by
  simp [abdWeight, abdMatrix, quadABD, quad3, bil3, Fin.sum_univ_succ]
  ring

theorem abdWeight_psd_of_posdef (a : Acc ℝ)
    (h : ∀ e k : V3 ℝ, (e.x ≠ 0 ∨ e.y ≠ 0 ∨ e.g ≠ 0 ∨ k.x ≠ 0 ∨ k.y ≠ 0 ∨ k.g ≠ 0) → 0 < quadABD a e k) :
    WeightPSD (abdWeight a) := by
  intro e
  rw [abdWeight_quad]
  by_cases h0 : e 0 ≠ 0 ∨ e 1 ≠ 0 ∨ e 2 ≠ 0 ∨ e 3 ≠ 0 ∨ e 4 ≠ 0 ∨ e 5 ≠ 0
  · exact (h _ _ h0).le
  · simp only [not_or, not_not] at h0
    obtain ⟨h0, h1, h2, h3, h4, h5⟩ := h0
    simp [quadABD, quad3, bil3, h0, h1, h2, h3, h4, h5]

end Compmech.Laminate
