/-
What C01 *says*, independent of the nine closed formulas in `lamina.py`:
tensor rotation of strains, strain-energy densities, through-thickness integrals.
-/
import CompmechVerif.Model.Laminate
import Mathlib.LinearAlgebra.Matrix.Notation
import Mathlib.Data.Matrix.Mul
import Mathlib.MeasureTheory.Integral.IntervalIntegral.Basic
import Mathlib.Data.Real.Basic

namespace Compmech.Laminate

variable {K : Type} [Field K]

/-- In-plane strain/curvature triple `(x, y, g)`; `g` is the *engineering* shear. -/
structure V3 (K : Type) where
  x : K
  y : K
  g : K

/-- The strain triple seen in ply axes rotated by θ (`c = cos θ`, `s = sin θ`):
components of `R e Rᵀ` for the symmetric 2-tensor `[[x, g/2],[g/2, y]]`, `R = [[c, s],[-s, c]]`
(the matrix `L` of `lamina.py`).  See `rotStrain_eq_tensor`. -/
def rotStrain (c s : K) (e : V3 K) : V3 K :=
  ⟨c ^ 2 * e.x + s ^ 2 * e.y + s * c * e.g,
   s ^ 2 * e.x + c ^ 2 * e.y - s * c * e.g,
   -2 * s * c * e.x + 2 * s * c * e.y + (c ^ 2 - s ^ 2) * e.g⟩

/-- Twice the in-plane strain-energy density `eᵀ Q e` of the upper 3×3 block. -/
def quad3 (q : Q9 K) (e : V3 K) : K :=
  q.q11 * e.x ^ 2 + 2 * q.q12 * e.x * e.y + q.q22 * e.y ^ 2 + 2 * q.q16 * e.x * e.g
    + 2 * q.q26 * e.y * e.g + q.q66 * e.g ^ 2

/-- Bilinear form `eᵀ Q k` of the upper 3×3 block. -/
def bil3 (q : Q9 K) (e k : V3 K) : K :=
  q.q11 * e.x * k.x + q.q12 * (e.x * k.y + e.y * k.x) + q.q22 * e.y * k.y
    + q.q16 * (e.x * k.g + e.g * k.x) + q.q26 * (e.y * k.g + e.g * k.y) + q.q66 * e.g * k.g

/-- Twice the transverse-shear energy density of the lower 2×2 block, `(g4, g5) = (γyz, γxz)`. -/
def quad2 (q : Q9 K) (g4 g5 : K) : K := q.q44 * g4 ^ 2 + 2 * q.q45 * g4 * g5 + q.q55 * g5 ^ 2

/-- the un-rotated ply matrix as the source reads it: `q16 = q26 = q45 = 0` literally. -/
def Q9.ortho (q : Q9 K) : Q9 K := { q with q16 := 0, q26 := 0, q45 := 0 }

/-- The sign pattern of mirroring (θ ↦ −θ): the `16`, `26`, `45` entries change sign. -/
def Q9.mirror (q : Q9 K) : Q9 K := { q with q16 := -q.q16, q26 := -q.q26, q45 := -q.q45 }

/-- The permutation of a 90° turn: `1 ↔ 2` and `4 ↔ 5`, with the sign flips tensor rotation prescribes. -/
def Q9.turn90 (q : Q9 K) : Q9 K :=
  { q11 := q.q22, q12 := q.q12, q22 := q.q11, q16 := -q.q26, q26 := -q.q16, q66 := q.q66,
    q44 := q.q55, q45 := -q.q45, q55 := q.q44 }

/-- The symmetric 6×6 `ABD` matrix built from the three accumulators. -/
def abdMatrix (a : Acc K) : Matrix (Fin 6) (Fin 6) K :=
  !![a.A.q11, a.A.q12, a.A.q16, a.B.q11, a.B.q12, a.B.q16;
     a.A.q12, a.A.q22, a.A.q26, a.B.q12, a.B.q22, a.B.q26;
     a.A.q16, a.A.q26, a.A.q66, a.B.q16, a.B.q26, a.B.q66;
     a.B.q11, a.B.q12, a.B.q16, a.D.q11, a.D.q12, a.D.q16;
     a.B.q12, a.B.q22, a.B.q26, a.D.q12, a.D.q22, a.D.q26;
     a.B.q16, a.B.q26, a.B.q66, a.D.q16, a.D.q26, a.D.q66]

/-- `(ε, κ)ᵀ ABD (ε, κ)` written out. -/
def quadABD (a : Acc K) (e k : V3 K) : K := quad3 a.A e + 2 * bil3 a.B e k + quad3 a.D k

/-- Through-thickness integral spec: `Σ_k (∫_{z_{k-1}}^{z_k} w z dz) • QL_k`, the plies stacked from `h`. -/
noncomputable def integralSpec (w : ℝ → ℝ) : ℝ → List (Ply ℝ) → Q9 ℝ
  | _, [] => Q9.zero
  | h, p :: ps => (Q9.smul (∫ z in h..(h + p.t), w z) p.QL).add (integralSpec w (h + p.t) ps)

/-- Admissible orthotropic ply material (the quantifier of C01). -/
def Admissible {K : Type} [Field K] [LT K] (m : MatProps K) : Prop :=
  0 < m.e1 ∧ 0 < m.e2 ∧ 0 < m.g12 ∧ 0 < m.g13 ∧ 0 < m.g23 ∧ 0 < 1 - m.nu12 * m.nu21

end Compmech.Laminate
