/-
The exact-integral instance of `Integrals ℝ` (Spec/WholeMatrix.lean) for the ACTUAL basis of the package with all edge flags
equal to one (an all-free panel): `bardellI ξ₁ ξ₂ η₁ η₂ dir dom d₁ f a d₂ f' b` is the real interval integral of
`D^{d₁}u_a · D^{d₂}u_b` (`Bardell/Basis.lean: dbasis`; `Bardell/RigidBody.lean: dbasis_hasDerivAt` — the formal derivative is the
derivative) over

  * the whole edge `[−1, 1]` for `dom = .full`,
  * the declared sub-interval for `dom = .sub`: `[ξ₁, ξ₂]` along x (the current section of a conical panel), `[η₁, η₂]` along y
    (`eta1 = 2 y1/b − 1`, `eta2 = 2 y2/b − 1` in the `*y1y2` kernels),
  * and `0` for a foreign domain (`.bad`; no regenerated kernel mentions one — `Props/C10` ties the domains to the C tables).

With unit flags the field label (`u`, `v`, `w`) plays no role.  The instance commutes (`bardellI_comm`) and meets
`RealIntegrals` of Core/OpSpecPSD.lean (`bardellI_real_*`): the hypothesis "the one-dimensional integrals are real integrals of
products of continuous functions" of the positive-semi-definiteness theorems holds for the basis of the package.
-/
import CompmechVerif.Bardell.RigidBody
import CompmechVerif.Core.OpSpecPSD
import CompmechVerif.Spec.RigidTranslation
import Mathlib.Tactic.NormNum

namespace Compmech.Panel
open Compmech.C10
open scoped BigOperators

/-- `ξ ↦ D^d u_i(ξ)`: the `d`-th derivative of the `i`-th Bardell function with unit flag (any field label) -/
noncomputable def bfun (d : Nat) (_ : Fld) (i : Nat) (x : ℝ) : ℝ := (dbasis d i).eval x

/-- the exact real integrals of the all-free Bardell basis -/
noncomputable def bardellI (ξ₁ ξ₂ η₁ η₂ : ℝ) : Integrals ℝ
  | _, .full, d₁, _, a, d₂, _, b => Jint (-1) 1 d₁ a d₂ b
  | .x, .sub, d₁, _, a, d₂, _, b => Jint ξ₁ ξ₂ d₁ a d₂ b
  | .y, .sub, d₁, _, a, d₂, _, b => Jint η₁ η₂ d₁ a d₂ b
  | _, .bad _, _, _, _, _, _, _ => 0

theorem continuous_bfun (d : Nat) (f : Fld) (i : Nat) : Continuous (bfun d f i) := continuous_dbasis_eval d i

/-- `bfun (d+1)` is the derivative of `bfun d` -/
theorem bfun_hasDerivAt (d : Nat) (f : Fld) (i : Nat) (x : ℝ) : HasDerivAt (bfun d f i) (bfun (d + 1) f i x) x :=
  dbasis_hasDerivAt d i x

theorem bardellI_comm (ξ₁ ξ₂ η₁ η₂ : ℝ) : (bardellI ξ₁ ξ₂ η₁ η₂).Comm := by
  intro dir dom d₁ f₁ a d₂ f₂ b
  cases dir <;> cases dom <;> simp only [bardellI, Jint_comm _ _ d₁ a d₂ b]

theorem bardellI_full (ξ₁ ξ₂ η₁ η₂ : ℝ) (dir : Dir) (d₁ : Nat) (f₁ : Fld) (a d₂ : Nat) (f₂ : Fld) (b : Nat) :
    bardellI ξ₁ ξ₂ η₁ η₂ dir .full d₁ f₁ a d₂ f₂ b = ∫ t in (-1 : ℝ)..1, bfun d₁ f₁ a t * bfun d₂ f₂ b t := by
  cases dir <;> rfl

theorem bardellI_sub_x (ξ₁ ξ₂ η₁ η₂ : ℝ) (d₁ : Nat) (f₁ : Fld) (a d₂ : Nat) (f₂ : Fld) (b : Nat) :
    bardellI ξ₁ ξ₂ η₁ η₂ .x .sub d₁ f₁ a d₂ f₂ b = ∫ t in ξ₁..ξ₂, bfun d₁ f₁ a t * bfun d₂ f₂ b t := rfl

theorem bardellI_sub_y (ξ₁ ξ₂ η₁ η₂ : ℝ) (d₁ : Nat) (f₁ : Fld) (a d₂ : Nat) (f₂ : Fld) (b : Nat) :
    bardellI ξ₁ ξ₂ η₁ η₂ .y .sub d₁ f₁ a d₂ f₂ b = ∫ t in η₁..η₂, bfun d₁ f₁ a t * bfun d₂ f₂ b t := rfl

/-- full width × full width (`fk0`, `fkG0`, `fkM` of the flat and cylindrical panels) -/
theorem bardellI_real_full_full (ξ₁ ξ₂ η₁ η₂ : ℝ) :
    RealIntegrals (bardellI ξ₁ ξ₂ η₁ η₂) .full .full bfun bfun (-1) 1 (-1) 1 where
  contX := continuous_bfun
  contY := continuous_bfun
  hx := by norm_num
  hy := by norm_num
  eqx _ _ _ _ _ _ := rfl
  eqy _ _ _ _ _ _ := rfl

/-- full width along x × the strip `[η₁, η₂]` along y (the `*y1y2` kernels of the flat and cylindrical panels) -/
theorem bardellI_real_full_sub (ξ₁ ξ₂ η₁ η₂ : ℝ) (hη : η₁ ≤ η₂) :
    RealIntegrals (bardellI ξ₁ ξ₂ η₁ η₂) .full .sub bfun bfun (-1) 1 η₁ η₂ where
  contX := continuous_bfun
  contY := continuous_bfun
  hx := by norm_num
  hy := hη
  eqx _ _ _ _ _ _ := rfl
  eqy _ _ _ _ _ _ := rfl

/-- the section `[ξ₁, ξ₂]` along x × full width along y (conical panel kernels) -/
theorem bardellI_real_sub_full (ξ₁ ξ₂ η₁ η₂ : ℝ) (hξ : ξ₁ ≤ ξ₂) :
    RealIntegrals (bardellI ξ₁ ξ₂ η₁ η₂) .sub .full bfun bfun ξ₁ ξ₂ (-1) 1 where
  contX := continuous_bfun
  contY := continuous_bfun
  hx := hξ
  hy := by norm_num
  eqx _ _ _ _ _ _ := rfl
  eqy _ _ _ _ _ _ := rfl

/-- section × strip (`*y1y2` kernels of the conical panel) -/
theorem bardellI_real_sub_sub (ξ₁ ξ₂ η₁ η₂ : ℝ) (hξ : ξ₁ ≤ ξ₂) (hη : η₁ ≤ η₂) :
    RealIntegrals (bardellI ξ₁ ξ₂ η₁ η₂) .sub .sub bfun bfun ξ₁ ξ₂ η₁ η₂ where
  contX := continuous_bfun
  contY := continuous_bfun
  hx := hξ
  hy := hη
  eqx _ _ _ _ _ _ := rfl
  eqy _ _ _ _ _ _ := rfl

/-! ### sums over the translation functions `{0, 2}` (rigid-body content, Bardell/RigidBody.lean) -/

/-- the integration length of a domain in a direction: `2` for the whole edge -/
def domLen (ξ₁ ξ₂ η₁ η₂ : ℝ) : Dir → Dom → ℝ
  | _, .full => 2
  | .x, .sub => ξ₂ - ξ₁
  | .y, .sub => η₂ - η₁
  | _, .bad _ => 0

theorem bardellI_sum_00 (ξ₁ ξ₂ η₁ η₂ : ℝ) (dir : Dir) (dom : Dom) (f f' : Fld) :
    ∑ i ∈ ({0, 2} : Finset Nat), ∑ k ∈ ({0, 2} : Finset Nat), bardellI ξ₁ ξ₂ η₁ η₂ dir dom 0 f i 0 f' k
      = domLen ξ₁ ξ₂ η₁ η₂ dir dom := by
  cases dir <;> cases dom <;> simp only [bardellI, domLen, Jint_sum_00] <;> norm_num

theorem bardellI_sum_deriv (ξ₁ ξ₂ η₁ η₂ : ℝ) (dir : Dir) (dom : Dom) (d₁ d₂ : Nat) (h₁ : d₁ ≤ 2) (h₂ : d₂ ≤ 2)
    (h : d₁ ≠ 0 ∨ d₂ ≠ 0) (f f' : Fld) :
    ∑ i ∈ ({0, 2} : Finset Nat), ∑ k ∈ ({0, 2} : Finset Nat), bardellI ξ₁ ξ₂ η₁ η₂ dir dom d₁ f i d₂ f' k = 0 := by
  cases dir <;> cases dom <;> simp only [bardellI, Jint_sum_of_deriv _ _ d₁ d₂ h₁ h₂ h] <;> simp

/-- **total mass, at the level of the energy Hessian**: over the exact integrals of the all-free Bardell basis the same-field
kinetic-energy Hessians of the pairs of translation functions add up to `(a b / 4)·mu·h·|dom_x|·|dom_y|` — for every mid-plane
position `δ` (Spec/RigidTranslation.lean `massHessian_rigid_sum` with the sums of Bardell/RigidBody.lean) -/
theorem massHessian_rigid_sum_bardell (base : PCtx ℝ) (ξ₁ ξ₂ η₁ η₂ : ℝ) (dx dy : Dom) (δ : ℝ) (α : Fin 3) :
    ∑ j ∈ ({0, 2} : Finset Nat), ∑ i ∈ ({0, 2} : Finset Nat), ∑ l ∈ ({0, 2} : Finset Nat), ∑ k ∈ ({0, 2} : Finset Nat),
        hessian (ctxAt base (bardellI ξ₁ ξ₂ η₁ η₂) i k j l) dx dy (velOps base) (massW base δ) (fld3 α) (fld3 α)
      = base.a * base.b / 4 * (base.mu * base.h) * domLen ξ₁ ξ₂ η₁ η₂ .x dx * domLen ξ₁ ξ₂ η₁ η₂ .y dy :=
  massHessian_rigid_sum base _ dx dy δ α _ _
    (fun f => bardellI_sum_00 ξ₁ ξ₂ η₁ η₂ .x dx f f)
    (fun f => bardellI_sum_deriv ξ₁ ξ₂ η₁ η₂ .x dx 1 1 (by norm_num) (by norm_num) (Or.inl (by norm_num)) f f)
    (fun f => bardellI_sum_00 ξ₁ ξ₂ η₁ η₂ .y dy f f)
    (fun f => bardellI_sum_deriv ξ₁ ξ₂ η₁ η₂ .y dy 1 1 (by norm_num) (by norm_num) (Or.inl (by norm_num)) f f)

end Compmech.Panel
