/-
Where the glue model (`Model/PanelGlue.lean`: WHICH kernel is called with WHICH arguments) meets the kernel models
(`Gen/Panel/*`: what a kernel computes): `panelKern T base I m n g` is the COO list the regenerated kernel of the call `g`
produces — the loop nest of `Model/PanelLoop.lean` over the regenerated entry expressions, with the scalar arguments of the
call put where the kernel reads them (`Nxx, Nyy, Nxy`, `d`); the strip bounds `y1, y2` are absorbed in the interpretation
`I` of the sub-interval integrals (`Dom.sub`), the geometry / laminate / flags are those of the panel object (`base`).
Flat and cylindrical models (one loop nest; the conical kernels sum 41 sections and are not instantiated here).
-/
import CompmechVerif.Gen.Panel.Plate
import CompmechVerif.Gen.Panel.PlateW
import CompmechVerif.Gen.Panel.CPanel
import CompmechVerif.Spec.WholeMatrix
import CompmechVerif.Model.PanelGlueLemmas

namespace Compmech.Panel
open Compmech.Asm Compmech.PanelLoop Compmech.PanelGlue Compmech.Gen

/-- the regenerated entry expressions of one model -/
structure KernelTable (K : Type) (num : Nat) where
  fk0 : Fin num → Fin num → PCtx K → K
  fk0y1y2 : Fin num → Fin num → PCtx K → K
  fkG0 : Fin num → Fin num → PCtx K → K
  fkG0y1y2 : Fin num → Fin num → PCtx K → K
  fkM : Fin num → Fin num → PCtx K → K
  fkMy1y2 : Fin num → Fin num → PCtx K → K

variable {K : Type} [Field K]

def plateTable : KernelTable K 3 :=
  ⟨Plate.fk0.entry, Plate.fk0y1y2.entry, Plate.fkG0.entry, Plate.fkG0y1y2.entry, Plate.fkM.entry, Plate.fkMy1y2.entry⟩

def plateWTable : KernelTable K 1 :=
  ⟨PlateW.fk0.entry, PlateW.fk0y1y2.entry, PlateW.fkG0.entry, PlateW.fkG0y1y2.entry, PlateW.fkM.entry, PlateW.fkMy1y2.entry⟩

def cpanelTable : KernelTable K 3 :=
  ⟨CPanel.fk0.entry, CPanel.fk0y1y2.entry, CPanel.fkG0.entry, CPanel.fkG0y1y2.entry, CPanel.fkM.entry, CPanel.fkMy1y2.entry⟩

/-- the membrane resultants a geometric-stiffness kernel is handed -/
def withLoads (base : PCtx K) (nxx nyy nxy : K) : PCtx K := { base with Nxx := nxx, Nyy := nyy, Nxy := nxy }

/-- the reference-surface distance a mass kernel is handed -/
def withD (base : PCtx K) (d : K) : PCtx K := { base with d := d }

@[simp] theorem withLoads_a (base : PCtx K) (x y z : K) : (withLoads base x y z).a = base.a := rfl
@[simp] theorem withLoads_b (base : PCtx K) (x y z : K) : (withLoads base x y z).b = base.b := rfl
@[simp] theorem withD_a (base : PCtx K) (d : K) : (withD base d).a = base.a := rfl
@[simp] theorem withD_b (base : PCtx K) (d : K) : (withD base d).b = base.b := rfl
@[simp] theorem withD_d (base : PCtx K) (d : K) : (withD base d).d = d := rfl

theorem plateTable_fk0 : (plateTable : KernelTable K 3).fk0 = Plate.fk0.entry := rfl
theorem plateTable_fk0y1y2 : (plateTable : KernelTable K 3).fk0y1y2 = Plate.fk0y1y2.entry := rfl
theorem plateTable_fkG0 : (plateTable : KernelTable K 3).fkG0 = Plate.fkG0.entry := rfl
theorem plateTable_fkG0y1y2 : (plateTable : KernelTable K 3).fkG0y1y2 = Plate.fkG0y1y2.entry := rfl
theorem plateTable_fkM : (plateTable : KernelTable K 3).fkM = Plate.fkM.entry := rfl
theorem plateTable_fkMy1y2 : (plateTable : KernelTable K 3).fkMy1y2 = Plate.fkMy1y2.entry := rfl
theorem cpanelTable_fk0 : (cpanelTable : KernelTable K 3).fk0 = CPanel.fk0.entry := rfl
theorem cpanelTable_fk0y1y2 : (cpanelTable : KernelTable K 3).fk0y1y2 = CPanel.fk0y1y2.entry := rfl
theorem cpanelTable_fkG0 : (cpanelTable : KernelTable K 3).fkG0 = CPanel.fkG0.entry := rfl
theorem cpanelTable_fkG0y1y2 : (cpanelTable : KernelTable K 3).fkG0y1y2 = CPanel.fkG0y1y2.entry := rfl
theorem cpanelTable_fkM : (cpanelTable : KernelTable K 3).fkM = CPanel.fkM.entry := rfl
theorem cpanelTable_fkMy1y2 : (cpanelTable : KernelTable K 3).fkMy1y2 = CPanel.fkMy1y2.entry := rfl

/-- what the kernel of a recorded call returns (before any `finalize`) -/
def panelKern {num : Nat} (T : KernelTable K num) (base : PCtx K) (I : Integrals K) (m n : Nat) (g : KCall K) : Coo K :=
  match g.name, g.args with
  | .fk0, [.panel, .nat _, .nat r0, .nat c0] =>
    loopNest num m n r0 c0 fun ro co i k j l => T.fk0 ro co (ctxAt base I i k j l)
  | .fk0y1y2, [.q _, .q _, .panel, .nat _, .nat r0, .nat c0] =>
    loopNestYX num m n r0 c0 fun ro co i k j l => T.fk0y1y2 ro co (ctxAt base I i k j l)
  | .fkG0, [.q nxx, .q nyy, .q nxy, .panel, .nat _, .nat r0, .nat c0] =>
    loopNest num m n r0 c0 fun ro co i k j l => T.fkG0 ro co (ctxAt (withLoads base nxx nyy nxy) I i k j l)
  | .fkG0y1y2, [.q _, .q _, .q nxx, .q nyy, .q nxy, .panel, .nat _, .nat r0, .nat c0] =>
    loopNestYX num m n r0 c0 fun ro co i k j l => T.fkG0y1y2 ro co (ctxAt (withLoads base nxx nyy nxy) I i k j l)
  | .fkM, [.q d, .panel, .nat _, .nat r0, .nat c0] =>
    loopNest num m n r0 c0 fun ro co i k j l => T.fkM ro co (ctxAt (withD base d) I i k j l)
  | .fkMy1y2, [.q _, .q _, .q d, .panel, .nat _, .nat r0, .nat c0] =>
    loopNestYX num m n r0 c0 fun ro co i k j l => T.fkMy1y2 ro co (ctxAt (withD base d) I i k j l)
  | _, _ => []

/-- the integration domain along `y` of a panel definition: the strip `[y1, y2]` iff both bounds are numbers -/
def domOf (P : Panel K) : Dom :=
  match P.y1, P.y2 with
  | some _, some _ => .sub
  | _, _ => .full

/-- the kernel context with the panel's own loads `(Nxx, Nyy, Nxy)`, `None` read as `0` -/
def panelLoads (P : Panel K) (base : PCtx K) : PCtx K :=
  withLoads base (zeroIfNone P.Nxx) (zeroIfNone P.Nyy) (zeroIfNone P.Nxy)

/-- the kernel context with the panel's constant pre-load `(Nxx_cte, Nyy_cte, Nxy_cte)`, `None` read as `0` -/
def panelPreload (P : Panel K) (base : PCtx K) : PCtx K :=
  withLoads base (zeroIfNone P.NxxCte) (zeroIfNone P.NyyCte) (zeroIfNone P.NxyCte)

/-- the finalized full-width / strip matrix of one kernel pair, chosen as the definition says -/
def cooOf {num : Nat} (P : Panel K) (row0 : Nat) (full strip : Fin num → Fin num → PCtx K → K) (base : PCtx K)
    (I : Integrals K) : Coo K :=
  match P.y1, P.y2 with
  | some _, some _ => panelCooYX num P.m P.n row0 strip base I
  | _, _ => panelCoo num P.m P.n row0 full base I

end Compmech.Panel

namespace Compmech.Panel
open Compmech.Asm Compmech.PanelLoop Compmech.PanelGlue Compmech.Gen

variable {K : Type} [Field K] [LinearOrder K]

set_option linter.unusedSectionVars false

/-- `calc_k0` (analytic route, `finalize=True`, `row0 = col0`) with the regenerated kernels: the returned matrix is the
finalized constitutive matrix on the panel's domain plus, iff a pre-load component is a non-zero number, the finalized
initial-stress matrix of `(Nxx_cte, Nyy_cte, Nxy_cte)` on the same domain -/
theorem calc_k0_panelKern {num : Nat} (T : KernelTable K num) (P : Panel K) (A : Args K) (R : Result K) (base : PCtx K)
    (I : Integrals K) (hc : A.c = none) (hF : A.fnxny = false) (hfin : A.finalize = true)
    (h : (calcK0 P A).res = .ok R) (hplace : A.row0 = A.col0) (r c : Nat) :
    toFun (R.eval (panelKern T base I P.m P.n)) r c =
      toFun (cooOf P (A.row0.getD 0) T.fk0 T.fk0y1y2 base I) r c +
      (if preloaded P = true then
        toFun (cooOf P (A.row0.getD 0) T.fkG0 T.fkG0y1y2 (panelPreload P base) I) r c
       else 0) := by
  obtain ⟨k, P3, c0, hsd, _, _, _, _, hc0, hR⟩ := calcK0_ok h
  rw [k0Const_analytic k P3 A _ hc hF] at hc0
  injection hc0 with hc0
  have hpre : preloaded P3 = preloaded P := by
    unfold preloaded; rw [hsd.NxxCte, hsd.NyyCte, hsd.NxyCte]
  rw [hR]
  unfold Result.eval
  simp only [hfin, finWrap, if_true]
  rw [k0Prestress_spec, hpre, ← hc0]
  have hcol : A.col0.getD 0 = A.row0.getD 0 := by rw [hplace]
  unfold cooOf boundsSpec placement panelPreload
  rw [hsd.y1, hsd.y2, hsd.NxxCte, hsd.NyyCte, hsd.NxyCte, hcol]
  by_cases hp : preloaded P = true
  · simp only [hp, if_true, List.length_cons, List.length_nil, Nat.add_one_sub_one, sumCalls, Comb.eval]
    rw [toFun_finalize_append]
    cases P.y1 <;> cases P.y2 <;> simp [panelKern, mkCall, panelCoo, panelCooYX]
  · simp only [hp, List.length_cons]
    cases P.y1 <;> cases P.y2 <;> simp [panelKern, mkCall, panelCoo, panelCooYX, sumCalls, Comb.eval]

/-- `calc_kG0` (analytic route, `finalize=True`, `row0 = col0`) with the regenerated kernels -/
theorem calc_kG0_panelKern {num : Nat} (T : KernelTable K num) (P : Panel K) (A : Args K) (R : Result K) (base : PCtx K)
    (I : Integrals K) (hc : A.c = none) (hfin : A.finalize = true)
    (h : (calcKG0 P A).res = .ok R) (hplace : A.row0 = A.col0) (r c : Nat) :
    toFun (R.eval (panelKern T base I P.m P.n)) r c =
      toFun (cooOf P (A.row0.getD 0) T.fkG0 T.fkG0y1y2 (panelLoads P base) I) r c := by
  obtain ⟨k, P3, _, _, _, _, _, hR⟩ := calcKG0_ok hc h
  rw [hR]
  unfold Result.eval
  simp only [hfin, finWrap, if_true]
  have hcol : A.col0.getD 0 = A.row0.getD 0 := by rw [hplace]
  unfold cooOf boundsSpec placement panelLoads
  rw [hcol]
  cases P.y1 <;> cases P.y2 <;> simp [panelKern, mkCall, panelCoo, panelCooYX, Comb.eval]

/-- `calc_kM` (`finalize=True`, `row0 = col0`) with the regenerated kernels: the mass kernel of the panel's domain with
`d = −offset` -/
theorem calc_kM_panelKern {num : Nat} (T : KernelTable K num) (P : Panel K) (A : Args K) (R : Result K) (base : PCtx K)
    (I : Integrals K) (hfin : A.finalize = true)
    (h : (calcKM P A).res = .ok R) (hplace : A.row0 = A.col0) (r c : Nat) :
    toFun (R.eval (panelKern T base I P.m P.n)) r c =
      toFun (cooOf P (A.row0.getD 0) T.fkM T.fkMy1y2 (withD base (-P.offset)) I) r c := by
  obtain ⟨k, P2, _, _, _, _, _, _, hR⟩ := calcKM_ok h
  rw [hR]
  unfold Result.eval
  simp only [hfin, finWrap, if_true]
  have hcol : A.col0.getD 0 = A.row0.getD 0 := by rw [hplace]
  unfold cooOf boundsSpec placement
  rw [hcol]
  cases P.y1 <;> cases P.y2 <;> simp [panelKern, mkCall, panelCoo, panelCooYX, Comb.eval]

end Compmech.Panel
