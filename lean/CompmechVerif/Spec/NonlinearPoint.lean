/-
Pointwise non-linear (von Kármán / Donnell) statics assembled from the GENERATED pieces of `calc_fint`:
strain state from the linear part and the slopes, stress resultants, internal-force integrand — and the
perturbation of that state by one degree of freedom.  (What C08's Jacobian statement is about.)
-/
import CompmechVerif.Gen.PanelNum.Plate
import CompmechVerif.Gen.PanelNum.CPanel
import CompmechVerif.Spec.Kinematics

namespace Compmech.Panel
open Compmech.Gen.PanelNum

variable {K : Type} [Field K]

/-- the state of a point: linear strain vector `e` (sum over all degrees of freedom of their linear Donnell
contributions) and the slopes `wxi`, `weta` -/
structure PtState (K : Type) where
  e : Fin 6 → K
  wxi : K
  weta : K

namespace PlateNum

/-- strains (with the quadratic corrections of `calc_fint`), then resultants, as `calc_fint` computes them -/
def withState (X : NCtx K) (s : PtState K) : NCtx K :=
  let X₁ := { X with wxi := s.wxi, weta := s.weta }
  let X₂ := { X₁ with exx := s.e 0 + Plate.calc_fint.add_exx X₁, eyy := s.e 1 + Plate.calc_fint.add_eyy X₁,
                      gxy := s.e 2 + Plate.calc_fint.add_gxy X₁, kxx := s.e 3, kyy := s.e 4, kxy := s.e 5 }
  { X₂ with Nxx := Plate.calc_fint.def_Nxx X₂, Nyy := Plate.calc_fint.def_Nyy X₂, Nxy := Plate.calc_fint.def_Nxy X₂,
            Mxx := Plate.calc_fint.def_Mxx X₂, Myy := Plate.calc_fint.def_Myy X₂, Mxy := Plate.calc_fint.def_Mxy X₂ }

def fint (X : NCtx K) (s : PtState K) : Fin 3 → K
  | 0 => Plate.calc_fint.fint0 (withState X s)
  | 1 => Plate.calc_fint.fint1 (withState X s)
  | 2 => Plate.calc_fint.fint2 (withState X s)

end PlateNum

namespace CPanelNum

def withState (X : NCtx K) (s : PtState K) : NCtx K :=
  let X₁ := { X with wxi := s.wxi, weta := s.weta }
  let X₂ := { X₁ with exx := s.e 0 + CPanel.calc_fint.add_exx X₁, eyy := s.e 1 + CPanel.calc_fint.add_eyy X₁,
                      gxy := s.e 2 + CPanel.calc_fint.add_gxy X₁, kxx := s.e 3, kyy := s.e 4, kxy := s.e 5 }
  { X₂ with Nxx := CPanel.calc_fint.def_Nxx X₂, Nyy := CPanel.calc_fint.def_Nyy X₂, Nxy := CPanel.calc_fint.def_Nxy X₂,
            Mxx := CPanel.calc_fint.def_Mxx X₂, Myy := CPanel.calc_fint.def_Myy X₂, Mxy := CPanel.calc_fint.def_Mxy X₂ }

def fint (X : NCtx K) (s : PtState K) : Fin 3 → K
  | 0 => CPanel.calc_fint.fint0 (withState X s)
  | 1 => CPanel.calc_fint.fint1 (withState X s)
  | 2 => CPanel.calc_fint.fint2 (withState X s)

end CPanelNum

/-- adding `t` times the degree of freedom `B` of field `β` to the amplitudes moves the state of the point by
`t` times that degree of freedom's linear strain contribution and (for `w`) its slopes -/
def PtState.perturb (s : PtState K) (X : NCtx K) (lin : Fld → Fin 6 → List (OpTerm K)) (β : Fld) (t : K) : PtState K :=
  { e := fun p => s.e p + t * dofB X lin .B β p
    wxi := s.wxi + t * (match β with | .w => X.E .x 1 .w .B * X.E .y 0 .w .B | _ => 0)
    weta := s.weta + t * (match β with | .w => X.E .x 0 .w .B * X.E .y 1 .w .B | _ => 0) }

end Compmech.Panel
