/-
Helper lemmas for the stiffener-kernel theorems of Props/C13.lean (symmetry and positive semi-definiteness over ℝ).

1. 1-D blade flange: `bctxAt base J E i k j l` is the context the loop body of `fk0f / fkG0f / fkMf` sees for the row indices `(i, j)` and
   the column indices `(k, l)`.  Read as a panel context (`BCtx.toP`) it is `ctxAt base.toP (beamI J E) i k j l`, so the line-energy Hessian
   inherits `hessian_swap` (symmetry) and `hessian_psd` (the product of the two point values is the integral over `[0, 1]` of the product
   of two constants).  Weight lemmas: the beam law, the pre-load, the mass weight as encoded.
2. T stiffener, skin–base: `tctxAt`, the bridge `tctxAt_toC` to `cctxAt`, and `RealStripIntegrals.surf`: when the three families of
   y-integrals are what their names say (strip: ∫_{η₁}^{η₂} skin·skin; mapped: ∫_{−1}^{1} skin(c0 + c1 η′)·base(η′); full: ∫_{−1}^{1} base·base),
   the combined integrals in the base's coordinate are real integrals of products of continuous functions (change of variables
   `η = c0 + c1 η′`), which is what `surfHess_psd` needs.
-/
import CompmechVerif.Spec.StiffInterface
import CompmechVerif.Spec.InterfacePSD
import Mathlib.Tactic.Linarith
import Mathlib.Tactic.Positivity
import Mathlib.Analysis.SpecialFunctions.Integrals.Basic

namespace Compmech.Panel
open scoped BigOperators

/-! ### 1-D blade flange -/

/-- integrals over the length of `D^{d₁}φ^{f₁}_a · D^{d₂}φ^{f₂}_b` of the skin series along x -/
abbrev BeamIntegrals := Nat → Fld → Nat → Nat → Fld → Nat → ℝ
/-- `D^d` of the skin's y function of field `f`, series index `j`, on the stiffener line -/
abbrev BeamEvals := Nat → Fld → Nat → ℝ

def bctxAt (base : BCtx ℝ) (J : BeamIntegrals) (E : BeamEvals) (i k j l : Nat) : BCtx ℝ :=
  { base with
    J := fun d₁ f₁ a d₂ f₂ b => J d₁ f₁ (pick .x a i k j l) d₂ f₂ (pick .x b i k j l)
    E := fun d f a => E d f (pick .y a i k j l) }

/-- the blade's integrals in the shape of the panel kernels' `Integrals`: along y the product of the two point values -/
def beamI (J : BeamIntegrals) (E : BeamEvals) : Integrals ℝ :=
  fun dir _ d₁ f₁ a d₂ f₂ b =>
    match dir with
    | .x => J d₁ f₁ a d₂ f₂ b
    | .y => E d₁ f₁ a * E d₂ f₂ b

theorem bctxAt_toP (base : BCtx ℝ) (J : BeamIntegrals) (E : BeamEvals) (i k j l : Nat) :
    (bctxAt base J E i k j l).toP = ctxAt base.toP (beamI J E) i k j l := by
  unfold BCtx.toP ctxAt bctxAt beamI
  congr 1
  funext dir dom d₁ f₁ a d₂ f₂ b
  cases dir <;> rfl

theorem beamI_comm (J : BeamIntegrals) (E : BeamEvals) (hJ : ∀ d₁ f₁ a d₂ f₂ b, J d₁ f₁ a d₂ f₂ b = J d₂ f₂ b d₁ f₁ a) :
    (beamI J E).Comm := by
  intro dir dom d₁ f₁ a d₂ f₂ b
  cases dir
  · exact hJ _ _ _ _ _ _
  · exact mul_comm _ _

/-- SYMMETRY of the line-energy Hessian: exchanging the two degrees of freedom -/
theorem lineEnergyHess_swap {n : Nat} (base : BCtx ℝ) (J : BeamIntegrals) (E : BeamEvals)
    (hJ : ∀ d₁ f₁ a d₂ f₂ b, J d₁ f₁ a d₂ f₂ b = J d₂ f₂ b d₁ f₁ a)
    (ops : Fld → Fin n → List (OpTerm ℝ)) (W : Fin n → Fin n → ℝ) (hW : ∀ p q, W p q = W q p) (α β : Fld) (i k j l : Nat) :
    lineEnergyHess (bctxAt base J E k i l j) ops W β α = lineEnergyHess (bctxAt base J E i k j l) ops W α β := by
  unfold lineEnergyHess
  rw [bctxAt_toP, bctxAt_toP, ← ctxAt_swap base.toP (beamI J E) (beamI_comm J E hJ) i k j l]
  exact hessian_swap _ .full .full ops W hW α β

/-- the integrals along x ARE integrals over `[x₁, x₂]`, `x₁ ≤ x₂`, of products of the continuous functions `X d f i = D^d φ^f_i` -/
structure RealBeamIntegrals (J : BeamIntegrals) (X : Nat → Fld → Nat → ℝ → ℝ) (x₁ x₂ : ℝ) : Prop where
  cont : ∀ d f i, Continuous (X d f i)
  hx : x₁ ≤ x₂
  eq : ∀ d₁ f₁ a d₂ f₂ b, J d₁ f₁ a d₂ f₂ b = ∫ ξ in x₁..x₂, X d₁ f₁ a ξ * X d₂ f₂ b ξ

theorem RealBeamIntegrals.real {J : BeamIntegrals} {X : Nat → Fld → Nat → ℝ → ℝ} {x₁ x₂ : ℝ} (hR : RealBeamIntegrals J X x₁ x₂)
    (E : BeamEvals) : RealIntegrals (beamI J E) .full .full X (fun d f j _ => E d f j) x₁ x₂ 0 1 where
  contX := hR.cont
  contY _ _ _ := continuous_const
  hx := hR.hx
  hy := zero_le_one
  eqx := hR.eq
  eqy d₁ f₁ a d₂ f₂ b := by
    simp only [beamI, intervalIntegral.integral_const, sub_zero, smul_eq_mul, one_mul]

/-- POSITIVE SEMI-DEFINITENESS of the line-energy Hessian over any finite family of skin degrees of freedom, for a positive
semi-definite weight and `a ≥ 0` -/
theorem lineEnergyHess_psd {n : Nat} {ι : Type} (base : BCtx ℝ) (J : BeamIntegrals) (E : BeamEvals)
    (X : Nat → Fld → Nat → ℝ → ℝ) (x₁ x₂ : ℝ) (hR : RealBeamIntegrals J X x₁ x₂)
    (ops : Fld → Fin n → List (OpTerm ℝ)) (W : Fin n → Fin n → ℝ) (hW : WeightPSD W) (ha : 0 ≤ base.a)
    (s : Finset ι) (fld : ι → Fld) (ix iy : ι → Nat) (c : ι → ℝ) :
    0 ≤ ∑ A ∈ s, ∑ B ∈ s,
      c A * c B * lineEnergyHess (bctxAt base J E (ix A) (ix B) (iy A) (iy B)) ops W (fld A) (fld B) := by
  simp only [lineEnergyHess, bctxAt_toP]
  exact hessian_psd base.toP (beamI J E) .full .full X _ x₁ x₂ 0 1 (hR.real E) ops W hW
    (by show 0 ≤ base.a * 2; linarith) s fld ix iy c

/-! weights -/

theorem beamLaw_symm (B : BCtx ℝ) (p q : Fin 3) : beamLaw B p q = beamLaw B q p := by
  fin_cases p <;> fin_cases q <;> rfl

theorem beamMassW_symm (κ : ℝ) (B : BCtx ℝ) (p q : Fin 5) : beamMassW κ B p q = beamMassW κ B q p := by
  fin_cases p <;> fin_cases q <;> rfl

theorem quad_nonneg_of_disc {A Bc C x y : ℝ} (hA : 0 ≤ A) (hC : 0 ≤ C) (hd : Bc * Bc ≤ A * C) :
    0 ≤ A * x * x + 2 * Bc * x * y + C * y * y := by
  rcases hA.eq_or_lt with h0 | hpos
  · have hB : Bc = 0 := by
      have : Bc * Bc ≤ 0 := by rw [← h0] at hd; simpa using hd
      nlinarith [mul_self_nonneg Bc]
    subst hB
    rw [← h0]
    nlinarith [mul_self_nonneg y]
  · have h : 0 ≤ A * (A * x * x + 2 * Bc * x * y + C * y * y) := by
      have : A * (A * x * x + 2 * Bc * x * y + C * y * y) = (A * x + Bc * y) ^ 2 + (A * C - Bc * Bc) * (y * y) := by ring
      rw [this]
      have h1 : 0 ≤ (A * C - Bc * Bc) * (y * y) := mul_nonneg (by linarith) (mul_self_nonneg y)
      positivity
    exact nonneg_of_mul_nonneg_right h hpos

/-- the beam law `bf·[[E1, 0, −S1], [0, F1, 0], [−S1, 0, Jxx]]` is positive semi-definite when `bf, E1, F1, Jxx ≥ 0` and `S1² ≤ E1·Jxx` -/
theorem beamLaw_psd (B : BCtx ℝ) (hbf : 0 ≤ B.bf) (hE : 0 ≤ B.E1) (hF : 0 ≤ B.F1) (hJ : 0 ≤ B.Jxx)
    (hS : B.S1 * B.S1 ≤ B.E1 * B.Jxx) : WeightPSD (beamLaw B) := by
  intro e
  simp only [Fin.sum_univ_three, beamLaw]
  have h1 := quad_nonneg_of_disc (x := e 0) (y := e 2) hE hJ (Bc := -B.S1) (by simpa using hS)
  have h2 : 0 ≤ B.F1 * (e 1 * e 1) := mul_nonneg hF (mul_self_nonneg _)
  have : 0 ≤ B.bf * ((B.E1 * e 0 * e 0 + 2 * -B.S1 * e 0 * e 2 + B.Jxx * e 2 * e 2) + B.F1 * (e 1 * e 1)) :=
    mul_nonneg hbf (by linarith)
  have hh : (B.bf * B.E1 * e 0 * e 0 + 0 * e 0 * e 1 + -(B.bf * B.S1) * e 0 * e 2 +
      (0 * e 1 * e 0 + B.bf * B.F1 * e 1 * e 1 + 0 * e 1 * e 2) +
      (-(B.bf * B.S1) * e 2 * e 0 + 0 * e 2 * e 1 + B.bf * B.Jxx * e 2 * e 2))
      = B.bf * ((B.E1 * e 0 * e 0 + 2 * -B.S1 * e 0 * e 2 + B.Jxx * e 2 * e 2) + B.F1 * (e 1 * e 1)) := by ring
  rw [hh]
  exact this

/-- the generalised strain state `ε = x`, `τ = y` (no bending) -/
def stretchTwist (x y : ℝ) : Fin 3 → ℝ
  | 0 => x
  | 2 => y
  | _ => 0

/-- … and it is NOT positive semi-definite when `bf, E1 > 0` and `E1·Jxx < S1²`: the state `ε = S1`, `τ = E1` has the "energy"
`bf E1 (E1 Jxx − S1²) < 0` -/
theorem beamLaw_not_psd (B : BCtx ℝ) (hbf : 0 < B.bf) (hE : 0 < B.E1) (hS : B.E1 * B.Jxx < B.S1 * B.S1) :
    ¬ WeightPSD (beamLaw B) := by
  intro h
  have := h (stretchTwist B.S1 B.E1)
  simp only [Fin.sum_univ_three, beamLaw, stretchTwist] at this
  have hh : B.bf * B.E1 * (B.E1 * B.Jxx - B.S1 * B.S1) < 0 :=
    mul_neg_of_pos_of_neg (mul_pos hbf hE) (by linarith)
  nlinarith

theorem beamPreload_psd (B : BCtx ℝ) (hF : 0 ≤ B.Fx) : WeightPSD (beamPreload B) := by
  intro e
  simp only [Fin.sum_univ_one, beamPreload]
  nlinarith [mul_self_nonneg (e 0)]

/-- the mass weight with coupling factor `κ` is positive semi-definite when `μ bf hf ≥ 0` and `(κ df)² ≤ I` (`I` the rotary term) -/
theorem beamMassW_psd (κ : ℝ) (B : BCtx ℝ) (hM : 0 ≤ B.mu * B.bf * B.hf)
    (hI : (κ * B.df) * (κ * B.df) ≤ beamRotaryInertia B) : WeightPSD (beamMassW κ B) := by
  intro e
  simp only [Fin.sum_univ_five, beamMassW]
  have hI0 : 0 ≤ beamRotaryInertia B := le_trans (mul_self_nonneg _) hI
  have h1 := quad_nonneg_of_disc (A := 1) (C := beamRotaryInertia B) (Bc := κ * B.df) (x := e 0) (y := e 3) zero_le_one hI0
    (by simpa using hI)
  have h2 := quad_nonneg_of_disc (A := 1) (C := beamRotaryInertia B) (Bc := κ * B.df) (x := e 1) (y := e 4) zero_le_one hI0
    (by simpa using hI)
  have h3 : 0 ≤ e 2 * e 2 := mul_self_nonneg _
  have : 0 ≤ B.mu * B.bf * B.hf * ((1 * e 0 * e 0 + 2 * (κ * B.df) * e 0 * e 3 + beamRotaryInertia B * e 3 * e 3)
      + (1 * e 1 * e 1 + 2 * (κ * B.df) * e 1 * e 4 + beamRotaryInertia B * e 4 * e 4) + e 2 * e 2) :=
    mul_nonneg hM (by linarith)
  refine le_trans this (le_of_eq ?_)
  ring

/-- the velocity state `u̇ = −x`, `ẇ,x = 1` (all other components 0) -/
def slideTilt (x : ℝ) : Fin 5 → ℝ
  | 0 => -x
  | 3 => 1
  | _ => 0

/-- … and it is NOT when `μ bf hf > 0` and `(κ df)² > I`: the velocity state `u̇ = −κ df`, `ẇ,x = 1` has negative "energy" -/
theorem beamMassW_not_psd (κ : ℝ) (B : BCtx ℝ) (hM : 0 < B.mu * B.bf * B.hf)
    (hI : beamRotaryInertia B < (κ * B.df) * (κ * B.df)) : ¬ WeightPSD (beamMassW κ B) := by
  intro h
  have := h (slideTilt (κ * B.df))
  simp only [Fin.sum_univ_five, beamMassW, slideTilt] at this
  have hh : B.mu * B.bf * B.hf * (beamRotaryInertia B - (κ * B.df) * (κ * B.df)) < 0 :=
    mul_neg_of_pos_of_neg hM (by linarith)
  nlinarith

/-- for the geometry the caller passes (`df = bf/2 + hb + h/2`: centroid of a flange of height `bf > 0` standing on skin + base,
`h, hb ≥ 0`) the rotary term is `df² + bf²/12`, so `(κ df)² ≤ I` holds for `|κ| ≤ 1` and FAILS for the encoded `κ = 2` -/
theorem beamRotaryInertia_eq (B : BCtx ℝ) (hdf : B.df = B.bf / 2 + B.hb + B.h / 2) :
    beamRotaryInertia B = B.df * B.df + B.bf * B.bf / 12 := by
  unfold beamRotaryInertia
  rw [hdf]
  ring

/-! ### T stiffener: skin–base over the strip -/

abbrev StripXIntegrals := Nat → Fld → Pan → Nat → Nat → Fld → Pan → Nat → ℝ
abbrev StripYIntegrals := YDom → Nat → Fld → Pan → Nat → Nat → Fld → Pan → Nat → ℝ

def tctxAt (base : TCtx ℝ) (Jx : StripXIntegrals) (Jy : StripYIntegrals) (i k j l : Nat) : TCtx ℝ :=
  { base with
    Jx := fun d₁ f₁ p₁ a d₂ f₂ p₂ b => Jx d₁ f₁ p₁ (pick .x a i k j l) d₂ f₂ p₂ (pick .x b i k j l)
    Jy := fun dom d₁ f₁ p₁ a d₂ f₂ p₂ b => Jy dom d₁ f₁ p₁ (pick .y a i k j l) d₂ f₂ p₂ (pick .y b i k j l) }

/-- all integrals in the base's coordinates `(ξ, η′)`, as a function of the series indices -/
noncomputable def stripJ (c1 : ℝ) (Jx : StripXIntegrals) (Jy : StripYIntegrals) : ConnIntegrals :=
  fun dir d₁ f₁ p₁ a d₂ f₂ p₂ b =>
    match dir with
    | .x => Jx d₁ f₁ p₁ a d₂ f₂ p₂ b
    | .y =>
      match p₁, p₂ with
      | .p1, .p1 => Jy .strip d₁ f₁ .p1 a d₂ f₂ .p1 b / c1
      | .p1, .p2 => Jy .map d₁ f₁ .p1 a d₂ f₂ .p2 b
      | .p2, .p1 => Jy .map d₂ f₂ .p1 b d₁ f₁ .p2 a
      | .p2, .p2 => Jy .full d₁ f₁ .p2 a d₂ f₂ .p2 b

def noEvals : ConnEvals := fun _ _ _ _ _ => 0

theorem tctxAt_toC (base : TCtx ℝ) (Jx : StripXIntegrals) (Jy : StripYIntegrals) (i k j l : Nat) :
    (tctxAt base Jx Jy i k j l).toC = cctxAt base.toC (stripJ base.c1 Jx Jy) noEvals i k j l := by
  unfold TCtx.toC cctxAt tctxAt stripJ noEvals
  congr 1
  funext dir d₁ f₁ p₁ a d₂ f₂ p₂ b
  cases dir
  · rfl
  · cases p₁ <;> cases p₂ <;> rfl

theorem tsbOps_tctxAt (base : TCtx ℝ) (Jx : StripXIntegrals) (Jy : StripYIntegrals) (i k j l : Nat) :
    tsbOps (tctxAt base Jx Jy i k j l) = tsbOps base := rfl

theorem tsbW_tctxAt (base : TCtx ℝ) (Jx : StripXIntegrals) (Jy : StripYIntegrals) (i k j l : Nat) :
    tsbW (tctxAt base Jx Jy i k j l) = tsbW base := rfl

theorem tsbW_nonneg (T : TCtx ℝ) (hkt : 0 ≤ T.kt) (q : Fin 4) : 0 ≤ tsbW T q := by
  fin_cases q <;> simp [tsbW, hkt]

/-- the integrals the T-stiffener kernels use ARE what their names say.  `X d f p i` : `D^d φ^f_i` along x of panel `p`;
`S d f j` : `D^d` of the SKIN's y function (in the bay coordinate η); `Bq d f j` : `D^d` of the BASE's y function (in its own η′);
`η = c0 + c1 η′` maps the base onto the strip `[c0 − c1, c0 + c1] = [η₁, η₂]` of the skin, `c1 > 0`. -/
structure RealStripIntegrals (Jx : StripXIntegrals) (Jy : StripYIntegrals) (X : Nat → Fld → Pan → Nat → ℝ → ℝ)
    (S Bq : Nat → Fld → Nat → ℝ → ℝ) (x₁ x₂ c0 c1 : ℝ) : Prop where
  contX : ∀ d f p i, Continuous (X d f p i)
  contS : ∀ d f j, Continuous (S d f j)
  contB : ∀ d f j, Continuous (Bq d f j)
  hx : x₁ ≤ x₂
  hc : 0 < c1
  eqx : ∀ d₁ f₁ p₁ a d₂ f₂ p₂ b, Jx d₁ f₁ p₁ a d₂ f₂ p₂ b = ∫ ξ in x₁..x₂, X d₁ f₁ p₁ a ξ * X d₂ f₂ p₂ b ξ
  strip : ∀ d₁ f₁ a d₂ f₂ b, Jy .strip d₁ f₁ .p1 a d₂ f₂ .p1 b = ∫ η in (c0 - c1)..(c0 + c1), S d₁ f₁ a η * S d₂ f₂ b η
  map : ∀ d₁ f₁ a d₂ f₂ b, Jy .map d₁ f₁ .p1 a d₂ f₂ .p2 b = ∫ t in (-1 : ℝ)..1, S d₁ f₁ a (c0 + c1 * t) * Bq d₂ f₂ b t
  full : ∀ d₁ f₁ a d₂ f₂ b, Jy .full d₁ f₁ .p2 a d₂ f₂ .p2 b = ∫ t in (-1 : ℝ)..1, Bq d₁ f₁ a t * Bq d₂ f₂ b t

/-- y functions of both panels in the base's coordinate -/
noncomputable def stripY (S Bq : Nat → Fld → Nat → ℝ → ℝ) (c0 c1 : ℝ) (d : Nat) (f : Fld) (p : Pan) (j : Nat) : ℝ → ℝ :=
  match p with
  | .p1 => fun t => S d f j (c0 + c1 * t)
  | .p2 => Bq d f j

theorem RealStripIntegrals.surf {Jx : StripXIntegrals} {Jy : StripYIntegrals} {X : Nat → Fld → Pan → Nat → ℝ → ℝ}
    {S Bq : Nat → Fld → Nat → ℝ → ℝ} {x₁ x₂ c0 c1 : ℝ} (hR : RealStripIntegrals Jx Jy X S Bq x₁ x₂ c0 c1) :
    RealSurfIntegrals (stripJ c1 Jx Jy) X (stripY S Bq c0 c1) x₁ x₂ (-1) 1 where
  contX := hR.contX
  contY d f p j := by
    cases p
    · exact (hR.contS d f j).comp (continuous_const.add (continuous_const.mul continuous_id))
    · exact hR.contB d f j
  hx := hR.hx
  hy := by norm_num
  eqx := hR.eqx
  eqy d₁ f₁ p₁ a d₂ f₂ p₂ b := by
    cases p₁ <;> cases p₂ <;> simp only [stripJ, stripY]
    · rw [hR.strip, div_eq_iff hR.hc.ne']
      have := intervalIntegral.smul_integral_comp_add_mul (a := (-1 : ℝ)) (b := 1)
        (fun η => S d₁ f₁ a η * S d₂ f₂ b η) c1 c0
      simp only [smul_eq_mul] at this
      rw [mul_comm, this]
      congr 1 <;> ring
    · exact hR.map _ _ _ _ _ _
    · rw [hR.map]
      simp only [mul_comm]
    · exact hR.full _ _ _ _ _ _

/-- entry of the symmetric skin–base connection matrix of a T stiffener for the row degree of freedom `(pA, ro, i, j)` and the
column one `(pB, co, k, l)`: blocks skin–skin, skin–base, base–base from the kernels, base–skin = transpose of skin–base -/
def stripEntry (pp pb bb : Fin 3 → Fin 3 → TCtx ℝ → ℝ) (base : TCtx ℝ) (Jx : StripXIntegrals) (Jy : StripYIntegrals)
    (pA pB : Pan) (ro co : Fin 3) (i k j l : Nat) : ℝ :=
  match pA, pB with
  | .p1, .p1 => pp ro co (tctxAt base Jx Jy i k j l)
  | .p1, .p2 => pb ro co (tctxAt base Jx Jy i k j l)
  | .p2, .p2 => bb ro co (tctxAt base Jx Jy i k j l)
  | .p2, .p1 => pb co ro (tctxAt base Jx Jy k i l j)

/-- `cᵀ K c ≥ 0` for the skin–base connection matrix over any finite family of degrees of freedom of skin and base -/
theorem stripEntry_psd {ι : Type} (pp pb bb : Fin 3 → Fin 3 → TCtx ℝ → ℝ) (base : TCtx ℝ) (Jx : StripXIntegrals)
    (Jy : StripYIntegrals) (hab : 0 ≤ base.a * (base.y2 - base.y1)) (hkt : 0 ≤ base.kt)
    (X : Nat → Fld → Pan → Nat → ℝ → ℝ) (S Bq : Nat → Fld → Nat → ℝ → ℝ) (x₁ x₂ c0 : ℝ)
    (hR : RealStripIntegrals Jx Jy X S Bq x₁ x₂ c0 base.c1)
    (hpp : ∀ ro co i k j l, pp ro co (tctxAt base Jx Jy i k j l)
      = surfHess (tctxAt base Jx Jy i k j l).toC (tsbOps base) (tsbW base) .p1 .p1 (fld3 ro) (fld3 co))
    (hpb : ∀ ro co i k j l, pb ro co (tctxAt base Jx Jy i k j l)
      = surfHess (tctxAt base Jx Jy i k j l).toC (tsbOps base) (tsbW base) .p1 .p2 (fld3 ro) (fld3 co))
    (hbb : ∀ ro co i k j l, bb ro co (tctxAt base Jx Jy i k j l)
      = surfHess (tctxAt base Jx Jy i k j l).toC (tsbOps base) (tsbW base) .p2 .p2 (fld3 ro) (fld3 co))
    (s : Finset ι) (pan : ι → Pan) (ro : ι → Fin 3) (ix iy : ι → Nat) (c : ι → ℝ) :
    0 ≤ ∑ A ∈ s, ∑ B ∈ s, c A * c B *
      stripEntry pp pb bb base Jx Jy (pan A) (pan B) (ro A) (ro B) (ix A) (ix B) (iy A) (iy B) := by
  have h : ∀ A B, stripEntry pp pb bb base Jx Jy (pan A) (pan B) (ro A) (ro B) (ix A) (ix B) (iy A) (iy B)
      = surfHess (cctxAt base.toC (stripJ base.c1 Jx Jy) noEvals (ix A) (ix B) (iy A) (iy B)) (tsbOps base) (tsbW base)
          (pan A) (pan B) (fld3 (ro A)) (fld3 (ro B)) := by
    intro A B
    unfold stripEntry
    cases pan A <;> cases pan B <;> simp only [hpp, hpb, hbb, tctxAt_toC]
    exact surfHess_transpose base.toC _ noEvals X _ x₁ x₂ (-1) 1 hR.surf (tsbOps base) (tsbW base) _ _ _ _ _ _ _ _
  simp only [h]
  exact surfHess_psd base.toC _ noEvals hab X _ x₁ x₂ (-1) 1 hR.surf (tsbOps base) (tsbW base) (tsbW_nonneg base hkt)
    s pan (fun A => fld3 (ro A)) ix iy c

/-! ### concrete instances (non-vacuity of the stiffener theorems of Props/C13) -/
namespace StiffExample
open ConnPSDExample

/-- skin functions along x and y: monomials `t^(i+d)`; base functions `(1 − t)^(i+d)` -/
def polyX (d : Nat) (f : Fld) (p : Pan) (i : Nat) (t : ℝ) : ℝ := mono d f p i t
def polyS (d : Nat) (_ : Fld) (j : Nat) (t : ℝ) : ℝ := t ^ (j + d)
def polyB (d : Nat) (_ : Fld) (j : Nat) (t : ℝ) : ℝ := (1 - t) ^ (j + d)

noncomputable def beamJ : BeamIntegrals :=
  fun d₁ f₁ a d₂ f₂ b => ∫ t in (-1 : ℝ)..1, polyS d₁ f₁ a t * polyS d₂ f₂ b t

noncomputable def beamE : BeamEvals := fun d f j => polyS d f j (1 / 3)

theorem beamJ_real : RealBeamIntegrals beamJ polyS (-1) 1 where
  cont d f i := by unfold polyS; fun_prop
  hx := by norm_num
  eq _ _ _ _ _ _ := rfl

theorem beamJ_comm (d₁ : Nat) (f₁ : Fld) (a d₂ : Nat) (f₂ : Fld) (b : Nat) : beamJ d₁ f₁ a d₂ f₂ b = beamJ d₂ f₂ b d₁ f₁ a := by
  unfold beamJ
  simp only [mul_comm]

/-- a blade: `a = 2`, `b = 3`, `bf = 1/20`, `h = 1/500`, `hb = 1/1000`, `df = bf/2 + hb + h/2`, `E1 = 10⁷`, `F1 = bf²/12·E1`,
`S1 = 10³`, `Jxx = 1`, `Fx = 50`, `μ = 1500`, `hf = 1/1000` -/
noncomputable def unitBlade : BCtx ℝ :=
  { a := 2, b := 3, bf := 1 / 20, df := 1 / 20 / 2 + 1 / 1000 + 1 / 500 / 2, E1 := 10000000, F1 := (1 / 20) ^ 2 / 12 * 10000000,
    S1 := 1000, Jxx := 1, Fx := 50, mu := 1500, h := 1 / 500, hb := 1 / 1000, hf := 1 / 1000,
    J := fun _ _ _ _ _ _ => 0, E := fun _ _ _ => 0 }

noncomputable def stripJx : StripXIntegrals :=
  fun d₁ f₁ p₁ a d₂ f₂ p₂ b => ∫ t in (-1 : ℝ)..1, polyX d₁ f₁ p₁ a t * polyX d₂ f₂ p₂ b t

/-- a T stiffener: `a = 2`, `b = 4`, strip `y1 = 1 … y2 = 2` (so `η₁ = −1/2`, `η₂ = 0`, `c0 = −1/4`, `c1 = 1/4`), `dpb = 1/100`, `kt = 1000` -/
noncomputable def unitT : TCtx ℝ :=
  { a := 2, b := 4, y1 := 1, y2 := 2, dpb := 1 / 100, kt := 1000, Jx := fun _ _ _ _ _ _ _ _ => 0, Jy := fun _ _ _ _ _ _ _ _ _ => 0 }

noncomputable def stripJy : StripYIntegrals :=
  fun dom d₁ f₁ _ a d₂ f₂ _ b =>
    match dom with
    | .strip => ∫ η in (-1 / 4 - 1 / 4 : ℝ)..(-1 / 4 + 1 / 4), polyS d₁ f₁ a η * polyS d₂ f₂ b η
    | .map => ∫ t in (-1 : ℝ)..1, polyS d₁ f₁ a (-1 / 4 + 1 / 4 * t) * polyB d₂ f₂ b t
    | .full => ∫ t in (-1 : ℝ)..1, polyB d₁ f₁ a t * polyB d₂ f₂ b t
    | .bad _ => 0

theorem unitT_c1 : unitT.c1 = 1 / 4 := by norm_num [TCtx.c1, unitT]

theorem strip_real : RealStripIntegrals stripJx stripJy polyX polyS polyB (-1) 1 (-1 / 4) unitT.c1 := by
  rw [unitT_c1]
  exact
  { contX := fun d f p i => mono_continuous d f p i
    contS := fun d f j => by unfold polyS; fun_prop
    contB := fun d f j => by unfold polyB; fun_prop
    hx := by norm_num
    hc := by norm_num
    eqx := fun _ _ _ _ _ _ _ _ => rfl
    strip := fun _ _ _ _ _ _ => rfl
    map := fun _ _ _ _ _ _ => rfl
    full := fun _ _ _ _ _ _ => rfl }

/-! data of the counter-example to positive semi-definiteness of the flange mass kernel AS ENCODED (`blade1d_kMf_not_psd_counterexample`):
one in-plane function `u = ξ·1` and one deflection function `w = (ξ²/2)·1` (so `w,ξ = ξ`; the y functions have value 1 and slope 0 on the
stiffener line), a blade with `a = 2`, `b = 1`, `bf = 1`, `h = hb = 0`, `df = bf/2`, `μ = hf = 1`, amplitudes `c_u = −1`, `c_w = 1` -/

noncomputable def cexX : Nat → Fld → Nat → ℝ → ℝ
  | 0, .u, _ => fun ξ => ξ
  | 0, .w, _ => fun ξ => ξ ^ 2 / 2
  | 1, .w, _ => fun ξ => ξ
  | _, _, _ => fun _ => 0

noncomputable def cexJ : BeamIntegrals :=
  fun d₁ f₁ a d₂ f₂ b => ∫ ξ in (-1 : ℝ)..1, cexX d₁ f₁ a ξ * cexX d₂ f₂ b ξ

def cexE : BeamEvals
  | 0, _, _ => 1
  | _, _, _ => 0

noncomputable def cexBlade : BCtx ℝ :=
  { a := 2, b := 1, bf := 1, df := 1 / 2, E1 := 0, F1 := 0, S1 := 0, Jxx := 0, Fx := 0, mu := 1, h := 0, hb := 0, hf := 1,
    J := fun _ _ _ _ _ _ => 0, E := fun _ _ _ => 0 }

/-- the two degrees of freedom: `true` ↦ the `u` function (offset 0), `false` ↦ the `w` function (offset 2) -/
def cexRo : Bool → Fin 3
  | true => 0
  | false => 2

def cexC : Bool → ℝ
  | true => -1
  | false => 1

theorem cexJ_real : RealBeamIntegrals cexJ cexX (-1) 1 where
  cont d f i := by
    match d, f with
    | 0, .u => exact continuous_id
    | 0, .w => exact (continuous_pow 2).div_const 2
    | 1, .w => exact continuous_id
    | 0, .v | 0, .other _ | 1, .u | 1, .v | 1, .other _ | _ + 2, _ => exact continuous_const
  hx := by norm_num
  eq _ _ _ _ _ _ := rfl

theorem cexJ_uu : cexJ 0 .u 0 0 .u 0 = 2 / 3 := by
  simp only [cexJ, cexX, ← pow_two, integral_pow]; norm_num
theorem cexJ_uw1 : cexJ 0 .u 0 1 .w 0 = 2 / 3 := by
  simp only [cexJ, cexX, ← pow_two, integral_pow]; norm_num
theorem cexJ_w1u : cexJ 1 .w 0 0 .u 0 = 2 / 3 := by
  simp only [cexJ, cexX, ← pow_two, integral_pow]; norm_num
theorem cexJ_w1w1 : cexJ 1 .w 0 1 .w 0 = 2 / 3 := by
  simp only [cexJ, cexX, ← pow_two, integral_pow]; norm_num
theorem cexJ_ww : cexJ 0 .w 0 0 .w 0 = 1 / 10 := by
  have h : ∀ ξ : ℝ, ξ ^ 2 / 2 * (ξ ^ 2 / 2) = 1 / 4 * ξ ^ 4 := fun ξ => by ring
  simp only [cexJ, cexX, h, intervalIntegral.integral_const_mul, integral_pow]; norm_num

end StiffExample

end Compmech.Panel
