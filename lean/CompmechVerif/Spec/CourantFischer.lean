/-
Courant–Fischer min–max theorem and one-sided Cauchy interlacing (helper file for C15; Mathlib allowed).
Mathlib (v4.33) has the spectral theorem for Hermitian matrices but no min–max theorem; this file derives it.

Layout
* `minmax_le_minmax_comp`, `minmax_comp_equiv` : behaviour of `Spec/Ritz.minmax` under injective linear maps / linear
  equivalences.
* `Diagonalised` : abstract core.  A pair of real functionals `q, p` on a real vector space that, in some linear
  coordinate system, read `q v = Σ μ_i c_i²`, `p v = Σ c_i²` with `μ` ascending.  For such a pair the Courant–Fischer
  value `minmax (q/p) (k+1) ⊤` IS `μ_k` (`Diagonalised.minmax_eq`); the two usable halves are `exists_low_space`
  (span of the first `k+1` coordinate vectors) and `exists_high_vector` (dimension count: a `(k+1)`-dimensional subspace
  meets the kernel of the first `k` coordinates).
* standard symmetric problem: `ascEigenvalues hA` (Mathlib's `eigenvalues₀`, which is antitone, read backwards),
  `spectral_real` (`A = U diag(λ) Uᵀ`), `stdDiag` (the spectral theorem delivers a `Diagonalised` structure),
  `minmax_eq_ascEigenvalues`, `exists_subspace_quad_le`, `exists_vector_quad_ge`, `ascEigenvalues_exists_eigenvector`,
  `exists_ascEigenvalues_eq_of_eigenvector`.
* principal sub-matrices: `extendVec` (extension by zero), `quad_extendVec`, `minmax_pencil_le_submatrix`,
  `ascEigenvalues_le_submatrix` (one-sided Cauchy interlacing).
* generalised symmetric-definite pencil `K v = λ M v`, `M` positive definite: `whiten` (`Cᵀ M C = 1`, built from the
  spectral decomposition of `M`), `genEigenvalues`, `genDiag`, `minmax_eq_genEigenvalues`, `genEigenvalues_le_submatrix`,
  `genEigenvalues_exists_eigenvector`, `exists_genEigenvalues_eq_of_eigenvector`, `genEigenvalues_one`.
* buckling pencil `(K + λ KG) v = 0`, `K` positive definite: `buckling_iff_pencil`, `bucklingMultiplier`,
  `bucklingMultiplier_le_submatrix` and its characterisation lemmas.
-/
import CompmechVerif.Spec.Ritz
import Mathlib.Analysis.Matrix.Spectrum
import Mathlib.Analysis.Matrix.PosDef
import Mathlib.Algebra.Order.Star.Real
import Mathlib.LinearAlgebra.FiniteDimensional.Lemmas
import Mathlib.LinearAlgebra.Dimension.Constructions
import Mathlib.LinearAlgebra.Pi
import Mathlib.Tactic.Ring
import Mathlib.Tactic.Linarith
import Mathlib.Tactic.Positivity

namespace Compmech.Ritz

open Module

/-! ### invariance of the min–max value under linear maps -/

section Transport

variable {E F : Type*} [AddCommGroup E] [Module ℝ E] [AddCommGroup F] [Module ℝ F]

/-- pulling the Rayleigh quotient back along an INJECTIVE linear map (restriction to a subspace) can only raise
the min–max values: every `k`-dimensional subspace of the source is carried to a `k`-dimensional subspace of the
target on which the quotient takes the same values -/
theorem minmax_le_minmax_comp (R : F → EReal) (k : ℕ) (f : E →ₗ[ℝ] F) (hf : Function.Injective f) :
    minmax R k ⊤ ≤ minmax (fun v => R (f v)) k ⊤ := by
  unfold minmax
  refine le_iInf fun W => ?_
  have hfin : finrank ℝ (W.1.map f) = k :=
    (Submodule.equivMapOfInjective f hf W.1).finrank_eq.symm.trans W.2.2
  refine iInf_le_of_le ⟨W.1.map f, le_top, hfin⟩ ?_
  refine iSup_le fun x => ?_
  obtain ⟨y, hyW, hy⟩ := x.2.1
  have hy0 : y ≠ 0 := by
    rintro rfl
    exact x.2.2 (by rw [← hy, map_zero])
  have : R x.1 = (fun v => R (f v)) y := by simp only [hy]
  rw [this]
  exact le_iSup (fun x : {x : E // x ∈ W.1 ∧ x ≠ 0} => R (f x.1)) ⟨y, hyW, hy0⟩

/-- the min–max values do not change under a linear change of variables -/
theorem minmax_comp_equiv (R : F → EReal) (k : ℕ) (f : E ≃ₗ[ℝ] F) :
    minmax (fun v => R (f v)) k ⊤ = minmax R k ⊤ := by
  apply le_antisymm
  · have h := minmax_le_minmax_comp (fun v => R (f v)) k f.symm.toLinearMap f.symm.injective
    simpa using h
  · exact minmax_le_minmax_comp R k f.toLinearMap f.injective

end Transport

/-! ### abstract core -/

/-- the Rayleigh quotient `q v / p v` of two real functionals, as a value of `EReal` (the codomain `Spec/Ritz.minmax`
works in) -/
noncomputable def rayleigh {E : Type*} (q p : E → ℝ) (v : E) : EReal := ((q v / p v : ℝ) : EReal)

/-- `q` and `p` are simultaneously diagonal in the coordinates `coord`: `q v = Σ μ_i c_i²`, `p v = Σ c_i²`,
`μ` ascending -/
structure Diagonalised {E : Type*} [AddCommGroup E] [Module ℝ E] (n : ℕ) (q p : E → ℝ) (mu : Fin n → ℝ) where
  coord : E ≃ₗ[ℝ] (Fin n → ℝ)
  mono : Monotone mu
  hq : ∀ v, q v = ∑ i, mu i * (coord v i) ^ 2
  hp : ∀ v, p v = ∑ i, (coord v i) ^ 2

namespace Diagonalised

variable {E : Type*} [AddCommGroup E] [Module ℝ E] {n : ℕ} {q p : E → ℝ} {mu : Fin n → ℝ}

theorem p_nonneg (D : Diagonalised n q p mu) (v : E) : 0 ≤ p v := by
  rw [D.hp]; exact Finset.sum_nonneg fun i _ => sq_nonneg _

theorem p_pos (D : Diagonalised n q p mu) {v : E} (hv : v ≠ 0) : 0 < p v := by
  rw [D.hp]
  have hc : D.coord v ≠ 0 := fun h => hv (by simpa using h)
  obtain ⟨i, hi⟩ := Function.ne_iff.mp hc
  have hi' : D.coord v i ≠ 0 := by simpa using hi
  exact Finset.sum_pos' (fun i _ => sq_nonneg _) ⟨i, Finset.mem_univ _, by positivity⟩

theorem finiteDimensional (D : Diagonalised n q p mu) : FiniteDimensional ℝ E :=
  LinearEquiv.finiteDimensional D.coord.symm

/-- half (a): there is a `(k+1)`-dimensional subspace (spanned by the first `k+1` coordinate vectors) on which
`q ≤ μ_k p` -/
theorem exists_low_space (D : Diagonalised n q p mu) (k : Fin n) :
    ∃ W : Submodule ℝ E, finrank ℝ W = (k : ℕ) + 1 ∧ ∀ v ∈ W, q v ≤ mu k * p v := by
  classical
  let b : Basis (Fin n) ℝ E := Basis.ofEquivFun D.coord
  have hk : (k : ℕ) + 1 ≤ n := k.2
  let g : Fin ((k : ℕ) + 1) → E := fun j => b (Fin.castLE hk j)
  have hg : LinearIndependent ℝ g :=
    b.linearIndependent.comp _ (Fin.castLE_injective hk)
  let S : Submodule ℝ E :=
    { carrier := {v | ∀ j : Fin n, (k : ℕ) < j → D.coord v j = 0}
      add_mem' := by
        intro a c ha hc j hj
        simp [ha j hj, hc j hj]
      zero_mem' := by intro j _; simp
      smul_mem' := by
        intro r a ha j hj
        simp [ha j hj] }
  refine ⟨Submodule.span ℝ (Set.range g), ?_, ?_⟩
  · rw [finrank_span_eq_card hg, Fintype.card_fin]
  · have hle : Submodule.span ℝ (Set.range g) ≤ S := by
      rw [Submodule.span_le]
      rintro _ ⟨j, rfl⟩ i hi
      have : D.coord (b (Fin.castLE hk j)) = Pi.single (Fin.castLE hk j) 1 := by
        simp [b, Basis.ofEquivFun]
      rw [this]
      have hne : i ≠ Fin.castLE hk j := by
        intro h
        have := congrArg Fin.val h
        simp at this
        omega
      simp [hne]
    intro v hv
    have hS := hle hv
    rw [D.hq, D.hp, Finset.mul_sum]
    refine Finset.sum_le_sum fun i _ => ?_
    by_cases hi : (k : ℕ) < i
    · have : D.coord v i = 0 := hS i hi
      simp [this]
    · have hik : i ≤ k := by
        rw [Fin.le_def]; omega
      exact mul_le_mul_of_nonneg_right (D.mono hik) (sq_nonneg _)

/-- half (b): every `(k+1)`-dimensional subspace contains a non-zero vector whose first `k` coordinates vanish,
and on such a vector `q ≥ μ_k p` -/
theorem exists_high_vector (D : Diagonalised n q p mu) (k : Fin n) (W : Submodule ℝ E)
    (hW : finrank ℝ W = (k : ℕ) + 1) : ∃ v ∈ W, v ≠ 0 ∧ mu k * p v ≤ q v := by
  classical
  have := D.finiteDimensional
  have hk : (k : ℕ) ≤ n := le_of_lt k.2
  -- the first `k` coordinates, restricted to `W`
  let π : (Fin n → ℝ) →ₗ[ℝ] (Fin (k : ℕ) → ℝ) := LinearMap.funLeft ℝ ℝ (Fin.castLE hk)
  let f : W →ₗ[ℝ] (Fin (k : ℕ) → ℝ) := π ∘ₗ D.coord.toLinearMap ∘ₗ W.subtype
  have hlt : finrank ℝ (Fin (k : ℕ) → ℝ) < finrank ℝ W := by
    rw [hW, Module.finrank_fin_fun]; omega
  have hker := LinearMap.ker_ne_bot_of_finrank_lt (f := f) hlt
  obtain ⟨w, hwker, hw0⟩ := Submodule.exists_mem_ne_zero_of_ne_bot hker
  refine ⟨w.1, w.2, fun h => hw0 (Subtype.ext h), ?_⟩
  have hvan : ∀ i : Fin n, (i : ℕ) < k → D.coord w.1 i = 0 := by
    intro i hi
    have h1 : f w = 0 := hwker
    have h2 := congrFun h1 ⟨i, hi⟩
    simpa [f, π, LinearMap.funLeft] using h2
  rw [D.hq, D.hp, Finset.mul_sum]
  refine Finset.sum_le_sum fun i _ => ?_
  by_cases hi : (i : ℕ) < k
  · simp [hvan i hi]
  · have hki : k ≤ i := by
      rw [Fin.le_def]; omega
    exact mul_le_mul_of_nonneg_right (D.mono hki) (sq_nonneg _)

/-- **Courant–Fischer**, abstract form: the `k`-th (0-based) diagonal value is the min–max value of the Rayleigh
quotient over the `(k+1)`-dimensional subspaces of the whole space -/
theorem minmax_eq (D : Diagonalised n q p mu) (k : Fin n) :
    minmax (rayleigh q p) ((k : ℕ) + 1) ⊤ = ((mu k : ℝ) : EReal) := by
  apply le_antisymm
  · obtain ⟨W, hW, hWq⟩ := D.exists_low_space k
    unfold minmax
    refine iInf_le_of_le ⟨W, le_top, hW⟩ ?_
    refine iSup_le fun x => ?_
    unfold rayleigh
    rw [EReal.coe_le_coe_iff, div_le_iff₀ (D.p_pos x.2.2)]
    exact hWq x.1 x.2.1
  · unfold minmax
    refine le_iInf fun W => ?_
    obtain ⟨v, hvW, hv0, hv⟩ := D.exists_high_vector k W.1 W.2.2
    refine le_iSup_of_le ⟨v, hvW, hv0⟩ ?_
    unfold rayleigh
    rw [EReal.coe_le_coe_iff, le_div_iff₀ (D.p_pos hv0)]
    exact hv

end Diagonalised

/-! ### matrices: quadratic forms, congruence, extension by zero -/

section Matrices

open Matrix

variable {n m : ℕ}

/-- the quadratic form `vᵀ A v` -/
def quad (A : Matrix (Fin n) (Fin n) ℝ) (v : Fin n → ℝ) : ℝ := v ⬝ᵥ A *ᵥ v

/-- the Rayleigh quotient `(vᵀ K v)/(vᵀ M v)` of the pencil `(K, M)` (standard problem: `M = 1`) -/
noncomputable def pencilRayleigh (K M : Matrix (Fin n) (Fin n) ℝ) : (Fin n → ℝ) → EReal :=
  rayleigh (quad K) (quad M)

theorem quad_one (v : Fin n → ℝ) : quad 1 v = ∑ i, v i ^ 2 := by
  simp [quad, dotProduct, sq]

theorem quad_diagonal (d : Fin n → ℝ) (v : Fin n → ℝ) : quad (diagonal d) v = ∑ i, d i * v i ^ 2 := by
  simp only [quad, dotProduct, mulVec_diagonal]
  exact Finset.sum_congr rfl fun i _ => by ring

/-- congruence: `(C w)ᵀ K (C w) = wᵀ (Cᵀ K C) w` -/
theorem quad_mulVec (K C : Matrix (Fin n) (Fin n) ℝ) (w : Fin n → ℝ) :
    quad K (C *ᵥ w) = quad (Cᵀ * K * C) w := by
  simp only [quad]
  rw [← mulVec_mulVec, ← mulVec_mulVec, dotProduct_mulVec w Cᵀ, vecMul_transpose]

end Matrices

/-! ### the standard symmetric eigenvalue problem -/

section Standard

open Matrix

variable {n : ℕ} {A : Matrix (Fin n) (Fin n) ℝ}

/-- position, in Mathlib's DESCENDING list `eigenvalues₀`, of the `k`-th smallest eigenvalue -/
def revIdx (n : ℕ) : Fin n ≃ Fin (Fintype.card (Fin n)) :=
  Fin.revPerm.trans (finCongr (Fintype.card_fin n).symm)

/-- the eigenvalues of a real symmetric matrix in ASCENDING order, `λ₀ ≤ λ₁ ≤ … ≤ λ_{n-1}`, with multiplicity
(Mathlib's `Matrix.IsHermitian.eigenvalues₀`, which is descending, read backwards) -/
noncomputable def ascEigenvalues (hA : A.IsHermitian) (k : Fin n) : ℝ := hA.eigenvalues₀ (revIdx n k)

theorem ascEigenvalues_monotone (hA : A.IsHermitian) : Monotone (ascEigenvalues hA) := by
  intro i j hij
  apply hA.eigenvalues₀_antitone
  simp only [revIdx, Equiv.trans_apply, Fin.revPerm_apply, finCongr_apply, Fin.cast_le_cast, Fin.rev_le_rev]
  exact hij

theorem ascEigenvalues_congr {A B : Matrix (Fin n) (Fin n) ℝ} (h : A = B) (hA : A.IsHermitian)
    (hB : B.IsHermitian) (k : Fin n) : ascEigenvalues hA k = ascEigenvalues hB k := by
  subst h; rfl

/-- the permutation that sorts Mathlib's `Fin n`-indexed `eigenvalues` ascending -/
noncomputable def sortPerm (n : ℕ) : Fin n ≃ Fin n :=
  (revIdx n).trans (Fintype.equivOfCardEq (Fintype.card_fin _))

theorem eigenvalues_sortPerm (hA : A.IsHermitian) (k : Fin n) :
    hA.eigenvalues (sortPerm n k) = ascEigenvalues hA k := by
  simp [IsHermitian.eigenvalues, sortPerm, ascEigenvalues]

/-- every ascending eigenvalue is an eigenvalue of `A` (Mathlib's `eigenvalues`, which come with eigenvectors:
`Matrix.IsHermitian.mulVec_eigenvectorBasis`), and conversely -/
theorem ascEigenvalues_eq (hA : A.IsHermitian) (i : Fin n) :
    ascEigenvalues hA ((sortPerm n).symm i) = hA.eigenvalues i := by
  rw [← eigenvalues_sortPerm, Equiv.apply_symm_apply]

theorem eigenvectorUnitary_transpose_mul (hA : A.IsHermitian) :
    (hA.eigenvectorUnitary : Matrix (Fin n) (Fin n) ℝ)ᵀ * (hA.eigenvectorUnitary : Matrix (Fin n) (Fin n) ℝ) = 1 := by
  have h := Unitary.coe_star_mul_self hA.eigenvectorUnitary
  rwa [star_eq_conjTranspose, conjTranspose_eq_transpose_of_trivial] at h

theorem eigenvectorUnitary_mul_transpose (hA : A.IsHermitian) :
    (hA.eigenvectorUnitary : Matrix (Fin n) (Fin n) ℝ) * (hA.eigenvectorUnitary : Matrix (Fin n) (Fin n) ℝ)ᵀ = 1 := by
  have h := Unitary.coe_mul_star_self hA.eigenvectorUnitary
  rwa [Unitary.coe_star, star_eq_conjTranspose, conjTranspose_eq_transpose_of_trivial] at h

/-- the spectral theorem over ℝ in plain matrix form: `A = U diag(λ) Uᵀ` -/
theorem spectral_real (hA : A.IsHermitian) :
    A = (hA.eigenvectorUnitary : Matrix (Fin n) (Fin n) ℝ) * diagonal hA.eigenvalues *
      (hA.eigenvectorUnitary : Matrix (Fin n) (Fin n) ℝ)ᵀ := by
  have h := hA.spectral_theorem
  rw [Unitary.conjStarAlgAut_apply, star_eq_conjTranspose, conjTranspose_eq_transpose_of_trivial] at h
  simpa using h

/-- each ascending eigenvalue has an eigenvector: `A v = λ_k v`, `v ≠ 0` -/
theorem ascEigenvalues_exists_eigenvector (hA : A.IsHermitian) (k : Fin n) :
    ∃ v : Fin n → ℝ, v ≠ 0 ∧ A *ᵥ v = ascEigenvalues hA k • v := by
  refine ⟨⇑(hA.eigenvectorBasis (sortPerm n k)), ?_, ?_⟩
  · intro h
    apply hA.eigenvectorBasis.orthonormal.ne_zero (sortPerm n k)
    ext i
    simpa using congrFun h i
  · rw [hA.mulVec_eigenvectorBasis, eigenvalues_sortPerm]

/-- conversely every eigenvalue (`A v = μ v` for some `v ≠ 0`) occurs in the ascending list -/
theorem exists_ascEigenvalues_eq_of_eigenvector (hA : A.IsHermitian) {μ : ℝ} {v : Fin n → ℝ} (hv : v ≠ 0)
    (h : A *ᵥ v = μ • v) : ∃ k, ascEigenvalues hA k = μ := by
  set U : Matrix (Fin n) (Fin n) ℝ := (hA.eigenvectorUnitary : Matrix (Fin n) (Fin n) ℝ) with hU
  have hc : Uᵀ *ᵥ v ≠ 0 := by
    intro h0
    apply hv
    have : U *ᵥ (Uᵀ *ᵥ v) = v := by
      rw [mulVec_mulVec, hU, eigenvectorUnitary_mul_transpose, one_mulVec]
    rw [← this, h0, mulVec_zero]
  obtain ⟨i, hi⟩ := Function.ne_iff.mp hc
  have hi' : (Uᵀ *ᵥ v) i ≠ 0 := by simpa using hi
  have hD : Uᵀ * A = diagonal hA.eigenvalues * Uᵀ := by
    conv_lhs => rw [spectral_real hA]
    rw [← hU, ← Matrix.mul_assoc, ← Matrix.mul_assoc, hU, eigenvectorUnitary_transpose_mul, Matrix.one_mul]
  have h2 : diagonal hA.eigenvalues *ᵥ (Uᵀ *ᵥ v) = μ • (Uᵀ *ᵥ v) := by
    rw [mulVec_mulVec, ← hD, ← mulVec_mulVec, h, mulVec_smul]
  have h3 := congrFun h2 i
  rw [mulVec_diagonal, Pi.smul_apply, smul_eq_mul] at h3
  refine ⟨(sortPerm n).symm i, ?_⟩
  rw [ascEigenvalues_eq]
  exact mul_right_cancel₀ hi' h3

/-- the spectral theorem puts `(vᵀAv, vᵀv)` in the diagonal form the abstract core needs: coordinates
`c_k = (Uᵀ v)` at the position of the `k`-th smallest eigenvalue -/
noncomputable def stdDiag (hA : A.IsHermitian) : Diagonalised n (quad A) (quad 1) (ascEigenvalues hA) where
  coord := (Matrix.toLin'OfInv (eigenvectorUnitary_mul_transpose hA) (eigenvectorUnitary_transpose_mul hA)).trans
    (LinearEquiv.funCongrLeft ℝ ℝ (sortPerm n))
  mono := ascEigenvalues_monotone hA
  hq := by
    intro v
    have h1 : quad A v = quad (diagonal hA.eigenvalues)
        ((hA.eigenvectorUnitary : Matrix (Fin n) (Fin n) ℝ)ᵀ *ᵥ v) := by
      rw [quad_mulVec, transpose_transpose, ← spectral_real hA]
    rw [h1, quad_diagonal, ← Equiv.sum_comp (sortPerm n)]
    refine Finset.sum_congr rfl fun k _ => ?_
    rw [eigenvalues_sortPerm]
    simp [LinearMap.funLeft]
  hp := by
    intro v
    have h1 : quad 1 v = quad 1 ((hA.eigenvectorUnitary : Matrix (Fin n) (Fin n) ℝ)ᵀ *ᵥ v) := by
      rw [quad_mulVec, transpose_transpose, Matrix.mul_one, eigenvectorUnitary_mul_transpose]
    rw [h1, quad_one, ← Equiv.sum_comp (sortPerm n)]
    refine Finset.sum_congr rfl fun k _ => ?_
    simp [LinearMap.funLeft]

/-- **Courant–Fischer** for a real symmetric matrix: the `k`-th smallest eigenvalue (0-based, with multiplicity) is
the minimum over the `(k+1)`-dimensional subspaces `S` of `ℝⁿ` of the maximum over `0 ≠ v ∈ S` of
`(vᵀ A v)/(vᵀ v)` — in the vocabulary of `Spec/Ritz` -/
theorem minmax_eq_ascEigenvalues (hA : A.IsHermitian) (k : Fin n) :
    minmax (pencilRayleigh A 1) ((k : ℕ) + 1) ⊤ = ((ascEigenvalues hA k : ℝ) : EReal) :=
  (stdDiag hA).minmax_eq k

/-- Courant–Fischer, "min is attained" half: a `(k+1)`-dimensional subspace on which `vᵀAv ≤ λ_k vᵀv` -/
theorem exists_subspace_quad_le (hA : A.IsHermitian) (k : Fin n) :
    ∃ W : Submodule ℝ (Fin n → ℝ), finrank ℝ W = (k : ℕ) + 1 ∧
      ∀ v ∈ W, v ⬝ᵥ A *ᵥ v ≤ ascEigenvalues hA k * (v ⬝ᵥ v) := by
  obtain ⟨W, hW, h⟩ := (stdDiag hA).exists_low_space k
  refine ⟨W, hW, fun v hv => ?_⟩
  simpa [quad] using h v hv

/-- Courant–Fischer, "no subspace does better" half: every `(k+1)`-dimensional subspace contains a non-zero `v`
with `vᵀAv ≥ λ_k vᵀv` -/
theorem exists_vector_quad_ge (hA : A.IsHermitian) (k : Fin n) (W : Submodule ℝ (Fin n → ℝ))
    (hW : finrank ℝ W = (k : ℕ) + 1) :
    ∃ v ∈ W, v ≠ 0 ∧ ascEigenvalues hA k * (v ⬝ᵥ v) ≤ v ⬝ᵥ A *ᵥ v := by
  obtain ⟨v, hv, hv0, h⟩ := (stdDiag hA).exists_high_vector k W hW
  exact ⟨v, hv, hv0, by simpa [quad] using h⟩

end Standard

/-! ### principal sub-matrices: one-sided Cauchy interlacing -/

section Interlacing

open Matrix

variable {n m : ℕ}

/-- extension of a small amplitude vector by zeros along the index embedding `e` -/
noncomputable def extendVec (e : Fin m → Fin n) : (Fin m → ℝ) →ₗ[ℝ] (Fin n → ℝ) :=
  Function.ExtendByZero.linearMap ℝ e

theorem extendVec_injective {e : Fin m → Fin n} (he : Function.Injective e) :
    Function.Injective (extendVec e) :=
  Function.extend_injective he 0

theorem sum_extendVec_mul {e : Fin m → Fin n} (he : Function.Injective e) (v : Fin m → ℝ) (g : Fin n → ℝ) :
    ∑ j, extendVec e v j * g j = ∑ i, v i * g (e i) := by
  symm
  refine Fintype.sum_of_injective e he _ _ ?_ ?_
  · intro j hj
    have : extendVec e v j = 0 := by
      simp only [extendVec, Function.ExtendByZero.linearMap_apply]
      rw [Function.extend_apply' _ _ _ (by simpa using hj)]
      rfl
    rw [this, zero_mul]
  · intro i
    simp only [extendVec, Function.ExtendByZero.linearMap_apply]
    rw [he.extend_apply]

/-- the quadratic form of the large matrix on a zero-extended vector is the quadratic form of the principal
sub-matrix -/
theorem quad_extendVec (A : Matrix (Fin n) (Fin n) ℝ) {e : Fin m → Fin n} (he : Function.Injective e)
    (v : Fin m → ℝ) : quad A (extendVec e v) = quad (A.submatrix e e) v := by
  simp only [quad, dotProduct]
  rw [sum_extendVec_mul he]
  refine Finset.sum_congr rfl fun i _ => ?_
  congr 1
  simp only [mulVec, dotProduct, submatrix_apply]
  have h := sum_extendVec_mul he v (fun l => A (e i) l)
  calc ∑ x, A (e i) x * extendVec e v x = ∑ x, extendVec e v x * A (e i) x :=
        Finset.sum_congr rfl fun l _ => mul_comm _ _
    _ = ∑ i', v i' * A (e i) (e i') := h
    _ = ∑ i', A (e i) (e i') * v i' := Finset.sum_congr rfl fun l _ => mul_comm _ _

/-- restriction to a principal sub-pencil can only raise every min–max value of the pencil's Rayleigh quotient
(any `K`, `M`; no symmetry or definiteness needed at this level) -/
theorem minmax_pencil_le_submatrix (K M : Matrix (Fin n) (Fin n) ℝ) {e : Fin m → Fin n}
    (he : Function.Injective e) (k : ℕ) :
    minmax (pencilRayleigh K M) k ⊤ ≤ minmax (pencilRayleigh (K.submatrix e e) (M.submatrix e e)) k ⊤ := by
  have h := minmax_le_minmax_comp (pencilRayleigh K M) k (extendVec e) (extendVec_injective he)
  have hR : (fun v => pencilRayleigh K M (extendVec e v)) =
      pencilRayleigh (K.submatrix e e) (M.submatrix e e) := by
    funext v
    simp only [pencilRayleigh, rayleigh, quad_extendVec _ he]
  rwa [hR] at h

/-- an index embedding `Fin m → Fin n` exists only for `m ≤ n` -/
theorem le_of_injective {e : Fin m → Fin n} (he : Function.Injective e) : m ≤ n := by
  simpa using Fintype.card_le_of_injective e he

/-- **Cauchy interlacing, one-sided**: if `B = A.submatrix e e` is a principal sub-matrix (on `m` of the `n`
indices) of the real symmetric matrix `A`, then for every `k < m` the `k`-th smallest eigenvalue of `A` is at most
the `k`-th smallest eigenvalue of `B` -/
theorem ascEigenvalues_le_submatrix {A : Matrix (Fin n) (Fin n) ℝ} (hA : A.IsHermitian) {e : Fin m → Fin n}
    (he : Function.Injective e) (hB : (A.submatrix e e).IsHermitian) (k : Fin m) :
    ascEigenvalues hA (Fin.castLE (le_of_injective he) k) ≤ ascEigenvalues hB k := by
  have h := minmax_pencil_le_submatrix A 1 he ((k : ℕ) + 1)
  rw [submatrix_one e he, minmax_eq_ascEigenvalues hB k] at h
  have h2 := minmax_eq_ascEigenvalues hA (Fin.castLE (le_of_injective he) k)
  simp only [Fin.val_castLE] at h2
  rw [h2, EReal.coe_le_coe_iff] at h
  exact h

end Interlacing

/-! ### the generalised symmetric-definite pencil `K v = λ M v` -/

section Generalised

open Matrix

variable {n m : ℕ} {K M : Matrix (Fin n) (Fin n) ℝ}

/-- a whitening matrix of the positive definite `M = U diag(d) Uᵀ`: `C = U diag(1/√d)`, so that `Cᵀ M C = 1`
(any other choice — Cholesky factor, `M^{-1/2}` — gives the same generalised eigenvalues: they are fixed by the
min–max formula `minmax_eq_genEigenvalues`, whose left-hand side does not mention `C`) -/
noncomputable def whiten (hM : M.PosDef) : Matrix (Fin n) (Fin n) ℝ :=
  (hM.1.eigenvectorUnitary : Matrix (Fin n) (Fin n) ℝ) * diagonal fun i => (Real.sqrt (hM.1.eigenvalues i))⁻¹

/-- its inverse `diag(√d) Uᵀ` -/
noncomputable def whitenInv (hM : M.PosDef) : Matrix (Fin n) (Fin n) ℝ :=
  (diagonal fun i => Real.sqrt (hM.1.eigenvalues i)) * (hM.1.eigenvectorUnitary : Matrix (Fin n) (Fin n) ℝ)ᵀ

theorem sqrt_eigenvalues_ne_zero (hM : M.PosDef) (i : Fin n) : Real.sqrt (hM.1.eigenvalues i) ≠ 0 :=
  (Real.sqrt_pos.mpr (hM.eigenvalues_pos i)).ne'

theorem whiten_mul_whitenInv (hM : M.PosDef) : whiten hM * whitenInv hM = 1 := by
  unfold whiten whitenInv
  have hd : (diagonal fun i => (Real.sqrt (hM.1.eigenvalues i))⁻¹) *
      (diagonal fun i => Real.sqrt (hM.1.eigenvalues i)) = 1 := by
    rw [diagonal_mul_diagonal, ← diagonal_one]
    congr 1
    funext i
    exact inv_mul_cancel₀ (sqrt_eigenvalues_ne_zero hM i)
  calc _ = (hM.1.eigenvectorUnitary : Matrix (Fin n) (Fin n) ℝ) *
        ((diagonal fun i => (Real.sqrt (hM.1.eigenvalues i))⁻¹) *
          (diagonal fun i => Real.sqrt (hM.1.eigenvalues i))) *
        (hM.1.eigenvectorUnitary : Matrix (Fin n) (Fin n) ℝ)ᵀ := by simp only [Matrix.mul_assoc]
    _ = 1 := by rw [hd, Matrix.mul_one, eigenvectorUnitary_mul_transpose]

theorem whitenInv_mul_whiten (hM : M.PosDef) : whitenInv hM * whiten hM = 1 := by
  unfold whiten whitenInv
  have hd : (diagonal fun i => Real.sqrt (hM.1.eigenvalues i)) *
      (diagonal fun i => (Real.sqrt (hM.1.eigenvalues i))⁻¹) = 1 := by
    rw [diagonal_mul_diagonal, ← diagonal_one]
    congr 1
    funext i
    exact mul_inv_cancel₀ (sqrt_eigenvalues_ne_zero hM i)
  calc _ = (diagonal fun i => Real.sqrt (hM.1.eigenvalues i)) *
        ((hM.1.eigenvectorUnitary : Matrix (Fin n) (Fin n) ℝ)ᵀ *
          (hM.1.eigenvectorUnitary : Matrix (Fin n) (Fin n) ℝ)) *
        (diagonal fun i => (Real.sqrt (hM.1.eigenvalues i))⁻¹) := by simp only [Matrix.mul_assoc]
    _ = 1 := by rw [eigenvectorUnitary_transpose_mul, Matrix.mul_one, hd]

/-- `Cᵀ M C = 1` -/
theorem whiten_congr (hM : M.PosDef) : (whiten hM)ᵀ * M * whiten hM = 1 := by
  have hd : (diagonal fun i => (Real.sqrt (hM.1.eigenvalues i))⁻¹) * diagonal hM.1.eigenvalues *
      (diagonal fun i => (Real.sqrt (hM.1.eigenvalues i))⁻¹) = 1 := by
    rw [diagonal_mul_diagonal, diagonal_mul_diagonal, ← diagonal_one]
    congr 1
    funext i
    have h0 := sqrt_eigenvalues_ne_zero hM i
    have h1 : Real.sqrt (hM.1.eigenvalues i) * Real.sqrt (hM.1.eigenvalues i) = hM.1.eigenvalues i :=
      Real.mul_self_sqrt (hM.eigenvalues_pos i).le
    field_simp
    rw [sq, h1]
  have hs := spectral_real hM.1
  calc (whiten hM)ᵀ * M * whiten hM
      = (whiten hM)ᵀ * ((hM.1.eigenvectorUnitary : Matrix (Fin n) (Fin n) ℝ) * diagonal hM.1.eigenvalues *
          (hM.1.eigenvectorUnitary : Matrix (Fin n) (Fin n) ℝ)ᵀ) * whiten hM := by rw [← hs]
    _ = (diagonal fun i => (Real.sqrt (hM.1.eigenvalues i))⁻¹) *
        ((hM.1.eigenvectorUnitary : Matrix (Fin n) (Fin n) ℝ)ᵀ *
          (hM.1.eigenvectorUnitary : Matrix (Fin n) (Fin n) ℝ)) * diagonal hM.1.eigenvalues *
        ((hM.1.eigenvectorUnitary : Matrix (Fin n) (Fin n) ℝ)ᵀ *
          (hM.1.eigenvectorUnitary : Matrix (Fin n) (Fin n) ℝ)) *
        (diagonal fun i => (Real.sqrt (hM.1.eigenvalues i))⁻¹) := by
          unfold whiten
          rw [transpose_mul, diagonal_transpose]
          simp only [Matrix.mul_assoc]
    _ = 1 := by rw [eigenvectorUnitary_transpose_mul, Matrix.mul_one, Matrix.mul_one, hd]

/-- the pencil reduced to standard form: `Cᵀ K C` -/
noncomputable def whitened (hM : M.PosDef) (K : Matrix (Fin n) (Fin n) ℝ) : Matrix (Fin n) (Fin n) ℝ :=
  (whiten hM)ᵀ * K * whiten hM

theorem whitened_isHermitian (hK : K.IsHermitian) (hM : M.PosDef) : (whitened hM K).IsHermitian := by
  have h := isHermitian_conjTranspose_mul_mul (whiten hM) hK
  rwa [conjTranspose_eq_transpose_of_trivial] at h

/-- the generalised eigenvalues of the pencil `K v = λ M v` (`K` symmetric, `M` positive definite), ASCENDING, with
multiplicity: the eigenvalues of the whitened matrix `Cᵀ K C` -/
noncomputable def genEigenvalues (hK : K.IsHermitian) (hM : M.PosDef) (k : Fin n) : ℝ :=
  ascEigenvalues (whitened_isHermitian hK hM) k

theorem genEigenvalues_congr {K K' M M' : Matrix (Fin n) (Fin n) ℝ} (hKK : K = K') (hMM : M = M')
    (hK : K.IsHermitian) (hM : M.PosDef) (hK' : K'.IsHermitian) (hM' : M'.PosDef) (k : Fin n) :
    genEigenvalues hK hM k = genEigenvalues hK' hM' k := by
  subst hKK hMM; rfl

theorem genEigenvalues_monotone (hK : K.IsHermitian) (hM : M.PosDef) : Monotone (genEigenvalues hK hM) :=
  ascEigenvalues_monotone _

/-- `(vᵀKv, vᵀMv)` is simultaneously diagonalised by the coordinates `Uᵀ C⁻¹ v` -/
noncomputable def genDiag (hK : K.IsHermitian) (hM : M.PosDef) :
    Diagonalised n (quad K) (quad M) (genEigenvalues hK hM) where
  coord := (Matrix.toLin'OfInv (whiten_mul_whitenInv hM) (whitenInv_mul_whiten hM)).trans
    (stdDiag (whitened_isHermitian hK hM)).coord
  mono := genEigenvalues_monotone hK hM
  hq := by
    intro v
    have hv : whiten hM *ᵥ (whitenInv hM *ᵥ v) = v := by
      rw [mulVec_mulVec, whiten_mul_whitenInv, one_mulVec]
    have h1 : quad K v = quad (whitened hM K) (whitenInv hM *ᵥ v) := by
      rw [whitened, ← quad_mulVec, hv]
    rw [h1, (stdDiag (whitened_isHermitian hK hM)).hq]
    rfl
  hp := by
    intro v
    have hv : whiten hM *ᵥ (whitenInv hM *ᵥ v) = v := by
      rw [mulVec_mulVec, whiten_mul_whitenInv, one_mulVec]
    have h1 : quad M v = quad 1 (whitenInv hM *ᵥ v) := by
      rw [← whiten_congr hM, ← quad_mulVec, hv]
    rw [h1, (stdDiag (whitened_isHermitian hK hM)).hp]
    rfl

/-- **Courant–Fischer for the generalised pencil**: the `k`-th smallest generalised eigenvalue is the min–max value
of the Rayleigh quotient `(vᵀKv)/(vᵀMv)` over the `(k+1)`-dimensional subspaces -/
theorem minmax_eq_genEigenvalues (hK : K.IsHermitian) (hM : M.PosDef) (k : Fin n) :
    minmax (pencilRayleigh K M) ((k : ℕ) + 1) ⊤ = ((genEigenvalues hK hM k : ℝ) : EReal) :=
  (genDiag hK hM).minmax_eq k

/-- each generalised eigenvalue solves the pencil equation: `K v = λ_k M v` for some `v ≠ 0` -/
theorem genEigenvalues_exists_eigenvector (hK : K.IsHermitian) (hM : M.PosDef) (k : Fin n) :
    ∃ v : Fin n → ℝ, v ≠ 0 ∧ K *ᵥ v = genEigenvalues hK hM k • M *ᵥ v := by
  obtain ⟨u, hu0, hu⟩ := ascEigenvalues_exists_eigenvector (whitened_isHermitian hK hM) k
  have hinvT : (whitenInv hM)ᵀ * (whiten hM)ᵀ = 1 := by
    rw [← transpose_mul, whiten_mul_whitenInv, transpose_one]
  refine ⟨whiten hM *ᵥ u, ?_, ?_⟩
  · intro h0
    apply hu0
    have : whitenInv hM *ᵥ (whiten hM *ᵥ u) = u := by
      rw [mulVec_mulVec, whitenInv_mul_whiten, one_mulVec]
    rw [← this, h0, mulVec_zero]
  · -- `K C u = C⁻ᵀ (Cᵀ K C) u = λ C⁻ᵀ u` and `M C u = C⁻ᵀ (Cᵀ M C) u = C⁻ᵀ u`
    have hKC : K *ᵥ (whiten hM *ᵥ u) = (whitenInv hM)ᵀ *ᵥ (whitened hM K *ᵥ u) := by
      rw [whitened, mulVec_mulVec, mulVec_mulVec]
      congr 1
      rw [← Matrix.mul_assoc, ← Matrix.mul_assoc, hinvT, Matrix.one_mul]
    have hMC : M *ᵥ (whiten hM *ᵥ u) = (whitenInv hM)ᵀ *ᵥ u := by
      have : M * whiten hM = (whitenInv hM)ᵀ * ((whiten hM)ᵀ * M * whiten hM) := by
        rw [← Matrix.mul_assoc, ← Matrix.mul_assoc, hinvT, Matrix.one_mul]
      rw [mulVec_mulVec, this, whiten_congr, Matrix.mul_one]
    rw [hKC, hMC, hu, mulVec_smul]
    rfl

/-- conversely every solution `K v = μ M v`, `v ≠ 0`, has `μ` in the ascending list -/
theorem exists_genEigenvalues_eq_of_eigenvector (hK : K.IsHermitian) (hM : M.PosDef) {μ : ℝ} {v : Fin n → ℝ}
    (hv : v ≠ 0) (h : K *ᵥ v = μ • M *ᵥ v) : ∃ k, genEigenvalues hK hM k = μ := by
  have hvv : whiten hM *ᵥ (whitenInv hM *ᵥ v) = v := by
    rw [mulVec_mulVec, whiten_mul_whitenInv, one_mulVec]
  refine exists_ascEigenvalues_eq_of_eigenvector (whitened_isHermitian hK hM) (v := whitenInv hM *ᵥ v) ?_ ?_
  · intro h0
    apply hv
    rw [← hvv, h0, mulVec_zero]
  · have h1 : whitened hM K *ᵥ (whitenInv hM *ᵥ v) = (whiten hM)ᵀ *ᵥ (K *ᵥ v) := by
      rw [whitened, Matrix.mul_assoc, ← mulVec_mulVec, ← mulVec_mulVec (whitenInv hM *ᵥ v), hvv]
    have h2 : (whiten hM)ᵀ *ᵥ (M *ᵥ v) = whitenInv hM *ᵥ v := by
      have : (whiten hM)ᵀ *ᵥ (M *ᵥ (whiten hM *ᵥ (whitenInv hM *ᵥ v))) = whitenInv hM *ᵥ v := by
        rw [mulVec_mulVec, mulVec_mulVec, whiten_congr, one_mulVec]
      rwa [hvv] at this
    rw [h1, h, mulVec_smul, h2]

/-- with `M = 1` the generalised eigenvalues are the ordinary ones -/
theorem genEigenvalues_one (hK : K.IsHermitian) (k : Fin n) :
    genEigenvalues hK (PosDef.one : (1 : Matrix (Fin n) (Fin n) ℝ).PosDef) k = ascEigenvalues hK k := by
  have h1 := minmax_eq_genEigenvalues hK (PosDef.one : (1 : Matrix (Fin n) (Fin n) ℝ).PosDef) k
  have h2 := minmax_eq_ascEigenvalues hK k
  rw [h1] at h2
  exact_mod_cast h2

/-- **one-sided interlacing for the generalised pencil**: the `k`-th smallest generalised eigenvalue of `(K, M)` is at
most that of the principal sub-pencil `(K.submatrix e e, M.submatrix e e)` -/
theorem genEigenvalues_le_submatrix (hK : K.IsHermitian) (hM : M.PosDef) {e : Fin m → Fin n}
    (he : Function.Injective e) (hK' : (K.submatrix e e).IsHermitian) (hM' : (M.submatrix e e).PosDef)
    (k : Fin m) :
    genEigenvalues hK hM (Fin.castLE (le_of_injective he) k) ≤ genEigenvalues hK' hM' k := by
  have h := minmax_pencil_le_submatrix K M he ((k : ℕ) + 1)
  rw [minmax_eq_genEigenvalues hK' hM' k] at h
  have h2 := minmax_eq_genEigenvalues hK hM (Fin.castLE (le_of_injective he) k)
  simp only [Fin.val_castLE] at h2
  rw [h2, EReal.coe_le_coe_iff] at h
  exact h

end Generalised

/-! ### linear buckling `(K + λ KG) v = 0`, `K` positive definite -/

section Buckling

open Matrix

variable {n m : ℕ} {K KG : Matrix (Fin n) (Fin n) ℝ}

/-- for `λ ≠ 0` the buckling equation `(K + λ KG) v = 0` is the pencil equation `KG v = ν K v` with `ν = −1/λ`:
positive multipliers `λ` are the NEGATIVE generalised eigenvalues `ν` of `(KG, K)`, and the smallest positive `λ`
belongs to the most negative `ν` -/
theorem buckling_iff_pencil (K KG : Matrix (Fin n) (Fin n) ℝ) {lam : ℝ} (hlam : lam ≠ 0) (v : Fin n → ℝ) :
    (K + lam • KG) *ᵥ v = 0 ↔ KG *ᵥ v = (-1 / lam) • K *ᵥ v := by
  rw [add_mulVec, smul_mulVec]
  constructor
  · intro h
    have h1 : lam • KG *ᵥ v = -(K *ᵥ v) := by
      rw [eq_neg_iff_add_eq_zero, add_comm]; exact h
    have h2 : KG *ᵥ v = lam⁻¹ • (lam • KG *ᵥ v) := by
      rw [smul_smul, inv_mul_cancel₀ hlam, one_smul]
    rw [h2, h1, smul_neg, ← neg_smul]
    congr 1
    field_simp
  · intro h
    rw [h, smul_smul]
    have : lam * (-1 / lam) = -1 := by field_simp
    rw [this, neg_one_smul, add_neg_cancel]

/-- the `k`-th smallest POSITIVE buckling multiplier (0-based, with multiplicity) of `(K + λ KG) v = 0`, `K` positive
definite: `−1/ν_k`, `ν_k` the `k`-th smallest generalised eigenvalue of `KG v = ν K v`.  Meaningful exactly when
`ν_k < 0`, i.e. when at least `k+1` positive multipliers exist. -/
noncomputable def bucklingMultiplier (hKG : KG.IsHermitian) (hK : K.PosDef) (k : Fin n) : ℝ :=
  -1 / genEigenvalues hKG hK k

theorem bucklingMultiplier_pos (hKG : KG.IsHermitian) (hK : K.PosDef) (k : Fin n)
    (hneg : genEigenvalues hKG hK k < 0) : 0 < bucklingMultiplier hKG hK k := by
  unfold bucklingMultiplier
  exact div_pos_of_neg_of_neg (by norm_num) hneg

/-- it IS a buckling multiplier: a non-zero mode exists -/
theorem bucklingMultiplier_exists_mode (hKG : KG.IsHermitian) (hK : K.PosDef) (k : Fin n)
    (hneg : genEigenvalues hKG hK k < 0) :
    ∃ v : Fin n → ℝ, v ≠ 0 ∧ (K + bucklingMultiplier hKG hK k • KG) *ᵥ v = 0 := by
  obtain ⟨v, hv0, hv⟩ := genEigenvalues_exists_eigenvector hKG hK k
  refine ⟨v, hv0, ?_⟩
  rw [buckling_iff_pencil K KG (bucklingMultiplier_pos hKG hK k hneg).ne', hv]
  congr 1
  unfold bucklingMultiplier
  field_simp

/-- every positive multiplier is one of them -/
theorem exists_bucklingMultiplier_eq (hKG : KG.IsHermitian) (hK : K.PosDef) {lam : ℝ} (hlam : 0 < lam)
    {v : Fin n → ℝ} (hv : v ≠ 0) (h : (K + lam • KG) *ᵥ v = 0) :
    ∃ k, genEigenvalues hKG hK k < 0 ∧ bucklingMultiplier hKG hK k = lam := by
  rw [buckling_iff_pencil K KG hlam.ne'] at h
  obtain ⟨k, hk⟩ := exists_genEigenvalues_eq_of_eigenvector hKG hK hv h
  refine ⟨k, ?_, ?_⟩
  · rw [hk]; exact div_neg_of_neg_of_pos (by norm_num) hlam
  · unfold bucklingMultiplier
    rw [hk]
    field_simp

/-- they are listed in ascending order (as long as they exist) -/
theorem bucklingMultiplier_mono (hKG : KG.IsHermitian) (hK : K.PosDef) {i k : Fin n} (hik : i ≤ k)
    (hneg : genEigenvalues hKG hK k < 0) : bucklingMultiplier hKG hK i ≤ bucklingMultiplier hKG hK k := by
  have h1 := genEigenvalues_monotone hKG hK hik
  unfold bucklingMultiplier
  rw [neg_div, neg_div, neg_le_neg_iff]
  exact one_div_le_one_div_of_neg_of_le hneg h1

/-- **buckling multipliers of a principal sub-pencil**: if the sub-pencil `(K.submatrix e e, KG.submatrix e e)` has at
least `k+1` positive multipliers, so has the full pencil, and its `k`-th smallest positive multiplier is no larger -/
theorem bucklingMultiplier_le_submatrix (hKG : KG.IsHermitian) (hK : K.PosDef) {e : Fin m → Fin n}
    (he : Function.Injective e) (hKG' : (KG.submatrix e e).IsHermitian) (hK' : (K.submatrix e e).PosDef)
    (k : Fin m) (hneg : genEigenvalues hKG' hK' k < 0) :
    genEigenvalues hKG hK (Fin.castLE (le_of_injective he) k) < 0 ∧
      bucklingMultiplier hKG hK (Fin.castLE (le_of_injective he) k) ≤ bucklingMultiplier hKG' hK' k := by
  have h1 := genEigenvalues_le_submatrix hKG hK he hKG' hK' k
  refine ⟨lt_of_le_of_lt h1 hneg, ?_⟩
  unfold bucklingMultiplier
  rw [neg_div, neg_div, neg_le_neg_iff]
  exact one_div_le_one_div_of_neg_of_le hneg h1

end Buckling

end Compmech.Ritz
