/-
The Gauss-point reading of ONE pair of degrees of freedom `(a, b)` of a panel inside an assembly — the form in which the
panel theorems of Props/C08 (`kT_is_derivative_gauss_sum_plate/_cpanel`) are stated — as a predicate on

* `f`   : `t ↦ fint_a(x + t e_b)`, the panel's internal-force entry `a` along the `b`-th unit direction from the state `x`,
* `kab` : the entry `(a, b)` of the panel's tangent matrix at the state `x`.

`PlateGaussPair f kab α β` says: there is a list of integration points — each with the basis values of the two degrees of
freedom, its weight, laminate matrix and the STATE (linear strains and slopes accumulated over all degrees of freedom at the
amplitudes `x`) — such that `f t` is the sum over the points of the regenerated internal-force integrand of field `α` at the
state moved by `t` times degree of freedom `b` (field `β`), and `kab` is the sum over the points of the regenerated
`fkL_num + fkG_num` integrands.  What this ASSUMES of the source and is not modelled in Lean: the accumulation loops of
`calc_fint` / `fkL_num` / `fkG_num` over the degrees of freedom (they make the state of a point an affine function of the
amplitudes, whose increment along `e_b` is `PtState.perturb`), and the dof map `a ↦ (field a mod 3, i, j)`.  It is checked on the
implementation by the validation arm V of `tools/props/C08.py` (per-point tables) — not proved.
-/
import CompmechVerif.Spec.NonlinearPoint
import Mathlib.Data.Real.Basic
import CompmechVerif.Spec.AssemblyJacobian
import Mathlib.Tactic.FinCases
import Mathlib.Tactic.IntervalCases
import Mathlib.Tactic.NormNum
import Mathlib.Tactic.Ring

namespace Compmech.Panel
open Compmech.Gen.PanelNum

noncomputable def PlateGaussPair (f : ℝ → ℝ) (kab : ℝ) (α β : Fin 3) : Prop :=
  ∃ pts : List (NCtx ℝ × PtState ℝ), (∀ p ∈ pts, p.1.a ≠ 0 ∧ p.1.b ≠ 0) ∧
    (∀ t : ℝ, f t = (pts.map fun p => PlateNum.fint p.1 (p.2.perturb p.1 (plateOps p.1.toP) (fld3 β) t) α).sum) ∧
    kab = (pts.map fun p => Plate.fkL_num.entry α β { p.1 with wxi := p.2.wxi, weta := p.2.weta }
            + Plate.fkG_num.entry α β (PlateNum.withState p.1 p.2)).sum

noncomputable def CPanelGaussPair (f : ℝ → ℝ) (kab : ℝ) (α β : Fin 3) : Prop :=
  ∃ pts : List (NCtx ℝ × PtState ℝ), (∀ p ∈ pts, p.1.a ≠ 0 ∧ p.1.b ≠ 0 ∧ p.1.r ≠ 0) ∧
    (∀ t : ℝ, f t = (pts.map fun p => CPanelNum.fint p.1 (p.2.perturb p.1 (cpanelOps p.1.toP) (fld3 β) t) α).sum) ∧
    kab = (pts.map fun p => CPanel.fkL_num.entry α β { p.1 with wxi := p.2.wxi, weta := p.2.weta }
            + CPanel.fkG_num.entry α β (CPanelNum.withState p.1 p.2)).sum

/-- field offset of a panel-local amplitude index: `a mod 3` (`row = row0 + 3 (j m + i) + α`) -/
def fieldOf (a : Nat) : Fin 3 := ⟨a % 3, Nat.mod_lt _ (by decide)⟩

/-! ### a concrete instance (non-vacuity of `assembly_tangent_is_jacobian_gauss`, Props/C08)

A panel with `m = n = 1` (one basis function per field, three amplitudes) integrated with ONE point: the state of the point really is
accumulated from the amplitudes (`st`), the force vector and the (upper-triangle) tangent list are the regenerated integrands at that
state; `st_axpy` is the affinity of the state in the amplitudes — the step `PlateGaussPair` assumes of the source. -/
namespace AsmGaussExample
open Compmech.Asm
open scoped BigOperators

set_option linter.unusedTactic false
set_option linter.unreachableTactic false
set_option linter.unusedSimpArgs false
set_option linter.unusedVariables false

/-- one integration point of a 2 × 2 flat panel: all basis values 1, unit weight, identity laminate matrix -/
noncomputable def X0 : NCtx ℝ :=
  { a := 2, b := 2, r := 1, F := fun i j => if i = j then 1 else 0, weight := 1, wxi := 0, weta := 0,
    exx := 0, eyy := 0, gxy := 0, kxx := 0, kyy := 0, kxy := 0, Nxx := 0, Nyy := 0, Nxy := 0, Mxx := 0, Myy := 0, Mxy := 0,
    c := fun _ => 0, E := fun _ _ _ _ => 1 }

/-- the state of the point accumulated over the three degrees of freedom of a panel with `m = n = 1` -/
noncomputable def st (x : List ℝ) : PtState ℝ :=
  { e := fun p => x.getD 0 0 * dofB X0 (plateOps X0.toP) .B .u p + x.getD 1 0 * dofB X0 (plateOps X0.toP) .B .v p
            + x.getD 2 0 * dofB X0 (plateOps X0.toP) .B .w p
    wxi := x.getD 2 0
    weta := x.getD 2 0 }

noncomputable def T (x : List ℝ) (a b : Fin 3) : ℝ :=
  Plate.fkL_num.entry a b { X0 with wxi := (st x).wxi, weta := (st x).weta } + Plate.fkG_num.entry a b (PlateNum.withState X0 (st x))

set_option maxHeartbeats 1000000 in
theorem T_symm (x : List ℝ) (a b : Fin 3) : T x a b = T x b a := by
  fin_cases a <;> fin_cases b <;>
  simp only [Fin.reduceFinMk, Fin.isValue, Fin.zero_eta, Fin.mk_one, T, st, X0, PlateNum.withState, panel_entry, dofB, plateOps, NCtx.toP, List.map, List.sum_cons, List.sum_nil] <;>
  norm_num <;> ring
theorem st_axpy (x : List ℝ) (hx : x.length = 3) (b : Nat) (hb : b < 3) (t : ℝ) :
    st (axpy x t (unitVec 3 b)) = (st x).perturb X0 (plateOps X0.toP) (fld3 (fieldOf b)) t := by
  have hl : x.length = (unitVec 3 b : List ℝ).length := by rw [hx, length_unitVec]
  unfold st PtState.perturb
  simp only [getD_axpy x _ t hl, getD_unitVec]
  interval_cases b <;>
    simp [fieldOf, fld3, dofB, plateOps, X0, NCtx.toP] <;> (try (funext p; ring)) <;> (try ring)

noncomputable def gF (_ : Nat) (x : List ℝ) : List ℝ :=
  [PlateNum.fint X0 (st x) 0, PlateNum.fint X0 (st x) 1, PlateNum.fint X0 (st x) 2]

noncomputable def gK (_ : Nat) (x : List ℝ) : Coo ℝ :=
  [(0, 0, T x 0 0), (0, 1, T x 0 1), (0, 2, T x 0 2), (1, 1, T x 1 1), (1, 2, T x 1 2), (2, 2, T x 2 2)]

theorem gF_getD (k : Nat) (x : List ℝ) (a : Nat) (ha : a < 3) : (gF k x).getD a 0 = PlateNum.fint X0 (st x) (fieldOf a) := by
  interval_cases a <;> rfl

theorem gK_entry (k : Nat) (x : List ℝ) (a b : Nat) (ha : a < 3) (hb : b < 3) :
    toFun (finalize (gK k x)) a b = T x (fieldOf a) (fieldOf b) := by
  unfold finalize
  rw [toFun_makeSymmetric]
  interval_cases a <;> interval_cases b <;> simp [toFun, gK, fieldOf] <;> exact T_symm x _ _

theorem gauss_pair (k : Nat) (x : List ℝ) (hx : x.length = 3) (a b : Nat) (ha : a < 3) (hb : b < 3) :
    PlateGaussPair (fun t : ℝ => (gF k (axpy x t (unitVec 3 b))).getD a 0) (toFun (finalize (gK k x)) a b)
      (fieldOf a) (fieldOf b) := by
  refine ⟨[(X0, st x)], ?_, ?_, ?_⟩
  · intro p hp
    simp only [List.mem_cons, List.not_mem_nil, or_false] at hp
    subst hp
    norm_num [X0]
  · intro t
    show (gF k (axpy x t (unitVec 3 b))).getD a 0 = _
    rw [gF_getD k _ a ha, st_axpy x hx b hb t]
    simp
  · rw [gK_entry k x a b ha hb]
    simp [T]
theorem gF_len (k : Nat) (x : List ℝ) : (gF k x).length = 3 := rfl

theorem gK_within (k : Nat) (x : List ℝ) : Within 3 3 (gK k x) := by
  intro e he
  simp only [gK, List.mem_cons, List.not_mem_nil, or_false] at he
  rcases he with rfl | rfl | rfl | rfl | rfl | rfl <;> exact ⟨by norm_num, by norm_num⟩

end AsmGaussExample


end Compmech.Panel
