/-
From one entry to the WHOLE matrix a panel kernel + `finalize_symmetric_matrix` deliver.

`Integrals K` gives the one-dimensional integrals as a function of the two series indices; `ctxAt base I i k j l` is the
context the kernel's innermost loop body sees for row indices `(i, j)` and column indices `(k, l)`:
`P.J .x … .A … .B = I .x … i … k`, `P.J .y … .A … .B = I .y … j … l`.
`panelCoo` is the finalized COO list of the loop nest of Model/PanelLoop.lean with the regenerated entry expressions.
-/
import CompmechVerif.Core.OpSpecLemmas
import CompmechVerif.Model.PanelLoopLemmas

namespace Compmech.Panel
open Compmech.Asm Compmech.PanelLoop

variable {K : Type} [Field K]

/-- `I dir dom d₁ f₁ a d₂ f₂ b = ∫_dom D^{d₁}φ^{f₁}_a · D^{d₂}φ^{f₂}_b` along `dir` -/
abbrev Integrals (K : Type) := Dir → Dom → Nat → Fld → Nat → Nat → Fld → Nat → K

def pick : Dir → Idx → Nat → Nat → Nat → Nat → Nat
  | .x, .A, i, _, _, _ => i
  | .x, .B, _, k, _, _ => k
  | .y, .A, _, _, j, _ => j
  | .y, .B, _, _, _, l => l

def ctxAt (base : PCtx K) (I : Integrals K) (i k j l : Nat) : PCtx K :=
  { base with J := fun dir dom d₁ f₁ a d₂ f₂ b => I dir dom d₁ f₁ (pick dir a i k j l) d₂ f₂ (pick dir b i k j l) }

/-- the product under the integral commutes -/
def Integrals.Comm (I : Integrals K) : Prop :=
  ∀ dir dom d₁ f₁ a d₂ f₂ b, I dir dom d₁ f₁ a d₂ f₂ b = I dir dom d₂ f₂ b d₁ f₁ a

theorem ctxAt_swap (base : PCtx K) (I : Integrals K) (hI : I.Comm) (i k j l : Nat) :
    (ctxAt base I i k j l).swap = ctxAt base I k i l j := by
  unfold ctxAt PCtx.swap
  congr 1
  funext dir dom d₁ f₁ a d₂ f₂ b
  rw [hI]
  cases dir <;> cases a <;> cases b <;> rfl

/-- the finalized matrix of a flat / cylindrical panel kernel placed at `row0 = col0` -/
def panelCoo (num m n row0 : Nat) (entry : Fin num → Fin num → PCtx K → K) (base : PCtx K) (I : Integrals K) : Coo K :=
  finalize (loopNest num m n row0 row0 fun ro co i k j l => entry ro co (ctxAt base I i k j l))

/-- If the entry expressions are symmetric under exchange of the two basis functions (proved per kernel from the
regenerated terms), then at the positions of ANY two degrees of freedom `(α, i, j)`, `(β, k, l)` — upper or lower
triangle, any series orders `m, n`, any placement `row0` — the finalized matrix holds the entry expression of that pair. -/
theorem panelCoo_entry (num m n row0 : Nat) (entry : Fin num → Fin num → PCtx K → K) (base : PCtx K) (I : Integrals K)
    (hI : I.Comm) (hsym : ∀ ro co i k j l, entry ro co (ctxAt base I i k j l) = entry co ro (ctxAt base I i k j l).swap)
    {i k j l : Nat} (hi : i < m) (hk : k < m) (hj : j < n) (hl : l < n) (α β : Fin num) :
    toFun (panelCoo num m n row0 entry base I) (row0 + num * (j * m + i) + α.val) (row0 + num * (l * m + k) + β.val)
      = entry α β (ctxAt base I i k j l) := by
  unfold panelCoo
  refine toFun_finalize_loopNest_of_symm num m n row0 _ ?_ hi hk hj hl α β
  intro α β i k j l
  rw [hsym α β i k j l, ctxAt_swap base I hI]

theorem panelCoo_symmetric (num m n row0 : Nat) (entry : Fin num → Fin num → PCtx K → K) (base : PCtx K)
    (I : Integrals K) (r c : Nat) :
    toFun (panelCoo num m n row0 entry base I) r c = toFun (panelCoo num m n row0 entry base I) c r :=
  finalize_symmetric _ r c


/-- the same for the kernels that nest the loops in the order `j, l, i, k` -/
def panelCooYX (num m n row0 : Nat) (entry : Fin num → Fin num → PCtx K → K) (base : PCtx K) (I : Integrals K) : Coo K :=
  finalize (loopNestYX num m n row0 row0 fun ro co i k j l => entry ro co (ctxAt base I i k j l))

theorem panelCooYX_eq (num m n row0 : Nat) (entry : Fin num → Fin num → PCtx K → K) (base : PCtx K) (I : Integrals K)
    (r c : Nat) : toFun (panelCooYX num m n row0 entry base I) r c = toFun (panelCoo num m n row0 entry base I) r c :=
  toFun_finalize_loopNestYX num m n row0 row0 _ r c

theorem panelCooYX_entry (num m n row0 : Nat) (entry : Fin num → Fin num → PCtx K → K) (base : PCtx K) (I : Integrals K)
    (hI : I.Comm) (hsym : ∀ ro co i k j l, entry ro co (ctxAt base I i k j l) = entry co ro (ctxAt base I i k j l).swap)
    {i k j l : Nat} (hi : i < m) (hk : k < m) (hj : j < n) (hl : l < n) (α β : Fin num) :
    toFun (panelCooYX num m n row0 entry base I) (row0 + num * (j * m + i) + α.val) (row0 + num * (l * m + k) + β.val)
      = entry α β (ctxAt base I i k j l) := by
  rw [panelCooYX_eq]
  exact panelCoo_entry num m n row0 entry base I hI hsym hi hk hj hl α β

/-! ### conical panels: `s` constant-radius sections -/

/-- the context of section `sec` of `s`: `x₁ = a·sec/s`, `x₂ = a·(sec+1)/s`, radius at the middle of the section
`r = r_bot − sinα (x₁ + x₂)/2`, width `b = r·b_bot/r_bot` (`base.r = r_bot`, `base.b = b_bot`) — the
piecewise-constant-radius approximation the property allows -/
def sectionBase (base : PCtx K) (s sec : Nat) : PCtx K :=
  let x₁ := base.a * (sec : K) / (s : K)
  let x₂ := base.a * ((sec : K) + 1) / (s : K)
  let r := base.r - base.sina * ((x₁ + x₂) / 2)
  { base with r := r, b := r * base.b / base.r }

def conePanelCoo (s num m n row0 : Nat) (entry : Fin num → Fin num → PCtx K → K) (base : PCtx K)
    (I : Nat → Integrals K) : Coo K :=
  finalize (sectionedNest s num m n row0 row0 fun sec ro co i k j l =>
    entry ro co (ctxAt (sectionBase base s sec) (I sec) i k j l))

theorem conePanelCoo_entry (s num m n row0 : Nat) (entry : Fin num → Fin num → PCtx K → K) (base : PCtx K)
    (I : Nat → Integrals K) (hI : ∀ sec, (I sec).Comm)
    (hsym : ∀ sec ro co i k j l, entry ro co (ctxAt (sectionBase base s sec) (I sec) i k j l)
      = entry co ro (ctxAt (sectionBase base s sec) (I sec) i k j l).swap)
    {i k j l : Nat} (hi : i < m) (hk : k < m) (hj : j < n) (hl : l < n) (α β : Fin num) :
    toFun (conePanelCoo s num m n row0 entry base I) (row0 + num * (j * m + i) + α.val)
        (row0 + num * (l * m + k) + β.val)
      = ((List.range s).map fun sec => entry α β (ctxAt (sectionBase base s sec) (I sec) i k j l)).sum := by
  unfold conePanelCoo
  refine toFun_finalize_sectionedNest_of_symm s num m n row0 _ ?_ hi hk hj hl α β
  intro sec α β i k j l
  rw [hsym sec α β i k j l, ctxAt_swap _ _ (hI sec)]

end Compmech.Panel
