/-
A concrete instance meeting ALL hypotheses of the positive-semi-definiteness theorems of Props/C02, C04 (non-vacuity):
panel `a = b = 2`, `r = 1`, cone semi-vertex angle with `sin α = −1/2` (radius growing along x), identity laminate matrix,
`mu = h = 1`, mid-plane offset `d = 1/10`; "basis functions" `D^d φ_i(t) = t^(i+d)` on `[−1, 1]` (any continuous functions do)
and the one-dimensional integrals defined AS the integrals of their products.
-/
import CompmechVerif.Spec.WholeMatrixPSD
import Mathlib.Tactic.Positivity
import Mathlib.Tactic.NormNum
import Mathlib.Tactic.Linarith
import Mathlib.Tactic.FinCases

namespace Compmech.Panel.PSDExample
open scoped BigOperators

def mono (d : Nat) (_ : Fld) (i : Nat) (t : ℝ) : ℝ := t ^ (i + d)

noncomputable def monoI : Integrals ℝ :=
  fun _ _ d₁ f₁ a d₂ f₂ b => ∫ t in (-1 : ℝ)..1, mono d₁ f₁ a t * mono d₂ f₂ b t

theorem monoI_comm : monoI.Comm := by
  intro dir dom d₁ f₁ a d₂ f₂ b
  simp only [monoI, mul_comm]

theorem monoI_real (dx dy : Dom) : RealIntegrals monoI dx dy mono mono (-1) 1 (-1) 1 where
  contX _ _ _ := by unfold mono; fun_prop
  contY _ _ _ := by unfold mono; fun_prop
  hx := by norm_num
  hy := by norm_num
  eqx _ _ _ _ _ _ := rfl
  eqy _ _ _ _ _ _ := rfl

def unitF : Fin 6 → Fin 6 → ℝ := fun p q => if p = q then 1 else 0

theorem unitF_isABD : IsABD unitF where
  symm p q := by simp only [unitF, eq_comm]
  b12 := by simp [unitF]
  b16 := by simp [unitF]
  b26 := by simp [unitF]

theorem unitF_psd : WeightPSD unitF := by
  intro e
  refine Finset.sum_nonneg fun p _ => ?_
  simp only [unitF, ite_mul, one_mul, zero_mul, Finset.sum_ite_eq, Finset.mem_univ, if_true]
  exact mul_self_nonneg _

noncomputable def unitBase : PCtx ℝ :=
  { a := 2, b := 2, r := 1, sina := -1 / 2, cosa := 1 / 2, F := unitF, Nxx := 0, Nyy := 0, Nxy := 0, d := 1 / 10,
    h := 1, mu := 1, beta := 0, gamma := 0, aeromu := 0, J := fun _ _ _ _ _ _ _ _ => 0 }

theorem section_r_pos (s sec : Nat) : 0 < (sectionBase unitBase s sec).r := by
  have h1 : (0 : ℝ) ≤ 2 * (sec : ℝ) / (s : ℝ) := by positivity
  have h2 : (0 : ℝ) ≤ 2 * ((sec : ℝ) + 1) / (s : ℝ) := by positivity
  simp only [sectionBase, unitBase]
  linarith

theorem section_b_eq (s sec : Nat) : (sectionBase unitBase s sec).b = (sectionBase unitBase s sec).r * 2 := by
  simp [sectionBase, unitBase]

theorem section_b_pos (s sec : Nat) : 0 < (sectionBase unitBase s sec).b := by
  rw [section_b_eq]; exact mul_pos (section_r_pos s sec) (by norm_num)

end Compmech.Panel.PSDExample
