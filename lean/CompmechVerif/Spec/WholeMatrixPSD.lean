/-
From the positive semi-definiteness of the Hessian form (Core/OpSpecPSD.lean, `hessian_psd`) to the WHOLE finalized
matrix of a panel kernel: if the matrix holds, at the positions of every two degrees of freedom `(α, i, j)`, `(β, k, l)`
(`row0 + num (j m + i) + α`), the energy Hessian of the pair (what the `*_matrix_*` theorems of Props/C02, C04 say), then
`vᵀ M v ≥ 0` for every amplitude vector `v` over the panel's `num·m·n` degrees of freedom.
-/
import CompmechVerif.Core.OpSpecPSD
import Mathlib.Logic.Equiv.Fin.Basic
import Mathlib.Algebra.BigOperators.Fin
import Mathlib.Algebra.Order.BigOperators.Group.List

namespace Compmech.Panel
open scoped BigOperators

/-- the degrees of freedom of a panel: `((j, i), α)` — series index along y, along x, field offset -/
abbrev Dof (num m n : Nat) := (Fin n × Fin m) × Fin num

/-- offset of a degree of freedom in the panel's block: `num (j m + i) + α` -/
def Dof.pos {num m n : Nat} (x : Dof num m n) : Nat := num * (x.1.1.val * m + x.1.2.val) + x.2.val

/-- the offsets `0 ≤ r < num·m·n` of a panel's block are exactly the offsets of its degrees of freedom, each once -/
theorem sum_range_dofs (num m n : Nat) (g : Nat → ℝ) :
    ∑ r ∈ Finset.range (num * m * n), g r = ∑ x : Dof num m n, g x.pos := by
  have hN : num * m * n = n * m * num := by ring
  rw [hN, Finset.sum_range, ← Equiv.sum_comp finProdFinEquiv]
  rw [← Equiv.sum_comp (Equiv.prodCongr finProdFinEquiv (Equiv.refl (Fin num)))]
  refine Finset.sum_congr rfl fun x _ => congrArg g ?_
  simp only [Dof.pos, finProdFinEquiv, Equiv.prodCongr_apply, Equiv.coe_fn_mk, Prod.map_fst, Prod.map_snd,
    Equiv.refl_apply]
  ring

/-- the quadratic form over the block `[row0, row0 + num·m·n)` as a double sum over pairs of degrees of freedom -/
theorem quadForm_reindex (num m n row0 : Nat) (M : Nat → Nat → ℝ) (v : Nat → ℝ) :
    ∑ r ∈ Finset.range (num * m * n), ∑ c ∈ Finset.range (num * m * n), v (row0 + r) * M (row0 + r) (row0 + c) * v (row0 + c)
      = ∑ A : Dof num m n, ∑ B : Dof num m n,
          v (row0 + A.pos) * v (row0 + B.pos) * M (row0 + A.pos) (row0 + B.pos) := by
  rw [sum_range_dofs]
  refine Finset.sum_congr rfl fun A _ => ?_
  rw [sum_range_dofs]
  refine Finset.sum_congr rfl fun B _ => ?_
  ring

/-- `vᵀ M v ≥ 0` for a matrix that holds the energy Hessian at every pair of positions -/
theorem matrix_psd_of_hessian {num nW : Nat} (M : Nat → Nat → ℝ) (m n row0 : Nat) (fldOf : Fin num → Fld)
    (base : PCtx ℝ) (I : Integrals ℝ) (dx dy : Dom) (ops : Fld → Fin nW → List (OpTerm ℝ)) (W : Fin nW → Fin nW → ℝ)
    (hM : ∀ {i k j l : Nat}, i < m → k < m → j < n → l < n → ∀ α β : Fin num,
      M (row0 + num * (j * m + i) + α.val) (row0 + num * (l * m + k) + β.val)
        = hessian (ctxAt base I i k j l) dx dy ops W (fldOf α) (fldOf β))
    (X Y : Nat → Fld → Nat → ℝ → ℝ) (x₁ x₂ y₁ y₂ : ℝ) (hR : RealIntegrals I dx dy X Y x₁ x₂ y₁ y₂)
    (hW : WeightPSD W) (hab : 0 ≤ base.a * base.b) (v : Nat → ℝ) :
    0 ≤ ∑ r ∈ Finset.range (num * m * n), ∑ c ∈ Finset.range (num * m * n),
      v (row0 + r) * M (row0 + r) (row0 + c) * v (row0 + c) := by
  rw [quadForm_reindex]
  have h := hessian_psd base I dx dy X Y x₁ x₂ y₁ y₂ hR ops W hW hab (Finset.univ : Finset (Dof num m n))
    (fun A => fldOf A.2) (fun A => A.1.2.val) (fun A => A.1.1.val) (fun A => v (row0 + A.pos))
  refine le_of_le_of_eq h (Finset.sum_congr rfl fun A _ => Finset.sum_congr rfl fun B _ => ?_)
  rw [← hM A.1.2.isLt B.1.2.isLt A.1.1.isLt B.1.1.isLt A.2 B.2]
  simp only [Dof.pos, Nat.add_assoc]

theorem sum_mul_list_sum {ι κ : Type} (s : Finset ι) (f : ι → ι → ℝ) (l : List κ) (g : ι → ι → κ → ℝ) :
    ∑ A ∈ s, ∑ B ∈ s, f A B * (l.map (g A B)).sum = (l.map fun x => ∑ A ∈ s, ∑ B ∈ s, f A B * g A B x).sum := by
  induction l with
  | nil => simp
  | cons x l ih => simp only [List.map_cons, List.sum_cons, mul_add, Finset.sum_add_distrib, ih]

/-- the same for a matrix that holds, at every pair of positions, the SUM over `s` sections of the energy Hessians of the
sections (conical panels), each section with its own context, integrals, operator table and weight -/
theorem matrix_psd_of_hessian_sections {num nW : Nat} (M : Nat → Nat → ℝ) (s m n row0 : Nat) (fldOf : Fin num → Fld)
    (bases : Nat → PCtx ℝ) (I : Nat → Integrals ℝ) (dx dy : Dom) (ops : Nat → Fld → Fin nW → List (OpTerm ℝ))
    (W : Nat → Fin nW → Fin nW → ℝ)
    (hM : ∀ {i k j l : Nat}, i < m → k < m → j < n → l < n → ∀ α β : Fin num,
      M (row0 + num * (j * m + i) + α.val) (row0 + num * (l * m + k) + β.val)
        = ((List.range s).map fun sec =>
            hessian (ctxAt (bases sec) (I sec) i k j l) dx dy (ops sec) (W sec) (fldOf α) (fldOf β)).sum)
    (X Y : Nat → Nat → Fld → Nat → ℝ → ℝ) (x₁ x₂ y₁ y₂ : Nat → ℝ)
    (hR : ∀ sec, sec < s → RealIntegrals (I sec) dx dy (X sec) (Y sec) (x₁ sec) (x₂ sec) (y₁ sec) (y₂ sec))
    (hW : ∀ sec, sec < s → WeightPSD (W sec)) (hab : ∀ sec, sec < s → 0 ≤ (bases sec).a * (bases sec).b)
    (v : Nat → ℝ) :
    0 ≤ ∑ r ∈ Finset.range (num * m * n), ∑ c ∈ Finset.range (num * m * n),
      v (row0 + r) * M (row0 + r) (row0 + c) * v (row0 + c) := by
  rw [quadForm_reindex]
  have h : ∀ A B : Dof num m n, M (row0 + A.pos) (row0 + B.pos)
      = ((List.range s).map fun sec => hessian (ctxAt (bases sec) (I sec) A.1.2.val B.1.2.val A.1.1.val B.1.1.val)
          dx dy (ops sec) (W sec) (fldOf A.2) (fldOf B.2)).sum := by
    intro A B
    rw [← hM A.1.2.isLt B.1.2.isLt A.1.1.isLt B.1.1.isLt A.2 B.2]
    simp only [Dof.pos, Nat.add_assoc]
  simp only [h]
  rw [sum_mul_list_sum]
  refine List.sum_nonneg fun t ht => ?_
  obtain ⟨sec, hsec, rfl⟩ := List.mem_map.1 ht
  have hlt : sec < s := List.mem_range.1 hsec
  exact hessian_psd (bases sec) (I sec) dx dy (X sec) (Y sec) _ _ _ _ (hR sec hlt) (ops sec) (W sec) (hW sec hlt)
    (hab sec hlt) (Finset.univ : Finset (Dof num m n))
    (fun A => fldOf A.2) (fun A => A.1.2.val) (fun A => A.1.1.val) (fun A => v (row0 + A.pos))

end Compmech.Panel
