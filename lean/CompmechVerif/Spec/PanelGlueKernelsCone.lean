/-
Continuation of `Spec/PanelGlueKernels.lean` for the models left out there:

* the `w`-only plate (`plateWTable`: one loop nest, `num = 1`) — only the look-up lemmas were missing;
* the conical panel: `conePanelKern s T base I m n g` is the COO list the regenerated conical kernel of the recorded call `g`
  produces — the loop nest of `Model/PanelLoop.lean` ONCE PER constant-radius section (`sectionedNest`; the regenerated
  `schema` says `s = 41` and that the strip kernels of this model keep the loop order `i, k, j, l`), section `sec` with its own
  radius / width `sectionBase … s sec` and its own integrals `I sec`; the scalar arguments of the call are put where the kernel
  reads them (`Nxx, Nyy, Nxy`, `d`), exactly as in `panelKern`.
-/
import CompmechVerif.Gen.Panel.KPanel
import CompmechVerif.Spec.PanelGlueKernels
import Mathlib.Tactic.Positivity
import Mathlib.Tactic.Linarith
import Mathlib.Tactic.NormNum

namespace Compmech.Panel
open Compmech.Asm Compmech.PanelLoop Compmech.PanelGlue Compmech.Gen

variable {K : Type} [Field K]

theorem plateWTable_fk0 : (plateWTable : KernelTable K 1).fk0 = PlateW.fk0.entry := rfl
theorem plateWTable_fk0y1y2 : (plateWTable : KernelTable K 1).fk0y1y2 = PlateW.fk0y1y2.entry := rfl
theorem plateWTable_fkG0 : (plateWTable : KernelTable K 1).fkG0 = PlateW.fkG0.entry := rfl
theorem plateWTable_fkG0y1y2 : (plateWTable : KernelTable K 1).fkG0y1y2 = PlateW.fkG0y1y2.entry := rfl
theorem plateWTable_fkM : (plateWTable : KernelTable K 1).fkM = PlateW.fkM.entry := rfl
theorem plateWTable_fkMy1y2 : (plateWTable : KernelTable K 1).fkMy1y2 = PlateW.fkMy1y2.entry := rfl

/-- the regenerated entry expressions of the conical panel model -/
def kpanelTable : KernelTable K 3 :=
  ⟨KPanel.fk0.entry, KPanel.fk0y1y2.entry, KPanel.fkG0.entry, KPanel.fkG0y1y2.entry, KPanel.fkM.entry, KPanel.fkMy1y2.entry⟩

theorem kpanelTable_fk0 : (kpanelTable : KernelTable K 3).fk0 = KPanel.fk0.entry := rfl
theorem kpanelTable_fk0y1y2 : (kpanelTable : KernelTable K 3).fk0y1y2 = KPanel.fk0y1y2.entry := rfl
theorem kpanelTable_fkG0 : (kpanelTable : KernelTable K 3).fkG0 = KPanel.fkG0.entry := rfl
theorem kpanelTable_fkG0y1y2 : (kpanelTable : KernelTable K 3).fkG0y1y2 = KPanel.fkG0y1y2.entry := rfl
theorem kpanelTable_fkM : (kpanelTable : KernelTable K 3).fkM = KPanel.fkM.entry := rfl
theorem kpanelTable_fkMy1y2 : (kpanelTable : KernelTable K 3).fkMy1y2 = KPanel.fkMy1y2.entry := rfl

@[simp] theorem sectionBase_a (base : PCtx K) (s sec : Nat) : (sectionBase base s sec).a = base.a := rfl
@[simp] theorem sectionBase_withLoads_b (base : PCtx K) (x y z : K) (s sec : Nat) :
    (sectionBase (withLoads base x y z) s sec).b = (sectionBase base s sec).b := rfl
@[simp] theorem sectionBase_withLoads_r (base : PCtx K) (x y z : K) (s sec : Nat) :
    (sectionBase (withLoads base x y z) s sec).r = (sectionBase base s sec).r := rfl
@[simp] theorem sectionBase_withD_b (base : PCtx K) (d : K) (s sec : Nat) :
    (sectionBase (withD base d) s sec).b = (sectionBase base s sec).b := rfl

/-- what the conical kernel of a recorded call returns (before any `finalize`): `s` sections -/
def conePanelKern {num : Nat} (s : Nat) (T : KernelTable K num) (base : PCtx K) (I : Nat → Integrals K) (m n : Nat)
    (g : KCall K) : Coo K :=
  match g.name, g.args with
  | .fk0, [.panel, .nat _, .nat r0, .nat c0] =>
    sectionedNest s num m n r0 c0 fun sec ro co i k j l => T.fk0 ro co (ctxAt (sectionBase base s sec) (I sec) i k j l)
  | .fk0y1y2, [.q _, .q _, .panel, .nat _, .nat r0, .nat c0] =>
    sectionedNest s num m n r0 c0 fun sec ro co i k j l => T.fk0y1y2 ro co (ctxAt (sectionBase base s sec) (I sec) i k j l)
  | .fkG0, [.q nxx, .q nyy, .q nxy, .panel, .nat _, .nat r0, .nat c0] =>
    sectionedNest s num m n r0 c0 fun sec ro co i k j l =>
      T.fkG0 ro co (ctxAt (sectionBase (withLoads base nxx nyy nxy) s sec) (I sec) i k j l)
  | .fkG0y1y2, [.q _, .q _, .q nxx, .q nyy, .q nxy, .panel, .nat _, .nat r0, .nat c0] =>
    sectionedNest s num m n r0 c0 fun sec ro co i k j l =>
      T.fkG0y1y2 ro co (ctxAt (sectionBase (withLoads base nxx nyy nxy) s sec) (I sec) i k j l)
  | .fkM, [.q d, .panel, .nat _, .nat r0, .nat c0] =>
    sectionedNest s num m n r0 c0 fun sec ro co i k j l => T.fkM ro co (ctxAt (sectionBase (withD base d) s sec) (I sec) i k j l)
  | .fkMy1y2, [.q _, .q _, .q d, .panel, .nat _, .nat r0, .nat c0] =>
    sectionedNest s num m n r0 c0 fun sec ro co i k j l =>
      T.fkMy1y2 ro co (ctxAt (sectionBase (withD base d) s sec) (I sec) i k j l)
  | _, _ => []

/-- the finalized full-width / strip matrix of one conical kernel pair, chosen as the definition says -/
def coneCooOf {num : Nat} (P : Panel K) (s row0 : Nat) (full strip : Fin num → Fin num → PCtx K → K) (base : PCtx K)
    (I : Nat → Integrals K) : Coo K :=
  match P.y1, P.y2 with
  | some _, some _ => conePanelCoo s num P.m P.n row0 strip base I
  | _, _ => conePanelCoo s num P.m P.n row0 full base I

end Compmech.Panel

namespace Compmech.Panel
open Compmech.Asm Compmech.PanelLoop Compmech.PanelGlue Compmech.Gen

variable {K : Type} [Field K] [LinearOrder K]

set_option linter.unusedSectionVars false

/-- `calc_k0` (analytic route, `finalize=True`, `row0 = col0`) with the regenerated conical kernels: the returned matrix is the
finalized constitutive matrix on the panel's domain plus, iff a pre-load component is a non-zero number, the finalized
initial-stress matrix of `(Nxx_cte, Nyy_cte, Nxy_cte)` on the same domain -/
theorem calc_k0_conePanelKern {num : Nat} (s : Nat) (T : KernelTable K num) (P : Panel K) (A : Args K) (R : Result K)
    (base : PCtx K) (I : Nat → Integrals K) (hc : A.c = none) (hF : A.fnxny = false) (hfin : A.finalize = true)
    (h : (calcK0 P A).res = .ok R) (hplace : A.row0 = A.col0) (r c : Nat) :
    toFun (R.eval (conePanelKern s T base I P.m P.n)) r c =
      toFun (coneCooOf P s (A.row0.getD 0) T.fk0 T.fk0y1y2 base I) r c +
      (if preloaded P = true then
        toFun (coneCooOf P s (A.row0.getD 0) T.fkG0 T.fkG0y1y2 (panelPreload P base) I) r c
       else 0) := by
  obtain ⟨k, P3, c0, hsd, _, _, _, _, hc0, hR⟩ := calcK0_ok h
  rw [k0Const_analytic k P3 A _ hc hF] at hc0
  injection hc0 with hc0
  have hpre : preloaded P3 = preloaded P := by
    unfold preloaded; rw [hsd.NxxCte, hsd.NyyCte, hsd.NxyCte]
  rw [hR]
  unfold Result.eval
  simp only [hfin, finWrap, if_true]
  rw [k0Prestress_spec, hpre, ← hc0]
  have hcol : A.col0.getD 0 = A.row0.getD 0 := by rw [hplace]
  unfold coneCooOf boundsSpec placement panelPreload
  rw [hsd.y1, hsd.y2, hsd.NxxCte, hsd.NyyCte, hsd.NxyCte, hcol]
  by_cases hp : preloaded P = true
  · simp only [hp, if_true, List.length_cons, List.length_nil, Nat.add_one_sub_one, sumCalls, Comb.eval]
    rw [toFun_finalize_append]
    cases P.y1 <;> cases P.y2 <;> simp [conePanelKern, mkCall, conePanelCoo]
  · simp only [hp, List.length_cons]
    cases P.y1 <;> cases P.y2 <;> simp [conePanelKern, mkCall, conePanelCoo, sumCalls, Comb.eval]

/-- `calc_kG0` (analytic route, `finalize=True`, `row0 = col0`) with the regenerated conical kernels -/
theorem calc_kG0_conePanelKern {num : Nat} (s : Nat) (T : KernelTable K num) (P : Panel K) (A : Args K) (R : Result K)
    (base : PCtx K) (I : Nat → Integrals K) (hc : A.c = none) (hfin : A.finalize = true)
    (h : (calcKG0 P A).res = .ok R) (hplace : A.row0 = A.col0) (r c : Nat) :
    toFun (R.eval (conePanelKern s T base I P.m P.n)) r c =
      toFun (coneCooOf P s (A.row0.getD 0) T.fkG0 T.fkG0y1y2 (panelLoads P base) I) r c := by
  obtain ⟨k, P3, _, _, _, _, _, hR⟩ := calcKG0_ok hc h
  rw [hR]
  unfold Result.eval
  simp only [hfin, finWrap, if_true]
  have hcol : A.col0.getD 0 = A.row0.getD 0 := by rw [hplace]
  unfold coneCooOf boundsSpec placement panelLoads
  rw [hcol]
  cases P.y1 <;> cases P.y2 <;> simp [conePanelKern, mkCall, conePanelCoo, Comb.eval]

/-- `calc_kM` (`finalize=True`, `row0 = col0`) with the regenerated conical kernels: the mass kernel of the panel's domain with
`d = −offset` -/
theorem calc_kM_conePanelKern {num : Nat} (s : Nat) (T : KernelTable K num) (P : Panel K) (A : Args K) (R : Result K)
    (base : PCtx K) (I : Nat → Integrals K) (hfin : A.finalize = true)
    (h : (calcKM P A).res = .ok R) (hplace : A.row0 = A.col0) (r c : Nat) :
    toFun (R.eval (conePanelKern s T base I P.m P.n)) r c =
      toFun (coneCooOf P s (A.row0.getD 0) T.fkM T.fkMy1y2 (withD base (-P.offset)) I) r c := by
  obtain ⟨k, P2, _, _, _, _, _, _, hR⟩ := calcKM_ok h
  rw [hR]
  unfold Result.eval
  simp only [hfin, finWrap, if_true]
  have hcol : A.col0.getD 0 = A.row0.getD 0 := by rw [hplace]
  unfold coneCooOf boundsSpec placement
  rw [hcol]
  cases P.y1 <;> cases P.y2 <;> simp [conePanelKern, mkCall, conePanelCoo, Comb.eval]


/-! ### a concrete rational instance for the non-vacuity examples of the glue theorems (C02/C03/C04)

`conePanelEx`: the witness panel of `Model/PanelGlueLemmas.lean` (strip from `y1 = 0.0`, equal and opposite pre-load, offset `1/10`,
`m = 2`, `n = 3`) with a radius and a semi-vertex angle, so that `_rebuild` selects the conical model; `qBase`: kernel geometry
`a = 1`, `b = 2`, `r = 3`, `sin α = −1/2` (every section has positive radius and width), identity laminate matrix;
`qI`: a commutative non-trivial interpretation of the integrals. -/
namespace GlueExample
open Compmech.PanelGlue

def qF : Fin 6 → Fin 6 → ℚ := fun p q => if p = q then 1 else 0

theorem qF_isABD : IsABD qF where
  symm p q := by simp only [qF, eq_comm]
  b12 := by simp [qF]
  b16 := by simp [qF]
  b26 := by simp [qF]

def qBase : PCtx ℚ :=
  { a := 1, b := 2, r := 3, sina := -1 / 2, cosa := 1 / 2, F := qF, Nxx := 0, Nyy := 0, Nxy := 0, d := 0,
    h := 1, mu := 1, beta := 0, gamma := 0, aeromu := 0, J := fun _ _ _ _ _ _ _ _ => 0 }

def qI : Integrals ℚ := fun _ _ d₁ _ a d₂ _ b => ((a : ℚ) + d₁ + 1) * ((b : ℚ) + d₂ + 1)

theorem qI_comm : qI.Comm := fun _ _ _ _ _ _ _ _ => mul_comm _ _

theorem qBase_section_r_pos (s sec : Nat) : 0 < (sectionBase qBase s sec).r := by
  have h1 : (0 : ℚ) ≤ 1 * (sec : ℚ) / (s : ℚ) := by positivity
  have h2 : (0 : ℚ) ≤ 1 * ((sec : ℚ) + 1) / (s : ℚ) := by positivity
  simp only [sectionBase, qBase]
  linarith

theorem qBase_section_b_pos (s sec : Nat) : 0 < (sectionBase qBase s sec).b := by
  have h : (sectionBase qBase s sec).b = (sectionBase qBase s sec).r * 2 / 3 := by simp [sectionBase, qBase]
  rw [h]
  have := qBase_section_r_pos s sec
  positivity

/-- the witness panel as a conical panel: `r = 3`, `alphadeg = −30` (model left to `_rebuild`) -/
def conePanelEx : Panel ℚ := { exPanel with r := some 3, alphadeg := some (-30) }

/-- the witness panel with the model attribute already set (`calc_kM` does not run `_rebuild`) -/
def conePanelExM : Panel ℚ := { conePanelEx with model := .kind .kpanel }

end GlueExample

end Compmech.Panel
