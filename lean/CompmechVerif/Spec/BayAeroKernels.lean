/-
Where the glue models of the aerodynamic matrix (`Model/PanelGlue.calcKA`, `Model/BayAero.lean`: WHICH kernel is called with WHICH
arguments) meet the kernel models (`Gen/Panel/*/KAx, KAy`: what a kernel computes): `aeroKern T base I m n g` is the COO list the
regenerated kernel of the recorded call `g` produces — the loop nest of `Model/PanelLoop.lean` over the regenerated entry expression
with the coefficients of the call (`beta`, `gamma`) put where the kernel reads them; `m, n`, the geometry and the flags are those of
the PANEL OBJECT the kernel is handed (`base`, `m`, `n`) — for a stiffened bay: of `panels[0]`, not of the bay.
-/
import CompmechVerif.Spec.PanelGlueKernels
import CompmechVerif.Spec.AeroMatrix
import CompmechVerif.Model.BayAeroLemmas

namespace Compmech.Panel
open Compmech.Asm Compmech.PanelLoop Compmech.PanelGlue Compmech.Gen

/-- the regenerated aerodynamic entry expressions of one model -/
structure AeroTable (K : Type) (num : Nat) where
  fkAx : Fin num → Fin num → PCtx K → K
  fkAy : Fin num → Fin num → PCtx K → K

variable {K : Type} [Field K]

def plateAero : AeroTable K 3 := ⟨Plate.fkAx.entry, Plate.fkAy.entry⟩
def plateWAero : AeroTable K 1 := ⟨PlateW.fkAx.entry, PlateW.fkAy.entry⟩
def cpanelAero : AeroTable K 3 := ⟨CPanel.fkAx.entry, CPanel.fkAy.entry⟩

/-- the coefficients an aerodynamic kernel is handed -/
def withCoefs (base : PCtx K) (β γ : K) : PCtx K := { base with beta := β, gamma := γ }

/-- what the aerodynamic kernel of a recorded call returns (before any completion) -/
def aeroKern {num : Nat} (T : AeroTable K num) (base : PCtx K) (I : Integrals K) (m n : Nat) (g : KCall K) : Coo K :=
  match g.name, g.args with
  | .fkAx, [.q β, .q γ, .panel, .nat _, .nat r0, .nat c0] =>
    loopNest num m n r0 c0 fun ro co i k j l => T.fkAx ro co (ctxAt (withCoefs base β γ) I i k j l)
  | .fkAy, [.q β, .panel, .nat _, .nat r0, .nat c0] =>
    loopNest num m n r0 c0 fun ro co i k j l => T.fkAy ro co (ctxAt (withCoefs base β base.gamma) I i k j l)
  | _, _ => []

/-- every triplet of a loop nest lies in `[row0, row0 + num·m·n) × [col0, col0 + num·m·n)` -/
theorem loopNest_support (num m n row0 col0 : Nat) (e : Fin num → Fin num → Nat → Nat → Nat → Nat → K) :
    ∀ x ∈ loopNest num m n row0 col0 e,
      (row0 ≤ x.1 ∧ x.1 < row0 + num * m * n) ∧ (col0 ≤ x.2.1 ∧ x.2.1 < col0 + num * m * n) := by
  intro x hx
  unfold loopNest at hx
  simp only [List.mem_flatMap, List.mem_range] at hx
  obtain ⟨i, hi, k, hk, j, hj, l, hl, hb⟩ := hx
  obtain ⟨ro, co, h1, h2⟩ := mem_block hb
  have b1 : j * m + i + 1 ≤ n * m := by
    calc j * m + i + 1 ≤ j * m + m := by omega
      _ = (j + 1) * m := by ring
      _ ≤ n * m := Nat.mul_le_mul_right m hj
  have b2 : l * m + k + 1 ≤ n * m := by
    calc l * m + k + 1 ≤ l * m + m := by omega
      _ = (l + 1) * m := by ring
      _ ≤ n * m := Nat.mul_le_mul_right m hl
  have c1 : num * (j * m + i) + ro.val < num * m * n := by
    calc num * (j * m + i) + ro.val < num * (j * m + i) + num := by have := ro.isLt; omega
      _ = num * (j * m + i + 1) := by ring
      _ ≤ num * (n * m) := Nat.mul_le_mul_left num b1
      _ = num * m * n := by ring
  have c2 : num * (l * m + k) + co.val < num * m * n := by
    calc num * (l * m + k) + co.val < num * (l * m + k) + num := by have := co.isLt; omega
      _ = num * (l * m + k + 1) := by ring
      _ ≤ num * (n * m) := Nat.mul_le_mul_left num b2
      _ = num * m * n := by ring
  rw [h1, h2]
  omega

/-- an aerodynamic kernel call placed at `(row0, col0) = (0, 0)` on a panel object with series orders `m, n` stays inside
`num·m·n` rows and columns, whatever `size` it is told -/
theorem aeroKern_within {num : Nat} (T : AeroTable K num) (base : PCtx K) (I : Integrals K) (m n : Nat) (g : KCall K)
    (hp : ∃ s, (afterPanel g.args).take 3 = [.nat s, .nat 0, .nat 0]) :
    Within (num * m * n) (num * m * n) (aeroKern T base I m n g) := by
  obtain ⟨s, hs⟩ := hp
  intro x hx
  unfold aeroKern at hx
  split at hx
  · next β γ s' r0 c0 hargs =>
    rw [hargs] at hs
    simp only [afterPanel, List.take_succ_cons, List.take_zero, List.cons.injEq, Arg.nat.injEq, and_true] at hs
    obtain ⟨_, h1, h2⟩ := hs
    subst h1; subst h2
    have := loopNest_support num m n 0 0 _ x hx
    omega
  · next β s' r0 c0 hargs =>
    rw [hargs] at hs
    simp only [afterPanel, List.take_succ_cons, List.take_zero, List.cons.injEq, Arg.nat.injEq, and_true] at hs
    obtain ⟨_, h1, h2⟩ := hs
    subst h1; subst h2
    have := loopNest_support num m n 0 0 _ x hx
    omega
  · cases hx

end Compmech.Panel
