/-
The symmetric connection matrix `[[k11, k12], [k12ᵀ, k22]]` of a penalty connection between two panels, as a function of a
pair of degrees of freedom (panel, field offset, series indices), and its positive semi-definiteness when the three blocks
are the penalty Hessians (what Props/C12 proves per entry).  Helper lemmas for the `conn_psd_*` theorems of Props/C12.
-/
import CompmechVerif.Core.ConnSpecPSD
import CompmechVerif.Spec.Interface
import Mathlib.Tactic.FinCases
import Mathlib.Tactic.NormNum

namespace Compmech.Panel
open scoped BigOperators

/-- entry of the connection matrix for the row degree of freedom `(pA, ro, i, j)` and the column one `(pB, co, k, l)`:
blocks 11, 12, 22 from the kernels, block 21 = transpose of block 12 (entry `(co, ro)` of block 12 with the roles of the
series indices exchanged) -/
def connEntry (b11 b12 b22 : Fin 3 → Fin 3 → CCtx ℝ → ℝ) (base : CCtx ℝ) (J : ConnIntegrals) (E : ConnEvals)
    (pA pB : Pan) (ro co : Fin 3) (i k j l : Nat) : ℝ :=
  match pA, pB with
  | .p1, .p1 => b11 ro co (cctxAt base J E i k j l)
  | .p1, .p2 => b12 ro co (cctxAt base J E i k j l)
  | .p2, .p2 => b22 ro co (cctxAt base J E i k j l)
  | .p2, .p1 => b12 co ro (cctxAt base J E k i l j)

/-- the line penalty Hessian of the transposed pair -/
theorem lineHess_transpose {n : Nat} (base : CCtx ℝ) (J : ConnIntegrals) (E : ConnEvals) (along normal : Dir)
    (len : ℝ) (Z : Nat → Fld → Pan → Nat → ℝ → ℝ) (z₁ z₂ : ℝ) (hR : RealLineIntegrals J along Z z₁ z₂)
    (ops : Pan → Fld → Fin n → List (OpTerm ℝ)) (W : Fin n → ℝ) (pA pB : Pan) (α β : Fld) (i k j l : Nat) :
    lineHess (cctxAt base J E k i l j) along normal len ops W pB pA β α
      = lineHess (cctxAt base J E i k j l) along normal len ops W pA pB α β := by
  rw [lineHess_eq_functional base J E along normal len Z z₁ z₂ hR, lineHess_eq_functional base J E along normal len Z z₁ z₂ hR]
  simp only [mul_comm]

theorem surfHess_transpose {n : Nat} (base : CCtx ℝ) (J : ConnIntegrals) (E : ConnEvals)
    (X Y : Nat → Fld → Pan → Nat → ℝ → ℝ) (x₁ x₂ y₁ y₂ : ℝ) (hR : RealSurfIntegrals J X Y x₁ x₂ y₁ y₂)
    (ops : Pan → Fld → Fin n → List (OpTerm ℝ)) (W : Fin n → ℝ) (pA pB : Pan) (α β : Fld) (i k j l : Nat) :
    surfHess (cctxAt base J E k i l j) ops W pB pA β α = surfHess (cctxAt base J E i k j l) ops W pA pB α β := by
  rw [surfHess_eq_functional base J E X Y x₁ x₂ y₁ y₂ hR, surfHess_eq_functional base J E X Y x₁ x₂ y₁ y₂ hR]
  simp only [mul_comm]

/-- `cᵀ K c ≥ 0` for the connection matrix of a LINE penalty, over any finite family of degrees of freedom of the two panels -/
theorem connEntry_line_psd {n : Nat} {ι : Type} (b11 b12 b22 : Fin 3 → Fin 3 → CCtx ℝ → ℝ) (base : CCtx ℝ)
    (J : ConnIntegrals) (E : ConnEvals) (along normal : Dir) (len : ℝ) (hlen : 0 ≤ len)
    (Z : Nat → Fld → Pan → Nat → ℝ → ℝ) (z₁ z₂ : ℝ) (hR : RealLineIntegrals J along Z z₁ z₂)
    (ops : Pan → Fld → Fin n → List (OpTerm ℝ)) (W : Fin n → ℝ) (hW : ∀ q, 0 ≤ W q)
    (h11 : ∀ ro co i k j l, b11 ro co (cctxAt base J E i k j l)
      = lineHess (cctxAt base J E i k j l) along normal len ops W .p1 .p1 (fld3 ro) (fld3 co))
    (h12 : ∀ ro co i k j l, b12 ro co (cctxAt base J E i k j l)
      = lineHess (cctxAt base J E i k j l) along normal len ops W .p1 .p2 (fld3 ro) (fld3 co))
    (h22 : ∀ ro co i k j l, b22 ro co (cctxAt base J E i k j l)
      = lineHess (cctxAt base J E i k j l) along normal len ops W .p2 .p2 (fld3 ro) (fld3 co))
    (s : Finset ι) (pan : ι → Pan) (ro : ι → Fin 3) (ix iy : ι → Nat) (c : ι → ℝ) :
    0 ≤ ∑ A ∈ s, ∑ B ∈ s, c A * c B *
      connEntry b11 b12 b22 base J E (pan A) (pan B) (ro A) (ro B) (ix A) (ix B) (iy A) (iy B) := by
  have h : ∀ A B, connEntry b11 b12 b22 base J E (pan A) (pan B) (ro A) (ro B) (ix A) (ix B) (iy A) (iy B)
      = lineHess (cctxAt base J E (ix A) (ix B) (iy A) (iy B)) along normal len ops W (pan A) (pan B)
          (fld3 (ro A)) (fld3 (ro B)) := by
    intro A B
    unfold connEntry
    cases pan A <;> cases pan B <;> simp only [h11, h12, h22]
    exact lineHess_transpose base J E along normal len Z z₁ z₂ hR ops W _ _ _ _ _ _ _ _
  simp only [h]
  exact lineHess_psd base J E along normal len hlen Z z₁ z₂ hR ops W hW s pan (fun A => fld3 (ro A)) ix iy c

/-- the same for a SURFACE penalty -/
theorem connEntry_surf_psd {n : Nat} {ι : Type} (b11 b12 b22 : Fin 3 → Fin 3 → CCtx ℝ → ℝ) (base : CCtx ℝ)
    (J : ConnIntegrals) (E : ConnEvals) (hab : 0 ≤ base.a1 * base.b1)
    (X Y : Nat → Fld → Pan → Nat → ℝ → ℝ) (x₁ x₂ y₁ y₂ : ℝ) (hR : RealSurfIntegrals J X Y x₁ x₂ y₁ y₂)
    (ops : Pan → Fld → Fin n → List (OpTerm ℝ)) (W : Fin n → ℝ) (hW : ∀ q, 0 ≤ W q)
    (h11 : ∀ ro co i k j l, b11 ro co (cctxAt base J E i k j l)
      = surfHess (cctxAt base J E i k j l) ops W .p1 .p1 (fld3 ro) (fld3 co))
    (h12 : ∀ ro co i k j l, b12 ro co (cctxAt base J E i k j l)
      = surfHess (cctxAt base J E i k j l) ops W .p1 .p2 (fld3 ro) (fld3 co))
    (h22 : ∀ ro co i k j l, b22 ro co (cctxAt base J E i k j l)
      = surfHess (cctxAt base J E i k j l) ops W .p2 .p2 (fld3 ro) (fld3 co))
    (s : Finset ι) (pan : ι → Pan) (ro : ι → Fin 3) (ix iy : ι → Nat) (c : ι → ℝ) :
    0 ≤ ∑ A ∈ s, ∑ B ∈ s, c A * c B *
      connEntry b11 b12 b22 base J E (pan A) (pan B) (ro A) (ro B) (ix A) (ix B) (iy A) (iy B) := by
  have h : ∀ A B, connEntry b11 b12 b22 base J E (pan A) (pan B) (ro A) (ro B) (ix A) (ix B) (iy A) (iy B)
      = surfHess (cctxAt base J E (ix A) (ix B) (iy A) (iy B)) ops W (pan A) (pan B) (fld3 (ro A)) (fld3 (ro B)) := by
    intro A B
    unfold connEntry
    cases pan A <;> cases pan B <;> simp only [h11, h12, h22]
    exact surfHess_transpose base J E X Y x₁ x₂ y₁ y₂ hR ops W _ _ _ _ _ _ _ _
  simp only [h]
  exact surfHess_psd base J E hab X Y x₁ x₂ y₁ y₂ hR ops W hW s pan (fun A => fld3 (ro A)) ix iy c

theorem penaltyW_nonneg (C : CCtx ℝ) (hkt : 0 ≤ C.kt) (hkr : 0 ≤ C.kr) (q : Fin 4) : 0 ≤ penaltyW C q := by
  fin_cases q <;> simpa [penaltyW]

theorem sbW_nonneg (C : CCtx ℝ) (hkt : 0 ≤ C.kt) (q : Fin 4) : 0 ≤ sbW C q := by
  fin_cases q <;> simp [sbW, hkt]

/-! ### a concrete instance (non-vacuity of the `conn_psd_*` theorems of Props/C12) -/
namespace ConnPSDExample

def mono (d : Nat) (_ : Fld) (p : Pan) (i : Nat) (t : ℝ) : ℝ :=
  match p with
  | .p1 => t ^ (i + d)
  | .p2 => (1 - t) ^ (i + d)

noncomputable def monoJ : ConnIntegrals :=
  fun _ d₁ f₁ p₁ a d₂ f₂ p₂ b => ∫ t in (-1 : ℝ)..1, mono d₁ f₁ p₁ a t * mono d₂ f₂ p₂ b t

/-- point values at the interface coordinate `t = 1` of panel 1, `t = −1` of panel 2 -/
def monoE : ConnEvals := fun _ d f p i =>
  match p with
  | .p1 => mono d f p i 1
  | .p2 => mono d f p i (-1)

theorem mono_continuous (d : Nat) (f : Fld) (p : Pan) (i : Nat) : Continuous (mono d f p i) := by
  cases p <;> (unfold mono; fun_prop)

theorem monoJ_line (along : Dir) : RealLineIntegrals monoJ along mono (-1) 1 where
  cont := mono_continuous
  hz := by norm_num
  eq _ _ _ _ _ _ _ _ := rfl

theorem monoJ_surf : RealSurfIntegrals monoJ mono mono (-1) 1 (-1) 1 where
  contX := mono_continuous
  contY := mono_continuous
  hx := by norm_num
  hy := by norm_num
  eqx _ _ _ _ _ _ _ _ := rfl
  eqy _ _ _ _ _ _ _ _ := rfl

noncomputable def unitConn : CCtx ℝ :=
  { a1 := 2, b1 := 2, a2 := 3, b2 := 1, kt := 1000, kr := 10, dsb := 1 / 10, J := fun _ _ _ _ _ _ _ _ _ => 0,
    E := fun _ _ _ _ _ => 0 }

end ConnPSDExample

end Compmech.Panel
