/-
Helper lemmas behind `Props/C01.lean`.  Every `<name>_aux` has exactly the statement of the
property theorem `C01.<name>`.
-/
import CompmechVerif.Spec.Rotation
import Mathlib.Tactic.Ring
import Mathlib.Tactic.LinearCombination
import Mathlib.Tactic.FieldSimp
import Mathlib.Tactic.Linarith
import Mathlib.Tactic.Positivity
import Mathlib.Tactic.NormNum
import Mathlib.Tactic.FinCases
import Mathlib.Algebra.CharZero.Defs
import Mathlib.Algebra.BigOperators.Group.List.Basic
import Mathlib.Data.List.Perm.Basic
import Mathlib.LinearAlgebra.Matrix.Symmetric
import Mathlib.Analysis.SpecialFunctions.Integrals.Basic

namespace Compmech.Laminate

variable {K : Type} [Field K]

/-! ## Part 1: any field -/

/-! ### `Q9` as a module, componentwise -/

theorem Q9.add_assoc' (a b c : Q9 K) : (a.add b).add c = a.add (b.add c) := by
  ext <;> simp only [Q9.add] <;> ring

theorem Q9.add_zero' (a : Q9 K) : a.add Q9.zero = a := by
  ext <;> simp only [Q9.add, Q9.zero, add_zero]

theorem Q9.zero_add' (a : Q9 K) : Q9.zero.add a = a := by
  ext <;> simp only [Q9.add, Q9.zero, zero_add]

/-! ### The fold of `abdStep` in closed (recursive-sum) form -/

/-- `Σ_k w(z_{k-1}, z_k) • QL_k`, plies stacked from `h`. -/
def wsum (w : K → K → K) : K → List (Ply K) → Q9 K
  | _, [] => Q9.zero
  | h, p :: ps => (Q9.smul (w h (h + p.t)) p.QL).add (wsum w (h + p.t) ps)

/-- the three weights that `abdStep` uses -/
def wA (a b : K) : K := b - a
def wB (a b : K) : K := 1 / 2 * (b ^ 2 - a ^ 2)
def wD (a b : K) : K := 1 / 3 * (b ^ 3 - a ^ 3)

theorem thickness_nil : thickness ([] : List (Ply K)) = 0 := by
  simp only [thickness, List.map_nil, List.sum_nil]

theorem thickness_cons (p : Ply K) (ps : List (Ply K)) :
    thickness (p :: ps) = p.t + thickness ps := by
  simp only [thickness, List.map_cons, List.sum_cons]

theorem thickness_reverse (ps : List (Ply K)) : thickness ps.reverse = thickness ps := by
  simp only [thickness, List.map_reverse, List.sum_reverse]

theorem foldl_abdStep (ps : List (Ply K)) (acc : Acc K) :
    ps.foldl abdStep acc =
      ⟨acc.h0 + thickness ps, acc.A.add (wsum wA acc.h0 ps), acc.B.add (wsum wB acc.h0 ps),
        acc.D.add (wsum wD acc.h0 ps)⟩ := by
  induction ps generalizing acc with
  | nil =>
    simp only [List.foldl_nil, thickness_nil, wsum, Q9.add_zero', add_zero]
  | cons p ps ih =>
    rw [List.foldl_cons, ih]
    simp only [abdStep, thickness_cons, wsum, Q9.add_assoc', add_assoc, wA, wB, wD]

theorem abd_A (plies : List (Ply K)) (offset : K) :
    (abd plies offset).A = wsum wA (-(thickness plies) / 2 + offset) plies := by
  simp only [abd, foldl_abdStep, Q9.zero_add']

theorem abd_B (plies : List (Ply K)) (offset : K) :
    (abd plies offset).B = wsum wB (-(thickness plies) / 2 + offset) plies := by
  simp only [abd, foldl_abdStep, Q9.zero_add']

theorem abd_D (plies : List (Ply K)) (offset : K) :
    (abd plies offset).D = wsum wD (-(thickness plies) / 2 + offset) plies := by
  simp only [abd, foldl_abdStep, Q9.zero_add']

/-! ### Tensor rotation -/

theorem rotQ_energy (c s : K) (q : Q9 K) (e : V3 K) :
    quad3 (rotQ c s q) e = quad3 q.ortho (rotStrain c s e) := by
  simp only [quad3, rotQ, Q9.ortho, rotStrain]
  ring

theorem rotQ_shear_energy (c s : K) (q : Q9 K) (g4 g5 : K) :
    quad2 (rotQ c s q) g4 g5 = quad2 q.ortho (c * g4 - s * g5) (s * g4 + c * g5) := by
  simp only [quad2, rotQ, Q9.ortho]
  ring

theorem rotQ_mirror_aux (c s : K) (q : Q9 K) : rotQ c (-s) q = (rotQ c s q).mirror := by
  ext <;> simp only [rotQ, Q9.mirror] <;> ring

theorem rotQ_turn90_aux (c s : K) (q : Q9 K) : rotQ (-s) c q = (rotQ c s q).turn90 := by
  ext <;> simp only [rotQ, Q9.turn90] <;> ring

/-! ### Ply-wise linear maps of `QL` (mirror, 90° turn) -/

theorem thickness_map_QL (f : Q9 K → Q9 K) (ps : List (Ply K)) :
    thickness (ps.map fun p => (⟨p.t, f p.QL⟩ : Ply K)) = thickness ps := by
  simp only [thickness, List.map_map]
  rfl

theorem wsum_map_QL (f : Q9 K → Q9 K) (hz : f Q9.zero = Q9.zero)
    (hl : ∀ (a : K) (x y : Q9 K), f ((Q9.smul a x).add y) = (Q9.smul a (f x)).add (f y))
    (w : K → K → K) (ps : List (Ply K)) (h : K) :
    wsum w h (ps.map fun p => (⟨p.t, f p.QL⟩ : Ply K)) = f (wsum w h ps) := by
  induction ps generalizing h with
  | nil => simp only [List.map_nil, wsum, hz]
  | cons p ps ih => simp only [List.map_cons, wsum, ih, hl]

theorem mirror_angles_aux (plies : List (Ply K)) (offset : K) :
    let m := abd (plies.map fun p => ⟨p.t, p.QL.mirror⟩) offset
    m.A = (abd plies offset).A.mirror ∧ m.B = (abd plies offset).B.mirror ∧
      m.D = (abd plies offset).D.mirror := by
  have hz : Q9.mirror (Q9.zero : Q9 K) = Q9.zero := by
    ext <;> simp only [Q9.mirror, Q9.zero, neg_zero]
  have hl : ∀ (a : K) (x y : Q9 K),
      Q9.mirror ((Q9.smul a x).add y) = (Q9.smul a x.mirror).add y.mirror := by
    intro a x y
    ext <;> simp only [Q9.mirror, Q9.add, Q9.smul] <;> ring
  intro m
  refine ⟨?_, ?_, ?_⟩ <;>
    simp only [m, abd_A, abd_B, abd_D, thickness_map_QL Q9.mirror, wsum_map_QL Q9.mirror hz hl]

theorem rotate_90_aux (plies : List (Ply K)) (offset : K) :
    let m := abd (plies.map fun p => ⟨p.t, p.QL.turn90⟩) offset
    m.A = (abd plies offset).A.turn90 ∧ m.B = (abd plies offset).B.turn90 ∧
      m.D = (abd plies offset).D.turn90 := by
  have hz : Q9.turn90 (Q9.zero : Q9 K) = Q9.zero := by
    ext <;> simp only [Q9.turn90, Q9.zero, neg_zero]
  have hl : ∀ (a : K) (x y : Q9 K),
      Q9.turn90 ((Q9.smul a x).add y) = (Q9.smul a x.turn90).add y.turn90 := by
    intro a x y
    ext <;> simp only [Q9.turn90, Q9.add, Q9.smul] <;> ring
  intro m
  refine ⟨?_, ?_, ?_⟩ <;>
    simp only [m, abd_A, abd_B, abd_D, thickness_map_QL Q9.turn90, wsum_map_QL Q9.turn90 hz hl]

/-! ### `A` is order-independent -/

/-- `Σ t_k • QL_k` -/
def tQsum : List (Ply K) → Q9 K
  | [] => Q9.zero
  | p :: ps => (Q9.smul p.t p.QL).add (tQsum ps)

theorem wsum_wA_eq (ps : List (Ply K)) (h : K) : wsum wA h ps = tQsum ps := by
  induction ps generalizing h with
  | nil => rfl
  | cons p ps ih =>
    simp only [wsum, tQsum, ih, wA, add_sub_cancel_left]

theorem tQsum_perm {l l' : List (Ply K)} (h : l.Perm l') : tQsum l = tQsum l' := by
  induction h with
  | nil => rfl
  | cons p _ ih => simp only [tQsum, ih]
  | swap p p' l =>
    ext <;> simp only [tQsum, Q9.add, Q9.smul] <;> ring
  | trans _ _ ih1 ih2 => exact ih1.trans ih2

theorem A_perm_invariant_aux (plies plies' : List (Ply K)) (h : plies.Perm plies') (o o' : K) :
    (abd plies o).A = (abd plies' o').A := by
  rw [abd_A, abd_A, wsum_wA_eq, wsum_wA_eq, tQsum_perm h]

/-! ### The 6×6 matrix is symmetric -/

omit [Field K] in
theorem abdMatrix_symm (a : Acc K) : (abdMatrix a).IsSymm := by
  apply Matrix.IsSymm.ext
  intro i j
  fin_cases i <;> fin_cases j <;> rfl

theorem abd_symm_aux (plies : List (Ply K)) (offset : K) : (abdMatrix (abd plies offset)).IsSymm :=
  abdMatrix_symm _

/-! ### Uniform arguments of `read_stack` -/

theorem uniform_eq_perply_aux [DecidableEq K] (cs : List (K × K)) (t : K) (p : List K) (offset : K)
    (ht : t ≠ 0) (hp : p ≠ []) (hcs : cs ≠ []) :
    readStack cs (some t) (some p) [] [] offset =
      readStack cs none none (cs.map fun _ => t) (cs.map fun _ => p) offset := by
  have h1 : p.isEmpty = false := by
    cases p with
    | nil => exact absurd rfl hp
    | cons _ _ => rfl
  have h2 : (cs.map fun _ => t).isEmpty = false := by
    cases cs with
    | nil => exact absurd rfl hcs
    | cons _ _ => rfl
  have h3 : (cs.map fun _ => p).isEmpty = false := by
    cases cs with
    | nil => exact absurd rfl hcs
    | cons _ _ => rfl
  simp only [readStack, List.isEmpty_nil, if_true, if_neg ht, h1, h2, h3, Bool.false_eq_true,
    if_false]

/-! ### Appending a ply -/

theorem wsum_append_singleton (w : K → K → K) (ps : List (Ply K)) (p : Ply K) (h : K) :
    wsum w h (ps ++ [p]) =
      (wsum w h ps).add (Q9.smul (w (h + thickness ps) (h + thickness ps + p.t)) p.QL) := by
  induction ps generalizing h with
  | nil =>
    simp only [List.nil_append, wsum, thickness_nil, add_zero, Q9.add_zero', Q9.zero_add']
  | cons q ps ih =>
    simp only [List.cons_append, wsum, ih, thickness_cons, Q9.add_assoc', add_assoc]

/-! ## Part 2: characteristic zero (the halves and thirds of `abdStep` must be honest) -/

section charzero
variable [CharZero K]

theorem rotStrain_eq_tensor_aux (c s : K) (e : V3 K) :
    !![c, s; -s, c] * !![e.x, e.g / 2; e.g / 2, e.y] * (!![c, s; -s, c] : Matrix (Fin 2) (Fin 2) K).transpose
      = !![(rotStrain c s e).x, (rotStrain c s e).g / 2; (rotStrain c s e).g / 2, (rotStrain c s e).y] := by
  ext i j
  fin_cases i <;> fin_cases j <;>
    simp [Matrix.mul_apply, Fin.sum_univ_succ, rotStrain] <;> ring

theorem quad_determines_aux (q q' : Q9 K)
    (h3 : ∀ e, quad3 q e = quad3 q' e) (h2 : ∀ g4 g5, quad2 q g4 g5 = quad2 q' g4 g5) : q = q' := by
  have two : (2 : K) ≠ 0 := two_ne_zero
  have a11 := h3 ⟨1, 0, 0⟩
  have a22 := h3 ⟨0, 1, 0⟩
  have a66 := h3 ⟨0, 0, 1⟩
  have a12 := h3 ⟨1, 1, 0⟩
  have a16 := h3 ⟨1, 0, 1⟩
  have a26 := h3 ⟨0, 1, 1⟩
  have a44 := h2 1 0
  have a55 := h2 0 1
  have a45 := h2 1 1
  simp only [quad3, quad2] at a11 a22 a66 a12 a16 a26 a44 a55 a45
  ext
  · linear_combination a11
  · apply mul_left_cancel₀ two; linear_combination a12 - a11 - a22
  · linear_combination a22
  · apply mul_left_cancel₀ two; linear_combination a16 - a11 - a66
  · apply mul_left_cancel₀ two; linear_combination a26 - a22 - a66
  · linear_combination a66
  · linear_combination a44
  · apply mul_left_cancel₀ two; linear_combination a45 - a44 - a55
  · linear_combination a55

/-! ### Offset shift -/

theorem wsum_shift (d : K) (ps : List (Ply K)) (h : K) :
    wsum wA (h + d) ps = wsum wA h ps ∧
    wsum wB (h + d) ps = (wsum wB h ps).add (Q9.smul d (wsum wA h ps)) ∧
    wsum wD (h + d) ps =
      ((wsum wD h ps).add (Q9.smul (2 * d) (wsum wB h ps))).add (Q9.smul (d ^ 2) (wsum wA h ps)) := by
  induction ps generalizing h with
  | nil =>
    refine ⟨rfl, ?_, ?_⟩ <;> ext <;> simp only [wsum, Q9.add, Q9.smul, Q9.zero] <;> ring
  | cons p ps ih =>
    obtain ⟨ihA, ihB, ihD⟩ := ih (h + p.t)
    have e : h + d + p.t = h + p.t + d := add_right_comm h d p.t
    simp only [wsum, e, ihA, ihB, ihD]
    refine ⟨?_, ?_, ?_⟩ <;> ext <;> simp only [Q9.add, Q9.smul, wA, wB, wD] <;> ring

theorem abd_offset_shift_aux (plies : List (Ply K)) (offset d : K) :
    (abd plies (offset + d)).A = (abd plies offset).A ∧
    (abd plies (offset + d)).B = (abd plies offset).B.add (Q9.smul d (abd plies offset).A) ∧
    (abd plies (offset + d)).D =
      ((abd plies offset).D.add (Q9.smul (2 * d) (abd plies offset).B)).add
        (Q9.smul (d ^ 2) (abd plies offset).A) := by
  simp only [abd_A, abd_B, abd_D, ← add_assoc]
  exact wsum_shift d plies _

/-! ### Mid-plane symmetric stacks -/

/-- `B` of the reversed stack from `h` is minus `B` of the stack from the mirrored start. -/
theorem wsum_wB_reverse (ps : List (Ply K)) (h : K) :
    wsum wB h ps.reverse = Q9.smul (-1) (wsum wB (-(h + thickness ps)) ps) := by
  induction ps generalizing h with
  | nil => ext <;> simp only [List.reverse_nil, wsum, Q9.smul, Q9.zero, mul_zero]
  | cons p ps ih =>
    have e : -(h + (p.t + thickness ps)) + p.t = -(h + thickness ps) := by ring
    simp only [List.reverse_cons, wsum_append_singleton, thickness_reverse, ih, wsum,
      thickness_cons, e]
    ext <;> simp only [Q9.add, Q9.smul, wB] <;> ring

theorem Q9.eq_zero_of_eq_neg (x : Q9 K) (h : x = Q9.smul (-1) x) : x = Q9.zero := by
  have two : (2 : K) ≠ 0 := two_ne_zero
  have aux : ∀ a : K, a = -1 * a → a = 0 := fun a ha => by
    apply mul_left_cancel₀ two; linear_combination ha
  ext
  exacts [aux _ (congrArg Q9.q11 h), aux _ (congrArg Q9.q12 h), aux _ (congrArg Q9.q22 h),
    aux _ (congrArg Q9.q16 h), aux _ (congrArg Q9.q26 h), aux _ (congrArg Q9.q66 h),
    aux _ (congrArg Q9.q44 h), aux _ (congrArg Q9.q45 h), aux _ (congrArg Q9.q55 h)]

theorem symmetric_stack_B_zero_aux (plies : List (Ply K)) (h : plies.reverse = plies) :
    (abd plies 0).B = Q9.zero := by
  rw [abd_B]
  have key := wsum_wB_reverse plies (-(thickness plies) / 2 + 0)
  rw [h] at key
  have e : -(-(thickness plies) / 2 + 0 + thickness plies) = -(thickness plies) / 2 + 0 := by
    ring
  rw [e] at key
  exact Q9.eq_zero_of_eq_neg _ key

end charzero

/-! ## Part 3: the reals -/

section real

/-! ### Through-thickness integrals -/

theorem wsum_eq_integralSpec (w : ℝ → ℝ → ℝ) (f : ℝ → ℝ)
    (hw : ∀ a b, w a b = ∫ z in a..b, f z) (ps : List (Ply ℝ)) (h : ℝ) :
    wsum w h ps = integralSpec f h ps := by
  induction ps generalizing h with
  | nil => rfl
  | cons p ps ih => simp only [wsum, integralSpec, ih, hw]

theorem abd_eq_integral_aux (plies : List (Ply ℝ)) (offset : ℝ) :
    let h0 := -(thickness plies) / 2 + offset
    (abd plies offset).A = integralSpec (fun _ => 1) h0 plies ∧
    (abd plies offset).B = integralSpec (fun z => z) h0 plies ∧
    (abd plies offset).D = integralSpec (fun z => z ^ 2) h0 plies := by
  intro h0
  refine ⟨?_, ?_, ?_⟩
  · rw [abd_A]
    apply wsum_eq_integralSpec
    intro a b
    rw [integral_one, wA]
  · rw [abd_B]
    apply wsum_eq_integralSpec
    intro a b
    rw [integral_id, wB]
    ring
  · rw [abd_D]
    apply wsum_eq_integralSpec
    intro a b
    rw [integral_pow, wD]
    norm_num
    ring

/-! ### Positive definiteness of one ply -/

theorem ortho_pd (q : Q9 ℝ) (h11 : 0 < q.q11) (h66 : 0 < q.q66)
    (hdet : 0 < q.q11 * q.q22 - q.q12 ^ 2)
    (e : V3 ℝ) (he : e.x ≠ 0 ∨ e.y ≠ 0 ∨ e.g ≠ 0) : 0 < quad3 q.ortho e := by
  have key : q.q11 * quad3 q.ortho e =
      (q.q11 * e.x + q.q12 * e.y) ^ 2 + (q.q11 * q.q22 - q.q12 ^ 2) * e.y ^ 2
        + q.q11 * q.q66 * e.g ^ 2 := by
    simp only [quad3, Q9.ortho]; ring
  have s1 : 0 ≤ (q.q11 * e.x + q.q12 * e.y) ^ 2 := sq_nonneg _
  have s2 : 0 ≤ (q.q11 * q.q22 - q.q12 ^ 2) * e.y ^ 2 := mul_nonneg hdet.le (sq_nonneg _)
  have s3 : 0 ≤ q.q11 * q.q66 * e.g ^ 2 := by positivity
  have pos : 0 < q.q11 * quad3 q.ortho e := by
    rw [key]
    by_cases hg : e.g = 0
    · by_cases hy : e.y = 0
      · have hx : e.x ≠ 0 := by
          rcases he with h | h | h
          · exact h
          · exact absurd hy h
          · exact absurd hg h
        have : 0 < (q.q11 * e.x + q.q12 * e.y) ^ 2 := by
          rw [hy, mul_zero, add_zero]; positivity
        linarith
      · have : 0 < (q.q11 * q.q22 - q.q12 ^ 2) * e.y ^ 2 := mul_pos hdet (by positivity)
        linarith
    · have : 0 < q.q11 * q.q66 * e.g ^ 2 := by positivity
      linarith
  exact (mul_pos_iff_of_pos_left h11).mp pos

theorem planeStressQ_ortho (m : MatProps ℝ) : (planeStressQ m).ortho = planeStressQ m := rfl

theorem planeStressQ_posdef_aux (m : MatProps ℝ) (hm : Admissible m) (e : V3 ℝ)
    (he : e.x ≠ 0 ∨ e.y ≠ 0 ∨ e.g ≠ 0) : 0 < quad3 (planeStressQ m) e := by
  obtain ⟨h1, h2, h12, _, _, hd⟩ := hm
  rw [← planeStressQ_ortho]
  have hr : m.nu21 * m.e1 = m.nu12 * m.e2 := by
    unfold MatProps.nu21
    exact div_mul_cancel₀ _ h1.ne'
  refine ortho_pd _ ?_ ?_ ?_ e he
  · exact div_pos h1 hd
  · exact h12
  · show 0 < m.e1 / (1 - m.nu12 * m.nu21) * (m.e2 / (1 - m.nu12 * m.nu21))
        - (m.nu12 * m.e2 / (1 - m.nu12 * m.nu21)) ^ 2
    have h : m.e1 / (1 - m.nu12 * m.nu21) * (m.e2 / (1 - m.nu12 * m.nu21))
        - (m.nu12 * m.e2 / (1 - m.nu12 * m.nu21)) ^ 2
        = m.e1 * m.e2 * (1 - m.nu12 * m.nu21) / (1 - m.nu12 * m.nu21) ^ 2 := by
      have h' : (m.nu12 * m.e2) ^ 2 = m.nu12 * m.e2 * (m.nu21 * m.e1) := by rw [hr]; ring
      have gen : ∀ a b c d : ℝ, a / d * (b / d) - (c / d) ^ 2 = (a * b - c ^ 2) / d ^ 2 := by
        intro a b c d; ring
      rw [gen, h']
      congr 1
      ring
    rw [h]
    positivity

theorem rotStrain_ne_zero {c s : ℝ} (hcs : c ^ 2 + s ^ 2 = 1) (e : V3 ℝ)
    (he : e.x ≠ 0 ∨ e.y ≠ 0 ∨ e.g ≠ 0) :
    (rotStrain c s e).x ≠ 0 ∨ (rotStrain c s e).y ≠ 0 ∨ (rotStrain c s e).g ≠ 0 := by
  by_contra hcon
  have h1 : (rotStrain c s e).x = 0 := by
    by_contra h; exact hcon (Or.inl h)
  have h2 : (rotStrain c s e).y = 0 := by
    by_contra h; exact hcon (Or.inr (Or.inl h))
  have h3 : (rotStrain c s e).g = 0 := by
    by_contra h; exact hcon (Or.inr (Or.inr h))
  have ex : e.x = c ^ 2 * (rotStrain c s e).x + s ^ 2 * (rotStrain c s e).y
      - s * c * (rotStrain c s e).g := by
    simp only [rotStrain]; linear_combination (-e.x * (c ^ 2 + s ^ 2 + 1)) * hcs
  have ey : e.y = s ^ 2 * (rotStrain c s e).x + c ^ 2 * (rotStrain c s e).y
      + s * c * (rotStrain c s e).g := by
    simp only [rotStrain]; linear_combination (-e.y * (c ^ 2 + s ^ 2 + 1)) * hcs
  have eg : e.g = 2 * s * c * (rotStrain c s e).x - 2 * s * c * (rotStrain c s e).y
      + (c ^ 2 - s ^ 2) * (rotStrain c s e).g := by
    simp only [rotStrain]; linear_combination (-e.g * (c ^ 2 + s ^ 2 + 1)) * hcs
  rw [h1, h2, h3] at ex ey eg
  have ex0 : e.x = 0 := by rw [ex]; ring
  have ey0 : e.y = 0 := by rw [ey]; ring
  have eg0 : e.g = 0 := by rw [eg]; ring
  rcases he with h | h | h
  · exact h ex0
  · exact h ey0
  · exact h eg0

/-- What the positive-definiteness proofs need of one ply. -/
structure GoodPly (p : Ply ℝ) : Prop where
  tpos : 0 < p.t
  psd3 : ∀ e : V3 ℝ, 0 ≤ quad3 p.QL e
  pd3 : ∀ e : V3 ℝ, (e.x ≠ 0 ∨ e.y ≠ 0 ∨ e.g ≠ 0) → 0 < quad3 p.QL e
  psd2 : ∀ g4 g5 : ℝ, 0 ≤ quad2 p.QL g4 g5
  pd2 : ∀ g4 g5 : ℝ, (g4 ≠ 0 ∨ g5 ≠ 0) → 0 < quad2 p.QL g4 g5

theorem goodPly_rot (c s t : ℝ) (m : MatProps ℝ) (hcs : c ^ 2 + s ^ 2 = 1) (ht : 0 < t)
    (hm : Admissible m) : GoodPly ⟨t, rotQ c s (planeStressQ m)⟩ := by
  have pd3 : ∀ e : V3 ℝ, (e.x ≠ 0 ∨ e.y ≠ 0 ∨ e.g ≠ 0) →
      0 < quad3 (rotQ c s (planeStressQ m)) e := by
    intro e he
    rw [rotQ_energy, planeStressQ_ortho]
    exact planeStressQ_posdef_aux m hm _ (rotStrain_ne_zero hcs e he)
  have pd2 : ∀ g4 g5 : ℝ, (g4 ≠ 0 ∨ g5 ≠ 0) → 0 < quad2 (rotQ c s (planeStressQ m)) g4 g5 := by
    intro g4 g5 hg
    obtain ⟨_, _, _, h13, h23, _⟩ := hm
    rw [rotQ_shear_energy, planeStressQ_ortho]
    simp only [quad2, planeStressQ]
    have hsum : (c * g4 - s * g5) ^ 2 + (s * g4 + c * g5) ^ 2 = g4 ^ 2 + g5 ^ 2 := by
      linear_combination (g4 ^ 2 + g5 ^ 2) * hcs
    have hpos : 0 < g4 ^ 2 + g5 ^ 2 := by
      rcases hg with h | h <;> positivity
    have na : 0 ≤ m.g23 * (c * g4 - s * g5) ^ 2 := mul_nonneg h23.le (sq_nonneg _)
    by_cases ha : c * g4 - s * g5 = 0
    · have hb : 0 < (s * g4 + c * g5) ^ 2 := by
        rw [ha] at hsum; linarith
      have := mul_pos h13 hb
      linarith
    · have := mul_pos h23 (by positivity : 0 < (c * g4 - s * g5) ^ 2)
      have nb : 0 ≤ m.g13 * (s * g4 + c * g5) ^ 2 := mul_nonneg h13.le (sq_nonneg _)
      linarith
  refine ⟨ht, ?_, pd3, ?_, pd2⟩
  · intro e
    by_cases he : e.x ≠ 0 ∨ e.y ≠ 0 ∨ e.g ≠ 0
    · exact (pd3 e he).le
    · have hx : e.x = 0 := by by_contra h; exact he (Or.inl h)
      have hy : e.y = 0 := by by_contra h; exact he (Or.inr (Or.inl h))
      have hg : e.g = 0 := by by_contra h; exact he (Or.inr (Or.inr h))
      show 0 ≤ quad3 (rotQ c s (planeStressQ m)) e
      simp only [quad3, hx, hy, hg]
      apply le_of_eq; ring
  · intro g4 g5
    by_cases hg : g4 ≠ 0 ∨ g5 ≠ 0
    · exact (pd2 g4 g5 hg).le
    · have h4 : g4 = 0 := by by_contra h; exact hg (Or.inl h)
      have h5 : g5 = 0 := by by_contra h; exact hg (Or.inr h)
      show 0 ≤ quad2 (rotQ c s (planeStressQ m)) g4 g5
      simp only [quad2, h4, h5]
      apply le_of_eq; ring

/-! ### Summing over the stack -/

/-- The accumulators of a stack started at height `h` (the `h0` field is irrelevant). -/
noncomputable def accOf (h : ℝ) (ps : List (Ply ℝ)) : Acc ℝ := ⟨0, wsum wA h ps, wsum wB h ps, wsum wD h ps⟩

theorem quadABD_abd (plies : List (Ply ℝ)) (offset : ℝ) (e k : V3 ℝ) :
    quadABD (abd plies offset) e k = quadABD (accOf (-(thickness plies) / 2 + offset) plies) e k := by
  simp only [quadABD, abd_A, abd_B, abd_D, accOf]

/-- One ply's contribution to `(ε,κ)ᵀ ABD (ε,κ)`: the energy at the mid-height strain plus the
bending term about the ply's own mid-plane. -/
noncomputable def plyTerm (h : ℝ) (p : Ply ℝ) (e k : V3 ℝ) : ℝ :=
  p.t * (quad3 p.QL ⟨e.x + (h + p.t / 2) * k.x, e.y + (h + p.t / 2) * k.y, e.g + (h + p.t / 2) * k.g⟩
    + p.t ^ 2 / 12 * quad3 p.QL k)

theorem quadABD_accOf_nil (h : ℝ) (e k : V3 ℝ) : quadABD (accOf h []) e k = 0 := by
  simp only [quadABD, accOf, wsum, quad3, bil3, Q9.zero]; ring

theorem quadABD_accOf_cons (h : ℝ) (p : Ply ℝ) (ps : List (Ply ℝ)) (e k : V3 ℝ) :
    quadABD (accOf h (p :: ps)) e k = plyTerm h p e k + quadABD (accOf (h + p.t) ps) e k := by
  simp only [quadABD, accOf, wsum, quad3, bil3, Q9.add, Q9.smul, wA, wB, wD, plyTerm]; ring

theorem plyTerm_nonneg {p : Ply ℝ} (hp : GoodPly p) (h : ℝ) (e k : V3 ℝ) : 0 ≤ plyTerm h p e k := by
  have := hp.tpos
  exact mul_nonneg hp.tpos.le (add_nonneg (hp.psd3 _) (mul_nonneg (by positivity) (hp.psd3 k)))

theorem plyTerm_pos {p : Ply ℝ} (hp : GoodPly p) (h : ℝ) (e k : V3 ℝ)
    (hek : e.x ≠ 0 ∨ e.y ≠ 0 ∨ e.g ≠ 0 ∨ k.x ≠ 0 ∨ k.y ≠ 0 ∨ k.g ≠ 0) : 0 < plyTerm h p e k := by
  have ht := hp.tpos
  by_cases hk : k.x ≠ 0 ∨ k.y ≠ 0 ∨ k.g ≠ 0
  · exact mul_pos ht (add_pos_of_nonneg_of_pos (hp.psd3 _) (mul_pos (by positivity) (hp.pd3 k hk)))
  · have kx : k.x = 0 := by by_contra h; exact hk (Or.inl h)
    have ky : k.y = 0 := by by_contra h; exact hk (Or.inr (Or.inl h))
    have kg : k.g = 0 := by by_contra h; exact hk (Or.inr (Or.inr h))
    have he : e.x ≠ 0 ∨ e.y ≠ 0 ∨ e.g ≠ 0 := by
      rcases hek with h | h | h | h | h | h
      · exact Or.inl h
      · exact Or.inr (Or.inl h)
      · exact Or.inr (Or.inr h)
      · exact absurd kx h
      · exact absurd ky h
      · exact absurd kg h
    refine mul_pos ht (add_pos_of_pos_of_nonneg (hp.pd3 _ ?_) (mul_nonneg (by positivity) (hp.psd3 k)))
    simp only [kx, ky, kg, mul_zero, add_zero]
    exact he

theorem quadABD_accOf_nonneg (ps : List (Ply ℝ)) (hg : ∀ p ∈ ps, GoodPly p) (h : ℝ) (e k : V3 ℝ) :
    0 ≤ quadABD (accOf h ps) e k := by
  induction ps generalizing h with
  | nil => rw [quadABD_accOf_nil]
  | cons p ps ih =>
    rw [quadABD_accOf_cons]
    exact add_nonneg (plyTerm_nonneg (hg p List.mem_cons_self) h e k)
      (ih (fun q hq => hg q (List.mem_cons_of_mem _ hq)) _)

theorem quad2_wsum_nil (h g4 g5 : ℝ) : quad2 (wsum wA h ([] : List (Ply ℝ))) g4 g5 = 0 := by
  simp only [quad2, wsum, Q9.zero]; ring

theorem quad2_wsum_cons (h : ℝ) (p : Ply ℝ) (ps : List (Ply ℝ)) (g4 g5 : ℝ) :
    quad2 (wsum wA h (p :: ps)) g4 g5 = p.t * quad2 p.QL g4 g5 + quad2 (wsum wA (h + p.t) ps) g4 g5 := by
  simp only [quad2, wsum, Q9.add, Q9.smul, wA]; ring

theorem quad2_wsum_nonneg (ps : List (Ply ℝ)) (hg : ∀ p ∈ ps, GoodPly p) (h g4 g5 : ℝ) :
    0 ≤ quad2 (wsum wA h ps) g4 g5 := by
  induction ps generalizing h with
  | nil => rw [quad2_wsum_nil]
  | cons p ps ih =>
    rw [quad2_wsum_cons]
    have hp := hg p List.mem_cons_self
    exact add_nonneg (mul_nonneg hp.tpos.le (hp.psd2 _ _))
      (ih (fun q hq => hg q (List.mem_cons_of_mem _ hq)) _)

/-! ### The hypotheses of `abd_posdef` / `E_posdef` -/

theorem plies_good (ps : List (PlyIn ℝ)) (ms : List (MatProps ℝ)) (plies : List (Ply ℝ))
    (hplies : plies = (List.zip ps ms).map fun pm => ⟨pm.1.t, rotQ pm.1.c pm.1.s (planeStressQ pm.2)⟩)
    (hadm : ∀ m ∈ ms, Admissible m)
    (hcs : ∀ p ∈ ps, p.c ^ 2 + p.s ^ 2 = 1 ∧ 0 < p.t) : ∀ p ∈ plies, GoodPly p := by
  intro p hp
  rw [hplies] at hp
  obtain ⟨⟨a, b⟩, hpm, rfl⟩ := List.mem_map.1 hp
  obtain ⟨ha, hb⟩ := List.of_mem_zip hpm
  exact goodPly_rot a.c a.s a.t b (hcs a ha).1 (hcs a ha).2 (hadm b hb)

theorem plies_ne_nil (ps : List (PlyIn ℝ)) (ms : List (MatProps ℝ)) (plies : List (Ply ℝ))
    (hne : ps ≠ []) (hlen : ms.length = ps.length)
    (hplies : plies = (List.zip ps ms).map fun pm => ⟨pm.1.t, rotQ pm.1.c pm.1.s (planeStressQ pm.2)⟩) :
    ∃ q qs, plies = q :: qs := by
  cases ps with
  | nil => exact absurd rfl hne
  | cons p ps' =>
    cases ms with
    | nil => simp only [List.length_nil, List.length_cons] at hlen; omega
    | cons m ms' =>
      rw [hplies]
      exact ⟨_, _, rfl⟩

theorem abd_posdef_aux (ps : List (PlyIn ℝ)) (ms : List (MatProps ℝ)) (plies : List (Ply ℝ)) (offset : ℝ)
    (hne : ps ≠ [])
    (hlen : ms.length = ps.length)
    (hplies : plies = (List.zip ps ms).map fun pm => ⟨pm.1.t, rotQ pm.1.c pm.1.s (planeStressQ pm.2)⟩)
    (hadm : ∀ m ∈ ms, Admissible m)
    (hcs : ∀ p ∈ ps, p.c ^ 2 + p.s ^ 2 = 1 ∧ 0 < p.t)
    (e k : V3 ℝ) (hek : e.x ≠ 0 ∨ e.y ≠ 0 ∨ e.g ≠ 0 ∨ k.x ≠ 0 ∨ k.y ≠ 0 ∨ k.g ≠ 0) :
    0 < quadABD (abd plies offset) e k := by
  have hgood := plies_good ps ms plies hplies hadm hcs
  obtain ⟨q, qs, hq⟩ := plies_ne_nil ps ms plies hne hlen hplies
  rw [quadABD_abd]
  generalize -(thickness plies) / 2 + offset = h
  rw [hq] at hgood ⊢
  rw [quadABD_accOf_cons]
  exact add_pos_of_pos_of_nonneg (plyTerm_pos (hgood q List.mem_cons_self) h e k hek)
    (quadABD_accOf_nonneg qs (fun p hp => hgood p (List.mem_cons_of_mem _ hp)) _ e k)

theorem E_posdef_aux (ps : List (PlyIn ℝ)) (ms : List (MatProps ℝ)) (plies : List (Ply ℝ)) (offset : ℝ)
    (hne : ps ≠ [])
    (hlen : ms.length = ps.length)
    (hplies : plies = (List.zip ps ms).map fun pm => ⟨pm.1.t, rotQ pm.1.c pm.1.s (planeStressQ pm.2)⟩)
    (hadm : ∀ m ∈ ms, Admissible m)
    (hcs : ∀ p ∈ ps, p.c ^ 2 + p.s ^ 2 = 1 ∧ 0 < p.t)
    (g4 g5 : ℝ) (hg : g4 ≠ 0 ∨ g5 ≠ 0) :
    0 < quad2 (abd plies offset).A g4 g5 := by
  have hgood := plies_good ps ms plies hplies hadm hcs
  obtain ⟨q, qs, hq⟩ := plies_ne_nil ps ms plies hne hlen hplies
  rw [abd_A]
  generalize -(thickness plies) / 2 + offset = h
  rw [hq] at hgood ⊢
  rw [quad2_wsum_cons]
  have hp := hgood q List.mem_cons_self
  exact add_pos_of_pos_of_nonneg (mul_pos hp.tpos (hp.pd2 g4 g5 hg))
    (quad2_wsum_nonneg qs (fun p hp => hgood p (List.mem_cons_of_mem _ hp)) _ g4 g5)

/-! ### `quadABD` is the quadratic form of the 6×6 matrix -/

theorem quadABD_eq_matrix_aux (a : Acc ℝ) (e k : V3 ℝ) :
    quadABD a e k =
      dotProduct ![e.x, e.y, e.g, k.x, k.y, k.g] ((abdMatrix a).mulVec ![e.x, e.y, e.g, k.x, k.y, k.g]) := by
  simp [dotProduct, Matrix.mulVec, Fin.sum_univ_succ, abdMatrix, quadABD, quad3, bil3]
  ring

end real

end Compmech.Laminate
