/-
Context transformations behind C14 (equivalent descriptions of one structure).
-/
import CompmechVerif.Core.OpSpec

namespace Compmech.Panel
variable {K : Type} [Field K]

/-- reading the x-integrals of `Q` on its `full` domain where `P` reads them on `sub`
(one constant-radius section of a conical panel vs. the whole meridian) -/
def SameIntegralsSubFull (P Q : PCtx K) : Prop :=
  (∀ d₁ f₁ i₁ d₂ f₂ i₂, P.J .x .sub d₁ f₁ i₁ d₂ f₂ i₂ = Q.J .x .full d₁ f₁ i₁ d₂ f₂ i₂) ∧
  (∀ dom d₁ f₁ i₁ d₂ f₂ i₂, P.J .y dom d₁ f₁ i₁ d₂ f₂ i₂ = Q.J .y dom d₁ f₁ i₁ d₂ f₂ i₂)

/-- replace the x-integrals -/
def PCtx.withJx (P : PCtx K) (Jx : Dom → Nat → Fld → Idx → Nat → Fld → Idx → K) : PCtx K :=
  { P with J := fun dir => match dir with | .x => Jx | .y => P.J .y }

/-- exchange of the roles of x and y: `a ↔ b`, fields `u ↔ v`, integrals `x ↔ y`, laminate indices
`1 ↔ 2` (the laminate with every angle θ replaced by 90° − θ), loads `Nxx ↔ Nyy`. -/
def exchFld : Fld → Fld
  | .u => .v
  | .v => .u
  | f => f

def exch6 : Fin 6 → Fin 6
  | 0 => 1
  | 1 => 0
  | 2 => 2
  | 3 => 4
  | 4 => 3
  | 5 => 5

def exch3 : Fin 3 → Fin 3
  | 0 => 1
  | 1 => 0
  | 2 => 2

def PCtx.exchange (P : PCtx K) : PCtx K :=
  { P with
    a := P.b, b := P.a, Nxx := P.Nyy, Nyy := P.Nxx
    F := fun p q => P.F (exch6 p) (exch6 q)
    J := fun dir dom d₁ f₁ i₁ d₂ f₂ i₂ =>
      P.J (match dir with | .x => .y | .y => .x) dom d₁ (exchFld f₁) i₁ d₂ (exchFld f₂) i₂ }

/-- geometric similarity: all lengths × `s` (so `A ↦ e s A`, `B ↦ e s² B`, `D ↦ e s³ D` for moduli × `e`),
density × `q`; the non-dimensional integrals `J` are unchanged. -/
def PCtx.scale (P : PCtx K) (s e q : K) : PCtx K :=
  { P with
    a := s * P.a, b := s * P.b, r := s * P.r, h := s * P.h, d := s * P.d, mu := q * P.mu
    F := fun p q' =>
      if p.val < 3 ∧ q'.val < 3 then e * s * P.F p q'
      else if p.val ≥ 3 ∧ q'.val ≥ 3 then e * s ^ 3 * P.F p q'
      else e * s ^ 2 * P.F p q' }

end Compmech.Panel
