/-
From a passed kernel check (`checkE … = true`) to the mathematical statement about *values*:
one lemma per kind of table, used by `Props/C10.lean`.
-/
import CompmechVerif.Bardell.IntegralLemmas
import CompmechVerif.Bardell.CheckLemmas
import CompmechVerif.Bardell.GaussLemmas
import CompmechVerif.Bardell.BasisLemmas

set_option linter.unusedSectionVars false
set_option linter.unusedSimpArgs false
set_option linter.unnecessarySeqFocus false
set_option linter.unusedVariables false

namespace Compmech.C10
open Compmech IPoly intervalIntegral

theorem basis_den_pos (i : Nat) : 0 < (basis i).den := by
  match i with
  | 0 => simp [basis]
  | 1 => simp [basis]
  | 2 => simp [basis]
  | 3 => simp [basis]
  | i + 4 =>
    simp only [basis, bden]
    exact Nat.mul_pos (Nat.mul_pos (Nat.pow_pos (by norm_num)) (fact_pos _)) (fact_pos _)

theorem dbasis_den_pos (d i : Nat) : 0 < (dbasis d i).den := basis_den_pos i

section ordered
variable {K : Type} [Field K] [LinearOrder K] [IsStrictOrderedRing K]

/-- function tables: `|C·den − flag_i·Σ_k a_k ξ^k|·10¹⁵ ≤ 5·|flag_i|·Σ_k |a_k||ξ|^k` with `a = den·Dᵈuᵢ` -/
theorem func_value {e : E} {d i : Nat} (hi : i < 30)
    (h : checkE tolFuncN tolFuncD e (funcWant d i).1 (funcWant d i).2 = true) (env : Nat → K) :
    |e.eval env * ((dbasis d i).den : K) - flag1 env i * evalP (env 0) (dbasis d i).num| * (10 : K) ^ 15
      ≤ 5 * (|flag1 env i| * absEvalP (env 0) (dbasis d i).num) := by
  have := checkE_sound h env
  rw [evalTerms_funcWant env d i hi, absTerms_funcWant env d i hi] at this
  have h' : ((tolFuncD : Nat) : K) = (10 : K) ^ 15 := by norm_num [tolFuncD]
  have h'' : ((tolFuncN : Nat) : K) = 5 := by norm_num [tolFuncN]
  rw [h', h''] at this
  exact this

/-- full-interval tables, algebraic form: with `I = Σ_{a,b} p_a q_b m_{a+b}` (`integ11`),
`|C·dp·dq − I·flags|·10¹⁵ ≤ 5·|I|·|flags|` -/
theorem full_value {e : E} {d1 d2 i j : Nat} (hi : i < 30) (hj : j < 30)
    (h : checkE tolFuncN tolFuncD e (fullWant (flagKey2 i j) (dbasis d1 i).num (dbasis d2 j).num)
      ((dbasis d1 i).den * (dbasis d2 j).den * intL) = true) (env : Nat → K) :
    |e.eval env * (((dbasis d1 i).den : K) * ((dbasis d2 j).den : K))
        - integ11 0 (dbasis d1 i).num (dbasis d2 j).num * (flagX env i * flagY env j)| * (10 : K) ^ 15
      ≤ 5 * (|(integ11 0 (dbasis d1 i).num (dbasis d2 j).num : K)| * |flagX env i * flagY env j|) := by
  have hs := checkE_sound h env
  obtain ⟨e1, e2⟩ := evalTerms_fullWant env i j (dbasis d1 i).num (dbasis d2 j).num
  have hl : (dbasis d1 i).num.length + (dbasis d2 j).num.length ≤ 64 := by
    have := dbasis_length d1 i hi; have := dbasis_length d2 j hj; omega
  rw [e1, e2, jnum_eq _ _ hl] at hs
  have hL : (0 : K) < (intL : K) := by exact_mod_cast lcmUpTo_pos 64
  set I : K := integ11 0 (dbasis d1 i).num (dbasis d2 j).num
  set F : K := flagX env i * flagY env j
  have e3 : e.eval env * (((dbasis d1 i).den * (dbasis d2 j).den * intL : Nat) : K) - (intL : K) * I * F
      = (intL : K) * (e.eval env * (((dbasis d1 i).den : K) * ((dbasis d2 j).den : K)) - I * F) := by
    push_cast; ring
  rw [e3, abs_mul, abs_mul, abs_of_pos hL] at hs
  have : (intL : K) * (|e.eval env * (((dbasis d1 i).den : K) * ((dbasis d2 j).den : K)) - I * F| * (10 : K) ^ 15)
      ≤ (intL : K) * (5 * (|I| * |F|)) := by
    have h' : ((tolFuncD : Nat) : K) = (10 : K) ^ 15 := by norm_num [tolFuncD]
    have h'' : ((tolFuncN : Nat) : K) = 5 := by norm_num [tolFuncN]
    rw [h', h''] at hs
    calc _ = (intL : K) * |e.eval env * (((dbasis d1 i).den : K) * ((dbasis d2 j).den : K)) - I * F| * (10 : K) ^ 15 := by ring
      _ ≤ 5 * ((intL : K) * |I| * |F|) := hs
      _ = _ := by ring
  exact le_of_mul_le_mul_left this hL

/-- `Σ_{(k,c) ∈ t} |c|·|x|^(k+1)/(k+1)` -/
def absAntiOf (x : K) : Terms → K
  | [] => 0
  | t :: ts => |(t.2 : K)| * |x| ^ (t.1 + 1) / ((t.1 : K) + 1) + absAntiOf x ts

theorem abs_cast_ite_neg (neg : Bool) (c : Int) : |((if neg then -c else c : Int) : K)| = |(c : K)| := by
  cases neg <;> simp

theorem absTerms_antiTerms (env : Nat → K) (fk : Nat) (hfk : dsum fk ≤ 2) (neg : Bool) :
    ∀ a : Terms, KeysLt 63 a →
      absTerms env (antiTerms fk 1 neg a) = |mono env fk| * (intL : K) * absAntiOf (env 0) a ∧
      absTerms env (antiTerms fk 128 neg a) = |mono env fk| * (intL : K) * absAntiOf (env 1) a
  | [], _ => by constructor <;> simp only [antiTerms, absTerms, absAntiOf, mul_zero]
  | x :: xs, h => by
    obtain ⟨ih1, ih2⟩ := absTerms_antiTerms env fk hfk neg xs (fun w hw => h w (List.mem_cons_of_mem _ hw))
    have hx : x.1 < 63 := h x List.mem_cons_self
    have hd : ((intL / (x.1 + 1) : Nat) : K) = (intL : K) / ((x.1 : K) + 1) := by
      rw [cast_intL_div (x.1 + 1) (by omega) (by omega)]; push_cast; ring
    have hpos : (0 : K) < (x.1 : K) + 1 := by positivity
    have hL : (0 : K) ≤ (intL : K) := Nat.cast_nonneg _
    obtain ⟨s1, s2⟩ := mono_small env (x.1 + 1) (by omega)
    obtain ⟨t1, t2⟩ := mono_step128 env (x.1 + 1) (by omega)
    constructor
    · simp only [antiTerms, absTerms, absAntiOf, ih1, Nat.one_mul]
      rw [mono_add env _ _ (by omega), s1, abs_cast_ite_neg, Int.cast_mul, Int.cast_natCast, hd,
        abs_mul, abs_mul, abs_div, abs_of_nonneg hL, abs_of_pos hpos, abs_pow]
      ring
    · simp only [antiTerms, absTerms, absAntiOf, ih2]
      rw [mono_add env _ _ (by omega), t1, abs_cast_ite_neg, Int.cast_mul, Int.cast_natCast, hd,
        abs_mul, abs_mul, abs_div, abs_of_nonneg hL, abs_of_pos hpos, abs_pow]
      ring

theorem absTerms_subWant (env : Nat → K) (i j : Nat) (p q : P) (hp : p.length ≤ 31) (hq : q.length ≤ 31) :
    absTerms env (subWant (flagKey2 i j) (toTerms p) (toTerms q)) =
      |flagX env i * flagY env j| * (intL : K) *
        (absAntiOf (env 0) (mulTerms (toTerms p) (toTerms q)) + absAntiOf (env 1) (mulTerms (toTerms p) (toTerms q))) := by
  obtain ⟨f1, f2⟩ := mono_flagKey2 env i j
  have kp : KeysLt 31 (toTerms p) := fun z hz => lt_of_lt_of_le (toTerms_keysLt p z hz) hp
  have kq : KeysLt 31 (toTerms q) := fun z hz => lt_of_lt_of_le (toTerms_keysLt q z hz) hq
  have kpq : KeysLt 63 (mulTerms (toTerms p) (toTerms q)) :=
    fun z hz => lt_of_lt_of_le (mulTerms_keysLt 31 31 _ kq _ kp z hz) (by norm_num)
  obtain ⟨_, a2⟩ := absTerms_antiTerms env (flagKey2 i j) f2 true _ kpq
  obtain ⟨b1, _⟩ := absTerms_antiTerms env (flagKey2 i j) f2 false _ kpq
  simp only [subWant, absTerms_append, a2, b1, f1]; ring

/-- sub-interval tables, algebraic form: with `A = antiOf · (p·q)`, `ξ₂ = env 0`, `ξ₁ = env 1`,
`|C·dp·dq − flags·(A(ξ₂) − A(ξ₁))|·10¹³ ≤ |flags|·(|A|(ξ₂) + |A|(ξ₁))` -/
theorem sub_value {e : E} {d1 d2 i j : Nat} (hi : i < 30) (hj : j < 30)
    (h : checkE tolSubN tolSubD e
      (subWant (flagKey2 i j) (toTerms (dbasis d1 i).num) (toTerms (dbasis d2 j).num))
      ((dbasis d1 i).den * (dbasis d2 j).den * intL) = true) (env : Nat → K) :
    |e.eval env * (((dbasis d1 i).den : K) * ((dbasis d2 j).den : K))
        - flagX env i * flagY env j *
          (antiOf (env 0) (mulTerms (toTerms (dbasis d1 i).num) (toTerms (dbasis d2 j).num))
            - antiOf (env 1) (mulTerms (toTerms (dbasis d1 i).num) (toTerms (dbasis d2 j).num)))| * (10 : K) ^ 13
      ≤ |flagX env i * flagY env j| *
          (absAntiOf (env 0) (mulTerms (toTerms (dbasis d1 i).num) (toTerms (dbasis d2 j).num))
            + absAntiOf (env 1) (mulTerms (toTerms (dbasis d1 i).num) (toTerms (dbasis d2 j).num))) := by
  have hs := checkE_sound h env
  have hp : (dbasis d1 i).num.length ≤ 31 := le_trans (dbasis_length d1 i hi) (by norm_num)
  have hq : (dbasis d2 j).num.length ≤ 31 := le_trans (dbasis_length d2 j hj) (by norm_num)
  rw [evalTerms_subWant env i j _ _ hp hq, absTerms_subWant env i j _ _ hp hq] at hs
  have hL : (0 : K) < (intL : K) := by exact_mod_cast lcmUpTo_pos 64
  set A : K := antiOf (env 0) (mulTerms (toTerms (dbasis d1 i).num) (toTerms (dbasis d2 j).num))
      - antiOf (env 1) (mulTerms (toTerms (dbasis d1 i).num) (toTerms (dbasis d2 j).num))
  set B : K := absAntiOf (env 0) (mulTerms (toTerms (dbasis d1 i).num) (toTerms (dbasis d2 j).num))
      + absAntiOf (env 1) (mulTerms (toTerms (dbasis d1 i).num) (toTerms (dbasis d2 j).num))
  set F : K := flagX env i * flagY env j
  have e3 : e.eval env * (((dbasis d1 i).den * (dbasis d2 j).den * intL : Nat) : K) - F * (intL : K) * A
      = (intL : K) * (e.eval env * (((dbasis d1 i).den : K) * ((dbasis d2 j).den : K)) - F * A) := by
    push_cast; ring
  rw [e3, abs_mul, abs_of_pos hL] at hs
  have h' : ((tolSubD : Nat) : K) = (10 : K) ^ 13 := by norm_num [tolSubD]
  have h'' : ((tolSubN : Nat) : K) = 1 := by norm_num [tolSubN]
  rw [h', h''] at hs
  have : (intL : K) * (|e.eval env * (((dbasis d1 i).den : K) * ((dbasis d2 j).den : K)) - F * A| * (10 : K) ^ 13)
      ≤ (intL : K) * (|F| * B) := by
    calc _ = (intL : K) * |e.eval env * (((dbasis d1 i).den : K) * ((dbasis d2 j).den : K)) - F * A| * (10 : K) ^ 13 := by ring
      _ ≤ 1 * (|F| * (intL : K) * B) := hs
      _ = _ := by ring
  exact le_of_mul_le_mul_left this hL

end ordered

/-! ### real-analysis form -/

theorem QP.eval_mul_eval (p q : QP) (hp : 0 < p.den) (hq : 0 < q.den) (x : ℝ) :
    p.eval x * q.eval x = evalP x p.num * evalP x q.num / ((p.den : ℝ) * (q.den : ℝ)) := by
  have : (p.den : ℝ) ≠ 0 := by exact_mod_cast hp.ne'
  have : (q.den : ℝ) ≠ 0 := by exact_mod_cast hq.ne'
  simp only [QP.eval]; field_simp

/-- **full-interval tables (real form)**: the value of the C expression is within `5·10⁻¹⁵` (relative) of
`flag_i·flag_j·∫_{-1}^{1} D^{d1}u_i(x)·D^{d2}u_j(x) dx` — and equal to it when the integral vanishes. -/
theorem full_value_real {e : E} {d1 d2 i j : Nat} (hi : i < 30) (hj : j < 30)
    (h : checkE tolFuncN tolFuncD e (fullWant (flagKey2 i j) (dbasis d1 i).num (dbasis d2 j).num)
      ((dbasis d1 i).den * (dbasis d2 j).den * intL) = true) (env : Nat → ℝ) :
    |e.eval env - flagX env i * flagY env j * ∫ x in (-1 : ℝ)..1, (dbasis d1 i).eval x * (dbasis d2 j).eval x|
      ≤ 5 / 10 ^ 15 * |flagX env i * flagY env j * ∫ x in (-1 : ℝ)..1, (dbasis d1 i).eval x * (dbasis d2 j).eval x| := by
  have hv := full_value hi hj h env
  have hp := dbasis_den_pos d1 i
  have hq := dbasis_den_pos d2 j
  have hD : (0 : ℝ) < ((dbasis d1 i).den : ℝ) * ((dbasis d2 j).den : ℝ) := by positivity
  have hint : ∫ x in (-1 : ℝ)..1, (dbasis d1 i).eval x * (dbasis d2 j).eval x
      = integ11 0 (dbasis d1 i).num (dbasis d2 j).num / (((dbasis d1 i).den : ℝ) * ((dbasis d2 j).den : ℝ)) := by
    simp only [QP.eval_mul_eval _ _ hp hq]
    rw [integral_div, ← integ11_eq_integral]
  rw [hint]
  set I : ℝ := integ11 0 (dbasis d1 i).num (dbasis d2 j).num
  set F : ℝ := flagX env i * flagY env j
  set D : ℝ := ((dbasis d1 i).den : ℝ) * ((dbasis d2 j).den : ℝ)
  have e1 : e.eval env - F * (I / D) = (e.eval env * D - I * F) / D := by field_simp
  have e2 : F * (I / D) = (I * F) / D := by ring
  rw [e1, e2, abs_div, abs_div, abs_of_pos hD, abs_mul]
  rw [div_le_iff₀ hD]
  have : |e.eval env * D - I * F| ≤ 5 / 10 ^ 15 * (|I| * |F|) := by
    rw [div_mul_eq_mul_div, le_div_iff₀ (by positivity)]
    exact hv
  calc _ ≤ 5 / 10 ^ 15 * (|I| * |F|) := this
    _ = _ := by field_simp

/-- **sub-interval tables (real form)**: with `ξ₁ = env 1`, `ξ₂ = env 0`, the value of the C expression is
within `10⁻¹³·|flags|·(|A|(ξ₂) + |A|(ξ₁))` of `flag_i·flag_j·∫_{ξ₁}^{ξ₂} D^{d1}u_i·D^{d2}u_j`, where `|A|(ξ)` is the
antiderivative of the product with all coefficients and `ξ` replaced by their moduli (for `|ξ| ≤ 1` at most
the 1-norm of the coefficients of the antiderivative). -/
theorem sub_value_real {e : E} {d1 d2 i j : Nat} (hi : i < 30) (hj : j < 30)
    (h : checkE tolSubN tolSubD e
      (subWant (flagKey2 i j) (toTerms (dbasis d1 i).num) (toTerms (dbasis d2 j).num))
      ((dbasis d1 i).den * (dbasis d2 j).den * intL) = true) (env : Nat → ℝ) :
    |e.eval env - flagX env i * flagY env j * ∫ x in (env 1)..(env 0), (dbasis d1 i).eval x * (dbasis d2 j).eval x|
      ≤ 1 / 10 ^ 13 * (|flagX env i * flagY env j| *
          (absAntiOf (env 0) (mulTerms (toTerms (dbasis d1 i).num) (toTerms (dbasis d2 j).num))
            + absAntiOf (env 1) (mulTerms (toTerms (dbasis d1 i).num) (toTerms (dbasis d2 j).num)))
          / (((dbasis d1 i).den : ℝ) * ((dbasis d2 j).den : ℝ))) := by
  have hv := sub_value hi hj h env
  have hp := dbasis_den_pos d1 i
  have hq := dbasis_den_pos d2 j
  have hD : (0 : ℝ) < ((dbasis d1 i).den : ℝ) * ((dbasis d2 j).den : ℝ) := by positivity
  have hpl : (dbasis d1 i).num.length ≤ 60 := le_trans (dbasis_length d1 i hi) (by norm_num)
  have hql : (dbasis d2 j).num.length ≤ 60 := le_trans (dbasis_length d2 j hj) (by norm_num)
  have hint : ∫ x in (env 1)..(env 0), (dbasis d1 i).eval x * (dbasis d2 j).eval x
      = (antiOf (env 0) (mulTerms (toTerms (dbasis d1 i).num) (toTerms (dbasis d2 j).num))
          - antiOf (env 1) (mulTerms (toTerms (dbasis d1 i).num) (toTerms (dbasis d2 j).num)))
        / (((dbasis d1 i).den : ℝ) * ((dbasis d2 j).den : ℝ)) := by
    simp only [QP.eval_mul_eval _ _ hp hq]
    rw [integral_div, ← antiOf_mulTerms_eq_integral _ _ _ _ hpl hql]
  rw [hint]
  set A : ℝ := antiOf (env 0) (mulTerms (toTerms (dbasis d1 i).num) (toTerms (dbasis d2 j).num))
      - antiOf (env 1) (mulTerms (toTerms (dbasis d1 i).num) (toTerms (dbasis d2 j).num))
  set B : ℝ := absAntiOf (env 0) (mulTerms (toTerms (dbasis d1 i).num) (toTerms (dbasis d2 j).num))
      + absAntiOf (env 1) (mulTerms (toTerms (dbasis d1 i).num) (toTerms (dbasis d2 j).num))
  set F : ℝ := flagX env i * flagY env j
  set D : ℝ := ((dbasis d1 i).den : ℝ) * ((dbasis d2 j).den : ℝ)
  have e1 : e.eval env - F * (A / D) = (e.eval env * D - F * A) / D := by field_simp
  rw [e1, abs_div, abs_of_pos hD, div_le_iff₀ hD]
  have : |e.eval env * D - F * A| ≤ 1 / 10 ^ 13 * (|F| * B) := by
    rw [div_mul_eq_mul_div, le_div_iff₀ (by positivity), one_mul]
    exact hv
  calc _ ≤ 1 / 10 ^ 13 * (|F| * B) := this
    _ = _ := by field_simp

/-! ### Gauss–Legendre -/

/-- common binary exponent of the binary64 roundings of one `case n` -/
def b64Scale (pts wts : List Lit) : Nat := max (maxK (roundAll pts)) (maxK (roundAll wts))

section gauss
variable {K : Type} [Field K] [LinearOrder K] [IsStrictOrderedRing K]

/-- the quadrature `Σ w_i·f(x_i)` with the binary64 roundings of the literals of one `case n` -/
def gaussQuadB64 (pts wts : List Lit) (f : K → K) : K :=
  quadK (2 ^ b64Scale pts wts) f (binNums (b64Scale pts wts) (roundAll pts)) (binNums (b64Scale pts wts) (roundAll wts))

/-- a `case n` that passed `gaussB64Ok` integrates every polynomial `Σ_{k<2n} a_k ξ^k` with error `≤ (tn/td)·Σ|a_k|` -/
theorem gaussB64Ok_poly {tn td n : Nat} {pts wts : List Lit} (htd : 0 < td)
    (h : gaussB64Ok tn td n pts wts = true) (a : List K) (ha : a.length ≤ 2 * n) :
    |gaussQuadB64 pts wts (fun x => polyFrom x 0 a) - integFrom 0 a| * (td : K) ≤ (tn : K) * norm1 a :=
  ruleOk_poly (Nat.pow_pos (by norm_num)) htd h a 0 (by omega)

end gauss

theorem continuous_polyFrom : ∀ (a : List ℝ) (k : Nat), Continuous fun x : ℝ => polyFrom x k a
  | [], _ => by simpa [polyFrom] using continuous_const
  | c :: a, k => by
    have := continuous_polyFrom a (k + 1)
    simp only [polyFrom]
    fun_prop

/-- `integFrom k a` is the integral of the polynomial over `[−1, 1]` -/
theorem integFrom_eq_integral : ∀ (a : List ℝ) (k : Nat),
    integFrom k a = ∫ x in (-1 : ℝ)..1, polyFrom x k a
  | [], _ => by simp [integFrom, polyFrom]
  | c :: a, k => by
    have ih := integFrom_eq_integral a (k + 1)
    have hc := continuous_polyFrom a (k + 1)
    simp only [integFrom, polyFrom]
    rw [integral_add, integral_const_mul, ← moment_eq_integral, ← ih]
    · exact (Continuous.intervalIntegrable (by fun_prop) _ _)
    · exact (Continuous.intervalIntegrable (by fun_prop) _ _)

end Compmech.C10
