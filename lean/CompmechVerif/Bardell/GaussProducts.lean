/-
Gauss–Legendre quadrature of a PRODUCT of two Bardell (derivative) polynomials.

`gaussB64Ok_poly` (`Bardell/Lifts.lean`) bounds the quadrature error of a polynomial given by its coefficient list.
Here: the coefficient list of a product is `IPoly.mul` (`evalP_mul`, `mul_length_le`), so for two integer-coefficient
polynomials `p`, `q` with `p.length + q.length − 1 ≤ 2n` (degree of the product `≤ 2n−1`) the Gauss sum
`Σ_g w_g · p(x_g) · q(x_g)` of a rule that passed `gaussB64Ok` is within `(tn/td)·‖p·q‖₁` of the REAL integral
`∫_{-1}^{1} p q` (`gaussB64Ok_product`); with the denominators and the edge flags of the first four functions:
`gaussB64Ok_dbasis_product` / `gaussB64Ok_bardell_product`; the degree condition in terms of the series indices:
`dbasis_num_length`, `bardell_degree_ok`.  The quadrature itself as a plain list sum: `gaussRuleB64`, `gaussQuadB64_eq_sum`.
-/
import CompmechVerif.Bardell.Lifts

set_option linter.unusedSectionVars false
set_option linter.unusedSimpArgs false
set_option linter.unnecessarySeqFocus false
set_option linter.unusedVariables false

namespace Compmech.C10
open Compmech IPoly intervalIntegral

/-! ### `IPoly.mul` is the product polynomial -/

section field
variable {K : Type} [Field K]

theorem evalFrom_succ (x : K) : ∀ (p : P) (k : Nat), evalFrom x (k + 1) p = x * evalFrom x k p
  | [], _ => by simp [evalFrom]
  | c :: p, k => by
    simp only [evalFrom, evalFrom_succ x p (k + 1), pow_succ]; ring

theorem evalFrom_add (x : K) : ∀ (p q : P) (k : Nat),
    evalFrom x k (IPoly.add p q) = evalFrom x k p + evalFrom x k q
  | [], q, k => by simp [IPoly.add, evalFrom]
  | a :: p, [], k => by simp [IPoly.add, evalFrom]
  | a :: p, b :: q, k => by
    simp only [IPoly.add, evalFrom, evalFrom_add x p q (k + 1), Int.cast_add]; ring

theorem evalFrom_scale (x : K) (c : Int) : ∀ (p : P) (k : Nat),
    evalFrom x k (IPoly.scale c p) = (c : K) * evalFrom x k p
  | [], _ => by simp [IPoly.scale, evalFrom]
  | a :: p, k => by
    simp only [IPoly.scale, evalFrom, evalFrom_scale x c p (k + 1), Int.cast_mul]; ring

theorem evalP_cons (x : K) (a : Int) (p : P) : evalP x (a :: p) = (a : K) + x * evalP x p := by
  simp only [evalP, evalFrom, evalFrom_succ x p 0, pow_zero, mul_one, Nat.zero_add]

/-- the dense product `IPoly.mul` evaluates to the product of the values -/
theorem evalP_mul (x : K) : ∀ (p q : P), evalP x (IPoly.mul p q) = evalP x p * evalP x q
  | [], q => by simp [IPoly.mul, evalP, evalFrom]
  | a :: p, q => by
    have ih := evalP_mul x p q
    unfold IPoly.mul
    by_cases ha : a = 0
    · simp only [ha, if_true, evalP_cons, ih, Int.cast_zero]; ring
    · simp only [ha, if_false]
      have h1 : evalP x (IPoly.add (IPoly.scale a q) (0 :: IPoly.mul p q))
          = (a : K) * evalP x q + evalP x (0 :: IPoly.mul p q) := by
        simp only [evalP, evalFrom_add, evalFrom_scale]
      rw [h1, evalP_cons, evalP_cons, ih, Int.cast_zero]; ring

end field

theorem add_length : ∀ (p q : P), (IPoly.add p q).length = max p.length q.length
  | [], q => by simp [IPoly.add]
  | a :: p, [] => by simp [IPoly.add]
  | a :: p, b :: q => by simp [IPoly.add, add_length p q, Nat.succ_max_succ]

theorem scale_length (c : Int) : ∀ (p : P), (IPoly.scale c p).length = p.length
  | [] => rfl
  | a :: p => by simp [IPoly.scale, scale_length c p]

/-- the product of polynomials with `lp` and `lq ≥ 1` coefficients has at most `lp + lq − 1` coefficients -/
theorem mul_length_le (q : P) (hq : 1 ≤ q.length) : ∀ (p : P), (IPoly.mul p q).length ≤ p.length + q.length - 1
  | [] => by simp [IPoly.mul]
  | a :: p => by
    have ih := mul_length_le q hq p
    unfold IPoly.mul
    by_cases ha : a = 0
    · simp only [ha, if_true, List.length_cons]; omega
    · simp only [ha, if_false, add_length, scale_length, List.length_cons]
      omega

/-! ### the quadrature as a list sum -/

section ordered
variable {K : Type} [Field K] [LinearOrder K] [IsStrictOrderedRing K]

/-- integer coefficients read in `K` -/
def coeffs (p : P) : List K := List.map (fun c : Int => (c : K)) p

theorem polyFrom_coeffs (x : K) : ∀ (p : P) (k : Nat), polyFrom x k (coeffs p) = evalFrom x k p
  | [], _ => rfl
  | c :: p, k => by
    have ih := polyFrom_coeffs x p (k + 1)
    simp only [coeffs, List.map_cons] at ih ⊢
    simp only [polyFrom, evalFrom, ih]

theorem norm1_nonneg : ∀ (a : List K), 0 ≤ norm1 a
  | [] => le_refl _
  | c :: a => add_nonneg (abs_nonneg c) (norm1_nonneg a)

/-- the `(node, weight)` pairs `(X_i/D, W_i/D)` of a rule given by numerators over a common denominator -/
def rulePairs (D : Nat) : List Int → List Int → List (K × K)
  | x :: xs, w :: ws => ((x : K) / (D : K), (w : K) / (D : K)) :: rulePairs D xs ws
  | _, _ => []

theorem quadK_eq_sum (D : Nat) (f : K → K) : ∀ (xs ws : List Int),
    quadK D f xs ws = ((rulePairs (K := K) D xs ws).map fun g => g.2 * f g.1).sum
  | [], _ => by simp [quadK, rulePairs]
  | _ :: _, [] => by simp [quadK, rulePairs]
  | x :: xs, w :: ws => by simp [quadK, rulePairs, quadK_eq_sum D f xs ws]

/-- the `(node, weight)` pairs of the binary64 roundings of one `case n` of `leggauss_quad`, in table order -/
def gaussRuleB64 (pts wts : List Lit) : List (K × K) :=
  rulePairs (2 ^ b64Scale pts wts) (binNums (b64Scale pts wts) (roundAll pts)) (binNums (b64Scale pts wts) (roundAll wts))

/-- `gaussQuadB64` is the plain sum `Σ_g w_g · f(x_g)` over the list of `(node, weight)` pairs -/
theorem gaussQuadB64_eq_sum (pts wts : List Lit) (f : K → K) :
    gaussQuadB64 pts wts f = ((gaussRuleB64 (K := K) pts wts).map fun g => g.2 * f g.1).sum :=
  quadK_eq_sum _ f _ _

theorem gaussQuadB64_smul (pts wts : List Lit) (c : K) (f : K → K) :
    gaussQuadB64 pts wts (fun x => c * f x) = c * gaussQuadB64 pts wts f :=
  quadK_smul _ c f _ _

end ordered

/-! ### product of two polynomials: Gauss sum vs. real integral -/

/-- For a rule that passed `gaussB64Ok` (order `n`) and integer polynomials `p`, `q` whose product has degree
`≤ 2n − 1` (`p.length + q.length − 1 ≤ 2n`), the Gauss sum of `p·q` is within `(tn/td)·‖p·q‖₁` of `∫_{-1}^{1} p q`,
`‖p·q‖₁` the sum of the moduli of the coefficients of the product polynomial `IPoly.mul p q`. -/
theorem gaussB64Ok_product {tn td n : Nat} {pts wts : List Lit} (htd : 0 < td)
    (h : gaussB64Ok tn td n pts wts = true) (p q : P) (hlen : p.length + q.length - 1 ≤ 2 * n) :
    |gaussQuadB64 pts wts (fun x : ℝ => evalP x p * evalP x q) - ∫ x in (-1 : ℝ)..1, evalP x p * evalP x q| * (td : ℝ)
      ≤ (tn : ℝ) * norm1 (coeffs (K := ℝ) (IPoly.mul p q)) := by
  by_cases hq : q.length = 0
  · have hq' : q = [] := List.length_eq_zero_iff.1 hq
    subst hq'
    have e : (fun x : ℝ => evalP x p * evalP x ([] : P)) = fun _ => (0 : ℝ) := by
      funext x; simp [evalP, evalFrom]
    have hz : gaussQuadB64 pts wts (fun _ : ℝ => (0 : ℝ)) = 0 := quadK_zero _ _ _
    rw [e, hz]
    simp only [integral_zero, sub_self, abs_zero, zero_mul]
    exact mul_nonneg (Nat.cast_nonneg _) (norm1_nonneg _)
  · have hl : (coeffs (K := ℝ) (IPoly.mul p q)).length ≤ 2 * n := by
      simp only [coeffs, List.length_map]
      exact le_trans (mul_length_le q (by omega) p) hlen
    have hg := gaussB64Ok_poly (K := ℝ) htd h (coeffs (IPoly.mul p q)) hl
    rw [integFrom_eq_integral] at hg
    have e : (fun x : ℝ => polyFrom x 0 (coeffs (IPoly.mul p q))) = fun x : ℝ => evalP x p * evalP x q := by
      funext x
      rw [polyFrom_coeffs]
      exact evalP_mul x p q
    rw [e] at hg
    exact hg

/-- the same for two exact rational polynomials `p/dp`, `q/dq` (common denominators), each multiplied by a real factor
(the edge flag): Gauss sum of `(fp·p/dp)(fq·q/dq)` against `fp·fq·∫ (p/dp)(q/dq)`, tolerance scaled accordingly -/
theorem gaussB64Ok_qp_product {tn td n : Nat} {pts wts : List Lit} (htd : 0 < td)
    (h : gaussB64Ok tn td n pts wts = true) (p q : QP) (hp : 0 < p.den) (hq : 0 < q.den)
    (hlen : p.num.length + q.num.length - 1 ≤ 2 * n) (fp fq : ℝ) :
    |gaussQuadB64 pts wts (fun x : ℝ => (fp * p.eval x) * (fq * q.eval x))
        - fp * fq * ∫ x in (-1 : ℝ)..1, p.eval x * q.eval x| * (td : ℝ)
      ≤ (tn : ℝ) * (|fp * fq| * norm1 (coeffs (K := ℝ) (IPoly.mul p.num q.num)) / ((p.den : ℝ) * (q.den : ℝ))) := by
  have hg := gaussB64Ok_product htd h p.num q.num hlen
  have hD : (0 : ℝ) < (p.den : ℝ) * (q.den : ℝ) := by positivity
  set c : ℝ := fp * fq / ((p.den : ℝ) * (q.den : ℝ)) with hc
  have e1 : (fun x : ℝ => (fp * p.eval x) * (fq * q.eval x)) = fun x : ℝ => c * (evalP x p.num * evalP x q.num) := by
    funext x
    have := QP.eval_mul_eval p q hp hq x
    calc fp * p.eval x * (fq * q.eval x) = fp * fq * (p.eval x * q.eval x) := by ring
      _ = _ := by rw [this, hc]; ring
  have e2 : fp * fq * ∫ x in (-1 : ℝ)..1, p.eval x * q.eval x
      = c * ∫ x in (-1 : ℝ)..1, evalP x p.num * evalP x q.num := by
    simp only [QP.eval_mul_eval _ _ hp hq]
    rw [integral_div, hc]; ring
  rw [e1, gaussQuadB64_smul, e2, ← mul_sub, abs_mul]
  have hcabs : |c| = |fp * fq| / ((p.den : ℝ) * (q.den : ℝ)) := by
    rw [hc, abs_div, abs_of_pos hD]
  calc |c| * |gaussQuadB64 pts wts (fun x : ℝ => evalP x p.num * evalP x q.num)
          - ∫ x in (-1 : ℝ)..1, evalP x p.num * evalP x q.num| * (td : ℝ)
      = |c| * (|gaussQuadB64 pts wts (fun x : ℝ => evalP x p.num * evalP x q.num)
          - ∫ x in (-1 : ℝ)..1, evalP x p.num * evalP x q.num| * (td : ℝ)) := by ring
    _ ≤ |c| * ((tn : ℝ) * norm1 (coeffs (K := ℝ) (IPoly.mul p.num q.num))) :=
        mul_le_mul_of_nonneg_left hg (abs_nonneg c)
    _ = _ := by rw [hcabs]; ring

/-! ### Bardell functions with edge flags -/

section flags
variable {K : Type} [Field K]

/-- the edge flag multiplying the `i`-th Bardell function: one of four given values for the four Hermite functions
(`i < 4`: translation/rotation at either end), `1` for the hierarchical functions `i ≥ 4` -/
def bflag (fl : Nat → K) (i : Nat) : K := if i < 4 then fl i else 1

/-- value at `ξ` of `D^d φ_i`, `φ_i = flag_i · u_i` the `i`-th function of a Bardell series with edge flags `fl` -/
def bardellVal (fl : Nat → K) (d i : Nat) (ξ : K) : K := bflag fl i * (dbasis d i).eval ξ

end flags

theorem deriv_length (p : P) : (IPoly.deriv p).length = p.length - 1 := by
  cases p with
  | nil => rfl
  | cons a p => simp [IPoly.deriv, derivFrom_length]

theorem derivN_length : ∀ (d : Nat) (p : P), (IPoly.derivN d p).length = p.length - d
  | 0, _ => rfl
  | d + 1, p => by
    simp only [IPoly.derivN, derivN_length d (IPoly.deriv p), deriv_length]; omega

/-- `u_i` has degree `max i 3` (cubic Hermite functions, then degree `i`) -/
theorem basis_num_length (i : Nat) : (basis i).num.length = max i 3 + 1 := by
  match i with
  | 0 => rfl
  | 1 => rfl
  | 2 => rfl
  | 3 => rfl
  | i + 4 => simp [basis]

/-- number of coefficients of `D^d u_i`: `max i 3 + 1 − d` -/
theorem dbasis_num_length (d i : Nat) : (dbasis d i).num.length = max i 3 + 1 - d := by
  simp only [dbasis, derivN_length, basis_num_length]

/-- the degree condition of `gaussB64Ok_bardell_product` in terms of the series indices: a rule of order `n ≥ 4`
with `n` larger than both indices integrates every product `D^{d₁}u_i · D^{d₂}u_k` -/
theorem bardell_degree_ok {n i k : Nat} (d₁ d₂ : Nat) (h4 : 4 ≤ n) (hi : i < n) (hk : k < n) :
    (dbasis d₁ i).num.length + (dbasis d₂ k).num.length - 1 ≤ 2 * n := by
  simp only [dbasis_num_length]; omega

/-- **Gauss sum of a product of two Bardell functions vs. the real integral.**  For a rule that passed `gaussB64Ok`
(order `n`; tolerance `tn/td`), derivative orders `d₁, d₂`, functions `i, k` with
`(max i 3 + 1 − d₁) + (max k 3 + 1 − d₂) − 1 ≤ 2n` (the product has degree `≤ 2n−1`) and ANY real edge flags:
`|Σ_g w_g·D^{d₁}φ_i(x_g)·D^{d₂}φ_k(x_g) − flag_i·flag_k·∫_{-1}^{1} D^{d₁}u_i·D^{d₂}u_k| ≤ (tn/td)·|flag_i·flag_k|·‖·‖₁/(den_i·den_k)`,
`‖·‖₁` the 1-norm of the integer coefficients of the product of the two numerator polynomials. -/
theorem gaussB64Ok_bardell_product {tn td n : Nat} {pts wts : List Lit} (htd : 0 < td)
    (h : gaussB64Ok tn td n pts wts = true) (d₁ d₂ i k : Nat)
    (hlen : (dbasis d₁ i).num.length + (dbasis d₂ k).num.length - 1 ≤ 2 * n) (fl₁ fl₂ : Nat → ℝ) :
    |gaussQuadB64 pts wts (fun x : ℝ => bardellVal fl₁ d₁ i x * bardellVal fl₂ d₂ k x)
        - bflag fl₁ i * bflag fl₂ k * ∫ x in (-1 : ℝ)..1, (dbasis d₁ i).eval x * (dbasis d₂ k).eval x| * (td : ℝ)
      ≤ (tn : ℝ) * (|bflag fl₁ i * bflag fl₂ k| * norm1 (coeffs (K := ℝ) (IPoly.mul (dbasis d₁ i).num (dbasis d₂ k).num))
          / (((dbasis d₁ i).den : ℝ) * ((dbasis d₂ k).den : ℝ))) :=
  gaussB64Ok_qp_product htd h (dbasis d₁ i) (dbasis d₂ k) (dbasis_den_pos d₁ i) (dbasis_den_pos d₂ k) hlen _ _

/-- non-vacuity of the degree condition and of the norm: `u₀·u₀` (degree 6) needs a 4-point rule, and
`‖(8u₀)²‖₁ = 16 + 48 + 36 + 16 + 24 + 4 = 144` -/
example : (dbasis 0 0).num.length + (dbasis 0 0).num.length - 1 = 7 ∧
    IPoly.mul (dbasis 0 0).num (dbasis 0 0).num = [16, -48, 36, 16, -24, 0, 4] := by
  decide

end Compmech.C10
