/-
Exact integrals of products of Bardell polynomials (and derivatives), fraction-free.

All results are integers over the explicit denominator `dp·dq·intL` where `dp, dq` are the
denominators of the two factors and `intL = lcm(1..64)` clears the `1/(k+1)` of `∫ξ^k`.
No Mathlib.
-/
import CompmechVerif.Bardell.Basis

namespace Compmech.C10
open Compmech IPoly

def lcmUpTo : Nat → Nat
  | 0 => 1
  | n + 1 => Nat.lcm (lcmUpTo n) (n + 1)

/-- clears the denominators `1..64` -/
def intL : Nat := lcmUpTo 64

/-- `wtsFrom k n = [w_k, …, w_{k+n-1}]`, `w_k = intL·∫_{-1}^{1} ξ^k dξ` (`2·intL/(k+1)` for even `k`, else `0`) -/
def wtsFrom (k : Nat) : Nat → List Int
  | 0 => []
  | n + 1 => (if k % 2 = 0 then ((2 * (intL / (k + 1)) : Nat) : Int) else 0) :: wtsFrom (k + 1) n

/-- moments `w_0 … w_63` -/
def wts : List Int := wtsFrom 0 64

/-- `Σ_a p_a · Σ_b q_b · w_{a+b}` with `w` = the moment list from `a` on -/
def jnumAux : P → P → List Int → Int
  | [], _, _ => 0
  | a :: p, q, w => (if a = 0 then 0 else a * dot q w) + jnumAux p q w.tail

/-- numerator of `∫_{-1}^{1} P·Q` over `dp·dq·intL` -/
def jnum (p q : P) : Int := jnumAux p q wts

/-- `[c_{k-1}, c_k, …] ↦ [c_{k-1}·intL/k, c_k·intL/(k+1), …]` -/
def antiFrom (k : Nat) : P → P
  | [] => []
  | c :: p => (c * ((intL / k : Nat) : Int)) :: antiFrom (k + 1) p

/-- coefficients of `ξ¹, ξ², …` of the antiderivative (without constant term) of `p·q`,
as numerators over `dp·dq·intL` -/
def antiProd (p q : P) : P := antiFrom 1 (mul p q)

/-- `μ_t = intL·∫ p(ξ)·ξ^t dξ` for `t = 0 … n-1` -/
def musAux (p : P) : Nat → List Int → List Int
  | 0, _ => []
  | n + 1, w => dot p w :: musAux p n w.tail

def mus (p : P) : List Int := musAux p 31 wts

/-- prefix sums -/
def psums (acc : Nat) : List Nat → List Nat
  | [] => []
  | a :: l => (acc + a) :: psums (acc + a) l

/-- `diagsFrom d n = [d, psums d, psums (psums d), …]` (`n` lists) -/
def diagsFrom (d : List Nat) : Nat → List (List Nat)
  | 0 => []
  | n + 1 => d :: diagsFrom (psums 0 d) n

/-- `diags[a][t] = C(a+t, t)` for `a, t ≤ 30` (hockey-stick recurrence) -/
def diags : List (List Nat) := diagsFrom (List.replicate 31 1) 31

end Compmech.C10
