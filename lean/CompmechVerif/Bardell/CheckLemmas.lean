/-
Lemmas about `checkRow` / `checkRows` (no arithmetic content): reading one entry back out of a
passed table check (the composition lemmas used by the generated modules are in `CheckGlue.lean`).
-/
import CompmechVerif.Bardell.CheckGlue

namespace Compmech.C10

/-- a passed table check gives a passed row check for every row -/
theorem checkRows_get {tn td : Nat} {W : Nat → List (Terms × Nat)} :
    ∀ {lo : Nat} {rows : List (List E)}, checkRows tn td W lo rows = true →
      ∀ k (h : k < rows.length), checkRow tn td rows[k] (W (lo + k)) = true
  | _, [], _, k, h => absurd h (Nat.not_lt_zero k)
  | lo, r :: rs, hc, k, h => by
    simp only [checkRows, Bool.and_eq_true] at hc
    cases k with
    | zero => simpa using hc.1
    | succ k =>
      have := checkRows_get (lo := lo + 1) hc.2 k (by simpa using h)
      simpa [Nat.add_assoc, Nat.add_comm 1 k] using this

/-- a passed row check: same length, and every entry passes -/
theorem checkRow_get {tn td : Nat} :
    ∀ {r : List E} {ws : List (Terms × Nat)}, checkRow tn td r ws = true →
      r.length = ws.length ∧
        ∀ j (h : j < r.length) (h' : j < ws.length), checkE tn td r[j] ws[j].1 ws[j].2 = true
  | [], [], _ => ⟨rfl, fun j h => absurd h (Nat.not_lt_zero j)⟩
  | [], _ :: _, h => by simp [checkRow] at h
  | _ :: _, [], h => by simp [checkRow] at h
  | e :: es, w :: ws, h => by
    simp only [checkRow, Bool.and_eq_true] at h
    obtain ⟨hl, hg⟩ := checkRow_get h.2
    refine ⟨by simp [hl], ?_⟩
    intro j hj hj'
    cases j with
    | zero => simpa using h.1
    | succ j => simpa using hg j (by simpa using hj) (by simpa using hj')

theorem mapIdx_length {α β : Type} (f : Nat → α → β) : ∀ (j : Nat) (l : List α), (mapIdx f j l).length = l.length
  | _, [] => rfl
  | j, _ :: l => by simp [mapIdx, mapIdx_length f (j + 1) l]

theorem mapIdx_get {α β : Type} (f : Nat → α → β) :
    ∀ (j0 : Nat) (l : List α) (k : Nat) (h : k < l.length) (h' : k < (mapIdx f j0 l).length),
      (mapIdx f j0 l)[k] = f (j0 + k) l[k]
  | _, [], k, h, _ => absurd h (Nat.not_lt_zero k)
  | j0, a :: l, k, h, h' => by
    cases k with
    | zero => simp [mapIdx]
    | succ k =>
      have := mapIdx_get f (j0 + 1) l k (by simpa using h) (by simpa [mapIdx] using h')
      simp only [mapIdx, List.getElem_cons_succ]
      rw [this]; congr 1; omega

end Compmech.C10

namespace Compmech.C10

/-- entry `(i, j)` of a table given as a list of rows (`lit 0 0` outside) -/
def entry (t : List (List E)) (i j : Nat) : E := (t.getD i []).getD j (.lit 0 0)

theorem entry_eq {t : List (List E)} {i j : Nat} (hi : i < t.length) (hj : j < t[i].length) :
    entry t i j = t[i][j] := by
  simp [entry, List.getD, List.getElem?_eq_getElem hi, List.getElem?_eq_getElem hj]

/-- reading one entry out of a passed table check -/
theorem checkRows_entry {tn td : Nat} {W : Nat → List (Terms × Nat)} {rows : List (List E)}
    (h : checkRows tn td W 0 rows = true) {i j : Nat} (hi : i < rows.length) (hj : j < (W i).length) :
    checkE tn td (entry rows i j) (W i)[j].1 (W i)[j].2 = true := by
  have hr := checkRows_get h i hi
  rw [Nat.zero_add] at hr
  obtain ⟨hl, hg⟩ := checkRow_get hr
  have hj' : j < rows[i].length := by rw [hl]; exact hj
  rw [entry_eq hi hj']
  exact hg j hj' hj

theorem dbasisTab_length (d : Nat) : (dbasisTab d).length = NB := by simp [dbasisTab]

theorem dbasisTab_get (d j : Nat) (h : j < (dbasisTab d).length) : (dbasisTab d)[j] = dbasis d j := by
  simp [dbasisTab]

theorem fullWantRow_length (d1 d2 i : Nat) : (fullWantRow d1 d2 i).length = NB := by
  simp [fullWantRow, mapIdx_length, dbasisTab_length]

theorem fullWantRow_get (d1 d2 i j : Nat) (h : j < (fullWantRow d1 d2 i).length) :
    (fullWantRow d1 d2 i)[j] =
      (fullWant (flagKey2 i j) (dbasis d1 i).num (dbasis d2 j).num, (dbasis d1 i).den * (dbasis d2 j).den * intL) := by
  have hj : j < (dbasisTab d2).length := by simpa [fullWantRow, mapIdx_length] using h
  simp only [fullWantRow]
  rw [mapIdx_get _ 0 _ j hj, dbasisTab_get, Nat.zero_add]

theorem subWantRow_length (d1 d2 i : Nat) : (subWantRow d1 d2 i).length = NB := by
  simp [subWantRow, mapIdx_length, dbasisTab_length]

theorem subWantRow_get (d1 d2 i j : Nat) (h : j < (subWantRow d1 d2 i).length) :
    (subWantRow d1 d2 i)[j] =
      (subWant (flagKey2 i j) (toTerms (dbasis d1 i).num) (toTerms (dbasis d2 j).num),
        (dbasis d1 i).den * (dbasis d2 j).den * intL) := by
  have hj : j < (dbasisTab d2).length := by simpa [subWantRow, mapIdx_length] using h
  simp only [subWantRow]
  rw [mapIdx_get _ 0 _ j hj, dbasisTab_get, Nat.zero_add]

theorem mapWantRow_length (d1 d2 i : Nat) : (mapWantRow d1 d2 i).length = NB := by
  simp [mapWantRow, mapIdx_length, dbasisTab_length]

theorem mapWantRow_get (d1 d2 i j : Nat) (h : j < (mapWantRow d1 d2 i).length) :
    (mapWantRow d1 d2 i)[j] =
      (mapWant (flagKey2 i j) (mus (dbasis d1 i).num) (dbasis d2 j).num,
        (dbasis d1 i).den * (dbasis d2 j).den * intL) := by
  have hj : j < (dbasisTab d2).length := by simpa [mapWantRow, mapIdx_length] using h
  simp only [mapWantRow]
  rw [mapIdx_get _ 0 _ j hj, dbasisTab_get, Nat.zero_add]

theorem funcWantRow_length (d : Nat) : (funcWantRow d).length = NB := by
  simp [funcWantRow, mapIdx_length]

theorem funcWantRow_get (d i : Nat) (h : i < (funcWantRow d).length) : (funcWantRow d)[i] = funcWant d i := by
  have hi : i < (List.replicate NB ()).length := by simpa [funcWantRow, mapIdx_length] using h
  simp only [funcWantRow]
  rw [mapIdx_get _ 0 _ i hi, Nat.zero_add]

/-- entry `i` of a one-index table -/
def entry1 (t : List E) (i : Nat) : E := t.getD i (.lit 0 0)

theorem checkRow_entry1 {tn td : Nat} {t : List E} {ws : List (Terms × Nat)} (h : checkRow tn td t ws = true)
    {i : Nat} (hi : i < ws.length) : checkE tn td (entry1 t i) ws[i].1 ws[i].2 = true := by
  obtain ⟨hl, hg⟩ := checkRow_get h
  have hi' : i < t.length := by rw [hl]; exact hi
  have : entry1 t i = t[i] := by simp [entry1, List.getD, List.getElem?_eq_getElem hi']
  rw [this]; exact hg i hi' hi

end Compmech.C10
