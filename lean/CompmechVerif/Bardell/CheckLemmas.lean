/-
Glue lemmas about `checkRow` / `checkRows` (no arithmetic content): composing per-row kernel
checks into block and table checks, and reading one entry back out of a table check.
-/
import CompmechVerif.Bardell.Check

namespace Compmech.C10

theorem checkRows_nil_true (tn td : Nat) (W : Nat → List (Terms × Nat)) (i : Nat) :
    checkRows tn td W i [] = true := rfl

theorem checkRows_cons_true {tn td : Nat} {W : Nat → List (Terms × Nat)} {i : Nat} {r : List E}
    {rs : List (List E)} (h : checkRow tn td r (W i) = true) (hs : checkRows tn td W (i + 1) rs = true) :
    checkRows tn td W i (r :: rs) = true := by
  simp [checkRows, h, hs]

theorem checkRows_append_true {tn td : Nat} {W : Nat → List (Terms × Nat)} :
    ∀ {i : Nat} {a b : List (List E)}, checkRows tn td W i a = true →
      checkRows tn td W (i + a.length) b = true → checkRows tn td W i (a ++ b) = true
  | i, [], b, _, hb => by simpa using hb
  | i, r :: a, b, ha, hb => by
    simp only [checkRows, Bool.and_eq_true] at ha
    have hb' : checkRows tn td W (i + 1 + a.length) b = true := by
      have : i + (r :: a).length = i + 1 + a.length := by simp [List.length_cons]; omega
      rw [this] at hb; exact hb
    have := checkRows_append_true (i := i + 1) ha.2 hb'
    simp [checkRows, ha.1, this]

/-- a passed table check gives a passed row check for every row -/
theorem checkRows_get {tn td : Nat} {W : Nat → List (Terms × Nat)} :
    ∀ {lo : Nat} {rows : List (List E)}, checkRows tn td W lo rows = true →
      ∀ k (h : k < rows.length), checkRow tn td rows[k] (W (lo + k)) = true
  | _, [], _, k, h => absurd h (Nat.not_lt_zero k)
  | lo, r :: rs, hc, k, h => by
    simp only [checkRows, Bool.and_eq_true] at hc
    cases k with
    | zero => simpa using hc.1
    | succ k =>
      have := checkRows_get (lo := lo + 1) hc.2 k (by simpa using h)
      simpa [Nat.add_assoc, Nat.add_comm 1 k] using this

/-- a passed row check: same length, and every entry passes -/
theorem checkRow_get {tn td : Nat} :
    ∀ {r : List E} {ws : List (Terms × Nat)}, checkRow tn td r ws = true →
      r.length = ws.length ∧
        ∀ j (h : j < r.length) (h' : j < ws.length), checkE tn td r[j] ws[j].1 ws[j].2 = true
  | [], [], _ => ⟨rfl, fun j h => absurd h (Nat.not_lt_zero j)⟩
  | [], _ :: _, h => by simp [checkRow] at h
  | _ :: _, [], h => by simp [checkRow] at h
  | e :: es, w :: ws, h => by
    simp only [checkRow, Bool.and_eq_true] at h
    obtain ⟨hl, hg⟩ := checkRow_get h.2
    refine ⟨by simp [hl], ?_⟩
    intro j hj hj'
    cases j with
    | zero => simpa using h.1
    | succ j => simpa using hg j (by simpa using hj) (by simpa using hj')

theorem mapIdx_length {α β : Type} (f : Nat → α → β) : ∀ (j : Nat) (l : List α), (mapIdx f j l).length = l.length
  | _, [] => rfl
  | j, _ :: l => by simp [mapIdx, mapIdx_length f (j + 1) l]

theorem mapIdx_get {α β : Type} (f : Nat → α → β) :
    ∀ (j0 : Nat) (l : List α) (k : Nat) (h : k < l.length) (h' : k < (mapIdx f j0 l).length),
      (mapIdx f j0 l)[k] = f (j0 + k) l[k]
  | _, [], k, h, _ => absurd h (Nat.not_lt_zero k)
  | j0, a :: l, k, h, h' => by
    cases k with
    | zero => simp [mapIdx]
    | succ k =>
      have := mapIdx_get f (j0 + 1) l k (by simpa using h) (by simpa [mapIdx] using h')
      simp only [mapIdx, List.getElem_cons_succ]
      rw [this]; congr 1; omega

end Compmech.C10
