/-
Checkers of the generated C tables against the exact Bardell data — all computable by the kernel
(`decide +kernel`).  What a successful check *means* is proved once in `Bardell/Lemmas.lean`.

Every table entry `e : E` (the C expression) is compared with a *wanted* sparse polynomial
`want : Terms` over an explicit denominator `den : Nat`, built from `Bardell/Basis` + `Bardell/Exact`:
`checkE tn td e want den` says that the normal form of `e` has exactly the monomials of `want`
(so: exact zero pattern, exact flag monomial) and every coefficient is within the relative
tolerance `tn/td` of the wanted one.
-/
import CompmechVerif.Core.CExpr
import CompmechVerif.Bardell.Exact

namespace Compmech.C10
open Compmech IPoly

/-- flag key of a one-index table (`calc_f…`): variables 2..5 are `xi1t, xi1r, xi2t, xi2r` -/
def flagKey1 (i : Nat) : Nat := if i < 4 then 128 ^ (2 + i) else 0

/-- flag key of a two-index table: variables 2..5 = `x1t,x1r,x2t,x2r`, 6..9 = `y1t,y1r,y2t,y2r` -/
def flagKey2 (i j : Nat) : Nat := (if i < 4 then 128 ^ (2 + i) else 0) + (if j < 4 then 128 ^ (6 + j) else 0)

/-- `got/ps` is coefficient-wise within `tn/td` (relative) of `want/den`: same keys in the same
order, `|c/ps − n/den| ≤ tn/td·|n/den|` -/
def closeTerms (tn td ps den : Nat) : Terms → Terms → Bool
  | [], [] => true
  | g :: gs, w :: ws =>
    g.1 == w.1 && decide ((g.2 * (den : Int) - w.2 * (ps : Int)).natAbs * td ≤ tn * w.2.natAbs * ps)
      && closeTerms tn td ps den gs ws
  | _, _ => false

/-- one expression against wanted terms over `den` -/
def checkE (tn td : Nat) (e : E) (want : Terms) (den : Nat) : Bool :=
  e.ok && (let nf := norm e; closeTerms tn td (10 ^ nf.s) den nf.t want)

/-- a row of expressions against a row of `(want, den)` -/
def checkRow (tn td : Nat) : List E → List (Terms × Nat) → Bool
  | [], [] => true
  | e :: es, w :: ws => checkE tn td e w.1 w.2 && checkRow tn td es ws
  | _, _ => false

/-- rows `i, i+1, …` against the wanted rows `W i, W (i+1), …` -/
def checkRows (tn td : Nat) (W : Nat → List (Terms × Nat)) : Nat → List (List E) → Bool
  | _, [] => true
  | i, r :: rs => checkRow tn td r (W i) && checkRows tn td W (i + 1) rs

/-- `[f 0 q₀, f 1 q₁, …]` -/
def mapIdx {α β : Type} (f : Nat → α → β) : Nat → List α → List β
  | _, [] => []
  | j, q :: qs => f j q :: mapIdx f (j + 1) qs

/-- wanted terms `key0 + step·k ↦ ±c_k` for `k = k0, k0+1, …`, zero coefficients dropped (ascending) -/
def termsAsc (key0 step : Nat) (neg : Bool) : Nat → P → Terms
  | _, [] => []
  | k, c :: p =>
    if c = 0 then termsAsc key0 step neg (k + 1) p
    else (key0 + step * k, if neg then -c else c) :: termsAsc key0 step neg (k + 1) p

/-- dense ascending coefficient list → sparse terms of variable 0 (descending) -/
def toTermsAux (acc : Terms) : Nat → P → Terms
  | _, [] => acc
  | k, c :: p => if c = 0 then toTermsAux acc (k + 1) p else toTermsAux ((k, c) :: acc) (k + 1) p

def toTerms (p : P) : Terms := toTermsAux [] 0 p

/-! ### function tables: `calc_f`, `calc_fxi`, `calc_fxixi` and `calc_vec_*`
variable 0 = `xi`; entry `i`: `flag_i · Dᵈ(basis i)(xi)` (flag only for `i < 4`) -/

def funcWant (d i : Nat) : Terms × Nat :=
  ((termsAsc (flagKey1 i) 1 false 0 (dbasis d i).num).reverse, (basis i).den)

def funcWantRow (d : Nat) : List (Terms × Nat) := mapIdx (fun i _ => funcWant d i) 0 (List.replicate NB ())

/-! ### full-interval tables: entry `(i,j)` = `flag_i·flag_j·∫_{-1}^{1} D^{d1}u_i·D^{d2}u_j`,
the empty polynomial (exact zero) where the integral vanishes -/

def fullWant (fk : Nat) (p q : P) : Terms :=
  let n := jnum p q
  if n = 0 then [] else [(fk, n)]

def fullWantRow (d1 d2 i : Nat) : List (Terms × Nat) :=
  let p := dbasis d1 i
  mapIdx (fun j q => (fullWant (flagKey2 i j) p.num q.num, p.den * q.den * intL)) 0 (dbasisTab d2)

/-! ### sub-interval tables `_12`: variable 1 = `xi1`, variable 0 = `xi2`;
entry `(i,j)` = `flag_i·flag_j·(A(xi2) − A(xi1))`, `A` the antiderivative of `D^{d1}u_i·D^{d2}u_j` -/

/-- `(k, c) ↦ (fk + step·(k+1), ± c·intL/(k+1))`: the antiderivative, term by term -/
def antiTerms (fk step : Nat) (neg : Bool) : Terms → Terms
  | [] => []
  | x :: xs =>
    let c := x.2 * ((intL / (x.1 + 1) : Nat) : Int)
    (fk + step * (x.1 + 1), if neg then -c else c) :: antiTerms fk step neg xs

def subWant (fk : Nat) (p q : Terms) : Terms :=
  let a := mulTerms p q
  antiTerms fk 128 true a ++ antiTerms fk 1 false a

def subWantRow (d1 d2 i : Nat) : List (Terms × Nat) :=
  let p := dbasis d1 i
  let pt := toTerms p.num
  mapIdx (fun j q => (subWant (flagKey2 i j) pt (toTerms q.num), p.den * q.den * intL)) 0 (dbasisTab d2)

/-! ### mapped-argument tables `_c0c1`: variable 1 = `c0`, variable 0 = `c1`;
entry `(i,j)` = `flag_i·flag_j·∫_{-1}^{1} D^{d1}u_i(ξ)·D^{d2}u_j(c0 + c1·ξ) dξ`
            = `Σ_{a,t} q_{a+t}·C(a+t,t)·μ_t(p)·c0^a·c1^t`,  `μ_t(p) = ∫ p(ξ)·ξ^t dξ` -/

/-- terms `key0 + t ↦ q_{a+t}·C(a+t,t)·μ_t` for `t = 0,1,…` (ascending) -/
def mapRowTerms : Nat → P → List Nat → List Int → Terms
  | key, qm :: q, c :: cs, mu :: ms =>
    let v := qm * (c : Int) * mu
    if v = 0 then mapRowTerms (key + 1) q cs ms else (key, v) :: mapRowTerms (key + 1) q cs ms
  | _, _, _, _ => []

/-- all terms, ascending: power `a` of `c0` (variable 1), power `t` of `c1` (variable 0) -/
def mapAll (fk : Nat) (ms : List Int) : Nat → P → List (List Nat) → Terms
  | a, q :: qt, d :: ds => mapRowTerms (fk + 128 * a) (q :: qt) d ms ++ mapAll fk ms (a + 1) qt ds
  | _, _, _ => []

def mapWant (fk : Nat) (ms : List Int) (q : P) : Terms := (mapAll fk ms 0 q diags).reverse

def mapWantRow (d1 d2 i : Nat) : List (Terms × Nat) :=
  let p := dbasis d1 i
  let ms := mus p.num
  mapIdx (fun j q => (mapWant (flagKey2 i j) ms q.num, p.den * q.den * intL)) 0 (dbasisTab d2)

/-! ### tolerances (relative, per coefficient), calibrated on the unchanged tables

* function and full-interval tables: one 15-significant-digit literal per coefficient; a correctly
  rounded 15-digit literal is within `5·10⁻¹⁵` of the exact value.  Largest observed on the
  unchanged tree: `4.59·10⁻¹⁵` (function tables), `4.25·10⁻¹⁵` (full-interval tables).
* `_12` and `_c0c1` tables: products of two such literals; largest observed `7.9·10⁻¹⁵`
  (`integral_ff_12(8,25)`, monomial `xi2³²`) resp. `7.4·10⁻¹⁵`; tolerance = 10 × that, rounded: `10⁻¹³`. -/
def tolFuncN : Nat := 5
def tolFuncD : Nat := 10 ^ 15
def tolSubN : Nat := 1
def tolSubD : Nat := 10 ^ 13

end Compmech.C10
