/-
Checkers of the generated C tables against the exact Bardell data — all computable by the kernel
(`decide +kernel`).  What a successful check *means* is proved once in `Bardell/Lemmas.lean`.

Tolerances are rationals `tn/td` (relative, per coefficient).
-/
import CompmechVerif.Core.CExpr
import CompmechVerif.Bardell.Exact

namespace Compmech.C10
open Compmech IPoly

/-- flag key of a one-index table (`calc_f…`): variables 2..5 are `xi1t, xi1r, xi2t, xi2r` -/
def flagKey1 (i : Nat) : Nat := if i < 4 then 128 ^ (2 + i) else 0

/-- flag key of a two-index table: variables 2..5 = `x1t,x1r,x2t,x2r`, 6..9 = `y1t,y1r,y2t,y2r` -/
def flagKey2 (i j : Nat) : Nat := (if i < 4 then 128 ^ (2 + i) else 0) + (if j < 4 then 128 ^ (6 + j) else 0)

/-- `got/ps` is coefficient-wise within `tn/td` (relative) of `want/den`: same keys in the same
order, `|c/ps − n/den| ≤ tn/td·|n/den|` -/
def closeTerms (tn td ps den : Nat) : Terms → Terms → Bool
  | [], [] => true
  | g :: gs, w :: ws =>
    g.1 == w.1 && decide ((g.2 * (den : Int) - w.2 * (ps : Int)).natAbs * td ≤ tn * w.2.natAbs * ps)
      && closeTerms tn td ps den gs ws
  | _, _ => false

/-- expected terms `key0 + step·k ↦ sign·c_k` for `k = k0, k0+1, …`, zero coefficients dropped (ascending) -/
def termsAsc (key0 step : Nat) (neg : Bool) : Nat → P → Terms
  | _, [] => []
  | k, c :: p =>
    if c = 0 then termsAsc key0 step neg (k + 1) p
    else (key0 + step * k, if neg then -c else c) :: termsAsc key0 step neg (k + 1) p

/-- one expression against expected terms over `den` -/
def checkE (tn td : Nat) (e : E) (want : Terms) (den : Nat) : Bool :=
  e.ok && (let nf := norm e; closeTerms tn td (10 ^ nf.s) den nf.t want)

/-! ### function tables: `calc_f`, `calc_fxi`, `calc_fxixi` and `calc_vec_*` -/

def funcWant (d i : Nat) : Terms := (termsAsc (flagKey1 i) 1 false 0 (dbasis d i).num).reverse

def checkFuncFrom (tn td d : Nat) : Nat → List E → Bool
  | _, [] => true
  | i, e :: l => checkE tn td e (funcWant d i) (basis i).den && checkFuncFrom tn td d (i + 1) l

/-- every entry `i < 30` of a function table is coefficient-wise close to `Dᵈ(basis i)`, with the
flag of index `i < 4` as the only flag -/
def checkFunc (tn td d : Nat) (tab : List E) : Bool :=
  tab.length == NB && checkFuncFrom tn td d 0 tab

/-! ### full-interval tables -/

def fullWant (fk : Nat) (p q : P) : Terms :=
  let n := jnum p q
  if n = 0 then [] else [(fk, n)]

def checkFullRow (tn td : Nat) (i : Nat) (p : QP) : Nat → List QP → List E → Bool
  | _, [], [] => true
  | j, q :: qs, e :: es =>
    checkE tn td e (fullWant (flagKey2 i j) p.num q.num) (p.den * q.den * intL)
      && checkFullRow tn td i p (j + 1) qs es
  | _, _, _ => false

def checkFullRows (tn td d1 : Nat) (cols : List QP) : Nat → List (List E) → Bool
  | _, [] => true
  | i, r :: rs => checkFullRow tn td i (dbasis d1 i) 0 cols r && checkFullRows tn td d1 cols (i + 1) rs

/-- rows `lo, lo+1, …` of `integral_<d1><d2>`: each of the 30 entries of each row is within `tn/td` of
`flag_i·flag_j·∫_{-1}^{1} D^{d1}u_i·D^{d2}u_j`, exact zero where the integral vanishes -/
def checkFull (tn td d1 d2 lo n : Nat) (rows : List (List E)) : Bool :=
  rows.length == n && checkFullRows tn td d1 (dbasisTab d2) lo rows

/-! ### sub-interval tables `_12` -/

def subWant (fk : Nat) (p q : P) : Terms :=
  let a := antiProd p q
  (termsAsc fk 1 false 1 a ++ termsAsc fk 128 true 1 a).reverse

def checkSubRow (tn td : Nat) (i : Nat) (p : QP) : Nat → List QP → List E → Bool
  | _, [], [] => true
  | j, q :: qs, e :: es =>
    checkE tn td e (subWant (flagKey2 i j) p.num q.num) (p.den * q.den * intL)
      && checkSubRow tn td i p (j + 1) qs es
  | _, _, _ => false

def checkSubRows (tn td d1 : Nat) (cols : List QP) : Nat → List (List E) → Bool
  | _, [] => true
  | i, r :: rs => checkSubRow tn td i (dbasis d1 i) 0 cols r && checkSubRows tn td d1 cols (i + 1) rs

/-- rows `lo…` of `integral_<d1><d2>_12(xi1, xi2, i, j, flags)` (variable 1 = `xi1`, 0 = `xi2`):
coefficient-wise within `tn/td` of `flag_i·flag_j·(A(xi2) − A(xi1))`, `A' = D^{d1}u_i·D^{d2}u_j` -/
def checkSub (tn td d1 d2 lo n : Nat) (rows : List (List E)) : Bool :=
  rows.length == n && checkSubRows tn td d1 (dbasisTab d2) lo rows

/-! ### mapped-argument tables `_c0c1` -/

/-- terms `key0 + t ↦ q_{a+t}·C(a+t,t)·μ_t` for `t = 0,1,…` (ascending) -/
def mapRow : Nat → P → List Nat → List Int → Terms
  | key, qm :: q, c :: cs, mu :: ms =>
    let v := qm * (c : Int) * mu
    if v = 0 then mapRow (key + 1) q cs ms else (key, v) :: mapRow (key + 1) q cs ms
  | _, _, _, _ => []

/-- all terms, ascending: power `a` of `c0` (variable 1), power `t` of `c1` (variable 0) -/
def mapAll (fk : Nat) (ms : List Int) : Nat → P → List (List Nat) → Terms
  | a, q :: qt, d :: ds => mapRow (fk + 128 * a) (q :: qt) d ms ++ mapAll fk ms (a + 1) qt ds
  | _, _, _ => []

def mapWant (fk : Nat) (ms : List Int) (q : P) : Terms := (mapAll fk ms 0 q diags).reverse

def checkMapRow (tn td : Nat) (i : Nat) (pden : Nat) (ms : List Int) : Nat → List QP → List E → Bool
  | _, [], [] => true
  | j, q :: qs, e :: es =>
    checkE tn td e (mapWant (flagKey2 i j) ms q.num) (pden * q.den * intL)
      && checkMapRow tn td i pden ms (j + 1) qs es
  | _, _, _ => false

def checkMapRows (tn td d1 : Nat) (cols : List QP) : Nat → List (List E) → Bool
  | _, [] => true
  | i, r :: rs =>
    (let p := dbasis d1 i; checkMapRow tn td i p.den (mus p.num) 0 cols r)
      && checkMapRows tn td d1 cols (i + 1) rs

/-- rows `lo…` of `integral_<d1><d2>_c0c1(c0, c1, i, j, flags)`: coefficient-wise within `tn/td` of the
binomial expansion of `flag_i·flag_j·∫_{-1}^{1} D^{d1}u_i(ξ)·D^{d2}u_j(c0 + c1·ξ) dξ` -/
def checkMap (tn td d1 d2 lo n : Nat) (rows : List (List E)) : Bool :=
  rows.length == n && checkMapRows tn td d1 (dbasisTab d2) lo rows

end Compmech.C10
