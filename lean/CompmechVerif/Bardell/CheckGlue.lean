/-
Stable glue lemmas used by the GENERATED check modules (`Gen/CTables/*Check.lean`, `*All.lean`):
composing per-row kernel checks into block and table checks.  Keep this file unchanged — every
generated check module imports it, so editing it re-checks all tables.
-/
import CompmechVerif.Bardell.Check

namespace Compmech.C10

theorem checkRows_nil_true (tn td : Nat) (W : Nat → List (Terms × Nat)) (i : Nat) :
    checkRows tn td W i [] = true := rfl

theorem checkRows_cons_true {tn td : Nat} {W : Nat → List (Terms × Nat)} {i : Nat} {r : List E}
    {rs : List (List E)} (h : checkRow tn td r (W i) = true) (hs : checkRows tn td W (i + 1) rs = true) :
    checkRows tn td W i (r :: rs) = true := by
  simp [checkRows, h, hs]

theorem checkRows_append_true {tn td : Nat} {W : Nat → List (Terms × Nat)} :
    ∀ {i : Nat} {a b : List (List E)}, checkRows tn td W i a = true →
      checkRows tn td W (i + a.length) b = true → checkRows tn td W i (a ++ b) = true
  | i, [], b, _, hb => by simpa using hb
  | i, r :: a, b, ha, hb => by
    simp only [checkRows, Bool.and_eq_true] at ha
    have hb' : checkRows tn td W (i + 1 + a.length) b = true := by
      have : i + (r :: a).length = i + 1 + a.length := by simp [List.length_cons]; omega
      rw [this] at hb; exact hb
    have := checkRows_append_true (i := i + 1) ha.2 hb'
    simp [checkRows, ha.1, this]

end Compmech.C10
