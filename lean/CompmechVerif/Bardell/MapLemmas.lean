/-
The mapped-argument (`_c0c1`) exact side is an integral:  what `mapWant` (Bardell/Check.lean) — *defined* as the
binomial expansion `Σ_{a,t} q_{a+t}·C(a+t,t)·μ_t(p)·c0^a·c1^t` — means as a value.

  `diags_getD`          : `diags[a][t] = C(a+t, t)` for `a, t ≤ 30` (hockey-stick recurrence of `psums`, by induction)
  `mus_getD`            : `(mus p)[t] = intL · Σ_b p_b m_{t+b}`; `mus_getD_real` : `= intL · ∫_{-1}^{1} p(ξ) ξ^t dξ`
  `gTerms_mapWant`      : the term list of `mapWant`, read with any coefficient reading `f` (`f 0 = 0`) and any
                          monomial reading `g`, is `Σ_{m<n} Σ_{k≤m} f(q_m·C(m,m−k)·μ_{m−k}) · g(fk + 128·k + (m−k))`
  `evalTerms_mapWant`   : `= flags · Σ_m q_m Σ_{k≤m} c0^k c1^(m−k) C(m,k) μ_{m−k}`           (`mapSum`)
  `absTerms_mapWant`    : the same with every factor replaced by its modulus
  `mapSum_eq_integral`  : `Σ_m Q_m Σ_{k≤m} c0^k c1^(m−k) C(m,k) · (L·∫ P(ξ) ξ^(m−k))  =  L · ∫ P(ξ) · Σ_m Q_m (c0 + c1 ξ)^m`
                          (the binomial theorem `add_pow` under the integral sign)
  `evalTerms_mapWant_real` : `evalTerms env (mapWant (flagKey2 i j) (mus p) q)
                               = flagX·flagY·intL·∫_{-1}^{1} p(ξ)·q(c0 + c1·ξ) dξ`
  `absTerms_mapWant_real`  : `absTerms env (mapWant …) = |flagX·flagY|·intL·absMapOf c0 c1 p q`
-/
import Mathlib.Data.Nat.Choose.Sum
import Mathlib.Algebra.BigOperators.Intervals
import CompmechVerif.Bardell.IntegralLemmas

set_option linter.unusedSectionVars false
set_option linter.unusedSimpArgs false
set_option linter.unnecessarySeqFocus false
set_option linter.unusedVariables false

namespace Compmech.C10
open Compmech IPoly Finset intervalIntegral

/-! ### `diags[a][t] = C(a+t, t)` -/

/-- `[C(a+k, k), C(a+k+1, k+1), …]` (`n` entries) -/
def diagRow (a : Nat) : Nat → Nat → List Nat
  | _, 0 => []
  | k, n + 1 => Nat.choose (a + k) k :: diagRow a (k + 1) n

theorem diagRow_length (a : Nat) : ∀ (n k : Nat), (diagRow a k n).length = n
  | 0, _ => rfl
  | n + 1, k => by simp [diagRow, diagRow_length a n]

theorem diagRow_getD (a : Nat) : ∀ (n k s : Nat), s < n → (diagRow a k n).getD s 0 = Nat.choose (a + k + s) (k + s)
  | 0, _, _, h => absurd h (Nat.not_lt_zero _)
  | n + 1, k, 0, _ => by simp [diagRow]
  | n + 1, k, s + 1, h => by
    rw [diagRow, List.getD_cons_succ, diagRow_getD a n (k + 1) s (by omega)]
    congr 1 <;> omega

/-- one step of the hockey-stick recurrence, from position `k + 1` on: the running sum is `C(a+k+1, k)` -/
theorem psums_diagRow_succ (a : Nat) : ∀ (n k : Nat),
    psums (Nat.choose (a + k + 1) k) (diagRow a (k + 1) n) = diagRow (a + 1) (k + 1) n
  | 0, _ => rfl
  | n + 1, k => by
    have e : Nat.choose (a + k + 1) k + Nat.choose (a + (k + 1)) (k + 1) = Nat.choose (a + 1 + (k + 1)) (k + 1) := by
      have h1 : a + 1 + (k + 1) = (a + k + 1) + 1 := by omega
      rw [h1]
      exact (Nat.choose_succ_succ (a + k + 1) k).symm
    have ih := psums_diagRow_succ a n (k + 1)
    have h3 : a + (k + 1) + 1 = a + 1 + (k + 1) := by omega
    rw [h3] at ih
    simp only [diagRow, psums, e, ih]

theorem psums_diagRow (a : Nat) : ∀ n : Nat, psums 0 (diagRow a 0 n) = diagRow (a + 1) 0 n
  | 0 => rfl
  | n + 1 => by
    have ih := psums_diagRow_succ a n 0
    simp only [Nat.add_zero, Nat.choose_zero_right] at ih
    simp only [diagRow, psums, Nat.add_zero, Nat.choose_zero_right, Nat.zero_add, ih]

theorem replicate_eq_diagRow : ∀ (n k : Nat), List.replicate n 1 = diagRow 0 k n
  | 0, _ => rfl
  | n + 1, k => by
    simp only [List.replicate, diagRow, Nat.zero_add, Nat.choose_self, replicate_eq_diagRow n (k + 1)]

theorem diagsFrom_length : ∀ (m : Nat) (d : List Nat), (diagsFrom d m).length = m
  | 0, _ => rfl
  | m + 1, d => by simp [diagsFrom, diagsFrom_length m]

theorem diagsFrom_getD (n : Nat) : ∀ (m a r : Nat), r < m →
    (diagsFrom (diagRow a 0 n) m).getD r [] = diagRow (a + r) 0 n
  | 0, _, _, h => absurd h (Nat.not_lt_zero _)
  | m + 1, a, 0, _ => by simp [diagsFrom]
  | m + 1, a, r + 1, h => by
    rw [diagsFrom, List.getD_cons_succ, psums_diagRow, diagsFrom_getD n m (a + 1) r (by omega)]
    congr 1; omega

theorem diags_length : diags.length = 31 := diagsFrom_length 31 _

theorem diags_getD_row (r : Nat) (hr : r < 31) : diags.getD r [] = diagRow r 0 31 := by
  unfold diags
  rw [replicate_eq_diagRow 31 0, diagsFrom_getD 31 31 0 r hr, Nat.zero_add]

/-- **`diags[a][t] = C(a+t, t)`** for `a, t ≤ 30` -/
theorem diags_getD (r s : Nat) (hr : r < 31) (hs : s < 31) : (diags.getD r []).getD s 0 = Nat.choose (r + s) s := by
  rw [diags_getD_row r hr, diagRow_getD r 31 0 s hs]; simp

theorem diags_row_length (r : Nat) (hr : r < 31) : (diags.getD r []).length = 31 := by
  rw [diags_getD_row r hr, diagRow_length]

/-! ### `(mus p)[t] = intL · ∫ p(ξ) ξ^t dξ` -/

theorem musAux_length (p : P) : ∀ (n : Nat) (w : List Int), (musAux p n w).length = n
  | 0, _ => rfl
  | n + 1, w => by simp [musAux, musAux_length p n]

theorem mus_length (p : P) : (mus p).length = 31 := musAux_length p 31 _

section musK
variable {K : Type} [Field K] [CharZero K]

theorem musAux_getD (p : P) : ∀ (n k m s : Nat), s < n → p.length + n ≤ m + 1 → k + m ≤ 64 →
    (((musAux p n (wtsFrom k m)).getD s 0 : Int) : K) = (intL : K) * dotMoment (k + s) p
  | 0, _, _, _, h, _, _ => absurd h (Nat.not_lt_zero _)
  | n + 1, k, m, 0, _, h1, h2 => by
    rw [musAux, List.getD_cons_zero, dot_wtsFrom p k m (by omega) h2, Nat.add_zero]
  | n + 1, k, 0, s + 1, h, h1, _ => by omega
  | n + 1, k, m + 1, s + 1, h, h1, h2 => by
    rw [musAux, List.getD_cons_succ, wtsFrom_tail, musAux_getD p n (k + 1) m s (by omega) (by omega) (by omega)]
    congr 2; omega

/-- `(mus p)[t] = intL · Σ_b p_b · m_{t+b}` -/
theorem mus_getD (p : P) (t : Nat) (ht : t < 31) (hp : p.length ≤ 34) :
    (((mus p).getD t 0 : Int) : K) = (intL : K) * dotMoment t p := by
  have := musAux_getD (K := K) p 31 0 64 t ht (by omega) (le_refl _)
  rwa [Nat.zero_add] at this

end musK

/-- **`(mus p)[t] = intL · ∫_{-1}^{1} p(ξ)·ξ^t dξ`** -/
theorem mus_getD_real (p : P) (t : Nat) (ht : t < 31) (hp : p.length ≤ 34) :
    (((mus p).getD t 0 : Int) : ℝ) = (intL : ℝ) * ∫ x in (-1 : ℝ)..1, evalP x p * x ^ t := by
  rw [mus_getD p t ht hp]
  have := integral_pow_mul_evalFrom t p 0
  rw [Nat.add_zero] at this
  rw [← this]
  congr 2
  funext x
  simp only [evalP]; ring

/-! ### the term list of `mapWant` as a double sum

`gTerms f g t = Σ_{(key, c) ∈ t} f c · g key` covers both readings at once: `evalTerms env` is
`f = cast`, `g = mono env`; `absTerms env` is `f = |cast ·|`, `g = |mono env ·|`. -/

section generic
variable {K : Type} [Field K]

def gTerms (f : Int → K) (g : Nat → K) : Terms → K
  | [] => 0
  | x :: xs => f x.2 * g x.1 + gTerms f g xs

theorem evalTerms_eq_gTerms (env : Nat → K) : ∀ t : Terms,
    evalTerms env t = gTerms (fun c => (c : K)) (mono env) t
  | [] => rfl
  | x :: xs => by simp only [evalTerms, gTerms, evalTerms_eq_gTerms env xs]

theorem gTerms_append (f : Int → K) (g : Nat → K) : ∀ a b : Terms,
    gTerms f g (a ++ b) = gTerms f g a + gTerms f g b
  | [], b => by simp [gTerms]
  | x :: a, b => by simp [gTerms, gTerms_append f g a b, add_assoc]

theorem gTerms_reverse (f : Int → K) (g : Nat → K) : ∀ t : Terms, gTerms f g t.reverse = gTerms f g t
  | [] => rfl
  | x :: xs => by
    rw [List.reverse_cons, gTerms_append, gTerms_reverse f g xs]
    simp only [gTerms]; ring

/-- `mapRowTerms` without the dropping of zero coefficients -/
def rowG (f : Int → K) (g : Nat → K) : Nat → P → List Nat → List Int → K
  | key, qm :: q, c :: cs, mu :: ms => f (qm * (c : Int) * mu) * g key + rowG f g (key + 1) q cs ms
  | _, _, _, _ => 0

theorem gTerms_mapRowTerms (f : Int → K) (g : Nat → K) (hf : f 0 = 0) : ∀ (q : P) (key : Nat) (cs : List Nat)
    (ms : List Int), gTerms f g (mapRowTerms key q cs ms) = rowG f g key q cs ms
  | [], _, _, _ => by simp [mapRowTerms, rowG, gTerms]
  | _ :: _, _, [], _ => by simp [mapRowTerms, rowG, gTerms]
  | _ :: _, _, _ :: _, [] => by simp [mapRowTerms, rowG, gTerms]
  | qm :: q, key, c :: cs, mu :: ms => by
    have ih := gTerms_mapRowTerms f g hf q (key + 1) cs ms
    simp only [mapRowTerms, rowG]
    by_cases hv : qm * (c : Int) * mu = 0
    · simp only [hv, if_true, ih, hf, zero_mul, zero_add]
    · simp only [hv, if_false, gTerms, ih]

theorem rowG_eq_sum (f : Int → K) (g : Nat → K) : ∀ (q : P) (key : Nat) (cs : List Nat) (ms : List Int),
    q.length ≤ cs.length → q.length ≤ ms.length →
    rowG f g key q cs ms =
      ∑ s ∈ range q.length, f (q.getD s 0 * ((cs.getD s 0 : Nat) : Int) * ms.getD s 0) * g (key + s)
  | [], _, _, _, _, _ => by simp [rowG]
  | _ :: _, _, [], _, h, _ => by simp at h
  | _ :: _, _, _ :: _, [], _, h => by simp at h
  | qm :: q, key, c :: cs, mu :: ms, h1, h2 => by
    simp only [List.length_cons] at h1 h2
    have ih := rowG_eq_sum f g q (key + 1) cs ms (by omega) (by omega)
    rw [rowG, ih, List.length_cons, Finset.sum_range_succ']
    simp only [List.getD_cons_zero, List.getD_cons_succ, Nat.add_zero]
    rw [add_comm]
    congr 1
    apply Finset.sum_congr rfl
    intro s _
    congr 2; omega

/-- the terms of `mapAll` from row `a` on: `Σ_r Σ_s f(q_{r+s}·ds[r][s]·ms[s]) · g(fk + 128·(a+r) + s)` -/
theorem gTerms_mapAll (f : Int → K) (g : Nat → K) (hf : f 0 = 0) (fk : Nat) (ms : List Int) :
    ∀ (q : P) (a : Nat) (ds : List (List Nat)), q.length ≤ ds.length → (∀ d ∈ ds, q.length ≤ d.length) →
      q.length ≤ ms.length →
      gTerms f g (mapAll fk ms a q ds) =
        ∑ r ∈ range q.length, ∑ s ∈ range (q.length - r),
          f (q.getD (r + s) 0 * (((ds.getD r []).getD s 0 : Nat) : Int) * ms.getD s 0) * g (fk + 128 * (a + r) + s)
  | [], _, _, _, _, _ => by simp [mapAll, gTerms]
  | _ :: _, _, [], h, _, _ => by simp at h
  | b :: q, a, d :: ds, h1, h2, h3 => by
    have hd : (b :: q).length ≤ d.length := h2 d List.mem_cons_self
    have ih := gTerms_mapAll f g hf fk ms q (a + 1) ds (by simpa using h1)
      (fun d' hd' => le_trans (by simp) (h2 d' (List.mem_cons_of_mem _ hd'))) (le_trans (by simp) h3)
    rw [mapAll, gTerms_append, gTerms_mapRowTerms f g hf, rowG_eq_sum f g _ _ _ _ hd h3, ih]
    simp only [List.length_cons]
    conv_rhs => rw [Finset.sum_range_succ']
    simp only [List.getD_cons_zero, Nat.add_zero, Nat.zero_add, Nat.sub_zero]
    rw [add_comm]
    congr 1
    apply Finset.sum_congr rfl
    intro r _
    have e1 : q.length + 1 - (r + 1) = q.length - r := by omega
    rw [e1]
    apply Finset.sum_congr rfl
    intro s _
    have e2 : r + 1 + s = (r + s) + 1 := by omega
    have e3 : a + 1 + r = a + (r + 1) := by omega
    rw [e2, List.getD_cons_succ, List.getD_cons_succ, e3]

theorem psums_length : ∀ (l : List Nat) (acc : Nat), (psums acc l).length = l.length
  | [], _ => rfl
  | _ :: l, acc => by simp [psums, psums_length l]

theorem diagsFrom_mem_length : ∀ (m : Nat) (d0 d : List Nat), d ∈ diagsFrom d0 m → d.length = d0.length
  | 0, _, _, h => by simp [diagsFrom] at h
  | m + 1, d0, d, h => by
    rw [diagsFrom, List.mem_cons] at h
    rcases h with h | h
    · rw [h]
    · rw [diagsFrom_mem_length m _ d h, psums_length]

theorem diags_mem_length (d : List Nat) (h : d ∈ diags) : d.length = 31 := by
  rw [diagsFrom_mem_length 31 _ d h, List.length_replicate]

/-- **the term list of `mapWant`**, by total power `m` of `(c0, c1)` and power `k` of `c0`:
`Σ_{m<n} Σ_{k≤m} f(q_m·C(m,k)·ms[m−k]) · g(fk + 128·k + (m−k))` -/
theorem gTerms_mapWant (f : Int → K) (g : Nat → K) (hf : f 0 = 0) (fk : Nat) (ms : List Int) (q : P)
    (hq : q.length ≤ 31) (hms : ms.length = 31) :
    gTerms f g (mapWant fk ms q) =
      ∑ m ∈ range q.length, ∑ k ∈ range (m + 1),
        f (q.getD m 0 * ((Nat.choose m k : Nat) : Int) * ms.getD (m - k) 0) * g (fk + 128 * k + (m - k)) := by
  unfold mapWant
  rw [gTerms_reverse, gTerms_mapAll f g hf fk ms q 0 diags (by rw [diags_length]; exact hq)
    (fun d hd => by rw [diags_mem_length d hd]; exact hq) (by rw [hms]; exact hq)]
  have h1 : ∀ r ∈ range q.length, ∀ s ∈ range (q.length - r),
      f (q.getD (r + s) 0 * (((diags.getD r []).getD s 0 : Nat) : Int) * ms.getD s 0) * g (fk + 128 * (0 + r) + s)
        = f (q.getD (r + s) 0 * ((Nat.choose (r + s) s : Nat) : Int) * ms.getD s 0) * g (fk + 128 * r + s) := by
    intro r hr s hs
    have hr' := Finset.mem_range.1 hr
    have hs' := Finset.mem_range.1 hs
    rw [diags_getD r s (by omega) (by omega), Nat.zero_add]
  rw [Finset.sum_congr rfl (fun r hr => Finset.sum_congr rfl (h1 r hr))]
  rw [← Finset.sum_range_diag_flip q.length
    (fun r s => f (q.getD (r + s) 0 * ((Nat.choose (r + s) s : Nat) : Int) * ms.getD s 0) * g (fk + 128 * r + s))]
  apply Finset.sum_congr rfl
  intro m hm
  apply Finset.sum_congr rfl
  intro k hk
  have hk' : k ≤ m := by have := Finset.mem_range.1 hk; omega
  have e1 : k + (m - k) = m := by omega
  simp only [e1, Nat.choose_symm hk']

end generic

/-! ### the two readings: value and modulus -/

section readings
variable {K : Type} [Field K]

/-- `Σ_{m<n} Q_m · Σ_{k≤m} c0^k · c1^(m−k) · C(m,k) · M_{m−k}` — with `M_t = ∫ P(ξ) ξ^t dξ` this is
`∫ P(ξ) · Σ_m Q_m (c0 + c1·ξ)^m dξ` (`mapSum_eq_integral`) -/
def mapSum (n : Nat) (Q : Nat → K) (c0 c1 : K) (M : Nat → K) : K :=
  ∑ m ∈ range n, Q m * ∑ k ∈ range (m + 1), c0 ^ k * c1 ^ (m - k) * (Nat.choose m k : K) * M (m - k)

theorem mapSum_mul_left (n : Nat) (Q : Nat → K) (c0 c1 L : K) (M : Nat → K) :
    mapSum n Q c0 c1 (fun t => L * M t) = L * mapSum n Q c0 c1 M := by
  unfold mapSum
  rw [Finset.mul_sum]
  apply Finset.sum_congr rfl
  intro m _
  rw [Finset.mul_sum, Finset.mul_sum, Finset.mul_sum]
  apply Finset.sum_congr rfl
  intro k _
  ring

variable [CharZero K]

theorem mono_map (env : Nat → K) (fk k t : Nat) (hfk : dsum fk ≤ 2) (hk : k ≤ 60) (ht : t ≤ 60) :
    mono env (fk + 128 * k + t) = mono env fk * env 1 ^ k * env 0 ^ t := by
  obtain ⟨s1, s2⟩ := mono_small env t (by omega)
  obtain ⟨t1, t2⟩ := mono_step128 env k (by omega)
  have h1 : dsum fk + dsum (128 * k) ≤ 127 := by omega
  rw [mono_add env _ _ (by rw [dsum_add _ _ h1]; omega), mono_add env _ _ h1, s1, t1]

/-- **value of `mapWant`** in any field of characteristic 0: the flags times the binomial expansion -/
theorem evalTerms_mapWant (env : Nat → K) (i j : Nat) (ms : List Int) (q : P) (hq : q.length ≤ 31)
    (hms : ms.length = 31) :
    evalTerms env (mapWant (flagKey2 i j) ms q) =
      flagX env i * flagY env j *
        mapSum q.length (fun m => ((q.getD m 0 : Int) : K)) (env 1) (env 0) (fun t => ((ms.getD t 0 : Int) : K)) := by
  obtain ⟨f1, f2⟩ := mono_flagKey2 env i j
  rw [evalTerms_eq_gTerms, gTerms_mapWant _ _ (by simp) _ ms q hq hms]
  unfold mapSum
  rw [Finset.mul_sum]
  apply Finset.sum_congr rfl
  intro m hm
  have hm' := Finset.mem_range.1 hm
  rw [Finset.mul_sum, Finset.mul_sum]
  apply Finset.sum_congr rfl
  intro k hk
  have hk' := Finset.mem_range.1 hk
  rw [mono_map env _ k (m - k) f2 (by omega) (by omega), f1]
  push_cast; ring

end readings

section readingsOrdered
variable {K : Type} [Field K] [LinearOrder K] [IsStrictOrderedRing K]

theorem absTerms_eq_gTerms (env : Nat → K) : ∀ t : Terms,
    absTerms env t = gTerms (fun c => |(c : K)|) (fun k => |mono env k|) t
  | [] => rfl
  | x :: xs => by simp only [absTerms, gTerms, absTerms_eq_gTerms env xs]

/-- **modulus scale of `mapWant`**: the same expansion with every factor replaced by its modulus -/
theorem absTerms_mapWant (env : Nat → K) (i j : Nat) (ms : List Int) (q : P) (hq : q.length ≤ 31)
    (hms : ms.length = 31) :
    absTerms env (mapWant (flagKey2 i j) ms q) =
      |flagX env i * flagY env j| *
        mapSum q.length (fun m => |((q.getD m 0 : Int) : K)|) |env 1| |env 0| (fun t => |((ms.getD t 0 : Int) : K)|) := by
  obtain ⟨f1, f2⟩ := mono_flagKey2 env i j
  rw [absTerms_eq_gTerms, gTerms_mapWant _ _ (by simp) _ ms q hq hms]
  unfold mapSum
  rw [Finset.mul_sum]
  apply Finset.sum_congr rfl
  intro m hm
  have hm' := Finset.mem_range.1 hm
  rw [Finset.mul_sum, Finset.mul_sum]
  apply Finset.sum_congr rfl
  intro k hk
  have hk' := Finset.mem_range.1 hk
  rw [mono_map env _ k (m - k) f2 (by omega) (by omega), f1]
  simp only [Int.cast_mul, Int.cast_natCast, abs_mul, abs_pow, Nat.abs_cast]
  ring

end readingsOrdered

/-! ### the expansion is the integral (real analysis) -/

theorem evalFrom_eq_sum {K : Type} [Field K] (x : K) : ∀ (q : P) (k : Nat),
    evalFrom x k q = ∑ m ∈ range q.length, ((q.getD m 0 : Int) : K) * x ^ (k + m)
  | [], _ => by simp [evalFrom]
  | c :: q, k => by
    rw [evalFrom, evalFrom_eq_sum x q (k + 1), List.length_cons, Finset.sum_range_succ']
    simp only [List.getD_cons_zero, List.getD_cons_succ, Nat.add_zero]
    rw [add_comm]
    congr 1
    apply Finset.sum_congr rfl
    intro m _
    congr 2; omega

theorem evalP_eq_sum {K : Type} [Field K] (x : K) (q : P) :
    evalP x q = ∑ m ∈ range q.length, ((q.getD m 0 : Int) : K) * x ^ m := by
  rw [evalP, evalFrom_eq_sum]
  simp only [Nat.zero_add]

/-- **the binomial theorem under the integral sign**: with the moments `M_t = L·∫_{-1}^{1} P(ξ)·ξ^t dξ`,
`Σ_m Q_m Σ_{k≤m} c0^k c1^(m−k) C(m,k) M_{m−k} = L·∫_{-1}^{1} P(ξ) · Σ_m Q_m (c0 + c1·ξ)^m dξ` -/
theorem mapSum_eq_integral (Pf : ℝ → ℝ) (hP : Continuous Pf) (n : Nat) (Q : Nat → ℝ) (c0 c1 L : ℝ) :
    mapSum n Q c0 c1 (fun t => L * ∫ x in (-1 : ℝ)..1, Pf x * x ^ t) =
      L * ∫ x in (-1 : ℝ)..1, Pf x * ∑ m ∈ range n, Q m * (c0 + c1 * x) ^ m := by
  rw [mapSum_mul_left]
  congr 1
  have hpt : ∀ x : ℝ, Pf x * ∑ m ∈ range n, Q m * (c0 + c1 * x) ^ m =
      ∑ m ∈ range n, ∑ k ∈ range (m + 1), (Q m * (c0 ^ k * c1 ^ (m - k) * (Nat.choose m k : ℝ))) * (Pf x * x ^ (m - k)) := by
    intro x
    rw [Finset.mul_sum]
    apply Finset.sum_congr rfl
    intro m _
    rw [add_pow, Finset.mul_sum, Finset.mul_sum]
    apply Finset.sum_congr rfl
    intro k _
    rw [mul_pow]; ring
  simp only [hpt]
  unfold mapSum
  rw [integral_finsetSum (fun m _ => Continuous.intervalIntegrable (by fun_prop) _ _)]
  apply Finset.sum_congr rfl
  intro m _
  rw [integral_finsetSum (fun k _ => Continuous.intervalIntegrable (by fun_prop) _ _), Finset.mul_sum]
  apply Finset.sum_congr rfl
  intro k _
  rw [integral_const_mul]; ring

/-- **the mapped-argument exact side is the integral**:
`evalTerms env (mapWant (flagKey2 i j) (mus p) q) = flag_i·flag_j·intL·∫_{-1}^{1} p(ξ)·q(c0 + c1·ξ) dξ`
with `c0 = env 1`, `c1 = env 0`, for integer coefficient lists of length `≤ 31` -/
theorem evalTerms_mapWant_real (env : Nat → ℝ) (i j : Nat) (p q : P) (hp : p.length ≤ 31) (hq : q.length ≤ 31) :
    evalTerms env (mapWant (flagKey2 i j) (mus p) q) =
      flagX env i * flagY env j * (intL : ℝ) * ∫ x in (-1 : ℝ)..1, evalP x p * evalP (env 1 + env 0 * x) q := by
  rw [evalTerms_mapWant env i j (mus p) q hq (mus_length p)]
  have hM : mapSum q.length (fun m => ((q.getD m 0 : Int) : ℝ)) (env 1) (env 0) (fun t => (((mus p).getD t 0 : Int) : ℝ))
      = mapSum q.length (fun m => ((q.getD m 0 : Int) : ℝ)) (env 1) (env 0)
          (fun t => (intL : ℝ) * ∫ x in (-1 : ℝ)..1, evalP x p * x ^ t) := by
    unfold mapSum
    apply Finset.sum_congr rfl
    intro m hm
    have hm' := Finset.mem_range.1 hm
    congr 1
    apply Finset.sum_congr rfl
    intro k hk
    have hk' := Finset.mem_range.1 hk
    beta_reduce
    rw [mus_getD_real p (m - k) (by omega) (by omega)]
  rw [hM, mapSum_eq_integral _ (continuous_evalP p)]
  simp only [evalP_eq_sum (_ + _) q]
  ring

/-- the binomial expansion of `∫_{-1}^{1} p(ξ)·q(c0 + c1·ξ) dξ` with every term replaced by its modulus:
`Σ_m |q_m| · Σ_{k≤m} |c0|^k · |c1|^(m−k) · C(m,k) · |∫_{-1}^{1} p(ξ)·ξ^(m−k) dξ|`.
For `|c0| + |c1| ≤ 1` it is at most `(Σ_m |q_m|) · max_t |∫ p(ξ) ξ^t dξ|`. -/
noncomputable def absMapOf (c0 c1 : ℝ) (p q : P) : ℝ :=
  mapSum q.length (fun m => |((q.getD m 0 : Int) : ℝ)|) |c0| |c1| (fun t => |∫ x in (-1 : ℝ)..1, evalP x p * x ^ t|)

theorem absMapOf_nonneg (c0 c1 : ℝ) (p q : P) : 0 ≤ absMapOf c0 c1 p q := by
  unfold absMapOf mapSum
  apply Finset.sum_nonneg
  intro m _
  apply mul_nonneg (abs_nonneg _)
  apply Finset.sum_nonneg
  intro k _
  positivity

theorem absTerms_mapWant_real (env : Nat → ℝ) (i j : Nat) (p q : P) (hp : p.length ≤ 31) (hq : q.length ≤ 31) :
    absTerms env (mapWant (flagKey2 i j) (mus p) q) =
      |flagX env i * flagY env j| * (intL : ℝ) * absMapOf (env 1) (env 0) p q := by
  rw [absTerms_mapWant env i j (mus p) q hq (mus_length p)]
  have hL : (0 : ℝ) ≤ (intL : ℝ) := Nat.cast_nonneg _
  have hM : mapSum q.length (fun m => |((q.getD m 0 : Int) : ℝ)|) |env 1| |env 0| (fun t => |(((mus p).getD t 0 : Int) : ℝ)|)
      = mapSum q.length (fun m => |((q.getD m 0 : Int) : ℝ)|) |env 1| |env 0|
          (fun t => (intL : ℝ) * |∫ x in (-1 : ℝ)..1, evalP x p * x ^ t|) := by
    unfold mapSum
    apply Finset.sum_congr rfl
    intro m hm
    have hm' := Finset.mem_range.1 hm
    congr 1
    apply Finset.sum_congr rfl
    intro k hk
    have hk' := Finset.mem_range.1 hk
    beta_reduce
    rw [mus_getD_real p (m - k) (by omega) (by omega), abs_mul, abs_of_nonneg hL]
  rw [hM, mapSum_mul_left]
  unfold absMapOf
  ring

end Compmech.C10
