/-
Meaning of a passed `ruleOk` (`Bardell/Gauss.lean`): the quadrature rule with nodes `X_i/D` and weights
`W_i/D` integrates every polynomial of degree `≤ 2n−1` over `[−1,1]` with error at most
`(tn/td)·‖p‖₁` (`ruleOk_poly`), because every moment is within `tn/td` (`ruleOk_moment`).
-/
import CompmechVerif.Bardell.Gauss
import CompmechVerif.Bardell.Lemmas

set_option linter.unusedSectionVars false
set_option linter.unusedSimpArgs false
set_option linter.unusedVariables false

namespace Compmech.C10

section
variable {K : Type} [Field K] [LinearOrder K] [IsStrictOrderedRing K]

/-- `Σ_i (W_i/D)·f(X_i/D)` over the common prefix of nodes and weights -/
def quadK (D : Nat) (f : K → K) : List Int → List Int → K
  | x :: xs, w :: ws => (w : K) / (D : K) * f ((x : K) / (D : K)) + quadK D f xs ws
  | _, _ => 0

/-- `[W_i·X_i^k]` -/
def tsAt (k : Nat) : List Int → List Int → List Int
  | w :: ws, x :: xs => (w * x ^ k) :: tsAt k ws xs
  | _, _ => []

theorem tsAt_zero : ∀ (ws xs : List Int), ws.length = xs.length → tsAt 0 ws xs = ws
  | [], [], _ => rfl
  | [], _ :: _, h => by simp at h
  | _ :: _, [], h => by simp at h
  | w :: ws, x :: xs, h => by
    simp only [List.length_cons, Nat.add_right_cancel_iff] at h
    simp [tsAt, tsAt_zero ws xs h]

theorem stepT_tsAt (k : Nat) : ∀ (ws xs : List Int), stepT (tsAt k ws xs) xs = tsAt (k + 1) ws xs
  | [], _ => by cases ‹List Int› <;> simp [tsAt, stepT]
  | _ :: _, [] => by simp [tsAt, stepT]
  | w :: ws, x :: xs => by
    simp only [tsAt, stepT, stepT_tsAt k ws xs, pow_succ]
    congr 1; ring

theorem sumL_tsAt (D : Nat) (hD : 0 < D) (k : Nat) : ∀ (ws xs : List Int),
    ((sumL (tsAt k ws xs) : Int) : K) = (D : K) ^ (k + 1) * quadK D (fun x => x ^ k) xs ws
  | [], _ => by cases ‹List Int› <;> simp [tsAt, sumL, quadK]
  | _ :: _, [] => by simp [tsAt, sumL, quadK]
  | w :: ws, x :: xs => by
    have hD' : (D : K) ≠ 0 := by exact_mod_cast hD.ne'
    simp only [tsAt, sumL, quadK, Int.cast_add, Int.cast_mul, Int.cast_pow, sumL_tsAt D hD k ws xs, div_pow]
    field_simp
    ring

theorem momentsOk_sound (tn td D : Nat) (hD : 0 < D) (htd : 0 < td) (xs ws : List Int) : ∀ (cnt k : Nat),
    momentsOk tn td D xs cnt k (tsAt k ws xs) (D ^ (k + 1)) = true →
      ∀ j, j < cnt → |quadK D (fun x => x ^ (k + j)) xs ws - (moment (k + j) : K)| * (td : K) ≤ (tn : K)
  | 0, _, _, j, hj => absurd hj (Nat.not_lt_zero j)
  | cnt + 1, k, h, j, hj => by
    simp only [momentsOk, Bool.and_eq_true] at h
    obtain ⟨h1, h2⟩ := h
    rw [stepT_tsAt, ← pow_succ] at h2
    cases j with
    | succ j =>
      have := momentsOk_sound tn td D hD htd xs ws cnt (k + 1) h2 j (by omega)
      simpa [Nat.add_assoc, Nat.add_comm 1 j] using this
    | zero =>
      have hDK : (0 : K) < (D : K) ^ (k + 1) := by positivity
      have hS := sumL_tsAt (K := K) D hD k ws xs
      set S : Int := sumL (tsAt k ws xs)
      set Q : K := quadK D (fun x => x ^ k) xs ws
      simp only [Nat.add_zero]
      unfold moment
      by_cases hk : k % 2 = 0
      · simp only [hk, if_true, decide_eq_true_eq] at h1 ⊢
        have hc := (Nat.cast_le (α := K)).2 h1
        push_cast [Nat.cast_natAbs] at hc
        rw [hS] at hc
        have hk1 : (0 : K) < (k : K) + 1 := by positivity
        have e : (D : K) ^ (k + 1) * Q * ((k : K) + 1) - 2 * (D : K) ^ (k + 1)
            = ((D : K) ^ (k + 1) * ((k : K) + 1)) * (Q - 2 / ((k : K) + 1)) := by field_simp
        rw [e, abs_mul, abs_of_pos (by positivity : (0 : K) < (D : K) ^ (k + 1) * ((k : K) + 1))] at hc
        have : ((D : K) ^ (k + 1) * ((k : K) + 1)) * (|Q - 2 / ((k : K) + 1)| * (td : K))
            ≤ ((D : K) ^ (k + 1) * ((k : K) + 1)) * (tn : K) := by
          calc _ = (D : K) ^ (k + 1) * ((k : K) + 1) * |Q - 2 / ((k : K) + 1)| * (td : K) := by ring
            _ ≤ (tn : K) * ((k : K) + 1) * (D : K) ^ (k + 1) := hc
            _ = _ := by ring
        exact le_of_mul_le_mul_left this (by positivity)
      · simp only [hk, if_false, decide_eq_true_eq, sub_zero] at h1 ⊢
        have hc := (Nat.cast_le (α := K)).2 h1
        push_cast [Nat.cast_natAbs] at hc
        rw [hS, abs_mul, abs_of_pos hDK] at hc
        have : (D : K) ^ (k + 1) * (|Q| * (td : K)) ≤ (D : K) ^ (k + 1) * (tn : K) := by
          calc _ = (D : K) ^ (k + 1) * |Q| * (td : K) := by ring
            _ ≤ (tn : K) * (D : K) ^ (k + 1) := hc
            _ = _ := by ring
        exact le_of_mul_le_mul_left this hDK

/-- every moment `k < 2n` of a rule that passed `ruleOk` is within `tn/td` of `∫_{-1}^{1} ξ^k dξ` -/
theorem ruleOk_moment {tn td n D : Nat} {xs ws : List Int} (hD : 0 < D) (htd : 0 < td)
    (h : ruleOk tn td n D xs ws = true) (k : Nat) (hk : k < 2 * n) :
    |quadK D (fun x => x ^ k) xs ws - (moment k : K)| * (td : K) ≤ (tn : K) := by
  simp only [ruleOk, Bool.and_eq_true, beq_iff_eq] at h
  obtain ⟨⟨⟨⟨⟨⟨hx, hw⟩, _⟩, _⟩, _⟩, _⟩, hm⟩ := h
  have h0 : tsAt 0 ws xs = ws := tsAt_zero ws xs (by rw [hx, hw])
  have := momentsOk_sound (K := K) tn td D hD htd xs ws (2 * n) 0 (by simpa [h0] using hm) k hk
  simpa using this

/-- `Σ_j a_j·x^(k+j)` with coefficients in `K` -/
def polyFrom (x : K) : Nat → List K → K
  | _, [] => 0
  | k, a :: as => a * x ^ k + polyFrom x (k + 1) as

/-- `Σ_j a_j·m_{k+j}` — the exact integral over `[−1,1]` of `Σ_j a_j ξ^(k+j)` -/
def integFrom : Nat → List K → K
  | _, [] => 0
  | k, a :: as => a * moment k + integFrom (k + 1) as

def norm1 : List K → K
  | [] => 0
  | a :: as => |a| + norm1 as

theorem quadK_add (D : Nat) (f g : K → K) : ∀ (xs ws : List Int),
    quadK D (fun x => f x + g x) xs ws = quadK D f xs ws + quadK D g xs ws
  | [], _ => by simp [quadK]
  | _ :: _, [] => by simp [quadK]
  | x :: xs, w :: ws => by simp only [quadK, quadK_add D f g xs ws]; ring

theorem quadK_smul (D : Nat) (c : K) (f : K → K) : ∀ (xs ws : List Int),
    quadK D (fun x => c * f x) xs ws = c * quadK D f xs ws
  | [], _ => by simp [quadK]
  | _ :: _, [] => by simp [quadK]
  | x :: xs, w :: ws => by simp only [quadK, quadK_smul D c f xs ws]; ring

theorem quadK_zero (D : Nat) : ∀ (xs ws : List Int), quadK D (fun _ => (0 : K)) xs ws = 0
  | [], _ => by simp [quadK]
  | _ :: _, [] => by simp [quadK]
  | x :: xs, w :: ws => by simp [quadK, quadK_zero D xs ws]

/-- **a rule that passed `ruleOk` integrates every polynomial of degree `≤ 2n−1` exactly up to
`(tn/td)·‖p‖₁`** -/
theorem ruleOk_poly {tn td n D : Nat} {xs ws : List Int} (hD : 0 < D) (htd : 0 < td)
    (h : ruleOk tn td n D xs ws = true) : ∀ (a : List K) (k : Nat), k + a.length ≤ 2 * n →
      |quadK D (fun x => polyFrom x k a) xs ws - integFrom k a| * (td : K) ≤ (tn : K) * norm1 a
  | [], k, _ => by simp [polyFrom, integFrom, norm1, quadK_zero]
  | c :: a, k, hk => by
    simp only [List.length_cons] at hk
    have ih := ruleOk_poly hD htd h a (k + 1) (by omega)
    have hm := ruleOk_moment (K := K) hD htd h k (by omega)
    have e : quadK D (fun x => polyFrom x k (c :: a)) xs ws
        = c * quadK D (fun x => x ^ k) xs ws + quadK D (fun x => polyFrom x (k + 1) a) xs ws := by
      simp only [polyFrom]
      rw [quadK_add, quadK_smul]
    have htdK : (0 : K) ≤ (td : K) := Nat.cast_nonneg _
    rw [e]
    simp only [integFrom, norm1]
    calc |c * quadK D (fun x => x ^ k) xs ws + quadK D (fun x => polyFrom x (k + 1) a) xs ws
            - (c * moment k + integFrom (k + 1) a)| * (td : K)
        = |c * (quadK D (fun x => x ^ k) xs ws - moment k)
            + (quadK D (fun x => polyFrom x (k + 1) a) xs ws - integFrom (k + 1) a)| * (td : K) := by ring_nf
      _ ≤ (|c| * |quadK D (fun x => x ^ k) xs ws - moment k|
            + |quadK D (fun x => polyFrom x (k + 1) a) xs ws - integFrom (k + 1) a|) * (td : K) := by
          apply mul_le_mul_of_nonneg_right _ htdK
          calc _ ≤ |c * (quadK D (fun x => x ^ k) xs ws - moment k)|
                    + |quadK D (fun x => polyFrom x (k + 1) a) xs ws - integFrom (k + 1) a| := abs_add_le _ _
            _ = _ := by rw [abs_mul]
      _ = |c| * (|quadK D (fun x => x ^ k) xs ws - moment k| * (td : K))
            + |quadK D (fun x => polyFrom x (k + 1) a) xs ws - integFrom (k + 1) a| * (td : K) := by ring
      _ ≤ |c| * (tn : K) + (tn : K) * norm1 a := by
          apply add_le_add _ ih
          exact mul_le_mul_of_nonneg_left hm (abs_nonneg c)
      _ = (tn : K) * (|c| + norm1 a) := by ring

end

end Compmech.C10
