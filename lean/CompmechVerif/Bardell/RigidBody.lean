/-
Rigid-body content of the exact Bardell basis (used by the total-mass clause of C04).

The two translation Hermite functions sum to the constant one, `u₀(ξ) + u₂(ξ) = 1` — a polynomial identity decided on the
coefficient lists of `Bardell/Basis.lean` (`hermite_translation_coeffs`) — so their derivatives of every order `≥ 1` sum to
zero.  Consequences for the exact integrals `Jint ξ₁ ξ₂ d₁ i d₂ k = ∫_{ξ₁}^{ξ₂} D^{d₁}u_i · D^{d₂}u_k` (real interval integrals of
Mathlib), summed over `i, k ∈ {0, 2}`:

  `Jint_sum_00 : Σ J 0 0 = ξ₂ − ξ₁` (`= 2` on the whole edge `[−1, 1]`),   `Jint_sum_01/10/11/…  : Σ J d₁ d₂ = 0` for `d₁ + d₂ ≥ 1`.

The same sums on the whole edge are ALSO decided by the kernel on the fraction-free exact integrals `jnum` of
`Bardell/Exact.lean` (`jnum_sum_00 … jnum_sum_11`), and `Jint_full_eq_jnum` ties `jnum` to the real integral, which gives a
second, independent derivation (`Jint_full_sum_00_exact` …).

`dbasis_hasDerivAt`: `dbasis (d+1) i` IS the derivative of `dbasis d i` as a real function (the formal derivative on
coefficient lists is the derivative of analysis), so `D^d` above is the `d`-th derivative.
-/
import CompmechVerif.Bardell.Lifts
import Mathlib.Analysis.Calculus.Deriv.Pow
import Mathlib.Analysis.Calculus.Deriv.Add
import Mathlib.Analysis.Calculus.Deriv.Mul

set_option linter.unusedSimpArgs false
set_option linter.unusedSectionVars false
set_option linter.unusedVariables false

namespace Compmech.C10
open Compmech IPoly intervalIntegral
open scoped BigOperators

/-! ### the polynomial identity on the coefficient lists -/

/-- `8·u₀ + 8·u₂ = 8` coefficient-wise, common denominator `8`; first and second derivatives sum to the zero list -/
theorem hermite_translation_coeffs :
    IPoly.add (basis 0).num (basis 2).num = [8, 0, 0, 0] ∧ (basis 0).den = 8 ∧ (basis 2).den = 8 ∧
    IPoly.add (dbasis 1 0).num (dbasis 1 2).num = [0, 0, 0] ∧
    IPoly.add (dbasis 2 0).num (dbasis 2 2).num = [0, 0] ∧
    IPoly.add (dbasis 3 0).num (dbasis 3 2).num = [0] := by
  decide +kernel

section field
variable {K : Type} [Field K] [CharZero K]

theorem evalFrom_add_rb (x : K) : ∀ (p q : P) (k : Nat), evalFrom x k (IPoly.add p q) = evalFrom x k p + evalFrom x k q
  | [], q, k => by simp [IPoly.add, evalFrom]
  | a :: p, [], k => by simp [IPoly.add, evalFrom]
  | a :: p, b :: q, k => by
    simp only [IPoly.add, evalFrom, evalFrom_add_rb x p q (k + 1), Int.cast_add]; ring

/-- the value of a sum of two functions with the same denominator is the value of the summed coefficient list -/
theorem QP.eval_add_eval (p q : QP) (h : p.den = q.den) (x : K) :
    p.eval x + q.eval x = evalP x (IPoly.add p.num q.num) / (p.den : K) := by
  simp only [QP.eval, evalP, evalFrom_add_rb, h, add_div]

/-- **`u₀(ξ) + u₂(ξ) = 1` for all `ξ`** (in any field of characteristic zero) -/
theorem hermite_translation_sum (x : K) : (basis 0).eval x + (basis 2).eval x = 1 := by
  rw [QP.eval_add_eval (basis 0) (basis 2) rfl, hermite_translation_coeffs.1, hermite_translation_coeffs.2.1]
  simp [evalP, evalFrom]

/-- `u₀′ + u₂′ = 0` -/
theorem hermite_translation_sum_d1 (x : K) : (dbasis 1 0).eval x + (dbasis 1 2).eval x = 0 := by
  rw [QP.eval_add_eval (dbasis 1 0) (dbasis 1 2) rfl, hermite_translation_coeffs.2.2.2.1]
  simp [evalP, evalFrom]

/-- `u₀″ + u₂″ = 0` -/
theorem hermite_translation_sum_d2 (x : K) : (dbasis 2 0).eval x + (dbasis 2 2).eval x = 0 := by
  rw [QP.eval_add_eval (dbasis 2 0) (dbasis 2 2) rfl, hermite_translation_coeffs.2.2.2.2.1]
  simp [evalP, evalFrom]

/-- the sum of the `d`-th derivatives of the two translation functions: the constant `1` for `d = 0`, zero for `d = 1, 2` -/
theorem hermite_translation_sum_d (d : Nat) (hd : d ≤ 2) (x : K) :
    (dbasis d 0).eval x + (dbasis d 2).eval x = if d = 0 then 1 else 0 := by
  interval_cases d
  · exact hermite_translation_sum x
  · exact hermite_translation_sum_d1 x
  · exact hermite_translation_sum_d2 x

end field

/-! ### real integrals -/

/-- `∫_{ξ₁}^{ξ₂} D^{d₁}u_i(ξ) · D^{d₂}u_k(ξ) dξ` (unit flags) -/
noncomputable def Jint (ξ₁ ξ₂ : ℝ) (d₁ i d₂ k : Nat) : ℝ :=
  ∫ x in ξ₁..ξ₂, (dbasis d₁ i).eval x * (dbasis d₂ k).eval x

theorem continuous_dbasis_eval (d i : Nat) : Continuous fun x : ℝ => (dbasis d i).eval x := by
  simp only [QP.eval]
  exact (continuous_evalP _).div_const _

theorem Jint_comm (ξ₁ ξ₂ : ℝ) (d₁ i d₂ k : Nat) : Jint ξ₁ ξ₂ d₁ i d₂ k = Jint ξ₁ ξ₂ d₂ k d₁ i := by
  simp only [Jint, mul_comm]

/-- the four integrals over the pairs of translation functions add up to the integral of the product of the sums -/
theorem Jint_sum (ξ₁ ξ₂ : ℝ) (d₁ d₂ : Nat) :
    ∑ i ∈ ({0, 2} : Finset Nat), ∑ k ∈ ({0, 2} : Finset Nat), Jint ξ₁ ξ₂ d₁ i d₂ k
      = ∫ x in ξ₁..ξ₂, ((dbasis d₁ 0).eval x + (dbasis d₁ 2).eval x) * ((dbasis d₂ 0).eval x + (dbasis d₂ 2).eval x) := by
  have c := continuous_dbasis_eval
  have ii : ∀ (a b c' d' : Nat), IntervalIntegrable (fun x : ℝ => (dbasis a b).eval x * (dbasis c' d').eval x)
      MeasureTheory.volume ξ₁ ξ₂ := fun a b c' d' => ((c a b).mul (c c' d')).intervalIntegrable _ _
  simp only [Finset.sum_pair (by decide : (0 : Nat) ≠ 2), Jint]
  rw [← integral_add (ii _ _ _ _) (ii _ _ _ _), ← integral_add (ii _ _ _ _) (ii _ _ _ _),
    ← integral_add ((ii _ _ _ _).add (ii _ _ _ _)) ((ii _ _ _ _).add (ii _ _ _ _))]
  congr 1
  funext x
  ring

/-- `Σ_{i,k ∈ {0,2}} ∫_{ξ₁}^{ξ₂} u_i u_k = ∫ 1 = ξ₂ − ξ₁` -/
theorem Jint_sum_00 (ξ₁ ξ₂ : ℝ) :
    ∑ i ∈ ({0, 2} : Finset Nat), ∑ k ∈ ({0, 2} : Finset Nat), Jint ξ₁ ξ₂ 0 i 0 k = ξ₂ - ξ₁ := by
  rw [Jint_sum]
  have e : ∀ x : ℝ, (dbasis 0 0).eval x + (dbasis 0 2).eval x = 1 := fun x => hermite_translation_sum x
  simp only [e, mul_one, integral_const, smul_eq_mul]

/-- every sum with a derivative in it vanishes: it integrates the derivative of the constant one -/
theorem Jint_sum_of_deriv (ξ₁ ξ₂ : ℝ) (d₁ d₂ : Nat) (h₁ : d₁ ≤ 2) (h₂ : d₂ ≤ 2) (h : d₁ ≠ 0 ∨ d₂ ≠ 0) :
    ∑ i ∈ ({0, 2} : Finset Nat), ∑ k ∈ ({0, 2} : Finset Nat), Jint ξ₁ ξ₂ d₁ i d₂ k = 0 := by
  rw [Jint_sum]
  simp only [hermite_translation_sum_d d₁ h₁, hermite_translation_sum_d d₂ h₂]
  rcases h with h | h <;> simp [h]

theorem Jint_sum_01 (ξ₁ ξ₂ : ℝ) :
    ∑ i ∈ ({0, 2} : Finset Nat), ∑ k ∈ ({0, 2} : Finset Nat), Jint ξ₁ ξ₂ 0 i 1 k = 0 :=
  Jint_sum_of_deriv ξ₁ ξ₂ 0 1 (by norm_num) (by norm_num) (Or.inr (by norm_num))

theorem Jint_sum_10 (ξ₁ ξ₂ : ℝ) :
    ∑ i ∈ ({0, 2} : Finset Nat), ∑ k ∈ ({0, 2} : Finset Nat), Jint ξ₁ ξ₂ 1 i 0 k = 0 :=
  Jint_sum_of_deriv ξ₁ ξ₂ 1 0 (by norm_num) (by norm_num) (Or.inl (by norm_num))

theorem Jint_sum_11 (ξ₁ ξ₂ : ℝ) :
    ∑ i ∈ ({0, 2} : Finset Nat), ∑ k ∈ ({0, 2} : Finset Nat), Jint ξ₁ ξ₂ 1 i 1 k = 0 :=
  Jint_sum_of_deriv ξ₁ ξ₂ 1 1 (by norm_num) (by norm_num) (Or.inl (by norm_num))

/-- on the whole edge: `Σ_{i,k ∈ {0,2}} ∫_{-1}^{1} u_i u_k = 2` -/
theorem Jint_full_sum_00 :
    ∑ i ∈ ({0, 2} : Finset Nat), ∑ k ∈ ({0, 2} : Finset Nat), Jint (-1) 1 0 i 0 k = 2 := by
  rw [Jint_sum_00]; norm_num

/-! ### the same sums, decided by the kernel on the exact fraction-free integrals `jnum` -/

/-- `Σ_{i,k ∈ {0,2}} jnum(D^{d₁}u_i, D^{d₂}u_k)` over the common denominator `8·8·intL`: `2` for `d₁ = d₂ = 0`, else `0` -/
theorem jnum_sum_00 :
    jnum (dbasis 0 0).num (dbasis 0 0).num + jnum (dbasis 0 0).num (dbasis 0 2).num
      + jnum (dbasis 0 2).num (dbasis 0 0).num + jnum (dbasis 0 2).num (dbasis 0 2).num = 2 * (8 * 8 * (intL : Int)) := by
  decide +kernel

theorem jnum_sum_01 :
    jnum (dbasis 0 0).num (dbasis 1 0).num + jnum (dbasis 0 0).num (dbasis 1 2).num
      + jnum (dbasis 0 2).num (dbasis 1 0).num + jnum (dbasis 0 2).num (dbasis 1 2).num = 0 := by
  decide +kernel

theorem jnum_sum_10 :
    jnum (dbasis 1 0).num (dbasis 0 0).num + jnum (dbasis 1 0).num (dbasis 0 2).num
      + jnum (dbasis 1 2).num (dbasis 0 0).num + jnum (dbasis 1 2).num (dbasis 0 2).num = 0 := by
  decide +kernel

theorem jnum_sum_11 :
    jnum (dbasis 1 0).num (dbasis 1 0).num + jnum (dbasis 1 0).num (dbasis 1 2).num
      + jnum (dbasis 1 2).num (dbasis 1 0).num + jnum (dbasis 1 2).num (dbasis 1 2).num = 0 := by
  decide +kernel

/-- the denominators of the first four functions (and of their derivatives) are `8` -/
theorem hermite_den (d i : Nat) (hi : i < 4) : (dbasis d i).den = 8 := by
  interval_cases i <;> rfl

/-- **the whole-edge real integral is the exact fraction** `jnum / (den_i · den_k · intL)` -/
theorem Jint_full_eq_jnum (d₁ i d₂ k : Nat) (hi : i < 30) (hk : k < 30) :
    Jint (-1) 1 d₁ i d₂ k
      = (jnum (dbasis d₁ i).num (dbasis d₂ k).num : ℝ) / (((dbasis d₁ i).den : ℝ) * ((dbasis d₂ k).den : ℝ) * (intL : ℝ)) := by
  have hp := dbasis_den_pos d₁ i
  have hq := dbasis_den_pos d₂ k
  have hl : (dbasis d₁ i).num.length + (dbasis d₂ k).num.length ≤ 64 := by
    have := dbasis_length d₁ i hi; have := dbasis_length d₂ k hk; omega
  have hL : (intL : ℝ) ≠ 0 := intL_ne_zero
  have hp' : ((dbasis d₁ i).den : ℝ) ≠ 0 := by exact_mod_cast hp.ne'
  have hq' : ((dbasis d₂ k).den : ℝ) ≠ 0 := by exact_mod_cast hq.ne'
  unfold Jint
  simp only [QP.eval_mul_eval _ _ hp hq]
  rw [integral_div, ← integ11_eq_integral, jnum_eq _ _ hl]
  field_simp

/-- second derivation of `Σ J 0 0 = 2` on the whole edge: kernel arithmetic on `jnum` + `jnum = intL · ∫` -/
theorem Jint_full_sum_00_exact :
    ∑ i ∈ ({0, 2} : Finset Nat), ∑ k ∈ ({0, 2} : Finset Nat), Jint (-1) 1 0 i 0 k = 2 := by
  have hL : (intL : ℝ) ≠ 0 := intL_ne_zero
  have h := congrArg (fun z : Int => (z : ℝ)) jnum_sum_00
  simp only [Int.cast_add, Int.cast_mul, Int.cast_ofNat, Int.cast_natCast] at h
  simp only [Finset.sum_pair (by decide : (0 : Nat) ≠ 2), Jint_full_eq_jnum _ _ _ _ (by norm_num : 0 < 30) (by norm_num : 0 < 30),
    Jint_full_eq_jnum _ _ _ _ (by norm_num : 0 < 30) (by norm_num : 2 < 30),
    Jint_full_eq_jnum _ _ _ _ (by norm_num : 2 < 30) (by norm_num : 0 < 30),
    Jint_full_eq_jnum _ _ _ _ (by norm_num : 2 < 30) (by norm_num : 2 < 30),
    hermite_den _ _ (by norm_num : 0 < 4), hermite_den _ _ (by norm_num : 2 < 4)]
  field_simp
  push_cast
  linarith

/-- second derivation of `Σ J 1 1 = 0` on the whole edge -/
theorem Jint_full_sum_11_exact :
    ∑ i ∈ ({0, 2} : Finset Nat), ∑ k ∈ ({0, 2} : Finset Nat), Jint (-1) 1 1 i 1 k = 0 := by
  have hL : (intL : ℝ) ≠ 0 := intL_ne_zero
  have h := congrArg (fun z : Int => (z : ℝ)) jnum_sum_11
  simp only [Int.cast_add, Int.cast_zero] at h
  simp only [Finset.sum_pair (by decide : (0 : Nat) ≠ 2), Jint_full_eq_jnum _ _ _ _ (by norm_num : 0 < 30) (by norm_num : 0 < 30),
    Jint_full_eq_jnum _ _ _ _ (by norm_num : 0 < 30) (by norm_num : 2 < 30),
    Jint_full_eq_jnum _ _ _ _ (by norm_num : 2 < 30) (by norm_num : 0 < 30),
    Jint_full_eq_jnum _ _ _ _ (by norm_num : 2 < 30) (by norm_num : 2 < 30),
    hermite_den _ _ (by norm_num : 0 < 4), hermite_den _ _ (by norm_num : 2 < 4)]
  rw [← add_div, ← add_div, ← add_div]
  have : (jnum (dbasis 1 0).num (dbasis 1 0).num : ℝ) + (jnum (dbasis 1 0).num (dbasis 1 2).num : ℝ)
      + ((jnum (dbasis 1 2).num (dbasis 1 0).num : ℝ) + (jnum (dbasis 1 2).num (dbasis 1 2).num : ℝ)) = 0 := by linarith
  rw [this, zero_div]

/-! ### the formal derivative is the derivative -/

theorem derivN_deriv : ∀ (d : Nat) (p : P), derivN d (IPoly.deriv p) = IPoly.deriv (derivN d p)
  | 0, _ => rfl
  | d + 1, p => by
    show derivN d (IPoly.deriv (IPoly.deriv p)) = IPoly.deriv (derivN d (IPoly.deriv p))
    exact derivN_deriv d (IPoly.deriv p)

theorem hasDerivAt_evalFrom (x : ℝ) : ∀ (p : P) (k : Nat),
    HasDerivAt (fun y : ℝ => evalFrom y (k + 1) p) (evalFrom x k (derivFrom (k + 1) p)) x
  | [], k => by simpa [evalFrom, derivFrom] using hasDerivAt_const x (0 : ℝ)
  | c :: p, k => by
    have ih := hasDerivAt_evalFrom x p (k + 1)
    have h1 : HasDerivAt (fun y : ℝ => (c : ℝ) * y ^ (k + 1)) ((c : ℝ) * (((k + 1 : Nat) : ℝ) * x ^ k)) x := by
      simpa using (hasDerivAt_pow (k + 1) x).const_mul (c : ℝ)
    simp only [evalFrom, derivFrom]
    refine (h1.fun_add ih).congr_deriv ?_
    push_cast; ring

theorem hasDerivAt_evalP (x : ℝ) : ∀ p : P, HasDerivAt (fun y : ℝ => evalP y p) (evalP x (IPoly.deriv p)) x
  | [] => by simpa [evalP, evalFrom, IPoly.deriv] using hasDerivAt_const x (0 : ℝ)
  | c :: p => by
    have h := hasDerivAt_evalFrom x p 0
    have h0 : HasDerivAt (fun y : ℝ => (c : ℝ) * y ^ 0) 0 x := by simpa using hasDerivAt_const x (c : ℝ)
    simp only [evalP, evalFrom, IPoly.deriv]
    exact (h0.fun_add h).congr_deriv (zero_add _)

/-- **`dbasis (d+1) i` is the derivative of `dbasis d i`** as a function of the real variable -/
theorem dbasis_hasDerivAt (d i : Nat) (x : ℝ) :
    HasDerivAt (fun y : ℝ => (dbasis d i).eval y) ((dbasis (d + 1) i).eval x) x := by
  have h := (hasDerivAt_evalP x (dbasis d i).num).div_const ((dbasis d i).den : ℝ)
  have e : (dbasis (d + 1) i).num = IPoly.deriv (dbasis d i).num := by
    show derivN d (IPoly.deriv (basis i).num) = IPoly.deriv (derivN d (basis i).num)
    exact derivN_deriv d _
  simp only [QP.eval, e]
  exact h

end Compmech.C10
