/-
What the *wanted* term lists of `Bardell/Check.lean` mean as values (in any field / ordered field):

  `evalTerms_funcWant`  : `flag_i · Σ_k (D^d u_i)_k ξ^k`
  `evalTerms_fullWant`  : `flag_i · flag_j · jnum`,  `jnum_eq` : `jnum p q = intL · Σ_{a,b} p_a q_b m_{a+b}`
                          with `m_k = ∫_{-1}^{1} ξ^k dξ` (`moment`, `moment_eq_integral`)
  `evalTerms_subWant`   : `flag_i · flag_j · intL · (A(ξ₂) − A(ξ₁))`, `A = Σ_k c_k ξ^{k+1}/(k+1)`, `c = p·q`

together with the corresponding `absTerms` (the scale of the error bound).
-/
import Mathlib.Data.Nat.Cast.Field
import CompmechVerif.Core.CExprLemmas

set_option linter.unusedSectionVars false
set_option linter.unusedSimpArgs false
set_option linter.unnecessarySeqFocus false
set_option linter.unusedVariables false

namespace Compmech.C10
open Compmech IPoly

section field
variable {K : Type} [Field K]

/-- `Σ_j p_j · x^(k+j)` -/
def evalFrom (x : K) : Nat → P → K
  | _, [] => 0
  | k, c :: p => (c : K) * x ^ k + evalFrom x (k + 1) p

/-- value of an integer-coefficient polynomial (ascending coefficients) -/
def evalP (x : K) (p : P) : K := evalFrom x 0 p

/-- value of `(Σ num_k ξ^k)/den` -/
def QP.eval (p : QP) (x : K) : K := evalP x p.num / (p.den : K)

/-- the flag multiplying function `i` of a one-index table (variables 2..5), `1` for `i ≥ 4` -/
def flag1 (env : Nat → K) (i : Nat) : K := if i < 4 then env (2 + i) else 1

/-- the x-flag of index `i` (variables 2..5) -/
def flagX (env : Nat → K) (i : Nat) : K := if i < 4 then env (2 + i) else 1

/-- the y-flag of index `j` (variables 6..9) -/
def flagY (env : Nat → K) (j : Nat) : K := if j < 4 then env (6 + j) else 1

theorem mono_small (env : Nat → K) (k : Nat) (h : k < 128) : mono env k = env 0 ^ k ∧ dsum k = k := by
  have h1 : k % 128 = k := Nat.mod_eq_of_lt h
  have h2 : k / 128 = 0 := Nat.div_eq_of_lt h
  constructor
  · show monoL env 10 0 k = _
    simp only [monoL, h1, h2]
    simp [monoL_zero]
  · show dsumL 10 k = _
    simp only [dsumL, h1, h2]
    simp [dsumL_zero]

theorem mono_flagKey1 (env : Nat → K) (i : Nat) :
    mono env (flagKey1 i) = flag1 env i ∧ dsum (flagKey1 i) ≤ 1 := by
  unfold flagKey1 flag1
  by_cases h : i < 4
  · simp only [h, if_true]
    exact ⟨mono_var env (2 + i) (by omega), le_of_eq (dsum_var (2 + i) (by omega))⟩
  · simp [h, mono_zero, dsum_zero]

theorem mono_flagKey2 (env : Nat → K) (i j : Nat) :
    mono env (flagKey2 i j) = flagX env i * flagY env j ∧ dsum (flagKey2 i j) ≤ 2 := by
  have hx : mono env (if i < 4 then 128 ^ (2 + i) else 0) = flagX env i ∧
      dsum (if i < 4 then 128 ^ (2 + i) else 0) ≤ 1 := by
    unfold flagX
    by_cases h : i < 4
    · simp only [h, if_true]
      exact ⟨mono_var env (2 + i) (by omega), le_of_eq (dsum_var (2 + i) (by omega))⟩
    · simp [h, mono_zero, dsum_zero]
  have hy : mono env (if j < 4 then 128 ^ (6 + j) else 0) = flagY env j ∧
      dsum (if j < 4 then 128 ^ (6 + j) else 0) ≤ 1 := by
    unfold flagY
    by_cases h : j < 4
    · simp only [h, if_true]
      exact ⟨mono_var env (6 + j) (by omega), le_of_eq (dsum_var (6 + j) (by omega))⟩
    · simp [h, mono_zero, dsum_zero]
  unfold flagKey2
  have hs : dsum (if i < 4 then 128 ^ (2 + i) else 0) + dsum (if j < 4 then 128 ^ (6 + j) else 0) ≤ 127 := by omega
  exact ⟨by rw [mono_add env _ _ hs, hx.1, hy.1], by rw [dsum_add _ _ hs]; omega⟩

theorem evalTerms_reverse (env : Nat → K) : ∀ t : Terms, evalTerms env t.reverse = evalTerms env t
  | [] => rfl
  | x :: xs => by
    rw [List.reverse_cons, evalTerms_append, evalTerms_reverse env xs]
    simp only [evalTerms]; ring

/-- `termsAsc key0 1 false k p` is `monomial(key0) · Σ_j p_j · ξ^(k+j)` (variable 0 = `ξ`) -/
theorem evalTerms_termsAsc1 (env : Nat → K) (key0 : Nat) (hk : dsum key0 ≤ 2) : ∀ (p : P) (k : Nat),
    k + p.length ≤ 120 →
      evalTerms env (termsAsc key0 1 false k p) = mono env key0 * evalFrom (env 0) k p
  | [], _, _ => by simp [termsAsc, evalTerms, evalFrom]
  | c :: p, k, h => by
    simp only [List.length_cons] at h
    have ih := evalTerms_termsAsc1 env key0 hk p (k + 1) (by omega)
    obtain ⟨m1, m2⟩ := mono_small env k (by omega)
    have hs : dsum key0 + dsum k ≤ 127 := by omega
    unfold termsAsc
    by_cases hc : c = 0
    · simp only [hc, if_true, ih, evalFrom]; simp
    · simp only [hc, if_false, evalTerms, ih, evalFrom, Nat.one_mul, mono_add env _ _ hs, m1]
      simp only [Bool.false_eq_true, if_false]; ring

end field

section ordered
variable {K : Type} [Field K] [LinearOrder K] [IsStrictOrderedRing K]

/-- `Σ_j |p_j| · |x|^(k+j)` -/
def absEvalFrom (x : K) : Nat → P → K
  | _, [] => 0
  | k, c :: p => |(c : K)| * |x| ^ k + absEvalFrom x (k + 1) p

/-- `Σ_k |p_k|·|x|^k` — for `|x| ≤ 1` at most the 1-norm of the coefficients -/
def absEvalP (x : K) (p : P) : K := absEvalFrom x 0 p

theorem absTerms_append (env : Nat → K) : ∀ a b : Terms, absTerms env (a ++ b) = absTerms env a + absTerms env b
  | [], b => by simp [absTerms]
  | x :: a, b => by simp [absTerms, absTerms_append env a b, add_assoc]

theorem absTerms_reverse (env : Nat → K) : ∀ t : Terms, absTerms env t.reverse = absTerms env t
  | [] => rfl
  | x :: xs => by
    rw [List.reverse_cons, absTerms_append, absTerms_reverse env xs]
    simp only [absTerms]; ring

theorem absTerms_termsAsc1 (env : Nat → K) (key0 : Nat) (hk : dsum key0 ≤ 2) : ∀ (p : P) (k : Nat),
    k + p.length ≤ 120 →
      absTerms env (termsAsc key0 1 false k p) = |mono env key0| * absEvalFrom (env 0) k p
  | [], _, _ => by simp [termsAsc, absTerms, absEvalFrom]
  | c :: p, k, h => by
    simp only [List.length_cons] at h
    have ih := absTerms_termsAsc1 env key0 hk p (k + 1) (by omega)
    obtain ⟨m1, m2⟩ := mono_small env k (by omega)
    have hs : dsum key0 + dsum k ≤ 127 := by omega
    unfold termsAsc
    by_cases hc : c = 0
    · simp only [hc, if_true, ih, absEvalFrom]; simp
    · simp only [hc, if_false, absTerms, ih, absEvalFrom, Nat.one_mul, mono_add env _ _ hs, m1]
      simp only [Bool.false_eq_true, if_false, abs_mul, abs_pow]; ring

end ordered

/-! ### lengths of the exact coefficient lists -/

theorem derivFrom_length : ∀ (k : Nat) (p : P), (derivFrom k p).length = p.length
  | _, [] => rfl
  | k, _ :: p => by simp [derivFrom, derivFrom_length (k + 1) p]

theorem deriv_length_le (p : P) : (deriv p).length ≤ p.length := by
  cases p with
  | nil => simp [deriv]
  | cons a p => simp [deriv, derivFrom_length]

theorem derivN_length_le : ∀ (d : Nat) (p : P), (derivN d p).length ≤ p.length
  | 0, _ => le_refl _
  | d + 1, p => le_trans (derivN_length_le d (deriv p)) (deriv_length_le p)

theorem basis_length (i : Nat) (hi : i < 30) : (basis i).num.length ≤ 30 := by
  match i, hi with
  | 0, _ => simp [basis]
  | 1, _ => simp [basis]
  | 2, _ => simp [basis]
  | 3, _ => simp [basis]
  | i + 4, h => simp [basis]; omega

theorem dbasis_length (d i : Nat) (hi : i < 30) : (dbasis d i).num.length ≤ 30 :=
  le_trans (derivN_length_le d _) (basis_length i hi)

section func
variable {K : Type} [Field K]

theorem evalTerms_funcWant (env : Nat → K) (d i : Nat) (hi : i < 30) :
    evalTerms env (funcWant d i).1 = flag1 env i * evalP (env 0) (dbasis d i).num := by
  obtain ⟨f1, f2⟩ := mono_flagKey1 env i
  have hl := dbasis_length d i hi
  simp only [funcWant, evalTerms_reverse]
  rw [evalTerms_termsAsc1 env _ (by omega) _ 0 (by omega), f1]; rfl

end func

section funcOrdered
variable {K : Type} [Field K] [LinearOrder K] [IsStrictOrderedRing K]

theorem absTerms_funcWant (env : Nat → K) (d i : Nat) (hi : i < 30) :
    absTerms env (funcWant d i).1 = |flag1 env i| * absEvalP (env 0) (dbasis d i).num := by
  obtain ⟨f1, f2⟩ := mono_flagKey1 env i
  have hl := dbasis_length d i hi
  simp only [funcWant, absTerms_reverse]
  rw [absTerms_termsAsc1 env _ (by omega) _ 0 (by omega), f1]; rfl

theorem evalTerms_fullWant (env : Nat → K) (i j : Nat) (p q : P) :
    evalTerms env (fullWant (flagKey2 i j) p q) = (jnum p q : K) * (flagX env i * flagY env j) ∧
    absTerms env (fullWant (flagKey2 i j) p q) = |(jnum p q : K)| * |flagX env i * flagY env j| := by
  obtain ⟨f1, _⟩ := mono_flagKey2 env i j
  unfold fullWant
  by_cases h : jnum p q = 0
  · simp [h, evalTerms, absTerms]
  · simp [h, evalTerms, absTerms, f1]

end funcOrdered

/-! ### `jnum` is `intL · Σ_{a,b} p_a q_b m_{a+b}` with `m_k = ∫_{-1}^{1} ξ^k dξ` -/

theorem dvd_lcmUpTo : ∀ (n m : Nat), 1 ≤ m → m ≤ n → m ∣ lcmUpTo n
  | 0, m, h1, h2 => by omega
  | n + 1, m, h1, h2 => by
    unfold lcmUpTo
    by_cases h : m = n + 1
    · rw [h]; exact Nat.dvd_lcm_right _ _
    · exact Nat.dvd_trans (dvd_lcmUpTo n m h1 (by omega)) (Nat.dvd_lcm_left _ _)

theorem dvd_intL (m : Nat) (h1 : 1 ≤ m) (h2 : m ≤ 64) : m ∣ intL := dvd_lcmUpTo 64 m h1 h2

section moments
variable {K : Type} [Field K] [CharZero K]

/-- `∫_{-1}^{1} ξ^k dξ` (see `moment_eq_integral` in `Bardell/IntegralLemmas.lean`) -/
def moment (k : Nat) : K := if k % 2 = 0 then 2 / ((k : K) + 1) else 0

/-- `Σ_b q_b · m_{k+b}` -/
def dotMoment : Nat → P → K
  | _, [] => 0
  | k, b :: q => (b : K) * moment k + dotMoment (k + 1) q

/-- `Σ_a Σ_b p_a q_b · m_{k+a+b}`; for `k = 0` this is `∫_{-1}^{1} p(ξ) q(ξ) dξ` (`integ11_eq_integral`) -/
def integ11 : Nat → P → P → K
  | _, [], _ => 0
  | k, a :: p, q => (a : K) * dotMoment k q + integ11 (k + 1) p q

theorem cast_intL_div (m : Nat) (h1 : 1 ≤ m) (h2 : m ≤ 64) : ((intL / m : Nat) : K) = (intL : K) / (m : K) := by
  have hm : (m : K) ≠ 0 := by exact_mod_cast (by omega : m ≠ 0)
  rw [Nat.cast_div (dvd_intL m h1 h2) hm]

theorem dot_wtsFrom : ∀ (q : P) (k n : Nat), q.length ≤ n → k + n ≤ 64 →
    ((dot q (wtsFrom k n) : Int) : K) = (intL : K) * dotMoment k q
  | [], _, _, _, _ => by simp [dot, dotMoment]
  | b :: q, k, 0, h, _ => by simp at h
  | b :: q, k, n + 1, h, hk => by
    simp only [List.length_cons] at h
    have ih := dot_wtsFrom q (k + 1) n (by omega) (by omega)
    simp only [wtsFrom, dot, dotMoment, Int.cast_add, Int.cast_mul, ih]
    have hw : (((if k % 2 = 0 then ((2 * (intL / (k + 1)) : Nat) : Int) else 0) : Int) : K) = (intL : K) * moment k := by
      unfold moment
      by_cases hp : k % 2 = 0
      · simp only [hp, if_true]
        rw [Int.cast_natCast, Nat.cast_mul, cast_intL_div (k + 1) (by omega) (by omega)]
        push_cast; ring
      · simp [hp]
    rw [hw]; ring

theorem wtsFrom_tail (k n : Nat) : (wtsFrom k (n + 1)).tail = wtsFrom (k + 1) n := by
  simp [wtsFrom]

theorem jnumAux_wtsFrom : ∀ (p q : P) (k n : Nat), p.length + q.length ≤ n → k + n ≤ 64 →
    ((jnumAux p q (wtsFrom k n) : Int) : K) = (intL : K) * integ11 k p q
  | [], _, _, _, _, _ => by simp [jnumAux, integ11]
  | a :: p, q, k, 0, h, _ => by simp at h
  | a :: p, q, k, n + 1, h, hk => by
    simp only [List.length_cons] at h
    have ih := jnumAux_wtsFrom p q (k + 1) n (by omega) (by omega)
    have hd := dot_wtsFrom (K := K) q k (n + 1) (by omega) hk
    simp only [jnumAux, integ11, wtsFrom_tail, Int.cast_add, ih]
    by_cases ha : a = 0
    · simp [ha]
    · simp only [ha, if_false, Int.cast_mul, hd]; ring

/-- the integer `jnum p q` is `intL` times the exact integral of the product -/
theorem jnum_eq (p q : P) (h : p.length + q.length ≤ 64) : ((jnum p q : Int) : K) = (intL : K) * integ11 0 p q :=
  jnumAux_wtsFrom p q 0 64 h (le_refl _)

omit [CharZero K] in
theorem lcmUpTo_pos : ∀ n, 0 < lcmUpTo n
  | 0 => Nat.one_pos
  | n + 1 => Nat.lcm_pos (lcmUpTo_pos n) (Nat.succ_pos n)

theorem intL_ne_zero : (intL : K) ≠ 0 := by
  have : intL ≠ 0 := Nat.pos_iff_ne_zero.1 (lcmUpTo_pos 64)
  exact_mod_cast this

end moments

/-! ### sub-interval tables: `subWant` is `flag_i·flag_j·intL·(A(ξ₂) − A(ξ₁))` -/

/-- all keys `< n` -/
def KeysLt (n : Nat) (t : Terms) : Prop := ∀ x ∈ t, x.1 < n

theorem merge_keysLt (n : Nat) : ∀ xs ys : Terms, KeysLt n xs → KeysLt n ys → KeysLt n (merge xs ys)
  | [], ys, _, hy => by simpa [merge] using hy
  | x :: xs, ys, hx, hy => by
    have hsplit := splitGt_append x.1 ys
    have hx' : KeysLt n xs := fun z hz => hx z (List.mem_cons_of_mem _ hz)
    have hy1 : KeysLt n (splitGt x.1 ys).1 := fun z hz => hy z (by rw [← hsplit]; exact List.mem_append_left _ hz)
    have hy2 : KeysLt n (splitGt x.1 ys).2 := fun z hz => hy z (by rw [← hsplit]; exact List.mem_append_right _ hz)
    unfold merge
    simp only []
    generalize (splitGt x.1 ys).2 = r2 at hy2
    generalize (splitGt x.1 ys).1 = r1 at hy1
    cases r2 with
    | nil =>
      intro z hz
      rcases List.mem_append.1 hz with h | h
      · exact hy1 z h
      · exact hx z h
    | cons y ys' =>
      have hy2' : KeysLt n ys' := fun z hz => hy2 z (List.mem_cons_of_mem _ hz)
      by_cases hk : y.1 = x.1
      · have ih := merge_keysLt n xs ys' hx' hy2'
        simp only [hk, if_true]
        by_cases hc : x.2 + y.2 = 0
        · simp only [hc, if_true]
          intro z hz
          rcases List.mem_append.1 hz with h | h
          · exact hy1 z h
          · exact ih z h
        · simp only [hc, if_false]
          intro z hz
          rcases List.mem_append.1 hz with h | h
          · exact hy1 z h
          · rcases List.mem_cons.1 h with h | h
            · rw [h]; exact hx x List.mem_cons_self
            · exact ih z h
      · have ih := merge_keysLt n xs (y :: ys') hx' hy2
        simp only [hk, if_false]
        intro z hz
        rcases List.mem_append.1 hz with h | h
        · exact hy1 z h
        · rcases List.mem_cons.1 h with h | h
          · rw [h]; exact hx x List.mem_cons_self
          · exact ih z h

theorem shiftMul_keysLt (k : Nat) (c : Int) (n1 n2 : Nat) (hk : k < n1) : ∀ ys : Terms, KeysLt n2 ys →
    KeysLt (n1 + n2) (shiftMul k c ys)
  | [], _ => by simp [shiftMul, KeysLt]
  | y :: ys, hy => by
    have ih := shiftMul_keysLt k c n1 n2 hk ys (fun w hw => hy w (List.mem_cons_of_mem _ hw))
    have := hy y List.mem_cons_self
    intro z hz
    rcases List.mem_cons.1 hz with h | h
    · rw [h]; simp only; omega
    · exact ih z h

theorem mulTerms_keysLt (n1 n2 : Nat) (ys : Terms) (hy : KeysLt n2 ys) : ∀ xs : Terms, KeysLt n1 xs →
    KeysLt (n1 + n2) (mulTerms xs ys)
  | [], _ => by simp [mulTerms, KeysLt]
  | x :: xs, hx => by
    have ih := mulTerms_keysLt n1 n2 ys hy xs (fun w hw => hx w (List.mem_cons_of_mem _ hw))
    have s := shiftMul_keysLt x.1 x.2 n1 n2 (hx x List.mem_cons_self) ys hy
    simpa [mulTerms] using merge_keysLt _ _ _ s ih

theorem toTermsAux_keysLt (n : Nat) : ∀ (p : P) (k : Nat) (acc : Terms), KeysLt n acc → k + p.length ≤ n →
    KeysLt n (toTermsAux acc k p)
  | [], _, acc, h, _ => by simpa [toTermsAux] using h
  | c :: p, k, acc, h, hk => by
    simp only [List.length_cons] at hk
    unfold toTermsAux
    by_cases hc : c = 0
    · simp only [hc, if_true]; exact toTermsAux_keysLt n p (k + 1) acc h (by omega)
    · simp only [hc, if_false]
      refine toTermsAux_keysLt n p (k + 1) _ ?_ (by omega)
      intro z hz
      rcases List.mem_cons.1 hz with h' | h'
      · rw [h']; simp only; omega
      · exact h z h'

theorem toTerms_keysLt (p : P) : KeysLt p.length (toTerms p) :=
  toTermsAux_keysLt p.length p 0 [] (by simp [KeysLt]) (by omega)

section subfield
variable {K : Type} [Field K] [CharZero K]

/-- `Σ_{(k,c) ∈ t} c · x^k` — a term list with small keys read as a polynomial in one variable -/
def polyOf (x : K) : Terms → K
  | [] => 0
  | t :: ts => (t.2 : K) * x ^ t.1 + polyOf x ts

/-- `Σ_{(k,c) ∈ t} c · x^(k+1)/(k+1)` — its antiderivative vanishing at `0` -/
def antiOf (x : K) : Terms → K
  | [] => 0
  | t :: ts => (t.2 : K) * x ^ (t.1 + 1) / ((t.1 : K) + 1) + antiOf x ts

theorem evalTerms_eq_polyOf (env : Nat → K) : ∀ t : Terms, KeysLt 128 t → evalTerms env t = polyOf (env 0) t
  | [], _ => rfl
  | x :: xs, h => by
    have ih := evalTerms_eq_polyOf env xs (fun w hw => h w (List.mem_cons_of_mem _ hw))
    simp only [evalTerms, polyOf, ih, (mono_small env x.1 (h x List.mem_cons_self)).1]

theorem KeysLt.keysLe {n : Nat} {t : Terms} (h : KeysLt n t) (hn : n ≤ 128) : KeysLe (n - 1) t := by
  intro x hx
  have := h x hx
  rw [(mono_small (K := ℚ) (fun _ => 0) x.1 (by omega)).2]; omega

theorem polyOf_toTermsAux (x : K) : ∀ (p : P) (k : Nat) (acc : Terms),
    polyOf x (toTermsAux acc k p) = polyOf x acc + evalFrom x k p
  | [], _, acc => by simp [toTermsAux, evalFrom]
  | c :: p, k, acc => by
    unfold toTermsAux
    by_cases hc : c = 0
    · simp only [hc, if_true, polyOf_toTermsAux x p (k + 1) acc, evalFrom]; simp
    · simp only [hc, if_false, polyOf_toTermsAux x p (k + 1) _, evalFrom, polyOf]; ring

theorem polyOf_toTerms (x : K) (p : P) : polyOf x (toTerms p) = evalP x p := by
  simp [toTerms, polyOf_toTermsAux, polyOf, evalP]

/-- the sparse product represents the product polynomial -/
theorem polyOf_mulTerms_toTerms (x : K) (p q : P) (hp : p.length ≤ 60) (hq : q.length ≤ 60) :
    polyOf x (mulTerms (toTerms p) (toTerms q)) = evalP x p * evalP x q ∧
      KeysLt 120 (mulTerms (toTerms p) (toTerms q)) := by
  have kp : KeysLt 60 (toTerms p) := fun z hz => lt_of_lt_of_le (toTerms_keysLt p z hz) hp
  have kq : KeysLt 60 (toTerms q) := fun z hz => lt_of_lt_of_le (toTerms_keysLt q z hz) hq
  have kpq := mulTerms_keysLt 60 60 _ kq _ kp
  refine ⟨?_, kpq⟩
  let env : Nat → K := fun _ => x
  have h1 := (mulTerms_sound env 59 59 (by norm_num) _ (kq.keysLe (by norm_num)) _ (kp.keysLe (by norm_num))).1
  have k128 : ∀ {t : Terms}, KeysLt 60 t → KeysLt 128 t := fun h z hz => lt_trans (h z hz) (by norm_num)
  rw [evalTerms_eq_polyOf env _ (fun z hz => lt_trans (kpq z hz) (by norm_num)),
    evalTerms_eq_polyOf env _ (k128 kp), evalTerms_eq_polyOf env _ (k128 kq), polyOf_toTerms, polyOf_toTerms] at h1
  exact h1

theorem mono_step128 (env : Nat → K) (k : Nat) (h : k ≤ 127) : mono env (128 * k) = env 1 ^ k ∧ dsum (128 * k) = k := by
  have h1 := dsum_var 1 (by norm_num)
  have := mono_nsmul env (128 ^ 1) k (by rw [h1]; omega)
  rw [mono_var env 1 (by norm_num), h1] at this
  simpa [Nat.mul_comm] using this

/-- value of one half of `subWant`: `step = 1` reads variable 0 (`ξ₂`), `step = 128` variable 1 (`ξ₁`) -/
theorem evalTerms_antiTerms (env : Nat → K) (fk : Nat) (hfk : dsum fk ≤ 2) (neg : Bool) :
    ∀ a : Terms, KeysLt 63 a →
      evalTerms env (antiTerms fk 1 neg a) = (if neg then -1 else 1) * mono env fk * (intL : K) * antiOf (env 0) a ∧
      evalTerms env (antiTerms fk 128 neg a) = (if neg then -1 else 1) * mono env fk * (intL : K) * antiOf (env 1) a
  | [], _ => by simp [antiTerms, evalTerms, antiOf]
  | x :: xs, h => by
    obtain ⟨ih1, ih2⟩ := evalTerms_antiTerms env fk hfk neg xs (fun w hw => h w (List.mem_cons_of_mem _ hw))
    have hx : x.1 < 63 := h x List.mem_cons_self
    have hd : ((intL / (x.1 + 1) : Nat) : K) = (intL : K) / ((x.1 : K) + 1) := by
      rw [cast_intL_div (x.1 + 1) (by omega) (by omega)]; push_cast; ring
    have hne : ((x.1 : K) + 1) ≠ 0 := by exact_mod_cast (by omega : x.1 + 1 ≠ 0)
    obtain ⟨s1, s2⟩ := mono_small env (x.1 + 1) (by omega)
    obtain ⟨t1, t2⟩ := mono_step128 env (x.1 + 1) (by omega)
    constructor
    · simp only [antiTerms, evalTerms, antiOf, ih1, Nat.one_mul]
      rw [mono_add env _ _ (by omega), s1]
      cases neg <;> simp only [Bool.false_eq_true, if_false, if_true, Int.cast_mul, Int.cast_neg, Int.cast_natCast, hd] <;>
        field_simp <;> ring
    · simp only [antiTerms, evalTerms, antiOf, ih2]
      rw [mono_add env _ _ (by omega), t1]
      cases neg <;> simp only [Bool.false_eq_true, if_false, if_true, Int.cast_mul, Int.cast_neg, Int.cast_natCast, hd] <;>
        field_simp <;> ring

/-- **meaning of `subWant`**: `flag_i·flag_j·intL·(A(ξ₂) − A(ξ₁))` with `ξ₂ = env 0`, `ξ₁ = env 1` and
`A = antiOf · (p·q)` the antiderivative of the product polynomial -/
theorem evalTerms_subWant (env : Nat → K) (i j : Nat) (p q : P) (hp : p.length ≤ 31) (hq : q.length ≤ 31) :
    evalTerms env (subWant (flagKey2 i j) (toTerms p) (toTerms q)) =
      flagX env i * flagY env j * (intL : K) *
        (antiOf (env 0) (mulTerms (toTerms p) (toTerms q)) - antiOf (env 1) (mulTerms (toTerms p) (toTerms q))) := by
  obtain ⟨f1, f2⟩ := mono_flagKey2 env i j
  have kp : KeysLt 31 (toTerms p) := fun z hz => lt_of_lt_of_le (toTerms_keysLt p z hz) hp
  have kq : KeysLt 31 (toTerms q) := fun z hz => lt_of_lt_of_le (toTerms_keysLt q z hz) hq
  have kpq : KeysLt 63 (mulTerms (toTerms p) (toTerms q)) :=
    fun z hz => lt_of_lt_of_le (mulTerms_keysLt 31 31 _ kq _ kp z hz) (by norm_num)
  obtain ⟨_, a2⟩ := evalTerms_antiTerms env (flagKey2 i j) f2 true _ kpq
  obtain ⟨b1, _⟩ := evalTerms_antiTerms env (flagKey2 i j) f2 false _ kpq
  simp only [subWant, evalTerms_append, a2, b1, f1]
  simp only [if_true, Bool.false_eq_true, if_false]; ring

end subfield

end Compmech.C10
