/-
Mapped-argument (`_c0c1`) tables: from a passed kernel check (`checkE … (mapWant …) … = true`) to the statement
about the *value* of the C expression against the real interval integral
`∫_{-1}^{1} D^{d1}u_i(ξ)·D^{d2}u_j(c0 + c1·ξ) dξ` (`Bardell/MapLemmas.lean` proves that the binomial
expansion `mapWant` is defined by is that integral).  Used by `Props/C10.lean`.
-/
import CompmechVerif.Bardell.Lifts
import CompmechVerif.Bardell.MapLemmas

set_option linter.unusedSectionVars false
set_option linter.unusedSimpArgs false
set_option linter.unnecessarySeqFocus false
set_option linter.unusedVariables false

namespace Compmech.C10
open Compmech IPoly intervalIntegral

/-- **mapped-argument tables (real form)**: with `c0 = env 1`, `c1 = env 0`, the value of the C expression is within
`10⁻¹³·|flags|·absMapOf c0 c1 p q/(dp·dq)` of `flag_i·flag_j·∫_{-1}^{1} D^{d1}u_i(ξ)·D^{d2}u_j(c0 + c1·ξ) dξ`, where
`absMapOf` is the binomial expansion of the integral (numerators `p`, `q` over `dp`, `dq`) with every term replaced by
its modulus: `Σ_m |q_m|·Σ_{k≤m} |c0|^k·|c1|^(m−k)·C(m,k)·|∫_{-1}^{1} p(ξ)·ξ^(m−k) dξ|`. -/
theorem map_value_real {e : E} {d1 d2 i j : Nat} (hi : i < 30) (hj : j < 30)
    (h : checkE tolSubN tolSubD e (mapWant (flagKey2 i j) (mus (dbasis d1 i).num) (dbasis d2 j).num)
      ((dbasis d1 i).den * (dbasis d2 j).den * intL) = true) (env : Nat → ℝ) :
    |e.eval env - flagX env i * flagY env j *
        ∫ x in (-1 : ℝ)..1, (dbasis d1 i).eval x * (dbasis d2 j).eval (env 1 + env 0 * x)|
      ≤ 1 / 10 ^ 13 * (|flagX env i * flagY env j| * absMapOf (env 1) (env 0) (dbasis d1 i).num (dbasis d2 j).num
          / (((dbasis d1 i).den : ℝ) * ((dbasis d2 j).den : ℝ))) := by
  have hs := checkE_sound h env
  have hp := dbasis_den_pos d1 i
  have hq := dbasis_den_pos d2 j
  have hpl : (dbasis d1 i).num.length ≤ 31 := le_trans (dbasis_length d1 i hi) (by norm_num)
  have hql : (dbasis d2 j).num.length ≤ 31 := le_trans (dbasis_length d2 j hj) (by norm_num)
  rw [evalTerms_mapWant_real env i j _ _ hpl hql, absTerms_mapWant_real env i j _ _ hpl hql] at hs
  have hD : (0 : ℝ) < ((dbasis d1 i).den : ℝ) * ((dbasis d2 j).den : ℝ) := by positivity
  have hL : (0 : ℝ) < (intL : ℝ) := by exact_mod_cast lcmUpTo_pos 64
  have hpne : ((dbasis d1 i).den : ℝ) ≠ 0 := by exact_mod_cast hp.ne'
  have hqne : ((dbasis d2 j).den : ℝ) ≠ 0 := by exact_mod_cast hq.ne'
  have hint : ∫ x in (-1 : ℝ)..1, (dbasis d1 i).eval x * (dbasis d2 j).eval (env 1 + env 0 * x)
      = (∫ x in (-1 : ℝ)..1, evalP x (dbasis d1 i).num * evalP (env 1 + env 0 * x) (dbasis d2 j).num)
        / (((dbasis d1 i).den : ℝ) * ((dbasis d2 j).den : ℝ)) := by
    rw [← integral_div]
    congr 1
    funext x
    simp only [QP.eval]; field_simp
  rw [hint]
  set A : ℝ := ∫ x in (-1 : ℝ)..1, evalP x (dbasis d1 i).num * evalP (env 1 + env 0 * x) (dbasis d2 j).num
  set B : ℝ := absMapOf (env 1) (env 0) (dbasis d1 i).num (dbasis d2 j).num
  set F : ℝ := flagX env i * flagY env j
  set D : ℝ := ((dbasis d1 i).den : ℝ) * ((dbasis d2 j).den : ℝ)
  have e3 : e.eval env * (((dbasis d1 i).den * (dbasis d2 j).den * intL : Nat) : ℝ) - F * (intL : ℝ) * A
      = (intL : ℝ) * (e.eval env * D - F * A) := by
    simp only [D]; push_cast; ring
  rw [e3, abs_mul, abs_of_pos hL] at hs
  have h' : ((tolSubD : Nat) : ℝ) = (10 : ℝ) ^ 13 := by norm_num [tolSubD]
  have h'' : ((tolSubN : Nat) : ℝ) = 1 := by norm_num [tolSubN]
  rw [h', h''] at hs
  have hv : |e.eval env * D - F * A| * (10 : ℝ) ^ 13 ≤ |F| * B := by
    have : (intL : ℝ) * (|e.eval env * D - F * A| * (10 : ℝ) ^ 13) ≤ (intL : ℝ) * (|F| * B) := by
      calc _ = (intL : ℝ) * |e.eval env * D - F * A| * (10 : ℝ) ^ 13 := by ring
        _ ≤ 1 * (|F| * (intL : ℝ) * B) := hs
        _ = _ := by ring
    exact le_of_mul_le_mul_left this hL
  have e1 : e.eval env - F * (A / D) = (e.eval env * D - F * A) / D := by field_simp
  rw [e1, abs_div, abs_of_pos hD, div_le_iff₀ hD]
  have : |e.eval env * D - F * A| ≤ 1 / 10 ^ 13 * (|F| * B) := by
    rw [div_mul_eq_mul_div, le_div_iff₀ (by positivity), one_mul]
    exact hv
  calc _ ≤ 1 / 10 ^ 13 * (|F| * B) := this
    _ = _ := by field_simp

end Compmech.C10
