/-
Bardell's hierarchical polynomials, exactly, from the closed formula of
`/repo/theory/func/bardell/bardell.py:17-22`:

  u₀..u₃ : the four cubic Hermite functions
           1/2 − 3/4 ξ + 1/4 ξ³,  1/8 − 1/8 ξ − 1/8 ξ² + 1/8 ξ³,
           1/2 + 3/4 ξ − 1/4 ξ³, −1/8 − 1/8 ξ + 1/8 ξ² + 1/8 ξ³
  u_{r−1}, r ≥ 5 :  Σ_{n=0}^{r/2} (−1)ⁿ (2r−2n−7)!! / (2ⁿ n! (r−2n−1)!) · ξ^{r−2n−1}
           (terms with negative exponent dropped, (−1)!! = 1).

Fraction-free for kernel computation (DESIGN 3.2/3.3): `basis i = ⟨num, den⟩` stands for
`(Σ_k num_k ξ^k) / den` with the explicit common denominator `bden r = 2^{r/2}·(r/2)!·(r−1)!`,
of which every `2ⁿ n! (r−2n−1)!` is a divisor (`Bardell/Lemmas.lean: bden_dvd`).
No Mathlib.
-/
import CompmechVerif.Core.IPoly

namespace Compmech.C10
open Compmech

def fact : Nat → Nat
  | 0 => 1
  | n + 1 => (n + 1) * fact n

/-- `oddDF m = (2m−1)!!`, in particular `oddDF 0 = (−1)!! = 1` -/
def oddDF : Nat → Nat
  | 0 => 1
  | m + 1 => (2 * m + 1) * oddDF m

/-- common denominator of the coefficients of the `r`-th function -/
def bden (r : Nat) : Nat := 2 ^ (r / 2) * fact (r / 2) * fact (r - 1)

/-- the denominator `2ⁿ n! (r−2n−1)!` of the closed formula, written with `e = r−2n−1` -/
def termDen (n e : Nat) : Nat := 2 ^ n * fact n * fact e

/-- numerator over `bden r` of the coefficient of `ξ^e` of the `r`-th function (`r ≥ 5`, `e < r`):
`(−1)ⁿ (2r−2n−7)!!/(2ⁿ n! e!)` with `n = (r−1−e)/2` when `r−1−e` is even, else `0`.
Note `2r−2n−7 = 2(r−n−3)−1`. -/
def bnum (r e : Nat) : Int :=
  if (r - 1 - e) % 2 = 0 then
    let n := (r - 1 - e) / 2
    let v : Nat := oddDF (r - n - 3) * (bden r / termDen n e)
    if n % 2 = 0 then (v : Int) else -(v : Int)
  else 0

/-- `(Σ_k num_k ξ^k) / den` -/
structure QP where
  num : IPoly.P
  den : Nat

/-- the `i`-th (0-based) Bardell function with unit flag -/
def basis : Nat → QP
  | 0 => ⟨[4, -6, 0, 2], 8⟩
  | 1 => ⟨[1, -1, -1, 1], 8⟩
  | 2 => ⟨[4, 6, 0, -2], 8⟩
  | 3 => ⟨[-1, -1, 1, 1], 8⟩
  | i + 4 => ⟨(List.range (i + 5)).map (bnum (i + 5)), bden (i + 5)⟩

/-- `d`-th derivative of the `i`-th function -/
def dbasis (d i : Nat) : QP := ⟨IPoly.derivN d (basis i).num, (basis i).den⟩

/-- number of functions the property speaks about -/
def NB : Nat := 30

def dbasisTab (d : Nat) : List QP := (List.range NB).map (dbasis d)

end Compmech.C10
