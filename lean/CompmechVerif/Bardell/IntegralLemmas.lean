/-
The exact sides of the C10 checks are interval integrals of real analysis (Mathlib's
`intervalIntegral`), by theorem:

  `moment_eq_integral`     : `moment k = ∫_{-1}^{1} x^k`
  `integ11_eq_integral`    : `integ11 0 p q = ∫_{-1}^{1} p(x)·q(x) dx`
  `antiOf_sub_eq_integral` : `antiOf b t − antiOf a t = ∫_a^b polyOf x t dx`
-/
import Mathlib.Analysis.SpecialFunctions.Integrals.Basic
import CompmechVerif.Bardell.Lemmas

set_option linter.unusedSectionVars false
set_option linter.unusedSimpArgs false
set_option linter.unnecessarySeqFocus false
set_option linter.unusedVariables false

namespace Compmech.C10
open Compmech IPoly intervalIntegral

theorem moment_eq_integral (k : Nat) : (moment k : ℝ) = ∫ x in (-1 : ℝ)..1, x ^ k := by
  rw [integral_pow]
  unfold moment
  rcases Nat.even_or_odd k with h | h
  · have hk : k % 2 = 0 := Nat.even_iff.1 h
    have : ((-1 : ℝ)) ^ (k + 1) = -1 := Odd.neg_one_pow (Even.add_one h)
    simp only [hk, if_true, this, one_pow]; ring
  · have hk : ¬ k % 2 = 0 := by rw [Nat.odd_iff.1 h]; norm_num
    have : ((-1 : ℝ)) ^ (k + 1) = 1 := Even.neg_one_pow (Odd.add_one h)
    simp only [hk, if_false, this, one_pow]; ring

theorem continuous_evalFrom : ∀ (p : P) (k : Nat), Continuous fun x : ℝ => evalFrom x k p
  | [], _ => by simpa [evalFrom] using continuous_const
  | c :: p, k => by
    have := continuous_evalFrom p (k + 1)
    simp only [evalFrom]
    fun_prop

theorem continuous_evalP (p : P) : Continuous fun x : ℝ => evalP x p := continuous_evalFrom p 0

/-- `∫_{-1}^{1} x^k · (Σ_b q_b x^(j+b)) dx = Σ_b q_b m_{k+j+b}` -/
theorem integral_pow_mul_evalFrom (k : Nat) : ∀ (q : P) (j : Nat),
    ∫ x in (-1 : ℝ)..1, x ^ k * evalFrom x j q = dotMoment (k + j) q
  | [], _ => by simp [evalFrom, dotMoment]
  | b :: q, j => by
    have ih := integral_pow_mul_evalFrom k q (j + 1)
    have hc := continuous_evalFrom q (j + 1)
    have e : ∀ x : ℝ, x ^ k * evalFrom x j (b :: q) = (b : ℝ) * x ^ (k + j) + x ^ k * evalFrom x (j + 1) q := by
      intro x; simp only [evalFrom, pow_add]; ring
    simp only [e]
    rw [integral_add, integral_const_mul, ← moment_eq_integral, ih]
    · simp only [dotMoment]; congr 2
    · exact (Continuous.intervalIntegrable (by fun_prop) _ _)
    · exact (Continuous.intervalIntegrable (by fun_prop) _ _)

/-- `∫_{-1}^{1} (Σ_a p_a x^(k+a)) · q(x) dx = Σ_a Σ_b p_a q_b m_{k+a+b}` -/
theorem integral_evalFrom_mul (q : P) : ∀ (p : P) (k : Nat),
    ∫ x in (-1 : ℝ)..1, evalFrom x k p * evalP x q = integ11 k p q
  | [], _ => by simp [evalFrom, integ11]
  | a :: p, k => by
    have ih := integral_evalFrom_mul q p (k + 1)
    have hq := continuous_evalP q
    have hp := continuous_evalFrom p (k + 1)
    have e : ∀ x : ℝ, evalFrom x k (a :: p) * evalP x q
        = (a : ℝ) * (x ^ k * evalFrom x 0 q) + evalFrom x (k + 1) p * evalP x q := by
      intro x; simp only [evalFrom, evalP]; ring
    simp only [e]
    have hq0 : Continuous fun x : ℝ => evalFrom x 0 q := hq
    rw [integral_add, integral_const_mul, integral_pow_mul_evalFrom, ih]
    · simp only [integ11, Nat.add_zero]
    · exact (Continuous.intervalIntegrable (by fun_prop) _ _)
    · exact (Continuous.intervalIntegrable (by fun_prop) _ _)

/-- **the full-interval exact side is the integral**: `integ11 0 p q = ∫_{-1}^{1} p(x)·q(x) dx` -/
theorem integ11_eq_integral (p q : P) : (integ11 0 p q : ℝ) = ∫ x in (-1 : ℝ)..1, evalP x p * evalP x q :=
  (integral_evalFrom_mul q p 0).symm

theorem continuous_polyOf : ∀ t : Terms, Continuous fun x : ℝ => polyOf x t
  | [] => by simpa [polyOf] using continuous_const
  | c :: t => by
    have := continuous_polyOf t
    simp only [polyOf]
    fun_prop

/-- **the sub-interval exact side is the integral**: `A(b) − A(a) = ∫_a^b (Σ c_k x^k) dx` -/
theorem antiOf_sub_eq_integral (a b : ℝ) : ∀ t : Terms,
    antiOf b t - antiOf a t = ∫ x in a..b, polyOf x t
  | [] => by simp [antiOf, polyOf]
  | c :: t => by
    have ih := antiOf_sub_eq_integral a b t
    have hc := continuous_polyOf t
    simp only [polyOf]
    rw [integral_add, integral_const_mul, integral_pow, ← ih]
    · simp only [antiOf]; ring
    · exact (Continuous.intervalIntegrable (by fun_prop) _ _)
    · exact (Continuous.intervalIntegrable (by fun_prop) _ _)

/-- for the product of two Bardell-sized polynomials: `A(b) − A(a) = ∫_a^b p(x)·q(x) dx` -/
theorem antiOf_mulTerms_eq_integral (a b : ℝ) (p q : P) (hp : p.length ≤ 60) (hq : q.length ≤ 60) :
    antiOf b (mulTerms (toTerms p) (toTerms q)) - antiOf a (mulTerms (toTerms p) (toTerms q))
      = ∫ x in a..b, evalP x p * evalP x q := by
  rw [antiOf_sub_eq_integral]
  congr 1
  funext x
  exact (polyOf_mulTerms_toTerms x p q hp hq).1

end Compmech.C10
