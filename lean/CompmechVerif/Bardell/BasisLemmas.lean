/-
`Bardell/Basis.lean` is the closed formula of `/repo/theory/func/bardell/bardell.py`:
`bnum_closed_formula` (functions `r ≥ 5`) and `hermite_eval` (the four cubic Hermite functions).
-/
import CompmechVerif.Bardell.Lemmas
import Mathlib.Data.Nat.Factorial.Basic
import Mathlib.Tactic.FieldSimp

set_option linter.unusedSimpArgs false
namespace Compmech.C10

theorem fact_pos : ∀ n, 0 < fact n
  | 0 => Nat.one_pos
  | n + 1 => Nat.mul_pos (Nat.succ_pos n) (fact_pos n)

theorem fact_eq_factorial : ∀ n, fact n = Nat.factorial n
  | 0 => rfl
  | n + 1 => by simp [fact, Nat.factorial, fact_eq_factorial n]

theorem termDen_dvd_bden (r n e : Nat) (h : e + 2 * n + 1 = r) : termDen n e ∣ bden r := by
  unfold termDen bden
  have hn : n ≤ r / 2 := by omega
  have he : e ≤ r - 1 := by omega
  apply Nat.mul_dvd_mul (Nat.mul_dvd_mul (pow_dvd_pow 2 hn) _) _
  · rw [fact_eq_factorial, fact_eq_factorial]; exact Nat.factorial_dvd_factorial hn
  · rw [fact_eq_factorial, fact_eq_factorial]; exact Nat.factorial_dvd_factorial he

/-- the fraction-free coefficient is the closed formula of `theory/func/bardell/bardell.py`:
coefficient of `ξ^e`, `e = r−2n−1`, of the `r`-th function is `(−1)ⁿ (2r−2n−7)!! / (2ⁿ n! (r−2n−1)!)` -/
theorem bnum_closed_formula (r n e : Nat) (h : e + 2 * n + 1 = r) :
    ((bnum r e : Int) : ℚ) / (bden r : ℚ) =
      (-1) ^ n * (oddDF (r - n - 3) : ℚ) / ((2 : ℚ) ^ n * (fact n : ℚ) * (fact e : ℚ)) := by
  have hpar : (r - 1 - e) % 2 = 0 := by omega
  have hn : (r - 1 - e) / 2 = n := by omega
  have hd := termDen_dvd_bden r n e h
  have htd : (termDen n e : ℚ) ≠ 0 := by
    have : 0 < termDen n e := Nat.mul_pos (Nat.mul_pos (Nat.pow_pos (by norm_num)) (fact_pos n)) (fact_pos e)
    exact_mod_cast this.ne'
  have hb : (bden r : ℚ) ≠ 0 := by
    have : 0 < bden r := Nat.mul_pos (Nat.mul_pos (Nat.pow_pos (by norm_num)) (fact_pos _)) (fact_pos _)
    exact_mod_cast this.ne'
  have hq : ((bden r / termDen n e : Nat) : ℚ) = (bden r : ℚ) / (termDen n e : ℚ) := Nat.cast_div hd htd
  have htd' : (termDen n e : ℚ) = (2 : ℚ) ^ n * (fact n : ℚ) * (fact e : ℚ) := by simp [termDen]
  unfold bnum
  simp only [hpar, if_true, hn]
  rcases Nat.even_or_odd n with hev | hodd
  · have h2 : n % 2 = 0 := Nat.even_iff.1 hev
    simp only [h2, if_true, hev.neg_one_pow, Int.cast_mul, Int.cast_natCast, Nat.cast_mul, hq, htd']
    field_simp
  · have h2 : ¬ n % 2 = 0 := by rw [Nat.odd_iff.1 hodd]; norm_num
    simp only [h2, if_false, hodd.neg_one_pow, Int.cast_neg, Int.cast_mul, Int.cast_natCast, Nat.cast_mul, hq, htd']
    field_simp

/-- the four cubic Hermite functions `1/2 − 3/4ξ + 1/4ξ³`, `1/8 − 1/8ξ − 1/8ξ² + 1/8ξ³`, `1/2 + 3/4ξ − 1/4ξ³`,
`−1/8 − 1/8ξ + 1/8ξ² + 1/8ξ³` -/
theorem hermite_eval (x : ℚ) :
    (basis 0).eval x = 1 / 2 - 3 / 4 * x + 1 / 4 * x ^ 3 ∧
    (basis 1).eval x = 1 / 8 - 1 / 8 * x - 1 / 8 * x ^ 2 + 1 / 8 * x ^ 3 ∧
    (basis 2).eval x = 1 / 2 + 3 / 4 * x - 1 / 4 * x ^ 3 ∧
    (basis 3).eval x = -1 / 8 - 1 / 8 * x + 1 / 8 * x ^ 2 + 1 / 8 * x ^ 3 := by
  refine ⟨?_, ?_, ?_, ?_⟩ <;> simp [QP.eval, evalP, evalFrom, basis] <;> ring

/-- value of the `i`-th function, `i ≥ 4` (`r = i+1`): the coefficient list is `[bnum r 0, …, bnum r (r−1)]/bden r` -/
theorem basis_ge4 (i : Nat) : basis (i + 4) = ⟨(List.range (i + 5)).map (bnum (i + 5)), bden (i + 5)⟩ := rfl

end Compmech.C10
