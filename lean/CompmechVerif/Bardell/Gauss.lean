/-
Gauss–Legendre table (`legendre_gauss_quadrature.c`): kernel-computable checks.

A literal of the C file is `(neg, m, e) = (−1)^neg · m / 10^e`.  Two readings are checked:
* the decimal literals as written (54 digits): all moments `k ≤ 2n−1` within `tolDec`;
* the literals **rounded to binary64** (round-to-nearest-even to 53 significant bits, done here on
  exact rationals with integer arithmetic — `roundB64`), which is what the compiled code uses:
  all moments within `tolB64`.
No Mathlib.
-/
namespace Compmech.C10

abbrev Lit := Bool × Nat × Nat

/-- round-to-nearest-even of the positive rational `m/10^e` to 53 significant bits:
`(mant, k)` stands for `mant / 2^k`, `2^52 ≤ mant ≤ 2^53` (no exponent range: all table values
lie in `[10⁻³, 1]`, far from subnormals/overflow) -/
def roundB64 (m e : Nat) : Nat × Nat :=
  if m = 0 then (0, 0) else
  let d := 10 ^ e
  let k0 := 53 + Nat.log2 d - Nat.log2 m
  let t := m * 2 ^ k0 / d
  let k := if 2 ^ 53 ≤ t then k0 - 1 else k0
  let n := m * 2 ^ k
  let q := n / d
  let r := n % d
  (if d < 2 * r ∨ (2 * r = d ∧ q % 2 = 1) then q + 1 else q, k)

/-- numerators of decimal literals over `10^s` -/
def decNums (s : Nat) : List Lit → List Int
  | [] => []
  | l :: ls => (let v : Int := ((l.2.1 * 10 ^ (s - l.2.2) : Nat) : Int); if l.1 then -v else v) :: decNums s ls

def maxDec : List Lit → Nat
  | [] => 0
  | l :: ls => max l.2.2 (maxDec ls)

def roundAll : List Lit → List (Bool × Nat × Nat)
  | [] => []
  | l :: ls => (let r := roundB64 l.2.1 l.2.2; (l.1, r.1, r.2)) :: roundAll ls

/-- numerators of binary values `(neg, mant, k)` over `2^s` -/
def binNums (s : Nat) : List (Bool × Nat × Nat) → List Int
  | [] => []
  | l :: ls => (let v : Int := ((l.2.1 * 2 ^ (s - l.2.2) : Nat) : Int); if l.1 then -v else v) :: binNums s ls

def sumL : List Int → Int
  | [] => 0
  | a :: l => a + sumL l

def stepT : List Int → List Int → List Int
  | t :: ts, x :: xs => (t * x) :: stepT ts xs
  | _, _ => []

/-- moments `k, k+1, …` (`cnt` of them): `ts_i = W_i·X_i^k`, `Dk = D^(k+1)`;
`|Σ_i ts_i / Dk − ∫_{-1}^{1} ξ^k| ≤ tn/td` -/
def momentsOk (tn td D : Nat) (xs : List Int) : Nat → Nat → List Int → Nat → Bool
  | 0, _, _, _ => true
  | c + 1, k, ts, Dk =>
    (let S := sumL ts
     if k % 2 = 0 then decide ((S * ((k + 1 : Nat) : Int) - 2 * (Dk : Int)).natAbs * td ≤ tn * (k + 1) * Dk)
     else decide (S.natAbs * td ≤ tn * Dk))
    && momentsOk tn td D xs c (k + 1) (stepT ts xs) (Dk * D)

def allPos : List Int → Bool
  | [] => true
  | a :: l => decide (0 < a) && allPos l

/-- strictly increasing and all in `(−D, D)` -/
def increasingIn (D : Nat) : Int → List Int → Bool
  | prev, [] => decide (prev < (D : Int))
  | prev, a :: l => decide (prev < a) && increasingIn D a l

def negAll : List Int → List Int
  | [] => []
  | a :: l => (-a) :: negAll l

/-- an `n`-point rule with node numerators `xs` and weight numerators `ws` over the common
denominator `D`: `n` nodes strictly increasing in `(−1, 1)` and symmetric about `0`, `n` positive
symmetric weights, and all moments `0 … 2n−1` within `tn/td` of `∫_{-1}^{1} ξ^k dξ` -/
def ruleOk (tn td n D : Nat) (xs ws : List Int) : Bool :=
  xs.length == n && ws.length == n && allPos ws && increasingIn D (-(D : Int)) xs
    && (xs.reverse == negAll xs) && (ws.reverse == ws)
    && momentsOk tn td D xs (2 * n) 0 ws D

/-- the decimal reading of `case n` -/
def gaussDecOk (tn td n : Nat) (pts wts : List Lit) : Bool :=
  let s := max (maxDec pts) (maxDec wts)
  ruleOk tn td n (10 ^ s) (decNums s pts) (decNums s wts)

def maxK : List (Bool × Nat × Nat) → Nat
  | [] => 0
  | l :: ls => max l.2.2 (maxK ls)

/-- the binary64 reading of `case n` -/
def gaussB64Ok (tn td n : Nat) (pts wts : List Lit) : Bool :=
  let p := roundAll pts
  let w := roundAll wts
  let s := max (maxK p) (maxK w)
  ruleOk tn td n (2 ^ s) (binNums s p) (binNums s w)

/-! tolerances (absolute; the moments are `≤ 2`), calibrated on the unchanged table:
largest observed moment error `3.8·10⁻⁵⁴` (decimal literals) and `1.11·10⁻¹⁶` (binary64). -/
def tolDecN : Nat := 4
def tolDecD : Nat := 10 ^ 53
def tolB64N : Nat := 2
def tolB64D : Nat := 10 ^ 15

end Compmech.C10

namespace Compmech.C10

/-- both readings of one `case n` of `leggauss_quad` -/
def caseOk (t : Nat × List Lit × List Lit) : Bool :=
  gaussB64Ok tolB64N tolB64D t.1 t.2.1 t.2.2 && gaussDecOk tolDecN tolDecD t.1 t.2.1 t.2.2

def casesOk : List (Nat × List Lit × List Lit) → Bool
  | [] => true
  | t :: l => caseOk t && casesOk l

theorem casesOk_nil : casesOk [] = true := rfl

theorem casesOk_cons {t : Nat × List Lit × List Lit} {l : List (Nat × List Lit × List Lit)}
    (h : caseOk t = true) (hl : casesOk l = true) : casesOk (t :: l) = true := by
  simp [casesOk, h, hl]

theorem casesOk_mem : ∀ {l : List (Nat × List Lit × List Lit)}, casesOk l = true → ∀ t ∈ l, caseOk t = true
  | [], _, t, ht => by cases ht
  | a :: l, h, t, ht => by
    simp only [casesOk, Bool.and_eq_true] at h
    cases ht with
    | head => exact h.1
    | tail _ ht' => exact casesOk_mem h.2 t ht'

end Compmech.C10
