/-
Driver op for C06 (frequency glue, `Model/EigPost.lean : freq`); complex numbers are two rationals `re im`:
  freq <n> <num> <sparse 0/1> <sort 0/1> <reduced 0/1> | <K: r c v …> | <M: r c v …> | <res> | <sqrt outputs: re im re im …>
with `<res>` = `none` or  <z₀.re z₀.im z₁.re …> ; <rows> <ncols> ; <entries re im, column after column>
`numpy.sqrt` is an external function: the harness passes what it returned for the eigenvalue array.
reply:
  <req> … | ok <rows> <ncols> | <ω₀.re ω₀.im …> | <entries re im, column after column> | <margin>
  <req> … | err <kind> <details>
-/
import CompmechVerif.Drv.C05
import Mathlib.Data.Rat.Floor

namespace Compmech.Drv.C06
open Compmech.Proto Compmech.EigPost Compmech.Drv.EigIO

structure Cx where
  re : ℚ
  im : ℚ
deriving DecidableEq, Repr

instance : Zero Cx := ⟨⟨0, 0⟩⟩

/-- `-1./x` for complex `x` -/
def Cx.negInv (x : Cx) : Cx :=
  let d := x.re * x.re + x.im * x.im
  ⟨-x.re / d, x.im / d⟩

def cxs : List ℚ → Option (List Cx)
  | [] => some []
  | a :: b :: r => (cxs r).map fun t => ⟨a, b⟩ :: t
  | _ => none

def parseCxs (s : String) : Option (List Cx) := (parseQs? s).bind cxs

def showCxs (l : List Cx) : String := " ".intercalate (l.map fun z => showQ z.re ++ " " ++ showQ z.im)

def parseRes (s : String) : Option (Option (Out Cx Cx)) :=
  if s == "none" then some none else
  match s.splitOn ";" with
  | [vs, sh, es] =>
    match parseCxs vs, (words sh).mapM String.toNat?, parseCxs es with
    | some vals, some [rows, ncols], some ent =>
      if ent.length = rows * ncols then some (some ⟨vals, ⟨rows, chunks rows ncols ent⟩⟩) else none
    | _, _, _ => none
  | _ => none

def handle (op : String) (rest : String) : String :=
  match op with
  | "freq" =>
    match fields rest with
    | [hd, ks, ms, rs, sq] =>
      match (words hd).mapM String.toNat?, triples (words ks), triples (words ms), parseRes rs, parseCxs sq with
      | some [n, num, sp, so, red], some kc, some mc, some res, some sqv =>
        let r := freq n num (sp == 1) (so == 1) (red == 1) kc mc (fun _ => sqv) Cx.negInv Cx.re Cx.im res
        match r.2 with
        | .ok o =>
          showReqs r.1 ++ s!" | ok {o.vecs.rows} {o.vecs.ncols} | " ++ showCxs o.vals ++ " | " ++
            showCxs o.vecs.cols.flatten ++ " | " ++
            showQ (if so == 1 then sortMargin Cx.re Cx.im sqv else 1)
        | .error e => showReqs r.1 ++ " | " ++ showErr e
      | _, _, _, _, _ => "err parse"
    | _ => "err parse-fields"
  | _ => "err unknown-op"

end Compmech.Drv.C06
