/-
Driver op for C09 (Newton-Raphson driver):
  run <initialInc> <minInc> <maxInc> <absTOL> <tooSlowTOL> <maxNumIter> <lineSearch 0/1> <maxIterLS>
      <modifiedNR 0/1> <computeEveryN> <kTInitialState 0/1> <fuel> | <default r> <r0> <r1> … | <s1 s2 ; s1 s2 ; …>
reply:
  <finished|minInc|outOfFuel> | <margin> | <event> <event> …
-/
import CompmechVerif.Model.NewtonRaphson
import CompmechVerif.Drv.Proto

namespace Compmech.Drv.C09
open Compmech.Proto Compmech.NR

def showC : CId ℚ → String
  | .init inc => "i" ++ showQ inc
  | .upd n => "u" ++ toString n

def showEv : Ev ℚ → String
  | .fext inc => "fext:" ++ showQ inc
  | .k0 => "k0"
  | .solve0 inc => "solve0:" ++ showQ inc
  | .kT c t id => s!"kT:{showC c}:{showQ t}:{id}"
  | .fint c t it r => s!"fint:{showC c}:{showQ t}:{it}:{showQ r}"
  | .solveD kt => s!"solveD:{kt}"
  | .ls e1 e2 => s!"ls:{showQ e1}:{showQ e2}"
  | .update e c => s!"update:{showQ e}:{showC c}"
  | .report t c => s!"report:{showQ t}:{showC c}"
  | .restart c => s!"restart:{showC c}"
  | .stopMin => "stopMin"

def pairs : List (List ℚ) → Option (List (ℚ × ℚ))
  | [] => some []
  | [a, b] :: r => (pairs r).map fun t => (a, b) :: t
  | _ => none

def handle (op : String) (rest : String) : String :=
  match op with
  | "run" =>
    match fields rest with
    | [cfgS, rsS, lsS] =>
      match words cfgS, parseQs? rsS, (parseQss? lsS).bind pairs with
      | [ii, mi, ma, at_, ts, mni, lsb, mls, mod, evn, kti, fuel], some (dflt :: rs), some lss =>
        match parseQ? ii, parseQ? mi, parseQ? ma, parseQ? at_, parseQ? ts, mni.toNat?, mls.toNat?, evn.toInt?, fuel.toNat? with
        | some ii, some mi, some ma, some at_, some ts, some mni, some mls, some evn, some fuel =>
          let cfg : Cfg ℚ := ⟨ii, mi, ma, at_, ts, mni, lsb == "1", mls, mod == "1", evn, kti == "1"⟩
          let env : Env ℚ := ⟨fun k => rs.getD k dflt, fun k => lss.getD k (1, 2)⟩
          let r := solverNR cfg env fuel
          let oc := match r.1 with
            | .finished => "finished" | .minInc => "minInc" | .outOfFuel => "outOfFuel"
          oc ++ " | " ++ showQ r.2.2.margin ++ " | " ++ " ".intercalate ((events r).map showEv)
        | _, _, _, _, _, _, _, _, _ => "err parse-cfg"
      | _, _, _ => "err parse"
    | _ => "err parse-fields"
  | _ => "err unknown-op"

end Compmech.Drv.C09
