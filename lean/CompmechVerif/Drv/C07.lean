/-
Driver ops for C07:
  fext <inc> <col0> <n> <size> | <constant forces> | <incrementable forces>
       each force: fx fy fz g0[0..n) g1[0..n) g2[0..n)   (forces separated by `;`)
       -> ok <size values>
  scatter <size> | <used indices> | <px values>   -> ok <size values>
  bayfext <inc or none> | <num> <m> <n> # <skin forces> | <component> | <component> …
       component:  b2n                      (BladeStiff2D without flange)
                   b2 <part>                (BladeStiff2D: its flange)
                   t <part> @ <part>        (TStiff2D: base @ flange)
       part:       <size> # <forces> # <forces_inc>      (forces as for `fext`, rows of length <size>)
       -> ok <tag:idx:off:size:nforces …> | <vector>      or   raise TypeError
  asmfext <inc or none> | <num> <m> <n> # <forces> # <forces_inc> | …   (one field per panel, rows of length num*m*n)
       -> ok <col_start:size …> | <get_size() values>
  static <n> <last_analysis before> <exception of calc_fext or -> <exception of calc_k0 or -> | <k0 as triplets `i j v ; i j v ; …`, duplicates add> | <fext> | <px>
       (`px`: the recorded answer of spsolve, used as the solver parameter)
       -> ok <calls> | <used_cols> | <reduced matrix row-major> | <reduced rhs> | <increments> | <cs[0] or -> | <last_analysis> | <raised or ->
-/
import CompmechVerif.Model.Static
import CompmechVerif.Model.BayLoads
import CompmechVerif.Drv.Proto
import Mathlib.Algebra.Field.Rat

namespace Compmech.Drv.C07
open Compmech.Proto Compmech.Static

def mkForce (n : Nat) (v : List ℚ) : Option (Force ℚ) :=
  if v.length = 3 + 3 * n then
    some ⟨fun a => v.getD a.val 0, fun a j => if j < n then v.getD (3 + a.val * n + j) 0 else 0⟩
  else none

def hashes (s : String) : List String := (s.splitOn "#").map fun f => f.trimAscii.toString

def parseForces? (n : Nat) (s : String) : Option (List (Force ℚ)) :=
  match parseQss? s with
  | some fs => fs.mapM (mkForce n)
  | none => none

/-- `<size> # <forces> # <forces_inc>` -/
def parsePart? (s : String) : Option (PartLoads ℚ) :=
  match hashes s with
  | [n, fs, fi] =>
    match n.toNat? with
    | some n =>
      match parseForces? n fs, parseForces? n fi with
      | some fs, some fi => some ⟨n, fs, fi⟩
      | _, _ => none
    | none => none
  | _ => none

def parseInc? (s : String) : Option (Option ℚ) :=
  if s = "none" then some none else (parseQ? s).map some

def stripWord (kw s : String) : String := (s.drop kw.length).trimAscii.toString

/-- folds the component fields into `(b2, ts)` -/
def parseComps? : List String → Option (List (Option (PartLoads ℚ)) × List (PartLoads ℚ × PartLoads ℚ))
  | [] => some ([], [])
  | f :: t =>
    match parseComps? t with
    | none => none
    | some (b2, ts) =>
      if f = "b2n" then some (none :: b2, ts)
      else if f.startsWith "b2 " then
        match parsePart? (stripWord "b2 " f) with
        | some p => some (some p :: b2, ts)
        | none => none
      else if f.startsWith "t " then
        match (stripWord "t " f).splitOn "@" with
        | [pb, pf] =>
          match parsePart? pb, parsePart? pf with
          | some pb, some pf => some (b2, (pb, pf) :: ts)
          | _, _ => none
        | _ => none
      else none

def showPlaced (e : Placed) : String := s!"{e.tag}:{e.idx}:{e.off}:{e.size}:{e.nforces}"

def bayfext (rest : String) : String :=
  match fields rest with
  | inc :: skin :: comps =>
    match parseInc? inc, hashes skin, parseComps? comps with
    | some inc, [hd, fs], some (b2, ts) =>
      match (words hd).mapM String.toNat? with
      | some [num, m, n] =>
        match parseForces? (num * m * n) fs with
        | some fs =>
          let b : BayLoads ℚ := ⟨num, m, n, fs, b2, ts⟩
          match bayCalcFext inc b with
          | .ok v => "ok " ++ " ".intercalate ((bayLayout b).map showPlaced) ++ " | " ++ showQs v
          | .error e => "raise " ++ e
        | none => "err force-shape"
      | _ => "err parse"
    | _, _, _ => "err parse"
  | _ => "err parse"

def parseAsmPanel? (s : String) : Option (AsmPanel ℚ) :=
  match hashes s with
  | [hd, fs, fi] =>
    match (words hd).mapM String.toNat? with
    | some [num, m, n] =>
      match parseForces? (num * m * n) fs, parseForces? (num * m * n) fi with
      | some fs, some fi => some ⟨num, m, n, fs, fi⟩
      | _, _ => none
    | _ => none
  | _ => none

def asmfext (rest : String) : String :=
  match fields rest with
  | inc :: panels =>
    match parseInc? inc, panels.mapM parseAsmPanel? with
    | some inc, some ps =>
      "ok " ++ " ".intercalate ((asmLoadsFrom ps 0).map fun q => s!"{q.col0}:{q.n}") ++ " | " ++
        showQs ((List.range (asmSize ps)).map (asmCalcFext ps inc))
    | _, _ => "err parse"
  | _ => "err parse"

def showCall : StaticCall → String
  | .calcFext incPassed => if incPassed then "calc_fext(inc)" else "calc_fext()"
  | .calcK0 => "calc_k0()"
  | .solve => "solve()"

def exc? (s : String) : Option String := if s = "-" then none else some s

def static (rest : String) : String :=
  match fields rest with
  | [hd, ks, fs, ps] =>
    match words hd, parseQss? ks, parseQs? fs, parseQs? ps with
    | [n, last, ef, ek], some trip, some fv, some px =>
      match n.toNat? with
      | some n =>
        let arr : Array ℚ := trip.foldl (fun a t =>
          match t with
          | [i, j, v] => a.modify (i.num.toNat * n + j.num.toNat) (· + v)
          | _ => a) (Array.replicate (n * n) 0)
        let k0 : ℕ → ℕ → ℚ := fun i j => if i < n ∧ j < n then arr.getD (i * n + j) 0 else 0
        let f : ℕ → ℚ := fun k => fv.getD k 0
        let cb : Callables ℚ :=
          ⟨n, fun _ => match exc? ef with | some e => .error e | none => .ok f,
           match exc? ek with | some e => .error e | none => .ok k0⟩
        let sp : Spsolve ℚ := fun _ _ _ s => px.getD s 0
        let out := analysisStatic cb sp ⟨[], [], last⟩
        let used := usedCols k0 n
        let rng := List.range used.length
        "ok " ++ " ".intercalate (out.calls.map showCall) ++ " | " ++ " ".intercalate (used.map toString) ++ " | " ++
          showQs (rng.flatMap fun r => rng.map fun s => reducedMat k0 used r s) ++ " | " ++
          showQs (rng.map (reducedVec f used)) ++ " | " ++ showQs out.post.increments ++ " | " ++
          (match out.post.cs with
            | [c] => showQs ((List.range n).map c)
            | _ => "-") ++ " | " ++ out.post.lastAnalysis ++ " | " ++ (out.raised.getD "-")
      | none => "err parse"
    | _, _, _, _ => "err parse"
  | _ => "err parse"

def handle (op : String) (rest : String) : String :=
  match op with
  | "fext" =>
    match fields rest with
    | [hd, fs, fi] =>
      match words hd, parseQss? fs, parseQss? fi with
      | [inc, col0, n, size], some fs, some fi =>
        match parseQ? inc, col0.toNat?, n.toNat?, size.toNat? with
        | some inc, some col0, some n, some size =>
          match fs.mapM (mkForce n), fi.mapM (mkForce n) with
          | some fs, some fi =>
            "ok " ++ showQs ((List.range size).map fun k => calcFext fs fi inc col0 n k)
          | _, _ => "err force-shape"
        | _, _, _, _ => "err parse"
      | _, _, _ => "err parse"
    | _ => "err parse"
  | "scatter" =>
    match fields rest with
    | [sz, us, ps] =>
      match sz.toNat?, (words us).mapM String.toNat?, parseQs? ps with
      | some size, some used, some px =>
        "ok " ++ showQs ((List.range size).map fun k => scatter used (fun s => px.getD s 0) k)
      | _, _, _ => "err parse"
    | _ => "err parse"
  | "bayfext" => bayfext rest
  | "asmfext" => asmfext rest
  | "static" => static rest
  | _ => "err unknown-op"

end Compmech.Drv.C07
