/-
Driver ops for C07:
  fext <inc> <col0> <n> <size> | <constant forces> | <incrementable forces>
       each force: fx fy fz g0[0..n) g1[0..n) g2[0..n)   (forces separated by `;`)
       -> ok <size values>
  scatter <size> | <used indices> | <px values>   -> ok <size values>
-/
import CompmechVerif.Model.Static
import CompmechVerif.Drv.Proto
import Mathlib.Algebra.Field.Rat

namespace Compmech.Drv.C07
open Compmech.Proto Compmech.Static

def mkForce (n : Nat) (v : List ℚ) : Option (Force ℚ) :=
  if v.length = 3 + 3 * n then
    some ⟨fun a => v.getD a.val 0, fun a j => if j < n then v.getD (3 + a.val * n + j) 0 else 0⟩
  else none

def handle (op : String) (rest : String) : String :=
  match op with
  | "fext" =>
    match fields rest with
    | [hd, fs, fi] =>
      match words hd, parseQss? fs, parseQss? fi with
      | [inc, col0, n, size], some fs, some fi =>
        match parseQ? inc, col0.toNat?, n.toNat?, size.toNat? with
        | some inc, some col0, some n, some size =>
          match fs.mapM (mkForce n), fi.mapM (mkForce n) with
          | some fs, some fi =>
            "ok " ++ showQs ((List.range size).map fun k => calcFext fs fi inc col0 n k)
          | _, _ => "err force-shape"
        | _, _, _, _ => "err parse"
      | _, _, _ => "err parse"
    | _ => "err parse"
  | "scatter" =>
    match fields rest with
    | [sz, us, ps] =>
      match sz.toNat?, (words us).mapM String.toNat?, parseQs? ps with
      | some size, some used, some px =>
        "ok " ++ showQs ((List.range size).map fun k => scatter used (fun s => px.getD s 0) k)
      | _, _, _ => "err parse"
    | _ => "err parse"
  | _ => "err unknown-op"

end Compmech.Drv.C07
