/-
Driver ops for C10 (validation V of tools/translate/ctables.py): the *emitted* Lean data are
evaluated exactly at rational points and printed, to be compared by tools/props/C10.py with the
freshly compiled C functions and with the independent Python oracle.

  func  <calc_f|calc_fxi|calc_fxixi|calc_vec_f|calc_vec_fxi|calc_vec_fxixi> <i> <xi> <4 flags>
  full  <ff|ffxi|ffxixi|fxifxi|fxifxixi|fxixifxixi> <i> <j> <8 flags>
  sub   <same names> <i> <j> <xi1> <xi2> <8 flags>
  map   <ff|ffxi|fxif|fxifxi|fxixifxixi> <i> <j> <c0> <c1> <8 flags>
  basis <d> <i>            -> coefficients (ascending) of the d-th derivative of the i-th exact function
  gauss <n>                -> `n` binary64-rounded points then `n` weights (exact rationals)
  want  <func|full|sub|map> <d1> <d2> <i> <j>
                           -> `ok <den> <key>:<int> …` the wanted exact term list of the checkers (func: d = d1, index i)
  trapzquad <nx>           -> `xis[0] weights[0] xis[1] weights[1] …` of the model of trapz_quad
  trapz2d <xmin> <xmax> <nx> <ymin> <ymax> <ny>   -> `x y alpha beta` for every point of the model, in order
  simps2d <xmin> <xmax> <nx> <ymin> <ymax> <ny>   -> same for simps2d_points
reply: `ok <rationals…>` or `err <why>`
-/
import Mathlib.Algebra.Field.Rat
import CompmechVerif.Core.CExprSem
import CompmechVerif.Bardell.Basis
import CompmechVerif.Bardell.Gauss
import CompmechVerif.Bardell.Check
import CompmechVerif.Model.Integrate
import CompmechVerif.Drv.Proto
import CompmechVerif.Gen.CTables.Func
import CompmechVerif.Gen.CTables.FullFf
import CompmechVerif.Gen.CTables.FullFfxi
import CompmechVerif.Gen.CTables.FullFfxixi
import CompmechVerif.Gen.CTables.FullFxifxi
import CompmechVerif.Gen.CTables.FullFxifxixi
import CompmechVerif.Gen.CTables.FullFxixifxixi
import CompmechVerif.Gen.CTables.SubFfAll
import CompmechVerif.Gen.CTables.SubFfxiAll
import CompmechVerif.Gen.CTables.SubFfxixiAll
import CompmechVerif.Gen.CTables.SubFxifxiAll
import CompmechVerif.Gen.CTables.SubFxifxixiAll
import CompmechVerif.Gen.CTables.SubFxixifxixiAll
import CompmechVerif.Gen.CTables.MapFfAll
import CompmechVerif.Gen.CTables.MapFfxiAll
import CompmechVerif.Gen.CTables.MapFxifAll
import CompmechVerif.Gen.CTables.MapFxifxiAll
import CompmechVerif.Gen.CTables.MapFxixifxixiAll
import CompmechVerif.Gen.CTables.LegGauss

namespace Compmech.Drv.C10
open Compmech.Proto Compmech.C10

def funcTab : String → Option (List E)
  | "calc_f" => some Gen.Func.calc_f
  | "calc_fxi" => some Gen.Func.calc_fxi
  | "calc_fxixi" => some Gen.Func.calc_fxixi
  | "calc_vec_f" => some Gen.Func.calc_vec_f
  | "calc_vec_fxi" => some Gen.Func.calc_vec_fxi
  | "calc_vec_fxixi" => some Gen.Func.calc_vec_fxixi
  | _ => none

def fullTab : String → Option (List (List E))
  | "ff" => some Gen.FullFf.rows
  | "ffxi" => some Gen.FullFfxi.rows
  | "ffxixi" => some Gen.FullFfxixi.rows
  | "fxifxi" => some Gen.FullFxifxi.rows
  | "fxifxixi" => some Gen.FullFxifxixi.rows
  | "fxixifxixi" => some Gen.FullFxixifxixi.rows
  | _ => none

def subTab : String → Option (List (List E))
  | "ff" => some Gen.SubFfAll.rows
  | "ffxi" => some Gen.SubFfxiAll.rows
  | "ffxixi" => some Gen.SubFfxixiAll.rows
  | "fxifxi" => some Gen.SubFxifxiAll.rows
  | "fxifxixi" => some Gen.SubFxifxixiAll.rows
  | "fxixifxixi" => some Gen.SubFxixifxixiAll.rows
  | _ => none

def mapTab : String → Option (List (List E))
  | "ff" => some Gen.MapFfAll.rows
  | "ffxi" => some Gen.MapFfxiAll.rows
  | "fxif" => some Gen.MapFxifAll.rows
  | "fxifxi" => some Gen.MapFxifxiAll.rows
  | "fxixifxixi" => some Gen.MapFxixifxixiAll.rows
  | _ => none

/-- variables `0,1,…` take the values `vals[0], vals[1], …` -/
def envOf (vals : List ℚ) : Nat → ℚ := fun v => vals.getD v 0

def entry2 (t : List (List E)) (i j : Nat) : Option E := (t[i]?).bind fun r => r[j]?

def qOfInt (n : Int) (d : Nat) : ℚ := (n : ℚ) / (d : ℚ)

def handle (op : String) (rest : String) : String :=
  match op, words rest with
  | "func", name :: i :: vals =>
    match funcTab name, i.toNat?, vals.mapM parseQ? with
    | some t, some i, some [xi, f1, f2, f3, f4] =>
      match t[i]? with
      | some e => "ok " ++ showQ (e.eval (envOf [xi, 0, f1, f2, f3, f4]))
      | none => "err index"
    | _, _, _ => "err parse"
  | "full", name :: i :: j :: vals =>
    match fullTab name, i.toNat?, j.toNat?, vals.mapM parseQ? with
    | some t, some i, some j, some fl =>
      match entry2 t i j, fl.length == 8 with
      | some e, true => "ok " ++ showQ (e.eval (envOf (0 :: 0 :: fl)))
      | _, _ => "err index"
    | _, _, _, _ => "err parse"
  | "sub", name :: i :: j :: vals =>
    match subTab name, i.toNat?, j.toNat?, vals.mapM parseQ? with
    | some t, some i, some j, some (xi1 :: xi2 :: fl) =>
      match entry2 t i j, fl.length == 8 with
      | some e, true => "ok " ++ showQ (e.eval (envOf (xi2 :: xi1 :: fl)))
      | _, _ => "err index"
    | _, _, _, _ => "err parse"
  | "map", name :: i :: j :: vals =>
    match mapTab name, i.toNat?, j.toNat?, vals.mapM parseQ? with
    | some t, some i, some j, some (c0 :: c1 :: fl) =>
      match entry2 t i j, fl.length == 8 with
      | some e, true => "ok " ++ showQ (e.eval (envOf (c1 :: c0 :: fl)))
      | _, _ => "err index"
    | _, _, _, _ => "err parse"
  | "basis", [d, i] =>
    match d.toNat?, i.toNat? with
    | some d, some i =>
      let p := dbasis d i
      "ok " ++ showQs (p.num.map fun c => qOfInt c p.den)
    | _, _ => "err parse"
  | "want", [kind, d1, d2, i, j] =>
    match d1.toNat?, d2.toNat?, i.toNat?, j.toNat? with
    | some d1, some d2, some i, some j =>
      let p := dbasis d1 i
      let q := dbasis d2 j
      let den := p.den * q.den * intL
      let out := fun (t : Terms) (den : Nat) =>
        "ok " ++ toString den ++ " " ++ " ".intercalate (t.map fun x => toString x.1 ++ ":" ++ toString x.2)
      match kind with
      | "func" => out (funcWant d1 i).1 (funcWant d1 i).2
      | "full" => out (fullWant (flagKey2 i j) p.num q.num) den
      | "sub" => out (subWant (flagKey2 i j) (toTerms p.num) (toTerms q.num)) den
      | "map" => out (mapWant (flagKey2 i j) (mus p.num) q.num) den
      | _ => "err kind"
    | _, _, _, _ => "err parse"
  | "gauss", [n] =>
    match n.toNat? with
    | some n =>
      match Gen.LegGauss.table.find? (fun t => t.1 == n) with
      | some t =>
        let f := fun (l : Bool × Nat × Nat) => (if l.1 then (-1 : ℚ) else 1) * qOfInt l.2.1 (2 ^ l.2.2)
        "ok " ++ showQs ((roundAll t.2.1).map f ++ (roundAll t.2.2).map f)
      | none => "err no-such-order"
    | none => "err parse"
  | "trapzquad", [n] =>
    match n.toNat? with
    | some n => "ok " ++ showQs ((Compmech.Integrate.trapzQuad (K := ℚ) n).flatMap fun p => [p.1, p.2])
    | none => "err parse"
  | kind, [xmin, xmax, nx, ymin, ymax, ny] =>
    match parseQ? xmin, parseQ? xmax, nx.toNat?, parseQ? ymin, parseQ? ymax, ny.toNat? with
    | some xmin, some xmax, some nx, some ymin, some ymax, some ny =>
      let pts : Option (List (Compmech.Integrate.Pt ℚ)) :=
        if kind = "trapz2d" then some (Compmech.Integrate.trapz2dPoints xmin xmax nx ymin ymax ny)
        else if kind = "simps2d" then some (Compmech.Integrate.simps2dPoints xmin xmax nx ymin ymax ny)
        else none
      match pts with
      | some pts => "ok " ++ showQs (pts.flatMap fun p => [p.x, p.y, p.alpha, p.beta])
      | none => "err unknown-op"
    | _, _, _, _, _, _ => "err parse"
  | _, _ => "err unknown-op"

end Compmech.Drv.C10
