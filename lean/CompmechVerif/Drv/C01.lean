/-
Driver ops for C01 (laminate):
  stack <offset> | <plyt or -> | <laminaprop or -> | <plyts> | <laminaprops ;-sep> | <c s ; c s ; ...>
reply:  ok <t> <A: 9> <B: 9> <D: 9>       (order q11 q12 q22 q16 q26 q66 q44 q45 q55)
        err noThickness | noLaminaprop | badLaminaprop | parse
  prop <list>      -> ok e1 e2 nu12 g12 g13 g23 e3 nu13 nu23 | err
  mat <list>       -> ok <c: 9> <q: 12> <u: 45 row-major> | err badLaminaprop       (MatLamina.rebuild)
  lam <ctor> # <step> # <step> …         one `Laminate` OBJECT and a sequence of method calls / assignments on it
     ctor : fresh
          | stack <the six |-fields of `stack`>
          | lp <thickness> | <laminaprop> | <xiA1..4 xiB1..4 xiD1..4 xiE1..4>
     step : cc | rebuild | clp | abde | fbal | fsymlp | forth | fsym | eqmod          (the modelled methods)
          | offset <q> | matobj <laminaprop> | trig <c2 s2 c4 s4 ; …> | xiA <5> | xiB <5> | xiD <5> | xiE <5> | t <q>
     reply: one snapshot per stage (constructor first), joined by ` # `:
          <ok | err Kind> ; t ; e1 e2 g12 nu12 nu21 ; xiA ; xiB ; xiD ; xiE ; A ; B ; D ; E ; ABD ; ABDE ; AG ; BG ; DG
          (`-` for None; matrices row-major).  A constructor that raises: `err <kind>` alone.
-/
import CompmechVerif.Model.LaminationParams
import CompmechVerif.Drv.Proto

namespace Compmech.Drv.C01
open Compmech.Proto Compmech.Laminate

def q9list (q : Q9 ℚ) : List ℚ := [q.q11, q.q12, q.q22, q.q16, q.q26, q.q66, q.q44, q.q45, q.q55]

def optQ (s : String) : Option (Option ℚ) :=
  if s = "-" then some none else (parseQ? s).map some

def optQs (s : String) : Option (Option (List ℚ)) :=
  if s = "-" then some none else (parseQs? s).map some

def pairs : List (List ℚ) → Option (List (ℚ × ℚ))
  | [] => some []
  | [c, s] :: r => (pairs r).map fun t => (c, s) :: t
  | _ => none

/-- exact inverse by Gauss–Jordan elimination over ℚ (stands for `np.linalg.inv`; `none` = singular) -/
def inv6 (M : Mat 6 ℚ) : Option (Mat 6 ℚ) := Id.run do
  let n := 6
  let mut a : Array (Array ℚ) := Array.ofFn fun (i : Fin 6) =>
    (Array.ofFn fun (j : Fin 6) => M i j) ++ (Array.ofFn fun (j : Fin 6) => if i = j then (1 : ℚ) else 0)
  for col in [0:n] do
    let mut piv : Option Nat := none
    for r in [col:n] do
      if piv.isNone && a[r]![col]! ≠ 0 then piv := some r
    match piv with
    | none => return none
    | some p =>
      let rowp := a[p]!
      a := a.set! p a[col]!
      a := a.set! col rowp
      let pv := a[col]![col]!
      a := a.set! col (a[col]!.map (· / pv))
      for r in [0:n] do
        if r ≠ col then
          let f := a[r]![col]!
          a := a.set! r ((a[r]!.zip a[col]!).map fun xy => xy.1 - f * xy.2)
  let res := a
  return some fun i j => res[i.val]![j.val + 6]!

def showOpt (x : Option ℚ) : String := match x with | none => "-" | some v => showQ v

def matList {n : Nat} (M : Mat n ℚ) : List ℚ :=
  (List.finRange n).flatMap fun i => (List.finRange n).map fun j => M i j

def showMat {n : Nat} (M : Option (Mat n ℚ)) : String :=
  match M with | none => "-" | some M => showQs (matList M)

def showXi (x : Option (Xi ℚ)) : String :=
  match x with | none => "-" | some x => showQs [x.x0, x.x1, x.x2, x.x3, x.x4]

def errName : LamError → String
  | .attributeError => "AttributeError"
  | .typeError => "TypeError"
  | .runtimeError => "RuntimeError"
  | .linAlgError => "LinAlgError"
  | .zeroDivisionError => "ZeroDivisionError"

def snapshot (L : Lam ℚ) (e : Option LamError) : String :=
  let st := match e with | none => "ok" | some k => "err " ++ errName k
  " ; ".intercalate
    [st, showOpt L.t,
     " ".intercalate [showOpt L.e1, showOpt L.e2, showOpt L.g12, showOpt L.nu12, showOpt L.nu21],
     showXi L.xiA, showXi L.xiB, showXi L.xiD, showXi L.xiE,
     showMat L.A, showMat L.B, showMat L.D, showMat L.E, showMat L.ABD, showMat L.ABDE,
     showMat L.AG, showMat L.BG, showMat L.DG]

def xiOf : List ℚ → Option (Xi ℚ)
  | [a, b, c, d, e] => some ⟨a, b, c, d, e⟩
  | _ => none

def trigsOf : List (List ℚ) → Option (List (Trig ℚ))
  | [] => some []
  | [a, b, c, d] :: r => (trigsOf r).map fun t => ⟨a, b, c, d⟩ :: t
  | _ => none

def setTrigs : List (LPly ℚ) → List (Trig ℚ) → List (LPly ℚ)
  | p :: ps, g :: gs => { p with trig := some g } :: setTrigs ps gs
  | ps, _ => ps

/-- one step on the object; `none` = unparsable -/
def step (L : Lam ℚ) (s : String) : Option (Lam ℚ × Option LamError) :=
  match words s with
  | ["cc"] => some (L.calcConstitutiveMatrix, none)
  | ["rebuild"] => some (L.rebuild, none)
  | ["clp"] => some L.calcLaminationParameters
  | ["abde"] => some L.calcABDEFromLP
  | ["fbal"] => some L.forceBalancedLP
  | ["fsymlp"] => some L.forceSymmetricLP
  | ["forth"] => some L.forceOrthotropic
  | ["fsym"] => some L.forceSymmetric
  | ["eqmod"] => some (L.calcEquivalentModulus inv6)
  | ["offset", v] => (parseQ? v).map fun d => ({ L with offset := d }, none)
  | ["t", v] => (parseQ? v).map fun d => ({ L with t := some d }, none)
  | "matobj" :: r =>
    match r.mapM parseQ? with
    | some p => (readLaminaprop p).map fun m => ({ L with matobj := some m }, none)
    | none => none
  | "trig" :: r =>
    match (parseQss? (" ".intercalate r)).bind trigsOf with
    | some ts => some ({ L with plies := setTrigs L.plies ts }, none)
    | none => none
  | "xiA" :: r => ((r.mapM parseQ?).bind xiOf).map fun x => ({ L with xiA := some x }, none)
  | "xiB" :: r => ((r.mapM parseQ?).bind xiOf).map fun x => ({ L with xiB := some x }, none)
  | "xiD" :: r => ((r.mapM parseQ?).bind xiOf).map fun x => ({ L with xiD := some x }, none)
  | "xiE" :: r => ((r.mapM parseQ?).bind xiOf).map fun x => ({ L with xiE := some x }, none)
  | _ => none

def runSteps : Lam ℚ → List String → List String → String
  | _, [], acc => " # ".intercalate acc.reverse
  | L, s :: ss, acc =>
    match step L s with
    | none => "err parse"
    | some (L', e) => runSteps L' ss (snapshot L' e :: acc)

def ctor (s : String) : Except String (Lam ℚ × Option LamError) :=
  let s := s.trimAscii.toString
  if s = "fresh" then .ok (Lam.fresh, none)
  else if s.startsWith "stack " then
    match fields ((s.drop 6).toString) with
    | [off, plyt, lp, plyts, lps, cs] =>
      match parseQ? off, optQ plyt, optQs lp, parseQs? plyts, parseQss? lps, (parseQss? cs).bind pairs with
      | some off, some plyt, some lp, some plyts, some lps, some cs =>
        match readStackLam cs plyt lp plyts lps off with
        | .ok L => .ok (L, none)
        | .error .noThickness => .error "err noThickness"
        | .error .noLaminaprop => .error "err noLaminaprop"
        | .error .badLaminaprop => .error "err badLaminaprop"
      | _, _, _, _, _, _ => .error "err parse"
    | _ => .error "err parse"
  else if s.startsWith "lp " then
    match fields ((s.drop 3).toString) with
    | [th, lp, xis] =>
      match parseQ? th, parseQs? lp, parseQs? xis with
      | some th, some lp, some [a1, a2, a3, a4, b1, b2, b3, b4, d1, d2, d3, d4, e1, e2, e3, e4] =>
        match readLaminationParameters th lp ⟨a1, a2, a3, a4⟩ ⟨b1, b2, b3, b4⟩ ⟨d1, d2, d3, d4⟩ ⟨e1, e2, e3, e4⟩ with
        | some r => .ok r
        | none => .error "err badLaminaprop"
      | _, _, _ => .error "err parse"
    | _ => .error "err parse"
  else .error "err parse"

def handle (op : String) (rest : String) : String :=
  match op with
  | "stack" =>
    match fields rest with
    | [off, plyt, lp, plyts, lps, cs] =>
      match parseQ? off, optQ plyt, optQs lp, parseQs? plyts, parseQss? lps, (parseQss? cs).bind pairs with
      | some off, some plyt, some lp, some plyts, some lps, some cs =>
        match readStack cs plyt lp plyts lps off with
        | .ok (acc, t) => "ok " ++ showQs (t :: (q9list acc.A ++ q9list acc.B ++ q9list acc.D))
        | .error .noThickness => "err noThickness"
        | .error .noLaminaprop => "err noLaminaprop"
        | .error .badLaminaprop => "err badLaminaprop"
      | _, _, _, _, _, _ => "err parse"
    | _ => "err parse"
  | "prop" =>
    match parseQs? rest with
    | some p =>
      match readLaminaprop p with
      | some m => "ok " ++ showQs [m.e1, m.e2, m.nu12, m.g12, m.g13, m.g23, m.e3, m.nu13, m.nu23, m.nu21]
      | none => "err badLaminaprop"
    | none => "err parse"
  | "mat" =>
    match parseQs? rest with
    | some p =>
      match readLaminaprop p with
      | some m =>
        let c := matC m
        let q := matQ m
        let U := uMat m
        let row (r : Xi ℚ) : List ℚ := [r.x0, r.x1, r.x2, r.x3, r.x4]
        "ok " ++ showQs ([c.c11, c.c12, c.c13, c.c22, c.c23, c.c33, c.c44, c.c55, c.c66]
          ++ [q.q11, q.q12, q.q13, q.q21, q.q22, q.q23, q.q31, q.q32, q.q33, q.q44, q.q55, q.q66]
          ++ row U.r0 ++ row U.r1 ++ row U.r2 ++ row U.r3 ++ row U.r4 ++ row U.r5 ++ row U.r6 ++ row U.r7 ++ row U.r8)
      | none => "err badLaminaprop"
    | none => "err parse"
  | "lam" =>
    match rest.splitOn "#" with
    | c :: steps =>
      match ctor c with
      | .error e => e
      | .ok (L, e) => runSteps L steps [snapshot L e]
    | [] => "err parse"
  | _ => "err unknown-op"

end Compmech.Drv.C01
