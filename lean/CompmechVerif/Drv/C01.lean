/-
Driver ops for C01 (laminate):
  stack <offset> | <plyt or -> | <laminaprop or -> | <plyts> | <laminaprops ;-sep> | <c s ; c s ; ...>
reply:  ok <t> <A: 9> <B: 9> <D: 9>       (order q11 q12 q22 q16 q26 q66 q44 q45 q55)
        err noThickness | noLaminaprop | badLaminaprop | parse
  prop <list>      -> ok e1 e2 nu12 g12 g13 g23 e3 nu13 nu23 | err
-/
import CompmechVerif.Model.Laminate
import CompmechVerif.Drv.Proto

namespace Compmech.Drv.C01
open Compmech.Proto Compmech.Laminate

def q9list (q : Q9 ℚ) : List ℚ := [q.q11, q.q12, q.q22, q.q16, q.q26, q.q66, q.q44, q.q45, q.q55]

def optQ (s : String) : Option (Option ℚ) :=
  if s = "-" then some none else (parseQ? s).map some

def optQs (s : String) : Option (Option (List ℚ)) :=
  if s = "-" then some none else (parseQs? s).map some

def pairs : List (List ℚ) → Option (List (ℚ × ℚ))
  | [] => some []
  | [c, s] :: r => (pairs r).map fun t => (c, s) :: t
  | _ => none

def handle (op : String) (rest : String) : String :=
  match op with
  | "stack" =>
    match fields rest with
    | [off, plyt, lp, plyts, lps, cs] =>
      match parseQ? off, optQ plyt, optQs lp, parseQs? plyts, parseQss? lps, (parseQss? cs).bind pairs with
      | some off, some plyt, some lp, some plyts, some lps, some cs =>
        match readStack cs plyt lp plyts lps off with
        | .ok (acc, t) => "ok " ++ showQs (t :: (q9list acc.A ++ q9list acc.B ++ q9list acc.D))
        | .error .noThickness => "err noThickness"
        | .error .noLaminaprop => "err noLaminaprop"
        | .error .badLaminaprop => "err badLaminaprop"
      | _, _, _, _, _, _ => "err parse"
    | _ => "err parse"
  | "prop" =>
    match parseQs? rest with
    | some p =>
      match readLaminaprop p with
      | some m => "ok " ++ showQs [m.e1, m.e2, m.nu12, m.g12, m.g13, m.g23, m.e3, m.nu13, m.nu23, m.nu21]
      | none => "err badLaminaprop"
    | none => "err parse"
  | _ => "err unknown-op"

end Compmech.Drv.C01
