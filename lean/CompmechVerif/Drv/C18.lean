/-
Driver ops for C18 (cone/cylinder glue).  Fields are separated by `|`; `-` is Python's `None`; numbers are exact
rationals `n/d` (integers may be written without denominator); COO triplets are `r c v ; r c v ; …`.

  geom  r1 | r2 | H | L | sina cosa
        -> ok r1 r2 H L            | err noRadius | err typeError | err nonFinite
  nxx   n2 | none / s x / a x0 x1 … | Fc | MLA | xiLA | pi r2 cosa
        -> ok x0 x1 …              | err badNxxtop | err indexError
  excl  num0 n | E… | triplets
        -> ok uu0 uu1 kk0 kk1 ku0 ku1 uk0 uk1 | kuu | kkk | kku | kuk        (triplets)
  fullc size | E… | ck… | inc | cu…
        -> ok c…
  del   E… | v…                    -> ok v'…                       (np.delete on a vector)
  fext  size num0 num1 num2 m1 m2 n2 i0 j0 dofs | E… | inc uTM thetaT LA pi r2 cosa sina L P Pinc T Tinc |
        bc24 clpt fsdt pdT | Nxxtop… | forces | forcesInc | g00 (flat, row-major) | k0uk triplets
        (a force is `fx ft fz g…` with g flat row-major, forces separated by `;`)
        -> ok f…                   | err pressureFsdt
  static pdC linearStatic | <the fext fields>
        -> ok f…  (right-hand side handed to solve; the matrix is k0uu unchanged) | err …
-/
import CompmechVerif.Model.ConeCylGlue
import CompmechVerif.Drv.Proto

namespace Compmech.Drv.C18
open Compmech.Proto Compmech.ConeCyl

def optQ (s : String) : Option (Option ℚ) :=
  if s = "-" then some none else (parseQ? s).map some

def toNat (x : ℚ) : Nat := x.num.toNat

def nats? (s : String) : Option (List Nat) := (parseQs? s).map fun l => l.map toNat

def triplets? (s : String) : Option (Coo ℚ) :=
  (parseQss? s).bind fun rows => rows.mapM fun r =>
    match r with
    | [a, b, v] => some (toNat a, toNat b, v)
    | _ => none

def showCoo (l : Coo ℚ) : String :=
  " ; ".intercalate (l.map fun e => s!"{e.1} {e.2.1} {showQ e.2.2}")

def chunks (n : Nat) (l : List ℚ) : List (List ℚ) :=
  if n = 0 then [] else
    (List.range (l.length / n)).map fun k => (l.drop (k * n)).take n

def force? (size : Nat) (l : List ℚ) : Option (PointForce ℚ) :=
  match l with
  | fx :: ft :: fz :: g => some ⟨fx, ft, fz, chunks size g⟩
  | _ => none

def forces? (size : Nat) (s : String) : Option (List (PointForce ℚ)) :=
  (parseQss? s).bind fun rows => rows.mapM (force? size)

def fextIn? (fs : List String) : Option (FextIn ℚ) :=
  match fs with
  | [dims, e, nums, flags, nxx, forces, forcesInc, g00, kuk] =>
    match nats? dims, nats? e, parseQs? nums, nats? flags, parseQs? nxx, parseQs? g00, triplets? kuk with
    | some [size, num0, num1, num2, m1, m2, n2, i0, j0, dofs], some E,
      some [inc, uTM, thetaT, la, pi, r2, cosa, sina, L, P, Pinc, T, Tinc],
      some [bc24, clpt, fsdt, pdT], some nxx, some g00, some kuk =>
      match forces? size forces, forces? size forcesInc with
      | some f, some fi =>
        some { size, num0, num1, num2, m1, m2, n2, i0, j0, dofs, E, forces := f, forcesInc := fi,
               inc, uTM, thetaT, LA := la, Nxxtop := nxx, pi, r2, cosa, sina, L,
               bc24 := bc24 = 1, clpt := clpt = 1, fsdt := fsdt = 1, pdT := pdT = 1,
               P, Pinc, T, Tinc, g00 := chunks size g00, k0uk := kuk }
      | _, _ => none
    | _, _, _, _, _, _, _ => none
  | _ => none

def handle (op : String) (rest : String) : String :=
  match op with
  | "geom" =>
    match fields rest with
    | [r1, r2, h, l, sc] =>
      match optQ r1, optQ r2, optQ h, optQ l, parseQs? sc with
      | some r1, some r2, some h, some l, some [s, c] =>
        match rebuildGeom ⟨r1, r2, h, l⟩ s c with
        | .ok g => "ok " ++ showQs [g.r1, g.r2, g.H, g.L]
        | .error .noRadius => "err noRadius"
        | .error .typeError => "err typeError"
        | .error .nonFinite => "err nonFinite"
      | _, _, _, _, _ => "err parse"
    | _ => "err parse"
  | "nxx" =>
    match fields rest with
    | [n2, nx, fc, mla, xi, nums] =>
      let nxin : Option (NxxIn ℚ) :=
        match words nx with
        | ["none"] => some .none
        | ["s", x] => (parseQ? x).map .scalar
        | "a" :: xs => (xs.mapM parseQ?).map .array
        | _ => none
      match nats? n2, nxin, optQ fc, optQ mla, optQ xi, parseQs? nums with
      | some [n2], some nxin, some fc, some mla, some xi, some [pi, r2, cosa] =>
        match rebuildNxxtop n2 nxin fc mla xi pi r2 cosa with
        | .ok l => "ok " ++ showQs l
        | .error .badNxxtop => "err badNxxtop"
        | .error .indexError => "err indexError"
      | _, _, _, _, _, _ => "err parse"
    | _ => "err parse"
  | "excl" =>
    match fields rest with
    | [dims, e, k] =>
      match nats? dims, nats? e, triplets? k with
      | some [num0, n], some E, some k =>
        let b := excludeDofsMatrix num0 E n k
        let sh := [b.shapeUU.1, b.shapeUU.2, b.shapeKK.1, b.shapeKK.2, b.shapeKU.1, b.shapeKU.2,
                   b.shapeUK.1, b.shapeUK.2]
        "ok " ++ " ".intercalate (sh.map toString) ++ " | " ++ showCoo b.kuu ++ " | " ++ showCoo b.kkk
          ++ " | " ++ showCoo b.kku ++ " | " ++ showCoo b.kuk
      | _, _, _ => "err parse"
    | _ => "err parse"
  | "fullc" =>
    match fields rest with
    | [size, e, ck, inc, cu] =>
      match nats? size, nats? e, parseQs? ck, parseQ? inc, parseQs? cu with
      | some [size], some E, some ck, some inc, some cu => "ok " ++ showQs (calcFullC size E ck inc cu)
      | _, _, _, _, _ => "err parse"
    | _ => "err parse"
  | "del" =>
    match fields rest with
    | [e, v] =>
      match nats? e, parseQs? v with
      | some E, some v => "ok " ++ showQs (npDelete E v)
      | _, _ => "err parse"
    | _ => "err parse"
  | "fext" =>
    match fextIn? (fields rest) with
    | some a =>
      match calcFext a with
      | .ok f => "ok " ++ showQs f
      | .error .pressureFsdt => "err pressureFsdt"
    | none => "err parse"
  | "static" =>
    match fields rest with
    | hd :: tl =>
      match nats? hd, fextIn? tl with
      | some [pdC, lin], some a =>
        match staticLinear (fun _ f => f.map fun _ => 0) (pdC = 1) (lin = 1) [] a with
        | .ok ((_, f), (incs, _)) => "ok " ++ showQs f ++ " | " ++ showQs incs
        | .error .prescribedShortening => "err prescribedShortening"
        | .error .modelNotStatic => "err modelNotStatic"
        | .error (.fext .pressureFsdt) => "err pressureFsdt"
      | _, _ => "err parse"
    | _ => "err parse"
  | _ => "err unknown-op"

end Compmech.Drv.C18
