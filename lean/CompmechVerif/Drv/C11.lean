/-
Driver op for C11 (chunking model):
  chunk <cores> <npts>     -> ok <indices returned by chunkedMap id on [0..npts) >
The per-point function is the identity on point indices (padding point = npts), so the reply lists which
input point each output slot was computed from.
-/
import CompmechVerif.Model.Chunking
import CompmechVerif.Drv.Proto

namespace Compmech.Drv.C11
open Compmech.Proto Compmech.Chunking

def handle (op : String) (rest : String) : String :=
  match op with
  | "chunk" =>
    match words rest with
    | [c, n] =>
      match c.toNat?, n.toNat? with
      | some cores, some npts =>
        if cores = 0 then "err cores"
        else "ok " ++ " ".intercalate ((chunkedMap id npts (List.range npts) cores).map toString)
      | _, _ => "err parse"
    | _ => "err parse"
  | _ => "err unknown-op"

end Compmech.Drv.C11
