/-
Driver ops for C11.

  chunk <cores> <npts>     -> ok <indices returned by chunkedMap id on [0..npts) >
      (chunking model: the per-point function is the identity on point indices (padding point = npts), so the reply lists which input
      point each output slot was computed from)

Glue of the field queries (`Model/FieldGlue.lean`), evaluated at ℚ with the FAKE point kernels `fake` below (the harness installs the
same functions in place of the compiled `fuvw / fstrain`, or lets the compiled ones run and compares calls and arrangement only):

  pfield <uvw|strain|stress> | <panel> | gridx=<int> gridy=<int> nl=0|1 Farg=0|1 | <c> | <xs> | <ys>
  afield <uvw|strain|stress> | cores=<n> | <panel> ; <panel> ; … | group=<n> gridx=<int> gridy=<int> nl=0|1 | <c>
  ainit <m>,<n> <m>,<n> …

  <panel>  model=unset|invalid|plate|platew|cpanel|kpanel a=<q> b=<q> m=<n> n=<n> cores=<n> id=<n> F=0|1 group=<n> cs=<n|-> ce=<n|->
           (`F=1`: `self.F = fakeF id`; `Farg=1`: the argument `F = fakeF (id + 100)`; `cs, ce`: `col_start, col_end`; an assembly
           line runs `PanelAssembly.__init__` (`Assembly.new`) on the panels first when `init=1` is among the assembly options)
  <c>      s <q> | v <q> <q> … | nd
  <xs>     - | <d0> <d1> … : <q> <q> …            (shape before the colon — nothing for a 0-d array —, C-order elements after it)

replies
  pfield:  ok | <call> & … | <shape> ; <array> ; <array> ; … | <post>        (uvw: u v w phix phiy; strain: x y exx eyy gxy kxx kyy kxy;
           err <PyExc> <tag> | <number of compiled calls made> | <post>        stress: x y Nxx Nyy Nxy Mxx Myy Mxy)
           <call> = <fuvw|fstrain> <clt|cltW> <id> <cores> <nl> ; <c> ; <xs> ; <ys>
           <post> = Xs <shape> : <data> ; Ys … ; u … ; v … ; w … ; phix … ; phiy …   (`-` for an attribute that is still `None`)
  afield:  ok | <call> ; <shape> ; <x> ; <y> ; <array> ; … & <the same for the next panel of the group> & …
           err <PyExc> <tag>
  ainit:   <col_start>:<col_end> … | <get_size()>
-/
import CompmechVerif.Model.Chunking
import CompmechVerif.Model.FieldGlue
import CompmechVerif.Drv.Proto

namespace Compmech.Drv.C11
open Compmech.Proto Compmech.Chunking Compmech.FieldGlue

/-! ### fake kernels (mirrored in tools/props/C11.py: `fake_uvw`, `fake_strain`, `fake_F`) -/

/-- `Σ (i+1) c_i`: identifies the slice including its order -/
def hsum : Nat → List ℚ → ℚ
  | _, [] => 0
  | i, x :: t => ((i + 1 : Nat) : ℚ) * x + hsum (i + 1) t

def fake : Kernels ℚ Nat :=
  { uvw := fun fm p c pt =>
      ⟨pt.1 + (p.rest : ℚ), 2 * pt.2 + (match fm with | .cltW => 1 / 2 | .clt => 0), hsum 0 c, (c.length : ℚ), pt.1 - 3 * pt.2⟩
    strain := fun p c flag pt => ⟨pt.1 + (p.rest : ℚ), pt.2, hsum 0 c, (flag : ℚ), (c.length : ℚ), pt.1 - 3 * pt.2⟩ }

def fakeF (id : Nat) : Fin 6 → Fin 6 → ℚ := fun r q => ((id + 1 : Nat) : ℚ) + 2 * (r.val : ℚ) + (q.val : ℚ) / 4

/-! ### parsing -/

def kvs (s : String) : List (String × String) :=
  (words s).filterMap fun w => match w.splitOn "=" with
    | [k, v] => some (k, v)
    | _ => none

def look (kv : List (String × String)) (k : String) : Option String := (kv.find? fun e => e.1 == k).map (·.2)
def gQ (kv : List (String × String)) (k : String) : Option ℚ := (look kv k).bind parseQ?
def gN (kv : List (String × String)) (k : String) : Option Nat := (look kv k).bind String.toNat?
def gI (kv : List (String × String)) (k : String) : Option Int := (look kv k).bind String.toInt?
def gB (kv : List (String × String)) (k : String) : Option Bool :=
  (look kv k).bind fun s => if s = "1" then some true else if s = "0" then some false else none
def gON (kv : List (String × String)) (k : String) : Option (Option Nat) :=
  (look kv k).bind fun s => if s = "-" then some none else s.toNat?.map some

def model? : String → Option PanelGlue.ModelAttr
  | "unset" => some .unset
  | "invalid" => some .invalid
  | "plate" => some (.kind .plate)
  | "platew" => some (.kind .plateW)
  | "cpanel" => some (.kind .cpanel)
  | "kpanel" => some (.kind .kpanel)
  | _ => none

def panel? (s : String) : Option (Panel ℚ Nat Nat) := do
  let kv := kvs s
  let id ← gN kv "id"
  let hasF ← gB kv "F"
  let d : PanelDef ℚ Nat := {
    model := ← (look kv "model").bind model?, a := ← gQ kv "a", b := ← gQ kv "b", m := ← gN kv "m", n := ← gN kv "n",
    F := if hasF then some (fakeF id) else none, outNumCores := ← gN kv "cores", rest := id }
  pure { d := d, group := ← gN kv "group", colStart := ← gON kv "cs", colEnd := ← gON kv "ce" }

def carg? (s : String) : Option (CArg ℚ) :=
  match words s with
  | ["nd"] => some .nd
  | ["s", x] => (parseQ? x).map .scalar
  | "v" :: xs => (xs.mapM parseQ?).map .vec
  | _ => none

def arr? (s : String) : Option (Option (Arr ℚ)) :=
  if s.trimAscii.toString = "-" then some none else
  match s.splitOn ":" with
  | [sh, da] =>
    match (words sh).mapM String.toNat?, parseQs? da with
    | some shape, some data => some (some ⟨shape, data⟩)
    | _, _ => none
  | _ => none

/-! ### printing -/

def showShape (l : List Nat) : String := " ".intercalate (l.map toString)
def showArr (A : Arr ℚ) : String := showShape A.shape ++ " : " ++ showQs A.data
def showOArr : Option (Arr ℚ) → String
  | none => "-"
  | some A => showArr A

def showFm : FieldModule → String
  | .clt => "clt"
  | .cltW => "cltW"

def showCall (c : KCall ℚ Nat) : String :=
  (if c.isStrain then "fstrain " else "fuvw ") ++ showFm c.fm ++ s!" {c.p.rest} {c.cores} {c.nl} ; " ++ showQs c.c ++ " ; " ++
    showQs (c.pts.map Prod.fst) ++ " ; " ++ showQs (c.pts.map Prod.snd)

def errTag : Err → String
  | .gridNegative => "gridNegative" | .shapeMismatch => "shapeMismatch" | .modelKey => "modelKey" | .noFstrain => "noFstrain"
  | .cNdim => "cNdim" | .cScalarIndex => "cScalarIndex" | .noLaminate => "noLaminate"

def showPost (P : Panel ℚ Nat Nat) : String :=
  " ; ".intercalate [ "Xs " ++ showOArr P.out.Xs, "Ys " ++ showOArr P.out.Ys, "u " ++ showOArr P.out.u, "v " ++ showOArr P.out.v,
    "w " ++ showOArr P.out.w, "phix " ++ showOArr P.out.phix, "phiy " ++ showOArr P.out.phiy ]

def uvwCols (r : Arr (Uvw5 ℚ)) : List (List ℚ) :=
  [r.data.map (·.u), r.data.map (·.v), r.data.map (·.w), r.data.map (·.phix), r.data.map (·.phiy)]
def strainCols (r : Arr (Strain6 ℚ)) : List (List ℚ) :=
  [r.data.map (·.exx), r.data.map (·.eyy), r.data.map (·.gxy), r.data.map (·.kxx), r.data.map (·.kyy), r.data.map (·.kxy)]
def stressCols (r : Arr (Res6 ℚ)) : List (List ℚ) :=
  [r.data.map (·.Nxx), r.data.map (·.Nyy), r.data.map (·.Nxy), r.data.map (·.Mxx), r.data.map (·.Myy), r.data.map (·.Mxy)]

def showCols (shape : List Nat) (cols : List (List ℚ)) : String :=
  " ; ".intercalate (showShape shape :: cols.map showQs)

def showOutcome {α : Type} (o : Outcome ℚ Nat Nat α) (render : α → String) : String :=
  match o.res with
  | .error e => "err " ++ e.pyType ++ " " ++ errTag e ++ s!" | {o.calls.length} | " ++ showPost o.post
  | .ok r => "ok | " ++ " & ".intercalate (o.calls.map showCall) ++ " | " ++ render r ++ " | " ++ showPost o.post

def showAsm {V : Type} (r : Except Err (List (PanelField ℚ Nat V))) (cols : Arr V → List (List ℚ)) : String :=
  match r with
  | .error e => "err " ++ e.pyType ++ " " ++ errTag e
  | .ok l => "ok | " ++ " & ".intercalate (l.map fun e =>
      showCall e.call ++ " ; " ++ showCols e.vals.shape ([e.x.data, e.y.data] ++ cols e.vals))

def handle (op : String) (rest : String) : String :=
  match op with
  | "chunk" =>
    match words rest with
    | [c, n] =>
      match c.toNat?, n.toNat? with
      | some cores, some npts =>
        if cores = 0 then "err cores"
        else "ok " ++ " ".intercalate ((chunkedMap id npts (List.range npts) cores).map toString)
      | _, _ => "err parse"
    | _ => "err parse"
  | "pfield" =>
    match fields rest with
    | [meth, ps, as, cs, xs, ys] =>
      let kv := kvs as
      match panel? ps, gI kv "gridx", gI kv "gridy", gB kv "nl", gB kv "Farg", carg? cs, arr? xs, arr? ys with
      | some P, some gx, some gy, some nl, some farg, some c, some X, some Y =>
        match meth with
        | "uvw" => showOutcome (P.uvw fake c X Y gx gy) fun r => showCols r.shape (uvwCols r)
        | "strain" => showOutcome (P.strain fake c X Y gx gy nl) fun r => showCols r.e.shape ([r.x.data, r.y.data] ++ strainCols r.e)
        | "stress" =>
          showOutcome (P.stress fake c (if farg then some (fakeF (P.d.rest + 100)) else none) X Y gx gy nl)
            fun r => showCols r.N.shape ([r.x.data, r.y.data] ++ stressCols r.N)
        | _ => "err unknown-method"
      | _, _, _, _, _, _, _, _ => "err parse"
    | _ => "err parse"
  | "afield" =>
    match fields rest with
    | [meth, aopts, ps, as, cs] =>
      let kv := kvs as
      let akv := kvs aopts
      match (ps.splitOn ";").mapM panel?, gN akv "cores", gB akv "init", gN kv "group", gI kv "gridx", gI kv "gridy", gB kv "nl", carg? cs with
      | some panels, some cores, some init, some g, some gx, some gy, some nl, some c =>
        let A : Assembly ℚ Nat Nat := if init then { Assembly.new panels with outNumCores := cores } else ⟨panels, cores, none⟩
        match meth with
        | "uvw" => showAsm (A.uvw fake c g gx gy) uvwCols
        | "strain" => showAsm (A.strain fake c g gx gy nl) strainCols
        | "stress" => showAsm (A.stress fake c g gx gy nl) stressCols
        | _ => "err unknown-method"
      | _, _, _, _, _, _, _, _ => "err parse"
    | _ => "err parse"
  | "ainit" =>
    let mns := (words rest).filterMap fun w => match w.splitOn "," with
      | [m, n] => match m.toNat?, n.toNat? with
        | some m, some n => some (m, n)
        | _, _ => none
      | _ => none
    let A : Assembly ℚ Nat Nat :=
      Assembly.new (mns.map fun mn => { d := ⟨.unset, 0, 0, mn.1, mn.2, none, 1, 0⟩, group := 0 })
    let show1 : Option Nat → String := fun o => match o with | some x => toString x | none => "-"
    " ".intercalate (A.panels.map fun p => show1 p.colStart ++ ":" ++ show1 p.colEnd) ++ s!" | {A.getSize.1}"
  | _ => "err unknown-op"

end Compmech.Drv.C11
