/-
Driver ops for C12 (penalty constants):
  ktkr <connection_type> | <A11 A22 D11 D22 t of p1> | <A11 A22 D11 D22 t of p2> | <min(p1.a, p1.b)>
reply:  ok <kt> <kr or ->      |  none  (unknown connection type: the Python function returns None)  |  err parse
-/
import CompmechVerif.Model.PenaltyConstants
import CompmechVerif.Drv.Proto

namespace Compmech.Drv.C12
open Compmech.Proto Compmech.Penalty

def lam? : List ℚ → Option (Lam ℚ)
  | [a, b, c, d, t] => some ⟨a, b, c, d, t⟩
  | _ => none

def handle (op : String) (rest : String) : String :=
  match op with
  | "ktkr" =>
    match fields rest with
    | [ct, l1, l2, m] =>
      match (parseQs? l1).bind lam?, (parseQs? l2).bind lam?, parseQ? m with
      | some L1, some L2, some m =>
        match parseCType ct with
        | some c =>
          let r := ktKr c L1 L2 m
          "ok " ++ showQ r.1 ++ " " ++ (match r.2 with | some kr => showQ kr | none => "-")
        | none => "none"
      | _, _, _ => "err parse"
    | _ => "err parse"
  | _ => "err unknown-op"

end Compmech.Drv.C12
