/-
Driver ops for C02 (glue of `Panel.calc_k0 / calc_kG0 / calc_kM / calc_kA / calc_cA`, `Model/PanelGlue.lean`):

  glue <method> | <panel: key=value …> | <arguments: key=value …> | <result of kernel call 0> ; <result of call 1> ; … | <probes>

  method     k0 | kG0 | kM | kA | cA | kT | fint
  panel      model=unset|invalid|plate|platew|cpanel|kpanel a= b= r= alphadeg= alfrom= y1= y2= offset= mu= Nxx= Nyy= Nxy=
             NxxCte= NyyCte= NxyCte= flow=x|y|other beta= gamma= aeromu= mach= rho= V= ainf= q= m= n= nx= ny= size=
             ortho=0|1 stack=<len> lps=0|1 lp=0|1 plyts=0|1 plyt=0|1 lam=0|1          (`-` = None / no such attribute)
  arguments  size= row0= col0= (`-` = not passed) fin=0|1 c=-|<isArray>:<ndim>:<len> nx= ny= F=0|1 nl=0|1 aeromu=<q> (cA)
  results    COO triplets `r c v r c v …` the recorded kernel calls returned (what the model's combination is evaluated on)
  probes     `r c r c …` positions at which the combined matrix is reported

reply:
  ok | <call> & <call> | comb=<expr> imag=0|1 store=<attr> ret=0|1 lamoff=<q|-> | <post state> | <values at the probes>
  err <PythonExceptionClass> <tag> | <post state>
with <call> = mat.|num.<kernel>(<arg>,<arg>,…)@r=<q|->;al=<q|->   and
<post state> = model= r= al= size= mach= lam= lps= plyts=

for `fint` (a VECTOR): results = `v0 v1 …` of the force kernel ; COO triplets of the pre-stress kernel (if called); an extra last field
`<c as rationals>`; probes = indices `i …`; reply
  ok | <call> & <call> | prestress=0|1 | <post state> | <values at the probes>

  orthozeros        reply: the index pairs `_get_lam_F` zeroes under `force_orthotropic_laminate`
-/
import CompmechVerif.Model.PanelGlue
import CompmechVerif.Drv.Proto

namespace Compmech.Drv.C02
open Compmech.Proto Compmech.PanelGlue Compmech.Asm

def kvs (s : String) : List (String × String) :=
  (words s).filterMap fun w => match w.splitOn "=" with
    | [k, v] => some (k, v)
    | _ => none

def look (kv : List (String × String)) (k : String) : Option String := (kv.find? fun e => e.1 == k).map (·.2)

def optQ (s : String) : Option (Option ℚ) := if s = "-" then some none else (parseQ? s).map some
def optN (s : String) : Option (Option Nat) := if s = "-" then some none else s.toNat?.map some
def bool? (s : String) : Option Bool := if s = "1" then some true else if s = "0" then some false else none

def gQ (kv : List (String × String)) (k : String) : Option ℚ := (look kv k).bind parseQ?
def gOQ (kv : List (String × String)) (k : String) : Option (Option ℚ) := (look kv k).bind optQ
def gN (kv : List (String × String)) (k : String) : Option Nat := (look kv k).bind String.toNat?
def gON (kv : List (String × String)) (k : String) : Option (Option Nat) := (look kv k).bind optN
def gB (kv : List (String × String)) (k : String) : Option Bool := (look kv k).bind bool?

def model? : String → Option ModelAttr
  | "unset" => some .unset
  | "invalid" => some .invalid
  | "plate" => some (.kind .plate)
  | "platew" => some (.kind .plateW)
  | "cpanel" => some (.kind .cpanel)
  | "kpanel" => some (.kind .kpanel)
  | _ => none

def flow? : String → Option Flow
  | "x" => some .x
  | "y" => some .y
  | "other" => some .other
  | _ => none

def panel? (kv : List (String × String)) : Option (Panel ℚ × ℚ) := do
  let model ← (look kv "model").bind model?
  let flow ← (look kv "flow").bind flow?
  let P : Panel ℚ := {
    model := model, a := ← gQ kv "a", b := ← gQ kv "b", r := ← gOQ kv "r", alphadeg := ← gOQ kv "alphadeg",
    alpharadFrom := ← gOQ kv "alfrom", y1 := ← gOQ kv "y1", y2 := ← gOQ kv "y2", offset := ← gQ kv "offset",
    mu := ← gOQ kv "mu", Nxx := ← gOQ kv "Nxx", Nyy := ← gOQ kv "Nyy", Nxy := ← gOQ kv "Nxy",
    NxxCte := ← gOQ kv "NxxCte", NyyCte := ← gOQ kv "NyyCte", NxyCte := ← gOQ kv "NxyCte", flow := flow,
    beta := ← gOQ kv "beta", gamma := ← gOQ kv "gamma", aeromu := ← gOQ kv "aeromu", mach := ← gOQ kv "mach",
    rhoAir := ← gQ kv "rho", V := ← gQ kv "V", speedSound := ← gQ kv "ainf", m := ← gN kv "m", n := ← gN kv "n",
    nx := ← gN kv "nx", ny := ← gN kv "ny", sizeAttr := ← gON kv "size", forceOrtho := ← gB kv "ortho",
    stackLen := ← gN kv "stack", laminapropsSet := ← gB kv "lps", laminapropSet := ← gB kv "lp",
    plytsSet := ← gB kv "plyts", plytSet := ← gB kv "plyt", lamSet := ← gB kv "lam" }
  let q ← gQ kv "q"
  pure (P, q)

def carg? (s : String) : Option (Option CArg) :=
  if s = "-" then some none else
  match s.splitOn ":" with
  | [a, d, l] =>
    match bool? a, d.toNat?, l.toNat? with
    | some a, some d, some l => some (some ⟨a, d, l⟩)
    | _, _, _ => none
  | _ => none

def args? (kv : List (String × String)) : Option (Args ℚ × ℚ) := do
  let A : Args ℚ := {
    size := ← gON kv "size", row0 := ← gON kv "row0", col0 := ← gON kv "col0", finalize := ← gB kv "fin",
    c := ← (look kv "c").bind carg?, nx := ← gON kv "nx", ny := ← gON kv "ny", fnxny := ← gB kv "F", nlgeom := ← gB kv "nl" }
  let aeromu ← gQ kv "aeromu"
  pure (A, aeromu)

def triples : List String → Option (Coo ℚ)
  | [] => some []
  | r :: c :: v :: rest =>
    match r.toNat?, c.toNat?, parseQ? v, triples rest with
    | some r, some c, some v, some t => some ((r, c, v) :: t)
    | _, _, _, _ => none
  | _ => none

def pairs : List String → Option (List (Nat × Nat))
  | [] => some []
  | r :: c :: rest =>
    match r.toNat?, c.toNat?, pairs rest with
    | some r, some c, some t => some ((r, c) :: t)
    | _, _, _ => none
  | _ => none

def showOQ : Option ℚ → String
  | none => "-"
  | some x => showQ x

def showON : Option Nat → String
  | none => "-"
  | some x => toString x

def showB (b : Bool) : String := if b then "1" else "0"

def showName : KName → String
  | .fk0 => "fk0" | .fk0y1y2 => "fk0y1y2" | .fkG0 => "fkG0" | .fkG0y1y2 => "fkG0y1y2" | .fkM => "fkM"
  | .fkMy1y2 => "fkMy1y2" | .fkAx => "fkAx" | .fkAy => "fkAy" | .fcA => "fcA" | .fkL_num => "fkL_num"
  | .fkG_num => "fkG_num" | .calc_fint => "calc_fint"

def showArg : Arg ℚ → String
  | .q x => showQ x
  | .nat n => toString n
  | .panel => "P"
  | .cGiven => "c"
  | .cZeros n => s!"zeros{n}"
  | .fOwn => "F"
  | .fGiven => "Fnxny"
  | .kwNL v => s!"NLgeom={v}"

def showCall (c : KCall ℚ) : String :=
  (if c.num then "num." else "mat.") ++ showName c.name ++ "(" ++ ",".intercalate (c.args.map showArg) ++ ")@r=" ++
    showOQ c.r ++ ";al=" ++ showOQ c.alpharadFrom

def showComb : Comb → String
  | .call i => s!"c{i}"
  | .add a b => "add(" ++ showComb a ++ "," ++ showComb b ++ ")"
  | .fin a => "fin(" ++ showComb a ++ ")"
  | .skew a => "skew(" ++ showComb a ++ ")"

def showStore : Store → String
  | .k0 => "k0" | .kG0 => "kG0" | .kM => "kM" | .kA => "kA" | .cA => "cA" | .kT => "kT"

def showModel : ModelAttr → String
  | .unset => "unset"
  | .invalid => "invalid"
  | .kind .plate => "plate"
  | .kind .plateW => "platew"
  | .kind .cpanel => "cpanel"
  | .kind .kpanel => "kpanel"

def errTag : Err → String
  | .rebuildModel => "rebuildModel" | .rebuildStack => "rebuildStack" | .rebuildLaminaprop => "rebuildLaminaprop"
  | .rebuildPlyt => "rebuildPlyt" | .cNotArray => "cNotArray" | .cNdim => "cNdim" | .cSize => "cSize"
  | .stripK0State => "stripK0State" | .stripKGState => "stripKGState" | .noNumModule => "noNumModule"
  | .noModel => "noModel" | .muMissing => "muMissing" | .conical => "conical" | .modelNoneIn => "modelNoneIn"
  | .machNone => "machNone" | .machBelowOne => "machBelowOne" | .flowInvalid => "flowInvalid"
  | .noSizeAttr => "noSizeAttr" | .noKernel => "noKernel" | .lamNone => "lamNone"
  | .fintModel => "fintModel" | .fintNoNum => "fintNoNum" | .fintNoKernel => "fintNoKernel" | .cMissing => "cMissing"
  | .cBufferNdim => "cBufferNdim" | .finputShape => "finputShape" | .dotMismatch => "dotMismatch"

def showPost (P : Panel ℚ) : String :=
  "model=" ++ showModel P.model ++ " r=" ++ showOQ P.r ++ " al=" ++ showOQ P.alpharadFrom ++ " size=" ++ showON P.sizeAttr ++
    " mach=" ++ showOQ P.mach ++ " lam=" ++ showB P.lamSet ++ " lps=" ++ showB P.laminapropsSet ++ " plyts=" ++ showB P.plytsSet

def showOutcome (o : Outcome ℚ) (res : List (Coo ℚ)) (probes : List (Nat × Nat)) : String :=
  match o.res with
  | .error e => "err " ++ e.pyType ++ " " ++ errTag e ++ " | " ++ showPost o.post
  | .ok R =>
    let M := R.comb.eval fun i => res.getD i []
    "ok | " ++ " & ".intercalate (R.calls.map showCall) ++ " | comb=" ++ showComb R.comb ++ " imag=" ++ showB R.imag ++
      " store=" ++ showStore R.store ++ " ret=" ++ showB R.returned ++ " lamoff=" ++ showOQ R.lamOffset ++ " | " ++
      showPost o.post ++ " | " ++ showQs (probes.map fun p => toFun M p.1 p.2)

/-- `calc_fint`: `fres` what the force kernel returned, `mres` what the pre-stress kernel returned, `c` the Ritz vector -/
def showVOutcome (o : VOutcome ℚ) (fres : List ℚ) (mres : Coo ℚ) (c : List ℚ) (probes : List Nat) : String :=
  match o.res with
  | .error e => "err " ++ e.pyType ++ " " ++ errTag e ++ " | " ++ showPost o.post
  | .ok R =>
    let v := R.eval (fun _ => fres) (fun _ => mres) c
    "ok | " ++ " & ".intercalate (R.calls.map showCall) ++ " | prestress=" ++ showB R.prestress ++ " | " ++
      showPost o.post ++ " | " ++ showQs (probes.map fun i => v.getD i 0)

def handle (op : String) (rest : String) : String :=
  match op with
  | "glue" =>
    match fields rest with
    | ["fint", ps, as, rs, pr, cs] =>
      match panel? (kvs ps), args? (kvs as), rs.splitOn ";", (words pr).mapM String.toNat?, parseQs? cs with
      | some (P, _), some (A, _), fr :: more, some probes, some c =>
        match parseQs? fr, triples (words (more.headD "")) with
        | some fres, some mres => showVOutcome (calcFint P A) fres mres c probes
        | _, _ => "err parse"
      | _, _, _, _, _ => "err parse"
    | [meth, ps, as, rs, pr] =>
      match panel? (kvs ps), args? (kvs as), (rs.splitOn ";").mapM (fun s => triples (words s)), pairs (words pr) with
      | some (P, q), some (A, aeromu), some res, some probes =>
        match meth with
        | "k0" => showOutcome (calcK0 P A) res probes
        | "kG0" => showOutcome (calcKG0 P A) res probes
        | "kM" => showOutcome (calcKM P A) res probes
        | "kT" => showOutcome (calcKT P A) res probes
        | "kA" => showOutcome (calcKA P A q) res probes
        | "cA" => showOutcome (calcCA P aeromu A.finalize) res probes
        | _ => "err unknown-method"
      | _, _, _, _ => "err parse"
    | _ => "err parse"
  | "orthozeros" => " ".intercalate (orthoZeros.map fun p => s!"{p.1},{p.2}")
  | _ => "err unknown-op"

end Compmech.Drv.C02
