/-
Driver ops for C13 (assembly / stiffened-bay index book-keeping).  Fields are separated by `|`, list items by `;`,
parts of an item by `:`.  A COO list is `r c n/d r c n/d …`, the empty one (and the empty vector) is `e`; an absent optional
part is `-`.

  asm <conn|noconn> <fin 0/1> | m n ; m n ; … | coo_1 ; coo_2 ; … | p1 p2 : coo11 : coo12 : coo22 ; …
      -> <size> | rs cs re ce ; … | tag row0 col0 ; … | <assembled coo>
  vec | m n ; … | v_1 ; v_2 ; …                       (v_k = rationals)      -> calc_fext as rationals
  fint | m n ; … | v_1 ; … | <conns as in asm> | c                             -> calc_fint as rationals
  bay <k0|kG0|kM> <num> <m> <n> | skin coo ; … | base : beam ; … | base : fsize : flange : css : csf : cff ; …
      | bsize fsize : base : flange : cpp : cpb : cbb : bf11 : bf12 : bf22 ; …
      -> <size|none> | tag row0 col0 ; … | <assembled coo>
  bayfext | skin | f ; - ; … | base : flange ; …                                 -> rationals | none
-/
import CompmechVerif.Model.Assembly
import CompmechVerif.Drv.Proto

namespace Compmech.Drv.C13
open Compmech.Proto Compmech.Asm

def parseCoo? (s : String) : Option (Coo ℚ) :=
  let rec go : List String → Option (Coo ℚ)
    | [] => some []
    | r :: c :: v :: t =>
      match r.toNat?, c.toNat?, parseQ? v, go t with
      | some r, some c, some v, some rest => some ((r, c, v) :: rest)
      | _, _, _, _ => none
    | _ => none
  if s.trimAscii.toString == "e" then some [] else go (words s)

def showCoo (l : Coo ℚ) : String :=
  " ".intercalate (l.map fun e => s!"{e.1} {e.2.1} {showQ e.2.2}")

def items (s : String) : List String :=
  if (words s).isEmpty then [] else (s.splitOn ";").map fun f => f.trimAscii.toString

def parts (s : String) : List String := (s.splitOn ":").map fun f => f.trimAscii.toString

def parseOptCoo? (s : String) : Option (Option (Coo ℚ)) :=
  if s == "-" then some none else (parseCoo? s).map some

def parsePanels? (s : String) : Option (List (Nat × Nat)) :=
  (items s).mapM fun it =>
    match words it with
    | [m, n] => match m.toNat?, n.toNat? with
      | some m, some n => some (m, n)
      | _, _ => none
    | _ => none

def parseConn? (s : String) : Option (Conn ℚ) :=
  match parts s with
  | [pp, a, b, c] =>
    match words pp, parseCoo? a, parseCoo? b, parseCoo? c with
    | [p1, p2], some a, some b, some c =>
      match p1.toNat?, p2.toNat? with
      | some p1, some p2 => some ⟨p1, p2, a, b, c⟩
      | _, _ => none
    | _, _, _, _ => none
  | _ => none

def showBlocks (bs : List (Block ℚ)) : String :=
  " ; ".intercalate (bs.map fun b => s!"{b.tag} {b.row0} {b.col0}")

def showSpans (ss : List Span) : String :=
  " ; ".intercalate (ss.map fun s => s!"{s.rowStart} {s.colStart} {s.rowEnd} {s.colEnd}")

def parseKind? : String → Option MatKind
  | "k0" => some MatKind.k0
  | "kG0" => some MatKind.kG0
  | "kM" => some MatKind.kM
  | _ => none

def parseB1? (s : String) : Option (Blade1D ℚ) :=
  match parts s with
  | [a, b] => match parseOptCoo? a, parseOptCoo? b with
    | some a, some b => some ⟨a, b⟩
    | _, _ => none
  | _ => none

def parseB2? (s : String) : Option (Blade2D ℚ) :=
  match parts s with
  | [a, fs, f, x, y, z] =>
    match parseOptCoo? a, parseOptCoo? f, parseCoo? x, parseCoo? y, parseCoo? z with
    | some a, some f, some x, some y, some z =>
      match f with
      | none => some ⟨a, none, x, y, z⟩
      | some fl => fs.toNat?.map fun n => ⟨a, some (n, fl), x, y, z⟩
    | _, _, _, _, _ => none
  | _ => none

def parseT? (s : String) : Option (TStiff ℚ) :=
  match parts s with
  | [sz, a, b, c, d, e, f, g, h] =>
    match words sz, [a, b, c, d, e, f, g, h].mapM parseCoo? with
    | [bs, fs], some [a, b, c, d, e, f, g, h] =>
      match bs.toNat?, fs.toNat? with
      | some bs, some fs => some ⟨bs, fs, a, b, c, d, e, f, g, h⟩
      | _, _ => none
    | _, _ => none
  | _ => none

def parseVec? (s : String) : Option (List ℚ) :=
  if s.trimAscii.toString == "e" then some [] else parseQs? s

def handle (op : String) (rest : String) : String :=
  match op with
  | "asm" =>
    match fields rest with
    | [hd, psS, compsS, connsS] =>
      match words hd, parsePanels? psS, (items compsS).mapM parseCoo?, (items connsS).mapM parseConn? with
      | [mode, fin], some ps, some comps, some conns =>
        let fin := fin == "1"
        let res := if mode == "conn" then calcK0 fin ps comps conns else calcNoConn fin ps comps
        let bl := panelBlocks ps comps ++ (if mode == "conn" then connAllBlocks ps conns else [])
        s!"{getSize ps} | {showSpans (init ps)} | {showBlocks bl} | {showCoo res}"
      | _, _, _, _ => "err parse-asm"
    | _ => "err parse-fields"
  | "vec" =>
    match fields rest with
    | [_, psS, vsS] =>
      match parsePanels? psS, (items vsS).mapM parseVec? with
      | some ps, some vs => showQs (calcFext ps vs)
      | _, _ => "err parse-vec"
    | _ => "err parse-fields"
  | "fint" =>
    match fields rest with
    | [_, psS, vsS, connsS, cS] =>
      match parsePanels? psS, (items vsS).mapM parseVec?, (items connsS).mapM parseConn?, parseQs? cS with
      | some ps, some vs, some conns, some c => showQs (calcFint ps vs conns c)
      | _, _, _, _ => "err parse-fint"
    | _ => "err parse-fields"
  | "bay" =>
    match fields rest with
    | [hd, skS, b1S, b2S, tS] =>
      match words hd, (items skS).mapM parseCoo?, (items b1S).mapM parseB1?, (items b2S).mapM parseB2?,
          (items tS).mapM parseT? with
      | [kind, num, m, n], some sk, some b1, some b2, some ts =>
        match parseKind? kind, num.toNat?, m.toNat?, n.toNat? with
        | some kind, some num, some m, some n =>
          let b : Bay ℚ := ⟨num, m, n, sk, b1, b2, ts⟩
          let sz := match bayGetSize b with
            | some z => toString z
            | none => "none"
          s!"{sz} | {showBlocks (bayBlocks kind b)} | {showCoo (bayCalc kind b)}"
        | _, _, _, _ => "err parse-bay-head"
      | _, _, _, _, _ => "err parse-bay"
    | _ => "err parse-fields"
  | "bayfext" =>
    match fields rest with
    | [_, skS, b2S, tS] =>
      let optQs? : String → Option (Option (List ℚ)) := fun s =>
        if s == "-" then some none else (parseVec? s).map some
      let pair? : String → Option (List ℚ × List ℚ) := fun s =>
        match parts s with
        | [a, b] => match parseVec? a, parseVec? b with
          | some a, some b => some (a, b)
          | _, _ => none
        | _ => none
      match parseVec? skS, (items b2S).mapM optQs?, (items tS).mapM pair? with
      | some sk, some b2, some ts =>
        match bayFext sk b2 ts with
        | some v => showQs v
        | none => "none"
      | _, _, _ => "err parse-bayfext"
    | _ => "err parse-fields"
  | _ => "err unknown-op"

end Compmech.Drv.C13
