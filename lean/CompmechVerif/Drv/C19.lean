/-
Driver ops for C19:

  coefs <beta|-> <gamma|-> <aeromu|-> <mach|-> <rho> <v> <ainf> <r> <q>          (piston-theory coefficients, `Model/Piston.lean`)
  reply: ok <beta> <gamma> <aeromu> | err machNone | err machBelowOne

  bay | <bay: key=value …> | <panel> ; <panel> ; … | <result of kernel call 0> ; <result of call 1> ; … | <probes>
      (`StiffPanelBay.calc_kA`, `Model/BayAero.lean`)
      bay     a= b= r= m= n= model=unset|invalid|plate|platew|cpanel|kpanel flow=x|y|other beta= gamma= aeromu= mach= rho= V= ainf=
              size= stiff=-|assertion|runtime parts=<n,n,…|-> q=                       (`-` = None / no such attribute)
      panel   the panel line of the C02 glue driver (`Drv/C02.lean`)
  reply:
      ok | <call> & <call> | comb=<expr> | <bay post> | <writes> | <panel post> ; <panel post> ; … | <values at the probes>
      err <PythonExceptionClass> <tag> | <bay post> | <writes> | <panel post> ; …
  with <bay post> = model= mach= size=, <writes> = the attribute writes on panels[0] in order (`flow=x beta=… … r=…`), <call>, <panel post> as
  in the C02 glue driver (plus `flow= beta= gamma= aeromu=` of the panel)

  flutter | size=<n> q=<q> | <panel> rs=<row_start> cs=<col_start> ; … | <results> | <probes>
      (aerodynamic part of `tstiff2d_1stiff_flutter`)
  reply:
      ok | <calls> | comb=<expr> | <panel post> ; … | <values>
      err <PythonExceptionClass> <tag> | <panel post> ; …
-/
import CompmechVerif.Model.Piston
import CompmechVerif.Model.BayAero
import CompmechVerif.Drv.Proto
import CompmechVerif.Drv.C02

namespace Compmech.Drv.C19
open Compmech.Proto Compmech.Piston Compmech.PanelGlue Compmech.BayAero Compmech.Asm
open Compmech.Drv.C02 (kvs look gQ gOQ gN gON model? flow? panel? triples pairs showOQ showON showCall showComb showPost showModel errTag)

def optQ (s : String) : Option (Option ℚ) :=
  if s = "-" then some none else (parseQ? s).map some

def stiff? : String → Option (Option StiffExc)
  | "-" => some none
  | "assertion" => some (some .assertion)
  | "runtime" => some (some .runtime)
  | _ => none

def parts? (s : String) : Option (List Nat) :=
  if s = "-" then some [] else (s.splitOn ",").mapM String.toNat?

def bay? (kv : List (String × String)) (panels : List (Panel ℚ)) : Option (AeroBay ℚ × ℚ) := do
  let B : AeroBay ℚ := {
    a := ← gOQ kv "a", b := ← gOQ kv "b", r := ← gOQ kv "r", m := ← gN kv "m", n := ← gN kv "n",
    model := ← (look kv "model").bind model?, flow := ← (look kv "flow").bind flow?,
    beta := ← gOQ kv "beta", gamma := ← gOQ kv "gamma", aeromu := ← gOQ kv "aeromu", mach := ← gOQ kv "mach",
    rhoAir := ← gOQ kv "rho", V := ← gOQ kv "V", speedSound := ← gOQ kv "ainf", sizeAttr := ← gON kv "size",
    panels := panels, stiffRebuildErr := ← (look kv "stiff").bind stiff?, partSizes := ← (look kv "parts").bind parts? }
  let q ← gQ kv "q"
  pure (B, q)

def showFlow : Flow → String
  | .x => "x" | .y => "y" | .other => "other"

def showWrite : SkinWrite ℚ → String
  | .flow f => "flow=" ++ showFlow f
  | .beta v => "beta=" ++ showOQ v
  | .gamma v => "gamma=" ++ showOQ v
  | .aeromu v => "aeromu=" ++ showOQ v
  | .mach v => "Mach=" ++ showOQ v
  | .rhoAir v => "rho_air=" ++ showOQ v
  | .speedSound v => "speed_sound=" ++ showOQ v
  | .size s => s!"size={s}"
  | .V v => "V=" ++ showOQ v
  | .r v => "r=" ++ showOQ v

def stiffTag : StiffExc → String
  | .assertion => "assertion" | .runtime => "runtime"

def bayErrTag : BayErr → String
  | .aMissing => "aMissing" | .bMissing => "bMissing"
  | .panelRebuild i e => s!"panelRebuild:{i}:" ++ errTag e
  | .modelMismatch i => s!"modelMismatch:{i}"
  | .stiffRebuild x => "stiffRebuild:" ++ stiffTag x
  | .machNoneCompare => "machNoneCompare" | .machBelowOne => "bayMachBelowOne" | .noneArith => "noneArith"
  | .zeroDivision => "zeroDivision" | .noPanels => "noPanels" | .noSizeAttr => "bayNoSizeAttr" | .noModel => "bayNoModel"
  | .skin e => "skin:" ++ errTag e

def showPanelPost (P : Panel ℚ) : String :=
  showPost P ++ " flow=" ++ showFlow P.flow ++ " beta=" ++ showOQ P.beta ++ " gamma=" ++ showOQ P.gamma ++ " aeromu=" ++ showOQ P.aeromu

def showBayPost (B : AeroBay ℚ) : String :=
  "model=" ++ showModel B.model ++ " mach=" ++ showOQ B.mach ++ " size=" ++ showON B.sizeAttr

def showBay (o : BayOutcome ℚ) (res : List (Coo ℚ)) (probes : List (Nat × Nat)) : String :=
  let tail := showBayPost o.post ++ " | " ++ " ".intercalate (o.writes.map showWrite) ++ " | " ++
    " ; ".intercalate (o.post.panels.map showPanelPost)
  match o.res with
  | .error e => "err " ++ e.pyType ++ " " ++ bayErrTag e ++ " | " ++ tail
  | .ok R =>
    let M := R.comb.eval fun i => res.getD i []
    "ok | " ++ " & ".intercalate (R.calls.map showCall) ++ " | comb=" ++ showComb R.comb ++ " | " ++ tail ++ " | " ++
      showQs (probes.map fun p => toFun M p.1 p.2)

def flutterErrTag : FlutterErr → String
  | .empty => "empty"
  | .panel i e => s!"panel:{i}:" ++ errTag e

def showFlutter (o : FlutterOutcome ℚ) (res : List (Coo ℚ)) (probes : List (Nat × Nat)) : String :=
  let tail := " ; ".intercalate (o.post.map showPanelPost)
  match o.res with
  | .error e => "err " ++ e.pyType ++ " " ++ flutterErrTag e ++ " | " ++ tail
  | .ok R =>
    let M := R.comb.eval fun i => res.getD i []
    "ok | " ++ " & ".intercalate (R.calls.map showCall) ++ " | comb=" ++ showComb R.comb ++ " | " ++ tail ++ " | " ++
      showQs (probes.map fun p => toFun M p.1 p.2)

def splitSemi (s : String) : List String := if (words s).isEmpty then [] else s.splitOn ";"

def skin? (s : String) : Option (SkinPanel ℚ) := do
  let kv := kvs s
  let P ← panel? kv
  pure ⟨P.1, ← gN kv "rs", ← gN kv "cs"⟩

def handle (op : String) (rest : String) : String :=
  match op with
  | "coefs" =>
    match words rest with
    | [b, g, a, m, rho, v, ainf, r, q] =>
      match optQ b, optQ g, optQ a, optQ m, parseQ? rho, parseQ? v, parseQ? ainf, parseQ? r, parseQ? q with
      | some b, some g, some a, some m, some rho, some v, some ainf, some r, some q =>
        match coefs b g a m rho v ainf r q with
        | .ok c => "ok " ++ showQs [c.beta, c.gamma, c.aeromu]
        | .error .machNone => "err machNone"
        | .error .machBelowOne => "err machBelowOne"
      | _, _, _, _, _, _, _, _, _ => "err parse"
    | _ => "err parse"
  | "bay" =>
    match fields rest with
    | [_, bs, ps, rs, pr] =>
      match (splitSemi ps).mapM (fun s => (panel? (kvs s)).map (·.1)), (rs.splitOn ";").mapM (fun s => triples (words s)),
          pairs (words pr) with
      | some panels, some res, some probes =>
        match bay? (kvs bs) panels with
        | some (B, q) => showBay (bayCalcKA B q) res probes
        | none => "err parse bay"
      | _, _, _ => "err parse"
    | _ => "err parse fields"
  | "flutter" =>
    match fields rest with
    | [_, hs, ps, rs, pr] =>
      match gN (kvs hs) "size", gQ (kvs hs) "q", (splitSemi ps).mapM skin?, (rs.splitOn ";").mapM (fun s => triples (words s)),
          pairs (words pr) with
      | some size, some q, some skin, some res, some probes => showFlutter (flutterKA size skin q) res probes
      | _, _, _, _, _ => "err parse"
    | _ => "err parse fields"
  | _ => "err unknown-op"

end Compmech.Drv.C19
