/-
Driver op for C19 (piston-theory coefficients):
  coefs <beta|-> <gamma|-> <aeromu|-> <mach|-> <rho> <v> <ainf> <r> <q>
reply: ok <beta> <gamma> <aeromu> | err machNone | err machBelowOne
-/
import CompmechVerif.Model.Piston
import CompmechVerif.Drv.Proto

namespace Compmech.Drv.C19
open Compmech.Proto Compmech.Piston

def optQ (s : String) : Option (Option ℚ) :=
  if s = "-" then some none else (parseQ? s).map some

def handle (op : String) (rest : String) : String :=
  match op with
  | "coefs" =>
    match words rest with
    | [b, g, a, m, rho, v, ainf, r, q] =>
      match optQ b, optQ g, optQ a, optQ m, parseQ? rho, parseQ? v, parseQ? ainf, parseQ? r, parseQ? q with
      | some b, some g, some a, some m, some rho, some v, some ainf, some r, some q =>
        match coefs b g a m rho v ainf r q with
        | .ok c => "ok " ++ showQs [c.beta, c.gamma, c.aeromu]
        | .error .machNone => "err machNone"
        | .error .machBelowOne => "err machBelowOne"
      | _, _, _, _, _, _, _, _, _ => "err parse"
    | _ => "err parse"
  | _ => "err unknown-op"

end Compmech.Drv.C19
