/-
Driver ops for C20 (object life-cycle models):

  panel <model> <rGiven> <alphaGiven> <stack> <laminaprop> <laminaprops> <plyt> <plyts> <mu> <y12>
        <offsetZero> <cte> <betaGiven> <mach> <flow> <forces> | <op> <op> ...
     model ∈ none plate plateW cpanel kpanel bogus; y12 ∈ none one both; mach ∈ none lt1 eq1 gt1;
     flow ∈ x y bad; booleans 0/1;
     op ∈ getSize k0:<s> kL:<f> kG0:<s> kG:<f> kT:<f> kM:<s> kA:<s> cA lb freq:<1..4> fext:<s> fint:<f>
          static uvw strain stress:<f> ktkr        (<s> explicit `size=`, <f> explicit `Fnxny=`/`F=`)
  reply: one field per op, separated by " ; ":
        <ok|ExceptionClass> # <result tokens> # R=<hidden attrs read> # W=<attrs written, in order>

  asm  <panel-1 definition (16 fields)> / <panel-2 definition> / <connGiven> | <op> ...
     op ∈ size k0:<conn>[:<fin>] kG0 kG kM kT fint fext conn:<conn>[:<fin>] uvw strain stress
          <conn>: 0 no `conn=` argument, 1 `conn=` another list, 2 `conn=asm.conn` (the own list object: same as 0);
          <fin>: the `finalize=` argument (default 1)
     reply per op: <ok|Exc> # <tokens 1> / <tokens 2> / <conn token> # R1=.. # W1=.. # R2=.. # W2=..
          conn token: <own|other>:<sym|raw>{<kt_kr tokens 1>|<kt_kr tokens 2>}   (sym: finalized, raw: finalize=False)
  bay  <modelGiven> <stiffened flat bay> | <op> ...        op ∈ size k0 kG0 kM kA cA fext uvw          reply per op: <ok|Exc>
  cone <fcGiven> <rebuilt> | <op> ... op ∈ size k0 lb static fext fint kT uvw strain stress
     reply per op: <ok|TypeError|SEGV> # <axial-load provenance consumed: - unset zero user one>
-/
import CompmechVerif.Model.Lifecycle
import CompmechVerif.Drv.Proto

namespace Compmech.Drv.C20
open Compmech.Proto Compmech.Lifecycle

def bool? : String → Option Bool
  | "0" => some false
  | "1" => some true
  | _ => none

def showErr : Err → String
  | .ValueError => "ValueError" | .KeyError => "KeyError" | .TypeError => "TypeError"
  | .RuntimeError => "RuntimeError" | .AttributeError => "AttributeError"
  | .NotImplementedError => "NotImplementedError" | .NameError => "NameError"
  | .AssertionError => "AssertionError"

namespace P
open Compmech.Lifecycle.Panel

def mval? : String → Option MVal
  | "none" => some .none | "plate" => some (.valid .plate) | "plateW" => some (.valid .plateW)
  | "cpanel" => some (.valid .cpanel) | "kpanel" => some (.valid .kpanel) | "bogus" => some .bogus
  | _ => none

def y12? : String → Option Y12
  | "none" => some .none | "one" => some .one | "both" => some .both | _ => none

def mach? : String → Option MachVal
  | "none" => some .none | "lt1" => some .lt1 | "eq1" => some .eq1 | "gt1" => some .gt1 | _ => none

def flow? : String → Option Flow
  | "x" => some .x | "y" => some .y | "bad" => some .bad | _ => none

def def? (ws : List String) : Option Def :=
  match ws with
  | [mo, rg, ag, st, lp, lps, pt, pts, mu, y, oz, cte, bg, ma, fl, fo] => do
    let mo ← mval? mo; let rg ← bool? rg; let ag ← bool? ag; let st ← bool? st; let lp ← bool? lp
    let lps ← bool? lps; let pt ← bool? pt; let pts ← bool? pts; let mu ← bool? mu; let y ← y12? y
    let oz ← bool? oz; let cte ← bool? cte; let bg ← bool? bg; let ma ← mach? ma; let fl ← flow? fl
    let fo ← bool? fo
    pure ⟨mo, rg, ag, st, lp, lps, pt, pts, mu, y, oz, cte, bg, ma, fl, fo⟩
  | _ => none

def op? (s : String) : Option Op :=
  match s.splitOn ":" with
  | ["getSize"] => some .getSize
  | ["k0", b] => (bool? b).map .k0
  | ["kL", b] => (bool? b).map .kL
  | ["kG0", b] => (bool? b).map .kG0
  | ["kG", b] => (bool? b).map .kG
  | ["kT", b] => (bool? b).map .kT
  | ["kM", b] => (bool? b).map .kM
  | ["kA", b] => (bool? b).map .kA
  | ["cA"] => some .cA
  | ["lb"] => some .lb
  | ["freq", "1"] => some (.freq .a1)
  | ["freq", "2"] => some (.freq .a2)
  | ["freq", "3"] => some (.freq .a3)
  | ["freq", "4"] => some (.freq .a4)
  | ["fext", b] => (bool? b).map .fext
  | ["fint", b] => (bool? b).map .fint
  | ["static"] => some .static
  | ["uvw"] => some .uvw
  | ["strain"] => some .strain
  | ["stress", b] => (bool? b).map .stress
  | ["ktkr"] => some .ktkr
  | _ => none

def showAttr : Attr → String
  | .model => "model" | .r => "r" | .alpharad => "alpharad" | .plyts => "plyts" | .laminaprops => "laminaprops"
  | .lam => "lam" | .F => "F" | .size => "size" | .Mach => "Mach" | .k0 => "k0" | .kG0 => "kG0" | .kT => "kT"
  | .kM => "kM" | .kA => "kA" | .cA => "cA" | .eigvals => "eigvals" | .eigvecs => "eigvecs" | .u => "u"
  | .v => "v" | .w => "w" | .phix => "phix" | .phiy => "phiy" | .Xs => "Xs" | .Ys => "Ys"
  | .increments => "increments"

def showSeq : Seq → String
  | .none => "None" | .given => "user" | .rep => "rep"

def showLam : LamVal → String
  | .none => "None"
  | .built p l o => s!"lam({showSeq p},{showSeq l},{match o with | .zero => "0" | .own => "offset"})"

def showV : V → String
  | .model m => "model=" ++ (match m with | .plate => "plate" | .plateW => "plateW" | .cpanel => "cpanel" | .kpanel => "kpanel")
  | .r x => "r=" ++ (match x with | .none => "None" | .zero => "0" | .given => "user")
  | .alpha => "alpharad"
  | .plyts s => "plyts=" ++ showSeq s
  | .lam l => showLam l
  | .F f => (match f with | .none => "F=None" | .abd l => "ABD(" ++ showLam l ++ ")")
  | .size z => (match z with | .missing => "size=missing" | .of _ => "size")
  | .mach m => "Mach=" ++ (match m with | .none => "None" | .lt1 => "lt1" | .eq1 => "1" | .bumped => "1.0001" | .gt1 => "gt1")

def showKern (k : Kern) : String := (reprStr k).replace "Compmech.Lifecycle.Panel.Kern." ""

def showTok (t : Tok) : String :=
  ".".intercalate (t.1.map showKern) ++ "[" ++ ",".intercalate (t.2.map showV) ++ "]"

def dedup (l : List Attr) : List Attr := l.foldl (fun acc a => if acc.contains a then acc else acc ++ [a]) []

def runSeq (d : Def) : State → List Op → List String
  | _, [] => []
  | s, op :: ops =>
    let r := step d s op
    let lg := stepLog d s op
    let oc := match r.2 with
      | .ok res => "ok # " ++ "+".intercalate (res.map showTok)
      | .err e => showErr e ++ " # "
    (oc ++ " # R=" ++ ",".intercalate ((dedup lg.rd).map showAttr) ++ " # W=" ++
      ",".intercalate ((dedup lg.wr).map showAttr)) :: runSeq d r.1 ops

def handle (rest : String) : String :=
  match fields rest with
  | [ds, os] =>
    match def? (words ds), (words os).mapM op? with
    | some d, some ops => " ; ".intercalate (runSeq d (fresh d) ops)
    | none, _ => "err parse-def"
    | _, none => "err parse-op"
  | _ => "err parse-fields"

end P

namespace A
open Compmech.Lifecycle.Panel Compmech.Lifecycle.Asm

/-- the `conn=` argument: none, another list, `self.conn` itself -/
def other? : String → Option Bool
  | "0" => some false
  | "1" => some true
  | "2" => some false
  | _ => none

def op? (s : String) : Option AOp :=
  match s.splitOn ":" with
  | ["size"] => some .size
  | ["k0", b] => (other? b).map (AOp.k0 · true)
  | ["k0", b, f] => do let o ← other? b; let f ← bool? f; pure (.k0 o f)
  | ["kG0"] => some .kG0
  | ["kG"] => some .kG
  | ["kM"] => some .kM
  | ["kT"] => some .kT
  | ["fint"] => some .fint
  | ["fext"] => some .fext
  | ["conn", b] => (other? b).map (AOp.conn · true)
  | ["conn", b, f] => do let o ← other? b; let f ← bool? f; pure (.conn o f)
  | ["uvw"] => some .uvw
  | ["strain"] => some .strain
  | ["stress"] => some .stress
  | _ => none

def showToks (l : List Tok) : String := "+".intercalate (l.map P.showTok)

def showConn : Option ConnTok → String
  | none => "-"
  | some t => (match t.id with | .own => "own" | .other => "other") ++ (if t.fin then ":sym" else ":raw") ++
      "{" ++ showToks t.t1 ++ "|" ++ showToks t.t2 ++ "}"

def showLog (tag : String) (l : Log) : String :=
  s!"R{tag}=" ++ ",".intercalate ((P.dedup l.rd).map P.showAttr) ++ s!" # W{tag}=" ++
    ",".intercalate ((P.dedup l.wr).map P.showAttr)

def runSeq (a : ADef) : AState → List AOp → List String
  | _, [] => []
  | s, op :: ops =>
    let r := astep a s op
    let lg := alog a s op
    let oc := match r.2 with
      | .ok r1 r2 c => "ok # " ++ showToks r1 ++ " / " ++ showToks r2 ++ " / " ++ showConn c
      | .err e => showErr e ++ " # "
    (oc ++ " # " ++ showLog "1" lg.1 ++ " # " ++ showLog "2" lg.2) :: runSeq a r.1 ops

def handle (rest : String) : String :=
  match fields rest with
  | [ds, os] =>
    match (ds.splitOn "/").map words, (words os).mapM op? with
    | [w1, w2, [cg]], some ops =>
      match P.def? w1, P.def? w2, bool? cg with
      | some d1, some d2, some cg =>
        let a : ADef := ⟨d1, d2, cg⟩
        " ; ".intercalate (runSeq a (afresh a) ops)
      | _, _, _ => "err parse-def"
    | _, none => "err parse-op"
    | _, _ => "err parse-defs"
  | _ => "err parse-fields"

end A

namespace B
open Compmech.Lifecycle.Bay

def op? : String → Option BOp
  | "size" => some .size | "k0" => some .k0 | "kG0" => some .kG0 | "kM" => some .kM | "kA" => some .kA
  | "cA" => some .cA | "fext" => some .fext | "uvw" => some .uvw | _ => none

def runSeq (d : BDef) : BState → List BOp → List String
  | _, [] => []
  | s, op :: ops =>
    let r := bstep d s op
    (match r.2 with
      | .ok _ => "ok"
      | .err e => showErr e) :: runSeq d r.1 ops

def handle (rest : String) : String :=
  match fields rest with
  | [ds, os] =>
    match (words ds).mapM bool?, (words os).mapM op? with
    | some [mg, sf], some ops => " ; ".intercalate (runSeq ⟨mg, sf⟩ (bfresh ⟨mg, sf⟩) ops)
    | _, _ => "err parse"
  | _ => "err parse-fields"

end B

namespace C
open Compmech.Lifecycle.Cone

def op? : String → Option COp
  | "size" => some .size | "k0" => some .k0 | "lb" => some .lb | "static" => some .static | "fext" => some .fext
  | "fint" => some .fint | "kT" => some .kT | "uvw" => some .uvw | "strain" => some .strain
  | "stress" => some .stress | _ => none

def showNxx : Option Nxx → String
  | none => "-" | some .unset => "unset" | some .zero => "zero" | some .user => "user" | some .one => "one"

def runSeq : CState → List COp → List String
  | _, [] => []
  | s, op :: ops =>
    let r := cstep s op
    (match r.2 with
      | .ok _ l => "ok # " ++ showNxx l
      | .err .TypeError => "TypeError # -"
      | .err .SEGV => "SEGV # -") :: runSeq r.1 ops

def handle (rest : String) : String :=
  match fields rest with
  | [ds, os] =>
    match (words ds).mapM bool?, (words os).mapM op? with
    | some [fg, rb], some ops => " ; ".intercalate (runSeq (cfresh ⟨fg, rb⟩) ops)
    | _, _ => "err parse"
  | _ => "err parse-fields"

end C

def handle (op : String) (rest : String) : String :=
  match op with
  | "panel" => P.handle rest
  | "asm" => A.handle rest
  | "bay" => B.handle rest
  | "cone" => C.handle rest
  | _ => "err unknown-op"

end Compmech.Drv.C20
