/-
Line protocol helpers for the model driver: exact rationals cross the boundary as `n/d`.
-/
import Mathlib.Algebra.Field.Rat
import Mathlib.Algebra.Order.Field.Rat

namespace Compmech.Proto

def parseQ? (s : String) : Option ℚ :=
  match s.splitOn "/" with
  | [n] => n.toInt?.map fun k => (k : ℚ)
  | [n, d] =>
    match n.toInt?, d.toNat? with
    | some k, some m => if m = 0 then none else some ((k : ℚ) / (m : ℚ))
    | _, _ => none
  | _ => none

def showQ (x : ℚ) : String := s!"{x.num}/{x.den}"

def words (s : String) : List String := (s.splitOn " ").filter (· ≠ "")

/-- fields separated by `|`, trimmed -/
def fields (s : String) : List String := (s.splitOn "|").map fun f => f.trimAscii.toString

def parseQs? (s : String) : Option (List ℚ) := (words s).mapM parseQ?

/-- `a b c ; d e f` -> [[a,b,c],[d,e,f]]; empty string -> [] -/
def parseQss? (s : String) : Option (List (List ℚ)) :=
  if (words s).isEmpty then some [] else (s.splitOn ";").mapM parseQs?

def showQs (xs : List ℚ) : String := " ".intercalate (xs.map showQ)

end Compmech.Proto

namespace Compmech.Proto

/-- one reply line per input line `<op> <rest…>` -/
partial def runLoop (handle : String → String → String) : IO Unit := do
  let inp ← IO.getStdin
  let out ← IO.getStdout
  let rec go : IO Unit := do
    let line ← inp.getLine
    if line.isEmpty then return ()
    let l := line.trimAscii.toString
    match l.splitOn " " with
    | op :: rest => out.putStrLn (handle op (" ".intercalate rest))
    | _ => out.putStrLn "err parse"
    go
  go
  out.flush

end Compmech.Proto
