/-
Driver op for C05 (linear-buckling glue, `Model/EigPost.lean : lb`):
  lb <n> <num> <kMin 0/1> <sparse 0/1> | <K: r c v r c v …> | <first> | <second>
with a solver result `<first>`/`<second>` = `none` (the call raised / was never made) or
  <μ₀ μ₁ …> ; <rows> <ncols> ; <entries, column after column>
reply:
  <req> <req> … | ok <rows> <ncols> | <λ₀ λ₁ …  (`inf` where μ = 0)> | <entries, column after column>
  <req> <req> … | err <kind> <details>
-/
import CompmechVerif.Model.EigPost
import CompmechVerif.Model.ConeLb
import CompmechVerif.Drv.Proto

namespace Compmech.Drv.EigIO
open Compmech.Proto Compmech.EigPost

def showIdx : Option (List Nat) → String
  | none => "*"
  | some l => ",".intercalate (l.map toString)

def showRef (m : MatRef) : String :=
  (if m.neg then "-" else "") ++
  (match m.name with | .K => "K" | .KG => "KG" | .M => "M") ++ "[" ++ showIdx m.idx ++ "]" ++
  (if m.dense then "d" else "")

def showOpt {α : Type} (f : α → String) : Option α → String
  | none => "-"
  | some a => f a

def showReq (r : Req) : String :=
  (match r.solver with | .eigsh => "eigsh" | .eigh => "eigh" | .eigs => "eigs" | .eig => "eig") ++
  ":" ++ showRef r.a ++ ":" ++ showRef r.b ++ ":" ++ showOpt toString r.k ++ ":" ++ showOpt id r.which ++
  ":" ++ showOpt toString r.sigma ++ ":" ++ showOpt id r.mode

def showReqs (rs : List Req) : String := " ".intercalate (rs.map showReq)

def showErr : Err → String
  | .solverRaised c => s!"err solverRaised {c}"
  | .shapeMismatch v t => s!"err shapeMismatch {v.1} {v.2} {t.1} {t.2}"
  | .columnStack a b => s!"err columnStack {a} {b}"
  | .indexError => "err indexError"

def triples : List String → Option (Coo ℚ)
  | [] => some []
  | r :: c :: v :: rest =>
    match r.toNat?, c.toNat?, parseQ? v, triples rest with
    | some r, some c, some v, some t => some ((r, c, v) :: t)
    | _, _, _, _ => none
  | _ => none

/-- split a flat list into `ncols` columns of `rows` entries -/
def chunks {α : Type} (rows : Nat) : Nat → List α → List (List α)
  | 0, _ => []
  | c + 1, l => l.take rows :: chunks rows c (l.drop rows)

end Compmech.Drv.EigIO

namespace Compmech.Drv.C05
open Compmech.Proto Compmech.EigPost Compmech.Drv.EigIO

def parseRes (s : String) : Option (Option (Out ℚ ℚ)) :=
  if s == "none" then some none else
  match s.splitOn ";" with
  | [vs, sh, es] =>
    match parseQs? vs, (words sh).mapM String.toNat?, parseQs? es with
    | some vals, some [rows, ncols], some ent =>
      if ent.length = rows * ncols then some (some ⟨vals, ⟨rows, chunks rows ncols ent⟩⟩) else none
    | _, _, _ => none
  | _ => none

def showLam : Option ℚ → String
  | none => "inf"
  | some x => showQ x

def handle (op : String) (rest : String) : String :=
  match op with
  | "lb" =>
    match fields rest with
    | [hd, ks, fs, ss] =>
      match (words hd).mapM String.toNat?, triples (words ks), parseRes fs, parseRes ss with
      | some [n, num, kmin, sp], some kc, some first, some second =>
        let r := lb n num (kmin == 1) (sp == 1) kc first second
        match r.2 with
        | .ok o =>
          showReqs r.1 ++ s!" | ok {o.vecs.rows} {o.vecs.ncols} | " ++ " ".intercalate (o.vals.map showLam) ++
            " | " ++ showQs o.vecs.cols.flatten
        | .error e => showReqs r.1 ++ " | " ++ showErr e
      | _, _, _, _ => "err parse"
    | _ => "err parse-fields"
  | "conelb" =>
    -- conelb <nred> <pos> <num> | <M: r c v …> | <first> | <second> | <third>
    match fields rest with
    | [hd, ks, fs, ss, ts] =>
      match (words hd).mapM String.toNat?, triples (words ks), parseRes fs, parseRes ss, parseRes ts with
      | some [nred, pos, num], some kc, some first, some second, some third =>
        let r := coneLb nred pos num kc first second third
        match r.2 with
        | .ok o =>
          showReqs r.1 ++ s!" | ok {o.vecs.rows} {o.vecs.ncols} | " ++ " ".intercalate (o.vals.map showLam) ++
            " | " ++ showQs o.vecs.cols.flatten
        | .error e => showReqs r.1 ++ " | " ++ showErr e
      | _, _, _, _, _ => "err parse"
    | _ => "err parse-fields"
  | _ => "err unknown-op"

end Compmech.Drv.C05
