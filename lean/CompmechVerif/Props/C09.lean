/-
C09 — Newton-Raphson driver reports only equilibrated states, in load order, and stops.
Only property theorems live here; helper lemmas are in `Model/NewtonRaphsonLemmas.lean`.
Every theorem is about `Model/NewtonRaphson.lean`, tied to compmech/analysis/newton_raphson.py by the
event-trace correspondence of `tools/props/C09.py`.  All theorems quantify over EVERY residual
history `env.rmax`, every line-search history `env.ls` and every admissible configuration.
-/
import CompmechVerif.Model.NewtonRaphsonLemmas

namespace Compmech.NR.C09
open Compmech.NR

/-- every reported pair `(load factor, state)` is immediately preceded in the event trace by a residual
evaluation of exactly that state at exactly that load factor, at iteration ≥ 2, with `Rmax < absTOL`. -/
theorem reported_equilibrated {K : Type} [Field K] [LinearOrder K] [IsStrictOrderedRing K]
    (cfg : Cfg K) (env : Env K) (fuel : Nat) (t : K) (c : CId K)
    (h : (t, c) ∈ reported (solverNR cfg env fuel)) :
    ∃ pre post it r, events (solverNR cfg env fuel) = pre ++ [Ev.fint c t it r, Ev.report t c] ++ post
      ∧ 2 ≤ it ∧ r < cfg.absTOL :=
  reported_equilibrated_aux cfg env fuel t c h

/-- the reported list is exactly the list of `report` events, in order (nothing is reported silently,
nothing reported is dropped). -/
theorem reported_eq_report_events {K : Type} [Field K] [LinearOrder K] [IsStrictOrderedRing K]
    (cfg : Cfg K) (env : Env K) (fuel : Nat) :
    reported (solverNR cfg env fuel) =
      (events (solverNR cfg env fuel)).filterMap fun e => match e with
        | Ev.report t c => some (t, c)
        | _ => none :=
  reported_eq_report_events_aux cfg env fuel

/-- reported load factors are strictly increasing and lie in `(0, 1]`. -/
theorem reported_increasing_in_unit_interval {K : Type} [Field K] [LinearOrder K] [IsStrictOrderedRing K]
    (cfg : Cfg K) (h : Admissible cfg) (env : Env K) (fuel : Nat) :
    ((reported (solverNR cfg env fuel)).map Prod.fst).Pairwise (· < ·) ∧
      ∀ t ∈ (reported (solverNR cfg env fuel)).map Prod.fst, 0 < t ∧ t ≤ 1 :=
  reported_increasing_aux cfg h env fuel

/-- reported states are snapshots: running longer only appends to what was already reported. -/
theorem snapshots_immutable {K : Type} [Field K] [LinearOrder K] [IsStrictOrderedRing K]
    (cfg : Cfg K) (env : Env K) (fuel : Nat) :
    reported (solverNR cfg env fuel) <+: reported (solverNR cfg env (fuel + 1)) :=
  snapshots_immutable_aux cfg env fuel

/-- ... and so for ANY longer run: whatever was reported after `fuel` load steps is still the beginning of
what is reported after `fuel'` ≥ `fuel` load steps (no later iteration, bisection or restart alters or removes
an entry already reported). -/
theorem snapshots_immutable_le {K : Type} [Field K] [LinearOrder K] [IsStrictOrderedRing K]
    (cfg : Cfg K) (env : Env K) (fuel fuel' : Nat) (h : fuel ≤ fuel') :
    reported (solverNR cfg env fuel) <+: reported (solverNR cfg env fuel') := by
  induction fuel', h using Nat.le_induction with
  | base => exact List.prefix_refl _
  | succ n _ ih => exact ih.trans (snapshots_immutable cfg env n)

/-- no load factor is reported twice, and the last reported one is the largest. -/
theorem reported_load_factors_nodup_last_max {K : Type} [Field K] [LinearOrder K] [IsStrictOrderedRing K]
    (cfg : Cfg K) (h : Admissible cfg) (env : Env K) (fuel : Nat) :
    ((reported (solverNR cfg env fuel)).map Prod.fst).Nodup ∧
      ∀ tl, ((reported (solverNR cfg env fuel)).map Prod.fst).getLast? = some tl →
        ∀ t ∈ (reported (solverNR cfg env fuel)).map Prod.fst, t ≤ tl := by
  have hp := (reported_increasing_in_unit_interval cfg h env fuel).1
  refine ⟨hp.imp (fun hlt => ne_of_lt hlt), ?_⟩
  intro tl hl t ht
  generalize (reported (solverNR cfg env fuel)).map Prod.fst = L at hp hl ht
  obtain ⟨L', rfl⟩ : ∃ L', L = L' ++ [tl] := by
    rcases List.eq_nil_or_concat L with rfl | ⟨L', b, rfl⟩
    · simp at hl
    · refine ⟨L', ?_⟩
      simp at hl
      simp [hl]
  rw [List.pairwise_append] at hp
  rcases List.mem_append.1 ht with ht | ht
  · exact le_of_lt (hp.2.2 t ht tl (by simp))
  · simp at ht; exact le_of_eq ht

/-- the bisection loop's `continue` is never taken in exact arithmetic: one pass suffices. -/
theorem bisect_one_pass {K : Type} [Field K] [LinearOrder K] [IsStrictOrderedRing K]
    (cfg : Cfg K) (n : Nat) (inc total maxTotal : K) (once : Bool) (l : Log K)
    (hinc : 0 < inc) (hmax : total ≤ maxTotal) :
    bisect cfg (n + 1) inc total once maxTotal l = bisect cfg 1 inc total once maxTotal l :=
  bisect_one_pass_aux cfg n inc total maxTotal once l hinc hmax

/-- The analysis always terminates: for every admissible configuration there is a number of load steps
`N` (depending on the configuration only) after which the driver has stopped, whatever the residual and
line-search histories; more fuel changes nothing. -/
theorem terminates (cfg : Cfg ℝ) (h : Admissible cfg) :
    ∃ N, ∀ (env : Env ℝ) (fuel : Nat), N ≤ fuel →
      (solverNR cfg env fuel).1 ≠ Outcome.outOfFuel ∧ solverNR cfg env fuel = solverNR cfg env N :=
  terminates_aux cfg h

/-- What is actually guaranteed at the end (the full statement "last load factor equal to 1" is false,
see `final_not_one_counterexample`): the driver stops either with a last reported load factor within
1e-3 of 1, or after the increment has fallen below `minInc`. -/
theorem final_within_tolerance_or_below_min_partial {K : Type} [Field K] [LinearOrder K] [IsStrictOrderedRing K]
    (cfg : Cfg K) (h : Admissible cfg) (env : Env K) (fuel : Nat) :
    let r := solverNR cfg env fuel
    (r.1 = Outcome.finished → ∃ t c, (reported r).getLast? = some (t, c) ∧ absK (t - 1) < 1 / 1000) ∧
    (r.1 = Outcome.minInc → r.2.1.inc < cfg.minInc) :=
  final_partial_aux cfg h env fuel

/-- A finished analysis ends with a last reported load factor in the window `(1 - 1/1000, 1]`: never beyond full load,
and short of it by less than the finish tolerance (the sharp form of the known finding `C09-finish-within-1e-3`). -/
theorem finished_last_factor_window {K : Type} [Field K] [LinearOrder K] [IsStrictOrderedRing K]
    (cfg : Cfg K) (h : Admissible cfg) (env : Env K) (fuel : Nat)
    (hf : (solverNR cfg env fuel).1 = Outcome.finished) :
    ∃ t c, (reported (solverNR cfg env fuel)).getLast? = some (t, c) ∧ 1 - 1 / 1000 < t ∧ t ≤ 1 := by
  obtain ⟨t, c, hl, ha⟩ := (final_within_tolerance_or_below_min_partial cfg h env fuel).1 hf
  have hmem : t ∈ (reported (solverNR cfg env fuel)).map Prod.fst :=
    List.mem_map.2 ⟨(t, c), List.mem_of_getLast? hl, rfl⟩
  have h1 := ((reported_increasing_in_unit_interval cfg h env fuel).2 t hmem).2
  refine ⟨t, c, hl, ?_, h1⟩
  unfold absK at ha
  split at ha
  · linarith
  · have : (0:K) ≤ t - 1 := not_lt.1 ‹_›
    have : (0:K) < 1 / 1000 := by norm_num
    linarith
/-- Counter-example to "the last load factor equals 1": a *linear* problem (every step converges at its
second iteration) with `initialInc = maxInc = 0.3333` finishes with last load factor `0.9999`. -/
theorem final_not_one_counterexample :
    let cfg : Cfg ℚ := ⟨3333 / 10000, 1 / 1000, 3333 / 10000, 1 / 1000, 1 / 100, 30, false, 20, true, 6, true⟩
    let env : Env ℚ := ⟨fun k => if k % 2 = 0 then 1 else 0, fun _ => (1, 2)⟩
    Admissible cfg ∧ (solverNR cfg env 10).1 = Outcome.finished ∧
      (reported (solverNR cfg env 10)).map Prod.fst = [3333 / 10000, 6666 / 10000, 9999 / 10000] :=
  final_not_one_counterexample_aux

/-- A linear problem (the residual after one exact Newton step is below tolerance at every load level)
never bisects: the driver finishes, and every load step is reported. -/
theorem linear_problem_finishes_partial (cfg : Cfg ℝ) (h : Admissible cfg) (env : Env ℝ)
    (hlin : ∀ k, env.rmax (2 * k + 1) < cfg.absTOL) (h2 : 2 ≤ cfg.maxNumIter) :
    ∃ N, (solverNR cfg env N).1 = Outcome.finished ∧
      ∀ e ∈ events (solverNR cfg env N), e ≠ Ev.stopMin ∧ ∀ inc, e ≠ Ev.solve0 inc ∨ inc = cfg.initialInc :=
  linear_problem_finishes_aux cfg h env hlin h2

/-- ... and therefore reaches (the finish window of) full load: what "a linear problem is solved to full load" amounts to
for the driver as written (exactly 1 is not guaranteed, `final_not_one_counterexample` is a linear problem). -/
theorem linear_problem_reaches_full_load_window_partial (cfg : Cfg ℝ) (h : Admissible cfg) (env : Env ℝ)
    (hlin : ∀ k, env.rmax (2 * k + 1) < cfg.absTOL) (h2 : 2 ≤ cfg.maxNumIter) :
    ∃ N t c, (solverNR cfg env N).1 = Outcome.finished ∧
      (reported (solverNR cfg env N)).getLast? = some (t, c) ∧ 1 - 1 / 1000 < t ∧ t ≤ 1 := by
  obtain ⟨N, hf, _⟩ := linear_problem_finishes_partial cfg h env hlin h2
  obtain ⟨t, c, hl, hlo, hhi⟩ := finished_last_factor_window cfg h env N hf
  exact ⟨N, t, c, hf, hl, hlo, hhi⟩

/-! Non-vacuity: the default settings of `Analysis.__init__` are admissible. -/
example : Admissible (⟨3 / 10, 1 / 1000, 1, 1 / 1000, 1 / 100, 30, true, 20, true, 6, true⟩ : Cfg ℚ) := by
  unfold Admissible; norm_num

end Compmech.NR.C09
