/-
C12 — penalty connection matrices are the Hessian of the interface mismatch energy
  kt/2 ∫ |⟦interface displacement⟧|² + kr/2 ∫ ⟦interface rotation⟧²
evaluated with the two panels' own series on the stated interface line / surface.
Kernel models regenerated from compmech/panel/connections/kC*.pyx on every run.
-/
import CompmechVerif.Gen.Conn.SSxcte
import CompmechVerif.Gen.Conn.SSycte
import CompmechVerif.Gen.Conn.BFxcte
import CompmechVerif.Gen.Conn.BFycte
import CompmechVerif.Gen.Conn.SB
import CompmechVerif.Spec.Interface
import CompmechVerif.Spec.InterfacePSD
import CompmechVerif.Spec.ConnAssemblyPSD
import CompmechVerif.Model.PenaltyConstantsLemmas
import CompmechVerif.Core.OpSpecTactics
import Mathlib.Tactic.FinCases
import Mathlib.Data.Fintype.Basic

set_option linter.unnecessarySeqFocus false
set_option linter.unusedSectionVars false
set_option linter.unusedSimpArgs false

namespace Compmech.Panel

/-- `conn_eq_hess [unfold lemmas]` -/
syntax "conn_eq_hess " "[" Lean.Parser.Tactic.simpLemma,* "]" : tactic
macro_rules
  | `(tactic| conn_eq_hess [$ls,*]) => `(tactic|
      (simp only [Fin.reduceFinMk, Fin.isValue, Fin.zero_eta, Fin.mk_one, panel_entry, $ls,*, lineHess, surfHess,
         penaltyW, sbW, Pan.sgn, CCtx.a, CCtx.b, fld3, List.finRange, List.map, List.sum_cons, List.sum_nil]
       simp only [List.ofFn, Fin.foldr, Fin.foldr.loop, List.map, List.sum_cons, List.sum_nil,
         mul_zero, zero_mul, add_zero, zero_add]
       try simp
       try field_simp
       try ring))

namespace C12
open Compmech.Gen.Conn

variable {K : Type} [Field K] [CharZero K]

/-! skin–skin, interface along `y = const` (integration along x over the length `a₁`) -/
theorem ssy_11 (C : CCtx K) (hk : C.kt ≠ 0) (h1 : C.b1 ≠ 0) (h2 : C.b2 ≠ 0) (ro co : Fin 3) :
    SSycte.b11.entry ro co C = lineHess C .x .y C.a1 (ssyOps C) (penaltyW C) .p1 .p1 (fld3 ro) (fld3 co) := by
  fin_cases ro <;> fin_cases co <;> conn_eq_hess [ssyOps]
theorem ssy_12 (C : CCtx K) (hk : C.kt ≠ 0) (h1 : C.b1 ≠ 0) (h2 : C.b2 ≠ 0) (ro co : Fin 3) :
    SSycte.b12.entry ro co C = lineHess C .x .y C.a1 (ssyOps C) (penaltyW C) .p1 .p2 (fld3 ro) (fld3 co) := by
  fin_cases ro <;> fin_cases co <;> conn_eq_hess [ssyOps]
theorem ssy_22 (C : CCtx K) (hk : C.kt ≠ 0) (h1 : C.b1 ≠ 0) (h2 : C.b2 ≠ 0) (ro co : Fin 3) :
    SSycte.b22.entry ro co C = lineHess C .x .y C.a1 (ssyOps C) (penaltyW C) .p2 .p2 (fld3 ro) (fld3 co) := by
  fin_cases ro <;> fin_cases co <;> conn_eq_hess [ssyOps]

/-! skin–skin, interface along `x = const` (integration along y over the width `b₁`) -/
theorem ssx_11 (C : CCtx K) (hk : C.kt ≠ 0) (h1 : C.a1 ≠ 0) (h2 : C.a2 ≠ 0) (ro co : Fin 3) :
    SSxcte.b11.entry ro co C = lineHess C .y .x C.b1 (ssxOps C) (penaltyW C) .p1 .p1 (fld3 ro) (fld3 co) := by
  fin_cases ro <;> fin_cases co <;> conn_eq_hess [ssxOps]
theorem ssx_12 (C : CCtx K) (hk : C.kt ≠ 0) (h1 : C.a1 ≠ 0) (h2 : C.a2 ≠ 0) (ro co : Fin 3) :
    SSxcte.b12.entry ro co C = lineHess C .y .x C.b1 (ssxOps C) (penaltyW C) .p1 .p2 (fld3 ro) (fld3 co) := by
  fin_cases ro <;> fin_cases co <;> conn_eq_hess [ssxOps]
theorem ssx_22 (C : CCtx K) (hk : C.kt ≠ 0) (h1 : C.a1 ≠ 0) (h2 : C.a2 ≠ 0) (ro co : Fin 3) :
    SSxcte.b22.entry ro co C = lineHess C .y .x C.b1 (ssxOps C) (penaltyW C) .p2 .p2 (fld3 ro) (fld3 co) := by
  fin_cases ro <;> fin_cases co <;> conn_eq_hess [ssxOps]

/-! base – perpendicular flange along `y = const` -/
theorem bfy_11 (C : CCtx K) (hk : C.kt ≠ 0) (h1 : C.b1 ≠ 0) (h2 : C.b2 ≠ 0) (ro co : Fin 3) :
    BFycte.b11.entry ro co C = lineHess C .x .y C.a1 (bfyOps C) (penaltyW C) .p1 .p1 (fld3 ro) (fld3 co) := by
  fin_cases ro <;> fin_cases co <;> conn_eq_hess [bfyOps, ssyOps]
theorem bfy_12 (C : CCtx K) (hk : C.kt ≠ 0) (h1 : C.b1 ≠ 0) (h2 : C.b2 ≠ 0) (ro co : Fin 3) :
    BFycte.b12.entry ro co C = lineHess C .x .y C.a1 (bfyOps C) (penaltyW C) .p1 .p2 (fld3 ro) (fld3 co) := by
  fin_cases ro <;> fin_cases co <;> conn_eq_hess [bfyOps, ssyOps]
theorem bfy_22 (C : CCtx K) (hk : C.kt ≠ 0) (h1 : C.b1 ≠ 0) (h2 : C.b2 ≠ 0) (ro co : Fin 3) :
    BFycte.b22.entry ro co C = lineHess C .x .y C.a1 (bfyOps C) (penaltyW C) .p2 .p2 (fld3 ro) (fld3 co) := by
  fin_cases ro <;> fin_cases co <;> conn_eq_hess [bfyOps, ssyOps]

/-! base – perpendicular flange along `x = const` -/
theorem bfx_11 (C : CCtx K) (hk : C.kt ≠ 0) (h1 : C.a1 ≠ 0) (h2 : C.a2 ≠ 0) (ro co : Fin 3) :
    BFxcte.b11.entry ro co C = lineHess C .y .x C.b1 (bfxOps C) (penaltyW C) .p1 .p1 (fld3 ro) (fld3 co) := by
  fin_cases ro <;> fin_cases co <;> conn_eq_hess [bfxOps, ssxOps]
theorem bfx_12 (C : CCtx K) (hk : C.kt ≠ 0) (h1 : C.a1 ≠ 0) (h2 : C.a2 ≠ 0) (ro co : Fin 3) :
    BFxcte.b12.entry ro co C = lineHess C .y .x C.b1 (bfxOps C) (penaltyW C) .p1 .p2 (fld3 ro) (fld3 co) := by
  fin_cases ro <;> fin_cases co <;> conn_eq_hess [bfxOps, ssxOps]
theorem bfx_22 (C : CCtx K) (hk : C.kt ≠ 0) (h1 : C.a1 ≠ 0) (h2 : C.a2 ≠ 0) (ro co : Fin 3) :
    BFxcte.b22.entry ro co C = lineHess C .y .x C.b1 (bfxOps C) (penaltyW C) .p2 .p2 (fld3 ro) (fld3 co) := by
  fin_cases ro <;> fin_cases co <;> conn_eq_hess [bfxOps, ssxOps]

/-! face to face with thickness offset -/
theorem sb_11 (C : CCtx K) (h1 : C.a1 ≠ 0) (h2 : C.b1 ≠ 0) (ro co : Fin 3) :
    SB.b11.entry ro co C = surfHess C (sbOps C) (sbW C) .p1 .p1 (fld3 ro) (fld3 co) := by
  fin_cases ro <;> fin_cases co <;> conn_eq_hess [sbOps]
theorem sb_12 (C : CCtx K) (h1 : C.a1 ≠ 0) (h2 : C.b1 ≠ 0) (ro co : Fin 3) :
    SB.b12.entry ro co C = surfHess C (sbOps C) (sbW C) .p1 .p2 (fld3 ro) (fld3 co) := by
  fin_cases ro <;> fin_cases co <;> conn_eq_hess [sbOps]
theorem sb_22 (C : CCtx K) (h1 : C.a1 ≠ 0) (h2 : C.b1 ≠ 0) (ro co : Fin 3) :
    SB.b22.entry ro co C = surfHess C (sbOps C) (sbW C) .p2 .p2 (fld3 ro) (fld3 co) := by
  fin_cases ro <;> fin_cases co <;> conn_eq_hess [sbOps]


/-! ### positive semi-definiteness of the connection matrices (over ℝ)

`connEntry b11 b12 b22 base J E pA pB ro co i k j l` (Spec/InterfacePSD.lean) is the entry of the symmetric connection matrix
`[[k11, k12], [k12ᵀ, k22]]` for the row degree of freedom (panel `pA`, field offset `ro`, series indices `i, j`) and the column
one (`pB`, `co`, `k, l`), the kernels evaluated in the context their loop body sees for these indices (`cctxAt`).
`RealLineIntegrals J along Z z₁ z₂`: the integrals along the interface line ARE integrals over `[z₁, z₂]`, `z₁ ≤ z₂`, of products
of continuous functions (`Z d f p i = D^d φ^f` of panel `p`); the point values `E` at the interface coordinates are arbitrary.
Then for ANY finite family of degrees of freedom of the two panels and ANY amplitudes `c`: `cᵀ K c ≥ 0` whenever
`kt, kr ≥ 0` and the interface length (area) is `≥ 0` — `cᵀ K c = kt ∫ |⟦u⟧|² + kr ∫ ⟦rotation⟧²` of the field with amplitudes `c`
(Core/ConnSpecPSD.lean).  The examples instantiate every hypothesis (non-vacuity): `a₁ = b₁ = 2`, `a₂ = 3`, `b₂ = 1`,
`kt = 1000`, `kr = 10`, `dsb = 1/10`, monomials `t^(i+d)` (panel 1), `(1−t)^(i+d)` (panel 2) on `[−1, 1]`. -/

open scoped BigOperators

/-- skin–skin connection along `y = const` -/
theorem conn_psd_ssy {ι : Type} (base : CCtx ℝ) (J : ConnIntegrals) (E : ConnEvals) (hk : base.kt ≠ 0)
    (h1 : base.b1 ≠ 0) (h2 : base.b2 ≠ 0) (hkt : 0 ≤ base.kt) (hkr : 0 ≤ base.kr) (hlen : 0 ≤ base.a1)
    (Z : Nat → Fld → Pan → Nat → ℝ → ℝ) (z₁ z₂ : ℝ) (hR : RealLineIntegrals J .x Z z₁ z₂)
    (s : Finset ι) (pan : ι → Pan) (ro : ι → Fin 3) (ix iy : ι → Nat) (c : ι → ℝ) :
    0 ≤ ∑ A ∈ s, ∑ B ∈ s, c A * c B *
      connEntry SSycte.b11.entry SSycte.b12.entry SSycte.b22.entry base J E (pan A) (pan B) (ro A) (ro B)
        (ix A) (ix B) (iy A) (iy B) :=
  connEntry_line_psd _ _ _ base J E .x .y base.a1 hlen Z z₁ z₂ hR (ssyOps base) (penaltyW base)
    (penaltyW_nonneg base hkt hkr)
    (fun ro co i k j l => ssy_11 (cctxAt base J E i k j l) hk h1 h2 ro co)
    (fun ro co i k j l => ssy_12 (cctxAt base J E i k j l) hk h1 h2 ro co)
    (fun ro co i k j l => ssy_22 (cctxAt base J E i k j l) hk h1 h2 ro co) s pan ro ix iy c

open ConnPSDExample in
example {ι : Type} (s : Finset ι) (pan : ι → Pan) (ro : ι → Fin 3) (ix iy : ι → Nat) (c : ι → ℝ) :
    0 ≤ ∑ A ∈ s, ∑ B ∈ s, c A * c B *
      connEntry SSycte.b11.entry SSycte.b12.entry SSycte.b22.entry unitConn monoJ monoE (pan A) (pan B) (ro A) (ro B)
        (ix A) (ix B) (iy A) (iy B) :=
  conn_psd_ssy unitConn monoJ monoE (by norm_num [unitConn]) (by norm_num [unitConn]) (by norm_num [unitConn])
    (by norm_num [unitConn]) (by norm_num [unitConn]) (by norm_num [unitConn]) mono (-1) 1 (monoJ_line _) s pan ro ix iy c

/-- skin–skin connection along `x = const` -/
theorem conn_psd_ssx {ι : Type} (base : CCtx ℝ) (J : ConnIntegrals) (E : ConnEvals) (hk : base.kt ≠ 0)
    (h1 : base.a1 ≠ 0) (h2 : base.a2 ≠ 0) (hkt : 0 ≤ base.kt) (hkr : 0 ≤ base.kr) (hlen : 0 ≤ base.b1)
    (Z : Nat → Fld → Pan → Nat → ℝ → ℝ) (z₁ z₂ : ℝ) (hR : RealLineIntegrals J .y Z z₁ z₂)
    (s : Finset ι) (pan : ι → Pan) (ro : ι → Fin 3) (ix iy : ι → Nat) (c : ι → ℝ) :
    0 ≤ ∑ A ∈ s, ∑ B ∈ s, c A * c B *
      connEntry SSxcte.b11.entry SSxcte.b12.entry SSxcte.b22.entry base J E (pan A) (pan B) (ro A) (ro B)
        (ix A) (ix B) (iy A) (iy B) :=
  connEntry_line_psd _ _ _ base J E .y .x base.b1 hlen Z z₁ z₂ hR (ssxOps base) (penaltyW base)
    (penaltyW_nonneg base hkt hkr)
    (fun ro co i k j l => ssx_11 (cctxAt base J E i k j l) hk h1 h2 ro co)
    (fun ro co i k j l => ssx_12 (cctxAt base J E i k j l) hk h1 h2 ro co)
    (fun ro co i k j l => ssx_22 (cctxAt base J E i k j l) hk h1 h2 ro co) s pan ro ix iy c

open ConnPSDExample in
example {ι : Type} (s : Finset ι) (pan : ι → Pan) (ro : ι → Fin 3) (ix iy : ι → Nat) (c : ι → ℝ) :
    0 ≤ ∑ A ∈ s, ∑ B ∈ s, c A * c B *
      connEntry SSxcte.b11.entry SSxcte.b12.entry SSxcte.b22.entry unitConn monoJ monoE (pan A) (pan B) (ro A) (ro B)
        (ix A) (ix B) (iy A) (iy B) :=
  conn_psd_ssx unitConn monoJ monoE (by norm_num [unitConn]) (by norm_num [unitConn]) (by norm_num [unitConn])
    (by norm_num [unitConn]) (by norm_num [unitConn]) (by norm_num [unitConn]) mono (-1) 1 (monoJ_line _) s pan ro ix iy c

/-- base – perpendicular flange along `y = const` -/
theorem conn_psd_bfy {ι : Type} (base : CCtx ℝ) (J : ConnIntegrals) (E : ConnEvals) (hk : base.kt ≠ 0)
    (h1 : base.b1 ≠ 0) (h2 : base.b2 ≠ 0) (hkt : 0 ≤ base.kt) (hkr : 0 ≤ base.kr) (hlen : 0 ≤ base.a1)
    (Z : Nat → Fld → Pan → Nat → ℝ → ℝ) (z₁ z₂ : ℝ) (hR : RealLineIntegrals J .x Z z₁ z₂)
    (s : Finset ι) (pan : ι → Pan) (ro : ι → Fin 3) (ix iy : ι → Nat) (c : ι → ℝ) :
    0 ≤ ∑ A ∈ s, ∑ B ∈ s, c A * c B *
      connEntry BFycte.b11.entry BFycte.b12.entry BFycte.b22.entry base J E (pan A) (pan B) (ro A) (ro B)
        (ix A) (ix B) (iy A) (iy B) :=
  connEntry_line_psd _ _ _ base J E .x .y base.a1 hlen Z z₁ z₂ hR (bfyOps base) (penaltyW base)
    (penaltyW_nonneg base hkt hkr)
    (fun ro co i k j l => bfy_11 (cctxAt base J E i k j l) hk h1 h2 ro co)
    (fun ro co i k j l => bfy_12 (cctxAt base J E i k j l) hk h1 h2 ro co)
    (fun ro co i k j l => bfy_22 (cctxAt base J E i k j l) hk h1 h2 ro co) s pan ro ix iy c

open ConnPSDExample in
example {ι : Type} (s : Finset ι) (pan : ι → Pan) (ro : ι → Fin 3) (ix iy : ι → Nat) (c : ι → ℝ) :
    0 ≤ ∑ A ∈ s, ∑ B ∈ s, c A * c B *
      connEntry BFycte.b11.entry BFycte.b12.entry BFycte.b22.entry unitConn monoJ monoE (pan A) (pan B) (ro A) (ro B)
        (ix A) (ix B) (iy A) (iy B) :=
  conn_psd_bfy unitConn monoJ monoE (by norm_num [unitConn]) (by norm_num [unitConn]) (by norm_num [unitConn])
    (by norm_num [unitConn]) (by norm_num [unitConn]) (by norm_num [unitConn]) mono (-1) 1 (monoJ_line _) s pan ro ix iy c

/-- base – perpendicular flange along `x = const` -/
theorem conn_psd_bfx {ι : Type} (base : CCtx ℝ) (J : ConnIntegrals) (E : ConnEvals) (hk : base.kt ≠ 0)
    (h1 : base.a1 ≠ 0) (h2 : base.a2 ≠ 0) (hkt : 0 ≤ base.kt) (hkr : 0 ≤ base.kr) (hlen : 0 ≤ base.b1)
    (Z : Nat → Fld → Pan → Nat → ℝ → ℝ) (z₁ z₂ : ℝ) (hR : RealLineIntegrals J .y Z z₁ z₂)
    (s : Finset ι) (pan : ι → Pan) (ro : ι → Fin 3) (ix iy : ι → Nat) (c : ι → ℝ) :
    0 ≤ ∑ A ∈ s, ∑ B ∈ s, c A * c B *
      connEntry BFxcte.b11.entry BFxcte.b12.entry BFxcte.b22.entry base J E (pan A) (pan B) (ro A) (ro B)
        (ix A) (ix B) (iy A) (iy B) :=
  connEntry_line_psd _ _ _ base J E .y .x base.b1 hlen Z z₁ z₂ hR (bfxOps base) (penaltyW base)
    (penaltyW_nonneg base hkt hkr)
    (fun ro co i k j l => bfx_11 (cctxAt base J E i k j l) hk h1 h2 ro co)
    (fun ro co i k j l => bfx_12 (cctxAt base J E i k j l) hk h1 h2 ro co)
    (fun ro co i k j l => bfx_22 (cctxAt base J E i k j l) hk h1 h2 ro co) s pan ro ix iy c

open ConnPSDExample in
example {ι : Type} (s : Finset ι) (pan : ι → Pan) (ro : ι → Fin 3) (ix iy : ι → Nat) (c : ι → ℝ) :
    0 ≤ ∑ A ∈ s, ∑ B ∈ s, c A * c B *
      connEntry BFxcte.b11.entry BFxcte.b12.entry BFxcte.b22.entry unitConn monoJ monoE (pan A) (pan B) (ro A) (ro B)
        (ix A) (ix B) (iy A) (iy B) :=
  conn_psd_bfx unitConn monoJ monoE (by norm_num [unitConn]) (by norm_num [unitConn]) (by norm_num [unitConn])
    (by norm_num [unitConn]) (by norm_num [unitConn]) (by norm_num [unitConn]) mono (-1) 1 (monoJ_line _) s pan ro ix iy c

/-- face to face with thickness offset (surface penalty over the footprint `a₁ × b₁`, `a₁ b₁ ≥ 0`, `kt ≥ 0`) -/
theorem conn_psd_sb {ι : Type} (base : CCtx ℝ) (J : ConnIntegrals) (E : ConnEvals)
    (h1 : base.a1 ≠ 0) (h2 : base.b1 ≠ 0) (hkt : 0 ≤ base.kt) (hab : 0 ≤ base.a1 * base.b1)
    (X Y : Nat → Fld → Pan → Nat → ℝ → ℝ) (x₁ x₂ y₁ y₂ : ℝ) (hR : RealSurfIntegrals J X Y x₁ x₂ y₁ y₂)
    (s : Finset ι) (pan : ι → Pan) (ro : ι → Fin 3) (ix iy : ι → Nat) (c : ι → ℝ) :
    0 ≤ ∑ A ∈ s, ∑ B ∈ s, c A * c B *
      connEntry SB.b11.entry SB.b12.entry SB.b22.entry base J E (pan A) (pan B) (ro A) (ro B)
        (ix A) (ix B) (iy A) (iy B) :=
  connEntry_surf_psd _ _ _ base J E hab X Y x₁ x₂ y₁ y₂ hR (sbOps base) (sbW base) (sbW_nonneg base hkt)
    (fun ro co i k j l => sb_11 (cctxAt base J E i k j l) h1 h2 ro co)
    (fun ro co i k j l => sb_12 (cctxAt base J E i k j l) h1 h2 ro co)
    (fun ro co i k j l => sb_22 (cctxAt base J E i k j l) h1 h2 ro co) s pan ro ix iy c

open ConnPSDExample in
example {ι : Type} (s : Finset ι) (pan : ι → Pan) (ro : ι → Fin 3) (ix iy : ι → Nat) (c : ι → ℝ) :
    0 ≤ ∑ A ∈ s, ∑ B ∈ s, c A * c B *
      connEntry SB.b11.entry SB.b12.entry SB.b22.entry unitConn monoJ monoE (pan A) (pan B) (ro A) (ro B)
        (ix A) (ix B) (iy A) (iy B) :=
  conn_psd_sb unitConn monoJ monoE (by norm_num [unitConn]) (by norm_num [unitConn]) (by norm_num [unitConn])
    (by norm_num [unitConn]) mono mono (-1) 1 (-1) 1 monoJ_surf s pan ro ix iy c

/-! ### the ASSEMBLED connection matrix `get_k0_conn()` of one connection is positive semi-definite

`k0Conn ps [conn]` is `get_k0_conn(finalize=True)` of Model/Assembly.lean (C13) for an assembly with the panels `ps` (series orders) and the single
connection `conn` between the panels number `conn.p1`, `conn.p2` — block `11` at the range of `p1`, block `22` at the range of `p2`, the coupling
block `12` at (rows of `p1`, columns of `p2`) or, when `p1` follows `p2`, its transpose at (rows of `p2`, columns of `p1`)
(`connection_blocks_placement`, `coupling_block_upper` of Props/C13), then `finalize_symmetric_matrix`.

HYPOTHESES `hk11, hk12, hk22` (stated explicitly, NOT proved): the stand-alone COO lists of the three kernels are the loop nests of
Model/ConnLoop.lean — `connNestDiag` = the panel nest with the `row > col` skip over ONE panel's `(m, n)`, `connNest12` = the rectangular nest
without skip, rows over panel 1, columns over panel 2; `yx` = loop order of the `xcte` kinds — each loop body writing, at `(ro, co)`, the value of
the regenerated `entry ro co` in the context `cctxAt base J E i k j l` of its loop indices (= `connEntry` on that block).  That a kernel called with
`(row0, col0)` returns this list shifted there is the assumption of Model/Assembly.lean, proved for these nests in Props/C13
(`conn_kernel_placement`).  Conclusion: `vᵀ K v ≥ 0` for EVERY amplitude vector `v` of the assembly, for any position of the two panels in the
list, in either order. -/

open Compmech.Asm Compmech.PanelLoop in
/-- GENERAL FORM, for any three block kernels `b11, b12, b22`: if the per-pair values `connEntry` are symmetric on the two diagonal blocks (`hsym`)
and positive semi-definite over the degrees of freedom of the two panels (`hpsd`: the conclusion of the `conn_psd_*` theorems with `s = univ`), then
the finalized assembled connection matrix is positive semi-definite. -/
theorem get_k0_conn_psd (ps : List (Nat × Nat)) (conn : Conn ℝ) (h1 : conn.p1 < ps.length) (h2 : conn.p2 < ps.length)
    (hne : conn.p1 ≠ conn.p2) (m1 n1 m2 n2 : Nat) (hm1 : ps.getD conn.p1 (0, 0) = (m1, n1))
    (hm2 : ps.getD conn.p2 (0, 0) = (m2, n2)) (yx : Bool)
    (b11 b12 b22 : Fin 3 → Fin 3 → CCtx ℝ → ℝ) (base : CCtx ℝ) (J : ConnIntegrals) (E : ConnEvals)
    (hk11 : conn.k11 = connNestDiag yx m1 n1 0 fun ro co i k j l => connEntry b11 b12 b22 base J E .p1 .p1 ro co i k j l)
    (hk12 : conn.k12 = connNest12 yx m1 n1 m2 n2 0 0 fun ro co i k j l => connEntry b11 b12 b22 base J E .p1 .p2 ro co i k j l)
    (hk22 : conn.k22 = connNestDiag yx m2 n2 0 fun ro co i k j l => connEntry b11 b12 b22 base J E .p2 .p2 ro co i k j l)
    (hsym : ∀ (p : Pan) (ro co : Fin 3) (i k j l : Nat),
      connEntry b11 b12 b22 base J E p p ro co i k j l = connEntry b11 b12 b22 base J E p p co ro k i l j)
    (hpsd : ∀ w : ConnDof m1 n1 m2 n2 → ℝ, 0 ≤ ∑ X, ∑ Y, w X * w Y *
      connEntry b11 b12 b22 base J E X.pan Y.pan X.ro Y.ro X.ix Y.ix X.iy Y.iy)
    (v : Nat → ℝ) :
    0 ≤ ∑ r ∈ Finset.range (getSize ps), ∑ c ∈ Finset.range (getSize ps), v r * toFun (k0Conn ps [conn]) r c * v c :=
  k0Conn_psd_aux ps conn h1 h2 hne m1 n1 m2 n2 hm1 hm2 yx b11 b12 b22 base J E hk11 hk12 hk22 hsym hpsd v

open Compmech.Asm Compmech.PanelLoop ConnPSDExample in
/-- non-vacuity of the general form: `hsym`, `hpsd` delivered for the regenerated `SSycte` kernels by the per-pair theorems
(`connEntry_line_diag_symm`, `connEntry_line_psd` = `conn_psd_ssy` with `s = univ`); `p1` listed after `p2` -/
example (v : Nat → ℝ) :
    0 ≤ ∑ r ∈ Finset.range 27, ∑ c ∈ Finset.range 27, v r *
      toFun (k0Conn [(2, 1), (1, 3), (2, 2)]
        [⟨2, 0,
          connNestDiag false 2 2 0 fun ro co i k j l => SSycte.b11.entry ro co (cctxAt unitConn monoJ monoE i k j l),
          connNest12 false 2 2 2 1 0 0 fun ro co i k j l => SSycte.b12.entry ro co (cctxAt unitConn monoJ monoE i k j l),
          connNestDiag false 2 1 0 fun ro co i k j l => SSycte.b22.entry ro co (cctxAt unitConn monoJ monoE i k j l)⟩]) r c * v c :=
  get_k0_conn_psd [(2, 1), (1, 3), (2, 2)] _ (by decide) (by decide) (by decide) 2 2 2 1 rfl rfl false
    SSycte.b11.entry SSycte.b12.entry SSycte.b22.entry unitConn monoJ monoE rfl rfl rfl
    (connEntry_line_diag_symm _ _ _ unitConn monoJ monoE .x .y unitConn.a1 mono (-1) 1 (monoJ_line _) (ssyOps unitConn)
      (penaltyW unitConn)
      (fun ro co i k j l => ssy_11 (cctxAt unitConn monoJ monoE i k j l) (by norm_num [unitConn, cctxAt])
        (by norm_num [unitConn, cctxAt]) (by norm_num [unitConn, cctxAt]) ro co)
      (fun ro co i k j l => ssy_22 (cctxAt unitConn monoJ monoE i k j l) (by norm_num [unitConn, cctxAt])
        (by norm_num [unitConn, cctxAt]) (by norm_num [unitConn, cctxAt]) ro co))
    (fun w => conn_psd_ssy unitConn monoJ monoE (by norm_num [unitConn]) (by norm_num [unitConn]) (by norm_num [unitConn])
      (by norm_num [unitConn]) (by norm_num [unitConn]) (by norm_num [unitConn]) mono (-1) 1 (monoJ_line _)
      Finset.univ ConnDof.pan ConnDof.ro ConnDof.ix ConnDof.iy w) v

open Compmech.Asm Compmech.PanelLoop in
/-- skin–skin connection along `y = const`, assembled (regenerated kernels `fkCSSycte11/12/22`, loop order `i, k, j, l`) -/
theorem get_k0_conn_psd_ssy (ps : List (Nat × Nat)) (conn : Conn ℝ) (h1 : conn.p1 < ps.length) (h2 : conn.p2 < ps.length)
    (hne : conn.p1 ≠ conn.p2) (m1 n1 m2 n2 : Nat) (hm1 : ps.getD conn.p1 (0, 0) = (m1, n1))
    (hm2 : ps.getD conn.p2 (0, 0) = (m2, n2)) (base : CCtx ℝ) (J : ConnIntegrals) (E : ConnEvals)
    (hk11 : conn.k11 = connNestDiag false m1 n1 0 fun ro co i k j l => SSycte.b11.entry ro co (cctxAt base J E i k j l))
    (hk12 : conn.k12 = connNest12 false m1 n1 m2 n2 0 0 fun ro co i k j l => SSycte.b12.entry ro co (cctxAt base J E i k j l))
    (hk22 : conn.k22 = connNestDiag false m2 n2 0 fun ro co i k j l => SSycte.b22.entry ro co (cctxAt base J E i k j l))
    (hk : base.kt ≠ 0) (hb1 : base.b1 ≠ 0) (hb2 : base.b2 ≠ 0) (hkt : 0 ≤ base.kt) (hkr : 0 ≤ base.kr) (hlen : 0 ≤ base.a1)
    (Z : Nat → Fld → Pan → Nat → ℝ → ℝ) (z₁ z₂ : ℝ) (hR : RealLineIntegrals J .x Z z₁ z₂) (v : Nat → ℝ) :
    0 ≤ ∑ r ∈ Finset.range (getSize ps), ∑ c ∈ Finset.range (getSize ps), v r * toFun (k0Conn ps [conn]) r c * v c :=
  k0Conn_psd_line ps conn h1 h2 hne m1 n1 m2 n2 hm1 hm2 false SSycte.b11.entry SSycte.b12.entry SSycte.b22.entry base J E hk11 hk12 hk22 .x .y base.a1 hlen Z z₁ z₂ hR
    (ssyOps base) (penaltyW base) (penaltyW_nonneg base hkt hkr)
    (fun ro co i k j l => ssy_11 (cctxAt base J E i k j l) hk hb1 hb2 ro co)
    (fun ro co i k j l => ssy_12 (cctxAt base J E i k j l) hk hb1 hb2 ro co)
    (fun ro co i k j l => ssy_22 (cctxAt base J E i k j l) hk hb1 hb2 ro co) v

open Compmech.Asm Compmech.PanelLoop in
/-- skin–skin connection along `x = const`, assembled (`fkCSSxcte11/12/22`, loop order `j, l, i, k`) -/
theorem get_k0_conn_psd_ssx (ps : List (Nat × Nat)) (conn : Conn ℝ) (h1 : conn.p1 < ps.length) (h2 : conn.p2 < ps.length)
    (hne : conn.p1 ≠ conn.p2) (m1 n1 m2 n2 : Nat) (hm1 : ps.getD conn.p1 (0, 0) = (m1, n1))
    (hm2 : ps.getD conn.p2 (0, 0) = (m2, n2)) (base : CCtx ℝ) (J : ConnIntegrals) (E : ConnEvals)
    (hk11 : conn.k11 = connNestDiag true m1 n1 0 fun ro co i k j l => SSxcte.b11.entry ro co (cctxAt base J E i k j l))
    (hk12 : conn.k12 = connNest12 true m1 n1 m2 n2 0 0 fun ro co i k j l => SSxcte.b12.entry ro co (cctxAt base J E i k j l))
    (hk22 : conn.k22 = connNestDiag true m2 n2 0 fun ro co i k j l => SSxcte.b22.entry ro co (cctxAt base J E i k j l))
    (hk : base.kt ≠ 0) (ha1 : base.a1 ≠ 0) (ha2 : base.a2 ≠ 0) (hkt : 0 ≤ base.kt) (hkr : 0 ≤ base.kr) (hlen : 0 ≤ base.b1)
    (Z : Nat → Fld → Pan → Nat → ℝ → ℝ) (z₁ z₂ : ℝ) (hR : RealLineIntegrals J .y Z z₁ z₂) (v : Nat → ℝ) :
    0 ≤ ∑ r ∈ Finset.range (getSize ps), ∑ c ∈ Finset.range (getSize ps), v r * toFun (k0Conn ps [conn]) r c * v c :=
  k0Conn_psd_line ps conn h1 h2 hne m1 n1 m2 n2 hm1 hm2 true SSxcte.b11.entry SSxcte.b12.entry SSxcte.b22.entry base J E hk11 hk12 hk22 .y .x base.b1 hlen Z z₁ z₂ hR
    (ssxOps base) (penaltyW base) (penaltyW_nonneg base hkt hkr)
    (fun ro co i k j l => ssx_11 (cctxAt base J E i k j l) hk ha1 ha2 ro co)
    (fun ro co i k j l => ssx_12 (cctxAt base J E i k j l) hk ha1 ha2 ro co)
    (fun ro co i k j l => ssx_22 (cctxAt base J E i k j l) hk ha1 ha2 ro co) v

open Compmech.Asm Compmech.PanelLoop in
/-- base – perpendicular flange along `y = const`, assembled (`fkCBFycte11/12/22`) -/
theorem get_k0_conn_psd_bfy (ps : List (Nat × Nat)) (conn : Conn ℝ) (h1 : conn.p1 < ps.length) (h2 : conn.p2 < ps.length)
    (hne : conn.p1 ≠ conn.p2) (m1 n1 m2 n2 : Nat) (hm1 : ps.getD conn.p1 (0, 0) = (m1, n1))
    (hm2 : ps.getD conn.p2 (0, 0) = (m2, n2)) (base : CCtx ℝ) (J : ConnIntegrals) (E : ConnEvals)
    (hk11 : conn.k11 = connNestDiag false m1 n1 0 fun ro co i k j l => BFycte.b11.entry ro co (cctxAt base J E i k j l))
    (hk12 : conn.k12 = connNest12 false m1 n1 m2 n2 0 0 fun ro co i k j l => BFycte.b12.entry ro co (cctxAt base J E i k j l))
    (hk22 : conn.k22 = connNestDiag false m2 n2 0 fun ro co i k j l => BFycte.b22.entry ro co (cctxAt base J E i k j l))
    (hk : base.kt ≠ 0) (hb1 : base.b1 ≠ 0) (hb2 : base.b2 ≠ 0) (hkt : 0 ≤ base.kt) (hkr : 0 ≤ base.kr) (hlen : 0 ≤ base.a1)
    (Z : Nat → Fld → Pan → Nat → ℝ → ℝ) (z₁ z₂ : ℝ) (hR : RealLineIntegrals J .x Z z₁ z₂) (v : Nat → ℝ) :
    0 ≤ ∑ r ∈ Finset.range (getSize ps), ∑ c ∈ Finset.range (getSize ps), v r * toFun (k0Conn ps [conn]) r c * v c :=
  k0Conn_psd_line ps conn h1 h2 hne m1 n1 m2 n2 hm1 hm2 false BFycte.b11.entry BFycte.b12.entry BFycte.b22.entry base J E hk11 hk12 hk22 .x .y base.a1 hlen Z z₁ z₂ hR
    (bfyOps base) (penaltyW base) (penaltyW_nonneg base hkt hkr)
    (fun ro co i k j l => bfy_11 (cctxAt base J E i k j l) hk hb1 hb2 ro co)
    (fun ro co i k j l => bfy_12 (cctxAt base J E i k j l) hk hb1 hb2 ro co)
    (fun ro co i k j l => bfy_22 (cctxAt base J E i k j l) hk hb1 hb2 ro co) v

open Compmech.Asm Compmech.PanelLoop in
/-- base – perpendicular flange along `x = const`, assembled (`fkCBFxcte11/12/22`, loop order `j, l, i, k`) -/
theorem get_k0_conn_psd_bfx (ps : List (Nat × Nat)) (conn : Conn ℝ) (h1 : conn.p1 < ps.length) (h2 : conn.p2 < ps.length)
    (hne : conn.p1 ≠ conn.p2) (m1 n1 m2 n2 : Nat) (hm1 : ps.getD conn.p1 (0, 0) = (m1, n1))
    (hm2 : ps.getD conn.p2 (0, 0) = (m2, n2)) (base : CCtx ℝ) (J : ConnIntegrals) (E : ConnEvals)
    (hk11 : conn.k11 = connNestDiag true m1 n1 0 fun ro co i k j l => BFxcte.b11.entry ro co (cctxAt base J E i k j l))
    (hk12 : conn.k12 = connNest12 true m1 n1 m2 n2 0 0 fun ro co i k j l => BFxcte.b12.entry ro co (cctxAt base J E i k j l))
    (hk22 : conn.k22 = connNestDiag true m2 n2 0 fun ro co i k j l => BFxcte.b22.entry ro co (cctxAt base J E i k j l))
    (hk : base.kt ≠ 0) (ha1 : base.a1 ≠ 0) (ha2 : base.a2 ≠ 0) (hkt : 0 ≤ base.kt) (hkr : 0 ≤ base.kr) (hlen : 0 ≤ base.b1)
    (Z : Nat → Fld → Pan → Nat → ℝ → ℝ) (z₁ z₂ : ℝ) (hR : RealLineIntegrals J .y Z z₁ z₂) (v : Nat → ℝ) :
    0 ≤ ∑ r ∈ Finset.range (getSize ps), ∑ c ∈ Finset.range (getSize ps), v r * toFun (k0Conn ps [conn]) r c * v c :=
  k0Conn_psd_line ps conn h1 h2 hne m1 n1 m2 n2 hm1 hm2 true BFxcte.b11.entry BFxcte.b12.entry BFxcte.b22.entry base J E hk11 hk12 hk22 .y .x base.b1 hlen Z z₁ z₂ hR
    (bfxOps base) (penaltyW base) (penaltyW_nonneg base hkt hkr)
    (fun ro co i k j l => bfx_11 (cctxAt base J E i k j l) hk ha1 ha2 ro co)
    (fun ro co i k j l => bfx_12 (cctxAt base J E i k j l) hk ha1 ha2 ro co)
    (fun ro co i k j l => bfx_22 (cctxAt base J E i k j l) hk ha1 ha2 ro co) v

open Compmech.Asm Compmech.PanelLoop in
/-- face to face with thickness offset, assembled (`fkCSB11/12/22`; surface penalty over the footprint `a₁ × b₁`) -/
theorem get_k0_conn_psd_sb (ps : List (Nat × Nat)) (conn : Conn ℝ) (h1 : conn.p1 < ps.length) (h2 : conn.p2 < ps.length)
    (hne : conn.p1 ≠ conn.p2) (m1 n1 m2 n2 : Nat) (hm1 : ps.getD conn.p1 (0, 0) = (m1, n1))
    (hm2 : ps.getD conn.p2 (0, 0) = (m2, n2)) (base : CCtx ℝ) (J : ConnIntegrals) (E : ConnEvals)
    (hk11 : conn.k11 = connNestDiag false m1 n1 0 fun ro co i k j l => SB.b11.entry ro co (cctxAt base J E i k j l))
    (hk12 : conn.k12 = connNest12 false m1 n1 m2 n2 0 0 fun ro co i k j l => SB.b12.entry ro co (cctxAt base J E i k j l))
    (hk22 : conn.k22 = connNestDiag false m2 n2 0 fun ro co i k j l => SB.b22.entry ro co (cctxAt base J E i k j l))
    (ha1 : base.a1 ≠ 0) (hb1 : base.b1 ≠ 0) (hkt : 0 ≤ base.kt) (hab : 0 ≤ base.a1 * base.b1)
    (X Y : Nat → Fld → Pan → Nat → ℝ → ℝ) (x₁ x₂ y₁ y₂ : ℝ) (hR : RealSurfIntegrals J X Y x₁ x₂ y₁ y₂) (v : Nat → ℝ) :
    0 ≤ ∑ r ∈ Finset.range (getSize ps), ∑ c ∈ Finset.range (getSize ps), v r * toFun (k0Conn ps [conn]) r c * v c :=
  k0Conn_psd_surf ps conn h1 h2 hne m1 n1 m2 n2 hm1 hm2 false SB.b11.entry SB.b12.entry SB.b22.entry base J E hk11 hk12 hk22 hab X Y x₁ x₂ y₁ y₂ hR
    (sbOps base) (sbW base) (sbW_nonneg base hkt)
    (fun ro co i k j l => sb_11 (cctxAt base J E i k j l) ha1 hb1 ro co)
    (fun ro co i k j l => sb_12 (cctxAt base J E i k j l) ha1 hb1 ro co)
    (fun ro co i k j l => sb_22 (cctxAt base J E i k j l) ha1 hb1 ro co) v

open Compmech.Asm Compmech.PanelLoop ConnPSDExample in
/-- non-vacuity: three panels of differing series orders, the connection listed with `p1` (the LAST panel) AFTER `p2` (the first), so the
coupling block is the transposed one; every hypothesis instantiated with the concrete data of `ConnPSDExample` -/
example (v : Nat → ℝ) :
    0 ≤ ∑ r ∈ Finset.range 27, ∑ c ∈ Finset.range 27, v r *
      toFun (k0Conn [(2, 1), (1, 3), (2, 2)]
        [⟨2, 0,
          connNestDiag false 2 2 0 fun ro co i k j l => SSycte.b11.entry ro co (cctxAt unitConn monoJ monoE i k j l),
          connNest12 false 2 2 2 1 0 0 fun ro co i k j l => SSycte.b12.entry ro co (cctxAt unitConn monoJ monoE i k j l),
          connNestDiag false 2 1 0 fun ro co i k j l => SSycte.b22.entry ro co (cctxAt unitConn monoJ monoE i k j l)⟩]) r c * v c :=
  get_k0_conn_psd_ssy [(2, 1), (1, 3), (2, 2)] _ (by decide) (by decide) (by decide) 2 2 2 1 rfl rfl unitConn monoJ monoE rfl rfl rfl
    (by norm_num [unitConn]) (by norm_num [unitConn]) (by norm_num [unitConn]) (by norm_num [unitConn]) (by norm_num [unitConn])
    (by norm_num [unitConn]) mono (-1) 1 (monoJ_line _) v

open Compmech.Asm Compmech.PanelLoop ConnPSDExample in
example (v : Nat → ℝ) :
    0 ≤ ∑ r ∈ Finset.range 27, ∑ c ∈ Finset.range 27, v r *
      toFun (k0Conn [(2, 1), (1, 3), (2, 2)]
        [⟨2, 0,
          connNestDiag true 2 2 0 fun ro co i k j l => SSxcte.b11.entry ro co (cctxAt unitConn monoJ monoE i k j l),
          connNest12 true 2 2 2 1 0 0 fun ro co i k j l => SSxcte.b12.entry ro co (cctxAt unitConn monoJ monoE i k j l),
          connNestDiag true 2 1 0 fun ro co i k j l => SSxcte.b22.entry ro co (cctxAt unitConn monoJ monoE i k j l)⟩]) r c * v c :=
  get_k0_conn_psd_ssx [(2, 1), (1, 3), (2, 2)] _ (by decide) (by decide) (by decide) 2 2 2 1 rfl rfl unitConn monoJ monoE rfl rfl rfl
    (by norm_num [unitConn]) (by norm_num [unitConn]) (by norm_num [unitConn]) (by norm_num [unitConn]) (by norm_num [unitConn])
    (by norm_num [unitConn]) mono (-1) 1 (monoJ_line _) v

open Compmech.Asm Compmech.PanelLoop ConnPSDExample in
example (v : Nat → ℝ) :
    0 ≤ ∑ r ∈ Finset.range 27, ∑ c ∈ Finset.range 27, v r *
      toFun (k0Conn [(2, 1), (1, 3), (2, 2)]
        [⟨2, 0,
          connNestDiag false 2 2 0 fun ro co i k j l => BFycte.b11.entry ro co (cctxAt unitConn monoJ monoE i k j l),
          connNest12 false 2 2 2 1 0 0 fun ro co i k j l => BFycte.b12.entry ro co (cctxAt unitConn monoJ monoE i k j l),
          connNestDiag false 2 1 0 fun ro co i k j l => BFycte.b22.entry ro co (cctxAt unitConn monoJ monoE i k j l)⟩]) r c * v c :=
  get_k0_conn_psd_bfy [(2, 1), (1, 3), (2, 2)] _ (by decide) (by decide) (by decide) 2 2 2 1 rfl rfl unitConn monoJ monoE rfl rfl rfl
    (by norm_num [unitConn]) (by norm_num [unitConn]) (by norm_num [unitConn]) (by norm_num [unitConn]) (by norm_num [unitConn])
    (by norm_num [unitConn]) mono (-1) 1 (monoJ_line _) v

open Compmech.Asm Compmech.PanelLoop ConnPSDExample in
example (v : Nat → ℝ) :
    0 ≤ ∑ r ∈ Finset.range 27, ∑ c ∈ Finset.range 27, v r *
      toFun (k0Conn [(2, 1), (1, 3), (2, 2)]
        [⟨2, 0,
          connNestDiag true 2 2 0 fun ro co i k j l => BFxcte.b11.entry ro co (cctxAt unitConn monoJ monoE i k j l),
          connNest12 true 2 2 2 1 0 0 fun ro co i k j l => BFxcte.b12.entry ro co (cctxAt unitConn monoJ monoE i k j l),
          connNestDiag true 2 1 0 fun ro co i k j l => BFxcte.b22.entry ro co (cctxAt unitConn monoJ monoE i k j l)⟩]) r c * v c :=
  get_k0_conn_psd_bfx [(2, 1), (1, 3), (2, 2)] _ (by decide) (by decide) (by decide) 2 2 2 1 rfl rfl unitConn monoJ monoE rfl rfl rfl
    (by norm_num [unitConn]) (by norm_num [unitConn]) (by norm_num [unitConn]) (by norm_num [unitConn]) (by norm_num [unitConn])
    (by norm_num [unitConn]) mono (-1) 1 (monoJ_line _) v

open Compmech.Asm Compmech.PanelLoop ConnPSDExample in
/-- … and a face-to-face (`SB`) connection between the second and the third panel, in the listed order -/
example (v : Nat → ℝ) :
    0 ≤ ∑ r ∈ Finset.range 27, ∑ c ∈ Finset.range 27, v r *
      toFun (k0Conn [(2, 1), (1, 3), (2, 2)]
        [⟨1, 2,
          connNestDiag false 1 3 0 fun ro co i k j l => SB.b11.entry ro co (cctxAt unitConn monoJ monoE i k j l),
          connNest12 false 1 3 2 2 0 0 fun ro co i k j l => SB.b12.entry ro co (cctxAt unitConn monoJ monoE i k j l),
          connNestDiag false 2 2 0 fun ro co i k j l => SB.b22.entry ro co (cctxAt unitConn monoJ monoE i k j l)⟩]) r c * v c :=
  get_k0_conn_psd_sb [(2, 1), (1, 3), (2, 2)] _ (by decide) (by decide) (by decide) 1 3 2 2 rfl rfl unitConn monoJ monoE rfl rfl rfl
    (by norm_num [unitConn]) (by norm_num [unitConn]) (by norm_num [unitConn]) (by norm_num [unitConn])
    mono mono (-1) 1 (-1) 1 monoJ_surf v

open Compmech.Asm in
/-- SEVERAL connections: `get_k0_conn()` of an assembly with any list of connections is the SUM of the finalized matrices of the single
connections (each its own three placed blocks), and is positive semi-definite as soon as each of them is (`get_k0_conn_psd*`) -/
theorem get_k0_conn_psd_all (ps : List (Nat × Nat)) (conns : List (Conn ℝ)) :
    (∀ r c, toFun (k0Conn ps conns) r c = (conns.map fun cn => toFun (k0Conn ps [cn]) r c).sum) ∧
    ((∀ cn ∈ conns, ∀ v : Nat → ℝ,
        0 ≤ ∑ r ∈ Finset.range (getSize ps), ∑ c ∈ Finset.range (getSize ps), v r * toFun (k0Conn ps [cn]) r c * v c) →
      ∀ v : Nat → ℝ,
        0 ≤ ∑ r ∈ Finset.range (getSize ps), ∑ c ∈ Finset.range (getSize ps), v r * toFun (k0Conn ps conns) r c * v c) :=
  ⟨fun r c => k0Conn_sum ps conns r c, fun h v => k0Conn_psd_of_each ps conns h v⟩

open Compmech.Asm Compmech.PanelLoop ConnPSDExample in
/-- non-vacuity: the three-panel assembly with BOTH connections of the examples above (`SSycte` between the last and the first panel,
`SB` between the second and the third) -/
example (v : Nat → ℝ) :
    0 ≤ ∑ r ∈ Finset.range 27, ∑ c ∈ Finset.range 27, v r *
      toFun (k0Conn [(2, 1), (1, 3), (2, 2)]
        [⟨2, 0,
          connNestDiag false 2 2 0 fun ro co i k j l => SSycte.b11.entry ro co (cctxAt unitConn monoJ monoE i k j l),
          connNest12 false 2 2 2 1 0 0 fun ro co i k j l => SSycte.b12.entry ro co (cctxAt unitConn monoJ monoE i k j l),
          connNestDiag false 2 1 0 fun ro co i k j l => SSycte.b22.entry ro co (cctxAt unitConn monoJ monoE i k j l)⟩,
         ⟨1, 2,
          connNestDiag false 1 3 0 fun ro co i k j l => SB.b11.entry ro co (cctxAt unitConn monoJ monoE i k j l),
          connNest12 false 1 3 2 2 0 0 fun ro co i k j l => SB.b12.entry ro co (cctxAt unitConn monoJ monoE i k j l),
          connNestDiag false 2 2 0 fun ro co i k j l => SB.b22.entry ro co (cctxAt unitConn monoJ monoE i k j l)⟩]) r c * v c := by
  refine (get_k0_conn_psd_all [(2, 1), (1, 3), (2, 2)] _).2 ?_ v
  intro cn hcn w
  simp only [List.mem_cons, List.not_mem_nil, or_false] at hcn
  rcases hcn with rfl | rfl
  · exact get_k0_conn_psd_ssy [(2, 1), (1, 3), (2, 2)] _ (by decide) (by decide) (by decide) 2 2 2 1 rfl rfl unitConn monoJ monoE
      rfl rfl rfl (by norm_num [unitConn]) (by norm_num [unitConn]) (by norm_num [unitConn]) (by norm_num [unitConn])
      (by norm_num [unitConn]) (by norm_num [unitConn]) mono (-1) 1 (monoJ_line _) w
  · exact get_k0_conn_psd_sb [(2, 1), (1, 3), (2, 2)] _ (by decide) (by decide) (by decide) 1 3 2 2 rfl rfl unitConn monoJ monoE
      rfl rfl rfl (by norm_num [unitConn]) (by norm_num [unitConn]) (by norm_num [unitConn]) (by norm_num [unitConn])
      mono mono (-1) 1 (-1) 1 monoJ_surf w

/-! ### the penalty constants `calc_kt_kr` (hand model `Model/PenaltyConstants.lean`, driver-tied to `penalty_constants.py`) -/
open Compmech.Penalty

/-- `calc_kt_kr` is SYMMETRIC in the two panels for the edge connections: joining `p1` to `p2` along `x = const` (or `y = const`) gives the
same `(kt, kr)` as joining `p2` to `p1` — for all laminates (no positivity needed). -/
theorem kt_kr_symmetric_xcte (L1 L2 : Lam K) (m1 m2 : K) : ktKr .xcte L1 L2 m1 = ktKr .xcte L2 L1 m2 := by
  simp only [ktKr, series_comm L1.A11 L2.A11, series_comm L1.D11 L2.D11]

theorem kt_kr_symmetric_ycte (L1 L2 : Lam K) (m1 m2 : K) : ktKr .ycte L1 L2 m1 = ktKr .ycte L2 L1 m2 := by
  simp only [ktKr, series_comm L1.A22 L2.A22, series_comm L1.D22 L2.D22]

/-- the face-to-face constant is symmetric exactly as far as the footprints agree: it divides by `min(p1.a, p1.b)` of the FIRST panel only -/
theorem kt_kr_symmetric_bot_top (L1 L2 : Lam K) (m : K) : ktKr .botTop L1 L2 m = ktKr .botTop L2 L1 m := by
  simp only [ktKr, series_comm L1.A11 L2.A11]

/-- a 90-degree connection read from the other panel is the other 90-degree kind -/
theorem kt_kr_corner_swap (L1 L2 : Lam K) (m1 m2 : K) : ktKr .xcteYcte L1 L2 m1 = ktKr .ycteXcte L2 L1 m2 := by
  simp only [ktKr, series_comm L1.A11 L2.A22, series_comm L1.D11 L2.D22]

/-- LINEAR in the moduli: scaling every stiffness of both laminates by `e ≠ 0` (thicknesses kept) scales `kt` and `kr` by `e`, all kinds -/
theorem kt_kr_linear_in_moduli (c : CType) (L1 L2 : Lam K) (m e : K) (he : e ≠ 0) :
    ktKr c (L1.scale e) (L2.scale e) m = ((e * (ktKr c L1 L2 m).1), (ktKr c L1 L2 m).2.map (e * ·)) := by
  cases c <;> simp only [ktKr, Lam.scale, series_scale _ _ _ _ _ he, Option.map_some, Option.map_none, mul_div_assoc]

/-- for physical laminates (positive stiffnesses and thicknesses) the constants are positive, so the penalty energy is a genuine penalty
(`conn_psd_*` need `kt, kr ≥ 0`) -/
theorem kt_kr_positive {F : Type} [Field F] [LinearOrder F] [IsStrictOrderedRing F] (L1 L2 : Lam F) (m : F)
    (h1 : 0 < L1.A11 ∧ 0 < L1.A22 ∧ 0 < L1.D11 ∧ 0 < L1.D22 ∧ 0 < L1.t)
    (h2 : 0 < L2.A11 ∧ 0 < L2.A22 ∧ 0 < L2.D11 ∧ 0 < L2.D22 ∧ 0 < L2.t) (hm : 0 < m) (c : CType) :
    0 < (ktKr c L1 L2 m).1 ∧ ∀ kr ∈ (ktKr c L1 L2 m).2, 0 < kr := by
  obtain ⟨a1, b1, c1, d1, t1⟩ := h1
  obtain ⟨a2, b2, c2, d2, t2⟩ := h2
  cases c <;> simp only [ktKr, Option.mem_def, Option.some.injEq, forall_eq', reduceCtorEq, false_implies, implies_true, and_true]
  · exact ⟨series_pos _ _ _ _ a1 a2 t1 t2, series_pos _ _ _ _ c1 c2 t1 t2⟩
  · exact ⟨series_pos _ _ _ _ b1 b2 t1 t2, series_pos _ _ _ _ d1 d2 t1 t2⟩
  · exact div_pos (series_pos _ _ _ _ a1 a2 t1 t2) hm
  · exact ⟨series_pos _ _ _ _ a1 b2 t1 t2, series_pos _ _ _ _ c1 d2 t1 t2⟩
  · exact ⟨series_pos _ _ _ _ b1 a2 t1 t2, series_pos _ _ _ _ d1 c2 t1 t2⟩

/-- non-vacuity: two different concrete laminates -/
example : ktKr .xcte (⟨3, 2, 5, 4, 1⟩ : Lam ℚ) ⟨7, 1, 2, 9, 2⟩ 1 = ktKr .xcte ⟨7, 1, 2, 9, 2⟩ ⟨3, 2, 5, 4, 1⟩ 1 ∧
    ktKr .xcte (⟨3, 2, 5, 4, 1⟩ : Lam ℚ) ⟨7, 1, 2, 9, 2⟩ 1 = (14 / 5, some (40 / 21)) := by
  refine ⟨kt_kr_symmetric_xcte _ _ _ _, ?_⟩
  norm_num [ktKr, series]

end C12
end Compmech.Panel
