/-
C12 — penalty connection matrices are the Hessian of the interface mismatch energy
  kt/2 ∫ |⟦interface displacement⟧|² + kr/2 ∫ ⟦interface rotation⟧²
evaluated with the two panels' own series on the stated interface line / surface.
Kernel models regenerated from compmech/panel/connections/kC*.pyx on every run.
-/
import CompmechVerif.Gen.Conn.SSxcte
import CompmechVerif.Gen.Conn.SSycte
import CompmechVerif.Gen.Conn.BFxcte
import CompmechVerif.Gen.Conn.BFycte
import CompmechVerif.Gen.Conn.SB
import CompmechVerif.Spec.Interface
import CompmechVerif.Core.OpSpecTactics
import Mathlib.Tactic.FinCases
import Mathlib.Data.Fintype.Basic

set_option linter.unnecessarySeqFocus false
set_option linter.unusedSectionVars false
set_option linter.unusedSimpArgs false

namespace Compmech.Panel

/-- `conn_eq_hess [unfold lemmas]` -/
syntax "conn_eq_hess " "[" Lean.Parser.Tactic.simpLemma,* "]" : tactic
macro_rules
  | `(tactic| conn_eq_hess [$ls,*]) => `(tactic|
      (simp only [Fin.reduceFinMk, Fin.isValue, Fin.zero_eta, Fin.mk_one, panel_entry, $ls,*, lineHess, surfHess,
         penaltyW, sbW, Pan.sgn, CCtx.a, CCtx.b, fld3, List.finRange, List.map, List.sum_cons, List.sum_nil]
       simp only [List.ofFn, Fin.foldr, Fin.foldr.loop, List.map, List.sum_cons, List.sum_nil,
         mul_zero, zero_mul, add_zero, zero_add]
       try simp
       try field_simp
       try ring))

namespace C12
open Compmech.Gen.Conn

variable {K : Type} [Field K] [CharZero K]

/-! skin–skin, interface along `y = const` (integration along x over the length `a₁`) -/
theorem ssy_11 (C : CCtx K) (hk : C.kt ≠ 0) (h1 : C.b1 ≠ 0) (h2 : C.b2 ≠ 0) (ro co : Fin 3) :
    SSycte.b11.entry ro co C = lineHess C .x .y C.a1 (ssyOps C) (penaltyW C) .p1 .p1 (fld3 ro) (fld3 co) := by
  fin_cases ro <;> fin_cases co <;> conn_eq_hess [ssyOps]
theorem ssy_12 (C : CCtx K) (hk : C.kt ≠ 0) (h1 : C.b1 ≠ 0) (h2 : C.b2 ≠ 0) (ro co : Fin 3) :
    SSycte.b12.entry ro co C = lineHess C .x .y C.a1 (ssyOps C) (penaltyW C) .p1 .p2 (fld3 ro) (fld3 co) := by
  fin_cases ro <;> fin_cases co <;> conn_eq_hess [ssyOps]
theorem ssy_22 (C : CCtx K) (hk : C.kt ≠ 0) (h1 : C.b1 ≠ 0) (h2 : C.b2 ≠ 0) (ro co : Fin 3) :
    SSycte.b22.entry ro co C = lineHess C .x .y C.a1 (ssyOps C) (penaltyW C) .p2 .p2 (fld3 ro) (fld3 co) := by
  fin_cases ro <;> fin_cases co <;> conn_eq_hess [ssyOps]

/-! skin–skin, interface along `x = const` (integration along y over the width `b₁`) -/
theorem ssx_11 (C : CCtx K) (hk : C.kt ≠ 0) (h1 : C.a1 ≠ 0) (h2 : C.a2 ≠ 0) (ro co : Fin 3) :
    SSxcte.b11.entry ro co C = lineHess C .y .x C.b1 (ssxOps C) (penaltyW C) .p1 .p1 (fld3 ro) (fld3 co) := by
  fin_cases ro <;> fin_cases co <;> conn_eq_hess [ssxOps]
theorem ssx_12 (C : CCtx K) (hk : C.kt ≠ 0) (h1 : C.a1 ≠ 0) (h2 : C.a2 ≠ 0) (ro co : Fin 3) :
    SSxcte.b12.entry ro co C = lineHess C .y .x C.b1 (ssxOps C) (penaltyW C) .p1 .p2 (fld3 ro) (fld3 co) := by
  fin_cases ro <;> fin_cases co <;> conn_eq_hess [ssxOps]
theorem ssx_22 (C : CCtx K) (hk : C.kt ≠ 0) (h1 : C.a1 ≠ 0) (h2 : C.a2 ≠ 0) (ro co : Fin 3) :
    SSxcte.b22.entry ro co C = lineHess C .y .x C.b1 (ssxOps C) (penaltyW C) .p2 .p2 (fld3 ro) (fld3 co) := by
  fin_cases ro <;> fin_cases co <;> conn_eq_hess [ssxOps]

/-! base – perpendicular flange along `y = const` -/
theorem bfy_11 (C : CCtx K) (hk : C.kt ≠ 0) (h1 : C.b1 ≠ 0) (h2 : C.b2 ≠ 0) (ro co : Fin 3) :
    BFycte.b11.entry ro co C = lineHess C .x .y C.a1 (bfyOps C) (penaltyW C) .p1 .p1 (fld3 ro) (fld3 co) := by
  fin_cases ro <;> fin_cases co <;> conn_eq_hess [bfyOps, ssyOps]
theorem bfy_12 (C : CCtx K) (hk : C.kt ≠ 0) (h1 : C.b1 ≠ 0) (h2 : C.b2 ≠ 0) (ro co : Fin 3) :
    BFycte.b12.entry ro co C = lineHess C .x .y C.a1 (bfyOps C) (penaltyW C) .p1 .p2 (fld3 ro) (fld3 co) := by
  fin_cases ro <;> fin_cases co <;> conn_eq_hess [bfyOps, ssyOps]
theorem bfy_22 (C : CCtx K) (hk : C.kt ≠ 0) (h1 : C.b1 ≠ 0) (h2 : C.b2 ≠ 0) (ro co : Fin 3) :
    BFycte.b22.entry ro co C = lineHess C .x .y C.a1 (bfyOps C) (penaltyW C) .p2 .p2 (fld3 ro) (fld3 co) := by
  fin_cases ro <;> fin_cases co <;> conn_eq_hess [bfyOps, ssyOps]

/-! base – perpendicular flange along `x = const` -/
theorem bfx_11 (C : CCtx K) (hk : C.kt ≠ 0) (h1 : C.a1 ≠ 0) (h2 : C.a2 ≠ 0) (ro co : Fin 3) :
    BFxcte.b11.entry ro co C = lineHess C .y .x C.b1 (bfxOps C) (penaltyW C) .p1 .p1 (fld3 ro) (fld3 co) := by
  fin_cases ro <;> fin_cases co <;> conn_eq_hess [bfxOps, ssxOps]
theorem bfx_12 (C : CCtx K) (hk : C.kt ≠ 0) (h1 : C.a1 ≠ 0) (h2 : C.a2 ≠ 0) (ro co : Fin 3) :
    BFxcte.b12.entry ro co C = lineHess C .y .x C.b1 (bfxOps C) (penaltyW C) .p1 .p2 (fld3 ro) (fld3 co) := by
  fin_cases ro <;> fin_cases co <;> conn_eq_hess [bfxOps, ssxOps]
theorem bfx_22 (C : CCtx K) (hk : C.kt ≠ 0) (h1 : C.a1 ≠ 0) (h2 : C.a2 ≠ 0) (ro co : Fin 3) :
    BFxcte.b22.entry ro co C = lineHess C .y .x C.b1 (bfxOps C) (penaltyW C) .p2 .p2 (fld3 ro) (fld3 co) := by
  fin_cases ro <;> fin_cases co <;> conn_eq_hess [bfxOps, ssxOps]

/-! face to face with thickness offset -/
theorem sb_11 (C : CCtx K) (h1 : C.a1 ≠ 0) (h2 : C.b1 ≠ 0) (ro co : Fin 3) :
    SB.b11.entry ro co C = surfHess C (sbOps C) (sbW C) .p1 .p1 (fld3 ro) (fld3 co) := by
  fin_cases ro <;> fin_cases co <;> conn_eq_hess [sbOps]
theorem sb_12 (C : CCtx K) (h1 : C.a1 ≠ 0) (h2 : C.b1 ≠ 0) (ro co : Fin 3) :
    SB.b12.entry ro co C = surfHess C (sbOps C) (sbW C) .p1 .p2 (fld3 ro) (fld3 co) := by
  fin_cases ro <;> fin_cases co <;> conn_eq_hess [sbOps]
theorem sb_22 (C : CCtx K) (h1 : C.a1 ≠ 0) (h2 : C.b1 ≠ 0) (ro co : Fin 3) :
    SB.b22.entry ro co C = surfHess C (sbOps C) (sbW C) .p2 .p2 (fld3 ro) (fld3 co) := by
  fin_cases ro <;> fin_cases co <;> conn_eq_hess [sbOps]

end C12
end Compmech.Panel
