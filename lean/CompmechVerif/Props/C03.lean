/-
C03 — Geometric stiffness is the Hessian of the pre-stress work
  ½ ∬ (Nxx w,x² + 2 Nxy w,x w,y + Nyy w,y²) dx dy   (constant resultants).
Models regenerated from compmech/panel/models/*.pyx on every run.  The state-based (`fkG_num`)
clauses are in the last part (numerical kernels `fkG_num`, regenerated from *_num.pyx).
-/
import CompmechVerif.Gen.Panel.Plate
import CompmechVerif.Gen.Panel.PlateW
import CompmechVerif.Gen.Panel.CPanel
import CompmechVerif.Gen.Panel.KPanel
import CompmechVerif.Spec.Kinematics
import CompmechVerif.Core.OpSpecTactics
import CompmechVerif.Core.OpSpecLemmas
import CompmechVerif.Spec.WholeMatrix
import CompmechVerif.Core.NumSpec
import CompmechVerif.Gen.PanelNum.Plate
import CompmechVerif.Gen.PanelNum.CPanel
import CompmechVerif.Spec.GaussBardell
import CompmechVerif.Model.PanelGlueLemmas
import CompmechVerif.Spec.PanelGlueKernels
import CompmechVerif.Spec.PanelGlueKernelsCone
import Mathlib.Tactic.Ring
import Mathlib.Tactic.FieldSimp
import Mathlib.Tactic.FinCases
import Mathlib.Data.Fintype.Basic

set_option linter.unnecessarySeqFocus false

namespace Compmech.Panel.C03
open Compmech.Panel Compmech.Gen

variable {K : Type} [Field K] [CharZero K]

/-- the pre-stress weight is symmetric and linear in `(Nxx, Nyy, Nxy)` by construction -/
theorem prestressW_symm (P : PCtx K) (p q : Fin 2) : prestressW P p q = prestressW P q p := by
  fin_cases p <;> fin_cases q <;> rfl

theorem kG0_entry_plate (P : PCtx K) (ha : P.a ≠ 0) (hb : P.b ≠ 0) (ro co : Fin 3) :
    Plate.fkG0.entry ro co P = hessian P .full .full (gradOps P) (prestressW P) (fld3 ro) (fld3 co) := by
  fin_cases ro <;> fin_cases co <;> entry_eq_form [gradOps, prestressW]

theorem kG0y1y2_entry_plate (P : PCtx K) (ha : P.a ≠ 0) (hb : P.b ≠ 0) (ro co : Fin 3) :
    Plate.fkG0y1y2.entry ro co P = hessian P .full .sub (gradOps P) (prestressW P) (fld3 ro) (fld3 co) := by
  fin_cases ro <;> fin_cases co <;> entry_eq_form [gradOps, prestressW]

theorem kG0_entry_plate_w (P : PCtx K) (ha : P.a ≠ 0) (hb : P.b ≠ 0) (ro co : Fin 1) :
    PlateW.fkG0.entry ro co P = hessian P .full .full (gradOps P) (prestressW P) (fld1 ro) (fld1 co) := by
  fin_cases ro <;> fin_cases co <;> entry_eq_form [gradOps, prestressW, fld1]

theorem kG0y1y2_entry_plate_w (P : PCtx K) (ha : P.a ≠ 0) (hb : P.b ≠ 0) (ro co : Fin 1) :
    PlateW.fkG0y1y2.entry ro co P = hessian P .full .sub (gradOps P) (prestressW P) (fld1 ro) (fld1 co) := by
  fin_cases ro <;> fin_cases co <;> entry_eq_form [gradOps, prestressW, fld1]

theorem kG0_entry_cpanel (P : PCtx K) (ha : P.a ≠ 0) (hb : P.b ≠ 0) (ro co : Fin 3) :
    CPanel.fkG0.entry ro co P = hessian P .full .full (gradOps P) (prestressW P) (fld3 ro) (fld3 co) := by
  fin_cases ro <;> fin_cases co <;> entry_eq_form [gradOps, prestressW]

theorem kG0y1y2_entry_cpanel (P : PCtx K) (ha : P.a ≠ 0) (hb : P.b ≠ 0) (ro co : Fin 3) :
    CPanel.fkG0y1y2.entry ro co P = hessian P .full .sub (gradOps P) (prestressW P) (fld3 ro) (fld3 co) := by
  fin_cases ro <;> fin_cases co <;> entry_eq_form [gradOps, prestressW]

/-- conical panel, one constant-radius section -/
theorem kG0_entry_kpanel (P : PCtx K) (ha : P.a ≠ 0) (hb : P.b ≠ 0) (ro co : Fin 3) :
    KPanel.fkG0.entry ro co P = hessian P .sub .full (gradOps P) (prestressW P) (fld3 ro) (fld3 co) := by
  fin_cases ro <;> fin_cases co <;> entry_eq_form [gradOps, prestressW]

theorem kG0y1y2_entry_kpanel (P : PCtx K) (ha : P.a ≠ 0) (hb : P.b ≠ 0) (ro co : Fin 3) :
    KPanel.fkG0y1y2.entry ro co P = hessian P .sub .sub (gradOps P) (prestressW P) (fld3 ro) (fld3 co) := by
  fin_cases ro <;> fin_cases co <;> entry_eq_form [gradOps, prestressW]


/-! ### symmetric, out-of-plane only, linear in the three stress resultants (whole matrix) -/

theorem kG0_symm_plate (P : PCtx K) (ha : P.a ≠ 0) (hb : P.b ≠ 0) (ro co : Fin 3) :
    Plate.fkG0.entry ro co P = Plate.fkG0.entry co ro P.swap := by
  rw [kG0_entry_plate P ha hb, kG0_entry_plate P.swap ha hb]
  exact (hessian_swap P _ _ (gradOps P) (prestressW P) (prestressW_symm P) _ _).symm

omit [CharZero K] in
theorem kG0_linear_in_resultants_plate (P : PCtx K) (s n₁ n₂ n₃ m₁ m₂ m₃ : K) (ro co : Fin 3) :
    Plate.fkG0.entry ro co { P with Nxx := s * n₁ + m₁, Nyy := s * n₂ + m₂, Nxy := s * n₃ + m₃ } =
      s * Plate.fkG0.entry ro co { P with Nxx := n₁, Nyy := n₂, Nxy := n₃ }
        + Plate.fkG0.entry ro co { P with Nxx := m₁, Nyy := m₂, Nxy := m₃ } := by
  fin_cases ro <;> fin_cases co <;>
    simp only [Fin.reduceFinMk, Fin.isValue, Fin.zero_eta, Fin.mk_one, panel_entry] <;> ring

omit [CharZero K] in
theorem kG0_touches_only_w_plate (P : PCtx K) (ro co : Fin 3) (h : ¬(ro = 2 ∧ co = 2)) :
    Plate.fkG0.entry ro co P = 0 := by
  fin_cases ro <;> fin_cases co <;> first | rfl | exact absurd ⟨rfl, rfl⟩ h

theorem kG0y1y2_symm_plate (P : PCtx K) (ha : P.a ≠ 0) (hb : P.b ≠ 0) (ro co : Fin 3) :
    Plate.fkG0y1y2.entry ro co P = Plate.fkG0y1y2.entry co ro P.swap := by
  rw [kG0y1y2_entry_plate P ha hb, kG0y1y2_entry_plate P.swap ha hb]
  exact (hessian_swap P _ _ (gradOps P) (prestressW P) (prestressW_symm P) _ _).symm

omit [CharZero K] in
theorem kG0y1y2_linear_in_resultants_plate (P : PCtx K) (s n₁ n₂ n₃ m₁ m₂ m₃ : K) (ro co : Fin 3) :
    Plate.fkG0y1y2.entry ro co { P with Nxx := s * n₁ + m₁, Nyy := s * n₂ + m₂, Nxy := s * n₃ + m₃ } =
      s * Plate.fkG0y1y2.entry ro co { P with Nxx := n₁, Nyy := n₂, Nxy := n₃ }
        + Plate.fkG0y1y2.entry ro co { P with Nxx := m₁, Nyy := m₂, Nxy := m₃ } := by
  fin_cases ro <;> fin_cases co <;>
    simp only [Fin.reduceFinMk, Fin.isValue, Fin.zero_eta, Fin.mk_one, panel_entry] <;> ring

omit [CharZero K] in
theorem kG0y1y2_touches_only_w_plate (P : PCtx K) (ro co : Fin 3) (h : ¬(ro = 2 ∧ co = 2)) :
    Plate.fkG0y1y2.entry ro co P = 0 := by
  fin_cases ro <;> fin_cases co <;> first | rfl | exact absurd ⟨rfl, rfl⟩ h

theorem kG0_symm_plate_w (P : PCtx K) (ha : P.a ≠ 0) (hb : P.b ≠ 0) (ro co : Fin 1) :
    PlateW.fkG0.entry ro co P = PlateW.fkG0.entry co ro P.swap := by
  rw [kG0_entry_plate_w P ha hb, kG0_entry_plate_w P.swap ha hb]
  exact (hessian_swap P _ _ (gradOps P) (prestressW P) (prestressW_symm P) _ _).symm

omit [CharZero K] in
theorem kG0_linear_in_resultants_plate_w (P : PCtx K) (s n₁ n₂ n₃ m₁ m₂ m₃ : K) (ro co : Fin 1) :
    PlateW.fkG0.entry ro co { P with Nxx := s * n₁ + m₁, Nyy := s * n₂ + m₂, Nxy := s * n₃ + m₃ } =
      s * PlateW.fkG0.entry ro co { P with Nxx := n₁, Nyy := n₂, Nxy := n₃ }
        + PlateW.fkG0.entry ro co { P with Nxx := m₁, Nyy := m₂, Nxy := m₃ } := by
  fin_cases ro <;> fin_cases co <;>
    simp only [Fin.reduceFinMk, Fin.isValue, Fin.zero_eta, Fin.mk_one, panel_entry] <;> ring

theorem kG0y1y2_symm_plate_w (P : PCtx K) (ha : P.a ≠ 0) (hb : P.b ≠ 0) (ro co : Fin 1) :
    PlateW.fkG0y1y2.entry ro co P = PlateW.fkG0y1y2.entry co ro P.swap := by
  rw [kG0y1y2_entry_plate_w P ha hb, kG0y1y2_entry_plate_w P.swap ha hb]
  exact (hessian_swap P _ _ (gradOps P) (prestressW P) (prestressW_symm P) _ _).symm

omit [CharZero K] in
theorem kG0y1y2_linear_in_resultants_plate_w (P : PCtx K) (s n₁ n₂ n₃ m₁ m₂ m₃ : K) (ro co : Fin 1) :
    PlateW.fkG0y1y2.entry ro co { P with Nxx := s * n₁ + m₁, Nyy := s * n₂ + m₂, Nxy := s * n₃ + m₃ } =
      s * PlateW.fkG0y1y2.entry ro co { P with Nxx := n₁, Nyy := n₂, Nxy := n₃ }
        + PlateW.fkG0y1y2.entry ro co { P with Nxx := m₁, Nyy := m₂, Nxy := m₃ } := by
  fin_cases ro <;> fin_cases co <;>
    simp only [Fin.reduceFinMk, Fin.isValue, Fin.zero_eta, Fin.mk_one, panel_entry] <;> ring

theorem kG0_symm_cpanel (P : PCtx K) (ha : P.a ≠ 0) (hb : P.b ≠ 0) (ro co : Fin 3) :
    CPanel.fkG0.entry ro co P = CPanel.fkG0.entry co ro P.swap := by
  rw [kG0_entry_cpanel P ha hb, kG0_entry_cpanel P.swap ha hb]
  exact (hessian_swap P _ _ (gradOps P) (prestressW P) (prestressW_symm P) _ _).symm

omit [CharZero K] in
theorem kG0_linear_in_resultants_cpanel (P : PCtx K) (s n₁ n₂ n₃ m₁ m₂ m₃ : K) (ro co : Fin 3) :
    CPanel.fkG0.entry ro co { P with Nxx := s * n₁ + m₁, Nyy := s * n₂ + m₂, Nxy := s * n₃ + m₃ } =
      s * CPanel.fkG0.entry ro co { P with Nxx := n₁, Nyy := n₂, Nxy := n₃ }
        + CPanel.fkG0.entry ro co { P with Nxx := m₁, Nyy := m₂, Nxy := m₃ } := by
  fin_cases ro <;> fin_cases co <;>
    simp only [Fin.reduceFinMk, Fin.isValue, Fin.zero_eta, Fin.mk_one, panel_entry] <;> ring

omit [CharZero K] in
theorem kG0_touches_only_w_cpanel (P : PCtx K) (ro co : Fin 3) (h : ¬(ro = 2 ∧ co = 2)) :
    CPanel.fkG0.entry ro co P = 0 := by
  fin_cases ro <;> fin_cases co <;> first | rfl | exact absurd ⟨rfl, rfl⟩ h

theorem kG0y1y2_symm_cpanel (P : PCtx K) (ha : P.a ≠ 0) (hb : P.b ≠ 0) (ro co : Fin 3) :
    CPanel.fkG0y1y2.entry ro co P = CPanel.fkG0y1y2.entry co ro P.swap := by
  rw [kG0y1y2_entry_cpanel P ha hb, kG0y1y2_entry_cpanel P.swap ha hb]
  exact (hessian_swap P _ _ (gradOps P) (prestressW P) (prestressW_symm P) _ _).symm

omit [CharZero K] in
theorem kG0y1y2_linear_in_resultants_cpanel (P : PCtx K) (s n₁ n₂ n₃ m₁ m₂ m₃ : K) (ro co : Fin 3) :
    CPanel.fkG0y1y2.entry ro co { P with Nxx := s * n₁ + m₁, Nyy := s * n₂ + m₂, Nxy := s * n₃ + m₃ } =
      s * CPanel.fkG0y1y2.entry ro co { P with Nxx := n₁, Nyy := n₂, Nxy := n₃ }
        + CPanel.fkG0y1y2.entry ro co { P with Nxx := m₁, Nyy := m₂, Nxy := m₃ } := by
  fin_cases ro <;> fin_cases co <;>
    simp only [Fin.reduceFinMk, Fin.isValue, Fin.zero_eta, Fin.mk_one, panel_entry] <;> ring

omit [CharZero K] in
theorem kG0y1y2_touches_only_w_cpanel (P : PCtx K) (ro co : Fin 3) (h : ¬(ro = 2 ∧ co = 2)) :
    CPanel.fkG0y1y2.entry ro co P = 0 := by
  fin_cases ro <;> fin_cases co <;> first | rfl | exact absurd ⟨rfl, rfl⟩ h

theorem kG0_symm_kpanel (P : PCtx K) (ha : P.a ≠ 0) (hb : P.b ≠ 0) (ro co : Fin 3) :
    KPanel.fkG0.entry ro co P = KPanel.fkG0.entry co ro P.swap := by
  rw [kG0_entry_kpanel P ha hb, kG0_entry_kpanel P.swap ha hb]
  exact (hessian_swap P _ _ (gradOps P) (prestressW P) (prestressW_symm P) _ _).symm

omit [CharZero K] in
theorem kG0_linear_in_resultants_kpanel (P : PCtx K) (s n₁ n₂ n₃ m₁ m₂ m₃ : K) (ro co : Fin 3) :
    KPanel.fkG0.entry ro co { P with Nxx := s * n₁ + m₁, Nyy := s * n₂ + m₂, Nxy := s * n₃ + m₃ } =
      s * KPanel.fkG0.entry ro co { P with Nxx := n₁, Nyy := n₂, Nxy := n₃ }
        + KPanel.fkG0.entry ro co { P with Nxx := m₁, Nyy := m₂, Nxy := m₃ } := by
  fin_cases ro <;> fin_cases co <;>
    simp only [Fin.reduceFinMk, Fin.isValue, Fin.zero_eta, Fin.mk_one, panel_entry] <;> ring

omit [CharZero K] in
theorem kG0_touches_only_w_kpanel (P : PCtx K) (ro co : Fin 3) (h : ¬(ro = 2 ∧ co = 2)) :
    KPanel.fkG0.entry ro co P = 0 := by
  fin_cases ro <;> fin_cases co <;> first | rfl | exact absurd ⟨rfl, rfl⟩ h

theorem kG0y1y2_symm_kpanel (P : PCtx K) (ha : P.a ≠ 0) (hb : P.b ≠ 0) (ro co : Fin 3) :
    KPanel.fkG0y1y2.entry ro co P = KPanel.fkG0y1y2.entry co ro P.swap := by
  rw [kG0y1y2_entry_kpanel P ha hb, kG0y1y2_entry_kpanel P.swap ha hb]
  exact (hessian_swap P _ _ (gradOps P) (prestressW P) (prestressW_symm P) _ _).symm

omit [CharZero K] in
theorem kG0y1y2_linear_in_resultants_kpanel (P : PCtx K) (s n₁ n₂ n₃ m₁ m₂ m₃ : K) (ro co : Fin 3) :
    KPanel.fkG0y1y2.entry ro co { P with Nxx := s * n₁ + m₁, Nyy := s * n₂ + m₂, Nxy := s * n₃ + m₃ } =
      s * KPanel.fkG0y1y2.entry ro co { P with Nxx := n₁, Nyy := n₂, Nxy := n₃ }
        + KPanel.fkG0y1y2.entry ro co { P with Nxx := m₁, Nyy := m₂, Nxy := m₃ } := by
  fin_cases ro <;> fin_cases co <;>
    simp only [Fin.reduceFinMk, Fin.isValue, Fin.zero_eta, Fin.mk_one, panel_entry] <;> ring

omit [CharZero K] in
theorem kG0y1y2_touches_only_w_kpanel (P : PCtx K) (ro co : Fin 3) (h : ¬(ro = 2 ∧ co = 2)) :
    KPanel.fkG0y1y2.entry ro co P = 0 := by
  fin_cases ro <;> fin_cases co <;> first | rfl | exact absurd ⟨rfl, rfl⟩ h

/-! ### the state-based variant `fkG_num` (one integration point)

`X` is the context of one Gauss point: basis values `X.E`, the amplitudes `X.c` of the degree of freedom being summed
into the state, the accumulated strains `X.exx … X.kxy`, slopes `X.wxi, X.weta`, resultants `X.Nxx, X.Nyy, X.Nxy`. -/

/-- every degree of freedom contributes to the strain state of the point its amplitude times the Donnell
strain-displacement operator (the SAME operator table that defines the energy in C02) applied to its basis function -/
theorem kG_num_strains_are_donnell_plate (X : NCtx K) (ha : X.a ≠ 0) (hb : X.b ≠ 0) (p : Fin 6) :
    (match p with
      | 0 => PanelNum.Plate.fkG_num.inc_exx X | 1 => PanelNum.Plate.fkG_num.inc_eyy X
      | 2 => PanelNum.Plate.fkG_num.inc_gxy X | 3 => PanelNum.Plate.fkG_num.inc_kxx X
      | 4 => PanelNum.Plate.fkG_num.inc_kyy X | 5 => PanelNum.Plate.fkG_num.inc_kxy X) =
      X.c .u * dofB X (plateOps X.toP) .A .u p + X.c .v * dofB X (plateOps X.toP) .A .v p
        + X.c .w * dofB X (plateOps X.toP) .A .w p := by
  fin_cases p <;>
    simp only [Fin.reduceFinMk, Fin.isValue, Fin.zero_eta, Fin.mk_one, panel_entry, NCtx.toP, dofB, plateOps, List.map,
      List.sum_cons, List.sum_nil] <;> field_simp <;> ring

/-- with `NLgeom` the membrane strains gain Donnell's `½ w,x²`, `½ w,y²`, `w,x w,y` of the whole series -/
theorem kG_num_quadratic_terms_plate (X : NCtx K) (ha : X.a ≠ 0) (hb : X.b ≠ 0) :
    PanelNum.Plate.fkG_num.add_exx X = 1 / 2 * (2 / X.a * X.wxi) ^ 2 ∧
    PanelNum.Plate.fkG_num.add_eyy X = 1 / 2 * (2 / X.b * X.weta) ^ 2 ∧
    PanelNum.Plate.fkG_num.add_gxy X = (2 / X.a * X.wxi) * (2 / X.b * X.weta) := by
  refine ⟨?_, ?_, ?_⟩ <;> simp only [panel_entry] <;> field_simp <;> ring

omit [CharZero K] in
/-- the resultants used at the point are `N = A ε + B κ` of that state -/
theorem kG_num_resultants_plate (X : NCtx K) (hF : IsABD X.F) :
    PanelNum.Plate.fkG_num.def_Nxx X = ((List.finRange 6).map fun q => X.F 0 q * X.eps q).sum ∧
    PanelNum.Plate.fkG_num.def_Nyy X = ((List.finRange 6).map fun q => X.F 1 q * X.eps q).sum ∧
    PanelNum.Plate.fkG_num.def_Nxy X = ((List.finRange 6).map fun q => X.F 2 q * X.eps q).sum := by
  have h10 := hF.symm 1 0
  have h20 := hF.symm 2 0
  have h21 := hF.symm 2 1
  refine ⟨?_, ?_, ?_⟩ <;>
    simp only [panel_entry, NCtx.eps, List.finRange, List.ofFn, Fin.foldr, Fin.foldr.loop, List.map, List.sum_cons,
      List.sum_nil] <;> simp [h10, h20, h21, hF.b12, hF.b16, hF.b26] <;> ring

/-- the integrand added at a point is the weight times the CONSTANT-LOAD kernel's entry read on the point values with the
resultants of that point: a state whose membrane resultants are the same `N₀` at every integration point therefore
gives the quadrature of `fkG0(N₀)` (exact for the Gauss orders of C10), and a per-point laminate table equal to the uniform
laminate enters only through `X.F` in `kG_num_resultants`, i.e. changes nothing -/
theorem kG_num_eq_kG0_on_point_plate (X : NCtx K) (ha : X.a ≠ 0) (hb : X.b ≠ 0) (ro co : Fin 3) :
    PanelNum.Plate.fkG_num.entry ro co X = X.weight * Gen.Plate.fkG0.entry ro co X.toP := by
  fin_cases ro <;> fin_cases co <;>
    simp only [Fin.reduceFinMk, Fin.isValue, Fin.zero_eta, Fin.mk_one, panel_entry, NCtx.toP] <;>
    first | ring | (field_simp; ring) | simp

/-- every degree of freedom contributes to the strain state of the point its amplitude times the Donnell
strain-displacement operator (the SAME operator table that defines the energy in C02) applied to its basis function -/
theorem kG_num_strains_are_donnell_cpanel (X : NCtx K) (ha : X.a ≠ 0) (hb : X.b ≠ 0) (hr : X.r ≠ 0) (p : Fin 6) :
    (match p with
      | 0 => PanelNum.CPanel.fkG_num.inc_exx X | 1 => PanelNum.CPanel.fkG_num.inc_eyy X
      | 2 => PanelNum.CPanel.fkG_num.inc_gxy X | 3 => PanelNum.CPanel.fkG_num.inc_kxx X
      | 4 => PanelNum.CPanel.fkG_num.inc_kyy X | 5 => PanelNum.CPanel.fkG_num.inc_kxy X) =
      X.c .u * dofB X (cpanelOps X.toP) .A .u p + X.c .v * dofB X (cpanelOps X.toP) .A .v p
        + X.c .w * dofB X (cpanelOps X.toP) .A .w p := by
  fin_cases p <;>
    simp only [Fin.reduceFinMk, Fin.isValue, Fin.zero_eta, Fin.mk_one, panel_entry, NCtx.toP, dofB, cpanelOps, plateOps, List.map,
      List.sum_cons, List.sum_nil] <;> field_simp <;> ring

/-- with `NLgeom` the membrane strains gain Donnell's `½ w,x²`, `½ w,y²`, `w,x w,y` of the whole series -/
theorem kG_num_quadratic_terms_cpanel (X : NCtx K) (ha : X.a ≠ 0) (hb : X.b ≠ 0) :
    PanelNum.CPanel.fkG_num.add_exx X = 1 / 2 * (2 / X.a * X.wxi) ^ 2 ∧
    PanelNum.CPanel.fkG_num.add_eyy X = 1 / 2 * (2 / X.b * X.weta) ^ 2 ∧
    PanelNum.CPanel.fkG_num.add_gxy X = (2 / X.a * X.wxi) * (2 / X.b * X.weta) := by
  refine ⟨?_, ?_, ?_⟩ <;> simp only [panel_entry] <;> field_simp <;> ring

omit [CharZero K] in
/-- the resultants used at the point are `N = A ε + B κ` of that state -/
theorem kG_num_resultants_cpanel (X : NCtx K) (hF : IsABD X.F) :
    PanelNum.CPanel.fkG_num.def_Nxx X = ((List.finRange 6).map fun q => X.F 0 q * X.eps q).sum ∧
    PanelNum.CPanel.fkG_num.def_Nyy X = ((List.finRange 6).map fun q => X.F 1 q * X.eps q).sum ∧
    PanelNum.CPanel.fkG_num.def_Nxy X = ((List.finRange 6).map fun q => X.F 2 q * X.eps q).sum := by
  have h10 := hF.symm 1 0
  have h20 := hF.symm 2 0
  have h21 := hF.symm 2 1
  refine ⟨?_, ?_, ?_⟩ <;>
    simp only [panel_entry, NCtx.eps, List.finRange, List.ofFn, Fin.foldr, Fin.foldr.loop, List.map, List.sum_cons,
      List.sum_nil] <;> simp [h10, h20, h21, hF.b12, hF.b16, hF.b26] <;> ring

/-- the integrand added at a point is the weight times the CONSTANT-LOAD kernel's entry read on the point values with the
resultants of that point: a state whose membrane resultants are the same `N₀` at every integration point therefore
gives the quadrature of `fkG0(N₀)` (exact for the Gauss orders of C10), and a per-point laminate table equal to the uniform
laminate enters only through `X.F` in `kG_num_resultants`, i.e. changes nothing -/
theorem kG_num_eq_kG0_on_point_cpanel (X : NCtx K) (ha : X.a ≠ 0) (hb : X.b ≠ 0) (ro co : Fin 3) :
    PanelNum.CPanel.fkG_num.entry ro co X = X.weight * Gen.CPanel.fkG0.entry ro co X.toP := by
  fin_cases ro <;> fin_cases co <;>
    simp only [Fin.reduceFinMk, Fin.isValue, Fin.zero_eta, Fin.mk_one, panel_entry, NCtx.toP] <;>
    first | ring | (field_simp; ring) | simp


/-! ### the whole matrix (loop nest of Model/PanelLoop.lean + `finalize_symmetric_matrix`): the pre-stress Hessian at every pair of positions -/

/-- the regenerated kernels have exactly the modelled loop nest, dof map, skip condition and section geometry -/
theorem loop_nest_standard :
    Plate.fkG0.schema = LoopSchema.std 3 none ∧
    Plate.fkG0y1y2.schema = LoopSchema.stdYX 3 ∧
    PlateW.fkG0.schema = LoopSchema.std 1 none ∧
    PlateW.fkG0y1y2.schema = LoopSchema.stdYX 1 ∧
    CPanel.fkG0.schema = LoopSchema.std 3 none ∧
    CPanel.fkG0y1y2.schema = LoopSchema.stdYX 3 ∧
    KPanel.fkG0.schema = LoopSchema.std 3 (some 41) ∧
    KPanel.fkG0y1y2.schema = LoopSchema.std 3 (some 41) := by
  decide

open Compmech.Asm in
theorem kG0_matrix_plate (base : PCtx K) (I : Integrals K) (hI : I.Comm) (ha : base.a ≠ 0) (hb : base.b ≠ 0)
    (m n row0 : Nat) {i k j l : Nat} (hi : i < m) (hk : k < m) (hj : j < n) (hl : l < n) (α β : Fin 3) :
    toFun (panelCoo 3 m n row0 Plate.fkG0.entry base I) (row0 + 3 * (j * m + i) + α.val)
        (row0 + 3 * (l * m + k) + β.val)
      = hessian (ctxAt base I i k j l) .full .full (gradOps base) (prestressW base) (fld3 α) (fld3 β) := by
  rw [panelCoo_entry 3 m n row0 _ base I hI
    (fun ro co i k j l => kG0_symm_plate (ctxAt base I i k j l) ha hb ro co) hi hk hj hl]
  exact kG0_entry_plate (ctxAt base I i k j l) ha hb α β

open Compmech.Asm in
theorem kG0y1y2_matrix_plate (base : PCtx K) (I : Integrals K) (hI : I.Comm) (ha : base.a ≠ 0) (hb : base.b ≠ 0)
    (m n row0 : Nat) {i k j l : Nat} (hi : i < m) (hk : k < m) (hj : j < n) (hl : l < n) (α β : Fin 3) :
    toFun (panelCooYX 3 m n row0 Plate.fkG0y1y2.entry base I) (row0 + 3 * (j * m + i) + α.val)
        (row0 + 3 * (l * m + k) + β.val)
      = hessian (ctxAt base I i k j l) .full .sub (gradOps base) (prestressW base) (fld3 α) (fld3 β) := by
  rw [panelCooYX_entry 3 m n row0 _ base I hI
    (fun ro co i k j l => kG0y1y2_symm_plate (ctxAt base I i k j l) ha hb ro co) hi hk hj hl]
  exact kG0y1y2_entry_plate (ctxAt base I i k j l) ha hb α β

open Compmech.Asm in
theorem kG0_matrix_plate_w (base : PCtx K) (I : Integrals K) (hI : I.Comm) (ha : base.a ≠ 0) (hb : base.b ≠ 0)
    (m n row0 : Nat) {i k j l : Nat} (hi : i < m) (hk : k < m) (hj : j < n) (hl : l < n) (α β : Fin 1) :
    toFun (panelCoo 1 m n row0 PlateW.fkG0.entry base I) (row0 + 1 * (j * m + i) + α.val)
        (row0 + 1 * (l * m + k) + β.val)
      = hessian (ctxAt base I i k j l) .full .full (gradOps base) (prestressW base) (fld1 α) (fld1 β) := by
  rw [panelCoo_entry 1 m n row0 _ base I hI
    (fun ro co i k j l => kG0_symm_plate_w (ctxAt base I i k j l) ha hb ro co) hi hk hj hl]
  exact kG0_entry_plate_w (ctxAt base I i k j l) ha hb α β

open Compmech.Asm in
theorem kG0y1y2_matrix_plate_w (base : PCtx K) (I : Integrals K) (hI : I.Comm) (ha : base.a ≠ 0) (hb : base.b ≠ 0)
    (m n row0 : Nat) {i k j l : Nat} (hi : i < m) (hk : k < m) (hj : j < n) (hl : l < n) (α β : Fin 1) :
    toFun (panelCooYX 1 m n row0 PlateW.fkG0y1y2.entry base I) (row0 + 1 * (j * m + i) + α.val)
        (row0 + 1 * (l * m + k) + β.val)
      = hessian (ctxAt base I i k j l) .full .sub (gradOps base) (prestressW base) (fld1 α) (fld1 β) := by
  rw [panelCooYX_entry 1 m n row0 _ base I hI
    (fun ro co i k j l => kG0y1y2_symm_plate_w (ctxAt base I i k j l) ha hb ro co) hi hk hj hl]
  exact kG0y1y2_entry_plate_w (ctxAt base I i k j l) ha hb α β

open Compmech.Asm in
theorem kG0_matrix_cpanel (base : PCtx K) (I : Integrals K) (hI : I.Comm) (ha : base.a ≠ 0) (hb : base.b ≠ 0)
    (m n row0 : Nat) {i k j l : Nat} (hi : i < m) (hk : k < m) (hj : j < n) (hl : l < n) (α β : Fin 3) :
    toFun (panelCoo 3 m n row0 CPanel.fkG0.entry base I) (row0 + 3 * (j * m + i) + α.val)
        (row0 + 3 * (l * m + k) + β.val)
      = hessian (ctxAt base I i k j l) .full .full (gradOps base) (prestressW base) (fld3 α) (fld3 β) := by
  rw [panelCoo_entry 3 m n row0 _ base I hI
    (fun ro co i k j l => kG0_symm_cpanel (ctxAt base I i k j l) ha hb ro co) hi hk hj hl]
  exact kG0_entry_cpanel (ctxAt base I i k j l) ha hb α β

open Compmech.Asm in
theorem kG0y1y2_matrix_cpanel (base : PCtx K) (I : Integrals K) (hI : I.Comm) (ha : base.a ≠ 0) (hb : base.b ≠ 0)
    (m n row0 : Nat) {i k j l : Nat} (hi : i < m) (hk : k < m) (hj : j < n) (hl : l < n) (α β : Fin 3) :
    toFun (panelCooYX 3 m n row0 CPanel.fkG0y1y2.entry base I) (row0 + 3 * (j * m + i) + α.val)
        (row0 + 3 * (l * m + k) + β.val)
      = hessian (ctxAt base I i k j l) .full .sub (gradOps base) (prestressW base) (fld3 α) (fld3 β) := by
  rw [panelCooYX_entry 3 m n row0 _ base I hI
    (fun ro co i k j l => kG0y1y2_symm_cpanel (ctxAt base I i k j l) ha hb ro co) hi hk hj hl]
  exact kG0y1y2_entry_cpanel (ctxAt base I i k j l) ha hb α β

open Compmech.Asm in
theorem kG0_matrix_kpanel (base : PCtx K) (I : Nat → Integrals K) (hI : ∀ sec, (I sec).Comm) (s : Nat)
    (ha : base.a ≠ 0) (hb : ∀ sec, (sectionBase base s sec).b ≠ 0)
    (m n row0 : Nat) {i k j l : Nat} (hi : i < m) (hk : k < m) (hj : j < n) (hl : l < n) (α β : Fin 3) :
    toFun (conePanelCoo s 3 m n row0 KPanel.fkG0.entry base I) (row0 + 3 * (j * m + i) + α.val)
        (row0 + 3 * (l * m + k) + β.val)
      = ((List.range s).map fun sec =>
          hessian (ctxAt (sectionBase base s sec) (I sec) i k j l) .sub .full (gradOps (sectionBase base s sec))
            (prestressW (sectionBase base s sec)) (fld3 α) (fld3 β)).sum := by
  rw [conePanelCoo_entry s 3 m n row0 _ base I hI
    (fun sec ro co i k j l => kG0_symm_kpanel (ctxAt (sectionBase base s sec) (I sec) i k j l) ha (hb sec) ro co)
    hi hk hj hl]
  refine congrArg List.sum (List.map_congr_left fun sec _ => ?_)
  exact kG0_entry_kpanel (ctxAt (sectionBase base s sec) (I sec) i k j l) ha (hb sec) α β

open Compmech.Asm in
theorem kG0y1y2_matrix_kpanel (base : PCtx K) (I : Nat → Integrals K) (hI : ∀ sec, (I sec).Comm) (s : Nat)
    (ha : base.a ≠ 0) (hb : ∀ sec, (sectionBase base s sec).b ≠ 0)
    (m n row0 : Nat) {i k j l : Nat} (hi : i < m) (hk : k < m) (hj : j < n) (hl : l < n) (α β : Fin 3) :
    toFun (conePanelCoo s 3 m n row0 KPanel.fkG0y1y2.entry base I) (row0 + 3 * (j * m + i) + α.val)
        (row0 + 3 * (l * m + k) + β.val)
      = ((List.range s).map fun sec =>
          hessian (ctxAt (sectionBase base s sec) (I sec) i k j l) .sub .sub (gradOps (sectionBase base s sec))
            (prestressW (sectionBase base s sec)) (fld3 α) (fld3 β)).sum := by
  rw [conePanelCoo_entry s 3 m n row0 _ base I hI
    (fun sec ro co i k j l => kG0y1y2_symm_kpanel (ctxAt (sectionBase base s sec) (I sec) i k j l) ha (hb sec) ro co)
    hi hk hj hl]
  refine congrArg List.sum (List.map_congr_left fun sec _ => ?_)
  exact kG0y1y2_entry_kpanel (ctxAt (sectionBase base s sec) (I sec) i k j l) ha (hb sec) α β

/-! ### the state-based variant `fkG_num`: the WHOLE tensor quadrature, uniform stress state

`T : TensorRule` is any tensor-product rule, `X g h` the context the loop body of `fkG_num` sees at the point `(g, h)`
(`T.Family X`: weight `wx_g·wy_h`, x-values depending on `g` only, y-values on `h` only), `T.sum` the sum over all points in
the loop order of the kernel, `T.quadCtx base` = `base` with every one-dimensional integral replaced by its quadrature
(`Spec/GaussLift.lean`); `bardellRule`, `quadIntegrals`, `exactIntegrals`, `quadScale`: `Spec/GaussBardell.lean`. -/

/-- **plate, uniform stress state, any field, any tensor rule**: if every integration point has the panel dimensions of
`base` and the SAME membrane resultants `(Nxx, Nyy, Nxy)` as `base`, the SUM over all points of the state-based `fkG_num`
integrand IS the constant-load `fkG0` entry for these resultants evaluated with the quadrature integrals
`T.quadCtx base` (`J := Σ_g wx_g·E_g·E_g`) — an exact algebraic identity. -/
theorem kG_num_uniform_state_plate {ιx ιy : Type} (T : TensorRule K ιx ιy) (X : ιx → ιy → NCtx K) (hX : T.Family X)
    (base : PCtx K) (hgeo : ∀ g h, (X g h).a = base.a ∧ (X g h).b = base.b)
    (hN : ∀ g h, (X g h).Nxx = base.Nxx ∧ (X g h).Nyy = base.Nyy ∧ (X g h).Nxy = base.Nxy)
    (ha : base.a ≠ 0) (hb : base.b ≠ 0) (ro co : Fin 3) :
    T.sum (fun g h => PanelNum.Plate.fkG_num.entry ro co (X g h)) = Plate.fkG0.entry ro co (T.quadCtx base) := by
  have h1 : ∀ g h, PanelNum.Plate.fkG_num.entry ro co (X g h)
      = (X g h).weight * Plate.fkG0.entry ro co (X g h).toP := fun g h =>
    kG_num_eq_kG0_on_point_plate (X g h) (by rw [(hgeo g h).1]; exact ha) (by rw [(hgeo g h).2]; exact hb) ro co
  rw [T.sum_congr h1, T.sum_weight_mul hX]
  refine T.wsum_of_eq_hessian hX.toP base (fun g h => (hgeo g h).1) (fun g h => (hgeo g h).2)
    .full .full (gradOps base) (prestressW base) (fld3 ro) (fld3 co) (Plate.fkG0.entry ro co) (fun g h => ?_) ?_
  · rw [kG0_entry_plate _ (by show (X g h).a ≠ 0; rw [(hgeo g h).1]; exact ha)
      (by show (X g h).b ≠ 0; rw [(hgeo g h).2]; exact hb)]
    rw [gradOps_congr (Q := base) (hgeo g h).1 (hgeo g h).2,
      prestressW_congr (Q := base) (hN g h).1 (hN g h).2.1 (hN g h).2.2]
  · exact kG0_entry_plate (T.quadCtx base) ha hb ro co

/-- **cpanel, uniform stress state, any field, any tensor rule**: if every integration point has the panel dimensions of
`base` and the SAME membrane resultants `(Nxx, Nyy, Nxy)` as `base`, the SUM over all points of the state-based `fkG_num`
integrand IS the constant-load `fkG0` entry for these resultants evaluated with the quadrature integrals
`T.quadCtx base` (`J := Σ_g wx_g·E_g·E_g`) — an exact algebraic identity. -/
theorem kG_num_uniform_state_cpanel {ιx ιy : Type} (T : TensorRule K ιx ιy) (X : ιx → ιy → NCtx K) (hX : T.Family X)
    (base : PCtx K) (hgeo : ∀ g h, (X g h).a = base.a ∧ (X g h).b = base.b)
    (hN : ∀ g h, (X g h).Nxx = base.Nxx ∧ (X g h).Nyy = base.Nyy ∧ (X g h).Nxy = base.Nxy)
    (ha : base.a ≠ 0) (hb : base.b ≠ 0) (ro co : Fin 3) :
    T.sum (fun g h => PanelNum.CPanel.fkG_num.entry ro co (X g h)) = CPanel.fkG0.entry ro co (T.quadCtx base) := by
  have h1 : ∀ g h, PanelNum.CPanel.fkG_num.entry ro co (X g h)
      = (X g h).weight * CPanel.fkG0.entry ro co (X g h).toP := fun g h =>
    kG_num_eq_kG0_on_point_cpanel (X g h) (by rw [(hgeo g h).1]; exact ha) (by rw [(hgeo g h).2]; exact hb) ro co
  rw [T.sum_congr h1, T.sum_weight_mul hX]
  refine T.wsum_of_eq_hessian hX.toP base (fun g h => (hgeo g h).1) (fun g h => (hgeo g h).2)
    .full .full (gradOps base) (prestressW base) (fld3 ro) (fld3 co) (CPanel.fkG0.entry ro co) (fun g h => ?_) ?_
  · rw [kG0_entry_cpanel _ (by show (X g h).a ≠ 0; rw [(hgeo g h).1]; exact ha)
      (by show (X g h).b ≠ 0; rw [(hgeo g h).2]; exact hb)]
    rw [gradOps_congr (Q := base) (hgeo g h).1 (hgeo g h).2,
      prestressW_congr (Q := base) (hN g h).1 (hN g h).2.1 (hN g h).2.2]
  · exact kG0_entry_cpanel (T.quadCtx base) ha hb ro co

section tabulated
open Compmech.C10

/-- **plate, uniform stress state, tabulated Gauss–Legendre rules, Bardell functions (over ℝ).**  (1) The sum over the
`nx × ny` Gauss points of the `fkG_num` integrand is the `fkG0` entry for the same series indices `(i, j)`, `(k, l)` and
the uniform resultants, evaluated with the quadrature integrals (exactly).  (2) If `4 ≤ nx`, `i, k < nx`, `4 ≤ ny`,
`j, l < ny`, every integral that entry reads is within `2·10⁻¹⁵·quadScale` (C10) of the real integral
`flag·flag·∫_{-1}^{1} D^{d₁}u_a·D^{d₂}u_b`: the rule "integrates the integrand exactly" up to the binary64 rounding of its
nodes and weights. -/
theorem kG_num_uniform_state_plate_tabulated {nx ny : Nat} {ptsx wtsx ptsy wtsy : List Lit}
    (hx : (nx, ptsx, wtsx) ∈ C10.Gen.LegGauss.table) (hy : (ny, ptsy, wtsy) ∈ C10.Gen.LegGauss.table)
    (fl : Dir → Fld → Nat → ℝ) (i k j l : Nat) (base : PCtx ℝ) (ha : base.a ≠ 0) (hb : base.b ≠ 0)
    (X : ℝ × ℝ → ℝ × ℝ → NCtx ℝ)
    (hX : (bardellRule (gaussRuleB64 ptsx wtsx) (gaussRuleB64 ptsy wtsy) fl i k j l).Family X)
    (hgeo : ∀ g h, (X g h).a = base.a ∧ (X g h).b = base.b)
    (hN : ∀ g h, (X g h).Nxx = base.Nxx ∧ (X g h).Nyy = base.Nyy ∧ (X g h).Nxy = base.Nxy) (ro co : Fin 3) :
    (bardellRule (gaussRuleB64 ptsx wtsx) (gaussRuleB64 ptsy wtsy) fl i k j l).sum
        (fun g h => PanelNum.Plate.fkG_num.entry ro co (X g h))
      = Plate.fkG0.entry ro co (ctxAt base (quadIntegrals (gaussRuleB64 ptsx wtsx) (gaussRuleB64 ptsy wtsy) fl) i k j l)
    ∧ (4 ≤ nx ∧ i < nx ∧ k < nx → 4 ≤ ny ∧ j < ny ∧ l < ny →
        ∀ (dir : Dir) (d₁ : Nat) (f₁ : Fld) (a : Idx) (d₂ : Nat) (f₂ : Fld) (b : Idx),
          |(ctxAt base (quadIntegrals (gaussRuleB64 ptsx wtsx) (gaussRuleB64 ptsy wtsy) fl) i k j l).J dir .full d₁ f₁ a d₂ f₂ b
              - (ctxAt base (exactIntegrals fl) i k j l).J dir .full d₁ f₁ a d₂ f₂ b| * 10 ^ 15
            ≤ 2 * quadScale fl dir d₁ f₁ (pick dir a i k j l) d₂ f₂ (pick dir b i k j l)) := by
  refine ⟨?_, fun hxo hyo => ctxAt_quad_close hx hy fl base hxo hyo⟩
  rw [kG_num_uniform_state_plate _ X hX base hgeo hN ha hb ro co, bardellRule_quadCtx]

/-- **cpanel, uniform stress state, tabulated Gauss–Legendre rules, Bardell functions (over ℝ).**  (1) The sum over the
`nx × ny` Gauss points of the `fkG_num` integrand is the `fkG0` entry for the same series indices `(i, j)`, `(k, l)` and
the uniform resultants, evaluated with the quadrature integrals (exactly).  (2) If `4 ≤ nx`, `i, k < nx`, `4 ≤ ny`,
`j, l < ny`, every integral that entry reads is within `2·10⁻¹⁵·quadScale` (C10) of the real integral
`flag·flag·∫_{-1}^{1} D^{d₁}u_a·D^{d₂}u_b`: the rule "integrates the integrand exactly" up to the binary64 rounding of its
nodes and weights. -/
theorem kG_num_uniform_state_cpanel_tabulated {nx ny : Nat} {ptsx wtsx ptsy wtsy : List Lit}
    (hx : (nx, ptsx, wtsx) ∈ C10.Gen.LegGauss.table) (hy : (ny, ptsy, wtsy) ∈ C10.Gen.LegGauss.table)
    (fl : Dir → Fld → Nat → ℝ) (i k j l : Nat) (base : PCtx ℝ) (ha : base.a ≠ 0) (hb : base.b ≠ 0)
    (X : ℝ × ℝ → ℝ × ℝ → NCtx ℝ)
    (hX : (bardellRule (gaussRuleB64 ptsx wtsx) (gaussRuleB64 ptsy wtsy) fl i k j l).Family X)
    (hgeo : ∀ g h, (X g h).a = base.a ∧ (X g h).b = base.b)
    (hN : ∀ g h, (X g h).Nxx = base.Nxx ∧ (X g h).Nyy = base.Nyy ∧ (X g h).Nxy = base.Nxy) (ro co : Fin 3) :
    (bardellRule (gaussRuleB64 ptsx wtsx) (gaussRuleB64 ptsy wtsy) fl i k j l).sum
        (fun g h => PanelNum.CPanel.fkG_num.entry ro co (X g h))
      = CPanel.fkG0.entry ro co (ctxAt base (quadIntegrals (gaussRuleB64 ptsx wtsx) (gaussRuleB64 ptsy wtsy) fl) i k j l)
    ∧ (4 ≤ nx ∧ i < nx ∧ k < nx → 4 ≤ ny ∧ j < ny ∧ l < ny →
        ∀ (dir : Dir) (d₁ : Nat) (f₁ : Fld) (a : Idx) (d₂ : Nat) (f₂ : Fld) (b : Idx),
          |(ctxAt base (quadIntegrals (gaussRuleB64 ptsx wtsx) (gaussRuleB64 ptsy wtsy) fl) i k j l).J dir .full d₁ f₁ a d₂ f₂ b
              - (ctxAt base (exactIntegrals fl) i k j l).J dir .full d₁ f₁ a d₂ f₂ b| * 10 ^ 15
            ≤ 2 * quadScale fl dir d₁ f₁ (pick dir a i k j l) d₂ f₂ (pick dir b i k j l)) := by
  refine ⟨?_, fun hxo hyo => ctxAt_quad_close hx hy fl base hxo hyo⟩
  rw [kG_num_uniform_state_cpanel _ X hX base hgeo hN ha hb ro co, bardellRule_quadCtx]

end tabulated

/-! #### non-vacuity -/

/-- the hypotheses are satisfiable for EVERY rule and every template point `X0` (the points `T.point X0 g h` carry the
resultants of `X0` everywhere) -/
example {ιx ιy : Type} (T : TensorRule ℚ ιx ιy) (X0 : NCtx ℚ) (ha : X0.a ≠ 0) (hb : X0.b ≠ 0) (ro co : Fin 3) :
    T.sum (fun g h => PanelNum.Plate.fkG_num.entry ro co (T.point X0 g h)) = Plate.fkG0.entry ro co (T.quadCtx X0.toP) :=
  kG_num_uniform_state_plate T (T.point X0) (T.family_point X0) X0.toP (fun _ _ => ⟨rfl, rfl⟩) (fun _ _ => ⟨rfl, rfl, rfl⟩)
    ha hb ro co

example {ιx ιy : Type} (T : TensorRule ℚ ιx ιy) (X0 : NCtx ℚ) (ha : X0.a ≠ 0) (hb : X0.b ≠ 0) (ro co : Fin 3) :
    T.sum (fun g h => PanelNum.CPanel.fkG_num.entry ro co (T.point X0 g h)) = CPanel.fkG0.entry ro co (T.quadCtx X0.toP) :=
  kG_num_uniform_state_cpanel T (T.point X0) (T.family_point X0) X0.toP (fun _ _ => ⟨rfl, rfl⟩) (fun _ _ => ⟨rfl, rfl, rfl⟩)
    ha hb ro co

/-- the identity is not `0 = 0`: two points along x (weights 3 and 4, `D¹φ^w = 2` at both), one along y (`D⁰φ^w = 5`),
`Nxx = 7`, `a = b = 1`: the `(w, w)` entry is `(3 + 4) · 7 · 2·2 · 5·5 = 4900` on both sides -/
example :
    let T : TensorRule ℚ Bool Unit :=
      ⟨[false, true], [()], fun g => if g then 4 else 3, fun _ => 1, fun _ d _ _ => if d = 1 then 2 else 0,
        fun _ d _ _ => if d = 0 then 5 else 0⟩
    let X0 : NCtx ℚ := ⟨1, 1, 1, fun _ _ => 0, 0, 0, 0, 0, 0, 0, 0, 0, 0, 7, 0, 0, 0, 0, 0, fun _ => 0, fun _ _ _ _ => 0⟩
    T.sum (fun g h => PanelNum.Plate.fkG_num.entry 2 2 (T.point X0 g h)) = 4900 ∧
      Plate.fkG0.entry 2 2 (T.quadCtx X0.toP) = 4900 := by
  constructor <;> simp [TensorRule.sum, TensorRule.point, TensorRule.quadCtx, TensorRule.Jq, NCtx.toP, panel_entry] <;> norm_num

/-- the tabulated theorem applies, e.g., to the 6-point rules with series indices up to 5 -/
example (fl : Dir → Fld → Nat → ℝ) (base : PCtx ℝ) (ha : base.a ≠ 0) (hb : base.b ≠ 0) (X0 : NCtx ℝ)
    (h0 : X0.a = base.a ∧ X0.b = base.b) (hN : X0.Nxx = base.Nxx ∧ X0.Nyy = base.Nyy ∧ X0.Nxy = base.Nxy)
    (dir : Dir) (d₁ d₂ : Nat) (f₁ f₂ : Fld) (a b : Idx) :
    |(ctxAt base (quadIntegrals (C10.gaussRuleB64 C10.Gen.LegGauss.points_6 C10.Gen.LegGauss.weights_6)
          (C10.gaussRuleB64 C10.Gen.LegGauss.points_6 C10.Gen.LegGauss.weights_6) fl) 5 4 0 5).J dir .full d₁ f₁ a d₂ f₂ b
        - (ctxAt base (exactIntegrals fl) 5 4 0 5).J dir .full d₁ f₁ a d₂ f₂ b| * 10 ^ 15
      ≤ 2 * quadScale fl dir d₁ f₁ (pick dir a 5 4 0 5) d₂ f₂ (pick dir b 5 4 0 5) :=
  (kG_num_uniform_state_plate_tabulated (nx := 6) (ny := 6) (by simp [C10.Gen.LegGauss.table])
    (by simp [C10.Gen.LegGauss.table]) fl 5 4 0 5 base ha hb _ (TensorRule.family_point _ X0)
    (fun _ _ => h0) (fun _ _ => hN) 2 2).2 (by omega) (by omega) dir d₁ f₁ a d₂ f₂ b

/-! ### the Python glue of `Panel.calc_kG0` (hand model `Model/PanelGlue.lean`, tied to the running `_panel.py` by the
recorded-kernel-call correspondence of `tools/props/C02.py : glue_correspondence`)

For ALL panel states `P` and call arguments `A` (over any linearly ordered field): what the glue hands to which kernel.
`P.onStrip`: both `y1` and `y2` are numbers (`0.0` is a number); `boundsSpec P` = `[y1, y2]` then, `[]` otherwise;
`zeroIfNone`: `None` read as `0.`; `placeSpec k P A` = `[size, row0, col0]` with the defaults `dofs·m·n`, `0`, `0`. -/

section glue
open Compmech.PanelGlue Compmech.Asm
variable {F : Type} [Field F] [LinearOrder F]

/-- **`calc_kG0` dispatch** (constant-load route, `c is None`): whenever the call succeeds it makes exactly ONE kernel call, to the
analytic module; the strip kernel `fkG0y1y2` iff both bounds are given, with exactly `(y1, y2)` in front, `fkG0` with no bounds
otherwise; the loads are handed over as `(Nxx, Nyy, Nxy)` IN THIS ORDER, `None` read as `0`; then the panel and the placement;
the panel object carries `r` and `alpharad` refreshed from the current definition (`None → 0`); the result is
`finalize_symmetric_matrix` of the kernel's matrix iff `finalize`. -/
theorem calc_kG0_dispatch (P : Panel F) (A : Args F) (R : Result F) (hc : A.c = none)
    (h : (calcKG0 P A).res = .ok R) :
    ∃ k g, (calcKG0 P A).post.model = .kind k ∧ R.calls = [g] ∧ g.num = false ∧
      (g.name = .fkG0y1y2 ↔ P.onStrip) ∧ (g.name = .fkG0 ↔ ¬ P.onStrip) ∧
      g.args = boundsSpec P ++ [.q (zeroIfNone P.Nxx), .q (zeroIfNone P.Nyy), .q (zeroIfNone P.Nxy), .panel] ++ placeSpec k P A ∧
      g.r = some (zeroIfNone P.r) ∧ g.alpharadFrom = some (zeroIfNone P.alphadeg) ∧
      R.comb = (if A.finalize = true then Comb.fin else id) (.call 0) := by
  obtain ⟨k, P3, hsd, hpost, hk, hr, hal, hR⟩ := calcKG0_ok hc h
  have hn := name_strip_iff P P (SameDef.refl P) .fkG0y1y2 .fkG0 (by decide)
  refine ⟨k, _, by rw [hpost]; exact hk, by rw [hR], rfl, hn.1, hn.2, ?_, ?_, ?_, ?_⟩
  · show _ ++ _ ++ placement A _ = _
    rw [placement_eq]
  · show P3.r = _; rw [hr, getD_eq_zeroIfNone]
  · show P3.alpharadFrom = _; rw [hal, getD_eq_zeroIfNone]
  · rw [hR]; cases A.finalize <;> simp [finWrap]

/-- non-vacuity: the witness panel (strip from `y1 = 0.0`, `Nyy = None`) gets `fkG0y1y2(0, 1/2, 3, 0, −3, panel, 6·3, 0, 0)` -/
example : ∃ R, (calcKG0 exPanel {}).res = .ok R ∧
    sig R = [(.fkG0y1y2, [.q 0, .q (1 / 2), .q 3, .q 0, .q (-3), .panel, .nat 18, .nat 0, .nat 0])] := by
  exact ⟨_, rfl, rfl⟩

/-- **`calc_kG0` with the regenerated flat-plate kernels**: combined with `kG0_matrix_plate` / `kG0y1y2_matrix_plate`, at the
positions of ANY two degrees of freedom the matrix `calc_kG0()` returns holds the Hessian of the pre-stress work
`½∬ Nxx w,x² + 2 Nxy w,x w,y + Nyy w,y²` of the panel's OWN loads `(Nxx, Nyy, Nxy)` (`panelLoads P base`: the kernel context with
exactly these three numbers, `None` read as 0) over the panel's OWN domain (`domOf P`: the strip iff both bounds are given). -/
theorem calc_kG0_eq_prestress_hessian_plate [CharZero F] (P : Panel F) (A : Args F) (R : Result F) (base : PCtx F)
    (I : Integrals F) (hI : I.Comm) (ha : base.a ≠ 0) (hb : base.b ≠ 0) (hc : A.c = none) (hfin : A.finalize = true)
    (hplace : A.row0 = A.col0) (h : (calcKG0 P A).res = .ok R)
    {i k j l : Nat} (hi : i < P.m) (hk : k < P.m) (hj : j < P.n) (hl : l < P.n) (α β : Fin 3) :
    toFun (R.eval (panelKern plateTable base I P.m P.n)) (A.row0.getD 0 + 3 * (j * P.m + i) + α.val)
        (A.row0.getD 0 + 3 * (l * P.m + k) + β.val)
      = hessian (ctxAt (panelLoads P base) I i k j l) .full (domOf P) (gradOps (panelLoads P base))
          (prestressW (panelLoads P base)) (fld3 α) (fld3 β) := by
  rw [calc_kG0_panelKern plateTable P A R base I hc hfin h hplace]
  have ha' : (panelLoads P base).a ≠ 0 := ha
  have hb' : (panelLoads P base).b ≠ 0 := hb
  unfold cooOf domOf
  rw [plateTable_fkG0, plateTable_fkG0y1y2]
  cases P.y1 <;> cases P.y2 <;> simp only
  · exact kG0_matrix_plate (panelLoads P base) I hI ha' hb' P.m P.n _ hi hk hj hl α β
  · exact kG0_matrix_plate (panelLoads P base) I hI ha' hb' P.m P.n _ hi hk hj hl α β
  · exact kG0_matrix_plate (panelLoads P base) I hI ha' hb' P.m P.n _ hi hk hj hl α β
  · exact kG0y1y2_matrix_plate (panelLoads P base) I hI ha' hb' P.m P.n _ hi hk hj hl α β

/-- **`calc_kG0` with the regenerated cylindrical-panel kernels** (`cpanelTable`): the matrix returned holds, at the positions of ANY two
degrees of freedom, the Hessian of the pre-stress work of the panel's OWN loads over the panel's OWN domain. -/
theorem calc_kG0_eq_prestress_hessian_cpanel [CharZero F] (P : Panel F) (A : Args F) (R : Result F) (base : PCtx F)
    (I : Integrals F) (hI : I.Comm) (ha : base.a ≠ 0) (hb : base.b ≠ 0) (hc : A.c = none) (hfin : A.finalize = true)
    (hplace : A.row0 = A.col0) (h : (calcKG0 P A).res = .ok R)
    {i k j l : Nat} (hi : i < P.m) (hk : k < P.m) (hj : j < P.n) (hl : l < P.n) (α β : Fin 3) :
    toFun (R.eval (panelKern cpanelTable base I P.m P.n)) (A.row0.getD 0 + 3 * (j * P.m + i) + α.val)
        (A.row0.getD 0 + 3 * (l * P.m + k) + β.val)
      = hessian (ctxAt (panelLoads P base) I i k j l) .full (domOf P) (gradOps (panelLoads P base))
          (prestressW (panelLoads P base)) (fld3 α) (fld3 β) := by
  rw [calc_kG0_panelKern cpanelTable P A R base I hc hfin h hplace]
  have ha' : (panelLoads P base).a ≠ 0 := ha
  have hb' : (panelLoads P base).b ≠ 0 := hb
  unfold cooOf domOf
  rw [cpanelTable_fkG0, cpanelTable_fkG0y1y2]
  cases P.y1 <;> cases P.y2 <;> simp only
  · exact kG0_matrix_cpanel (panelLoads P base) I hI ha' hb' P.m P.n _ hi hk hj hl α β
  · exact kG0_matrix_cpanel (panelLoads P base) I hI ha' hb' P.m P.n _ hi hk hj hl α β
  · exact kG0_matrix_cpanel (panelLoads P base) I hI ha' hb' P.m P.n _ hi hk hj hl α β
  · exact kG0y1y2_matrix_cpanel (panelLoads P base) I hI ha' hb' P.m P.n _ hi hk hj hl α β

/-- **`calc_kG0` with the regenerated `w`-only plate kernels** (`plateWTable`, one degree of freedom per pair of series indices). -/
theorem calc_kG0_eq_prestress_hessian_platew [CharZero F] (P : Panel F) (A : Args F) (R : Result F) (base : PCtx F)
    (I : Integrals F) (hI : I.Comm) (ha : base.a ≠ 0) (hb : base.b ≠ 0) (hc : A.c = none) (hfin : A.finalize = true)
    (hplace : A.row0 = A.col0) (h : (calcKG0 P A).res = .ok R)
    {i k j l : Nat} (hi : i < P.m) (hk : k < P.m) (hj : j < P.n) (hl : l < P.n) (α β : Fin 1) :
    toFun (R.eval (panelKern plateWTable base I P.m P.n)) (A.row0.getD 0 + 1 * (j * P.m + i) + α.val)
        (A.row0.getD 0 + 1 * (l * P.m + k) + β.val)
      = hessian (ctxAt (panelLoads P base) I i k j l) .full (domOf P) (gradOps (panelLoads P base))
          (prestressW (panelLoads P base)) (fld1 α) (fld1 β) := by
  rw [calc_kG0_panelKern plateWTable P A R base I hc hfin h hplace]
  have ha' : (panelLoads P base).a ≠ 0 := ha
  have hb' : (panelLoads P base).b ≠ 0 := hb
  unfold cooOf domOf
  rw [plateWTable_fkG0, plateWTable_fkG0y1y2]
  cases P.y1 <;> cases P.y2 <;> simp only
  · exact kG0_matrix_plate_w (panelLoads P base) I hI ha' hb' P.m P.n _ hi hk hj hl α β
  · exact kG0_matrix_plate_w (panelLoads P base) I hI ha' hb' P.m P.n _ hi hk hj hl α β
  · exact kG0_matrix_plate_w (panelLoads P base) I hI ha' hb' P.m P.n _ hi hk hj hl α β
  · exact kG0y1y2_matrix_plate_w (panelLoads P base) I hI ha' hb' P.m P.n _ hi hk hj hl α β

/-- **`calc_kG0` with the regenerated conical-panel kernels** (`conePanelKern s kpanelTable`, Spec/PanelGlueKernelsCone.lean: the loop nest
once per constant-radius section, `s = 41` by `loop_nest_standard`): the matrix returned holds the SUM over the sections of the Hessians of
the pre-stress work of the panel's own loads over section × the panel's own `y` domain, each section with its own radius and width
(`sectionBase`). -/
theorem calc_kG0_eq_prestress_hessian_kpanel [CharZero F] (s : Nat) (P : Panel F) (A : Args F) (R : Result F) (base : PCtx F)
    (I : Nat → Integrals F) (hI : ∀ sec, (I sec).Comm) (ha : base.a ≠ 0) (hb : ∀ sec, (sectionBase base s sec).b ≠ 0)
    (hc : A.c = none) (hfin : A.finalize = true) (hplace : A.row0 = A.col0) (h : (calcKG0 P A).res = .ok R)
    {i k j l : Nat} (hi : i < P.m) (hk : k < P.m) (hj : j < P.n) (hl : l < P.n) (α β : Fin 3) :
    toFun (R.eval (conePanelKern s kpanelTable base I P.m P.n)) (A.row0.getD 0 + 3 * (j * P.m + i) + α.val)
        (A.row0.getD 0 + 3 * (l * P.m + k) + β.val)
      = ((List.range s).map fun sec =>
          hessian (ctxAt (sectionBase (panelLoads P base) s sec) (I sec) i k j l) .sub (domOf P)
            (gradOps (sectionBase (panelLoads P base) s sec)) (prestressW (sectionBase (panelLoads P base) s sec))
            (fld3 α) (fld3 β)).sum := by
  rw [calc_kG0_conePanelKern s kpanelTable P A R base I hc hfin h hplace]
  have ha' : (panelLoads P base).a ≠ 0 := ha
  have hb' : ∀ sec, (sectionBase (panelLoads P base) s sec).b ≠ 0 := hb
  unfold coneCooOf domOf
  rw [kpanelTable_fkG0, kpanelTable_fkG0y1y2]
  cases P.y1 <;> cases P.y2 <;> simp only
  · exact kG0_matrix_kpanel (panelLoads P base) I hI s ha' hb' P.m P.n _ hi hk hj hl α β
  · exact kG0_matrix_kpanel (panelLoads P base) I hI s ha' hb' P.m P.n _ hi hk hj hl α β
  · exact kG0_matrix_kpanel (panelLoads P base) I hI s ha' hb' P.m P.n _ hi hk hj hl α β
  · exact kG0y1y2_matrix_kpanel (panelLoads P base) I hI s ha' hb' P.m P.n _ hi hk hj hl α β

open GlueExample in
/-- non-vacuity (conical model): the witness panel with `r = 3`, `alphadeg = −30` — strip from `y1 = 0.0`, loads `(3, None, −3)` — on the
rational instance of Spec/PanelGlueKernelsCone.lean (41 sections, every one with non-zero width): the call succeeds, the panel is a
strip, and every entry of the returned matrix is the 41-term sum of pre-stress Hessians -/
example {i k j l : Nat} (hi : i < conePanelEx.m) (hk : k < conePanelEx.m) (hj : j < conePanelEx.n) (hl : l < conePanelEx.n)
    (α β : Fin 3) :
    ∃ R, (calcKG0 conePanelEx {}).res = .ok R ∧ domOf conePanelEx = .sub ∧
      toFun (R.eval (conePanelKern 41 kpanelTable qBase (fun _ => qI) conePanelEx.m conePanelEx.n))
          ((({} : Args ℚ).row0.getD 0) + 3 * (j * conePanelEx.m + i) + α.val)
          ((({} : Args ℚ).row0.getD 0) + 3 * (l * conePanelEx.m + k) + β.val)
        = ((List.range 41).map fun sec =>
            hessian (ctxAt (sectionBase (panelLoads conePanelEx qBase) 41 sec) qI i k j l) .sub (domOf conePanelEx)
              (gradOps (sectionBase (panelLoads conePanelEx qBase) 41 sec))
              (prestressW (sectionBase (panelLoads conePanelEx qBase) 41 sec)) (fld3 α) (fld3 β)).sum :=
  ⟨_, rfl, rfl, calc_kG0_eq_prestress_hessian_kpanel 41 conePanelEx {} _ qBase (fun _ => qI) (fun _ => qI_comm)
    (by norm_num [qBase]) (fun sec => (qBase_section_b_pos 41 sec).ne') rfl rfl rfl rfl hi hk hj hl α β⟩

end glue

end Compmech.Panel.C03
