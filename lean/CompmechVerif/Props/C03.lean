/-
C03 — Geometric stiffness is the Hessian of the pre-stress work
  ½ ∬ (Nxx w,x² + 2 Nxy w,x w,y + Nyy w,y²) dx dy   (constant resultants).
Models regenerated from compmech/panel/models/*.pyx on every run.  The state-based (`fkG_num`)
clauses are in the second part (numerical kernels).
-/
import CompmechVerif.Gen.Panel.Plate
import CompmechVerif.Gen.Panel.PlateW
import CompmechVerif.Gen.Panel.CPanel
import CompmechVerif.Gen.Panel.KPanel
import CompmechVerif.Spec.Kinematics
import CompmechVerif.Core.OpSpecTactics
import Mathlib.Tactic.FinCases
import Mathlib.Data.Fintype.Basic

set_option linter.unnecessarySeqFocus false

namespace Compmech.Panel.C03
open Compmech.Panel Compmech.Gen

variable {K : Type} [Field K] [CharZero K]

/-- the pre-stress weight is symmetric and linear in `(Nxx, Nyy, Nxy)` by construction -/
theorem prestressW_symm (P : PCtx K) (p q : Fin 2) : prestressW P p q = prestressW P q p := by
  fin_cases p <;> fin_cases q <;> rfl

theorem kG0_entry_plate (P : PCtx K) (ha : P.a ≠ 0) (hb : P.b ≠ 0) (ro co : Fin 3) :
    Plate.fkG0.entry ro co P = hessian P .full .full (gradOps P) (prestressW P) (fld3 ro) (fld3 co) := by
  fin_cases ro <;> fin_cases co <;> entry_eq_form [gradOps, prestressW]

theorem kG0y1y2_entry_plate (P : PCtx K) (ha : P.a ≠ 0) (hb : P.b ≠ 0) (ro co : Fin 3) :
    Plate.fkG0y1y2.entry ro co P = hessian P .full .sub (gradOps P) (prestressW P) (fld3 ro) (fld3 co) := by
  fin_cases ro <;> fin_cases co <;> entry_eq_form [gradOps, prestressW]

theorem kG0_entry_plate_w (P : PCtx K) (ha : P.a ≠ 0) (hb : P.b ≠ 0) (ro co : Fin 1) :
    PlateW.fkG0.entry ro co P = hessian P .full .full (gradOps P) (prestressW P) (fld1 ro) (fld1 co) := by
  fin_cases ro <;> fin_cases co <;> entry_eq_form [gradOps, prestressW, fld1]

theorem kG0y1y2_entry_plate_w (P : PCtx K) (ha : P.a ≠ 0) (hb : P.b ≠ 0) (ro co : Fin 1) :
    PlateW.fkG0y1y2.entry ro co P = hessian P .full .sub (gradOps P) (prestressW P) (fld1 ro) (fld1 co) := by
  fin_cases ro <;> fin_cases co <;> entry_eq_form [gradOps, prestressW, fld1]

theorem kG0_entry_cpanel (P : PCtx K) (ha : P.a ≠ 0) (hb : P.b ≠ 0) (ro co : Fin 3) :
    CPanel.fkG0.entry ro co P = hessian P .full .full (gradOps P) (prestressW P) (fld3 ro) (fld3 co) := by
  fin_cases ro <;> fin_cases co <;> entry_eq_form [gradOps, prestressW]

theorem kG0y1y2_entry_cpanel (P : PCtx K) (ha : P.a ≠ 0) (hb : P.b ≠ 0) (ro co : Fin 3) :
    CPanel.fkG0y1y2.entry ro co P = hessian P .full .sub (gradOps P) (prestressW P) (fld3 ro) (fld3 co) := by
  fin_cases ro <;> fin_cases co <;> entry_eq_form [gradOps, prestressW]

/-- conical panel, one constant-radius section -/
theorem kG0_entry_kpanel (P : PCtx K) (ha : P.a ≠ 0) (hb : P.b ≠ 0) (ro co : Fin 3) :
    KPanel.fkG0.entry ro co P = hessian P .sub .full (gradOps P) (prestressW P) (fld3 ro) (fld3 co) := by
  fin_cases ro <;> fin_cases co <;> entry_eq_form [gradOps, prestressW]

theorem kG0y1y2_entry_kpanel (P : PCtx K) (ha : P.a ≠ 0) (hb : P.b ≠ 0) (ro co : Fin 3) :
    KPanel.fkG0y1y2.entry ro co P = hessian P .sub .sub (gradOps P) (prestressW P) (fld3 ro) (fld3 co) := by
  fin_cases ro <;> fin_cases co <;> entry_eq_form [gradOps, prestressW]

end Compmech.Panel.C03
