/-
C19 — piston-theory aerodynamic matrices represent the stated pressure law.
Kernel models regenerated from compmech/panel/models/*.pyx on every run; coefficient model
`Model/Piston.lean` tied to `Panel.calc_kA` by the correspondence of tools/props/C19.py.
-/
import CompmechVerif.Gen.Panel.Plate
import CompmechVerif.Gen.Panel.PlateW
import CompmechVerif.Gen.Panel.CPanel
import CompmechVerif.Spec.Piston
import CompmechVerif.Model.Piston
import CompmechVerif.Core.OpSpecTactics
import Mathlib.Tactic.FinCases
import Mathlib.Data.Fintype.Basic
import Mathlib.Tactic.Linarith
import Mathlib.Algebra.Order.Field.Basic

set_option linter.unnecessarySeqFocus false

namespace Compmech.Panel.C19
open Compmech.Panel Compmech.Gen

section kernels
variable {K : Type} [Field K] [CharZero K]

/-- flow along x, flat plate: the entry is `−β ∬ w_A,x w_B` (no curvature term), on `w` only -/
theorem kAx_entry_plate (P : PCtx K) (ha : P.a ≠ 0) (hb : P.b ≠ 0) (ro co : Fin 3) :
    Plate.fkAx.entry ro co P = pistonFormByParts P .full .full (wDx P) 0 (fld3 ro) (fld3 co) := by
  fin_cases ro <;> fin_cases co <;> entry_eq_form [pistonFormByParts, wDx, wId]

theorem kAx_entry_plate_w (P : PCtx K) (ha : P.a ≠ 0) (hb : P.b ≠ 0) (ro co : Fin 1) :
    PlateW.fkAx.entry ro co P = pistonFormByParts P .full .full (wDx P) 0 (fld1 ro) (fld1 co) := by
  fin_cases ro <;> fin_cases co <;> entry_eq_form [pistonFormByParts, wDx, wId, fld1]

/-- flow along x, cylindrical panel: with the curvature term `γ` -/
theorem kAx_entry_cpanel (P : PCtx K) (ha : P.a ≠ 0) (hb : P.b ≠ 0) (ro co : Fin 3) :
    CPanel.fkAx.entry ro co P = pistonFormByParts P .full .full (wDx P) P.gamma (fld3 ro) (fld3 co) := by
  fin_cases ro <;> fin_cases co <;> entry_eq_form [pistonFormByParts, wDx, wId]

/-- flow along y (no curvature term in any model) -/
theorem kAy_entry_plate (P : PCtx K) (ha : P.a ≠ 0) (hb : P.b ≠ 0) (ro co : Fin 3) :
    Plate.fkAy.entry ro co P = pistonFormByParts P .full .full (wDy P) 0 (fld3 ro) (fld3 co) := by
  fin_cases ro <;> fin_cases co <;> entry_eq_form [pistonFormByParts, wDy, wId]

theorem kAy_entry_plate_w (P : PCtx K) (ha : P.a ≠ 0) (hb : P.b ≠ 0) (ro co : Fin 1) :
    PlateW.fkAy.entry ro co P = pistonFormByParts P .full .full (wDy P) 0 (fld1 ro) (fld1 co) := by
  fin_cases ro <;> fin_cases co <;> entry_eq_form [pistonFormByParts, wDy, wId, fld1]

theorem kAy_entry_cpanel (P : PCtx K) (ha : P.a ≠ 0) (hb : P.b ≠ 0) (ro co : Fin 3) :
    CPanel.fkAy.entry ro co P = pistonFormByParts P .full .full (wDy P) 0 (fld3 ro) (fld3 co) := by
  fin_cases ro <;> fin_cases co <;> entry_eq_form [pistonFormByParts, wDy, wId]

/-- damping matrix entries: `−aeromu ∬ w_A w_B`, on `w` only -/
theorem cA_entry_plate (P : PCtx K) (ro co : Fin 3) :
    Plate.fcA.entry ro co P = dampingForm P .full .full (fld3 ro) (fld3 co) := by
  fin_cases ro <;> fin_cases co <;> entry_eq_form [dampingForm, wId]

theorem cA_entry_plate_w (P : PCtx K) (ro co : Fin 1) :
    PlateW.fcA.entry ro co P = dampingForm P .full .full (fld1 ro) (fld1 co) := by
  fin_cases ro <;> fin_cases co <;> entry_eq_form [dampingForm, wId, fld1]

theorem cA_entry_cpanel (P : PCtx K) (ro co : Fin 3) :
    CPanel.fcA.entry ro co P = dampingForm P .full .full (fld3 ro) (fld3 co) := by
  fin_cases ro <;> fin_cases co <;> entry_eq_form [dampingForm, wId]

/-- Integration by parts: when the boundary term of `∫ (φ_A φ_B)'` vanishes in the flow direction
(`w` restrained on the upstream and downstream edges; for Bardell's functions this is the case exactly
when the two translation flags of `w` on those edges are 0 — C10), what the kernels accumulate IS the
bilinear form of the stated pressure law. -/
theorem byParts_eq_pistonForm_x (P : PCtx K) (dx dy : Dom) (γ : K)
    (hparts : P.J .x dx 1 .w .A 0 .w .B + P.J .x dx 0 .w .A 1 .w .B = 0) :
    pistonFormByParts P dx dy (wDx P) γ .w .w = pistonForm P dx dy (wDx P) γ .w .w := by
  have h : P.J .x dx 1 .w .A 0 .w .B = -P.J .x dx 0 .w .A 1 .w .B := by
    rw [← add_eq_zero_iff_eq_neg]; exact hparts
  simp only [pistonFormByParts, pistonForm, pairInt, wDx, wId, List.map, List.sum_cons, List.sum_nil, h]
  ring

theorem byParts_eq_pistonForm_y (P : PCtx K) (dx dy : Dom) (γ : K)
    (hparts : P.J .y dy 1 .w .A 0 .w .B + P.J .y dy 0 .w .A 1 .w .B = 0) :
    pistonFormByParts P dx dy (wDy P) γ .w .w = pistonForm P dx dy (wDy P) γ .w .w := by
  have h : P.J .y dy 1 .w .A 0 .w .B = -P.J .y dy 0 .w .A 1 .w .B := by
    rw [← add_eq_zero_iff_eq_neg]; exact hparts
  simp only [pistonFormByParts, pistonForm, pairInt, wDy, wId, List.map, List.sum_cons, List.sum_nil, h]
  ring

/-- the forms are linear in their coefficients -/
theorem pistonForm_linear (P : PCtx K) (dx dy : Dom) (flow : Fld → List (OpTerm K)) (γ s : K) (α β : Fld) :
    pistonForm { P with beta := s * P.beta } dx dy flow (s * γ) α β = s * pistonForm P dx dy flow γ α β := by
  simp only [pistonForm, pairInt]; ring

end kernels

section coefficients
open Compmech.Piston
variable {K : Type} [Field K] [LinearOrder K] [IsStrictOrderedRing K]

/-- coefficients from Mach number, density, speed and sound speed follow linear piston theory:
with `q² = M² − 1`, `q ≠ 0`: `β = ρV²/q`, `γ = β/(2 r q)` (0 for flat panels) and, when `V = M a∞`,
`aeromu = ρ V (M² − 2)/q³`. -/
theorem coefficients_from_mach (mach rho v ainf r q : K) (h1 : 1 < mach) (hq : q ^ 2 = mach ^ 2 - 1)
    (hq0 : q ≠ 0) (hv : v = mach * ainf) (ha : ainf ≠ 0) :
    ∃ c, fromMach (some mach) rho v ainf r q = .ok c ∧ c.beta = rho * v ^ 2 / q ∧
      c.gamma = (if r ≠ 0 then c.beta / (2 * r * q) else 0) ∧ c.aeromu = rho * v * (mach ^ 2 - 2) / q ^ 3 := by
  have hm : ¬ mach < 1 := not_lt.mpr (le_of_lt h1)
  have hm1 : mach ≠ 1 := ne_of_gt h1
  have hm0 : mach ≠ 0 := by intro h; rw [h] at h1; exact absurd h1 (by norm_num)
  refine ⟨_, by simp only [fromMach, hm, if_false, effMach, hm1]; rfl, rfl, ?_, ?_⟩
  · by_cases hr : r ≠ 0 <;> simp [hr]
  · simp only
    rw [← hq, hv]
    field_simp

/-- user-supplied coefficients are used unchanged (missing `gamma`, `aeromu` default to 0) -/
theorem coefficients_given (b : K) (g a mach : Option K) (rho v ainf r q : K) :
    coefs (some b) g a mach rho v ainf r q = .ok ⟨b, g.getD 0, a.getD 0⟩ := rfl

end coefficients

end Compmech.Panel.C19
