/-
C19 — piston-theory aerodynamic matrices represent the stated pressure law.
Kernel models regenerated from compmech/panel/models/*.pyx on every run; coefficient model
`Model/Piston.lean` tied to `Panel.calc_kA` by the correspondence of tools/props/C19.py.
-/
import CompmechVerif.Gen.Panel.Plate
import CompmechVerif.Gen.Panel.PlateW
import CompmechVerif.Gen.Panel.CPanel
import CompmechVerif.Spec.Piston
import CompmechVerif.Model.Piston
import CompmechVerif.Core.OpSpecTactics
import CompmechVerif.Spec.AeroMatrix
import CompmechVerif.Model.BayAeroLemmas
import CompmechVerif.Spec.BayAeroKernels
import Mathlib.Tactic.FinCases
import Mathlib.Data.Fintype.Basic
import Mathlib.Tactic.Linarith
import Mathlib.Algebra.Order.Field.Basic

set_option linter.unnecessarySeqFocus false

namespace Compmech.Panel.C19
open Compmech.Panel Compmech.Gen

section kernels
variable {K : Type} [Field K] [CharZero K]

/-- flow along x, flat plate: the entry is `−β ∬ w_A,x w_B` (no curvature term), on `w` only -/
theorem kAx_entry_plate (P : PCtx K) (ha : P.a ≠ 0) (hb : P.b ≠ 0) (ro co : Fin 3) :
    Plate.fkAx.entry ro co P = pistonFormByParts P .full .full (wDx P) 0 (fld3 ro) (fld3 co) := by
  fin_cases ro <;> fin_cases co <;> entry_eq_form [pistonFormByParts, wDx, wId]

theorem kAx_entry_plate_w (P : PCtx K) (ha : P.a ≠ 0) (hb : P.b ≠ 0) (ro co : Fin 1) :
    PlateW.fkAx.entry ro co P = pistonFormByParts P .full .full (wDx P) 0 (fld1 ro) (fld1 co) := by
  fin_cases ro <;> fin_cases co <;> entry_eq_form [pistonFormByParts, wDx, wId, fld1]

/-- flow along x, cylindrical panel: with the curvature term `γ` -/
theorem kAx_entry_cpanel (P : PCtx K) (ha : P.a ≠ 0) (hb : P.b ≠ 0) (ro co : Fin 3) :
    CPanel.fkAx.entry ro co P = pistonFormByParts P .full .full (wDx P) P.gamma (fld3 ro) (fld3 co) := by
  fin_cases ro <;> fin_cases co <;> entry_eq_form [pistonFormByParts, wDx, wId]

/-- flow along y (no curvature term in any model) -/
theorem kAy_entry_plate (P : PCtx K) (ha : P.a ≠ 0) (hb : P.b ≠ 0) (ro co : Fin 3) :
    Plate.fkAy.entry ro co P = pistonFormByParts P .full .full (wDy P) 0 (fld3 ro) (fld3 co) := by
  fin_cases ro <;> fin_cases co <;> entry_eq_form [pistonFormByParts, wDy, wId]

theorem kAy_entry_plate_w (P : PCtx K) (ha : P.a ≠ 0) (hb : P.b ≠ 0) (ro co : Fin 1) :
    PlateW.fkAy.entry ro co P = pistonFormByParts P .full .full (wDy P) 0 (fld1 ro) (fld1 co) := by
  fin_cases ro <;> fin_cases co <;> entry_eq_form [pistonFormByParts, wDy, wId, fld1]

theorem kAy_entry_cpanel (P : PCtx K) (ha : P.a ≠ 0) (hb : P.b ≠ 0) (ro co : Fin 3) :
    CPanel.fkAy.entry ro co P = pistonFormByParts P .full .full (wDy P) 0 (fld3 ro) (fld3 co) := by
  fin_cases ro <;> fin_cases co <;> entry_eq_form [pistonFormByParts, wDy, wId]

/-- damping matrix entries: `−aeromu ∬ w_A w_B`, on `w` only -/
theorem cA_entry_plate (P : PCtx K) (ro co : Fin 3) :
    Plate.fcA.entry ro co P = dampingForm P .full .full (fld3 ro) (fld3 co) := by
  fin_cases ro <;> fin_cases co <;> entry_eq_form [dampingForm, wId]

theorem cA_entry_plate_w (P : PCtx K) (ro co : Fin 1) :
    PlateW.fcA.entry ro co P = dampingForm P .full .full (fld1 ro) (fld1 co) := by
  fin_cases ro <;> fin_cases co <;> entry_eq_form [dampingForm, wId, fld1]

theorem cA_entry_cpanel (P : PCtx K) (ro co : Fin 3) :
    CPanel.fcA.entry ro co P = dampingForm P .full .full (fld3 ro) (fld3 co) := by
  fin_cases ro <;> fin_cases co <;> entry_eq_form [dampingForm, wId]

/-- Integration by parts: when the boundary term of `∫ (φ_A φ_B)'` vanishes in the flow direction
(`w` restrained on the upstream and downstream edges; for Bardell's functions this is the case exactly
when the two translation flags of `w` on those edges are 0 — C10), what the kernels accumulate IS the
bilinear form of the stated pressure law. -/
theorem byParts_eq_pistonForm_x (P : PCtx K) (dx dy : Dom) (γ : K)
    (hparts : P.J .x dx 1 .w .A 0 .w .B + P.J .x dx 0 .w .A 1 .w .B = 0) :
    pistonFormByParts P dx dy (wDx P) γ .w .w = pistonForm P dx dy (wDx P) γ .w .w := by
  have h : P.J .x dx 1 .w .A 0 .w .B = -P.J .x dx 0 .w .A 1 .w .B := by
    rw [← add_eq_zero_iff_eq_neg]; exact hparts
  simp only [pistonFormByParts, pistonForm, pairInt, wDx, wId, List.map, List.sum_cons, List.sum_nil, h]
  ring

theorem byParts_eq_pistonForm_y (P : PCtx K) (dx dy : Dom) (γ : K)
    (hparts : P.J .y dy 1 .w .A 0 .w .B + P.J .y dy 0 .w .A 1 .w .B = 0) :
    pistonFormByParts P dx dy (wDy P) γ .w .w = pistonForm P dx dy (wDy P) γ .w .w := by
  have h : P.J .y dy 1 .w .A 0 .w .B = -P.J .y dy 0 .w .A 1 .w .B := by
    rw [← add_eq_zero_iff_eq_neg]; exact hparts
  simp only [pistonFormByParts, pistonForm, pairInt, wDy, wId, List.map, List.sum_cons, List.sum_nil, h]
  ring

/-- the forms are linear in their coefficients -/
theorem pistonForm_linear (P : PCtx K) (dx dy : Dom) (flow : Fld → List (OpTerm K)) (γ s : K) (α β : Fld) :
    pistonForm { P with beta := s * P.beta } dx dy flow (s * γ) α β = s * pistonForm P dx dy flow γ α β := by
  simp only [pistonForm, pairInt]; ring


/-! ### the whole matrix `Panel.calc_kA(finalize=True)` delivers (loop nest + skew / symmetric completion) -/

open Compmech.Asm in
/-- the regenerated aerodynamic kernels have exactly the modelled loop nest -/
theorem loop_nest_standard :
    Plate.fkAx.schema = LoopSchema.std 3 none ∧ Plate.fkAy.schema = LoopSchema.std 3 none ∧
    Plate.fcA.schema = LoopSchema.std 3 none ∧ PlateW.fkAx.schema = LoopSchema.std 1 none ∧
    PlateW.fkAy.schema = LoopSchema.std 1 none ∧ PlateW.fcA.schema = LoopSchema.std 1 none ∧
    CPanel.fkAx.schema = LoopSchema.std 3 none ∧ CPanel.fkAy.schema = LoopSchema.std 3 none ∧
    CPanel.fcA.schema = LoopSchema.std 3 none := by
  decide

open Compmech.Asm in
/-- the by-parts form of the flow term is antisymmetric, that of the curvature term symmetric, when the boundary term of the
integration by parts vanishes for every pair of `w` basis functions (w restrained on the flow edges) -/
theorem byParts_split_x (base : PCtx K) (I : Integrals K) (hI : I.Comm)
    (hparts : ∀ dom i k, I .x dom 1 .w i 0 .w k + I .x dom 0 .w i 1 .w k = 0) (α β : Fld) (i k j l : Nat) :
    pistonFormByParts (ctxAt { base with gamma := 0 } I i k j l) .full .full (wDx base) 0 α β =
      -pistonFormByParts (ctxAt { base with gamma := 0 } I k i l j) .full .full (wDx base) 0 β α ∧
    pistonFormByParts (ctxAt { base with beta := 0 } I i k j l) .full .full (wDx base) base.gamma α β =
      pistonFormByParts (ctxAt { base with beta := 0 } I k i l j) .full .full (wDx base) base.gamma β α := by
  have h1 := hparts .full i k
  have h2 := hI .x .full 1 .w k 0 .w i
  have h3 := hI .y .full 0 .w l 0 .w j
  have h4 := hI .x .full 0 .w k 0 .w i
  have e1 : I .x .full 1 .w i 0 .w k = -I .x .full 0 .w i 1 .w k := by
    rw [← add_eq_zero_iff_eq_neg]; exact h1
  cases α <;> cases β <;>
    simp [pistonFormByParts, pairInt, wDx, wId, ctxAt, pick, e1, h2, h3, h4] <;> ring

open Compmech.Asm in
/-- cylindrical panel, flow along x, `finalize=True`: for ANY series orders and placement, with `w` restrained on the
upstream and downstream edges, the matrix `Panel.calc_kA` delivers holds at EVERY pair of positions the bilinear form of the
stated pressure law `β ∬ w_A ∂w_B/∂x − γ ∬ w_A w_B` -/
theorem kAx_matrix_cpanel (base : PCtx K) (I : Integrals K) (hI : I.Comm) (ha : base.a ≠ 0) (hb : base.b ≠ 0)
    (hparts : ∀ dom i k, I .x dom 1 .w i 0 .w k + I .x dom 0 .w i 1 .w k = 0)
    (m n row0 : Nat) {i k j l : Nat} (hi : i < m) (hk : k < m) (hj : j < n) (hl : l < n) (α β : Fin 3) :
    toFun (aeroCoo 3 m n row0 (fun ro co (P : PCtx K) => CPanel.fkAx.entry ro co { P with gamma := 0 })
        (fun ro co (P : PCtx K) => CPanel.fkAx.entry ro co { P with beta := 0 }) base I)
        (row0 + 3 * (j * m + i) + α.val) (row0 + 3 * (l * m + k) + β.val)
      = pistonForm (ctxAt base I i k j l) .full .full (wDx base) base.gamma (fld3 α) (fld3 β) := by
  rw [aeroCoo_entry 3 m n row0 _ _ base I ?_ ?_ hi hk hj hl]
  · simp only [ctxAt_gamma0, ctxAt_beta0]
    rw [kAx_entry_cpanel (ctxAt { base with gamma := 0 } I i k j l) ha hb,
      kAx_entry_cpanel (ctxAt { base with beta := 0 } I i k j l) ha hb]
    have h1 := hparts .full i k
    have e1 : I .x .full 1 .w i 0 .w k = -I .x .full 0 .w i 1 .w k := by
      rw [← add_eq_zero_iff_eq_neg]; exact h1
    fin_cases α <;> fin_cases β <;>
      simp [pistonFormByParts, pistonForm, pairInt, wDx, wId, ctxAt, pick, fld3, e1] <;> ring
  · intro ro co i k j l
    simp only [ctxAt_gamma0]
    rw [kAx_entry_cpanel (ctxAt { base with gamma := 0 } I i k j l) ha hb,
      kAx_entry_cpanel (ctxAt { base with gamma := 0 } I k i l j) ha hb]
    exact (byParts_split_x base I hI hparts (fld3 ro) (fld3 co) i k j l).1
  · intro ro co i k j l
    simp only [ctxAt_beta0]
    rw [kAx_entry_cpanel (ctxAt { base with beta := 0 } I i k j l) ha hb,
      kAx_entry_cpanel (ctxAt { base with beta := 0 } I k i l j) ha hb]
    exact (byParts_split_x base I hI hparts (fld3 ro) (fld3 co) i k j l).2

end kernels

section coefficients
open Compmech.Piston
variable {K : Type} [Field K] [LinearOrder K] [IsStrictOrderedRing K]

/-- coefficients from Mach number, density, speed and sound speed follow linear piston theory:
with `q² = M² − 1`, `q ≠ 0`: `β = ρV²/q`, `γ = β/(2 r q)` (0 for flat panels) and, when `V = M a∞`,
`aeromu = ρ V (M² − 2)/q³`. -/
theorem coefficients_from_mach (mach rho v ainf r q : K) (h1 : 1 < mach) (hq : q ^ 2 = mach ^ 2 - 1)
    (hq0 : q ≠ 0) (hv : v = mach * ainf) (ha : ainf ≠ 0) :
    ∃ c, fromMach (some mach) rho v ainf r q = .ok c ∧ c.beta = rho * v ^ 2 / q ∧
      c.gamma = (if r ≠ 0 then c.beta / (2 * r * q) else 0) ∧ c.aeromu = rho * v * (mach ^ 2 - 2) / q ^ 3 := by
  have hm : ¬ mach < 1 := not_lt.mpr (le_of_lt h1)
  have hm1 : mach ≠ 1 := ne_of_gt h1
  have hm0 : mach ≠ 0 := by intro h; rw [h] at h1; exact absurd h1 (by norm_num)
  refine ⟨_, by simp only [fromMach, hm, if_false, effMach, hm1]; rfl, rfl, ?_, ?_⟩
  · by_cases hr : r ≠ 0 <;> simp [hr]
  · simp only
    rw [← hq, hv]
    field_simp

/-- user-supplied coefficients are used unchanged (missing `gamma`, `aeromu` default to 0) -/
theorem coefficients_given (b : K) (g a mach : Option K) (rho v ainf r q : K) :
    coefs (some b) g a mach rho v ainf r q = .ok ⟨b, g.getD 0, a.getD 0⟩ := rfl

end coefficients

/-! ### `StiffPanelBay.calc_kA` and the aerodynamic part of `tstiff2d_1stiff_flutter` (`Model/BayAero.lean`) -/

section bay
open Compmech.PanelGlue Compmech.BayAero Compmech.Asm Compmech
variable {F : Type} [Field F] [LinearOrder F] [IsStrictOrderedRing F]

/-- **`StiffPanelBay.calc_kA` delegates**: whenever the bay call succeeds, the bay has at least one panel and had a `size` attribute
`s` (an earlier `get_size()`), the skin panel used is `panels[0]` — as `Panel._rebuild` leaves it — of a flat or cylindrical model `k`,
the flow direction is `x` or `y`, and the kernel calls and their combination are EXACTLY those of `Panel.calc_kA` (`PanelGlue.calcKA`)
of that panel carrying THE BAY'S flow data (`skinOf`: `flow, beta, gamma, aeromu, Mach` — with `Mach == 1` already patched —,
`rho_air, speed_sound, size, V, r` copied in this order), called with `(size = bay size, row0 = 0, col0 = 0, finalize = True)`: that is
`kaDispatch` on the state the panel is left in, with the coefficients `cf` of `Model/Piston.lean` AT THE BAY'S DATA.  Explicitly:
every call is made on the analytic module with `panel.r = bay.r` (`None` read as `0.`) and is placed at `(bay size, 0, 0)`, where the
bay size is `dofs·bay.m·bay.n` plus the sizes of the stiffener parts; flow along `y`: `fkAy(beta, panel, …)`, completed
skew-symmetrically; flow along `x` with `gamma ≠ 0`: `fkAx(beta, 0, …)` completed skew-symmetrically PLUS `fkAx(0, gamma, …)`
completed symmetrically (`skew(c0) + fin(c1)`); with `gamma = 0`: `fkAx(beta, gamma, …)` completed skew-symmetrically.  The object the
kernels are handed is `panels[0]`: they read ITS `a, b, m, n` and `w` flags (`Spec/BayAeroKernels.aeroKern`), not the bay's. -/
theorem bay_calc_kA_delegates (B : AeroBay F) (q : F) (R : Result F) (h : (bayCalcKA B q).res = .ok R) :
    ∃ (p0 : Panel F) (t : List (Panel F)) (s : Nat) (k : ModelKind) (cf : Piston.Coefs F),
      B.panels = p0 :: t ∧ B.sizeAttr = some s ∧ (rebuild p0).1.model = .kind k ∧ k ≠ .kpanel ∧ (B.flow = .x ∨ B.flow = .y) ∧
      (B.model ≠ .unset → B.model = .kind k) ∧
      Piston.coefs B.beta B.gamma B.aeromu B.mach (zeroIfNone B.rhoAir) (zeroIfNone B.V) (zeroIfNone B.speedSound) (zeroIfNone B.r) q
        = .ok cf ∧
      (calcKA (skinOf (machPatchedBay (rebuiltBay B)) s (rebuild p0).1) (delegationArgs (baySize k B)) q).res = .ok R ∧
      kaDispatch (calcKA (skinOf (machPatchedBay (rebuiltBay B)) s (rebuild p0).1) (delegationArgs (baySize k B)) q).post
        (delegationArgs (baySize k B)) (baySize k B) cf = .ok R ∧
      (∀ g ∈ R.calls, g.num = false ∧ g.r = some (zeroIfNone B.r) ∧ g.placement = [.nat (baySize k B), .nat 0, .nat 0]) ∧
      (B.flow = .y → sig R = [(.fkAy, [.q cf.beta, .panel, .nat (baySize k B), .nat 0, .nat 0])] ∧ R.comb = .skew (.call 0)) ∧
      (B.flow = .x →
        (cf.gamma ≠ 0 →
          sig R = [(.fkAx, [.q cf.beta, .q 0, .panel, .nat (baySize k B), .nat 0, .nat 0]),
                   (.fkAx, [.q 0, .q cf.gamma, .panel, .nat (baySize k B), .nat 0, .nat 0])] ∧
          R.comb = .add (.skew (.call 0)) (.fin (.call 1))) ∧
        (cf.gamma = 0 →
          sig R = [(.fkAx, [.q cf.beta, .q cf.gamma, .panel, .nat (baySize k B), .nat 0, .nat 0])] ∧ R.comb = .skew (.call 0))) := by
  obtain ⟨B2, own, p, rest, s, k, hr, hres, _, _, _⟩ := bayCalcKA_ok h
  obtain ⟨hB2, ⟨p0, t, hp0, hp⟩, hpm, _, hbm, hsz, hm, hn, hps, hrr, hfl, _⟩ := hr.facts
  obtain ⟨hc1, hc2⟩ := hr.coefs
  have hsize : baySize k B2 = baySize k B := by unfold baySize; rw [hm, hn, hps]
  rw [hsize] at hres
  subst hB2
  subst hp
  have hskm : (skinOf (machPatchedBay (rebuiltBay B)) s (rebuild p0).1).model = .kind k := hpm
  have hskf : (skinOf (machPatchedBay (rebuiltBay B)) s (rebuild p0).1).flow = B.flow := hfl
  have hskr : (skinOf (machPatchedBay (rebuiltBay B)) s (rebuild p0).1).r = B.r := hrr
  obtain ⟨k', cf, hk', hcon, hcf, hflow, hcalls, hy, hx⟩ := calcKA_ok hres
  have hkk : k' = k := by rw [hskm] at hk'; injection hk' with hk'; exact hk'.symm
  subst hkk
  have hcfo : cf = own := by rw [hc2] at hcf; injection hcf with hcf; exact hcf.symm
  subst hcfo
  have hplace : placeSpec k' (skinOf (machPatchedBay (rebuiltBay B)) s (rebuild p0).1) (delegationArgs (baySize k' B))
      = [.nat (baySize k' B), .nat 0, .nat 0] := rfl
  rw [hskf] at hflow hy hx
  rw [hplace] at hy hx
  obtain ⟨hd1, _⟩ := calcKA_eq_dispatch (A := delegationArgs (baySize k' B)) hskm hcon hc2
  refine ⟨p0, t, s, k', cf, hp0, hsz, hpm, ?_, ?_, hbm, hc1, hres, ?_, ?_, ?_, ?_⟩
  · rintro rfl; simp [ModelKind.conical] at hcon
  · cases hf : B.flow <;> simp_all
  · have hd1' : (calcKA (skinOf (machPatchedBay (rebuiltBay B)) s (rebuild p0).1) (delegationArgs (baySize k' B)) q).res =
        kaDispatch (calcKA (skinOf (machPatchedBay (rebuiltBay B)) s (rebuild p0).1) (delegationArgs (baySize k' B)) q).post
          (delegationArgs (baySize k' B)) (baySize k' B) cf := hd1
    rw [← hd1']; exact hres
  · intro g hg
    obtain ⟨a1, a2, _, a4⟩ := hcalls g hg
    exact ⟨a1, by rw [a2, hskr], by rw [a4, hplace]⟩
  · intro hf
    obtain ⟨a1, a2⟩ := hy hf
    exact ⟨a1, by rw [a2]; rfl⟩
  · intro hf
    refine ⟨fun hg => (hx hf).1 ⟨rfl, hg⟩, fun hg => ?_⟩
    obtain ⟨a1, a2⟩ := (hx hf).2 (by simp [hg])
    exact ⟨a1, by rw [a2]; rfl⟩

/-- non-vacuity (`exBay` of Model/BayAeroLemmas.lean): a cylindrical bay (`r = 3`, model left to the panels) with `m = 2, n = 3`, one skin panel and a stiffener flange of 8
amplitudes, Mach route with `Mach = 5/4` (so `q = 3/4`), flow along `x`: the call succeeds with the two `fkAx` calls at `(26, 0, 0)`
(`26 = 3·2·3 + 8`), `beta = 4·9/(3/4) = 48`, `gamma = 48/(2·3·3/4) = 32/3`, combined as `skew(c0) + fin(c1)` -/
example : ∃ R, (bayCalcKA exBay (3 / 4)).res = .ok R ∧
    sig R = [(.fkAx, [.q 48, .q 0, .panel, .nat 26, .nat 0, .nat 0]), (.fkAx, [.q 0, .q (32 / 3), .panel, .nat 26, .nat 0, .nat 0])] ∧
    R.comb = .add (.skew (.call 0)) (.fin (.call 1)) := by
  simp [bayCalcKA, exBay, rebuildPanels, rebuild, exPanel, afterRebuild, rebuiltBay, ownFormulas, Piston.fromMach, Piston.effMach,
    delegate, autoModel, ModelAttr.kind?, calcKA, ModelKind.conical, resolveSize, defaultR, Piston.coefs, machPatched, kaDispatch,
    copyFirst, copyRest, delegationArgs, baySize, ModelKind.dofs, sig, mkCall, placement]
  norm_num

/-- **the bay matrix vanishes on every stiffener amplitude** (corollary of `bay_calc_kA_delegates`): if the kernel of every recorded
call writes inside the skin panel's own `dofs·m·n` rows and columns — which the regenerated aerodynamic kernels do for the placement
`(0, 0)` the bay uses (`Spec/BayAeroKernels.aeroKern_within`; instantiated in `bay_calc_kA_zero_on_stiffeners_regenerated`) — then every
entry of the matrix `StiffPanelBay.calc_kA()` returns whose row or column index is at least the skin size is zero. -/
theorem bay_calc_kA_zero_on_stiffeners (B : AeroBay F) (q : F) (R : Result F) (kern : KCall F → Coo F) (n0 : Nat)
    (h : (bayCalcKA B q).res = .ok R) (hk : ∀ g ∈ R.calls, Within n0 n0 (kern g)) (i j : Nat) (hij : n0 ≤ i ∨ n0 ≤ j) :
    toFun (R.eval kern) i j = 0 := by
  obtain ⟨p0, t, s, k, cf, _, _, _, _, hfl, _, _, _, _, _, hy, hx⟩ := bay_calc_kA_delegates B q R h
  have one : ∀ {x}, sig R = [x] → R.comb = .skew (.call 0) → toFun (R.eval kern) i j = 0 := by
    intro x h1 h2
    obtain ⟨g, hg, _, _⟩ := calls_of_sig_one h1
    unfold Result.eval
    rw [h2, hg]
    simp only [Comb.eval, List.getElem?_cons_zero]
    exact toFun_skewComplete_zero (hk g (by rw [hg]; simp)) i j hij
  rcases hfl with hf | hf
  · by_cases hg : cf.gamma = 0
    · obtain ⟨h1, h2⟩ := (hx hf).2 hg
      exact one h1 h2
    · obtain ⟨h1, h2⟩ := (hx hf).1 hg
      obtain ⟨g1, g2, hgs, _⟩ := calls_of_sig_two h1
      unfold Result.eval
      rw [h2, hgs]
      simp only [Comb.eval, List.getElem?_cons_zero, List.getElem?_cons_succ, toFun_append]
      rw [toFun_skewComplete_zero (hk g1 (by rw [hgs]; simp)) i j hij, toFun_finalize_zero (hk g2 (by rw [hgs]; simp)) i j hij]
      simp
  · obtain ⟨h1, h2⟩ := hy hf
    exact one h1 h2

/-- the same with the REGENERATED kernels (`aeroKern`: the loop nest over the translated `fkAx / fkAy` entries, run with the series
orders `m, n` of the panel object it is handed): the matrix of a successful `StiffPanelBay.calc_kA()` is zero at every position whose
row or column is at least `num·m·n` of `panels[0]` — i.e. on every amplitude of a stiffener flange or base. -/
theorem bay_calc_kA_zero_on_stiffeners_regenerated {num : Nat} (T : AeroTable F num) (base : PCtx F) (I : Integrals F) (B : AeroBay F)
    (q : F) (R : Result F) (m n : Nat) (h : (bayCalcKA B q).res = .ok R) (i j : Nat) (hij : num * m * n ≤ i ∨ num * m * n ≤ j) :
    toFun (R.eval (aeroKern T base I m n)) i j = 0 := by
  obtain ⟨p0, t, s, k, cf, _, _, _, _, _, _, _, _, _, hcalls, _, _⟩ := bay_calc_kA_delegates B q R h
  refine bay_calc_kA_zero_on_stiffeners B q R _ _ h ?_ i j hij
  intro g hg
  exact aeroKern_within T base I m n g ⟨_, (hcalls g hg).2.2⟩

/-- **the bay matrix IS the piston-theory form on the skin's `w` amplitudes** (cylindrical bay, flow along `x`, `gamma ≠ 0`; corollary of
`bay_calc_kA_delegates` and `kAx_matrix_cpanel`): with the REGENERATED kernel `CPanel.fkAx` run on the panel object `panels[0]` (its own
series orders `m, n`, geometry and flags: `base`, `I`), `w` restrained on the upstream and downstream edges, the matrix a successful
`StiffPanelBay.calc_kA()` returns holds, at the positions of ANY two degrees of freedom of the skin — upper or lower triangle —, the
bilinear form `β ∬ w_A ∂w_B/∂x − γ ∬ w_A w_B` of the stated pressure law with `(β, γ)` the coefficients `cf` of `Model/Piston.lean` at the
BAY's flow data; and it is zero on every stiffener amplitude (`bay_calc_kA_zero_on_stiffeners_regenerated`). -/
theorem bay_calc_kA_eq_piston_form_cpanel [CharZero F] (B : AeroBay F) (q : F) (R : Result F) (base : PCtx F) (I : Integrals F)
    (hI : I.Comm) (ha : base.a ≠ 0) (hb : base.b ≠ 0)
    (hparts : ∀ dom i k, I .x dom 1 .w i 0 .w k + I .x dom 0 .w i 1 .w k = 0)
    (h : (bayCalcKA B q).res = .ok R) (hflow : B.flow = .x) (m n : Nat)
    {i k j l : Nat} (hi : i < m) (hk : k < m) (hj : j < n) (hl : l < n) (α β : Fin 3) :
    ∃ cf : Piston.Coefs F,
      Piston.coefs B.beta B.gamma B.aeromu B.mach (zeroIfNone B.rhoAir) (zeroIfNone B.V) (zeroIfNone B.speedSound) (zeroIfNone B.r) q
        = .ok cf ∧
      (cf.gamma ≠ 0 →
        toFun (R.eval (aeroKern cpanelAero base I m n)) (0 + 3 * (j * m + i) + α.val) (0 + 3 * (l * m + k) + β.val)
          = pistonForm (ctxAt (withCoefs base cf.beta cf.gamma) I i k j l) .full .full (wDx (withCoefs base cf.beta cf.gamma)) cf.gamma
              (fld3 α) (fld3 β)) := by
  obtain ⟨p0, t, s, k', cf, _, _, _, _, _, _, hcf, _, _, _, _, hx⟩ := bay_calc_kA_delegates B q R h
  refine ⟨cf, hcf, ?_⟩
  intro hg
  obtain ⟨h1, h2⟩ := (hx hflow).1 hg
  obtain ⟨g1, g2, hgs, n1, a1, n2, a2⟩ := calls_of_sig_two h1
  have hev : R.eval (aeroKern cpanelAero base I m n) =
      aeroCoo 3 m n 0 (fun ro co (P : PCtx F) => CPanel.fkAx.entry ro co { P with gamma := 0 })
        (fun ro co (P : PCtx F) => CPanel.fkAx.entry ro co { P with beta := 0 }) (withCoefs base cf.beta cf.gamma) I := by
    unfold Result.eval
    rw [h2, hgs]
    simp only [Comb.eval, List.getElem?_cons_zero, List.getElem?_cons_succ]
    unfold aeroKern
    simp only [n1, a1, n2, a2]
    rfl
  rw [hev]
  exact kAx_matrix_cpanel (withCoefs base cf.beta cf.gamma) I hI ha hb hparts m n 0 hi hk hj hl α β

/-- non-vacuity: the hypotheses of `bay_calc_kA_eq_piston_form_cpanel` are jointly satisfiable — the witness bay `exBay` (success, flow
along `x`, `gamma = 32/3 ≠ 0`) with unit geometry and the (degenerate) all-zero interpretation of the integrals -/
example : ∃ cf : Piston.Coefs ℚ, cf.gamma ≠ 0 ∧ ∃ R, (bayCalcKA exBay (3 / 4)).res = .ok R ∧
    toFun (R.eval (aeroKern cpanelAero (⟨1, 1, 3, 0, 1, fun _ _ => 0, 0, 0, 0, 0, 1, 1, 0, 0, 0, fun _ _ _ _ _ _ _ _ => 0⟩ : PCtx ℚ)
        (fun _ _ _ _ _ _ _ _ => 0) 2 3)) (0 + 3 * (1 * 2 + 1) + 2) (0 + 3 * (0 * 2 + 0) + 2)
      = pistonForm (ctxAt (withCoefs (⟨1, 1, 3, 0, 1, fun _ _ => 0, 0, 0, 0, 0, 1, 1, 0, 0, 0, fun _ _ _ _ _ _ _ _ => 0⟩ : PCtx ℚ)
          cf.beta cf.gamma) (fun _ _ _ _ _ _ _ _ => 0) 1 0 1 0) .full .full
          (wDx (withCoefs (⟨1, 1, 3, 0, 1, fun _ _ => 0, 0, 0, 0, 0, 1, 1, 0, 0, 0, fun _ _ _ _ _ _ _ _ => 0⟩ : PCtx ℚ) cf.beta cf.gamma))
          cf.gamma (fld3 2) (fld3 2) := by
  have hok : ∃ R, (bayCalcKA exBay (3 / 4)).res = .ok R := by
    simp [bayCalcKA, exBay, rebuildPanels, rebuild, exPanel, afterRebuild, rebuiltBay, ownFormulas, Piston.fromMach, Piston.effMach,
      delegate, autoModel, ModelAttr.kind?, calcKA, ModelKind.conical, resolveSize, defaultR, Piston.coefs, machPatched, kaDispatch,
      copyFirst, copyRest, delegationArgs, baySize, ModelKind.dofs]
    norm_num
  obtain ⟨R, hR⟩ := hok
  obtain ⟨cf, hcf, hform⟩ := bay_calc_kA_eq_piston_form_cpanel exBay (3 / 4) R
    (⟨1, 1, 3, 0, 1, fun _ _ => 0, 0, 0, 0, 0, 1, 1, 0, 0, 0, fun _ _ _ _ _ _ _ _ => 0⟩ : PCtx ℚ) (fun _ _ _ _ _ _ _ _ => 0)
    (by intro _ _ _ _ _ _ _ _; rfl) (by norm_num) (by norm_num) (by intro _ _ _; simp) hR rfl 2 3
    (i := 1) (k := 0) (j := 1) (l := 0) (by norm_num) (by norm_num) (by norm_num) (by norm_num) 2 2
  have hg : cf.gamma ≠ 0 := by
    have : cf = ⟨48, 32 / 3, 48 / (5 / 4 * 2) * ((5 / 4) ^ 2 - 2) / ((5 / 4) ^ 2 - 1)⟩ := by
      have h2 : Piston.coefs exBay.beta exBay.gamma exBay.aeromu exBay.mach (zeroIfNone exBay.rhoAir) (zeroIfNone exBay.V)
          (zeroIfNone exBay.speedSound) (zeroIfNone exBay.r) (3 / 4) = .ok ⟨48, 32 / 3, 48 / (5 / 4 * 2) * ((5 / 4) ^ 2 - 2) / ((5 / 4) ^ 2 - 1)⟩ := by
        simp [exBay, Piston.coefs, Piston.fromMach, Piston.effMach, zeroIfNone]
        norm_num
      rw [h2] at hcf
      injection hcf with hcf
      exact hcf.symm
    rw [this]; norm_num
  exact ⟨cf, hg, R, hR, hform hg⟩

/-- **coefficients**: whenever the bay call succeeds, the coefficients of the bay's own copy of the formulas (local variables it never
uses), the coefficients the skin panel derives from the attributes the bay copied onto it, and `Model/Piston.lean` at the bay's
`beta, gamma, aeromu, Mach, rho_air, V, speed_sound, r` are ONE triple `cf` — the bay's copy cannot disagree with what is used —:
the user's `beta` (with `gamma`, `aeromu` defaulting to 0) when `beta` is given, the Mach route `fromMach` (`coefficients_from_mach`)
otherwise, in which case `Mach ≥ 1` and `rho_air, V, speed_sound` are all numbers, `speed_sound ≠ 0` (else the BAY has raised).  The
kernels are handed `cf.beta` and, for flow along `x`, `cf.gamma` (`bay_calc_kA_delegates`). -/
theorem bay_calc_kA_coefficients (B : AeroBay F) (q : F) (R : Result F) (h : (bayCalcKA B q).res = .ok R) :
    ∃ (cf : Piston.Coefs F) (s : Nat) (p : Panel F),
      (bayCalcKA B q).ownCoefs = some cf ∧
      Piston.coefs B.beta B.gamma B.aeromu B.mach (zeroIfNone B.rhoAir) (zeroIfNone B.V) (zeroIfNone B.speedSound) (zeroIfNone B.r) q
        = .ok cf ∧
      (let skin := skinOf (machPatchedBay (rebuiltBay B)) s p
       Piston.coefs skin.beta skin.gamma skin.aeromu skin.mach skin.rhoAir skin.V skin.speedSound (zeroIfNone skin.r) q = .ok cf) ∧
      (∀ b, B.beta = some b → cf = ⟨b, zeroIfNone B.gamma, zeroIfNone B.aeromu⟩) ∧
      (B.beta = none → ∃ m0 rho v ainf, B.mach = some m0 ∧ ¬ m0 < 1 ∧ B.rhoAir = some rho ∧ B.V = some v ∧
        B.speedSound = some ainf ∧ ainf ≠ 0 ∧ Piston.fromMach (some m0) rho v ainf (zeroIfNone B.r) q = .ok cf) := by
  obtain ⟨B2, own, p, rest, s, k, hr, _, _, _, hown⟩ := bayCalcKA_ok h
  obtain ⟨hB2, _⟩ := hr.facts
  obtain ⟨hc1, hc2⟩ := hr.coefs
  obtain ⟨_, _, hroute⟩ := ownFormulas_ok hr.formulas
  subst hB2
  refine ⟨own, s, p, hown, hc1, hc2, ?_, ?_⟩
  · intro b hb
    rw [hb] at hc1
    simp only [Piston.coefs, getD_eq_zeroIfNone] at hc1
    injection hc1 with hc1
    exact hc1.symm
  · intro hb
    obtain ⟨m0, rho, v, ainf, h1, h2, h3, h4, h5, h6⟩ := hroute hb
    have h1' : B.mach = some m0 := h1
    have h3' : B.rhoAir = some rho := h3
    have h4' : B.V = some v := h4
    have h5' : B.speedSound = some ainf := h5
    refine ⟨m0, rho, v, ainf, h1', h2, h3', h4', h5', h6, ?_⟩
    rw [hb, h1', h3', h4', h5'] at hc1
    simpa [Piston.coefs, zeroIfNone] using hc1

/-- non-vacuity: on the witness bay the three triples are `(48, 32/3, −48·7/45)` -/
example : (bayCalcKA exBay (3 / 4)).ownCoefs = some ⟨48, 32 / 3, 48 / (5 / 4 * 2) * ((5 / 4) ^ 2 - 2) / ((5 / 4) ^ 2 - 1)⟩ := by
  simp [bayCalcKA, exBay, rebuildPanels, rebuild, exPanel, afterRebuild, rebuiltBay, ownFormulas, Piston.fromMach, Piston.effMach,
    delegate, autoModel, ModelAttr.kind?, calcKA, ModelKind.conical, resolveSize, defaultR, Piston.coefs, machPatched, kaDispatch,
    copyFirst, copyRest, delegationArgs, baySize, ModelKind.dofs]
  norm_num

/-- **error branches of `StiffPanelBay.calc_kA`**, in the order the code reaches them.  (1, 2) `a` / `b` missing: the bay's `ValueError`,
nothing touched.  (3) A panel's own `_rebuild` exception (of `panels[i]`, the panels before it rebuilt) or the bay's `AssertionError`
`self.model == p.model`: nothing written on the skin.  (4) The exception of a stiffener's `_rebuild` (a parameter of the model).
(5–8) On the Mach route (`beta is None`) the BAY's own copy of the formulas raises before anything is written on `panels[0]`:
`Mach is None` is a **TypeError** (`None < 1`) — NOT the skin panel's `ValueError('Mach number cannot be a NoneValue')` —,
`Mach < 1` the bay's `ValueError`, a missing `rho_air / V / speed_sound` a `TypeError`, `speed_sound == 0.` a `ZeroDivisionError`; in the
last two cases `Mach == 1` has ALREADY been replaced by `1.0001` on the bay.  (9) A bay without panels: `IndexError`, after the formulas.
(10) A bay on which `get_size()` was never called has no attribute `size`: `AttributeError` at `p.size = self.size`, AFTER the seven
attributes `flow, beta, gamma, aeromu, Mach, rho_air, speed_sound` were written on `panels[0]` (and `V`, `r` were not).  (11) The only
exceptions of `Panel.calc_kA` that can surface through the bay are `NotImplementedError` (conical skin) and `ValueError('Invalid flow
value')`; the skin panel's own Mach checks and model look-ups are unreachable.  (12) `get_size()` cannot fail with `KeyError`. -/
theorem bay_calc_kA_errors (B : AeroBay F) (q : F) :
    (B.a = none → (bayCalcKA B q).res = .error .aMissing ∧ (bayCalcKA B q).post = B ∧ (bayCalcKA B q).writes = []) ∧
    (B.a ≠ none → B.b = none → (bayCalcKA B q).res = .error .bMissing ∧ (bayCalcKA B q).post = B ∧ (bayCalcKA B q).writes = []) ∧
    (B.a ≠ none → B.b ≠ none → ∀ e, (rebuildPanels B.panels B.model 0).2.2 = some e →
      (bayCalcKA B q).res = .error e ∧ (bayCalcKA B q).post = rebuiltBay B ∧ (bayCalcKA B q).writes = [] ∧
      ∃ i, ∃ hi : i < B.panels.length, (∃ e', e = .panelRebuild i e' ∧ (rebuild B.panels[i]).2 = some e') ∨ e = .modelMismatch i) ∧
    (B.a ≠ none → B.b ≠ none → (rebuildPanels B.panels B.model 0).2.2 = none →
      (∀ x, B.stiffRebuildErr = some x →
        (bayCalcKA B q).res = .error (.stiffRebuild x) ∧ (bayCalcKA B q).post = rebuiltBay B ∧ (bayCalcKA B q).writes = []) ∧
      (B.stiffRebuildErr = none →
        (B.beta = none → B.mach = none →
          (bayCalcKA B q).res = .error .machNoneCompare ∧ BayErr.machNoneCompare.pyType = "TypeError" ∧
          (bayCalcKA B q).post = rebuiltBay B ∧ (bayCalcKA B q).writes = []) ∧
        (B.beta = none → ∀ m0, B.mach = some m0 → m0 < 1 →
          (bayCalcKA B q).res = .error .machBelowOne ∧ (bayCalcKA B q).post = rebuiltBay B ∧ (bayCalcKA B q).writes = []) ∧
        (B.beta = none → ∀ m0, B.mach = some m0 → ¬ m0 < 1 → (B.rhoAir = none ∨ B.V = none ∨ B.speedSound = none) →
          (bayCalcKA B q).res = .error .noneArith ∧ (bayCalcKA B q).post = machPatchedBay (rebuiltBay B) ∧
          (bayCalcKA B q).writes = []) ∧
        (B.beta = none → ∀ m0, B.mach = some m0 → ¬ m0 < 1 → B.rhoAir ≠ none → B.V ≠ none → B.speedSound = some 0 →
          (bayCalcKA B q).res = .error .zeroDivision ∧ (bayCalcKA B q).post = machPatchedBay (rebuiltBay B) ∧
          (bayCalcKA B q).writes = []) ∧
        (FormulasOk B →
          (B.panels = [] → (bayCalcKA B q).res = .error .noPanels ∧ (bayCalcKA B q).writes = []) ∧
          (B.panels ≠ [] → B.sizeAttr = none →
            (bayCalcKA B q).res = .error .noSizeAttr ∧ (bayCalcKA B q).writes = writesFirst (machPatchedBay (rebuiltBay B)) ∧
            (bayCalcKA B q).writes.length = 7 ∧
            ∃ p rest, (rebuildPanels B.panels B.model 0).1 = p :: rest ∧
              (bayCalcKA B q).post.panels = copyFirst (machPatchedBay (rebuiltBay B)) p :: rest)))) ∧
    (∀ e, (bayCalcKA B q).res = .error (.skin e) →
      (e = .conical ∧ ∃ p0 t, B.panels = p0 :: t ∧ (rebuild p0).1.model = .kind .kpanel) ∨ (e = .flowInvalid ∧ B.flow = .other)) ∧
    (bayCalcKA B q).res ≠ .error .noModel := by
  refine ⟨?_, ?_, ?_, ?_, ?_, ?_⟩
  · intro ha
    unfold bayCalcKA
    simp only [ha]
    refine ⟨?_, ?_, ?_⟩ <;> first | trivial | rfl
  · intro ha hb
    obtain ⟨av, ha'⟩ := Option.ne_none_iff_exists'.mp ha
    unfold bayCalcKA
    simp only [ha', hb]
    refine ⟨?_, ?_, ?_⟩ <;> first | trivial | rfl
  · intro ha hb e he
    obtain ⟨av, ha'⟩ := Option.ne_none_iff_exists'.mp ha
    obtain ⟨bv, hb'⟩ := Option.ne_none_iff_exists'.mp hb
    refine ⟨?_, ?_, ?_, ?_⟩
    · unfold bayCalcKA; simp only [ha', hb', he]
    · unfold bayCalcKA; simp only [ha', hb', he]
    · unfold bayCalcKA; simp only [ha', hb', he]
    · obtain ⟨d, hd, hor⟩ := rebuildPanels_err B.panels B.model 0 e he
      simp only [Nat.zero_add] at hor
      exact ⟨d, hd, hor⟩
  · intro ha hb hp
    obtain ⟨av, ha'⟩ := Option.ne_none_iff_exists'.mp ha
    obtain ⟨bv, hb'⟩ := Option.ne_none_iff_exists'.mp hb
    refine ⟨?_, ?_⟩
    · intro x hx
      have hx' : (rebuiltBay B).stiffRebuildErr = some x := hx
      unfold bayCalcKA afterRebuild
      simp only [ha', hb', hp, hx']
      refine ⟨?_, ?_, ?_⟩ <;> first | trivial | rfl
    · intro hs
      rw [bayCalcKA_after q ha hb hp hs]
      refine ⟨?_, ?_, ?_, ?_, ?_⟩
      · intro hbeta hm
        rw [ownFormulas_machNone (rebuiltBay B) q hbeta hm]
        exact ⟨rfl, rfl, rfl, rfl⟩
      · intro hbeta m0 hm hlt
        rw [ownFormulas_machBelowOne (rebuiltBay B) q hbeta hm hlt]
        exact ⟨rfl, rfl, rfl⟩
      · intro hbeta m0 hm hlt hnone
        rw [ownFormulas_noneArith (rebuiltBay B) q hbeta hm hlt hnone]
        exact ⟨rfl, rfl, rfl⟩
      · intro hbeta m0 hm hlt hr hv hss
        rw [ownFormulas_zeroDivision (rebuiltBay B) q hbeta hm hlt hr hv hss]
        exact ⟨rfl, rfl, rfl⟩
      · intro hok
        obtain ⟨own, hown⟩ := ownFormulas_of_ok (rebuiltBay B) q hok
        rw [hown]
        simp only
        have hpan : (machPatchedBay (rebuiltBay B)).panels = (rebuildPanels B.panels B.model 0).1 :=
          (machPatchedBay_fields (rebuiltBay B)).2.2.2.2.2.2.2.2.2.2.2.2.2.2.1
        have hsz : (machPatchedBay (rebuiltBay B)).sizeAttr = B.sizeAttr :=
          (machPatchedBay_fields (rebuiltBay B)).2.2.2.2.2.2.2.2.2.2.2.2.2.1
        refine ⟨?_, ?_⟩
        · intro hnil
          have : (machPatchedBay (rebuiltBay B)).panels = [] := by rw [hpan, hnil]; simp [rebuildPanels]
          rw [delegate_noPanels _ own q this]
          exact ⟨rfl, rfl⟩
        · intro hne hsize
          have hlen := rebuildPanels_length B.panels B.model 0
          cases hl : (rebuildPanels B.panels B.model 0).1 with
          | nil =>
            rw [hl] at hlen
            exact absurd (List.length_eq_zero_iff.mp hlen.symm) hne
          | cons p rest =>
            rw [delegate_noSize _ own q (hpan.trans hl) (hsz.trans hsize)]
            exact ⟨rfl, rfl, rfl, p, rest, rfl, rfl⟩
  · intro e he
    rcases bayCalcKA_cases B q with ⟨e0, he0, hne⟩ | ⟨B2, own, p, rest, s, k, hr, hres, _, _, _⟩
    · rw [he0] at he
      injection he with he
      exact absurd he (hne e)
    · rw [hres] at he
      obtain ⟨hB2, ⟨p0, t, hp0, hp⟩, hpm, _, _, _, _, _, _, _, hfl, _⟩ := hr.facts
      obtain ⟨_, hc2⟩ := hr.coefs
      have hskm : (skinOf B2 s p).model = .kind k := hpm
      have hskf : (skinOf B2 s p).flow = B.flow := hfl
      cases hcon : k.conical with
      | true =>
        have hk : k = .kpanel := by cases k <;> simp [ModelKind.conical] at hcon ⊢
        have : (calcKA (skinOf B2 s p) (delegationArgs (baySize k B2)) q).res = .error .conical := by
          unfold calcKA; simp [hskm, hcon]
        rw [this] at he
        simp only [Except.mapError] at he
        injection he with he
        injection he with he
        left
        exact ⟨he.symm, p0, t, hp0, by rw [← hp, hpm, hk]⟩
      | false =>
        obtain ⟨hd1, hd2⟩ := calcKA_eq_dispatch (A := delegationArgs (baySize k B2)) hskm hcon hc2
        rw [hd1] at he
        unfold kaDispatch at he
        rw [hd2, hskf] at he
        cases hf : B.flow with
        | other =>
          simp only [hf, Except.mapError] at he
          injection he with he
          injection he with he
          right
          exact ⟨he.symm, rfl⟩
        | x => simp only [hf] at he; split at he <;> simp [Except.mapError] at he
        | y => simp [hf, Except.mapError] at he
  · intro he
    rcases bayCalcKA_cases B q with ⟨e0, he0, hne⟩ | ⟨B2, own, p, rest, s, k, hr, hres, _, _, _⟩
    · -- the bay's own branches: `noModel` needs a bay with a panel but no model, which `_rebuild` excludes
      rw [he0] at he
      injection he with he
      subst he
      by_cases ha : B.a = none
      · have : (bayCalcKA B q).res = .error .aMissing := by unfold bayCalcKA; simp only [ha]
        rw [this] at he0; cases he0
      by_cases hb : B.b = none
      · obtain ⟨av, ha'⟩ := Option.ne_none_iff_exists'.mp ha
        have : (bayCalcKA B q).res = .error .bMissing := by unfold bayCalcKA; simp only [ha', hb]
        rw [this] at he0; cases he0
      obtain ⟨av, ha'⟩ := Option.ne_none_iff_exists'.mp ha
      obtain ⟨bv, hb'⟩ := Option.ne_none_iff_exists'.mp hb
      cases hp : (rebuildPanels B.panels B.model 0).2.2 with
      | some e =>
        have : (bayCalcKA B q).res = .error e := by unfold bayCalcKA; simp only [ha', hb', hp]
        rw [this] at he0
        injection he0 with he0
        obtain ⟨d, _, hor⟩ := rebuildPanels_err B.panels B.model 0 e hp
        rcases hor with ⟨e', h1, _⟩ | h1 <;> rw [h1] at he0 <;> cases he0
      | none =>
        cases hs : B.stiffRebuildErr with
        | some x =>
          have hx' : (rebuiltBay B).stiffRebuildErr = some x := hs
          have : (bayCalcKA B q).res = .error (.stiffRebuild x) := by
            unfold bayCalcKA afterRebuild; simp only [ha', hb', hp, hx']
          rw [this] at he0; cases he0
        | none =>
          rw [bayCalcKA_after q ha hb hp hs] at he0
          rcases hf : ownFormulas (rebuiltBay B) q with ⟨B2, e | own⟩
          · rw [hf] at he0
            simp only at he0
            injection he0 with he0
            subst he0
            unfold ownFormulas at hf
            revert hf
            (repeat' split) <;> intro hf <;> simp at hf
          · rw [hf] at he0
            simp only at he0
            obtain ⟨h2, _, _⟩ := ownFormulas_ok hf
            unfold delegate at he0
            cases hpl : B2.panels with
            | nil => simp [hpl] at he0
            | cons p rest =>
              simp only [hpl] at he0
              cases hsz : B2.sizeAttr with
              | none => simp [hsz] at he0
              | some s =>
                simp only [hsz] at he0
                have hpan : (rebuildPanels B.panels B.model 0).1 = p :: rest := by
                  rw [← hpl, h2]; exact (machPatchedBay_fields (rebuiltBay B)).2.2.2.2.2.2.2.2.2.2.2.2.2.2.1.symm
                have hne : B.panels ≠ [] := by
                  intro hc; rw [hc] at hpan; simp [rebuildPanels] at hpan
                obtain ⟨k', hk1, _, _⟩ := rebuildPanels_ok_model B.panels B.model 0 hne hp
                have hm2 : B2.model = .kind k' := by
                  rw [h2, (machPatchedBay_fields (rebuiltBay B)).2.2.2.2.2.1]; exact hk1
                simp only [hm2, ModelAttr.kind?] at he0
                split at he0 <;> simp at he0
    · rw [hres] at he
      cases hc : (calcKA (skinOf B2 s p) (delegationArgs (baySize k B2)) q).res <;> rw [hc] at he <;> simp [Except.mapError] at he

/-- non-vacuity of the error branches on the witness bay: `Mach = None` gives the bay's `TypeError` with nothing written on the skin; a
bay on which `get_size()` was never called gives `AttributeError` after seven attributes were written -/
example : (bayCalcKA { exBay with mach := none } (3 / 4)).res = .error .machNoneCompare ∧
    (bayCalcKA { exBay with mach := none } (3 / 4)).writes = [] ∧
    (bayCalcKA { exBay with sizeAttr := none } (3 / 4)).res = .error .noSizeAttr ∧
    ((bayCalcKA { exBay with sizeAttr := none } (3 / 4)).writes.map fun w => match w with
      | .flow _ => "flow" | .beta _ => "beta" | .gamma _ => "gamma" | .aeromu _ => "aeromu" | .mach _ => "Mach" | .rhoAir _ => "rho_air"
      | .speedSound _ => "speed_sound" | .size _ => "size" | .V _ => "V" | .r _ => "r")
      = ["flow", "beta", "gamma", "aeromu", "Mach", "rho_air", "speed_sound"] := by
  refine ⟨?_, ?_, ?_, ?_⟩ <;>
  · simp [bayCalcKA, exBay, rebuildPanels, rebuild, exPanel, afterRebuild, rebuiltBay, ownFormulas, Piston.fromMach, Piston.effMach,
      delegate, autoModel, writesFirst]
    try norm_num

/-- **the aerodynamic matrix of the flutter helper** `tstiff2d_1stiff_flutter` (`kA = 0; for p in skin: kA += p.calc_kA(size=size,
row0=p.row_start, col0=p.col_start, silent=True, finalize=False); kA = csr_matrix(make_skew_symmetric(kA))`): whenever it is built,
there is at least one skin panel, exactly ONE kernel call per skin panel in the order of the list, and the call of panel `p` — flat or
cylindrical model — is its un-finalised flow kernel `fkAx(beta, gamma, panel, size, row_start, col_start)` or `fkAy(beta, panel, size,
row_start, col_start)` with the coefficients `cf` of `Model/Piston.lean` at THAT PANEL's flow data (`r = None` read as `0.`); and,
whatever the kernel calls return (`res p` for call `p`), the helper's matrix is the SKEW completion of their sum: on and above the
diagonal the sum of the kernel outputs, below it MINUS the mirrored sum — so it is skew-symmetric off the diagonal AS A WHOLE,
including whatever the curvature coefficient `gamma` contributed to the `fkAx` outputs (see `flutter_assembly_kA_curvature_counterexample`). -/
theorem flutter_assembly_kA (size : Nat) (skin : List (SkinPanel F)) (q : F) (R : Result F)
    (h : (flutterKA size skin q).res = .ok R) :
    skin ≠ [] ∧ R.calls.length = skin.length ∧
    (∀ p (hp : p < skin.length) (hc : p < R.calls.length), ∃ k cf,
      skin[p].P.model = .kind k ∧ k ≠ .kpanel ∧ R.calls[p].num = false ∧
      Piston.coefs skin[p].P.beta skin[p].P.gamma skin[p].P.aeromu skin[p].P.mach skin[p].P.rhoAir skin[p].P.V skin[p].P.speedSound
        (zeroIfNone skin[p].P.r) q = .ok cf ∧
      (skin[p].P.flow = .x ∨ skin[p].P.flow = .y) ∧
      (skin[p].P.flow = .x → R.calls[p].name = .fkAx ∧
        R.calls[p].args = [.q cf.beta, .q cf.gamma, .panel, .nat size, .nat skin[p].rowStart, .nat skin[p].colStart]) ∧
      (skin[p].P.flow = .y → R.calls[p].name = .fkAy ∧
        R.calls[p].args = [.q cf.beta, .panel, .nat size, .nat skin[p].rowStart, .nat skin[p].colStart])) ∧
    (∀ (res : Nat → Coo F) (i j : Nat),
      toFun (R.comb.eval res) i j =
        if i ≤ j then ((List.range skin.length).map fun p => toFun (res p) i j).sum
        else -((List.range skin.length).map fun p => toFun (res p) j i).sum) ∧
    (∀ (res : Nat → Coo F) (i j : Nat), i ≠ j → toFun (R.comb.eval res) i j = -toFun (R.comb.eval res) j i) := by
  unfold flutterKA at h
  obtain ⟨gs, hlen, hcalls, hall, c, hadd, hcomb⟩ := flutterLoop_ok size q skin [] [] none 0 R h
  simp only [List.nil_append, List.length_nil] at hcalls hadd
  have heval : ∀ (res : Nat → Coo F) (i j : Nat),
      toFun (R.comb.eval res) i j =
        if i ≤ j then ((List.range skin.length).map fun p => toFun (res p) i j).sum
        else -((List.range skin.length).map fun p => toFun (res p) j i).sum := by
    intro res i j
    rw [hcomb]
    simp only [Comb.eval]
    rw [skewComplete_eq, toFun_makeSkewSymmetric, addCalls_eval res i j _ _ _ c hadd, addCalls_eval res j i _ _ _ c hadd]
    simp only [Nat.zero_add, zero_add]
  refine ⟨?_, by rw [hcalls, hlen], ?_, heval, ?_⟩
  · rintro rfl
    simp [addCalls] at hadd
  · intro p hp hc
    have hg : p < gs.length := by rw [hlen]; exact hp
    obtain ⟨Rp, hres, hRc, _⟩ := hall p hp hg
    obtain ⟨k, cf, hk, hcon, hcf, hfl, hcl, hy, hx⟩ := calcKA_ok hres
    have hplace : placeSpec k skin[p].P (skinArgs size skin[p]) = [.nat size, .nat skin[p].rowStart, .nat skin[p].colStart] := rfl
    have hgp : R.calls[p] = gs[p] := by simp only [hcalls]
    rw [hgp]
    have hsig : sig Rp = [(gs[p].name, gs[p].args)] := by unfold sig; rw [hRc]; rfl
    refine ⟨k, cf, hk, ?_, ?_, hcf, ?_, ?_, ?_⟩
    · rintro rfl; simp [ModelKind.conical] at hcon
    · exact (hcl gs[p] (by rw [hRc]; simp)).1
    · cases hf : skin[p].P.flow <;> simp_all
    · intro hf
      obtain ⟨h1, _⟩ := (hx hf).2 (by simp [skinArgs])
      rw [hsig, hplace] at h1
      simp only [List.cons.injEq, Prod.mk.injEq, and_true] at h1
      exact ⟨h1.1, h1.2⟩
    · intro hf
      obtain ⟨h1, _⟩ := hy hf
      rw [hsig, hplace] at h1
      simp only [List.cons.injEq, Prod.mk.injEq, and_true] at h1
      exact ⟨h1.1, h1.2⟩
  · intro res i j hij
    rw [heval, heval]
    by_cases h1 : i ≤ j
    · have h2 : ¬ j ≤ i := by omega
      simp [h1, h2]
    · have h2 : j ≤ i := by omega
      simp [h1, h2]

/-- **the blocks of different skin panels do not overlap**: let the skin panels be the first panels of an assembly whose panels have the
sizes `sizes` (for `PanelAssembly.__init__`: `3·m·n` each, `row_start = col_start =` the running sum `startOf sizes p`,
`Model/Assembly.init`, C13 `ranges_tile`), and let the kernel call of skin panel `p` write only inside that panel's own rows and columns
`[startOf sizes p, startOf sizes p + sizes[p])` (the regenerated loop nests do: `Spec/BayAeroKernels.loopNest_support`).  Then an entry
of the helper's matrix whose row lies in the range of skin panel `p` and whose column in the range of skin panel `p'` is zero for
`p ≠ p'`, and for `p = p'` it is the skew completion of THAT panel's kernel output alone. -/
theorem flutter_assembly_kA_blocks (size : Nat) (skin : List (SkinPanel F)) (q : F) (R : Result F)
    (h : (flutterKA size skin q).res = .ok R) (sizes : List Nat) (hn : skin.length ≤ sizes.length) (res : Nat → Coo F)
    (hsup : ∀ p (hp : p < skin.length), ∀ e ∈ res p,
      (startOf sizes p ≤ e.1 ∧ e.1 < startOf sizes p + sizes[p]) ∧ (startOf sizes p ≤ e.2.1 ∧ e.2.1 < startOf sizes p + sizes[p]))
    (p p' : Nat) (hp : p < skin.length) (hp' : p' < skin.length) (i j : Nat)
    (hi : startOf sizes p ≤ i ∧ i < startOf sizes p + sizes[p]) (hj : startOf sizes p' ≤ j ∧ j < startOf sizes p' + sizes[p']) :
    toFun (R.comb.eval res) i j =
      if p = p' then (if i ≤ j then toFun (res p) i j else -toFun (res p) j i) else 0 := by
  obtain ⟨_, _, _, heval, _⟩ := flutter_assembly_kA size skin q R h
  have key : ∀ x y, (startOf sizes p ≤ x ∧ x < startOf sizes p + sizes[p]) → (startOf sizes p' ≤ y ∧ y < startOf sizes p' + sizes[p']) →
      (((List.range skin.length).map fun t => toFun (res t) x y).sum = if p = p' then toFun (res p) x y else 0) ∧
      (((List.range skin.length).map fun t => toFun (res t) y x).sum = if p = p' then toFun (res p) y x else 0) := by
    intro x y hx hy
    have zero : ∀ t (ht : t < skin.length), (t ≠ p ∨ t ≠ p') → toFun (res t) x y = 0 ∧ toFun (res t) y x = 0 := by
      intro t ht hne
      have hout : ¬ (startOf sizes t ≤ x ∧ x < startOf sizes t + sizes[t]) ∨ ¬ (startOf sizes t ≤ y ∧ y < startOf sizes t + sizes[t]) := by
        rcases hne with hne | hne
        · left; intro hc; exact hne (range_unique sizes t p x (by omega) (by omega) hc hx)
        · right; intro hc; exact hne (range_unique sizes t p' y (by omega) (by omega) hc hy)
      exact ⟨toFun_eq_zero_outside (hsup t ht) x y hout, toFun_eq_zero_outside (hsup t ht) y x hout.symm⟩
    by_cases hpp : p = p'
    · subst hpp
      simp only [if_true]
      constructor
      · exact Compmech.PanelLoop.sum_map_single _ List.nodup_range p (List.mem_range.mpr hp) _
          (fun t ht hne => (zero t (List.mem_range.mp ht) (Or.inl hne)).1)
      · exact Compmech.PanelLoop.sum_map_single _ List.nodup_range p (List.mem_range.mpr hp) _
          (fun t ht hne => (zero t (List.mem_range.mp ht) (Or.inl hne)).2)
    · simp only [hpp, if_false]
      constructor
      · apply List.sum_eq_zero
        intro v hv
        obtain ⟨t, ht, rfl⟩ := List.mem_map.mp hv
        have : t ≠ p ∨ t ≠ p' := by by_cases h1 : t = p; right; rw [h1]; exact hpp; left; exact h1
        exact (zero t (List.mem_range.mp ht) this).1
      · apply List.sum_eq_zero
        intro v hv
        obtain ⟨t, ht, rfl⟩ := List.mem_map.mp hv
        have : t ≠ p ∨ t ≠ p' := by by_cases h1 : t = p; right; rw [h1]; exact hpp; left; exact h1
        exact (zero t (List.mem_range.mp ht) this).2
  rw [heval]
  obtain ⟨k1, k2⟩ := key i j hi hj
  rw [k1, k2]
  by_cases hpp : p = p' <;> by_cases hij : i ≤ j <;> simp [hpp, hij]

/-- **observation (the helper returns eigenvalues only; not a listed finding): for `r ≠ None` the helper skews the SYMMETRIC curvature
term.**  On the concrete instance `exSkin` (one cylindrical skin panel, Mach route, `gamma = 32/3`) with the kernel `exKern`: the helper
makes the single call `fkAx(48, 32/3, panel, 18, 0, 0)` and its matrix has `−(48 + 32/3)` at `(1, 0)`, whereas `Panel.calc_kA()` of the
SAME panel with the SAME kernel (`finalize=True`: flow term skew, curvature term symmetric — what `kAx_matrix_cpanel` proves to be the
piston-theory form) has `−48 + 32/3` there: the two differ by `2·gamma·(curvature integral)`. -/
theorem flutter_assembly_kA_curvature_counterexample :
    ∃ R R', (flutterKA 18 [exSkin] (3 / 4)).res = .ok R ∧
      sig R = [(.fkAx, [.q 48, .q (32 / 3), .panel, .nat 18, .nat 0, .nat 0])] ∧ R.comb = .skew (.call 0) ∧
      (calcKA exSkin.P { size := some 18, row0 := some 0, col0 := some 0, finalize := true } (3 / 4)).res = .ok R' ∧
      toFun (R.eval exKern) 0 1 = 48 + 32 / 3 ∧ toFun (R'.eval exKern) 0 1 = 48 + 32 / 3 ∧
      toFun (R.eval exKern) 1 0 = -(48 + 32 / 3) ∧ toFun (R'.eval exKern) 1 0 = -48 + 32 / 3 ∧
      toFun (R.eval exKern) 1 0 ≠ toFun (R'.eval exKern) 1 0 := by
  have e1 : (flutterKA 18 [exSkin] (3 / 4)).res =
      .ok { calls := [mkCall { exSkin.P with r := some 3 } false .fkAx [.q 48, .q (32 / 3), .panel, .nat 18, .nat 0, .nat 0]],
            comb := .skew (.call 0), store := .kA } := by
    simp [flutterKA, flutterLoop, exSkin, exPanel, calcKA, ModelKind.conical, resolveSize, defaultR, Piston.coefs, Piston.fromMach,
      Piston.effMach, machPatched, kaDispatch, skinArgs, mkCall, placement]
    norm_num
    rfl
  have e2 : (calcKA exSkin.P { size := some 18, row0 := some 0, col0 := some 0, finalize := true } (3 / 4)).res =
      .ok { calls := [mkCall { exSkin.P with r := some 3 } false .fkAx [.q 48, .q 0, .panel, .nat 18, .nat 0, .nat 0],
                      mkCall { exSkin.P with r := some 3 } false .fkAx [.q 0, .q (32 / 3), .panel, .nat 18, .nat 0, .nat 0]],
            comb := .add (.skew (.call 0)) (.fin (.call 1)), store := .kA } := by
    simp [exSkin, exPanel, calcKA, ModelKind.conical, resolveSize, defaultR, Piston.coefs, Piston.fromMach,
      Piston.effMach, machPatched, kaDispatch, mkCall, placement]
    norm_num
  refine ⟨_, _, e1, rfl, rfl, e2, ?_, ?_, ?_, ?_, ?_⟩ <;>
    simp [Result.eval, Comb.eval, mkCall, exKern, skewComplete, finalize, makeSymmetric, toFun] <;> norm_num

/-- non-vacuity of `flutter_assembly_kA` and `flutter_assembly_kA_blocks`: two copies of the witness skin panel placed at `(0, 0)` and
`(18, 18)` in an assembly of 36 amplitudes: the helper's matrix is built with two kernel calls -/
example : ∃ R, (flutterKA 36 [exSkin, ⟨exSkin.P, 18, 18⟩] (3 / 4)).res = .ok R ∧ R.calls.length = 2 ∧
    [exSkin, ⟨exSkin.P, 18, 18⟩].length ≤ [18, 18].length ∧ startOf [18, 18] 1 = 18 := by
  have e1 : ∃ R, (flutterKA 36 [exSkin, ⟨exSkin.P, 18, 18⟩] (3 / 4)).res = .ok R := by
    simp [flutterKA, flutterLoop, exSkin, exPanel, calcKA, ModelKind.conical, resolveSize, defaultR, Piston.coefs, Piston.fromMach,
      Piston.effMach, machPatched, kaDispatch, skinArgs, mkCall, placement]
    norm_num
  obtain ⟨R, hR⟩ := e1
  exact ⟨R, hR, (flutter_assembly_kA 36 _ (3 / 4) R hR).2.1, by simp, by simp [startOf]⟩

end bay

end Compmech.Panel.C19
