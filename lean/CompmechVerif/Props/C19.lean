/-
C19 — piston-theory aerodynamic matrices represent the stated pressure law.
Kernel models regenerated from compmech/panel/models/*.pyx on every run; coefficient model
`Model/Piston.lean` tied to `Panel.calc_kA` by the correspondence of tools/props/C19.py.
-/
import CompmechVerif.Gen.Panel.Plate
import CompmechVerif.Gen.Panel.PlateW
import CompmechVerif.Gen.Panel.CPanel
import CompmechVerif.Spec.Piston
import CompmechVerif.Model.Piston
import CompmechVerif.Core.OpSpecTactics
import CompmechVerif.Spec.AeroMatrix
import Mathlib.Tactic.FinCases
import Mathlib.Data.Fintype.Basic
import Mathlib.Tactic.Linarith
import Mathlib.Algebra.Order.Field.Basic

set_option linter.unnecessarySeqFocus false

namespace Compmech.Panel.C19
open Compmech.Panel Compmech.Gen

section kernels
variable {K : Type} [Field K] [CharZero K]

/-- flow along x, flat plate: the entry is `−β ∬ w_A,x w_B` (no curvature term), on `w` only -/
theorem kAx_entry_plate (P : PCtx K) (ha : P.a ≠ 0) (hb : P.b ≠ 0) (ro co : Fin 3) :
    Plate.fkAx.entry ro co P = pistonFormByParts P .full .full (wDx P) 0 (fld3 ro) (fld3 co) := by
  fin_cases ro <;> fin_cases co <;> entry_eq_form [pistonFormByParts, wDx, wId]

theorem kAx_entry_plate_w (P : PCtx K) (ha : P.a ≠ 0) (hb : P.b ≠ 0) (ro co : Fin 1) :
    PlateW.fkAx.entry ro co P = pistonFormByParts P .full .full (wDx P) 0 (fld1 ro) (fld1 co) := by
  fin_cases ro <;> fin_cases co <;> entry_eq_form [pistonFormByParts, wDx, wId, fld1]

/-- flow along x, cylindrical panel: with the curvature term `γ` -/
theorem kAx_entry_cpanel (P : PCtx K) (ha : P.a ≠ 0) (hb : P.b ≠ 0) (ro co : Fin 3) :
    CPanel.fkAx.entry ro co P = pistonFormByParts P .full .full (wDx P) P.gamma (fld3 ro) (fld3 co) := by
  fin_cases ro <;> fin_cases co <;> entry_eq_form [pistonFormByParts, wDx, wId]

/-- flow along y (no curvature term in any model) -/
theorem kAy_entry_plate (P : PCtx K) (ha : P.a ≠ 0) (hb : P.b ≠ 0) (ro co : Fin 3) :
    Plate.fkAy.entry ro co P = pistonFormByParts P .full .full (wDy P) 0 (fld3 ro) (fld3 co) := by
  fin_cases ro <;> fin_cases co <;> entry_eq_form [pistonFormByParts, wDy, wId]

theorem kAy_entry_plate_w (P : PCtx K) (ha : P.a ≠ 0) (hb : P.b ≠ 0) (ro co : Fin 1) :
    PlateW.fkAy.entry ro co P = pistonFormByParts P .full .full (wDy P) 0 (fld1 ro) (fld1 co) := by
  fin_cases ro <;> fin_cases co <;> entry_eq_form [pistonFormByParts, wDy, wId, fld1]

theorem kAy_entry_cpanel (P : PCtx K) (ha : P.a ≠ 0) (hb : P.b ≠ 0) (ro co : Fin 3) :
    CPanel.fkAy.entry ro co P = pistonFormByParts P .full .full (wDy P) 0 (fld3 ro) (fld3 co) := by
  fin_cases ro <;> fin_cases co <;> entry_eq_form [pistonFormByParts, wDy, wId]

/-- damping matrix entries: `−aeromu ∬ w_A w_B`, on `w` only -/
theorem cA_entry_plate (P : PCtx K) (ro co : Fin 3) :
    Plate.fcA.entry ro co P = dampingForm P .full .full (fld3 ro) (fld3 co) := by
  fin_cases ro <;> fin_cases co <;> entry_eq_form [dampingForm, wId]

theorem cA_entry_plate_w (P : PCtx K) (ro co : Fin 1) :
    PlateW.fcA.entry ro co P = dampingForm P .full .full (fld1 ro) (fld1 co) := by
  fin_cases ro <;> fin_cases co <;> entry_eq_form [dampingForm, wId, fld1]

theorem cA_entry_cpanel (P : PCtx K) (ro co : Fin 3) :
    CPanel.fcA.entry ro co P = dampingForm P .full .full (fld3 ro) (fld3 co) := by
  fin_cases ro <;> fin_cases co <;> entry_eq_form [dampingForm, wId]

/-- Integration by parts: when the boundary term of `∫ (φ_A φ_B)'` vanishes in the flow direction
(`w` restrained on the upstream and downstream edges; for Bardell's functions this is the case exactly
when the two translation flags of `w` on those edges are 0 — C10), what the kernels accumulate IS the
bilinear form of the stated pressure law. -/
theorem byParts_eq_pistonForm_x (P : PCtx K) (dx dy : Dom) (γ : K)
    (hparts : P.J .x dx 1 .w .A 0 .w .B + P.J .x dx 0 .w .A 1 .w .B = 0) :
    pistonFormByParts P dx dy (wDx P) γ .w .w = pistonForm P dx dy (wDx P) γ .w .w := by
  have h : P.J .x dx 1 .w .A 0 .w .B = -P.J .x dx 0 .w .A 1 .w .B := by
    rw [← add_eq_zero_iff_eq_neg]; exact hparts
  simp only [pistonFormByParts, pistonForm, pairInt, wDx, wId, List.map, List.sum_cons, List.sum_nil, h]
  ring

theorem byParts_eq_pistonForm_y (P : PCtx K) (dx dy : Dom) (γ : K)
    (hparts : P.J .y dy 1 .w .A 0 .w .B + P.J .y dy 0 .w .A 1 .w .B = 0) :
    pistonFormByParts P dx dy (wDy P) γ .w .w = pistonForm P dx dy (wDy P) γ .w .w := by
  have h : P.J .y dy 1 .w .A 0 .w .B = -P.J .y dy 0 .w .A 1 .w .B := by
    rw [← add_eq_zero_iff_eq_neg]; exact hparts
  simp only [pistonFormByParts, pistonForm, pairInt, wDy, wId, List.map, List.sum_cons, List.sum_nil, h]
  ring

/-- the forms are linear in their coefficients -/
theorem pistonForm_linear (P : PCtx K) (dx dy : Dom) (flow : Fld → List (OpTerm K)) (γ s : K) (α β : Fld) :
    pistonForm { P with beta := s * P.beta } dx dy flow (s * γ) α β = s * pistonForm P dx dy flow γ α β := by
  simp only [pistonForm, pairInt]; ring


/-! ### the whole matrix `Panel.calc_kA(finalize=True)` delivers (loop nest + skew / symmetric completion) -/

open Compmech.Asm in
/-- the regenerated aerodynamic kernels have exactly the modelled loop nest -/
theorem loop_nest_standard :
    Plate.fkAx.schema = LoopSchema.std 3 none ∧ Plate.fkAy.schema = LoopSchema.std 3 none ∧
    Plate.fcA.schema = LoopSchema.std 3 none ∧ PlateW.fkAx.schema = LoopSchema.std 1 none ∧
    PlateW.fkAy.schema = LoopSchema.std 1 none ∧ PlateW.fcA.schema = LoopSchema.std 1 none ∧
    CPanel.fkAx.schema = LoopSchema.std 3 none ∧ CPanel.fkAy.schema = LoopSchema.std 3 none ∧
    CPanel.fcA.schema = LoopSchema.std 3 none := by
  decide

open Compmech.Asm in
/-- the by-parts form of the flow term is antisymmetric, that of the curvature term symmetric, when the boundary term of the
integration by parts vanishes for every pair of `w` basis functions (w restrained on the flow edges) -/
theorem byParts_split_x (base : PCtx K) (I : Integrals K) (hI : I.Comm)
    (hparts : ∀ dom i k, I .x dom 1 .w i 0 .w k + I .x dom 0 .w i 1 .w k = 0) (α β : Fld) (i k j l : Nat) :
    pistonFormByParts (ctxAt { base with gamma := 0 } I i k j l) .full .full (wDx base) 0 α β =
      -pistonFormByParts (ctxAt { base with gamma := 0 } I k i l j) .full .full (wDx base) 0 β α ∧
    pistonFormByParts (ctxAt { base with beta := 0 } I i k j l) .full .full (wDx base) base.gamma α β =
      pistonFormByParts (ctxAt { base with beta := 0 } I k i l j) .full .full (wDx base) base.gamma β α := by
  have h1 := hparts .full i k
  have h2 := hI .x .full 1 .w k 0 .w i
  have h3 := hI .y .full 0 .w l 0 .w j
  have h4 := hI .x .full 0 .w k 0 .w i
  have e1 : I .x .full 1 .w i 0 .w k = -I .x .full 0 .w i 1 .w k := by
    rw [← add_eq_zero_iff_eq_neg]; exact h1
  cases α <;> cases β <;>
    simp [pistonFormByParts, pairInt, wDx, wId, ctxAt, pick, e1, h2, h3, h4] <;> ring

open Compmech.Asm in
/-- cylindrical panel, flow along x, `finalize=True`: for ANY series orders and placement, with `w` restrained on the
upstream and downstream edges, the matrix `Panel.calc_kA` delivers holds at EVERY pair of positions the bilinear form of the
stated pressure law `β ∬ w_A ∂w_B/∂x − γ ∬ w_A w_B` -/
theorem kAx_matrix_cpanel (base : PCtx K) (I : Integrals K) (hI : I.Comm) (ha : base.a ≠ 0) (hb : base.b ≠ 0)
    (hparts : ∀ dom i k, I .x dom 1 .w i 0 .w k + I .x dom 0 .w i 1 .w k = 0)
    (m n row0 : Nat) {i k j l : Nat} (hi : i < m) (hk : k < m) (hj : j < n) (hl : l < n) (α β : Fin 3) :
    toFun (aeroCoo 3 m n row0 (fun ro co (P : PCtx K) => CPanel.fkAx.entry ro co { P with gamma := 0 })
        (fun ro co (P : PCtx K) => CPanel.fkAx.entry ro co { P with beta := 0 }) base I)
        (row0 + 3 * (j * m + i) + α.val) (row0 + 3 * (l * m + k) + β.val)
      = pistonForm (ctxAt base I i k j l) .full .full (wDx base) base.gamma (fld3 α) (fld3 β) := by
  rw [aeroCoo_entry 3 m n row0 _ _ base I ?_ ?_ hi hk hj hl]
  · simp only [ctxAt_gamma0, ctxAt_beta0]
    rw [kAx_entry_cpanel (ctxAt { base with gamma := 0 } I i k j l) ha hb,
      kAx_entry_cpanel (ctxAt { base with beta := 0 } I i k j l) ha hb]
    have h1 := hparts .full i k
    have e1 : I .x .full 1 .w i 0 .w k = -I .x .full 0 .w i 1 .w k := by
      rw [← add_eq_zero_iff_eq_neg]; exact h1
    fin_cases α <;> fin_cases β <;>
      simp [pistonFormByParts, pistonForm, pairInt, wDx, wId, ctxAt, pick, fld3, e1] <;> ring
  · intro ro co i k j l
    simp only [ctxAt_gamma0]
    rw [kAx_entry_cpanel (ctxAt { base with gamma := 0 } I i k j l) ha hb,
      kAx_entry_cpanel (ctxAt { base with gamma := 0 } I k i l j) ha hb]
    exact (byParts_split_x base I hI hparts (fld3 ro) (fld3 co) i k j l).1
  · intro ro co i k j l
    simp only [ctxAt_beta0]
    rw [kAx_entry_cpanel (ctxAt { base with beta := 0 } I i k j l) ha hb,
      kAx_entry_cpanel (ctxAt { base with beta := 0 } I k i l j) ha hb]
    exact (byParts_split_x base I hI hparts (fld3 ro) (fld3 co) i k j l).2

end kernels

section coefficients
open Compmech.Piston
variable {K : Type} [Field K] [LinearOrder K] [IsStrictOrderedRing K]

/-- coefficients from Mach number, density, speed and sound speed follow linear piston theory:
with `q² = M² − 1`, `q ≠ 0`: `β = ρV²/q`, `γ = β/(2 r q)` (0 for flat panels) and, when `V = M a∞`,
`aeromu = ρ V (M² − 2)/q³`. -/
theorem coefficients_from_mach (mach rho v ainf r q : K) (h1 : 1 < mach) (hq : q ^ 2 = mach ^ 2 - 1)
    (hq0 : q ≠ 0) (hv : v = mach * ainf) (ha : ainf ≠ 0) :
    ∃ c, fromMach (some mach) rho v ainf r q = .ok c ∧ c.beta = rho * v ^ 2 / q ∧
      c.gamma = (if r ≠ 0 then c.beta / (2 * r * q) else 0) ∧ c.aeromu = rho * v * (mach ^ 2 - 2) / q ^ 3 := by
  have hm : ¬ mach < 1 := not_lt.mpr (le_of_lt h1)
  have hm1 : mach ≠ 1 := ne_of_gt h1
  have hm0 : mach ≠ 0 := by intro h; rw [h] at h1; exact absurd h1 (by norm_num)
  refine ⟨_, by simp only [fromMach, hm, if_false, effMach, hm1]; rfl, rfl, ?_, ?_⟩
  · by_cases hr : r ≠ 0 <;> simp [hr]
  · simp only
    rw [← hq, hv]
    field_simp

/-- user-supplied coefficients are used unchanged (missing `gamma`, `aeromu` default to 0) -/
theorem coefficients_given (b : K) (g a mach : Option K) (rho v ainf r q : K) :
    coefs (some b) g a mach rho v ainf r q = .ok ⟨b, g.getD 0, a.getD 0⟩ := rfl

end coefficients

end Compmech.Panel.C19
