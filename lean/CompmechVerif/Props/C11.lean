/-
C11 — recovered displacement / strain fields match the Ritz series and the Donnell kinematics.
Kernel models regenerated from compmech/panel/models/clt_bardell_field*.pyx on every run
(per point, per degree of freedom); the Python-level chunking is the hand model Model/Chunking.lean.

`Panel.stress` (plain Python, no C-level routine: the field kernels have none, so nothing can be regenerated for it) is the small HAND
model `panelStress` of Model/Chunking.lean; its tie to the running code is the numerical clause "stress = F * strain of the same
option" of tools/props/C11.py (both `NLterms` values on every generated case), not a recorded-trace correspondence.
Section `glue` (last): the PYTHON GLUE of `Panel.uvw / strain / stress` and `PanelAssembly.uvw / strain / stress` — how `xs, ys` or
`gridx, gridy` become the point arrays of the compiled call, the reshape of its results, the `group` filter and the slice
`c[col_start:col_end]` of an assembly, `PanelAssembly.__init__`'s running sums — is the hand model Model/FieldGlue.lean (compiled
kernels = parameters, acting at one point; the def-level wrappers = `Chunking.chunkedMap`), tied by the recorded-call correspondence
`field_glue_correspondence` of tools/props/C11.py through Drv/C11.lean.  Vocabulary (Model/FieldGlueLemmas.lean): `pick l idx` (entries of
`l` at the positions `idx`), `xsOf pts / ysOf pts` (the 1-d arrays of a point list), `gridPts a b gx gy` (grid points in result order),
`sizesOf panels` (`3 m n` per panel).
-/
import CompmechVerif.Gen.Field.Clt
import CompmechVerif.Gen.Field.CltW
import CompmechVerif.Spec.Kinematics
import CompmechVerif.Model.ChunkingLemmas
import CompmechVerif.Spec.FieldStress
import CompmechVerif.Model.FieldGlueLemmas
import CompmechVerif.Core.OpSpecTactics
import Mathlib.Tactic.NormNum
import Mathlib.Algebra.Order.Field.Rat

set_option linter.unusedSectionVars false

namespace Compmech.Panel.C11
open Compmech.Panel Compmech.Gen.Field

section kernels
variable {K : Type} [Field K] [CharZero K]

/-- displacements are the Ritz series: each degree of freedom adds amplitude × basis value -/
theorem uvw_eq_series (X : FCtx K) :
    Clt.cfuvw.u X = X.c .u * (X.E .x 0 .u * X.E .y 0 .u) ∧
    Clt.cfuvw.v X = X.c .v * (X.E .x 0 .v * X.E .y 0 .v) ∧
    Clt.cfuvw.w X = X.c .w * (X.E .x 0 .w * X.E .y 0 .w) ∧
    CltW.cfw.w X = X.c .w * (X.E .x 0 .w * X.E .y 0 .w) := by
  refine ⟨?_, ?_, ?_, ?_⟩ <;> simp only [panel_entry] <;> ring

/-- the slope kernels return `w,x`, `w,y` of the same series (the wrappers report `φx = −w,x`, `φy = −w,y`,
see `Chunking.fuvw_eq_map`) -/
theorem slopes_eq_series (X : FCtx K) (ha : X.a ≠ 0) (hb : X.b ≠ 0) :
    Clt.cfwx.wx X = slopeX X ∧ Clt.cfwy.wy X = slopeY X ∧ CltW.cfwx.wx X = slopeX X ∧ CltW.cfwy.wy X = slopeY X := by
  refine ⟨?_, ?_, ?_, ?_⟩ <;> simp only [panel_entry, slopeX, slopeY] <;> field_simp

/-- the shape-function rows used for the load vectors are the derivative of the displacement series w.r.t.
the amplitude of the degree of freedom (same field model in C07 and C11) -/
theorem shape_rows_are_series_derivative (X : FCtx K) :
    Clt.cfuvw.u X = X.c .u * Clt.cfg.g00 X ∧ Clt.cfuvw.v X = X.c .v * Clt.cfg.g11 X ∧
    Clt.cfuvw.w X = X.c .w * Clt.cfg.g22 X ∧ CltW.cfw.w X = X.c .w * CltW.cfg.g00 X := by
  refine ⟨?_, ?_, ?_, ?_⟩ <;> simp only [panel_entry] <;> ring

/-- linear strains and curvatures (`NLterms = 0`): each degree of freedom contributes exactly what the Donnell
operator tables of C02 prescribe — flat branch (`r == 0`) with the plate table, cylindrical branch with the
cylindrical table -/
theorem strain_linear_eq_donnell (X : FCtx K) (ha : X.a ≠ 0) (hb : X.b ≠ 0) (hr : X.r ≠ 0) (h0 : X.NL = 0) :
    Clt.cfstrain.exx X = dofOp X (plateOps X.toP) 0 ∧
    Clt.cfstrain.eyy_flat X = dofOp X (plateOps X.toP) 1 ∧
    Clt.cfstrain.eyy_cyl X = dofOp X (cpanelOps X.toP) 1 ∧
    Clt.cfstrain.gxy X = dofOp X (plateOps X.toP) 2 ∧
    Clt.cfstrain.kxx X = dofOp X (plateOps X.toP) 3 ∧
    Clt.cfstrain.kyy X = dofOp X (plateOps X.toP) 4 ∧
    Clt.cfstrain.kxy X = dofOp X (plateOps X.toP) 5 := by
  refine ⟨?_, ?_, ?_, ?_, ?_, ?_, ?_⟩ <;>
    simp only [panel_entry, dofOp, plateOps, cpanelOps, FCtx.toP, h0, List.map, List.sum_cons, List.sum_nil] <;>
    field_simp <;> ring

/-- What the kernels add when `NLterms = 1` (the full statement — Donnell's `½ w,x²`, `½ w,y²`, `w,x w,y` of
the WHOLE series — is false, see `strain_nl_counterexample`): per degree of freedom the quadratic terms of
that degree of freedom's own slope. -/
theorem strain_nl_partial (X : FCtx K) (ha : X.a ≠ 0) (hb : X.b ≠ 0) (hr : X.r ≠ 0) :
    Clt.cfstrain.exx X = dofOp X (plateOps X.toP) 0 + X.NL * (1 / 2 * slopeX X ^ 2) ∧
    Clt.cfstrain.eyy_flat X = dofOp X (plateOps X.toP) 1 + X.NL * (1 / 2 * slopeY X ^ 2) ∧
    Clt.cfstrain.eyy_cyl X = dofOp X (cpanelOps X.toP) 1 + X.NL * (1 / 2 * slopeY X ^ 2) ∧
    Clt.cfstrain.gxy X = dofOp X (plateOps X.toP) 2 + X.NL * (slopeX X * slopeY X) := by
  refine ⟨?_, ?_, ?_, ?_⟩ <;>
    simp only [panel_entry, dofOp, plateOps, cpanelOps, FCtx.toP, slopeX, slopeY, List.map, List.sum_cons, List.sum_nil] <;>
    field_simp <;> ring

end kernels

/-- Counter-example to "the reported strains equal the Donnell relations with the quadratic slope terms":
two degrees of freedom whose slopes at a point are both 1 give `εxx(NL) − εxx(lin) = 1`, whereas
`½ w,x² = ½ (1 + 1)² = 2`. -/
theorem strain_nl_counterexample :
    let X₁ : FCtx ℚ := ⟨2, 2, 1, 1, fun _ => 1, fun _ _ _ => 1⟩
    let X₂ : FCtx ℚ := X₁
    slopeX X₁ = 1 ∧ slopeX X₂ = 1 ∧
    (Clt.cfstrain.exx X₁ + Clt.cfstrain.exx X₂) - (dofOp X₁ (plateOps X₁.toP) 0 + dofOp X₂ (plateOps X₂.toP) 0) = 1 ∧
    (1 / 2 : ℚ) * (slopeX X₁ + slopeX X₂) ^ 2 = 2 := by
  simp only [panel_entry, dofOp, plateOps, FCtx.toP, slopeX, List.map, List.sum_cons, List.sum_nil]
  norm_num

section chunking
open Compmech.Chunking

/-- results do not depend on the number of worker threads, on padding, or on how many points are requested:
for every point list and every `num_cores ≥ 1` the pad / reshape / per-chunk map / ravel / trim pipeline of
`fuvw`, `fstrain` returns exactly the point-wise map -/
theorem chunking_invariant {α β : Type} (f : α → β) (z : α) (xs : List α) (cores : Nat) (h : 1 ≤ cores) :
    chunkedMap f z xs cores = xs.map f :=
  chunkedMap_eq_map f z xs cores h

end chunking

section stress
open Compmech.Chunking
open scoped BigOperators

/-- `Panel.stress` returns, point by point, the LAMINATE MATRIX TIMES THE STRAINS OF THE SAME OPTION: for every laminate matrix (passed as
`F` or taken from `self.F`), every field kernel, every point list, every `num_cores ≥ 1` and both values of `NLterms`,
(1) the result is the image under `applyF F` of exactly what `Panel.strain(…, NLterms=NLterms)` returns — `NLterms` is FORWARDED —,
(2) these strains are the kernel's strains for the flag `int(NLterms)` at the requested points, in order,
(3) `applyF F e` is the matrix–vector product: component `r` of `(Nxx, Nyy, Nxy, Mxx, Myy, Mxy)` is `Σ_q F[r, q] · e_q` with
`e = (exx, eyy, gxy, kxx, kyy, kxy)`. -/
theorem stress_eq_F_strain {α K : Type} [Field K] (selfF Farg : Option (Fin 6 → Fin 6 → K))
    (F : Fin 6 → Fin 6 → K) (hF : Farg = some F ∨ (Farg = none ∧ selfF = some F))
    (kernel : Nat → α → Strain6 K) (z : α) (cores : Nat) (h : 1 ≤ cores) (NLterms : Bool) (pts : List α) :
    panelStress selfF Farg kernel z cores NLterms pts =
        some ((panelStrain kernel z cores NLterms pts).map (applyF F)) ∧
    panelStrain kernel z cores NLterms pts = pts.map (kernel (if NLterms then 1 else 0)) ∧
    ∀ (e : Strain6 K) (r : Fin 6), (applyF F e).vec r = ∑ q : Fin 6, F r q * e.vec q :=
  ⟨panelStress_some selfF Farg F hF kernel z cores NLterms pts, panelStrain_eq_map kernel z cores h NLterms pts,
    fun e r => applyF_vec F e r⟩

/-- … in particular `stress(…, NLterms=False)` is computed from the LINEAR strains only: whatever the kernel does for the flag 1 has no
influence (the defect `C11-stress-ignores-NLterms`, repaired in the source, is excluded by the model), and `stress(…, NLterms=True)`
from the strains of the flag 1. -/
theorem stress_nlterms_forwarded {α K : Type} [Field K] (selfF Farg : Option (Fin 6 → Fin 6 → K))
    (F : Fin 6 → Fin 6 → K) (hF : Farg = some F ∨ (Farg = none ∧ selfF = some F))
    (kernel : Nat → α → Strain6 K) (z : α) (cores : Nat) (h : 1 ≤ cores) (pts : List α) :
    panelStress selfF Farg kernel z cores false pts = some (pts.map fun x => applyF F (kernel 0 x)) ∧
    panelStress selfF Farg kernel z cores true pts = some (pts.map fun x => applyF F (kernel 1 x)) := by
  constructor
  · rw [panelStress_some selfF Farg F hF, panelStrain_eq_map kernel z cores h, List.map_map]; rfl
  · rw [panelStress_some selfF Farg F hF, panelStrain_eq_map kernel z cores h, List.map_map]; rfl

/-- without a laminate matrix (`F=None` and `self.F is None`) `Panel.stress` raises (`none`) instead of returning numbers -/
theorem stress_requires_laminate {α K : Type} [Field K] (kernel : Nat → α → Strain6 K) (z : α) (cores : Nat)
    (NLterms : Bool) (pts : List α) :
    panelStress (none : Option (Fin 6 → Fin 6 → K)) none kernel z cores NLterms pts = none :=
  panelStress_none kernel z cores NLterms pts

/-- ON THE REGENERATED STRAIN TERMS: with the kernel `cfstrain` assembled from the regenerated increments of `Gen/Field/Clt.lean`
(`cltKernel`: sum over the degrees of freedom, `flagcyl` branch), `Panel.stress(…, NLterms=False)` returns at every requested point
`N_r = Σ_q F[r, q] · ε_q` with `ε` the LINEAR Donnell strains / curvatures of the whole series there (operator tables of C02; flat model:
no condition on `r`). -/
theorem stress_linear_eq_F_donnell {α K : Type} [Field K] [CharZero K] (selfF Farg : Option (Fin 6 → Fin 6 → K))
    (F : Fin 6 → Fin 6 → K) (hF : Farg = some F ∨ (Farg = none ∧ selfF = some F))
    (cyl : Bool) (dofsAt : α → List (FCtx K)) (z : α) (cores : Nat) (h : 1 ≤ cores) (pts : List α)
    (hpts : ∀ x ∈ pts, ∀ X ∈ dofsAt x, X.a ≠ 0 ∧ X.b ≠ 0 ∧ (cyl = true → X.r ≠ 0)) :
    ∃ res : List (Res6 K), panelStress selfF Farg (cltKernel cyl dofsAt) z cores false pts = some res ∧
      res.length = pts.length ∧
      ∀ (p : Nat) (hp : p < pts.length) (hr : p < res.length) (r : Fin 6),
        (res[p]).vec r = ∑ q : Fin 6, F r q * donnellStrain cyl (dofsAt pts[p]) q := by
  refine ⟨_, (stress_nlterms_forwarded selfF Farg F hF (cltKernel cyl dofsAt) z cores h pts).1, by simp, ?_⟩
  intro p hp hr r
  rw [List.getElem_map, applyF_vec]
  refine Finset.sum_congr rfl fun q _ => ?_
  rw [cltKernel_linear cyl dofsAt pts[p] (hpts _ (List.getElem_mem hp)) q]

/-- non-vacuity: two points, three worker threads, a full laminate matrix `F[r, q] = r + 2q + 1`, a kernel that returns different
strains for the two flags -/
example :
    panelStress (K := ℚ) none (some fun r q => (r.val : ℚ) + 2 * q.val + 1)
      (fun flag (x : ℚ) => ⟨x, 2, 3, flag, 5, 6⟩) 0 3 false [1, 10] =
      some [⟨133, 150, 167, 184, 201, 218⟩, ⟨142, 168, 194, 220, 246, 272⟩] ∧
    panelStress (K := ℚ) none (some fun r q => (r.val : ℚ) + 2 * q.val + 1)
      (fun flag (x : ℚ) => ⟨x, 2, 3, flag, 5, 6⟩) 0 3 true [1, 10] =
      some [⟨140, 158, 176, 194, 212, 230⟩, ⟨149, 176, 203, 230, 257, 284⟩] := by
  constructor
  · rw [(stress_nlterms_forwarded none _ _ (Or.inl rfl) _ 0 3 (by norm_num) _).1]
    norm_num [applyF, stressRow]
  · rw [(stress_nlterms_forwarded none _ _ (Or.inl rfl) _ 0 3 (by norm_num) _).2]
    norm_num [applyF, stressRow]

/-- non-vacuity of `stress_linear_eq_F_donnell`: a cylindrical panel (`a = b = 2`, `r = 1`), one degree of freedom whose amplitudes
depend on the point, `NL` stored as 1 in the contexts (overwritten by the forwarded flag 0), two worker threads -/
example : ∃ res : List (Res6 ℚ),
    panelStress none (some fun r q => (r.val : ℚ) + 2 * q.val + 1)
      (cltKernel true fun x : ℚ => [⟨2, 2, 1, 1, fun _ => x, fun _ _ _ => 1⟩]) 0 2 false [1, 3] = some res ∧
    res.length = 2 ∧
    ∀ (p : Nat) (hp : p < 2) (hr : p < res.length) (r : Fin 6),
      (res[p]).vec r = ∑ q : Fin 6, ((r.val : ℚ) + 2 * q.val + 1) *
        donnellStrain true [⟨2, 2, 1, 1, fun _ => [1, 3][p], fun _ _ _ => 1⟩] q :=
  stress_linear_eq_F_donnell none _ _ (Or.inl rfl) true _ 0 2 (by norm_num) [1, 3]
    (by intro x _ X hX; simp only [List.mem_cons, List.not_mem_nil, or_false] at hX; subst hX; norm_num)

end stress

section glue
open Compmech.FieldGlue Compmech.Chunking

variable {K R G : Type} [Field K]

/-- `Panel.uvw / strain / stress` with point arrays `xs, ys` of equal shape (scalars, lists, arrays of any dimension; `gridx, gridy` are
then ignored): THE VALUE REPORTED AT THE `j`-TH REQUESTED POINT DEPENDS ONLY ON THAT POINT AND ON `c`.  For every kernel, every panel
whose `model` is a key of `modelDB.db`, every `out_num_cores ≥ 1`, every one-dimensional (or 0-d) `c`:
(1) `uvw` returns arrays of the shape of `xs` (`(1,)` for scalars) whose flat entry `j` is the compiled kernel of the model's field module
at `(xs.ravel()[j], ys.ravel()[j])` with the whole `c` — (2) spelled out per position —,
(3) exactly ONE compiled call is made: `fuvw(c, self, xs.ravel(), ys.ravel(), self.out_num_cores)`,
(4) `self.Xs, self.Ys` hold the point arrays and `self.u … self.phiy` the returned arrays,
(5) `strain` returns `x, y` and, per point, the strain kernel for the flag `int(NLterms)`,
(6) `stress` returns, per point, the laminate matrix (argument `F`, else `self.F`) applied to the strains of the SAME flag. -/
theorem field_pointwise (kern : Kernels K R) (P : Panel K R G) (k : PanelGlue.ModelKind) (hk : P.d.model = .kind k)
    (hcores : 1 ≤ P.d.outNumCores) (c : CArg K) (cv : List K) (hc : c.contig = some cv)
    (X Y : Arr K) (hs : X.atleast1d.shape = Y.atleast1d.shape) (gridx gridy : Int) :
    (P.uvw kern c (some X) (some Y) gridx gridy).res =
      .ok ⟨X.atleast1d.shape, (List.zip X.data Y.data).map (kern.uvw (fieldModuleOf k) P.d cv)⟩ ∧
    (∀ j x y, X.data[j]? = some x → Y.data[j]? = some y →
      ∃ r, (P.uvw kern c (some X) (some Y) gridx gridy).res = .ok r ∧
        r.flat? j = some (kern.uvw (fieldModuleOf k) P.d cv (x, y))) ∧
    (P.uvw kern c (some X) (some Y) gridx gridy).calls =
      [⟨false, fieldModuleOf k, P.d, cv, List.zip X.data Y.data, P.d.outNumCores, 0⟩] ∧
    (P.uvw kern c (some X) (some Y) gridx gridy).post.out =
      { Xs := some X.atleast1d, Ys := some Y.atleast1d,
        u := some ⟨X.atleast1d.shape, (List.zip X.data Y.data).map fun pt => (kern.uvw (fieldModuleOf k) P.d cv pt).u⟩,
        v := some ⟨X.atleast1d.shape, (List.zip X.data Y.data).map fun pt => (kern.uvw (fieldModuleOf k) P.d cv pt).v⟩,
        w := some ⟨X.atleast1d.shape, (List.zip X.data Y.data).map fun pt => (kern.uvw (fieldModuleOf k) P.d cv pt).w⟩,
        phix := some ⟨X.atleast1d.shape, (List.zip X.data Y.data).map fun pt => (kern.uvw (fieldModuleOf k) P.d cv pt).phix⟩,
        phiy := some ⟨X.atleast1d.shape, (List.zip X.data Y.data).map fun pt => (kern.uvw (fieldModuleOf k) P.d cv pt).phiy⟩ } ∧
    (∀ NLterms : Bool, fieldModuleOf k = .clt →
      (P.strain kern c (some X) (some Y) gridx gridy NLterms).res =
        .ok ⟨X.atleast1d, Y.atleast1d,
          ⟨X.atleast1d.shape, (List.zip X.data Y.data).map (kern.strain P.d cv (nlFlag NLterms))⟩⟩) ∧
    (∀ (NLterms : Bool) (Farg : Option (Fin 6 → Fin 6 → K)) (F : Fin 6 → Fin 6 → K), fieldModuleOf k = .clt →
      (Farg = some F ∨ (Farg = none ∧ P.d.F = some F)) →
      (P.stress kern c Farg (some X) (some Y) gridx gridy NLterms).res =
        .ok ⟨X.atleast1d, Y.atleast1d,
          ⟨X.atleast1d.shape, (List.zip X.data Y.data).map fun pt => applyF F (kern.strain P.d cv (nlFlag NLterms) pt)⟩⟩) := by
  have hf := defaultField_given P.d.a P.d.b X Y hs gridx gridy
  have hu := evalField_ok P c (some X) (some Y) gridx gridy (fun fm => some (kern.uvw fm)) false 0 _ hf k hk _ rfl cv hc hcores
  have hures : (P.uvw kern c (some X) (some Y) gridx gridy).res =
      .ok ⟨X.atleast1d.shape, (List.zip X.data Y.data).map (kern.uvw (fieldModuleOf k) P.d cv)⟩ := by
    rw [uvw_res, hu]; simp [Except.map, FieldPts.pts, atleast1d_data]
  have hstrain : ∀ NLterms : Bool, fieldModuleOf k = .clt →
      (P.strain kern c (some X) (some Y) gridx gridy NLterms).res =
        .ok ⟨X.atleast1d, Y.atleast1d,
          ⟨X.atleast1d.shape, (List.zip X.data Y.data).map (kern.strain P.d cv (nlFlag NLterms))⟩⟩ := by
    intro NL hfm
    have hs' := evalField_ok P c (some X) (some Y) gridx gridy (strainFn kern NL) true (nlFlag NL) _ hf k hk
      (fun p cv => kern.strain p cv (nlFlag NL)) (by rw [hfm]; rfl) cv hc hcores
    rw [strain_eq, hs']; simp [Except.map, FieldPts.pts, atleast1d_data]
  refine ⟨hures, ?_, ?_, ?_, hstrain, ?_⟩
  · intro j x y hx hy
    refine ⟨_, hures, ?_⟩
    have hz : (List.zip X.data Y.data)[j]? = some (x, y) := List.getElem?_zip_eq_some.mpr ⟨hx, hy⟩
    simp [Arr.flat?, List.getElem?_map, hz]
  · unfold Panel.uvw; simp only [hu]; simp [FieldPts.pts, atleast1d_data]
  · unfold Panel.uvw; simp only [hu]; simp [FieldPts.pts, atleast1d_data, Arr.map]
  · intro NL Farg F hfm hF
    have hres : resolveF Farg P.d.F = some F := by
      rcases hF with h | ⟨h1, h2⟩
      · subst h; rfl
      · subst h1; exact h2
    rw [stress_eq, hstrain NL hfm, hres]
    simp [Arr.map]

/-- non-vacuity of `field_pointwise`: a cylindrical panel, three worker threads, two points given as python lists, `c` of three entries;
the kernels return the point, the sum of `c`, the identity `rest` of the panel and the flag -/
example :
    let kern : Kernels ℚ Nat := ⟨fun _ p c pt => ⟨pt.1, pt.2, c.sum, p.rest, 0⟩, fun p c flag pt => ⟨pt.1, pt.2, c.sum, flag, p.rest, 0⟩⟩
    let P : Panel ℚ Nat Nat := { d := ⟨.kind .cpanel, 2, 1, 1, 1, none, 3, 7⟩, group := 0 }
    (P.uvw kern (.vec [1, 2, 3]) (some ⟨[2], [1, 2]⟩) (some ⟨[2], [1 / 2, 1 / 4]⟩) 300 300).res =
      .ok ⟨[2], [⟨1, 1 / 2, 6, 7, 0⟩, ⟨2, 1 / 4, 6, 7, 0⟩]⟩ := by
  intro kern P
  have h := (field_pointwise kern P .cpanel rfl (by decide) (.vec [1, 2, 3]) _ rfl ⟨[2], [1, 2]⟩ ⟨[2], [1 / 2, 1 / 4]⟩ rfl 300 300).1
  rw [h]
  norm_num [Arr.atleast1d, fieldModuleOf, kern, P]

/-- RESULTS DO NOT DEPEND ON HOW MANY POINTS ARE REQUESTED: for every point list `pts` and every list of positions `idx` in it (a
sub-list when increasing, with repetitions for duplicated points; `pts` itself is the selection `0 … n-1` of any longer list), querying
the selected points alone returns exactly the selection of what the query of all of `pts` returns — for `uvw`, for the strains and for
the stress resultants, for every panel (valid model or not: then both queries raise the same exception), every `c`, every
`NLterms`, every `F`. -/
theorem points_sublist (kern : Kernels K R) (P : Panel K R G) (hcores : 1 ≤ P.d.outNumCores) (c : CArg K)
    (pts : List (K × K)) (idx : List Nat) (hidx : ∀ i ∈ idx, i < pts.length) (gridx gridy : Int) :
    (P.uvw kern c (xsOf (pick pts idx)) (ysOf (pick pts idx)) gridx gridy).res =
      (P.uvw kern c (xsOf pts) (ysOf pts) gridx gridy).res.map (fun r => ⟨[idx.length], pick r.data idx⟩) ∧
    (∀ NLterms : Bool,
      (P.strain kern c (xsOf (pick pts idx)) (ysOf (pick pts idx)) gridx gridy NLterms).res.map (·.e) =
        (P.strain kern c (xsOf pts) (ysOf pts) gridx gridy NLterms).res.map (fun r => ⟨[idx.length], pick r.e.data idx⟩)) ∧
    (∀ (NLterms : Bool) (Farg : Option (Fin 6 → Fin 6 → K)),
      (P.stress kern c Farg (xsOf (pick pts idx)) (ysOf (pick pts idx)) gridx gridy NLterms).res.map (·.N) =
        (P.stress kern c Farg (xsOf pts) (ysOf pts) gridx gridy NLterms).res.map (fun r => ⟨[idx.length], pick r.N.data idx⟩)) := by
  have hstrain : ∀ NLterms : Bool,
      (P.strain kern c (xsOf (pick pts idx)) (ysOf (pick pts idx)) gridx gridy NLterms).res.map (·.e) =
        (P.strain kern c (xsOf pts) (ysOf pts) gridx gridy NLterms).res.map (fun r => ⟨[idx.length], pick r.e.data idx⟩) := by
    intro NL
    have h := evalField_pick P c gridx gridy (strainFn kern NL) true (nlFlag NL) pts idx hidx hcores
    rw [strain_eq, strain_eq]
    cases h1 : (P.evalField c (xsOf (pick pts idx)) (ysOf (pick pts idx)) gridx gridy (strainFn kern NL) true (nlFlag NL)).res <;>
      cases h2 : (P.evalField c (xsOf pts) (ysOf pts) gridx gridy (strainFn kern NL) true (nlFlag NL)).res <;>
      simp only [h1, h2, Except.map] at h ⊢ <;> exact h
  refine ⟨?_, hstrain, ?_⟩
  · rw [uvw_res, uvw_res]
    have h := evalField_pick P c gridx gridy (fun fm => some (kern.uvw fm)) false 0 pts idx hidx hcores
    cases h1 : (P.evalField c (xsOf (pick pts idx)) (ysOf (pick pts idx)) gridx gridy (fun fm => some (kern.uvw fm)) false 0).res <;>
      cases h2 : (P.evalField c (xsOf pts) (ysOf pts) gridx gridy (fun fm => some (kern.uvw fm)) false 0).res <;>
      simp only [h1, h2, Except.map] at h ⊢ <;> exact h
  · intro NL Farg
    have h := hstrain NL
    rw [stress_eq, stress_eq]
    cases h1 : (P.strain kern c (xsOf (pick pts idx)) (ysOf (pick pts idx)) gridx gridy NL).res <;>
      cases h2 : (P.strain kern c (xsOf pts) (ysOf pts) gridx gridy NL).res <;>
      cases hF : resolveF Farg P.d.F <;>
      simp only [h1, h2, Except.map] at h ⊢ <;>
      first | exact h | (injection h with h; simp [h, Arr.map, pick_map]) | cases h

/-- non-vacuity of `points_sublist`: four points, the selection `[2, 0, 2]` (a duplicated point), two worker threads -/
example :
    let kern : Kernels ℚ Nat := ⟨fun _ p c pt => ⟨pt.1, pt.2, c.sum, p.rest, 0⟩, fun p c flag pt => ⟨pt.1, pt.2, c.sum, flag, p.rest, 0⟩⟩
    let P : Panel ℚ Nat Nat := { d := ⟨.kind .plate, 2, 1, 1, 1, none, 2, 7⟩, group := 0 }
    let pts : List (ℚ × ℚ) := [(0, 0), (1, 1 / 2), (2, 1), (1 / 2, 1 / 3)]
    pick pts [2, 0, 2] = [(2, 1), (0, 0), (2, 1)] ∧
    (P.uvw kern (.vec [1, 2, 3]) (xsOf (pick pts [2, 0, 2])) (ysOf (pick pts [2, 0, 2])) 0 0).res =
      (P.uvw kern (.vec [1, 2, 3]) (xsOf pts) (ysOf pts) 0 0).res.map (fun r => ⟨[3], pick r.data [2, 0, 2]⟩) := by
  intro kern P pts
  exact ⟨by simp [pick, pts], (points_sublist kern P (by decide) _ pts [2, 0, 2] (by simp [pts]) 0 0).1⟩

/-- RESULTS DO NOT DEPEND ON THE ORDERING OF THE POINTS: if `idx` is a permutation of the positions `0 … n-1` of the point list, the
query at the permuted points returns at position `t` what the original query returns at position `idx[t]`, and the returned values
are a permutation of the original ones — displacements, strains, stress resultants. -/
theorem points_permutation_equivariant (kern : Kernels K R) (P : Panel K R G) (hcores : 1 ≤ P.d.outNumCores) (c : CArg K)
    (pts : List (K × K)) (idx : List Nat) (hperm : idx.Perm (List.range pts.length)) (gridx gridy : Int) :
    (∀ r r', (P.uvw kern c (xsOf pts) (ysOf pts) gridx gridy).res = .ok r →
      (P.uvw kern c (xsOf (pick pts idx)) (ysOf (pick pts idx)) gridx gridy).res = .ok r' →
      (∀ t (ht : t < idx.length), r'.flat? t = r.flat? idx[t]) ∧ r'.data.Perm r.data) ∧
    (∀ (NLterms : Bool) r r', (P.strain kern c (xsOf pts) (ysOf pts) gridx gridy NLterms).res = .ok r →
      (P.strain kern c (xsOf (pick pts idx)) (ysOf (pick pts idx)) gridx gridy NLterms).res = .ok r' →
      (∀ t (ht : t < idx.length), r'.e.flat? t = r.e.flat? idx[t]) ∧ r'.e.data.Perm r.e.data) ∧
    (∀ (NLterms : Bool) (Farg : Option (Fin 6 → Fin 6 → K)) r r',
      (P.stress kern c Farg (xsOf pts) (ysOf pts) gridx gridy NLterms).res = .ok r →
      (P.stress kern c Farg (xsOf (pick pts idx)) (ysOf (pick pts idx)) gridx gridy NLterms).res = .ok r' →
      (∀ t (ht : t < idx.length), r'.N.flat? t = r.N.flat? idx[t]) ∧ r'.N.data.Perm r.N.data) := by
  have hidx : ∀ i ∈ idx, i < pts.length := fun i hi => List.mem_range.mp (hperm.mem_iff.mp hi)
  obtain ⟨h1, h2, h3⟩ := points_sublist kern P hcores c pts idx hidx gridx gridy
  -- lengths: the result of a successful query has one entry per point
  have key : ∀ {V : Type} (d d' : List V), d.length = pts.length → d' = pick d idx →
      (∀ t (ht : t < idx.length), d'[t]? = d[idx[t]]?) ∧ d'.Perm d := by
    intro V d d' hl hd
    subst hd
    exact ⟨fun t ht => pick_getElem? d idx (by rw [hl]; exact hidx) t ht, pick_perm d idx (by rw [hl]; exact hperm)⟩
  refine ⟨?_, ?_, ?_⟩
  · intro r r' hr hr'
    rw [hr, hr'] at h1
    have hr'' : r' = ⟨[idx.length], pick r.data idx⟩ := by simpa [Except.map] using h1
    subst hr''
    exact key r.data _ (uvw_pts_length kern P c gridx gridy pts hcores r hr) rfl
  · intro NL r r' hr hr'
    have h := h2 NL
    rw [hr, hr'] at h
    have hr'' : r'.e = ⟨[idx.length], pick r.e.data idx⟩ := by simpa [Except.map] using h
    rw [hr'']
    exact key r.e.data _ (strain_pts_length kern P c gridx gridy NL pts hcores r hr) rfl
  · intro NL Farg r r' hr hr'
    have h := h3 NL Farg
    rw [hr, hr'] at h
    have hr'' : r'.N = ⟨[idx.length], pick r.N.data idx⟩ := by simpa [Except.map] using h
    rw [hr'']
    exact key r.N.data _ (stress_pts_length kern P c Farg gridx gridy NL pts hcores r hr) rfl

/-- non-vacuity of `points_permutation_equivariant`: three points in the order `[2, 0, 1]` -/
example :
    let kern : Kernels ℚ Nat := ⟨fun _ p c pt => ⟨pt.1, pt.2, c.sum, p.rest, 0⟩, fun p c flag pt => ⟨pt.1, pt.2, c.sum, flag, p.rest, 0⟩⟩
    let P : Panel ℚ Nat Nat := { d := ⟨.kind .plate, 2, 1, 1, 1, none, 2, 7⟩, group := 0 }
    let pts : List (ℚ × ℚ) := [(0, 0), (1, 1 / 2), (2, 1)]
    ∀ r r', (P.uvw kern (.vec [1, 2, 3]) (xsOf pts) (ysOf pts) 0 0).res = .ok r →
      (P.uvw kern (.vec [1, 2, 3]) (xsOf (pick pts [2, 0, 1])) (ysOf (pick pts [2, 0, 1])) 0 0).res = .ok r' →
      (∀ t (ht : t < 3), r'.flat? t = r.flat? [2, 0, 1][t]) ∧ r'.data.Perm r.data := by
  intro kern P pts
  exact (points_permutation_equivariant kern P (by decide) _ pts [2, 0, 1] (by decide) 0 0).1

/-- WHAT `gridx, gridy` EVALUATE (`xs` or `ys` not given; `gridx, gridy ≥ 0`): the result arrays have shape `(gridy, gridx)` and entry
`[i, j]` (flat position `i * gridx + j`) is the kernel at `x_j = j · a / (gridx − 1)`, `y_i = i · b / (gridy − 1)` — `numpy.meshgrid`'s
default `indexing='xy'` of the two `numpy.linspace(0, a, gridx)`, `linspace(0, b, gridy)`; the last grid lines are the edges `x = a`,
`y = b`; `self.Xs[i, j] = x_j`, `self.Ys[i, j] = y_i` are stored.  Same points for `strain` and `stress`. -/
theorem grid_is_meshgrid_of_linspace (kern : Kernels K R) (P : Panel K R G) (k : PanelGlue.ModelKind) (hk : P.d.model = .kind k)
    (hcores : 1 ≤ P.d.outNumCores) (c : CArg K) (cv : List K) (hc : c.contig = some cv)
    (xs ys : Option (Arr K)) (hnone : xs = none ∨ ys = none) (gridx gridy : Nat) :
    (P.uvw kern c xs ys gridx gridy).res =
      .ok ⟨[gridy, gridx], (gridPts P.d.a P.d.b gridx gridy).map (kern.uvw (fieldModuleOf k) P.d cv)⟩ ∧
    (gridPts P.d.a P.d.b gridx gridy).length = gridy * gridx ∧
    (∀ i j, i < gridy → j < gridx →
      (gridPts P.d.a P.d.b gridx gridy)[i * gridx + j]? =
        some ((j : K) * (P.d.a / ((gridx - 1 : Nat) : K)), (i : K) * (P.d.b / ((gridy - 1 : Nat) : K)))) ∧
    (((gridx - 1 : Nat) : K) ≠ 0 → ((gridx - 1 : Nat) : K) * (P.d.a / ((gridx - 1 : Nat) : K)) = P.d.a) ∧
    (((gridy - 1 : Nat) : K) ≠ 0 → ((gridy - 1 : Nat) : K) * (P.d.b / ((gridy - 1 : Nat) : K)) = P.d.b) ∧
    (∃ Xs Ys, (P.uvw kern c xs ys gridx gridy).post.out.Xs = some Xs ∧ (P.uvw kern c xs ys gridx gridy).post.out.Ys = some Ys ∧
      Xs.shape = [gridy, gridx] ∧ Ys.shape = [gridy, gridx] ∧
      ∀ i j, i < gridy → j < gridx →
        Xs.flat? (i * gridx + j) = some ((j : K) * (P.d.a / ((gridx - 1 : Nat) : K))) ∧
        Ys.flat? (i * gridx + j) = some ((i : K) * (P.d.b / ((gridy - 1 : Nat) : K)))) ∧
    (∀ NLterms : Bool, fieldModuleOf k = .clt →
      (P.strain kern c xs ys gridx gridy NLterms).res =
        .ok ⟨meshX (linspace0 P.d.a gridx) (linspace0 P.d.b gridy), meshY (linspace0 P.d.a gridx) (linspace0 P.d.b gridy),
          ⟨[gridy, gridx], (gridPts P.d.a P.d.b gridx gridy).map (kern.strain P.d cv (nlFlag NLterms))⟩⟩) ∧
    (∀ (NLterms : Bool) (Farg : Option (Fin 6 → Fin 6 → K)) (F : Fin 6 → Fin 6 → K), fieldModuleOf k = .clt →
      (Farg = some F ∨ (Farg = none ∧ P.d.F = some F)) →
      (P.stress kern c Farg xs ys gridx gridy NLterms).res =
        .ok ⟨meshX (linspace0 P.d.a gridx) (linspace0 P.d.b gridy), meshY (linspace0 P.d.a gridx) (linspace0 P.d.b gridy),
          ⟨[gridy, gridx],
            (gridPts P.d.a P.d.b gridx gridy).map fun pt => applyF F (kern.strain P.d cv (nlFlag NLterms) pt)⟩⟩) := by
  have hf := defaultField_grid P.d.a P.d.b xs ys hnone gridx gridy
  have hu := evalField_ok P c xs ys gridx gridy (fun fm => some (kern.uvw fm)) false 0 _ hf k hk _ rfl cv hc hcores
  have hstrain : ∀ NLterms : Bool, fieldModuleOf k = .clt →
      (P.strain kern c xs ys gridx gridy NLterms).res =
        .ok ⟨meshX (linspace0 P.d.a gridx) (linspace0 P.d.b gridy), meshY (linspace0 P.d.a gridx) (linspace0 P.d.b gridy),
          ⟨[gridy, gridx], (gridPts P.d.a P.d.b gridx gridy).map (kern.strain P.d cv (nlFlag NLterms))⟩⟩ := by
    intro NL hfm
    have hs' := evalField_ok P c xs ys gridx gridy (strainFn kern NL) true (nlFlag NL) _ hf k hk
      (fun p cv => kern.strain p cv (nlFlag NL)) (by rw [hfm]; rfl) cv hc hcores
    rw [strain_eq, hs']
    simp only [Except.map, grid_pts, grid_shape]
  have hgp := gridPts_getElem? P.d.a P.d.b gridx gridy
  refine ⟨?_, gridPts_length _ _ _ _, hgp, fun h => mul_div_cancel₀ _ h, fun h => mul_div_cancel₀ _ h, ?_, hstrain, ?_⟩
  · rw [uvw_res, hu]; simp only [Except.map, grid_pts, grid_shape]
  · refine ⟨meshX (linspace0 P.d.a gridx) (linspace0 P.d.b gridy), meshY (linspace0 P.d.a gridx) (linspace0 P.d.b gridy), ?_, ?_,
      grid_shape _ _ _ _, by simp [meshY, linspace0_length], ?_⟩
    · unfold Panel.uvw; simp only [hu]
    · unfold Panel.uvw; simp only [hu]
    · intro i j hi hj
      have h := hgp i j hi hj
      rw [← grid_pts, FieldPts.pts] at h
      exact List.getElem?_zip_eq_some.mp h
  · intro NL Farg F hfm hF
    have hres : resolveF Farg P.d.F = some F := by
      rcases hF with h | ⟨h1, h2⟩
      · subst h; rfl
      · subst h1; exact h2
    rw [stress_eq, hstrain NL hfm, hres]
    simp [Arr.map]

/-- non-vacuity of `grid_is_meshgrid_of_linspace`: `gridx = 3`, `gridy = 2` on a `2 × 1` panel: the six points in result order -/
example :
    let kern : Kernels ℚ Nat := ⟨fun _ p c pt => ⟨pt.1, pt.2, c.sum, p.rest, 0⟩, fun p c flag pt => ⟨pt.1, pt.2, c.sum, flag, p.rest, 0⟩⟩
    let P : Panel ℚ Nat Nat := { d := ⟨.kind .plate, 2, 1, 1, 1, none, 4, 7⟩, group := 0 }
    (P.uvw kern (.vec [1, 2, 3]) none none (3 : Nat) (2 : Nat)).res =
      .ok ⟨[2, 3], (gridPts (2 : ℚ) 1 3 2).map (kern.uvw .clt P.d [1, 2, 3])⟩ ∧
    gridPts (2 : ℚ) 1 3 2 = [(0, 0), (1, 0), (2, 0), (0, 1), (1, 1), (2, 1)] := by
  intro kern P
  refine ⟨(grid_is_meshgrid_of_linspace kern P .plate rfl (by decide) (.vec [1, 2, 3]) _ rfl none none (Or.inl rfl) 3 2).1, ?_⟩
  norm_num [gridPts, linspace0, List.range, List.range.loop, List.flatMap]

/-- `PanelAssembly.__init__` / `get_size`: THE SLICES ARE CONTIGUOUS, DISJOINT AND COVER `c`.  For any list of panels (any `m, n`):
panel `k` of the assembly is the given panel with `col_start` = the sum of `3 m n` over the panels before it and `col_end = col_start +
3 m_k n_k`; so the first range starts at 0, every range starts where the previous one ends, the last one ends at `get_size()`; and for
every vector `c` of that size the slices `c[col_start:col_end]`, concatenated in panel order, are `c` itself, each of the length
`3 m n` of its panel. -/
theorem assembly_slices_partition (panels : List (Panel K R G)) :
    (Assembly.new panels).panels.length = panels.length ∧
    (∀ k : Nat, (Assembly.new panels).panels[k]? = (panels[k]?).map fun (p : Panel K R G) =>
      { p with colStart := some (((sizesOf panels).take k).sum),
               colEnd := some (((sizesOf panels).take k).sum + 3 * p.d.m * p.d.n) }) ∧
    ((sizesOf panels).take 0).sum = 0 ∧
    (∀ k (hk : k < panels.length),
      ((sizesOf panels).take (k + 1)).sum = ((sizesOf panels).take k).sum + 3 * panels[k].d.m * panels[k].d.n) ∧
    ((sizesOf panels).take panels.length).sum = (Assembly.new panels).getSize.1 ∧
    (∀ c : List K, c.length = (Assembly.new panels).getSize.1 →
      ((Assembly.new panels).panels.map fun p => pySlice p.colStart p.colEnd c).flatten = c ∧
      ∀ p ∈ (Assembly.new panels).panels, (pySlice p.colStart p.colEnd c).length = 3 * p.d.m * p.d.n) := by
  have hsize : (Assembly.new panels).getSize.1 = (sizesOf panels).sum := by
    have : ∀ (c0 : Nat) (ps : List (Panel K R G)), sizesOf (assignFrom c0 ps) = sizesOf ps := by
      intro c0 ps
      induction ps generalizing c0 with
      | nil => rfl
      | cons p t ih => simp only [assignFrom, sizesOf, List.map_cons] at ih ⊢; rw [ih]
    simp only [Assembly.getSize, Assembly.new]
    exact congrArg List.sum (this 0 panels)
  have hlen : (sizesOf panels).length = panels.length := by simp [sizesOf]
  refine ⟨assignFrom_length 0 panels, ?_, by simp, ?_, ?_, ?_⟩
  · intro k
    have := assignFrom_getElem? 0 panels k
    simpa [Assembly.new, Asm.startOf] using this
  · intro k hk
    have := Asm.startOf_succ (sizesOf panels) k (by rw [hlen]; exact hk)
    simpa [Asm.startOf, sizesOf] using this
  · rw [hsize, ← hlen, List.take_length]
  · intro c hc
    rw [hsize] at hc
    refine ⟨?_, ?_⟩
    · have := assign_slices_flatten 0 panels c (by rw [hc]; omega)
      simpa [Assembly.new] using this
    · exact assign_slice_length 0 panels c (by rw [hc]; omega)

/-- non-vacuity of `assembly_slices_partition`: three panels with `(m, n) = (2, 1), (1, 1), (2, 2)`: ranges `0:6`, `6:9`, `9:21` -/
example :
    let mk : Nat → Nat → Panel ℚ Nat Nat := fun m n => { d := ⟨.kind .plate, 1, 1, m, n, none, 4, 0⟩, group := 0 }
    ((Assembly.new [mk 2 1, mk 1 1, mk 2 2]).panels.map fun p => (p.colStart, p.colEnd)) =
      [(some 0, some 6), (some 6, some 9), (some 9, some 21)] ∧
    (Assembly.new [mk 2 1, mk 1 1, mk 2 2]).getSize.1 = 21 := by
  intro mk
  exact ⟨by decide, by decide⟩

/-- EACH GROUP OF AN ASSEMBLY IS EVALUATED WITH THAT PANEL'S OWN SLICE.  For every assembly (any number of panels, any `m, n`, any group
labels, groups with several panels, whatever `col_start / col_end` the panels carry — `assembly_slices_partition` says what
`PanelAssembly.__init__` stores there), every amplitude vector, every group label `g`, every `gridx, gridy ≥ 0`, every
`out_num_cores ≥ 1` of the assembly: `PanelAssembly.uvw(c, g, gridx, gridy)` returns one entry per panel of the group, in the order of
`self.panels` (`members g` = the sub-list of the panels whose `group` equals `g`: panels of other groups contribute nothing), and the
entry of a panel is the compiled kernel of THAT panel's field module with THAT panel's attributes and the slice
`c[col_start:col_end]` of THAT panel, on that panel's own `gridx × gridy` grid (`x` up to its `a`, `y` up to its `b`), shape
`(gridy, gridx)`; the compiled call is `fuvw(c[col_start:col_end], panel, x, y, assembly.out_num_cores)`. -/
theorem assembly_group_uses_own_slice [DecidableEq G] (kern : Kernels K R) (A : Assembly K R G) (hcores : 1 ≤ A.outNumCores)
    (cv : List K) (g : G) (gridx gridy : Nat) (fmOf : Panel K R G → FieldModule)
    (hmodel : ∀ p ∈ A.members g, ∃ k, p.d.model = .kind k ∧ fieldModuleOf k = fmOf p) :
    A.members g = A.panels.filter (fun p => decide (p.group = g)) ∧
    A.uvw kern (.vec cv) g gridx gridy = .ok ((A.members g).map fun p =>
      ⟨⟨false, fmOf p, p.d, pySlice p.colStart p.colEnd cv, gridPts p.d.a p.d.b gridx gridy, A.outNumCores, 0⟩,
        meshX (linspace0 p.d.a gridx) (linspace0 p.d.b gridy), meshY (linspace0 p.d.a gridx) (linspace0 p.d.b gridy),
        ⟨[gridy, gridx], (gridPts p.d.a p.d.b gridx gridy).map (kern.uvw (fmOf p) p.d (pySlice p.colStart p.colEnd cv))⟩⟩) := by
  refine ⟨rfl, ?_⟩
  unfold Assembly.uvw
  apply mapE_ok
  intro p hp
  obtain ⟨k, hk, hfm⟩ := hmodel p hp
  rw [evalPanel_ok A cv gridx gridy _ false 0 p k hk _ rfl hcores, hfm]

/-- non-vacuity of `assembly_group_uses_own_slice`: three panels in the groups `5, 9, 5` with `(m, n) = (1, 1), (2, 1), (1, 2)`; the
group `5` is answered by the first panel with `c[0:3]` and the third with `c[9:15]`, nothing from the second -/
example :
    let kern : Kernels ℚ Nat := ⟨fun _ p c pt => ⟨pt.1, pt.2, c.sum, p.rest, 0⟩, fun p c flag pt => ⟨pt.1, pt.2, c.sum, flag, p.rest, 0⟩⟩
    let mk : Nat → Nat → Nat → Nat → Panel ℚ Nat Nat := fun m n grp id => { d := ⟨.kind .plate, 1, 1, m, n, none, 4, id⟩, group := grp }
    let A : Assembly ℚ Nat Nat := Assembly.new [mk 1 1 5 0, mk 2 1 9 1, mk 1 2 5 2]
    let c : List ℚ := (List.range 15).map fun i => (i : ℚ)
    ((A.members 5).map fun p => (p.d.rest, pySlice p.colStart p.colEnd c)) = [(0, [0, 1, 2]), (2, [9, 10, 11, 12, 13, 14])] ∧
    ∃ r, A.uvw kern (.vec c) 5 (2 : Nat) (2 : Nat) = .ok r ∧ r.map (fun e => e.call.c) = [[0, 1, 2], [9, 10, 11, 12, 13, 14]] := by
  intro kern mk A c
  have hmem : A.members 5 = [{ mk 1 1 5 0 with colStart := some 0, colEnd := some 3 }, { mk 1 2 5 2 with colStart := some 9, colEnd := some 15 }] := by
    simp [A, Assembly.members, Assembly.new, assignFrom, mk]
  have hsl : ((A.members 5).map fun p => (p.d.rest, pySlice p.colStart p.colEnd c)) = [(0, [0, 1, 2]), (2, [9, 10, 11, 12, 13, 14])] := by
    rw [hmem]; simp [pySlice, c, mk, List.range, List.range.loop]
  refine ⟨hsl, _, (assembly_group_uses_own_slice kern A (by decide) c 5 2 2 (fun _ => .clt) ?_).2, ?_⟩
  · intro p hp
    rw [hmem] at hp
    simp only [List.mem_cons, List.not_mem_nil, or_false] at hp
    rcases hp with rfl | rfl <;> exact ⟨.plate, rfl, rfl⟩
  · rw [List.map_map]
    have := congrArg (List.map Prod.snd) hsl
    simpa [Function.comp_def] using this

/-- `NLterms` AND THE OTHER OPTIONS ARE FORWARDED UNCHANGED TO EVERY PANEL of the group: for both values of `NLterms`,
`PanelAssembly.strain(c, g, gridx, gridy, NLterms)` makes, for every panel of the group in order, the compiled call
`fstrain(c[col_start:col_end], panel, x, y, assembly.out_num_cores, NLterms=int(NLterms))` on that panel's `gridx × gridy` grid and returns
its values in shape `(gridy, gridx)`; `PanelAssembly.stress` makes the SAME calls (same flag) and returns, per point, that panel's own
laminate matrix `panel.F` applied to these strains. -/
theorem assembly_strain_stress_forward_options [DecidableEq G] (kern : Kernels K R) (A : Assembly K R G) (hcores : 1 ≤ A.outNumCores)
    (cv : List K) (g : G) (gridx gridy : Nat) (NLterms : Bool)
    (hmodel : ∀ p ∈ A.members g, ∃ k, p.d.model = .kind k ∧ fieldModuleOf k = .clt) :
    A.strain kern (.vec cv) g gridx gridy NLterms = .ok ((A.members g).map fun p =>
      ⟨⟨true, .clt, p.d, pySlice p.colStart p.colEnd cv, gridPts p.d.a p.d.b gridx gridy, A.outNumCores, nlFlag NLterms⟩,
        meshX (linspace0 p.d.a gridx) (linspace0 p.d.b gridy), meshY (linspace0 p.d.a gridx) (linspace0 p.d.b gridy),
        ⟨[gridy, gridx], (gridPts p.d.a p.d.b gridx gridy).map
          (kern.strain p.d (pySlice p.colStart p.colEnd cv) (nlFlag NLterms))⟩⟩) ∧
    (∀ Fof : Panel K R G → Fin 6 → Fin 6 → K, (∀ p ∈ A.members g, p.d.F = some (Fof p)) →
      A.stress kern (.vec cv) g gridx gridy NLterms = .ok ((A.members g).map fun p =>
        ⟨⟨true, .clt, p.d, pySlice p.colStart p.colEnd cv, gridPts p.d.a p.d.b gridx gridy, A.outNumCores, nlFlag NLterms⟩,
          meshX (linspace0 p.d.a gridx) (linspace0 p.d.b gridy), meshY (linspace0 p.d.a gridx) (linspace0 p.d.b gridy),
          ⟨[gridy, gridx], (gridPts p.d.a p.d.b gridx gridy).map fun pt =>
            applyF (Fof p) (kern.strain p.d (pySlice p.colStart p.colEnd cv) (nlFlag NLterms) pt)⟩⟩)) := by
  have hstep : ∀ p ∈ A.members g,
      A.evalPanel (.vec cv) (gridx : Int) (gridy : Int) (strainFn kern NLterms) true (nlFlag NLterms) p =
        .ok ⟨⟨true, .clt, p.d, pySlice p.colStart p.colEnd cv, gridPts p.d.a p.d.b gridx gridy, A.outNumCores, nlFlag NLterms⟩,
          meshX (linspace0 p.d.a gridx) (linspace0 p.d.b gridy), meshY (linspace0 p.d.a gridx) (linspace0 p.d.b gridy),
          ⟨[gridy, gridx], (gridPts p.d.a p.d.b gridx gridy).map
            (kern.strain p.d (pySlice p.colStart p.colEnd cv) (nlFlag NLterms))⟩⟩ := by
    intro p hp
    obtain ⟨k, hk, hfm⟩ := hmodel p hp
    rw [evalPanel_ok A cv gridx gridy _ true _ p k hk (fun p cv => kern.strain p cv (nlFlag NLterms)) (by rw [hfm]; rfl) hcores, hfm]
  refine ⟨?_, ?_⟩
  · unfold Assembly.strain
    exact mapE_ok _ _ _ hstep
  · intro Fof hF
    unfold Assembly.stress
    apply mapE_ok
    intro p hp
    simp only [hstep p hp, hF p hp, Arr.map, List.map_map, Function.comp_def]

/-- non-vacuity of `assembly_strain_stress_forward_options`: two panels of one group with different laminate matrices, `NLterms=False` -/
example :
    let kern : Kernels ℚ Nat := ⟨fun _ p c pt => ⟨pt.1, pt.2, c.sum, p.rest, 0⟩, fun p c flag pt => ⟨pt.1, pt.2, c.sum, flag, p.rest, 0⟩⟩
    let mk : Nat → Nat → Panel ℚ Nat Nat := fun m id =>
      { d := ⟨.kind .cpanel, 1, 1, m, 1, some fun r q => (id : ℚ) + r.val + 2 * q.val, 4, id⟩, group := 1 }
    let A : Assembly ℚ Nat Nat := Assembly.new [mk 1 0, mk 2 1]
    ∃ r, A.stress kern (.vec [1, 2, 3, 4, 5, 6, 7, 8, 9]) 1 (2 : Nat) (1 : Nat) false = .ok r ∧
      r.map (fun e => (e.call.nl, e.call.cores, e.call.c)) = [(0, 4, [1, 2, 3]), (0, 4, [4, 5, 6, 7, 8, 9])] := by
  intro kern mk A
  have hmem : A.members 1 = [{ mk 1 0 with colStart := some 0, colEnd := some 3 }, { mk 2 1 with colStart := some 3, colEnd := some 9 }] := by
    simp [A, Assembly.members, Assembly.new, assignFrom, mk]
  have hm : ∀ p ∈ A.members 1, ∃ k, p.d.model = .kind k ∧ fieldModuleOf k = .clt := by
    intro p hp
    rw [hmem] at hp
    simp only [List.mem_cons, List.not_mem_nil, or_false] at hp
    rcases hp with rfl | rfl <;> exact ⟨.cpanel, rfl, rfl⟩
  refine ⟨_, (assembly_strain_stress_forward_options kern A (by decide) _ 1 2 1 false hm).2
    (fun p => fun r q => (p.d.rest : ℚ) + r.val + 2 * q.val) ?_, ?_⟩
  · intro p hp
    rw [hmem] at hp
    simp only [List.mem_cons, List.not_mem_nil, or_false] at hp
    rcases hp with rfl | rfl <;> rfl
  · rw [List.map_map, hmem]
    simp [Function.comp_def, pySlice, nlFlag, A, Assembly.new, mk]

/-- THE ERROR BRANCHES of the panel queries, in the order in which the source reaches them: (1) `xs`, `ys` of different shapes:
`ValueError`, nothing stored, no compiled call; (2) `gridx` or `gridy` negative on the grid branch: `ValueError` (from `linspace`);
(3) `model` not a key of `modelDB.db` (`None` on a fresh panel): `KeyError` AFTER `_default_field` stored `Xs, Ys`; (4) a `c` that is
not one-dimensional: `ValueError` from the compiled signature; (5) `strain` / `stress` for the one-field model (`clt_bardell_field_w`
has no `fstrain`): `AttributeError`; (6) `stress` without laminate matrix (`F=None` and `self.F is None`): `ValueError` — AFTER the
compiled strain call was made.  The LENGTH of `c` is checked nowhere (see Model/FieldGlue.lean). -/
theorem field_query_errors (kern : Kernels K R) (P : Panel K R G) (c : CArg K) (gridx gridy : Int) :
    (∀ X Y : Arr K, X.atleast1d.shape ≠ Y.atleast1d.shape →
      (P.uvw kern c (some X) (some Y) gridx gridy).res = .error .shapeMismatch ∧
      (P.uvw kern c (some X) (some Y) gridx gridy).post = P ∧ (P.uvw kern c (some X) (some Y) gridx gridy).calls = []) ∧
    (∀ xs ys : Option (Arr K), (xs = none ∨ ys = none) → (gridx < 0 ∨ gridy < 0) →
      (P.uvw kern c xs ys gridx gridy).res = .error .gridNegative) ∧
    (∀ (xs ys : Option (Arr K)) (f : FieldPts K), defaultField P.d.a P.d.b xs ys gridx gridy = .ok f →
      (P.d.model = .unset ∨ P.d.model = .invalid) →
      (P.uvw kern c xs ys gridx gridy).res = .error .modelKey ∧
      (P.uvw kern c xs ys gridx gridy).post.out.Xs = some f.Xs ∧ (P.uvw kern c xs ys gridx gridy).calls = []) ∧
    (∀ (xs ys : Option (Arr K)) (f : FieldPts K) (k : PanelGlue.ModelKind), defaultField P.d.a P.d.b xs ys gridx gridy = .ok f →
      P.d.model = .kind k → c.contig = none → (P.uvw kern c xs ys gridx gridy).res = .error .cNdim) ∧
    (∀ (xs ys : Option (Arr K)) (f : FieldPts K) (NLterms : Bool), defaultField P.d.a P.d.b xs ys gridx gridy = .ok f →
      P.d.model = .kind .plateW → (P.strain kern c xs ys gridx gridy NLterms).res = .error .noFstrain) ∧
    (∀ (xs ys : Option (Arr K)) (NLterms : Bool) (s : StrainRes K), (P.strain kern c xs ys gridx gridy NLterms).res = .ok s →
      P.d.F = none →
      (P.stress kern c none xs ys gridx gridy NLterms).res = .error .noLaminate ∧
      (P.stress kern c none xs ys gridx gridy NLterms).calls = (P.strain kern c xs ys gridx gridy NLterms).calls) := by
  refine ⟨?_, ?_, ?_, ?_, ?_, ?_⟩
  · intro X Y hne
    have hf : defaultField P.d.a P.d.b (some X) (some Y) gridx gridy = .error .shapeMismatch := by
      unfold defaultField; simp only [if_neg hne]
    unfold Panel.uvw Panel.evalField
    simp only [hf]
    simp
  · intro xs ys hnone hneg
    have hg : gridArrays P.d.a P.d.b gridx gridy = .error .gridNegative := by
      unfold gridArrays; rw [if_pos hneg]
    have hf : defaultField P.d.a P.d.b xs ys gridx gridy = .error .gridNegative := by
      unfold defaultField
      cases xs with
      | none => simp only [hg]
      | some X =>
        cases ys with
        | none => simp only [hg]
        | some Y => simp at hnone
    unfold Panel.uvw Panel.evalField
    simp only [hf]
  · intro xs ys f hf hm
    unfold Panel.uvw Panel.evalField
    rcases hm with hm | hm <;> simp only [hf, hm] <;> simp
  · intro xs ys f k hf hk hc
    unfold Panel.uvw Panel.evalField
    simp only [hf, hk, hc]
  · intro xs ys f NL hf hk
    rw [strain_eq]
    unfold Panel.evalField
    simp only [hf, hk, fieldModuleOf, strainFn]
    rfl
  · intro xs ys NL s hs hF
    refine ⟨?_, (stress_post kern P c none xs ys gridx gridy NL).2⟩
    rw [stress_eq, hs]
    simp [resolveF, hF]

/-- non-vacuity of `field_query_errors` (1), (3), (6): a fresh panel (`model = None`) and a panel without laminate matrix -/
example :
    let kern : Kernels ℚ Nat := ⟨fun _ p c pt => ⟨pt.1, pt.2, c.sum, p.rest, 0⟩, fun p c flag pt => ⟨pt.1, pt.2, c.sum, flag, p.rest, 0⟩⟩
    let P0 : Panel ℚ Nat Nat := { d := ⟨.unset, 2, 1, 1, 1, none, 4, 7⟩, group := 0 }
    let P1 : Panel ℚ Nat Nat := { d := ⟨.kind .plate, 2, 1, 1, 1, none, 4, 7⟩, group := 0 }
    (P0.uvw kern (.vec [1, 2, 3]) (some ⟨[2], [1, 2]⟩) (some ⟨[1], [1]⟩) 0 0).res = .error .shapeMismatch ∧
    (P0.uvw kern (.vec [1, 2, 3]) (some ⟨[], [1]⟩) (some ⟨[1], [1]⟩) 0 0).res = .error .modelKey ∧
    (P1.stress kern (.vec [1, 2, 3]) none (some ⟨[], [1]⟩) (some ⟨[1], [1]⟩) 0 0 true).res = .error .noLaminate ∧
    (P1.stress kern (.vec [1, 2, 3]) none (some ⟨[], [1]⟩) (some ⟨[1], [1]⟩) 0 0 true).calls.length = 1 := by
  intro kern P0 P1
  refine ⟨((field_query_errors kern P0 _ 0 0).1 _ _ (by decide)).1,
    ((field_query_errors kern P0 _ 0 0).2.2.1 _ _ _ (defaultField_given _ _ _ _ (by decide) 0 0) (Or.inl rfl)).1, ?_, ?_⟩
  · have hs := (field_pointwise kern P1 .plate rfl (by decide) (.vec [1, 2, 3]) _ rfl ⟨[], [1]⟩ ⟨[1], [1]⟩ (by decide) 0 0).2.2.2.2.1 true rfl
    exact ((field_query_errors kern P1 _ 0 0).2.2.2.2.2 _ _ true _ hs rfl).1
  · have hs := (field_pointwise kern P1 .plate rfl (by decide) (.vec [1, 2, 3]) _ rfl ⟨[], [1]⟩ ⟨[1], [1]⟩ (by decide) 0 0).2.2.2.2.1 true rfl
    rw [((field_query_errors kern P1 _ 0 0).2.2.2.2.2 _ _ true _ hs rfl).2, (strain_post kern P1 _ _ _ 0 0 true).2]
    rw [evalField_ok P1 _ _ _ 0 0 (strainFn kern true) true (nlFlag true) _ (defaultField_given _ _ _ _ (by decide) 0 0) .plate rfl
      (fun p cv => kern.strain p cv (nlFlag true)) rfl _ rfl (by decide)]
    rfl

end glue

end Compmech.Panel.C11
