/-
C11 — recovered displacement / strain fields match the Ritz series and the Donnell kinematics.
Kernel models regenerated from compmech/panel/models/clt_bardell_field*.pyx on every run
(per point, per degree of freedom); the Python-level chunking is the hand model Model/Chunking.lean.
-/
import CompmechVerif.Gen.Field.Clt
import CompmechVerif.Gen.Field.CltW
import CompmechVerif.Spec.Kinematics
import CompmechVerif.Model.ChunkingLemmas
import CompmechVerif.Core.OpSpecTactics
import Mathlib.Tactic.NormNum
import Mathlib.Algebra.Order.Field.Rat

set_option linter.unusedSectionVars false

namespace Compmech.Panel.C11
open Compmech.Panel Compmech.Gen.Field

section kernels
variable {K : Type} [Field K] [CharZero K]

/-- displacements are the Ritz series: each degree of freedom adds amplitude × basis value -/
theorem uvw_eq_series (X : FCtx K) :
    Clt.cfuvw.u X = X.c .u * (X.E .x 0 .u * X.E .y 0 .u) ∧
    Clt.cfuvw.v X = X.c .v * (X.E .x 0 .v * X.E .y 0 .v) ∧
    Clt.cfuvw.w X = X.c .w * (X.E .x 0 .w * X.E .y 0 .w) ∧
    CltW.cfw.w X = X.c .w * (X.E .x 0 .w * X.E .y 0 .w) := by
  refine ⟨?_, ?_, ?_, ?_⟩ <;> simp only [panel_entry] <;> ring

/-- the slope kernels return `w,x`, `w,y` of the same series (the wrappers report `φx = −w,x`, `φy = −w,y`,
see `Chunking.fuvw_eq_map`) -/
theorem slopes_eq_series (X : FCtx K) (ha : X.a ≠ 0) (hb : X.b ≠ 0) :
    Clt.cfwx.wx X = slopeX X ∧ Clt.cfwy.wy X = slopeY X ∧ CltW.cfwx.wx X = slopeX X ∧ CltW.cfwy.wy X = slopeY X := by
  refine ⟨?_, ?_, ?_, ?_⟩ <;> simp only [panel_entry, slopeX, slopeY] <;> field_simp

/-- the shape-function rows used for the load vectors are the derivative of the displacement series w.r.t.
the amplitude of the degree of freedom (same field model in C07 and C11) -/
theorem shape_rows_are_series_derivative (X : FCtx K) :
    Clt.cfuvw.u X = X.c .u * Clt.cfg.g00 X ∧ Clt.cfuvw.v X = X.c .v * Clt.cfg.g11 X ∧
    Clt.cfuvw.w X = X.c .w * Clt.cfg.g22 X ∧ CltW.cfw.w X = X.c .w * CltW.cfg.g00 X := by
  refine ⟨?_, ?_, ?_, ?_⟩ <;> simp only [panel_entry] <;> ring

/-- linear strains and curvatures (`NLterms = 0`): each degree of freedom contributes exactly what the Donnell
operator tables of C02 prescribe — flat branch (`r == 0`) with the plate table, cylindrical branch with the
cylindrical table -/
theorem strain_linear_eq_donnell (X : FCtx K) (ha : X.a ≠ 0) (hb : X.b ≠ 0) (hr : X.r ≠ 0) (h0 : X.NL = 0) :
    Clt.cfstrain.exx X = dofOp X (plateOps X.toP) 0 ∧
    Clt.cfstrain.eyy_flat X = dofOp X (plateOps X.toP) 1 ∧
    Clt.cfstrain.eyy_cyl X = dofOp X (cpanelOps X.toP) 1 ∧
    Clt.cfstrain.gxy X = dofOp X (plateOps X.toP) 2 ∧
    Clt.cfstrain.kxx X = dofOp X (plateOps X.toP) 3 ∧
    Clt.cfstrain.kyy X = dofOp X (plateOps X.toP) 4 ∧
    Clt.cfstrain.kxy X = dofOp X (plateOps X.toP) 5 := by
  refine ⟨?_, ?_, ?_, ?_, ?_, ?_, ?_⟩ <;>
    simp only [panel_entry, dofOp, plateOps, cpanelOps, FCtx.toP, h0, List.map, List.sum_cons, List.sum_nil] <;>
    field_simp <;> ring

/-- What the kernels add when `NLterms = 1` (the full statement — Donnell's `½ w,x²`, `½ w,y²`, `w,x w,y` of
the WHOLE series — is false, see `strain_nl_counterexample`): per degree of freedom the quadratic terms of
that degree of freedom's own slope. -/
theorem strain_nl_partial (X : FCtx K) (ha : X.a ≠ 0) (hb : X.b ≠ 0) (hr : X.r ≠ 0) :
    Clt.cfstrain.exx X = dofOp X (plateOps X.toP) 0 + X.NL * (1 / 2 * slopeX X ^ 2) ∧
    Clt.cfstrain.eyy_flat X = dofOp X (plateOps X.toP) 1 + X.NL * (1 / 2 * slopeY X ^ 2) ∧
    Clt.cfstrain.eyy_cyl X = dofOp X (cpanelOps X.toP) 1 + X.NL * (1 / 2 * slopeY X ^ 2) ∧
    Clt.cfstrain.gxy X = dofOp X (plateOps X.toP) 2 + X.NL * (slopeX X * slopeY X) := by
  refine ⟨?_, ?_, ?_, ?_⟩ <;>
    simp only [panel_entry, dofOp, plateOps, cpanelOps, FCtx.toP, slopeX, slopeY, List.map, List.sum_cons, List.sum_nil] <;>
    field_simp <;> ring

end kernels

/-- Counter-example to "the reported strains equal the Donnell relations with the quadratic slope terms":
two degrees of freedom whose slopes at a point are both 1 give `εxx(NL) − εxx(lin) = 1`, whereas
`½ w,x² = ½ (1 + 1)² = 2`. -/
theorem strain_nl_counterexample :
    let X₁ : FCtx ℚ := ⟨2, 2, 1, 1, fun _ => 1, fun _ _ _ => 1⟩
    let X₂ : FCtx ℚ := X₁
    slopeX X₁ = 1 ∧ slopeX X₂ = 1 ∧
    (Clt.cfstrain.exx X₁ + Clt.cfstrain.exx X₂) - (dofOp X₁ (plateOps X₁.toP) 0 + dofOp X₂ (plateOps X₂.toP) 0) = 1 ∧
    (1 / 2 : ℚ) * (slopeX X₁ + slopeX X₂) ^ 2 = 2 := by
  simp only [panel_entry, dofOp, plateOps, FCtx.toP, slopeX, List.map, List.sum_cons, List.sum_nil]
  norm_num

section chunking
open Compmech.Chunking

/-- results do not depend on the number of worker threads, on padding, or on how many points are requested:
for every point list and every `num_cores ≥ 1` the pad / reshape / per-chunk map / ravel / trim pipeline of
`fuvw`, `fstrain` returns exactly the point-wise map -/
theorem chunking_invariant {α β : Type} (f : α → β) (z : α) (xs : List α) (cores : Nat) (h : 1 ≤ cores) :
    chunkedMap f z xs cores = xs.map f :=
  chunkedMap_eq_map f z xs cores h

end chunking

end Compmech.Panel.C11
