/-
C11 — recovered displacement / strain fields match the Ritz series and the Donnell kinematics.
Kernel models regenerated from compmech/panel/models/clt_bardell_field*.pyx on every run
(per point, per degree of freedom); the Python-level chunking is the hand model Model/Chunking.lean.

`Panel.stress` (plain Python, no C-level routine: the field kernels have none, so nothing can be regenerated for it) is the small HAND
model `panelStress` of Model/Chunking.lean; its tie to the running code is the numerical clause "stress = F * strain of the same
option" of tools/props/C11.py (both `NLterms` values on every generated case), not a recorded-trace correspondence.
-/
import CompmechVerif.Gen.Field.Clt
import CompmechVerif.Gen.Field.CltW
import CompmechVerif.Spec.Kinematics
import CompmechVerif.Model.ChunkingLemmas
import CompmechVerif.Spec.FieldStress
import CompmechVerif.Core.OpSpecTactics
import Mathlib.Tactic.NormNum
import Mathlib.Algebra.Order.Field.Rat

set_option linter.unusedSectionVars false

namespace Compmech.Panel.C11
open Compmech.Panel Compmech.Gen.Field

section kernels
variable {K : Type} [Field K] [CharZero K]

/-- displacements are the Ritz series: each degree of freedom adds amplitude × basis value -/
theorem uvw_eq_series (X : FCtx K) :
    Clt.cfuvw.u X = X.c .u * (X.E .x 0 .u * X.E .y 0 .u) ∧
    Clt.cfuvw.v X = X.c .v * (X.E .x 0 .v * X.E .y 0 .v) ∧
    Clt.cfuvw.w X = X.c .w * (X.E .x 0 .w * X.E .y 0 .w) ∧
    CltW.cfw.w X = X.c .w * (X.E .x 0 .w * X.E .y 0 .w) := by
  refine ⟨?_, ?_, ?_, ?_⟩ <;> simp only [panel_entry] <;> ring

/-- the slope kernels return `w,x`, `w,y` of the same series (the wrappers report `φx = −w,x`, `φy = −w,y`,
see `Chunking.fuvw_eq_map`) -/
theorem slopes_eq_series (X : FCtx K) (ha : X.a ≠ 0) (hb : X.b ≠ 0) :
    Clt.cfwx.wx X = slopeX X ∧ Clt.cfwy.wy X = slopeY X ∧ CltW.cfwx.wx X = slopeX X ∧ CltW.cfwy.wy X = slopeY X := by
  refine ⟨?_, ?_, ?_, ?_⟩ <;> simp only [panel_entry, slopeX, slopeY] <;> field_simp

/-- the shape-function rows used for the load vectors are the derivative of the displacement series w.r.t.
the amplitude of the degree of freedom (same field model in C07 and C11) -/
theorem shape_rows_are_series_derivative (X : FCtx K) :
    Clt.cfuvw.u X = X.c .u * Clt.cfg.g00 X ∧ Clt.cfuvw.v X = X.c .v * Clt.cfg.g11 X ∧
    Clt.cfuvw.w X = X.c .w * Clt.cfg.g22 X ∧ CltW.cfw.w X = X.c .w * CltW.cfg.g00 X := by
  refine ⟨?_, ?_, ?_, ?_⟩ <;> simp only [panel_entry] <;> ring

/-- linear strains and curvatures (`NLterms = 0`): each degree of freedom contributes exactly what the Donnell
operator tables of C02 prescribe — flat branch (`r == 0`) with the plate table, cylindrical branch with the
cylindrical table -/
theorem strain_linear_eq_donnell (X : FCtx K) (ha : X.a ≠ 0) (hb : X.b ≠ 0) (hr : X.r ≠ 0) (h0 : X.NL = 0) :
    Clt.cfstrain.exx X = dofOp X (plateOps X.toP) 0 ∧
    Clt.cfstrain.eyy_flat X = dofOp X (plateOps X.toP) 1 ∧
    Clt.cfstrain.eyy_cyl X = dofOp X (cpanelOps X.toP) 1 ∧
    Clt.cfstrain.gxy X = dofOp X (plateOps X.toP) 2 ∧
    Clt.cfstrain.kxx X = dofOp X (plateOps X.toP) 3 ∧
    Clt.cfstrain.kyy X = dofOp X (plateOps X.toP) 4 ∧
    Clt.cfstrain.kxy X = dofOp X (plateOps X.toP) 5 := by
  refine ⟨?_, ?_, ?_, ?_, ?_, ?_, ?_⟩ <;>
    simp only [panel_entry, dofOp, plateOps, cpanelOps, FCtx.toP, h0, List.map, List.sum_cons, List.sum_nil] <;>
    field_simp <;> ring

/-- What the kernels add when `NLterms = 1` (the full statement — Donnell's `½ w,x²`, `½ w,y²`, `w,x w,y` of
the WHOLE series — is false, see `strain_nl_counterexample`): per degree of freedom the quadratic terms of
that degree of freedom's own slope. -/
theorem strain_nl_partial (X : FCtx K) (ha : X.a ≠ 0) (hb : X.b ≠ 0) (hr : X.r ≠ 0) :
    Clt.cfstrain.exx X = dofOp X (plateOps X.toP) 0 + X.NL * (1 / 2 * slopeX X ^ 2) ∧
    Clt.cfstrain.eyy_flat X = dofOp X (plateOps X.toP) 1 + X.NL * (1 / 2 * slopeY X ^ 2) ∧
    Clt.cfstrain.eyy_cyl X = dofOp X (cpanelOps X.toP) 1 + X.NL * (1 / 2 * slopeY X ^ 2) ∧
    Clt.cfstrain.gxy X = dofOp X (plateOps X.toP) 2 + X.NL * (slopeX X * slopeY X) := by
  refine ⟨?_, ?_, ?_, ?_⟩ <;>
    simp only [panel_entry, dofOp, plateOps, cpanelOps, FCtx.toP, slopeX, slopeY, List.map, List.sum_cons, List.sum_nil] <;>
    field_simp <;> ring

end kernels

/-- Counter-example to "the reported strains equal the Donnell relations with the quadratic slope terms":
two degrees of freedom whose slopes at a point are both 1 give `εxx(NL) − εxx(lin) = 1`, whereas
`½ w,x² = ½ (1 + 1)² = 2`. -/
theorem strain_nl_counterexample :
    let X₁ : FCtx ℚ := ⟨2, 2, 1, 1, fun _ => 1, fun _ _ _ => 1⟩
    let X₂ : FCtx ℚ := X₁
    slopeX X₁ = 1 ∧ slopeX X₂ = 1 ∧
    (Clt.cfstrain.exx X₁ + Clt.cfstrain.exx X₂) - (dofOp X₁ (plateOps X₁.toP) 0 + dofOp X₂ (plateOps X₂.toP) 0) = 1 ∧
    (1 / 2 : ℚ) * (slopeX X₁ + slopeX X₂) ^ 2 = 2 := by
  simp only [panel_entry, dofOp, plateOps, FCtx.toP, slopeX, List.map, List.sum_cons, List.sum_nil]
  norm_num

section chunking
open Compmech.Chunking

/-- results do not depend on the number of worker threads, on padding, or on how many points are requested:
for every point list and every `num_cores ≥ 1` the pad / reshape / per-chunk map / ravel / trim pipeline of
`fuvw`, `fstrain` returns exactly the point-wise map -/
theorem chunking_invariant {α β : Type} (f : α → β) (z : α) (xs : List α) (cores : Nat) (h : 1 ≤ cores) :
    chunkedMap f z xs cores = xs.map f :=
  chunkedMap_eq_map f z xs cores h

end chunking

section stress
open Compmech.Chunking
open scoped BigOperators

/-- `Panel.stress` returns, point by point, the LAMINATE MATRIX TIMES THE STRAINS OF THE SAME OPTION: for every laminate matrix (passed as
`F` or taken from `self.F`), every field kernel, every point list, every `num_cores ≥ 1` and both values of `NLterms`,
(1) the result is the image under `applyF F` of exactly what `Panel.strain(…, NLterms=NLterms)` returns — `NLterms` is FORWARDED —,
(2) these strains are the kernel's strains for the flag `int(NLterms)` at the requested points, in order,
(3) `applyF F e` is the matrix–vector product: component `r` of `(Nxx, Nyy, Nxy, Mxx, Myy, Mxy)` is `Σ_q F[r, q] · e_q` with
`e = (exx, eyy, gxy, kxx, kyy, kxy)`. -/
theorem stress_eq_F_strain {α K : Type} [Field K] (selfF Farg : Option (Fin 6 → Fin 6 → K))
    (F : Fin 6 → Fin 6 → K) (hF : Farg = some F ∨ (Farg = none ∧ selfF = some F))
    (kernel : Nat → α → Strain6 K) (z : α) (cores : Nat) (h : 1 ≤ cores) (NLterms : Bool) (pts : List α) :
    panelStress selfF Farg kernel z cores NLterms pts =
        some ((panelStrain kernel z cores NLterms pts).map (applyF F)) ∧
    panelStrain kernel z cores NLterms pts = pts.map (kernel (if NLterms then 1 else 0)) ∧
    ∀ (e : Strain6 K) (r : Fin 6), (applyF F e).vec r = ∑ q : Fin 6, F r q * e.vec q :=
  ⟨panelStress_some selfF Farg F hF kernel z cores NLterms pts, panelStrain_eq_map kernel z cores h NLterms pts,
    fun e r => applyF_vec F e r⟩

/-- … in particular `stress(…, NLterms=False)` is computed from the LINEAR strains only: whatever the kernel does for the flag 1 has no
influence (the defect `C11-stress-ignores-NLterms`, repaired in the source, is excluded by the model), and `stress(…, NLterms=True)`
from the strains of the flag 1. -/
theorem stress_nlterms_forwarded {α K : Type} [Field K] (selfF Farg : Option (Fin 6 → Fin 6 → K))
    (F : Fin 6 → Fin 6 → K) (hF : Farg = some F ∨ (Farg = none ∧ selfF = some F))
    (kernel : Nat → α → Strain6 K) (z : α) (cores : Nat) (h : 1 ≤ cores) (pts : List α) :
    panelStress selfF Farg kernel z cores false pts = some (pts.map fun x => applyF F (kernel 0 x)) ∧
    panelStress selfF Farg kernel z cores true pts = some (pts.map fun x => applyF F (kernel 1 x)) := by
  constructor
  · rw [panelStress_some selfF Farg F hF, panelStrain_eq_map kernel z cores h, List.map_map]; rfl
  · rw [panelStress_some selfF Farg F hF, panelStrain_eq_map kernel z cores h, List.map_map]; rfl

/-- without a laminate matrix (`F=None` and `self.F is None`) `Panel.stress` raises (`none`) instead of returning numbers -/
theorem stress_requires_laminate {α K : Type} [Field K] (kernel : Nat → α → Strain6 K) (z : α) (cores : Nat)
    (NLterms : Bool) (pts : List α) :
    panelStress (none : Option (Fin 6 → Fin 6 → K)) none kernel z cores NLterms pts = none :=
  panelStress_none kernel z cores NLterms pts

/-- ON THE REGENERATED STRAIN TERMS: with the kernel `cfstrain` assembled from the regenerated increments of `Gen/Field/Clt.lean`
(`cltKernel`: sum over the degrees of freedom, `flagcyl` branch), `Panel.stress(…, NLterms=False)` returns at every requested point
`N_r = Σ_q F[r, q] · ε_q` with `ε` the LINEAR Donnell strains / curvatures of the whole series there (operator tables of C02; flat model:
no condition on `r`). -/
theorem stress_linear_eq_F_donnell {α K : Type} [Field K] [CharZero K] (selfF Farg : Option (Fin 6 → Fin 6 → K))
    (F : Fin 6 → Fin 6 → K) (hF : Farg = some F ∨ (Farg = none ∧ selfF = some F))
    (cyl : Bool) (dofsAt : α → List (FCtx K)) (z : α) (cores : Nat) (h : 1 ≤ cores) (pts : List α)
    (hpts : ∀ x ∈ pts, ∀ X ∈ dofsAt x, X.a ≠ 0 ∧ X.b ≠ 0 ∧ (cyl = true → X.r ≠ 0)) :
    ∃ res : List (Res6 K), panelStress selfF Farg (cltKernel cyl dofsAt) z cores false pts = some res ∧
      res.length = pts.length ∧
      ∀ (p : Nat) (hp : p < pts.length) (hr : p < res.length) (r : Fin 6),
        (res[p]).vec r = ∑ q : Fin 6, F r q * donnellStrain cyl (dofsAt pts[p]) q := by
  refine ⟨_, (stress_nlterms_forwarded selfF Farg F hF (cltKernel cyl dofsAt) z cores h pts).1, by simp, ?_⟩
  intro p hp hr r
  rw [List.getElem_map, applyF_vec]
  refine Finset.sum_congr rfl fun q _ => ?_
  rw [cltKernel_linear cyl dofsAt pts[p] (hpts _ (List.getElem_mem hp)) q]

/-- non-vacuity: two points, three worker threads, a full laminate matrix `F[r, q] = r + 2q + 1`, a kernel that returns different
strains for the two flags -/
example :
    panelStress (K := ℚ) none (some fun r q => (r.val : ℚ) + 2 * q.val + 1)
      (fun flag (x : ℚ) => ⟨x, 2, 3, flag, 5, 6⟩) 0 3 false [1, 10] =
      some [⟨133, 150, 167, 184, 201, 218⟩, ⟨142, 168, 194, 220, 246, 272⟩] ∧
    panelStress (K := ℚ) none (some fun r q => (r.val : ℚ) + 2 * q.val + 1)
      (fun flag (x : ℚ) => ⟨x, 2, 3, flag, 5, 6⟩) 0 3 true [1, 10] =
      some [⟨140, 158, 176, 194, 212, 230⟩, ⟨149, 176, 203, 230, 257, 284⟩] := by
  constructor
  · rw [(stress_nlterms_forwarded none _ _ (Or.inl rfl) _ 0 3 (by norm_num) _).1]
    norm_num [applyF, stressRow]
  · rw [(stress_nlterms_forwarded none _ _ (Or.inl rfl) _ 0 3 (by norm_num) _).2]
    norm_num [applyF, stressRow]

/-- non-vacuity of `stress_linear_eq_F_donnell`: a cylindrical panel (`a = b = 2`, `r = 1`), one degree of freedom whose amplitudes
depend on the point, `NL` stored as 1 in the contexts (overwritten by the forwarded flag 0), two worker threads -/
example : ∃ res : List (Res6 ℚ),
    panelStress none (some fun r q => (r.val : ℚ) + 2 * q.val + 1)
      (cltKernel true fun x : ℚ => [⟨2, 2, 1, 1, fun _ => x, fun _ _ _ => 1⟩]) 0 2 false [1, 3] = some res ∧
    res.length = 2 ∧
    ∀ (p : Nat) (hp : p < 2) (hr : p < res.length) (r : Fin 6),
      (res[p]).vec r = ∑ q : Fin 6, ((r.val : ℚ) + 2 * q.val + 1) *
        donnellStrain true [⟨2, 2, 1, 1, fun _ => [1, 3][p], fun _ _ _ => 1⟩] q :=
  stress_linear_eq_F_donnell none _ _ (Or.inl rfl) true _ 0 2 (by norm_num) [1, 3]
    (by intro x _ X hX; simp only [List.mem_cons, List.not_mem_nil, or_false] at hX; subst hX; norm_num)

end stress

end Compmech.Panel.C11
