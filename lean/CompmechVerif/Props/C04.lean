/-
C04 — Mass matrix = Hessian of the kinetic energy of a plate of density `mu`, thickness `h`, whose
material points move as `u − z w,x`, `v − z w,y`, `w`.
The theorems COMPUTE where the kernels put the mid-plane: at `z = −d` (`massW P (−P.d)`), whereas
`laminate.py` stacks the plies from `−t/2 + offset`, i.e. mid-plane at `z = +offset`; hence the glue
must pass `d = −offset` (`Panel.calc_kM` passed `+offset` until fix ca9efb9, see known_findings.json:
C04-mass-offset-sign).  Which sign the running glue passes is checked by tools/props/C04.py.
Models regenerated from compmech/panel/models/*.pyx on every run.
-/
import CompmechVerif.Gen.Panel.Plate
import CompmechVerif.Gen.Panel.PlateW
import CompmechVerif.Gen.Panel.CPanel
import CompmechVerif.Gen.Panel.KPanel
import CompmechVerif.Spec.Kinematics
import CompmechVerif.Core.OpSpecTactics
import CompmechVerif.Core.OpSpecLemmas
import CompmechVerif.Spec.WholeMatrix
import CompmechVerif.Spec.WholeMatrixPSD
import CompmechVerif.Spec.PSDExample
import Mathlib.Tactic.Positivity
import Mathlib.Tactic.FinCases
import Mathlib.Data.Fintype.Basic

set_option linter.unnecessarySeqFocus false

namespace Compmech.Panel.C04
open Compmech.Panel Compmech.Gen

variable {K : Type} [Field K] [CharZero K]

theorem massW_symm (P : PCtx K) (δ : K) (p q : Fin 5) : massW P δ p q = massW P δ q p := by
  fin_cases p <;> fin_cases q <;> rfl

theorem kM_entry_plate_partial (P : PCtx K) (ha : P.a ≠ 0) (hb : P.b ≠ 0) (ro co : Fin 3) :
    Plate.fkM.entry ro co P = hessian P .full .full (velOps P) (massW P (-P.d)) (fld3 ro) (fld3 co) := by
  fin_cases ro <;> fin_cases co <;> entry_eq_form [velOps, massW]

theorem kMy1y2_entry_plate_partial (P : PCtx K) (ha : P.a ≠ 0) (hb : P.b ≠ 0) (ro co : Fin 3) :
    Plate.fkMy1y2.entry ro co P = hessian P .full .sub (velOps P) (massW P (-P.d)) (fld3 ro) (fld3 co) := by
  fin_cases ro <;> fin_cases co <;> entry_eq_form [velOps, massW]

theorem kM_entry_cpanel_partial (P : PCtx K) (ha : P.a ≠ 0) (hb : P.b ≠ 0) (ro co : Fin 3) :
    CPanel.fkM.entry ro co P = hessian P .full .full (velOps P) (massW P (-P.d)) (fld3 ro) (fld3 co) := by
  fin_cases ro <;> fin_cases co <;> entry_eq_form [velOps, massW]

theorem kMy1y2_entry_cpanel_partial (P : PCtx K) (ha : P.a ≠ 0) (hb : P.b ≠ 0) (ro co : Fin 3) :
    CPanel.fkMy1y2.entry ro co P = hessian P .full .sub (velOps P) (massW P (-P.d)) (fld3 ro) (fld3 co) := by
  fin_cases ro <;> fin_cases co <;> entry_eq_form [velOps, massW]

theorem kM_entry_kpanel_partial (P : PCtx K) (ha : P.a ≠ 0) (hb : P.b ≠ 0) (ro co : Fin 3) :
    KPanel.fkM.entry ro co P = hessian P .sub .full (velOps P) (massW P (-P.d)) (fld3 ro) (fld3 co) := by
  fin_cases ro <;> fin_cases co <;> entry_eq_form [velOps, massW]

theorem kMy1y2_entry_kpanel_partial (P : PCtx K) (ha : P.a ≠ 0) (hb : P.b ≠ 0) (ro co : Fin 3) :
    KPanel.fkMy1y2.entry ro co P = hessian P .sub .sub (velOps P) (massW P (-P.d)) (fld3 ro) (fld3 co) := by
  fin_cases ro <;> fin_cases co <;> entry_eq_form [velOps, massW]


/-! ### symmetry of the whole mass matrix: `M[r, c] = M[c, r]` for every pair of degrees of freedom
(`P.swap`: the same integrals with the roles of the row and column basis functions exchanged) -/

theorem kM_symm_plate (P : PCtx K) (ha : P.a ≠ 0) (hb : P.b ≠ 0) (ro co : Fin 3) :
    Plate.fkM.entry ro co P = Plate.fkM.entry co ro P.swap := by
  rw [kM_entry_plate_partial P ha hb, kM_entry_plate_partial P.swap ha hb]
  exact (hessian_swap P _ _ (velOps P) (massW P (-P.d)) (massW_symm P (-P.d)) _ _).symm

theorem kMy1y2_symm_plate (P : PCtx K) (ha : P.a ≠ 0) (hb : P.b ≠ 0) (ro co : Fin 3) :
    Plate.fkMy1y2.entry ro co P = Plate.fkMy1y2.entry co ro P.swap := by
  rw [kMy1y2_entry_plate_partial P ha hb, kMy1y2_entry_plate_partial P.swap ha hb]
  exact (hessian_swap P _ _ (velOps P) (massW P (-P.d)) (massW_symm P (-P.d)) _ _).symm

theorem kM_symm_cpanel (P : PCtx K) (ha : P.a ≠ 0) (hb : P.b ≠ 0) (ro co : Fin 3) :
    CPanel.fkM.entry ro co P = CPanel.fkM.entry co ro P.swap := by
  rw [kM_entry_cpanel_partial P ha hb, kM_entry_cpanel_partial P.swap ha hb]
  exact (hessian_swap P _ _ (velOps P) (massW P (-P.d)) (massW_symm P (-P.d)) _ _).symm

theorem kMy1y2_symm_cpanel (P : PCtx K) (ha : P.a ≠ 0) (hb : P.b ≠ 0) (ro co : Fin 3) :
    CPanel.fkMy1y2.entry ro co P = CPanel.fkMy1y2.entry co ro P.swap := by
  rw [kMy1y2_entry_cpanel_partial P ha hb, kMy1y2_entry_cpanel_partial P.swap ha hb]
  exact (hessian_swap P _ _ (velOps P) (massW P (-P.d)) (massW_symm P (-P.d)) _ _).symm

theorem kM_symm_kpanel (P : PCtx K) (ha : P.a ≠ 0) (hb : P.b ≠ 0) (ro co : Fin 3) :
    KPanel.fkM.entry ro co P = KPanel.fkM.entry co ro P.swap := by
  rw [kM_entry_kpanel_partial P ha hb, kM_entry_kpanel_partial P.swap ha hb]
  exact (hessian_swap P _ _ (velOps P) (massW P (-P.d)) (massW_symm P (-P.d)) _ _).symm

theorem kMy1y2_symm_kpanel (P : PCtx K) (ha : P.a ≠ 0) (hb : P.b ≠ 0) (ro co : Fin 3) :
    KPanel.fkMy1y2.entry ro co P = KPanel.fkMy1y2.entry co ro P.swap := by
  rw [kMy1y2_entry_kpanel_partial P ha hb, kMy1y2_entry_kpanel_partial P.swap ha hb]
  exact (hessian_swap P _ _ (velOps P) (massW P (-P.d)) (massW_symm P (-P.d)) _ _).symm


/-! ### the whole matrix (loop nest of Model/PanelLoop.lean + `finalize_symmetric_matrix`): the kinetic-energy Hessian at every pair of positions -/

/-- the regenerated kernels have exactly the modelled loop nest, dof map, skip condition and section geometry -/
theorem loop_nest_standard :
    Plate.fkM.schema = LoopSchema.std 3 none ∧
    Plate.fkMy1y2.schema = LoopSchema.stdYX 3 ∧
    CPanel.fkM.schema = LoopSchema.std 3 none ∧
    CPanel.fkMy1y2.schema = LoopSchema.stdYX 3 ∧
    KPanel.fkM.schema = LoopSchema.std 3 (some 41) ∧
    KPanel.fkMy1y2.schema = LoopSchema.std 3 (some 41) := by
  decide

open Compmech.Asm in
theorem kM_matrix_plate (base : PCtx K) (I : Integrals K) (hI : I.Comm) (ha : base.a ≠ 0) (hb : base.b ≠ 0)
    (m n row0 : Nat) {i k j l : Nat} (hi : i < m) (hk : k < m) (hj : j < n) (hl : l < n) (α β : Fin 3) :
    toFun (panelCoo 3 m n row0 Plate.fkM.entry base I) (row0 + 3 * (j * m + i) + α.val)
        (row0 + 3 * (l * m + k) + β.val)
      = hessian (ctxAt base I i k j l) .full .full (velOps base) (massW base (-base.d)) (fld3 α) (fld3 β) := by
  rw [panelCoo_entry 3 m n row0 _ base I hI
    (fun ro co i k j l => kM_symm_plate (ctxAt base I i k j l) ha hb ro co) hi hk hj hl]
  exact kM_entry_plate_partial (ctxAt base I i k j l) ha hb α β

open Compmech.Asm in
theorem kMy1y2_matrix_plate (base : PCtx K) (I : Integrals K) (hI : I.Comm) (ha : base.a ≠ 0) (hb : base.b ≠ 0)
    (m n row0 : Nat) {i k j l : Nat} (hi : i < m) (hk : k < m) (hj : j < n) (hl : l < n) (α β : Fin 3) :
    toFun (panelCooYX 3 m n row0 Plate.fkMy1y2.entry base I) (row0 + 3 * (j * m + i) + α.val)
        (row0 + 3 * (l * m + k) + β.val)
      = hessian (ctxAt base I i k j l) .full .sub (velOps base) (massW base (-base.d)) (fld3 α) (fld3 β) := by
  rw [panelCooYX_entry 3 m n row0 _ base I hI
    (fun ro co i k j l => kMy1y2_symm_plate (ctxAt base I i k j l) ha hb ro co) hi hk hj hl]
  exact kMy1y2_entry_plate_partial (ctxAt base I i k j l) ha hb α β

open Compmech.Asm in
theorem kM_matrix_cpanel (base : PCtx K) (I : Integrals K) (hI : I.Comm) (ha : base.a ≠ 0) (hb : base.b ≠ 0)
    (m n row0 : Nat) {i k j l : Nat} (hi : i < m) (hk : k < m) (hj : j < n) (hl : l < n) (α β : Fin 3) :
    toFun (panelCoo 3 m n row0 CPanel.fkM.entry base I) (row0 + 3 * (j * m + i) + α.val)
        (row0 + 3 * (l * m + k) + β.val)
      = hessian (ctxAt base I i k j l) .full .full (velOps base) (massW base (-base.d)) (fld3 α) (fld3 β) := by
  rw [panelCoo_entry 3 m n row0 _ base I hI
    (fun ro co i k j l => kM_symm_cpanel (ctxAt base I i k j l) ha hb ro co) hi hk hj hl]
  exact kM_entry_cpanel_partial (ctxAt base I i k j l) ha hb α β

open Compmech.Asm in
theorem kMy1y2_matrix_cpanel (base : PCtx K) (I : Integrals K) (hI : I.Comm) (ha : base.a ≠ 0) (hb : base.b ≠ 0)
    (m n row0 : Nat) {i k j l : Nat} (hi : i < m) (hk : k < m) (hj : j < n) (hl : l < n) (α β : Fin 3) :
    toFun (panelCooYX 3 m n row0 CPanel.fkMy1y2.entry base I) (row0 + 3 * (j * m + i) + α.val)
        (row0 + 3 * (l * m + k) + β.val)
      = hessian (ctxAt base I i k j l) .full .sub (velOps base) (massW base (-base.d)) (fld3 α) (fld3 β) := by
  rw [panelCooYX_entry 3 m n row0 _ base I hI
    (fun ro co i k j l => kMy1y2_symm_cpanel (ctxAt base I i k j l) ha hb ro co) hi hk hj hl]
  exact kMy1y2_entry_cpanel_partial (ctxAt base I i k j l) ha hb α β

open Compmech.Asm in
theorem kM_matrix_kpanel (base : PCtx K) (I : Nat → Integrals K) (hI : ∀ sec, (I sec).Comm) (s : Nat)
    (ha : base.a ≠ 0) (hb : ∀ sec, (sectionBase base s sec).b ≠ 0)
    (m n row0 : Nat) {i k j l : Nat} (hi : i < m) (hk : k < m) (hj : j < n) (hl : l < n) (α β : Fin 3) :
    toFun (conePanelCoo s 3 m n row0 KPanel.fkM.entry base I) (row0 + 3 * (j * m + i) + α.val)
        (row0 + 3 * (l * m + k) + β.val)
      = ((List.range s).map fun sec =>
          hessian (ctxAt (sectionBase base s sec) (I sec) i k j l) .sub .full (velOps (sectionBase base s sec))
            (massW (sectionBase base s sec) (-base.d)) (fld3 α) (fld3 β)).sum := by
  rw [conePanelCoo_entry s 3 m n row0 _ base I hI
    (fun sec ro co i k j l => kM_symm_kpanel (ctxAt (sectionBase base s sec) (I sec) i k j l) ha (hb sec) ro co)
    hi hk hj hl]
  refine congrArg List.sum (List.map_congr_left fun sec _ => ?_)
  exact kM_entry_kpanel_partial (ctxAt (sectionBase base s sec) (I sec) i k j l) ha (hb sec) α β

open Compmech.Asm in
theorem kMy1y2_matrix_kpanel (base : PCtx K) (I : Nat → Integrals K) (hI : ∀ sec, (I sec).Comm) (s : Nat)
    (ha : base.a ≠ 0) (hb : ∀ sec, (sectionBase base s sec).b ≠ 0)
    (m n row0 : Nat) {i k j l : Nat} (hi : i < m) (hk : k < m) (hj : j < n) (hl : l < n) (α β : Fin 3) :
    toFun (conePanelCoo s 3 m n row0 KPanel.fkMy1y2.entry base I) (row0 + 3 * (j * m + i) + α.val)
        (row0 + 3 * (l * m + k) + β.val)
      = ((List.range s).map fun sec =>
          hessian (ctxAt (sectionBase base s sec) (I sec) i k j l) .sub .sub (velOps (sectionBase base s sec))
            (massW (sectionBase base s sec) (-base.d)) (fld3 α) (fld3 β)).sum := by
  rw [conePanelCoo_entry s 3 m n row0 _ base I hI
    (fun sec ro co i k j l => kMy1y2_symm_kpanel (ctxAt (sectionBase base s sec) (I sec) i k j l) ha (hb sec) ro co)
    hi hk hj hl]
  refine congrArg List.sum (List.map_congr_left fun sec _ => ?_)
  exact kMy1y2_entry_kpanel_partial (ctxAt (sectionBase base s sec) (I sec) i k j l) ha (hb sec) α β


/-! ### positive semi-definiteness of the whole mass matrix (over ℝ)

The weight of the kinetic energy is positive semi-definite for `mu, h ≥ 0`, wherever the mid-plane sits:
`eᵀ massW e = mu h [(e₀ − δ e₃)² + (e₁ − δ e₄)² + e₂² + (h²/12)(e₃² + e₄²)]`.
`RealIntegrals I dx dy X Y x₁ x₂ y₁ y₂`: the one-dimensional integrals ARE integrals of products of continuous functions
(`I .x dx d₁ f₁ i d₂ f₂ k = ∫_{x₁}^{x₂} X d₁ f₁ i · X d₂ f₂ k`, same along y; `x₁ ≤ x₂`, `y₁ ≤ y₂`).  Then for ANY series orders
`m, n`, ANY placement `row0`, ANY amplitude vector `v` over the panel's `3·m·n` degrees of freedom, `vᵀ M v ≥ 0` for the
finalized mass matrix (`vᵀ M v` = twice the kinetic energy of the velocity field `v`; Core/OpSpecPSD.lean `hessian_psd`). -/

open scoped BigOperators

/-- the through-thickness mass moments form a positive semi-definite weight (sum of squares plus `h²/12` terms) -/
theorem massW_psd (P : PCtx ℝ) (δ : ℝ) (hmu : 0 ≤ P.mu) (hh : 0 ≤ P.h) : WeightPSD (massW P δ) := by
  intro e
  have key : ∑ p, ∑ q, massW P δ p q * e p * e q
      = P.mu * P.h * ((e 0 - δ * e 3) ^ 2 + (e 1 - δ * e 4) ^ 2 + e 2 ^ 2 + P.h * P.h / 12 * (e 3 ^ 2 + e 4 ^ 2)) := by
    simp only [Fin.sum_univ_five, massW]
    ring
  rw [key]
  positivity

open Compmech.Asm in
/-- flat plate: the mass matrix is positive semi-definite -/
theorem kM_matrix_psd_plate (base : PCtx ℝ) (I : Integrals ℝ) (hI : I.Comm) (ha : base.a ≠ 0) (hb : base.b ≠ 0)
    (hmu : 0 ≤ base.mu) (hh : 0 ≤ base.h) (hab : 0 ≤ base.a * base.b)
    (X Y : Nat → Fld → Nat → ℝ → ℝ) (x₁ x₂ y₁ y₂ : ℝ) (hR : RealIntegrals I .full .full X Y x₁ x₂ y₁ y₂)
    (m n row0 : Nat) (v : Nat → ℝ) :
    0 ≤ ∑ r ∈ Finset.range (3 * m * n), ∑ c ∈ Finset.range (3 * m * n),
      v (row0 + r) * toFun (panelCoo 3 m n row0 Plate.fkM.entry base I) (row0 + r) (row0 + c) * v (row0 + c) :=
  matrix_psd_of_hessian _ m n row0 fld3 base I .full .full (velOps base) (massW base (-base.d))
    (fun hi hk hj hl α β => kM_matrix_plate base I hI ha hb m n row0 hi hk hj hl α β) X Y x₁ x₂ y₁ y₂ hR
    (massW_psd base (-base.d) hmu hh) hab v

open Compmech.Asm in
theorem kMy1y2_matrix_psd_plate (base : PCtx ℝ) (I : Integrals ℝ) (hI : I.Comm) (ha : base.a ≠ 0) (hb : base.b ≠ 0)
    (hmu : 0 ≤ base.mu) (hh : 0 ≤ base.h) (hab : 0 ≤ base.a * base.b)
    (X Y : Nat → Fld → Nat → ℝ → ℝ) (x₁ x₂ y₁ y₂ : ℝ) (hR : RealIntegrals I .full .sub X Y x₁ x₂ y₁ y₂)
    (m n row0 : Nat) (v : Nat → ℝ) :
    0 ≤ ∑ r ∈ Finset.range (3 * m * n), ∑ c ∈ Finset.range (3 * m * n),
      v (row0 + r) * toFun (panelCooYX 3 m n row0 Plate.fkMy1y2.entry base I) (row0 + r) (row0 + c) * v (row0 + c) :=
  matrix_psd_of_hessian _ m n row0 fld3 base I .full .sub (velOps base) (massW base (-base.d))
    (fun hi hk hj hl α β => kMy1y2_matrix_plate base I hI ha hb m n row0 hi hk hj hl α β) X Y x₁ x₂ y₁ y₂ hR
    (massW_psd base (-base.d) hmu hh) hab v

open Compmech.Asm in
/-- cylindrical panel -/
theorem kM_matrix_psd_cpanel (base : PCtx ℝ) (I : Integrals ℝ) (hI : I.Comm) (ha : base.a ≠ 0) (hb : base.b ≠ 0)
    (hmu : 0 ≤ base.mu) (hh : 0 ≤ base.h) (hab : 0 ≤ base.a * base.b)
    (X Y : Nat → Fld → Nat → ℝ → ℝ) (x₁ x₂ y₁ y₂ : ℝ) (hR : RealIntegrals I .full .full X Y x₁ x₂ y₁ y₂)
    (m n row0 : Nat) (v : Nat → ℝ) :
    0 ≤ ∑ r ∈ Finset.range (3 * m * n), ∑ c ∈ Finset.range (3 * m * n),
      v (row0 + r) * toFun (panelCoo 3 m n row0 CPanel.fkM.entry base I) (row0 + r) (row0 + c) * v (row0 + c) :=
  matrix_psd_of_hessian _ m n row0 fld3 base I .full .full (velOps base) (massW base (-base.d))
    (fun hi hk hj hl α β => kM_matrix_cpanel base I hI ha hb m n row0 hi hk hj hl α β) X Y x₁ x₂ y₁ y₂ hR
    (massW_psd base (-base.d) hmu hh) hab v

open Compmech.Asm in
theorem kMy1y2_matrix_psd_cpanel (base : PCtx ℝ) (I : Integrals ℝ) (hI : I.Comm) (ha : base.a ≠ 0) (hb : base.b ≠ 0)
    (hmu : 0 ≤ base.mu) (hh : 0 ≤ base.h) (hab : 0 ≤ base.a * base.b)
    (X Y : Nat → Fld → Nat → ℝ → ℝ) (x₁ x₂ y₁ y₂ : ℝ) (hR : RealIntegrals I .full .sub X Y x₁ x₂ y₁ y₂)
    (m n row0 : Nat) (v : Nat → ℝ) :
    0 ≤ ∑ r ∈ Finset.range (3 * m * n), ∑ c ∈ Finset.range (3 * m * n),
      v (row0 + r) * toFun (panelCooYX 3 m n row0 CPanel.fkMy1y2.entry base I) (row0 + r) (row0 + c) * v (row0 + c) :=
  matrix_psd_of_hessian _ m n row0 fld3 base I .full .sub (velOps base) (massW base (-base.d))
    (fun hi hk hj hl α β => kMy1y2_matrix_cpanel base I hI ha hb m n row0 hi hk hj hl α β) X Y x₁ x₂ y₁ y₂ hR
    (massW_psd base (-base.d) hmu hh) hab v

open Compmech.Asm in
/-- conical panel: finite sum over the constant-radius sections of positive semi-definite forms -/
theorem kM_matrix_psd_kpanel (base : PCtx ℝ) (I : Nat → Integrals ℝ) (hI : ∀ sec, (I sec).Comm) (s : Nat)
    (ha : base.a ≠ 0) (hb : ∀ sec, (sectionBase base s sec).b ≠ 0)
    (hmu : 0 ≤ base.mu) (hh : 0 ≤ base.h) (hab : ∀ sec, sec < s → 0 ≤ base.a * (sectionBase base s sec).b)
    (X Y : Nat → Nat → Fld → Nat → ℝ → ℝ) (x₁ x₂ y₁ y₂ : Nat → ℝ)
    (hR : ∀ sec, sec < s → RealIntegrals (I sec) .sub .full (X sec) (Y sec) (x₁ sec) (x₂ sec) (y₁ sec) (y₂ sec))
    (m n row0 : Nat) (v : Nat → ℝ) :
    0 ≤ ∑ r ∈ Finset.range (3 * m * n), ∑ c ∈ Finset.range (3 * m * n),
      v (row0 + r) * toFun (conePanelCoo s 3 m n row0 KPanel.fkM.entry base I) (row0 + r) (row0 + c) * v (row0 + c) :=
  matrix_psd_of_hessian_sections _ s m n row0 fld3 (sectionBase base s) I .sub .full
    (fun sec => velOps (sectionBase base s sec)) (fun sec => massW (sectionBase base s sec) (-base.d))
    (fun hi hk hj hl α β => kM_matrix_kpanel base I hI s ha hb m n row0 hi hk hj hl α β)
    X Y x₁ x₂ y₁ y₂ hR (fun sec _ => massW_psd (sectionBase base s sec) (-base.d) hmu hh) hab v

open Compmech.Asm in
theorem kMy1y2_matrix_psd_kpanel (base : PCtx ℝ) (I : Nat → Integrals ℝ) (hI : ∀ sec, (I sec).Comm) (s : Nat)
    (ha : base.a ≠ 0) (hb : ∀ sec, (sectionBase base s sec).b ≠ 0)
    (hmu : 0 ≤ base.mu) (hh : 0 ≤ base.h) (hab : ∀ sec, sec < s → 0 ≤ base.a * (sectionBase base s sec).b)
    (X Y : Nat → Nat → Fld → Nat → ℝ → ℝ) (x₁ x₂ y₁ y₂ : Nat → ℝ)
    (hR : ∀ sec, sec < s → RealIntegrals (I sec) .sub .sub (X sec) (Y sec) (x₁ sec) (x₂ sec) (y₁ sec) (y₂ sec))
    (m n row0 : Nat) (v : Nat → ℝ) :
    0 ≤ ∑ r ∈ Finset.range (3 * m * n), ∑ c ∈ Finset.range (3 * m * n),
      v (row0 + r) * toFun (conePanelCoo s 3 m n row0 KPanel.fkMy1y2.entry base I) (row0 + r) (row0 + c) * v (row0 + c) :=
  matrix_psd_of_hessian_sections _ s m n row0 fld3 (sectionBase base s) I .sub .sub
    (fun sec => velOps (sectionBase base s sec)) (fun sec => massW (sectionBase base s sec) (-base.d))
    (fun hi hk hj hl α β => kMy1y2_matrix_kpanel base I hI s ha hb m n row0 hi hk hj hl α β)
    X Y x₁ x₂ y₁ y₂ hR (fun sec _ => massW_psd (sectionBase base s sec) (-base.d) hmu hh) hab v

/-! Non-vacuity: the instance of Spec/PSDExample.lean (`a = b = 2`, `r = 1`, `sin α = −1/2`, identity laminate matrix,
`mu = h = 1`, `d = 1/10`; the integrals of products of the monomials `t^(i+d)` over `[−1, 1]`) meets all hypotheses of every
theorem of this section, for all `m, n, row0, v` (and any number of sections). -/

open PSDExample in
example : WeightPSD (massW unitBase (-unitBase.d)) := massW_psd unitBase _ (by norm_num [unitBase]) (by norm_num [unitBase])

open Compmech.Asm PSDExample in
example (m n row0 : Nat) (v : Nat → ℝ) :
    0 ≤ ∑ r ∈ Finset.range (3 * m * n), ∑ c ∈ Finset.range (3 * m * n),
      v (row0 + r) * toFun (panelCoo 3 m n row0 Plate.fkM.entry unitBase monoI) (row0 + r) (row0 + c) * v (row0 + c) :=
  kM_matrix_psd_plate unitBase monoI monoI_comm (by norm_num [unitBase]) (by norm_num [unitBase]) (by norm_num [unitBase]) (by norm_num [unitBase])
    (by norm_num [unitBase]) mono mono (-1) 1 (-1) 1 (monoI_real _ _) m n row0 v

open Compmech.Asm PSDExample in
example (m n row0 : Nat) (v : Nat → ℝ) :
    0 ≤ ∑ r ∈ Finset.range (3 * m * n), ∑ c ∈ Finset.range (3 * m * n),
      v (row0 + r) * toFun (panelCooYX 3 m n row0 Plate.fkMy1y2.entry unitBase monoI) (row0 + r) (row0 + c) * v (row0 + c) :=
  kMy1y2_matrix_psd_plate unitBase monoI monoI_comm (by norm_num [unitBase]) (by norm_num [unitBase]) (by norm_num [unitBase]) (by norm_num [unitBase])
    (by norm_num [unitBase]) mono mono (-1) 1 (-1) 1 (monoI_real _ _) m n row0 v

open Compmech.Asm PSDExample in
example (m n row0 : Nat) (v : Nat → ℝ) :
    0 ≤ ∑ r ∈ Finset.range (3 * m * n), ∑ c ∈ Finset.range (3 * m * n),
      v (row0 + r) * toFun (panelCoo 3 m n row0 CPanel.fkM.entry unitBase monoI) (row0 + r) (row0 + c) * v (row0 + c) :=
  kM_matrix_psd_cpanel unitBase monoI monoI_comm (by norm_num [unitBase]) (by norm_num [unitBase]) (by norm_num [unitBase]) (by norm_num [unitBase])
    (by norm_num [unitBase]) mono mono (-1) 1 (-1) 1 (monoI_real _ _) m n row0 v

open Compmech.Asm PSDExample in
example (m n row0 : Nat) (v : Nat → ℝ) :
    0 ≤ ∑ r ∈ Finset.range (3 * m * n), ∑ c ∈ Finset.range (3 * m * n),
      v (row0 + r) * toFun (panelCooYX 3 m n row0 CPanel.fkMy1y2.entry unitBase monoI) (row0 + r) (row0 + c) * v (row0 + c) :=
  kMy1y2_matrix_psd_cpanel unitBase monoI monoI_comm (by norm_num [unitBase]) (by norm_num [unitBase]) (by norm_num [unitBase]) (by norm_num [unitBase])
    (by norm_num [unitBase]) mono mono (-1) 1 (-1) 1 (monoI_real _ _) m n row0 v

open Compmech.Asm PSDExample in
example (s m n row0 : Nat) (v : Nat → ℝ) :
    0 ≤ ∑ r ∈ Finset.range (3 * m * n), ∑ c ∈ Finset.range (3 * m * n),
      v (row0 + r) * toFun (conePanelCoo s 3 m n row0 KPanel.fkM.entry unitBase fun _ => monoI) (row0 + r) (row0 + c)
        * v (row0 + c) :=
  kM_matrix_psd_kpanel unitBase (fun _ => monoI) (fun _ => monoI_comm) s (by norm_num [unitBase])
    (fun sec => (section_b_pos s sec).ne') (by norm_num [unitBase]) (by norm_num [unitBase])
    (fun sec _ => mul_nonneg (by norm_num [unitBase]) (section_b_pos s sec).le)
    (fun _ => mono) (fun _ => mono) (fun _ => -1) (fun _ => 1) (fun _ => -1) (fun _ => 1) (fun _ _ => monoI_real _ _)
    m n row0 v

open Compmech.Asm PSDExample in
example (s m n row0 : Nat) (v : Nat → ℝ) :
    0 ≤ ∑ r ∈ Finset.range (3 * m * n), ∑ c ∈ Finset.range (3 * m * n),
      v (row0 + r) * toFun (conePanelCoo s 3 m n row0 KPanel.fkMy1y2.entry unitBase fun _ => monoI) (row0 + r) (row0 + c)
        * v (row0 + c) :=
  kMy1y2_matrix_psd_kpanel unitBase (fun _ => monoI) (fun _ => monoI_comm) s (by norm_num [unitBase])
    (fun sec => (section_b_pos s sec).ne') (by norm_num [unitBase]) (by norm_num [unitBase])
    (fun sec _ => mul_nonneg (by norm_num [unitBase]) (section_b_pos s sec).le)
    (fun _ => mono) (fun _ => mono) (fun _ => -1) (fun _ => 1) (fun _ => -1) (fun _ => 1) (fun _ _ => monoI_real _ _)
    m n row0 v

end Compmech.Panel.C04
