/-
C04 — Mass matrix = Hessian of the kinetic energy of a plate of density `mu`, thickness `h`, whose
material points move as `u − z w,x`, `v − z w,y`, `w`.
The theorems COMPUTE where the kernels put the mid-plane: at `z = −d` (`massW P (−P.d)`), whereas
`laminate.py` stacks the plies from `−t/2 + offset`, i.e. mid-plane at `z = +offset`; hence the glue
must pass `d = −offset` (`Panel.calc_kM` passed `+offset` until fix ca9efb9, see known_findings.json:
C04-mass-offset-sign).  Which sign the running glue passes is checked by tools/props/C04.py.
Models regenerated from compmech/panel/models/*.pyx on every run.

TOTAL MASS (last section): with the exact real integrals of the all-free Bardell basis (`bardellI`, Spec/BardellIntegrals.lean) the
finalized mass matrix gives `cᵀ M c = mu·h·a·b` for each rigid translation `c` (`u ≡ 1`, `v ≡ 1`, `w ≡ 1`; Spec/RigidTranslation.lean
`rigidAmp`), for any series orders `m, n ≥ 3`, any placement and ANY offset `d`; `mu·h·a·(y2 − y1)` for the strip kernels.
The same instance closes the hypothesis "the integrals are real integrals of products of continuous functions" of the positive
semi-definiteness theorems for the basis of the package (`kM_matrix_psd_bardell_*`).
-/
import CompmechVerif.Gen.Panel.Plate
import CompmechVerif.Gen.Panel.PlateW
import CompmechVerif.Gen.Panel.CPanel
import CompmechVerif.Gen.Panel.KPanel
import CompmechVerif.Spec.Kinematics
import CompmechVerif.Core.OpSpecTactics
import CompmechVerif.Core.OpSpecLemmas
import CompmechVerif.Spec.WholeMatrix
import CompmechVerif.Spec.WholeMatrixPSD
import CompmechVerif.Spec.PSDExample
import CompmechVerif.Spec.RigidTranslation
import CompmechVerif.Spec.BardellIntegrals
import CompmechVerif.Model.PanelGlueLemmas
import CompmechVerif.Spec.PanelGlueKernels
import CompmechVerif.Spec.PanelGlueKernelsCone
import CompmechVerif.Spec.ConeSections
import Mathlib.Tactic.Positivity
import Mathlib.Tactic.FinCases
import Mathlib.Data.Fintype.Basic

set_option linter.unnecessarySeqFocus false

namespace Compmech.Panel.C04
open Compmech.Panel Compmech.Gen

variable {K : Type} [Field K] [CharZero K]

theorem massW_symm (P : PCtx K) (δ : K) (p q : Fin 5) : massW P δ p q = massW P δ q p := by
  fin_cases p <;> fin_cases q <;> rfl

theorem kM_entry_plate_partial (P : PCtx K) (ha : P.a ≠ 0) (hb : P.b ≠ 0) (ro co : Fin 3) :
    Plate.fkM.entry ro co P = hessian P .full .full (velOps P) (massW P (-P.d)) (fld3 ro) (fld3 co) := by
  fin_cases ro <;> fin_cases co <;> entry_eq_form [velOps, massW]

theorem kMy1y2_entry_plate_partial (P : PCtx K) (ha : P.a ≠ 0) (hb : P.b ≠ 0) (ro co : Fin 3) :
    Plate.fkMy1y2.entry ro co P = hessian P .full .sub (velOps P) (massW P (-P.d)) (fld3 ro) (fld3 co) := by
  fin_cases ro <;> fin_cases co <;> entry_eq_form [velOps, massW]

/-- `w`-only plate model: the single entry is the `w`–`w` block of the same kinetic-energy Hessian -/
theorem kM_entry_platew_partial (P : PCtx K) (ha : P.a ≠ 0) (hb : P.b ≠ 0) (ro co : Fin 1) :
    PlateW.fkM.entry ro co P = hessian P .full .full (velOps P) (massW P (-P.d)) (fld1 ro) (fld1 co) := by
  fin_cases ro <;> fin_cases co <;> entry_eq_form [velOps, massW, fld1]

theorem kMy1y2_entry_platew_partial (P : PCtx K) (ha : P.a ≠ 0) (hb : P.b ≠ 0) (ro co : Fin 1) :
    PlateW.fkMy1y2.entry ro co P = hessian P .full .sub (velOps P) (massW P (-P.d)) (fld1 ro) (fld1 co) := by
  fin_cases ro <;> fin_cases co <;> entry_eq_form [velOps, massW, fld1]

theorem kM_entry_cpanel_partial (P : PCtx K) (ha : P.a ≠ 0) (hb : P.b ≠ 0) (ro co : Fin 3) :
    CPanel.fkM.entry ro co P = hessian P .full .full (velOps P) (massW P (-P.d)) (fld3 ro) (fld3 co) := by
  fin_cases ro <;> fin_cases co <;> entry_eq_form [velOps, massW]

theorem kMy1y2_entry_cpanel_partial (P : PCtx K) (ha : P.a ≠ 0) (hb : P.b ≠ 0) (ro co : Fin 3) :
    CPanel.fkMy1y2.entry ro co P = hessian P .full .sub (velOps P) (massW P (-P.d)) (fld3 ro) (fld3 co) := by
  fin_cases ro <;> fin_cases co <;> entry_eq_form [velOps, massW]

theorem kM_entry_kpanel_partial (P : PCtx K) (ha : P.a ≠ 0) (hb : P.b ≠ 0) (ro co : Fin 3) :
    KPanel.fkM.entry ro co P = hessian P .sub .full (velOps P) (massW P (-P.d)) (fld3 ro) (fld3 co) := by
  fin_cases ro <;> fin_cases co <;> entry_eq_form [velOps, massW]

theorem kMy1y2_entry_kpanel_partial (P : PCtx K) (ha : P.a ≠ 0) (hb : P.b ≠ 0) (ro co : Fin 3) :
    KPanel.fkMy1y2.entry ro co P = hessian P .sub .sub (velOps P) (massW P (-P.d)) (fld3 ro) (fld3 co) := by
  fin_cases ro <;> fin_cases co <;> entry_eq_form [velOps, massW]


/-! ### symmetry of the whole mass matrix: `M[r, c] = M[c, r]` for every pair of degrees of freedom
(`P.swap`: the same integrals with the roles of the row and column basis functions exchanged) -/

theorem kM_symm_plate (P : PCtx K) (ha : P.a ≠ 0) (hb : P.b ≠ 0) (ro co : Fin 3) :
    Plate.fkM.entry ro co P = Plate.fkM.entry co ro P.swap := by
  rw [kM_entry_plate_partial P ha hb, kM_entry_plate_partial P.swap ha hb]
  exact (hessian_swap P _ _ (velOps P) (massW P (-P.d)) (massW_symm P (-P.d)) _ _).symm

theorem kMy1y2_symm_plate (P : PCtx K) (ha : P.a ≠ 0) (hb : P.b ≠ 0) (ro co : Fin 3) :
    Plate.fkMy1y2.entry ro co P = Plate.fkMy1y2.entry co ro P.swap := by
  rw [kMy1y2_entry_plate_partial P ha hb, kMy1y2_entry_plate_partial P.swap ha hb]
  exact (hessian_swap P _ _ (velOps P) (massW P (-P.d)) (massW_symm P (-P.d)) _ _).symm

theorem kM_symm_platew (P : PCtx K) (ha : P.a ≠ 0) (hb : P.b ≠ 0) (ro co : Fin 1) :
    PlateW.fkM.entry ro co P = PlateW.fkM.entry co ro P.swap := by
  rw [kM_entry_platew_partial P ha hb, kM_entry_platew_partial P.swap ha hb]
  exact (hessian_swap P _ _ (velOps P) (massW P (-P.d)) (massW_symm P (-P.d)) _ _).symm

theorem kMy1y2_symm_platew (P : PCtx K) (ha : P.a ≠ 0) (hb : P.b ≠ 0) (ro co : Fin 1) :
    PlateW.fkMy1y2.entry ro co P = PlateW.fkMy1y2.entry co ro P.swap := by
  rw [kMy1y2_entry_platew_partial P ha hb, kMy1y2_entry_platew_partial P.swap ha hb]
  exact (hessian_swap P _ _ (velOps P) (massW P (-P.d)) (massW_symm P (-P.d)) _ _).symm

theorem kM_symm_cpanel (P : PCtx K) (ha : P.a ≠ 0) (hb : P.b ≠ 0) (ro co : Fin 3) :
    CPanel.fkM.entry ro co P = CPanel.fkM.entry co ro P.swap := by
  rw [kM_entry_cpanel_partial P ha hb, kM_entry_cpanel_partial P.swap ha hb]
  exact (hessian_swap P _ _ (velOps P) (massW P (-P.d)) (massW_symm P (-P.d)) _ _).symm

theorem kMy1y2_symm_cpanel (P : PCtx K) (ha : P.a ≠ 0) (hb : P.b ≠ 0) (ro co : Fin 3) :
    CPanel.fkMy1y2.entry ro co P = CPanel.fkMy1y2.entry co ro P.swap := by
  rw [kMy1y2_entry_cpanel_partial P ha hb, kMy1y2_entry_cpanel_partial P.swap ha hb]
  exact (hessian_swap P _ _ (velOps P) (massW P (-P.d)) (massW_symm P (-P.d)) _ _).symm

theorem kM_symm_kpanel (P : PCtx K) (ha : P.a ≠ 0) (hb : P.b ≠ 0) (ro co : Fin 3) :
    KPanel.fkM.entry ro co P = KPanel.fkM.entry co ro P.swap := by
  rw [kM_entry_kpanel_partial P ha hb, kM_entry_kpanel_partial P.swap ha hb]
  exact (hessian_swap P _ _ (velOps P) (massW P (-P.d)) (massW_symm P (-P.d)) _ _).symm

theorem kMy1y2_symm_kpanel (P : PCtx K) (ha : P.a ≠ 0) (hb : P.b ≠ 0) (ro co : Fin 3) :
    KPanel.fkMy1y2.entry ro co P = KPanel.fkMy1y2.entry co ro P.swap := by
  rw [kMy1y2_entry_kpanel_partial P ha hb, kMy1y2_entry_kpanel_partial P.swap ha hb]
  exact (hessian_swap P _ _ (velOps P) (massW P (-P.d)) (massW_symm P (-P.d)) _ _).symm


/-! ### the whole matrix (loop nest of Model/PanelLoop.lean + `finalize_symmetric_matrix`): the kinetic-energy Hessian at every pair of positions -/

/-- the regenerated kernels have exactly the modelled loop nest, dof map, skip condition and section geometry -/
theorem loop_nest_standard :
    Plate.fkM.schema = LoopSchema.std 3 none ∧
    Plate.fkMy1y2.schema = LoopSchema.stdYX 3 ∧
    CPanel.fkM.schema = LoopSchema.std 3 none ∧
    CPanel.fkMy1y2.schema = LoopSchema.stdYX 3 ∧
    KPanel.fkM.schema = LoopSchema.std 3 (some 41) ∧
    KPanel.fkMy1y2.schema = LoopSchema.std 3 (some 41) := by
  decide

theorem loop_nest_standard_platew :
    PlateW.fkM.schema = LoopSchema.std 1 none ∧ PlateW.fkMy1y2.schema = LoopSchema.stdYX 1 := by
  decide

open Compmech.Asm in
theorem kM_matrix_plate (base : PCtx K) (I : Integrals K) (hI : I.Comm) (ha : base.a ≠ 0) (hb : base.b ≠ 0)
    (m n row0 : Nat) {i k j l : Nat} (hi : i < m) (hk : k < m) (hj : j < n) (hl : l < n) (α β : Fin 3) :
    toFun (panelCoo 3 m n row0 Plate.fkM.entry base I) (row0 + 3 * (j * m + i) + α.val)
        (row0 + 3 * (l * m + k) + β.val)
      = hessian (ctxAt base I i k j l) .full .full (velOps base) (massW base (-base.d)) (fld3 α) (fld3 β) := by
  rw [panelCoo_entry 3 m n row0 _ base I hI
    (fun ro co i k j l => kM_symm_plate (ctxAt base I i k j l) ha hb ro co) hi hk hj hl]
  exact kM_entry_plate_partial (ctxAt base I i k j l) ha hb α β

open Compmech.Asm in
theorem kMy1y2_matrix_plate (base : PCtx K) (I : Integrals K) (hI : I.Comm) (ha : base.a ≠ 0) (hb : base.b ≠ 0)
    (m n row0 : Nat) {i k j l : Nat} (hi : i < m) (hk : k < m) (hj : j < n) (hl : l < n) (α β : Fin 3) :
    toFun (panelCooYX 3 m n row0 Plate.fkMy1y2.entry base I) (row0 + 3 * (j * m + i) + α.val)
        (row0 + 3 * (l * m + k) + β.val)
      = hessian (ctxAt base I i k j l) .full .sub (velOps base) (massW base (-base.d)) (fld3 α) (fld3 β) := by
  rw [panelCooYX_entry 3 m n row0 _ base I hI
    (fun ro co i k j l => kMy1y2_symm_plate (ctxAt base I i k j l) ha hb ro co) hi hk hj hl]
  exact kMy1y2_entry_plate_partial (ctxAt base I i k j l) ha hb α β

open Compmech.Asm in
theorem kM_matrix_platew (base : PCtx K) (I : Integrals K) (hI : I.Comm) (ha : base.a ≠ 0) (hb : base.b ≠ 0)
    (m n row0 : Nat) {i k j l : Nat} (hi : i < m) (hk : k < m) (hj : j < n) (hl : l < n) (α β : Fin 1) :
    toFun (panelCoo 1 m n row0 PlateW.fkM.entry base I) (row0 + 1 * (j * m + i) + α.val)
        (row0 + 1 * (l * m + k) + β.val)
      = hessian (ctxAt base I i k j l) .full .full (velOps base) (massW base (-base.d)) (fld1 α) (fld1 β) := by
  rw [panelCoo_entry 1 m n row0 _ base I hI
    (fun ro co i k j l => kM_symm_platew (ctxAt base I i k j l) ha hb ro co) hi hk hj hl]
  exact kM_entry_platew_partial (ctxAt base I i k j l) ha hb α β

open Compmech.Asm in
theorem kMy1y2_matrix_platew (base : PCtx K) (I : Integrals K) (hI : I.Comm) (ha : base.a ≠ 0) (hb : base.b ≠ 0)
    (m n row0 : Nat) {i k j l : Nat} (hi : i < m) (hk : k < m) (hj : j < n) (hl : l < n) (α β : Fin 1) :
    toFun (panelCooYX 1 m n row0 PlateW.fkMy1y2.entry base I) (row0 + 1 * (j * m + i) + α.val)
        (row0 + 1 * (l * m + k) + β.val)
      = hessian (ctxAt base I i k j l) .full .sub (velOps base) (massW base (-base.d)) (fld1 α) (fld1 β) := by
  rw [panelCooYX_entry 1 m n row0 _ base I hI
    (fun ro co i k j l => kMy1y2_symm_platew (ctxAt base I i k j l) ha hb ro co) hi hk hj hl]
  exact kMy1y2_entry_platew_partial (ctxAt base I i k j l) ha hb α β

open Compmech.Asm in
theorem kM_matrix_cpanel (base : PCtx K) (I : Integrals K) (hI : I.Comm) (ha : base.a ≠ 0) (hb : base.b ≠ 0)
    (m n row0 : Nat) {i k j l : Nat} (hi : i < m) (hk : k < m) (hj : j < n) (hl : l < n) (α β : Fin 3) :
    toFun (panelCoo 3 m n row0 CPanel.fkM.entry base I) (row0 + 3 * (j * m + i) + α.val)
        (row0 + 3 * (l * m + k) + β.val)
      = hessian (ctxAt base I i k j l) .full .full (velOps base) (massW base (-base.d)) (fld3 α) (fld3 β) := by
  rw [panelCoo_entry 3 m n row0 _ base I hI
    (fun ro co i k j l => kM_symm_cpanel (ctxAt base I i k j l) ha hb ro co) hi hk hj hl]
  exact kM_entry_cpanel_partial (ctxAt base I i k j l) ha hb α β

open Compmech.Asm in
theorem kMy1y2_matrix_cpanel (base : PCtx K) (I : Integrals K) (hI : I.Comm) (ha : base.a ≠ 0) (hb : base.b ≠ 0)
    (m n row0 : Nat) {i k j l : Nat} (hi : i < m) (hk : k < m) (hj : j < n) (hl : l < n) (α β : Fin 3) :
    toFun (panelCooYX 3 m n row0 CPanel.fkMy1y2.entry base I) (row0 + 3 * (j * m + i) + α.val)
        (row0 + 3 * (l * m + k) + β.val)
      = hessian (ctxAt base I i k j l) .full .sub (velOps base) (massW base (-base.d)) (fld3 α) (fld3 β) := by
  rw [panelCooYX_entry 3 m n row0 _ base I hI
    (fun ro co i k j l => kMy1y2_symm_cpanel (ctxAt base I i k j l) ha hb ro co) hi hk hj hl]
  exact kMy1y2_entry_cpanel_partial (ctxAt base I i k j l) ha hb α β

open Compmech.Asm in
theorem kM_matrix_kpanel (base : PCtx K) (I : Nat → Integrals K) (hI : ∀ sec, (I sec).Comm) (s : Nat)
    (ha : base.a ≠ 0) (hb : ∀ sec, (sectionBase base s sec).b ≠ 0)
    (m n row0 : Nat) {i k j l : Nat} (hi : i < m) (hk : k < m) (hj : j < n) (hl : l < n) (α β : Fin 3) :
    toFun (conePanelCoo s 3 m n row0 KPanel.fkM.entry base I) (row0 + 3 * (j * m + i) + α.val)
        (row0 + 3 * (l * m + k) + β.val)
      = ((List.range s).map fun sec =>
          hessian (ctxAt (sectionBase base s sec) (I sec) i k j l) .sub .full (velOps (sectionBase base s sec))
            (massW (sectionBase base s sec) (-base.d)) (fld3 α) (fld3 β)).sum := by
  rw [conePanelCoo_entry s 3 m n row0 _ base I hI
    (fun sec ro co i k j l => kM_symm_kpanel (ctxAt (sectionBase base s sec) (I sec) i k j l) ha (hb sec) ro co)
    hi hk hj hl]
  refine congrArg List.sum (List.map_congr_left fun sec _ => ?_)
  exact kM_entry_kpanel_partial (ctxAt (sectionBase base s sec) (I sec) i k j l) ha (hb sec) α β

open Compmech.Asm in
theorem kMy1y2_matrix_kpanel (base : PCtx K) (I : Nat → Integrals K) (hI : ∀ sec, (I sec).Comm) (s : Nat)
    (ha : base.a ≠ 0) (hb : ∀ sec, (sectionBase base s sec).b ≠ 0)
    (m n row0 : Nat) {i k j l : Nat} (hi : i < m) (hk : k < m) (hj : j < n) (hl : l < n) (α β : Fin 3) :
    toFun (conePanelCoo s 3 m n row0 KPanel.fkMy1y2.entry base I) (row0 + 3 * (j * m + i) + α.val)
        (row0 + 3 * (l * m + k) + β.val)
      = ((List.range s).map fun sec =>
          hessian (ctxAt (sectionBase base s sec) (I sec) i k j l) .sub .sub (velOps (sectionBase base s sec))
            (massW (sectionBase base s sec) (-base.d)) (fld3 α) (fld3 β)).sum := by
  rw [conePanelCoo_entry s 3 m n row0 _ base I hI
    (fun sec ro co i k j l => kMy1y2_symm_kpanel (ctxAt (sectionBase base s sec) (I sec) i k j l) ha (hb sec) ro co)
    hi hk hj hl]
  refine congrArg List.sum (List.map_congr_left fun sec _ => ?_)
  exact kMy1y2_entry_kpanel_partial (ctxAt (sectionBase base s sec) (I sec) i k j l) ha (hb sec) α β


/-! ### positive semi-definiteness of the whole mass matrix (over ℝ)

The weight of the kinetic energy is positive semi-definite for `mu, h ≥ 0`, wherever the mid-plane sits:
`eᵀ massW e = mu h [(e₀ − δ e₃)² + (e₁ − δ e₄)² + e₂² + (h²/12)(e₃² + e₄²)]`.
`RealIntegrals I dx dy X Y x₁ x₂ y₁ y₂`: the one-dimensional integrals ARE integrals of products of continuous functions
(`I .x dx d₁ f₁ i d₂ f₂ k = ∫_{x₁}^{x₂} X d₁ f₁ i · X d₂ f₂ k`, same along y; `x₁ ≤ x₂`, `y₁ ≤ y₂`).  Then for ANY series orders
`m, n`, ANY placement `row0`, ANY amplitude vector `v` over the panel's `3·m·n` degrees of freedom, `vᵀ M v ≥ 0` for the
finalized mass matrix (`vᵀ M v` = twice the kinetic energy of the velocity field `v`; Core/OpSpecPSD.lean `hessian_psd`). -/

open scoped BigOperators

/-- the through-thickness mass moments form a positive semi-definite weight (sum of squares plus `h²/12` terms) -/
theorem massW_psd (P : PCtx ℝ) (δ : ℝ) (hmu : 0 ≤ P.mu) (hh : 0 ≤ P.h) : WeightPSD (massW P δ) := by
  intro e
  have key : ∑ p, ∑ q, massW P δ p q * e p * e q
      = P.mu * P.h * ((e 0 - δ * e 3) ^ 2 + (e 1 - δ * e 4) ^ 2 + e 2 ^ 2 + P.h * P.h / 12 * (e 3 ^ 2 + e 4 ^ 2)) := by
    simp only [Fin.sum_univ_five, massW]
    ring
  rw [key]
  positivity

open Compmech.Asm in
/-- flat plate: the mass matrix is positive semi-definite -/
theorem kM_matrix_psd_plate (base : PCtx ℝ) (I : Integrals ℝ) (hI : I.Comm) (ha : base.a ≠ 0) (hb : base.b ≠ 0)
    (hmu : 0 ≤ base.mu) (hh : 0 ≤ base.h) (hab : 0 ≤ base.a * base.b)
    (X Y : Nat → Fld → Nat → ℝ → ℝ) (x₁ x₂ y₁ y₂ : ℝ) (hR : RealIntegrals I .full .full X Y x₁ x₂ y₁ y₂)
    (m n row0 : Nat) (v : Nat → ℝ) :
    0 ≤ ∑ r ∈ Finset.range (3 * m * n), ∑ c ∈ Finset.range (3 * m * n),
      v (row0 + r) * toFun (panelCoo 3 m n row0 Plate.fkM.entry base I) (row0 + r) (row0 + c) * v (row0 + c) :=
  matrix_psd_of_hessian _ m n row0 fld3 base I .full .full (velOps base) (massW base (-base.d))
    (fun hi hk hj hl α β => kM_matrix_plate base I hI ha hb m n row0 hi hk hj hl α β) X Y x₁ x₂ y₁ y₂ hR
    (massW_psd base (-base.d) hmu hh) hab v

open Compmech.Asm in
theorem kMy1y2_matrix_psd_plate (base : PCtx ℝ) (I : Integrals ℝ) (hI : I.Comm) (ha : base.a ≠ 0) (hb : base.b ≠ 0)
    (hmu : 0 ≤ base.mu) (hh : 0 ≤ base.h) (hab : 0 ≤ base.a * base.b)
    (X Y : Nat → Fld → Nat → ℝ → ℝ) (x₁ x₂ y₁ y₂ : ℝ) (hR : RealIntegrals I .full .sub X Y x₁ x₂ y₁ y₂)
    (m n row0 : Nat) (v : Nat → ℝ) :
    0 ≤ ∑ r ∈ Finset.range (3 * m * n), ∑ c ∈ Finset.range (3 * m * n),
      v (row0 + r) * toFun (panelCooYX 3 m n row0 Plate.fkMy1y2.entry base I) (row0 + r) (row0 + c) * v (row0 + c) :=
  matrix_psd_of_hessian _ m n row0 fld3 base I .full .sub (velOps base) (massW base (-base.d))
    (fun hi hk hj hl α β => kMy1y2_matrix_plate base I hI ha hb m n row0 hi hk hj hl α β) X Y x₁ x₂ y₁ y₂ hR
    (massW_psd base (-base.d) hmu hh) hab v

open Compmech.Asm in
/-- `w`-only plate -/
theorem kM_matrix_psd_platew (base : PCtx ℝ) (I : Integrals ℝ) (hI : I.Comm) (ha : base.a ≠ 0) (hb : base.b ≠ 0)
    (hmu : 0 ≤ base.mu) (hh : 0 ≤ base.h) (hab : 0 ≤ base.a * base.b)
    (X Y : Nat → Fld → Nat → ℝ → ℝ) (x₁ x₂ y₁ y₂ : ℝ) (hR : RealIntegrals I .full .full X Y x₁ x₂ y₁ y₂)
    (m n row0 : Nat) (v : Nat → ℝ) :
    0 ≤ ∑ r ∈ Finset.range (1 * m * n), ∑ c ∈ Finset.range (1 * m * n),
      v (row0 + r) * toFun (panelCoo 1 m n row0 PlateW.fkM.entry base I) (row0 + r) (row0 + c) * v (row0 + c) :=
  matrix_psd_of_hessian _ m n row0 fld1 base I .full .full (velOps base) (massW base (-base.d))
    (fun hi hk hj hl α β => kM_matrix_platew base I hI ha hb m n row0 hi hk hj hl α β) X Y x₁ x₂ y₁ y₂ hR
    (massW_psd base (-base.d) hmu hh) hab v

open Compmech.Asm in
theorem kMy1y2_matrix_psd_platew (base : PCtx ℝ) (I : Integrals ℝ) (hI : I.Comm) (ha : base.a ≠ 0) (hb : base.b ≠ 0)
    (hmu : 0 ≤ base.mu) (hh : 0 ≤ base.h) (hab : 0 ≤ base.a * base.b)
    (X Y : Nat → Fld → Nat → ℝ → ℝ) (x₁ x₂ y₁ y₂ : ℝ) (hR : RealIntegrals I .full .sub X Y x₁ x₂ y₁ y₂)
    (m n row0 : Nat) (v : Nat → ℝ) :
    0 ≤ ∑ r ∈ Finset.range (1 * m * n), ∑ c ∈ Finset.range (1 * m * n),
      v (row0 + r) * toFun (panelCooYX 1 m n row0 PlateW.fkMy1y2.entry base I) (row0 + r) (row0 + c) * v (row0 + c) :=
  matrix_psd_of_hessian _ m n row0 fld1 base I .full .sub (velOps base) (massW base (-base.d))
    (fun hi hk hj hl α β => kMy1y2_matrix_platew base I hI ha hb m n row0 hi hk hj hl α β) X Y x₁ x₂ y₁ y₂ hR
    (massW_psd base (-base.d) hmu hh) hab v

open Compmech.Asm in
/-- cylindrical panel -/
theorem kM_matrix_psd_cpanel (base : PCtx ℝ) (I : Integrals ℝ) (hI : I.Comm) (ha : base.a ≠ 0) (hb : base.b ≠ 0)
    (hmu : 0 ≤ base.mu) (hh : 0 ≤ base.h) (hab : 0 ≤ base.a * base.b)
    (X Y : Nat → Fld → Nat → ℝ → ℝ) (x₁ x₂ y₁ y₂ : ℝ) (hR : RealIntegrals I .full .full X Y x₁ x₂ y₁ y₂)
    (m n row0 : Nat) (v : Nat → ℝ) :
    0 ≤ ∑ r ∈ Finset.range (3 * m * n), ∑ c ∈ Finset.range (3 * m * n),
      v (row0 + r) * toFun (panelCoo 3 m n row0 CPanel.fkM.entry base I) (row0 + r) (row0 + c) * v (row0 + c) :=
  matrix_psd_of_hessian _ m n row0 fld3 base I .full .full (velOps base) (massW base (-base.d))
    (fun hi hk hj hl α β => kM_matrix_cpanel base I hI ha hb m n row0 hi hk hj hl α β) X Y x₁ x₂ y₁ y₂ hR
    (massW_psd base (-base.d) hmu hh) hab v

open Compmech.Asm in
theorem kMy1y2_matrix_psd_cpanel (base : PCtx ℝ) (I : Integrals ℝ) (hI : I.Comm) (ha : base.a ≠ 0) (hb : base.b ≠ 0)
    (hmu : 0 ≤ base.mu) (hh : 0 ≤ base.h) (hab : 0 ≤ base.a * base.b)
    (X Y : Nat → Fld → Nat → ℝ → ℝ) (x₁ x₂ y₁ y₂ : ℝ) (hR : RealIntegrals I .full .sub X Y x₁ x₂ y₁ y₂)
    (m n row0 : Nat) (v : Nat → ℝ) :
    0 ≤ ∑ r ∈ Finset.range (3 * m * n), ∑ c ∈ Finset.range (3 * m * n),
      v (row0 + r) * toFun (panelCooYX 3 m n row0 CPanel.fkMy1y2.entry base I) (row0 + r) (row0 + c) * v (row0 + c) :=
  matrix_psd_of_hessian _ m n row0 fld3 base I .full .sub (velOps base) (massW base (-base.d))
    (fun hi hk hj hl α β => kMy1y2_matrix_cpanel base I hI ha hb m n row0 hi hk hj hl α β) X Y x₁ x₂ y₁ y₂ hR
    (massW_psd base (-base.d) hmu hh) hab v

open Compmech.Asm in
/-- conical panel: finite sum over the constant-radius sections of positive semi-definite forms -/
theorem kM_matrix_psd_kpanel (base : PCtx ℝ) (I : Nat → Integrals ℝ) (hI : ∀ sec, (I sec).Comm) (s : Nat)
    (ha : base.a ≠ 0) (hb : ∀ sec, (sectionBase base s sec).b ≠ 0)
    (hmu : 0 ≤ base.mu) (hh : 0 ≤ base.h) (hab : ∀ sec, sec < s → 0 ≤ base.a * (sectionBase base s sec).b)
    (X Y : Nat → Nat → Fld → Nat → ℝ → ℝ) (x₁ x₂ y₁ y₂ : Nat → ℝ)
    (hR : ∀ sec, sec < s → RealIntegrals (I sec) .sub .full (X sec) (Y sec) (x₁ sec) (x₂ sec) (y₁ sec) (y₂ sec))
    (m n row0 : Nat) (v : Nat → ℝ) :
    0 ≤ ∑ r ∈ Finset.range (3 * m * n), ∑ c ∈ Finset.range (3 * m * n),
      v (row0 + r) * toFun (conePanelCoo s 3 m n row0 KPanel.fkM.entry base I) (row0 + r) (row0 + c) * v (row0 + c) :=
  matrix_psd_of_hessian_sections _ s m n row0 fld3 (sectionBase base s) I .sub .full
    (fun sec => velOps (sectionBase base s sec)) (fun sec => massW (sectionBase base s sec) (-base.d))
    (fun hi hk hj hl α β => kM_matrix_kpanel base I hI s ha hb m n row0 hi hk hj hl α β)
    X Y x₁ x₂ y₁ y₂ hR (fun sec _ => massW_psd (sectionBase base s sec) (-base.d) hmu hh) hab v

open Compmech.Asm in
theorem kMy1y2_matrix_psd_kpanel (base : PCtx ℝ) (I : Nat → Integrals ℝ) (hI : ∀ sec, (I sec).Comm) (s : Nat)
    (ha : base.a ≠ 0) (hb : ∀ sec, (sectionBase base s sec).b ≠ 0)
    (hmu : 0 ≤ base.mu) (hh : 0 ≤ base.h) (hab : ∀ sec, sec < s → 0 ≤ base.a * (sectionBase base s sec).b)
    (X Y : Nat → Nat → Fld → Nat → ℝ → ℝ) (x₁ x₂ y₁ y₂ : Nat → ℝ)
    (hR : ∀ sec, sec < s → RealIntegrals (I sec) .sub .sub (X sec) (Y sec) (x₁ sec) (x₂ sec) (y₁ sec) (y₂ sec))
    (m n row0 : Nat) (v : Nat → ℝ) :
    0 ≤ ∑ r ∈ Finset.range (3 * m * n), ∑ c ∈ Finset.range (3 * m * n),
      v (row0 + r) * toFun (conePanelCoo s 3 m n row0 KPanel.fkMy1y2.entry base I) (row0 + r) (row0 + c) * v (row0 + c) :=
  matrix_psd_of_hessian_sections _ s m n row0 fld3 (sectionBase base s) I .sub .sub
    (fun sec => velOps (sectionBase base s sec)) (fun sec => massW (sectionBase base s sec) (-base.d))
    (fun hi hk hj hl α β => kMy1y2_matrix_kpanel base I hI s ha hb m n row0 hi hk hj hl α β)
    X Y x₁ x₂ y₁ y₂ hR (fun sec _ => massW_psd (sectionBase base s sec) (-base.d) hmu hh) hab v

/-! Non-vacuity: the instance of Spec/PSDExample.lean (`a = b = 2`, `r = 1`, `sin α = −1/2`, identity laminate matrix,
`mu = h = 1`, `d = 1/10`; the integrals of products of the monomials `t^(i+d)` over `[−1, 1]`) meets all hypotheses of every
theorem of this section, for all `m, n, row0, v` (and any number of sections). -/

open PSDExample in
example : WeightPSD (massW unitBase (-unitBase.d)) := massW_psd unitBase _ (by norm_num [unitBase]) (by norm_num [unitBase])

open Compmech.Asm PSDExample in
example (m n row0 : Nat) (v : Nat → ℝ) :
    0 ≤ ∑ r ∈ Finset.range (3 * m * n), ∑ c ∈ Finset.range (3 * m * n),
      v (row0 + r) * toFun (panelCoo 3 m n row0 Plate.fkM.entry unitBase monoI) (row0 + r) (row0 + c) * v (row0 + c) :=
  kM_matrix_psd_plate unitBase monoI monoI_comm (by norm_num [unitBase]) (by norm_num [unitBase]) (by norm_num [unitBase]) (by norm_num [unitBase])
    (by norm_num [unitBase]) mono mono (-1) 1 (-1) 1 (monoI_real _ _) m n row0 v

open Compmech.Asm PSDExample in
example (m n row0 : Nat) (v : Nat → ℝ) :
    0 ≤ ∑ r ∈ Finset.range (3 * m * n), ∑ c ∈ Finset.range (3 * m * n),
      v (row0 + r) * toFun (panelCooYX 3 m n row0 Plate.fkMy1y2.entry unitBase monoI) (row0 + r) (row0 + c) * v (row0 + c) :=
  kMy1y2_matrix_psd_plate unitBase monoI monoI_comm (by norm_num [unitBase]) (by norm_num [unitBase]) (by norm_num [unitBase]) (by norm_num [unitBase])
    (by norm_num [unitBase]) mono mono (-1) 1 (-1) 1 (monoI_real _ _) m n row0 v

open Compmech.Asm PSDExample in
example (m n row0 : Nat) (v : Nat → ℝ) :
    0 ≤ ∑ r ∈ Finset.range (3 * m * n), ∑ c ∈ Finset.range (3 * m * n),
      v (row0 + r) * toFun (panelCoo 3 m n row0 CPanel.fkM.entry unitBase monoI) (row0 + r) (row0 + c) * v (row0 + c) :=
  kM_matrix_psd_cpanel unitBase monoI monoI_comm (by norm_num [unitBase]) (by norm_num [unitBase]) (by norm_num [unitBase]) (by norm_num [unitBase])
    (by norm_num [unitBase]) mono mono (-1) 1 (-1) 1 (monoI_real _ _) m n row0 v

open Compmech.Asm PSDExample in
example (m n row0 : Nat) (v : Nat → ℝ) :
    0 ≤ ∑ r ∈ Finset.range (3 * m * n), ∑ c ∈ Finset.range (3 * m * n),
      v (row0 + r) * toFun (panelCooYX 3 m n row0 CPanel.fkMy1y2.entry unitBase monoI) (row0 + r) (row0 + c) * v (row0 + c) :=
  kMy1y2_matrix_psd_cpanel unitBase monoI monoI_comm (by norm_num [unitBase]) (by norm_num [unitBase]) (by norm_num [unitBase]) (by norm_num [unitBase])
    (by norm_num [unitBase]) mono mono (-1) 1 (-1) 1 (monoI_real _ _) m n row0 v

open Compmech.Asm PSDExample in
example (s m n row0 : Nat) (v : Nat → ℝ) :
    0 ≤ ∑ r ∈ Finset.range (3 * m * n), ∑ c ∈ Finset.range (3 * m * n),
      v (row0 + r) * toFun (conePanelCoo s 3 m n row0 KPanel.fkM.entry unitBase fun _ => monoI) (row0 + r) (row0 + c)
        * v (row0 + c) :=
  kM_matrix_psd_kpanel unitBase (fun _ => monoI) (fun _ => monoI_comm) s (by norm_num [unitBase])
    (fun sec => (section_b_pos s sec).ne') (by norm_num [unitBase]) (by norm_num [unitBase])
    (fun sec _ => mul_nonneg (by norm_num [unitBase]) (section_b_pos s sec).le)
    (fun _ => mono) (fun _ => mono) (fun _ => -1) (fun _ => 1) (fun _ => -1) (fun _ => 1) (fun _ _ => monoI_real _ _)
    m n row0 v

open Compmech.Asm PSDExample in
example (s m n row0 : Nat) (v : Nat → ℝ) :
    0 ≤ ∑ r ∈ Finset.range (3 * m * n), ∑ c ∈ Finset.range (3 * m * n),
      v (row0 + r) * toFun (conePanelCoo s 3 m n row0 KPanel.fkMy1y2.entry unitBase fun _ => monoI) (row0 + r) (row0 + c)
        * v (row0 + c) :=
  kMy1y2_matrix_psd_kpanel unitBase (fun _ => monoI) (fun _ => monoI_comm) s (by norm_num [unitBase])
    (fun sec => (section_b_pos s sec).ne') (by norm_num [unitBase]) (by norm_num [unitBase])
    (fun sec _ => mul_nonneg (by norm_num [unitBase]) (section_b_pos s sec).le)
    (fun _ => mono) (fun _ => mono) (fun _ => -1) (fun _ => 1) (fun _ => -1) (fun _ => 1) (fun _ _ => monoI_real _ _)
    m n row0 v

/-! ### positive semi-definiteness for the ACTUAL basis: the exact real integrals of the all-free Bardell functions

`bardellI ξ₁ ξ₂ η₁ η₂` (Spec/BardellIntegrals.lean) is DEFINED as the real interval integrals of products of the (derivatives of
the) Bardell polynomials with unit flags — whole edge `[−1, 1]`, section `[ξ₁, ξ₂]`, strip `[η₁, η₂]` — so the hypotheses `I.Comm` and
`RealIntegrals` of the theorems above are theorems for it (`bardellI_comm`, `bardellI_real_*`).  What is left as hypothesis is
only `a, b ≠ 0`, `mu, h ≥ 0`, `a·b ≥ 0` (and `η₁ ≤ η₂` for a strip). -/

open Compmech.Asm in
/-- flat plate, Bardell basis (all edges free): `vᵀ M v ≥ 0` for every `v`, every `m, n, row0` -/
theorem kM_matrix_psd_bardell_plate (base : PCtx ℝ) (ha : base.a ≠ 0) (hb : base.b ≠ 0)
    (hmu : 0 ≤ base.mu) (hh : 0 ≤ base.h) (hab : 0 ≤ base.a * base.b) (ξ₁ ξ₂ η₁ η₂ : ℝ) (m n row0 : Nat) (v : Nat → ℝ) :
    0 ≤ ∑ r ∈ Finset.range (3 * m * n), ∑ c ∈ Finset.range (3 * m * n),
      v (row0 + r) * toFun (panelCoo 3 m n row0 Plate.fkM.entry base (bardellI ξ₁ ξ₂ η₁ η₂)) (row0 + r) (row0 + c)
        * v (row0 + c) :=
  kM_matrix_psd_plate base _ (bardellI_comm ξ₁ ξ₂ η₁ η₂) ha hb hmu hh hab bfun bfun (-1) 1 (-1) 1
    (bardellI_real_full_full ξ₁ ξ₂ η₁ η₂) m n row0 v

open Compmech.Asm in
/-- flat plate, strip `[η₁, η₂]` -/
theorem kMy1y2_matrix_psd_bardell_plate (base : PCtx ℝ) (ha : base.a ≠ 0) (hb : base.b ≠ 0)
    (hmu : 0 ≤ base.mu) (hh : 0 ≤ base.h) (hab : 0 ≤ base.a * base.b) (ξ₁ ξ₂ η₁ η₂ : ℝ) (hη : η₁ ≤ η₂)
    (m n row0 : Nat) (v : Nat → ℝ) :
    0 ≤ ∑ r ∈ Finset.range (3 * m * n), ∑ c ∈ Finset.range (3 * m * n),
      v (row0 + r) * toFun (panelCooYX 3 m n row0 Plate.fkMy1y2.entry base (bardellI ξ₁ ξ₂ η₁ η₂)) (row0 + r) (row0 + c)
        * v (row0 + c) :=
  kMy1y2_matrix_psd_plate base _ (bardellI_comm ξ₁ ξ₂ η₁ η₂) ha hb hmu hh hab bfun bfun (-1) 1 η₁ η₂
    (bardellI_real_full_sub ξ₁ ξ₂ η₁ η₂ hη) m n row0 v

open Compmech.Asm in
/-- `w`-only plate -/
theorem kM_matrix_psd_bardell_platew (base : PCtx ℝ) (ha : base.a ≠ 0) (hb : base.b ≠ 0)
    (hmu : 0 ≤ base.mu) (hh : 0 ≤ base.h) (hab : 0 ≤ base.a * base.b) (ξ₁ ξ₂ η₁ η₂ : ℝ) (m n row0 : Nat) (v : Nat → ℝ) :
    0 ≤ ∑ r ∈ Finset.range (1 * m * n), ∑ c ∈ Finset.range (1 * m * n),
      v (row0 + r) * toFun (panelCoo 1 m n row0 PlateW.fkM.entry base (bardellI ξ₁ ξ₂ η₁ η₂)) (row0 + r) (row0 + c)
        * v (row0 + c) :=
  kM_matrix_psd_platew base _ (bardellI_comm ξ₁ ξ₂ η₁ η₂) ha hb hmu hh hab bfun bfun (-1) 1 (-1) 1
    (bardellI_real_full_full ξ₁ ξ₂ η₁ η₂) m n row0 v

open Compmech.Asm in
/-- cylindrical panel -/
theorem kM_matrix_psd_bardell_cpanel (base : PCtx ℝ) (ha : base.a ≠ 0) (hb : base.b ≠ 0)
    (hmu : 0 ≤ base.mu) (hh : 0 ≤ base.h) (hab : 0 ≤ base.a * base.b) (ξ₁ ξ₂ η₁ η₂ : ℝ) (m n row0 : Nat) (v : Nat → ℝ) :
    0 ≤ ∑ r ∈ Finset.range (3 * m * n), ∑ c ∈ Finset.range (3 * m * n),
      v (row0 + r) * toFun (panelCoo 3 m n row0 CPanel.fkM.entry base (bardellI ξ₁ ξ₂ η₁ η₂)) (row0 + r) (row0 + c)
        * v (row0 + c) :=
  kM_matrix_psd_cpanel base _ (bardellI_comm ξ₁ ξ₂ η₁ η₂) ha hb hmu hh hab bfun bfun (-1) 1 (-1) 1
    (bardellI_real_full_full ξ₁ ξ₂ η₁ η₂) m n row0 v

open Compmech.Asm in
/-- cylindrical panel, strip -/
theorem kMy1y2_matrix_psd_bardell_cpanel (base : PCtx ℝ) (ha : base.a ≠ 0) (hb : base.b ≠ 0)
    (hmu : 0 ≤ base.mu) (hh : 0 ≤ base.h) (hab : 0 ≤ base.a * base.b) (ξ₁ ξ₂ η₁ η₂ : ℝ) (hη : η₁ ≤ η₂)
    (m n row0 : Nat) (v : Nat → ℝ) :
    0 ≤ ∑ r ∈ Finset.range (3 * m * n), ∑ c ∈ Finset.range (3 * m * n),
      v (row0 + r) * toFun (panelCooYX 3 m n row0 CPanel.fkMy1y2.entry base (bardellI ξ₁ ξ₂ η₁ η₂)) (row0 + r) (row0 + c)
        * v (row0 + c) :=
  kMy1y2_matrix_psd_cpanel base _ (bardellI_comm ξ₁ ξ₂ η₁ η₂) ha hb hmu hh hab bfun bfun (-1) 1 η₁ η₂
    (bardellI_real_full_sub ξ₁ ξ₂ η₁ η₂ hη) m n row0 v

open Compmech.Asm in
/-- conical panel: section `sec` integrates over `[ξ₁ sec, ξ₂ sec] × [−1, 1]` -/
theorem kM_matrix_psd_bardell_kpanel (base : PCtx ℝ) (s : Nat) (ha : base.a ≠ 0)
    (hb : ∀ sec, (sectionBase base s sec).b ≠ 0) (hmu : 0 ≤ base.mu) (hh : 0 ≤ base.h)
    (hab : ∀ sec, sec < s → 0 ≤ base.a * (sectionBase base s sec).b)
    (ξ₁ ξ₂ : Nat → ℝ) (hξ : ∀ sec, sec < s → ξ₁ sec ≤ ξ₂ sec) (η₁ η₂ : ℝ) (m n row0 : Nat) (v : Nat → ℝ) :
    0 ≤ ∑ r ∈ Finset.range (3 * m * n), ∑ c ∈ Finset.range (3 * m * n),
      v (row0 + r) * toFun (conePanelCoo s 3 m n row0 KPanel.fkM.entry base fun sec => bardellI (ξ₁ sec) (ξ₂ sec) η₁ η₂)
        (row0 + r) (row0 + c) * v (row0 + c) :=
  kM_matrix_psd_kpanel base _ (fun sec => bardellI_comm (ξ₁ sec) (ξ₂ sec) η₁ η₂) s ha hb hmu hh hab
    (fun _ => bfun) (fun _ => bfun) ξ₁ ξ₂ (fun _ => -1) (fun _ => 1)
    (fun sec hsec => bardellI_real_sub_full (ξ₁ sec) (ξ₂ sec) η₁ η₂ (hξ sec hsec)) m n row0 v

open Compmech.Asm in
/-- `w`-only plate, strip `[η₁, η₂]` -/
theorem kMy1y2_matrix_psd_bardell_platew (base : PCtx ℝ) (ha : base.a ≠ 0) (hb : base.b ≠ 0)
    (hmu : 0 ≤ base.mu) (hh : 0 ≤ base.h) (hab : 0 ≤ base.a * base.b) (ξ₁ ξ₂ η₁ η₂ : ℝ) (hη : η₁ ≤ η₂)
    (m n row0 : Nat) (v : Nat → ℝ) :
    0 ≤ ∑ r ∈ Finset.range (1 * m * n), ∑ c ∈ Finset.range (1 * m * n),
      v (row0 + r) * toFun (panelCooYX 1 m n row0 PlateW.fkMy1y2.entry base (bardellI ξ₁ ξ₂ η₁ η₂)) (row0 + r) (row0 + c)
        * v (row0 + c) :=
  kMy1y2_matrix_psd_platew base _ (bardellI_comm ξ₁ ξ₂ η₁ η₂) ha hb hmu hh hab bfun bfun (-1) 1 η₁ η₂
    (bardellI_real_full_sub ξ₁ ξ₂ η₁ η₂ hη) m n row0 v

open Compmech.Asm in
/-- conical panel, strip: section `sec` integrates over `[ξ₁ sec, ξ₂ sec] × [η₁, η₂]` -/
theorem kMy1y2_matrix_psd_bardell_kpanel (base : PCtx ℝ) (s : Nat) (ha : base.a ≠ 0)
    (hb : ∀ sec, (sectionBase base s sec).b ≠ 0) (hmu : 0 ≤ base.mu) (hh : 0 ≤ base.h)
    (hab : ∀ sec, sec < s → 0 ≤ base.a * (sectionBase base s sec).b)
    (ξ₁ ξ₂ : Nat → ℝ) (hξ : ∀ sec, sec < s → ξ₁ sec ≤ ξ₂ sec) (η₁ η₂ : ℝ) (hη : η₁ ≤ η₂) (m n row0 : Nat) (v : Nat → ℝ) :
    0 ≤ ∑ r ∈ Finset.range (3 * m * n), ∑ c ∈ Finset.range (3 * m * n),
      v (row0 + r) * toFun (conePanelCoo s 3 m n row0 KPanel.fkMy1y2.entry base fun sec => bardellI (ξ₁ sec) (ξ₂ sec) η₁ η₂)
        (row0 + r) (row0 + c) * v (row0 + c) :=
  kMy1y2_matrix_psd_kpanel base _ (fun sec => bardellI_comm (ξ₁ sec) (ξ₂ sec) η₁ η₂) s ha hb hmu hh hab
    (fun _ => bfun) (fun _ => bfun) ξ₁ ξ₂ (fun _ => η₁) (fun _ => η₂)
    (fun sec hsec => bardellI_real_sub_sub (ξ₁ sec) (ξ₂ sec) η₁ η₂ (hξ sec hsec) hη) m n row0 v

open Compmech.Asm PSDExample in
/-- non-vacuity: the conical instance of Spec/PSDExample.lean, 41 sections of equal length, strip `η ∈ [−1/2, 1/2]` -/
example (m n row0 : Nat) (v : Nat → ℝ) :
    0 ≤ ∑ r ∈ Finset.range (3 * m * n), ∑ c ∈ Finset.range (3 * m * n),
      v (row0 + r) * toFun (conePanelCoo 41 3 m n row0 KPanel.fkMy1y2.entry unitBase
          fun sec => bardellI (2 * sec / 41 - 1) (2 * (sec + 1) / 41 - 1) (-1 / 2) (1 / 2)) (row0 + r) (row0 + c) * v (row0 + c) :=
  kMy1y2_matrix_psd_bardell_kpanel unitBase 41 (by norm_num [unitBase]) (fun sec => (section_b_pos 41 sec).ne')
    (by norm_num [unitBase]) (by norm_num [unitBase])
    (fun sec _ => mul_nonneg (by norm_num [unitBase]) (section_b_pos 41 sec).le)
    (fun sec => 2 * sec / 41 - 1) (fun sec => 2 * (sec + 1) / 41 - 1) (fun sec _ => by linarith) (-1 / 2) (1 / 2) (by norm_num)
    m n row0 v

/-! ### TOTAL MASS: a rigid translation of an all-free panel sees `mu · h · area`

`rigidAmp num m row0 α` (Spec/RigidTranslation.lean): amplitude `1` at the positions `row0 + num·(j·m + i) + α` of the translation
Hermite functions `i, j ∈ {0, 2}` of field `α`, zero elsewhere — with all edge flags one and `m, n ≥ 3` the series with these
amplitudes is the constant field `1` (`u₀ + u₂ = 1`, Bardell/RigidBody.lean `hermite_translation_sum`, decided on the coefficient
lists).  `I = bardellI …`: the exact real integrals of that basis.  Then, for the matrix handed to the user, ANY series orders
`m, n ≥ 3`, ANY placement `row0`, each of the three translations `α` and ANY offset `d` of the reference surface:
`cᵀ M c = mu · h · a · b` (twice the kinetic energy of the unit velocity field).  The offset enters the same-field blocks only
through the rotary inertia `mu·h·(d² + h²/12)`, which multiplies integrals of derivatives of the constant one.
Proof: `quadForm_rigid3` (the quadratic form is the sum of 16 entries), `kM_matrix_*` (each entry is the kinetic Hessian of the
pair), `massHessian_rigid_sum_bardell` (the 16 Hessians add up to `(ab/4)·mu·h·2·2`). -/

open Compmech.Asm in
/-- flat plate: total mass seen by the rigid translation of field `α` (`0`: `u ≡ 1`, `1`: `v ≡ 1`, `2`: `w ≡ 1`) -/
theorem total_mass_plate (base : PCtx ℝ) (ha : base.a ≠ 0) (hb : base.b ≠ 0) (ξ₁ ξ₂ η₁ η₂ : ℝ)
    (m n row0 : Nat) (hm : 3 ≤ m) (hn : 3 ≤ n) (α : Fin 3) :
    ∑ r ∈ Finset.range (3 * m * n), ∑ c ∈ Finset.range (3 * m * n),
      rigidAmp 3 m row0 α.val (row0 + r)
        * toFun (panelCoo 3 m n row0 Plate.fkM.entry base (bardellI ξ₁ ξ₂ η₁ η₂)) (row0 + r) (row0 + c)
        * rigidAmp 3 m row0 α.val (row0 + c)
      = base.mu * base.h * base.a * base.b := by
  have lt : ∀ {x N : Nat}, 3 ≤ N → x ∈ ({0, 2} : Finset Nat) → x < N := by
    intro x N hN hx
    simp only [Finset.mem_insert, Finset.mem_singleton] at hx
    omega
  rw [quadForm_rigid3 m n row0 hm hn α,
    Finset.sum_congr rfl fun j hj => Finset.sum_congr rfl fun i hi => Finset.sum_congr rfl fun l hl =>
      Finset.sum_congr rfl fun k hk => kM_matrix_plate base _ (bardellI_comm ξ₁ ξ₂ η₁ η₂) ha hb m n row0
        (lt hm hi) (lt hm hk) (lt hn hj) (lt hn hl) α α,
    massHessian_rigid_sum_bardell]
  simp only [domLen]
  ring

open Compmech.Asm in
/-- cylindrical panel (`a` × arc length `b`) -/
theorem total_mass_cpanel (base : PCtx ℝ) (ha : base.a ≠ 0) (hb : base.b ≠ 0) (ξ₁ ξ₂ η₁ η₂ : ℝ)
    (m n row0 : Nat) (hm : 3 ≤ m) (hn : 3 ≤ n) (α : Fin 3) :
    ∑ r ∈ Finset.range (3 * m * n), ∑ c ∈ Finset.range (3 * m * n),
      rigidAmp 3 m row0 α.val (row0 + r)
        * toFun (panelCoo 3 m n row0 CPanel.fkM.entry base (bardellI ξ₁ ξ₂ η₁ η₂)) (row0 + r) (row0 + c)
        * rigidAmp 3 m row0 α.val (row0 + c)
      = base.mu * base.h * base.a * base.b := by
  have lt : ∀ {x N : Nat}, 3 ≤ N → x ∈ ({0, 2} : Finset Nat) → x < N := by
    intro x N hN hx
    simp only [Finset.mem_insert, Finset.mem_singleton] at hx
    omega
  rw [quadForm_rigid3 m n row0 hm hn α,
    Finset.sum_congr rfl fun j hj => Finset.sum_congr rfl fun i hi => Finset.sum_congr rfl fun l hl =>
      Finset.sum_congr rfl fun k hk => kM_matrix_cpanel base _ (bardellI_comm ξ₁ ξ₂ η₁ η₂) ha hb m n row0
        (lt hm hi) (lt hm hk) (lt hn hj) (lt hn hl) α α,
    massHessian_rigid_sum_bardell]
  simp only [domLen]
  ring

open Compmech.Asm in
/-- `w`-only plate (one degree of freedom per basis function): the rigid translation `w ≡ 1` -/
theorem total_mass_platew (base : PCtx ℝ) (ha : base.a ≠ 0) (hb : base.b ≠ 0) (ξ₁ ξ₂ η₁ η₂ : ℝ)
    (m n row0 : Nat) (hm : 3 ≤ m) (hn : 3 ≤ n) (α : Fin 1) :
    ∑ r ∈ Finset.range (1 * m * n), ∑ c ∈ Finset.range (1 * m * n),
      rigidAmp 1 m row0 α.val (row0 + r)
        * toFun (panelCoo 1 m n row0 PlateW.fkM.entry base (bardellI ξ₁ ξ₂ η₁ η₂)) (row0 + r) (row0 + c)
        * rigidAmp 1 m row0 α.val (row0 + c)
      = base.mu * base.h * base.a * base.b := by
  have lt : ∀ {x N : Nat}, 3 ≤ N → x ∈ ({0, 2} : Finset Nat) → x < N := by
    intro x N hN hx
    simp only [Finset.mem_insert, Finset.mem_singleton] at hx
    omega
  rw [quadForm_rigid1 m n row0 hm hn α,
    Finset.sum_congr rfl fun j hj => Finset.sum_congr rfl fun i hi => Finset.sum_congr rfl fun l hl =>
      Finset.sum_congr rfl fun k hk => kM_matrix_platew base _ (bardellI_comm ξ₁ ξ₂ η₁ η₂) ha hb m n row0
        (lt hm hi) (lt hm hk) (lt hn hj) (lt hn hl) α α]
  rw [show fld1 α = fld3 2 from rfl, massHessian_rigid_sum_bardell]
  simp only [domLen]
  ring

/-! the strip kernels `fkMy1y2` integrate over `y1 ≤ y ≤ y2`, i.e. `η ∈ [2 y1/b − 1, 2 y2/b − 1]` (`eta1`, `eta2` of the kernels):
the rigid translations see the mass of the strip, `mu · h · a · (y2 − y1)` (no order between `y1` and `y2` is needed) -/

open Compmech.Asm in
/-- flat plate, strip `y1..y2` -/
theorem total_mass_y1y2_plate (base : PCtx ℝ) (ha : base.a ≠ 0) (hb : base.b ≠ 0) (ξ₁ ξ₂ y1 y2 : ℝ)
    (m n row0 : Nat) (hm : 3 ≤ m) (hn : 3 ≤ n) (α : Fin 3) :
    ∑ r ∈ Finset.range (3 * m * n), ∑ c ∈ Finset.range (3 * m * n),
      rigidAmp 3 m row0 α.val (row0 + r)
        * toFun (panelCooYX 3 m n row0 Plate.fkMy1y2.entry base
            (bardellI ξ₁ ξ₂ (2 * y1 / base.b - 1) (2 * y2 / base.b - 1))) (row0 + r) (row0 + c)
        * rigidAmp 3 m row0 α.val (row0 + c)
      = base.mu * base.h * base.a * (y2 - y1) := by
  have lt : ∀ {x N : Nat}, 3 ≤ N → x ∈ ({0, 2} : Finset Nat) → x < N := by
    intro x N hN hx
    simp only [Finset.mem_insert, Finset.mem_singleton] at hx
    omega
  rw [quadForm_rigid3 m n row0 hm hn α,
    Finset.sum_congr rfl fun j hj => Finset.sum_congr rfl fun i hi => Finset.sum_congr rfl fun l hl =>
      Finset.sum_congr rfl fun k hk => kMy1y2_matrix_plate base _ (bardellI_comm _ _ _ _) ha hb m n row0
        (lt hm hi) (lt hm hk) (lt hn hj) (lt hn hl) α α,
    massHessian_rigid_sum_bardell]
  simp only [domLen]
  field_simp
  ring

open Compmech.Asm in
/-- cylindrical panel, strip `y1..y2` -/
theorem total_mass_y1y2_cpanel (base : PCtx ℝ) (ha : base.a ≠ 0) (hb : base.b ≠ 0) (ξ₁ ξ₂ y1 y2 : ℝ)
    (m n row0 : Nat) (hm : 3 ≤ m) (hn : 3 ≤ n) (α : Fin 3) :
    ∑ r ∈ Finset.range (3 * m * n), ∑ c ∈ Finset.range (3 * m * n),
      rigidAmp 3 m row0 α.val (row0 + r)
        * toFun (panelCooYX 3 m n row0 CPanel.fkMy1y2.entry base
            (bardellI ξ₁ ξ₂ (2 * y1 / base.b - 1) (2 * y2 / base.b - 1))) (row0 + r) (row0 + c)
        * rigidAmp 3 m row0 α.val (row0 + c)
      = base.mu * base.h * base.a * (y2 - y1) := by
  have lt : ∀ {x N : Nat}, 3 ≤ N → x ∈ ({0, 2} : Finset Nat) → x < N := by
    intro x N hN hx
    simp only [Finset.mem_insert, Finset.mem_singleton] at hx
    omega
  rw [quadForm_rigid3 m n row0 hm hn α,
    Finset.sum_congr rfl fun j hj => Finset.sum_congr rfl fun i hi => Finset.sum_congr rfl fun l hl =>
      Finset.sum_congr rfl fun k hk => kMy1y2_matrix_cpanel base _ (bardellI_comm _ _ _ _) ha hb m n row0
        (lt hm hi) (lt hm hk) (lt hn hj) (lt hn hl) α α,
    massHessian_rigid_sum_bardell]
  simp only [domLen]
  field_simp
  ring

open Compmech.Asm in
/-- `w`-only plate, strip `y1..y2` -/
theorem total_mass_y1y2_platew (base : PCtx ℝ) (ha : base.a ≠ 0) (hb : base.b ≠ 0) (ξ₁ ξ₂ y1 y2 : ℝ)
    (m n row0 : Nat) (hm : 3 ≤ m) (hn : 3 ≤ n) (α : Fin 1) :
    ∑ r ∈ Finset.range (1 * m * n), ∑ c ∈ Finset.range (1 * m * n),
      rigidAmp 1 m row0 α.val (row0 + r)
        * toFun (panelCooYX 1 m n row0 PlateW.fkMy1y2.entry base
            (bardellI ξ₁ ξ₂ (2 * y1 / base.b - 1) (2 * y2 / base.b - 1))) (row0 + r) (row0 + c)
        * rigidAmp 1 m row0 α.val (row0 + c)
      = base.mu * base.h * base.a * (y2 - y1) := by
  have lt : ∀ {x N : Nat}, 3 ≤ N → x ∈ ({0, 2} : Finset Nat) → x < N := by
    intro x N hN hx
    simp only [Finset.mem_insert, Finset.mem_singleton] at hx
    omega
  rw [quadForm_rigid1 m n row0 hm hn α,
    Finset.sum_congr rfl fun j hj => Finset.sum_congr rfl fun i hi => Finset.sum_congr rfl fun l hl =>
      Finset.sum_congr rfl fun k hk => kMy1y2_matrix_platew base _ (bardellI_comm _ _ _ _) ha hb m n row0
        (lt hm hi) (lt hm hk) (lt hn hj) (lt hn hl) α α]
  rw [show fld1 α = fld3 2 from rfl, massHessian_rigid_sum_bardell]
  simp only [domLen]
  field_simp
  ring

/-! Non-vacuity: the panel of Spec/PSDExample.lean (`a = b = 2`, `mu = h = 1`, offset `d = 1/10 ≠ 0`) with the Bardell integrals meets
every hypothesis: its mass matrix is positive semi-definite and each rigid translation sees the mass `1·1·2·2 = 4`, for every
`m, n ≥ 3` and every placement; the strip `1/2 ≤ y ≤ 3/2` weighs `1·1·2·1 = 2`. -/

open Compmech.Asm PSDExample in
example (m n row0 : Nat) (v : Nat → ℝ) :
    0 ≤ ∑ r ∈ Finset.range (3 * m * n), ∑ c ∈ Finset.range (3 * m * n),
      v (row0 + r) * toFun (panelCoo 3 m n row0 Plate.fkM.entry unitBase (bardellI 0 0 0 0)) (row0 + r) (row0 + c) * v (row0 + c) :=
  kM_matrix_psd_bardell_plate unitBase (by norm_num [unitBase]) (by norm_num [unitBase]) (by norm_num [unitBase])
    (by norm_num [unitBase]) (by norm_num [unitBase]) 0 0 0 0 m n row0 v

open Compmech.Asm PSDExample in
example (m n row0 : Nat) (hm : 3 ≤ m) (hn : 3 ≤ n) (α : Fin 3) :
    ∑ r ∈ Finset.range (3 * m * n), ∑ c ∈ Finset.range (3 * m * n),
      rigidAmp 3 m row0 α.val (row0 + r)
        * toFun (panelCoo 3 m n row0 Plate.fkM.entry unitBase (bardellI 0 0 0 0)) (row0 + r) (row0 + c)
        * rigidAmp 3 m row0 α.val (row0 + c) = 4 := by
  rw [total_mass_plate unitBase (by norm_num [unitBase]) (by norm_num [unitBase]) 0 0 0 0 m n row0 hm hn α]
  norm_num [unitBase]

open Compmech.Asm PSDExample in
example (m n row0 : Nat) (hm : 3 ≤ m) (hn : 3 ≤ n) (α : Fin 3) :
    ∑ r ∈ Finset.range (3 * m * n), ∑ c ∈ Finset.range (3 * m * n),
      rigidAmp 3 m row0 α.val (row0 + r)
        * toFun (panelCooYX 3 m n row0 Plate.fkMy1y2.entry unitBase
            (bardellI 0 0 (2 * (1 / 2) / unitBase.b - 1) (2 * (3 / 2) / unitBase.b - 1))) (row0 + r) (row0 + c)
        * rigidAmp 3 m row0 α.val (row0 + c) = 2 := by
  rw [total_mass_y1y2_plate unitBase (by norm_num [unitBase]) (by norm_num [unitBase]) 0 0 (1 / 2) (3 / 2) m n row0 hm hn α]
  norm_num [unitBase]

/-! ### total mass of the conical panel: the sum over the constant-radius sections

The conical kernels add, section by section, the mass matrix of a panel of length `a/s` and constant width `b_sec`
(`sectionBase`), so each rigid translation sees `Σ_sec mu·h·(a/s)·b_sec` — and since the section widths are taken at the middle of
the sections, this IS `mu·h·` (exact area of the developed conical panel) `= mu·h·a·b·(1 − a·sinα/(2 r))`. -/

open Compmech.Asm in
/-- conical panel, sections with ANY bounds `[ξ₁ sec, ξ₂ sec]`: the rigid translation of field `α` sees the sum over the sections of
`mu · h · a · b_sec · (ξ₂ − ξ₁)/2` (any `m, n ≥ 3`, any placement, any offset `d`, any number of sections) -/
theorem total_mass_kpanel_sections (base : PCtx ℝ) (s : Nat) (ha : base.a ≠ 0) (hb : ∀ sec, (sectionBase base s sec).b ≠ 0)
    (ξ₁ ξ₂ η₁ η₂ : Nat → ℝ) (m n row0 : Nat) (hm : 3 ≤ m) (hn : 3 ≤ n) (α : Fin 3) :
    ∑ r ∈ Finset.range (3 * m * n), ∑ c ∈ Finset.range (3 * m * n),
      rigidAmp 3 m row0 α.val (row0 + r)
        * toFun (conePanelCoo s 3 m n row0 KPanel.fkM.entry base
            fun sec => bardellI (ξ₁ sec) (ξ₂ sec) (η₁ sec) (η₂ sec)) (row0 + r) (row0 + c)
        * rigidAmp 3 m row0 α.val (row0 + c)
      = ((List.range s).map fun sec =>
          base.mu * base.h * base.a * (sectionBase base s sec).b * ((ξ₂ sec - ξ₁ sec) / 2)).sum := by
  have lt : ∀ {x N : Nat}, 3 ≤ N → x ∈ ({0, 2} : Finset Nat) → x < N := by
    intro x N hN hx
    simp only [Finset.mem_insert, Finset.mem_singleton] at hx
    omega
  rw [quadForm_rigid3 m n row0 hm hn α,
    Finset.sum_congr rfl fun j hj => Finset.sum_congr rfl fun i hi => Finset.sum_congr rfl fun l hl =>
      Finset.sum_congr rfl fun k hk => kM_matrix_kpanel base _ (fun sec => bardellI_comm _ _ _ _) s ha hb m n row0
        (lt hm hi) (lt hm hk) (lt hn hj) (lt hn hl) α α]
  simp only [sum_finset_list_sum]
  refine congrArg List.sum (List.map_congr_left fun sec _ => ?_)
  rw [massHessian_rigid_sum_bardell (sectionBase base s sec)]
  simp only [domLen]
  show base.a * (sectionBase base s sec).b / 4 * (base.mu * base.h) * _ * 2 = _
  ring

open Compmech.Asm in
/-- **conical panel, total mass** with the section bounds the kernel computes (`coneBardellI`: `xi1 = 2·x1/a − 1`, `x1 = a·sec/s`, …):
each of the three rigid translations sees `Σ_sec mu · h · (a/s) · b_sec`, `b_sec = (sectionBase base s sec).b` the width at the
middle of the section (any `m, n ≥ 3`, any placement `row0`, ANY offset `d`; `s = 41` in the source) -/
theorem total_mass_kpanel (base : PCtx ℝ) (s : Nat) (hs : s ≠ 0) (ha : base.a ≠ 0)
    (hb : ∀ sec, (sectionBase base s sec).b ≠ 0) (η₁ η₂ : ℝ) (m n row0 : Nat) (hm : 3 ≤ m) (hn : 3 ≤ n) (α : Fin 3) :
    ∑ r ∈ Finset.range (3 * m * n), ∑ c ∈ Finset.range (3 * m * n),
      rigidAmp 3 m row0 α.val (row0 + r)
        * toFun (conePanelCoo s 3 m n row0 KPanel.fkM.entry base (coneBardellI base s η₁ η₂)) (row0 + r) (row0 + c)
        * rigidAmp 3 m row0 α.val (row0 + c)
      = ((List.range s).map fun sec => base.mu * base.h * (base.a / s) * (sectionBase base s sec).b).sum := by
  have h := total_mass_kpanel_sections base s ha hb (sectionXi1 base s) (sectionXi2 base s) (fun _ => η₁) (fun _ => η₂)
    m n row0 hm hn α
  unfold coneBardellI
  rw [h]
  refine congrArg List.sum (List.map_congr_left fun sec _ => ?_)
  rw [sectionXi_diff base s sec ha hs]
  ring

open Compmech.Asm in
/-- … which is `mu · h ·` the EXACT area of the developed conical panel, `a · b · (1 − a·sinα/(2 r))` (`b`, `r`: width and radius at the
bottom edge; the bracket is the ratio of the radius at mid-length to the bottom radius): the piecewise-constant-radius approximation
does not change the total mass, for any number of sections. -/
theorem total_mass_kpanel_area (base : PCtx ℝ) (s : Nat) (hs : s ≠ 0) (ha : base.a ≠ 0) (hr : base.r ≠ 0)
    (hb : ∀ sec, (sectionBase base s sec).b ≠ 0) (η₁ η₂ : ℝ) (m n row0 : Nat) (hm : 3 ≤ m) (hn : 3 ≤ n) (α : Fin 3) :
    ∑ r ∈ Finset.range (3 * m * n), ∑ c ∈ Finset.range (3 * m * n),
      rigidAmp 3 m row0 α.val (row0 + r)
        * toFun (conePanelCoo s 3 m n row0 KPanel.fkM.entry base (coneBardellI base s η₁ η₂)) (row0 + r) (row0 + c)
        * rigidAmp 3 m row0 α.val (row0 + c)
      = base.mu * base.h * (base.a * base.b * (1 - base.a * base.sina / (2 * base.r))) := by
  have hs' : (s : ℝ) ≠ 0 := Nat.cast_ne_zero.mpr hs
  rw [total_mass_kpanel base s hs ha hb η₁ η₂ m n row0 hm hn α, list_sum_map_mul_left, sectionBase_b_sum base s hs hr]
  field_simp

open Compmech.Asm in
/-- conical panel, strip `y1..y2` (`fkMy1y2`: `eta = 2·y/b_bot − 1` for every section): the rigid translations see
`Σ_sec mu · h · (a/s) · b_sec · (y2 − y1)/b_bot` -/
theorem total_mass_y1y2_kpanel (base : PCtx ℝ) (s : Nat) (hs : s ≠ 0) (ha : base.a ≠ 0) (hbb : base.b ≠ 0)
    (hb : ∀ sec, (sectionBase base s sec).b ≠ 0) (y1 y2 : ℝ) (m n row0 : Nat) (hm : 3 ≤ m) (hn : 3 ≤ n) (α : Fin 3) :
    ∑ r ∈ Finset.range (3 * m * n), ∑ c ∈ Finset.range (3 * m * n),
      rigidAmp 3 m row0 α.val (row0 + r)
        * toFun (conePanelCoo s 3 m n row0 KPanel.fkMy1y2.entry base
            (coneBardellI base s (2 * y1 / base.b - 1) (2 * y2 / base.b - 1))) (row0 + r) (row0 + c)
        * rigidAmp 3 m row0 α.val (row0 + c)
      = ((List.range s).map fun sec =>
          base.mu * base.h * (base.a / s) * (sectionBase base s sec).b * ((y2 - y1) / base.b)).sum := by
  have lt : ∀ {x N : Nat}, 3 ≤ N → x ∈ ({0, 2} : Finset Nat) → x < N := by
    intro x N hN hx
    simp only [Finset.mem_insert, Finset.mem_singleton] at hx
    omega
  rw [quadForm_rigid3 m n row0 hm hn α,
    Finset.sum_congr rfl fun j hj => Finset.sum_congr rfl fun i hi => Finset.sum_congr rfl fun l hl =>
      Finset.sum_congr rfl fun k hk => kMy1y2_matrix_kpanel base _ (coneBardellI_comm base s _ _) s ha hb m n row0
        (lt hm hi) (lt hm hk) (lt hn hj) (lt hn hl) α α]
  simp only [sum_finset_list_sum]
  refine congrArg List.sum (List.map_congr_left fun sec _ => ?_)
  unfold coneBardellI
  rw [massHessian_rigid_sum_bardell (sectionBase base s sec)]
  simp only [domLen]
  rw [sectionXi_diff base s sec ha hs]
  show base.a * (sectionBase base s sec).b / 4 * (base.mu * base.h) * _ * _ = _
  have hs' : (s : ℝ) ≠ 0 := Nat.cast_ne_zero.mpr hs
  field_simp
  ring

/-! Non-vacuity: the conical panel of Spec/PSDExample.lean (`a = b = 2`, `r = 1`, `sin α = −1/2`, `mu = h = 1`, offset `1/10`) with the 41
sections of the source: every section has a positive width (`section_b_pos`), and each rigid translation sees the mass
`1·1·(2·2·(1 + 2·(1/2)/2)) = 6`. -/

open Compmech.Asm PSDExample in
example (m n row0 : Nat) (hm : 3 ≤ m) (hn : 3 ≤ n) (α : Fin 3) :
    ∑ r ∈ Finset.range (3 * m * n), ∑ c ∈ Finset.range (3 * m * n),
      rigidAmp 3 m row0 α.val (row0 + r)
        * toFun (conePanelCoo 41 3 m n row0 KPanel.fkM.entry unitBase (coneBardellI unitBase 41 0 0)) (row0 + r) (row0 + c)
        * rigidAmp 3 m row0 α.val (row0 + c) = 6 := by
  rw [total_mass_kpanel_area unitBase 41 (by norm_num) (by norm_num [unitBase]) (by norm_num [unitBase])
    (fun sec => (section_b_pos 41 sec).ne') 0 0 m n row0 hm hn α]
  norm_num [unitBase]

/-! ### the Python glue of `Panel.calc_kM` (hand model `Model/PanelGlue.lean`, tied to the running `_panel.py` by the
recorded-kernel-call correspondence of `tools/props/C02.py : glue_correspondence`)

For ALL panel states `P` and call arguments `A` (over any linearly ordered field).  `P.onStrip`: both `y1` and `y2` are numbers
(`0.0` is a number); `boundsSpec P` = `[y1, y2]` then, `[]` otherwise; `zeroIfNone`: `None` read as `0.`;
`placeSpec k P A` = `[size, row0, col0]` with the defaults `dofs·m·n`, `0`, `0`. -/

section glue
open Compmech.PanelGlue Compmech.Asm
variable {F : Type} [Field F] [LinearOrder F]

/-- **`calc_kM` dispatch**: a missing density (`mu is None`) is a `ValueError` for every model; whenever the call succeeds it
makes exactly ONE kernel call: the strip kernel `fkMy1y2` iff both bounds are given, with exactly `(y1, y2)` in front, `fkM`
otherwise; the reference-surface distance handed over is `d = −offset` FOR EVERY MODEL; then the panel and the placement; the
panel object carries `r` and `alpharad` refreshed from the current definition (`None → 0`); the result is
`finalize_symmetric_matrix` of the kernel's matrix iff `finalize`. -/
theorem calc_kM_dispatch (P : Panel F) (A : Args F) :
    (∀ k, P.model = .kind k → P.mu = none → (calcKM P A).res = .error .muMissing) ∧
    (∀ R, (calcKM P A).res = .ok R →
      ∃ k g, P.model = .kind k ∧ P.mu ≠ none ∧ R.calls = [g] ∧ g.num = false ∧
        (g.name = .fkMy1y2 ↔ P.onStrip) ∧ (g.name = .fkM ↔ ¬ P.onStrip) ∧
        g.args = boundsSpec P ++ [.q (-P.offset), .panel] ++ placeSpec k P A ∧
        g.r = some (zeroIfNone P.r) ∧ g.alpharadFrom = some (zeroIfNone P.alphadeg) ∧
        R.comb = (if A.finalize = true then Comb.fin else id) (.call 0)) := by
  constructor
  · intro k hk hmu
    unfold calcKM
    simp only [hk, ModelAttr.kind?]
    have : (resolveSize k (refreshGeom P) A.size).1.mu = none := by
      rw [((resolveSize_sameDef k (refreshGeom P) A.size).trans (refreshGeom_sameDef P)).mu]; exact hmu
    rcases hrs : resolveSize k (refreshGeom P) A.size with ⟨P2, size⟩
    rw [hrs] at this
    simp only at this
    simp [this]
  · intro R h
    obtain ⟨k, P2, hsd, hpost, hk, hmu, hr, hal, hR⟩ := calcKM_ok h
    have hn := name_strip_iff P P (SameDef.refl P) .fkMy1y2 .fkM (by decide)
    refine ⟨k, _, hk, hmu, by rw [hR], rfl, hn.1, hn.2, ?_, ?_, ?_, ?_⟩
    · show _ ++ _ ++ placement A _ = _
      rw [placement_eq]
    · show P2.r = _; rw [hr, getD_eq_zeroIfNone]
    · show P2.alpharadFrom = _; rw [hal, getD_eq_zeroIfNone]
    · rw [hR]; cases A.finalize <;> simp [finWrap]

/-- non-vacuity: the witness panel (offset `1/10`, strip from `y1 = 0.0`) gets `fkMy1y2(0, 1/2, −1/10, panel, 3·2·3, 0, 0)`
(the model is given explicitly: `calc_kM` does not run `_rebuild`) -/
example : ∃ R, (calcKM { exPanel with model := .kind .plate } {}).res = .ok R ∧
    sig R = [(.fkMy1y2, [.q 0, .q (1 / 2), .q (-(1 / 10)), .panel, .nat 18, .nat 0, .nat 0])] :=
  ⟨_, rfl, rfl⟩

/-- **`calc_kM` with the regenerated flat-plate kernels**: combined with `kM_matrix_plate` / `kMy1y2_matrix_plate`, at the positions
of ANY two degrees of freedom the matrix `calc_kM()` returns holds the Hessian of the kinetic energy over the panel's OWN domain
with the through-thickness moments of a reference surface at `δ = +offset` — the distance the laminate (`read_stack(offset=…)`)
uses as well. -/
theorem calc_kM_eq_kinetic_hessian_plate [CharZero F] (P : Panel F) (A : Args F) (R : Result F) (base : PCtx F)
    (I : Integrals F) (hI : I.Comm) (ha : base.a ≠ 0) (hb : base.b ≠ 0) (hfin : A.finalize = true)
    (hplace : A.row0 = A.col0) (h : (calcKM P A).res = .ok R)
    {i k j l : Nat} (hi : i < P.m) (hk : k < P.m) (hj : j < P.n) (hl : l < P.n) (α β : Fin 3) :
    toFun (R.eval (panelKern plateTable base I P.m P.n)) (A.row0.getD 0 + 3 * (j * P.m + i) + α.val)
        (A.row0.getD 0 + 3 * (l * P.m + k) + β.val)
      = hessian (ctxAt (withD base (-P.offset)) I i k j l) .full (domOf P) (velOps (withD base (-P.offset)))
          (massW (withD base (-P.offset)) P.offset) (fld3 α) (fld3 β) := by
  rw [calc_kM_panelKern plateTable P A R base I hfin h hplace]
  have ha' : (withD base (-P.offset)).a ≠ 0 := ha
  have hb' : (withD base (-P.offset)).b ≠ 0 := hb
  have hδ : -(withD base (-P.offset)).d = P.offset := by rw [withD_d, neg_neg]
  unfold cooOf domOf
  rw [plateTable_fkM, plateTable_fkMy1y2]
  cases P.y1 <;> cases P.y2 <;> simp only
  · rw [kM_matrix_plate (withD base (-P.offset)) I hI ha' hb' P.m P.n _ hi hk hj hl α β, hδ]
  · rw [kM_matrix_plate (withD base (-P.offset)) I hI ha' hb' P.m P.n _ hi hk hj hl α β, hδ]
  · rw [kM_matrix_plate (withD base (-P.offset)) I hI ha' hb' P.m P.n _ hi hk hj hl α β, hδ]
  · rw [kMy1y2_matrix_plate (withD base (-P.offset)) I hI ha' hb' P.m P.n _ hi hk hj hl α β, hδ]

/-- **`calc_kM` with the regenerated cylindrical-panel kernels** (`cpanelTable`): kinetic-energy Hessian over the panel's own domain with the
reference surface at `δ = +offset`. -/
theorem calc_kM_eq_kinetic_hessian_cpanel [CharZero F] (P : Panel F) (A : Args F) (R : Result F) (base : PCtx F)
    (I : Integrals F) (hI : I.Comm) (ha : base.a ≠ 0) (hb : base.b ≠ 0) (hfin : A.finalize = true)
    (hplace : A.row0 = A.col0) (h : (calcKM P A).res = .ok R)
    {i k j l : Nat} (hi : i < P.m) (hk : k < P.m) (hj : j < P.n) (hl : l < P.n) (α β : Fin 3) :
    toFun (R.eval (panelKern cpanelTable base I P.m P.n)) (A.row0.getD 0 + 3 * (j * P.m + i) + α.val)
        (A.row0.getD 0 + 3 * (l * P.m + k) + β.val)
      = hessian (ctxAt (withD base (-P.offset)) I i k j l) .full (domOf P) (velOps (withD base (-P.offset)))
          (massW (withD base (-P.offset)) P.offset) (fld3 α) (fld3 β) := by
  rw [calc_kM_panelKern cpanelTable P A R base I hfin h hplace]
  have ha' : (withD base (-P.offset)).a ≠ 0 := ha
  have hb' : (withD base (-P.offset)).b ≠ 0 := hb
  have hδ : -(withD base (-P.offset)).d = P.offset := by rw [withD_d, neg_neg]
  unfold cooOf domOf
  rw [cpanelTable_fkM, cpanelTable_fkMy1y2]
  cases P.y1 <;> cases P.y2 <;> simp only
  · rw [kM_matrix_cpanel (withD base (-P.offset)) I hI ha' hb' P.m P.n _ hi hk hj hl α β, hδ]
  · rw [kM_matrix_cpanel (withD base (-P.offset)) I hI ha' hb' P.m P.n _ hi hk hj hl α β, hδ]
  · rw [kM_matrix_cpanel (withD base (-P.offset)) I hI ha' hb' P.m P.n _ hi hk hj hl α β, hδ]
  · rw [kMy1y2_matrix_cpanel (withD base (-P.offset)) I hI ha' hb' P.m P.n _ hi hk hj hl α β, hδ]

/-- **`calc_kM` with the regenerated `w`-only plate kernels** (`plateWTable`). -/
theorem calc_kM_eq_kinetic_hessian_platew [CharZero F] (P : Panel F) (A : Args F) (R : Result F) (base : PCtx F)
    (I : Integrals F) (hI : I.Comm) (ha : base.a ≠ 0) (hb : base.b ≠ 0) (hfin : A.finalize = true)
    (hplace : A.row0 = A.col0) (h : (calcKM P A).res = .ok R)
    {i k j l : Nat} (hi : i < P.m) (hk : k < P.m) (hj : j < P.n) (hl : l < P.n) (α β : Fin 1) :
    toFun (R.eval (panelKern plateWTable base I P.m P.n)) (A.row0.getD 0 + 1 * (j * P.m + i) + α.val)
        (A.row0.getD 0 + 1 * (l * P.m + k) + β.val)
      = hessian (ctxAt (withD base (-P.offset)) I i k j l) .full (domOf P) (velOps (withD base (-P.offset)))
          (massW (withD base (-P.offset)) P.offset) (fld1 α) (fld1 β) := by
  rw [calc_kM_panelKern plateWTable P A R base I hfin h hplace]
  have ha' : (withD base (-P.offset)).a ≠ 0 := ha
  have hb' : (withD base (-P.offset)).b ≠ 0 := hb
  have hδ : -(withD base (-P.offset)).d = P.offset := by rw [withD_d, neg_neg]
  unfold cooOf domOf
  rw [plateWTable_fkM, plateWTable_fkMy1y2]
  cases P.y1 <;> cases P.y2 <;> simp only
  · rw [kM_matrix_platew (withD base (-P.offset)) I hI ha' hb' P.m P.n _ hi hk hj hl α β, hδ]
  · rw [kM_matrix_platew (withD base (-P.offset)) I hI ha' hb' P.m P.n _ hi hk hj hl α β, hδ]
  · rw [kM_matrix_platew (withD base (-P.offset)) I hI ha' hb' P.m P.n _ hi hk hj hl α β, hδ]
  · rw [kMy1y2_matrix_platew (withD base (-P.offset)) I hI ha' hb' P.m P.n _ hi hk hj hl α β, hδ]

/-- **`calc_kM` with the regenerated conical-panel kernels** (`conePanelKern s kpanelTable`; `s = 41` by `loop_nest_standard`): the SUM over
the constant-radius sections of the kinetic-energy Hessians over section × the panel's own `y` domain, reference surface at
`δ = +offset` in every section (`d = −offset` is handed over for the conical model as well). -/
theorem calc_kM_eq_kinetic_hessian_kpanel [CharZero F] (s : Nat) (P : Panel F) (A : Args F) (R : Result F) (base : PCtx F)
    (I : Nat → Integrals F) (hI : ∀ sec, (I sec).Comm) (ha : base.a ≠ 0) (hb : ∀ sec, (sectionBase base s sec).b ≠ 0)
    (hfin : A.finalize = true) (hplace : A.row0 = A.col0) (h : (calcKM P A).res = .ok R)
    {i k j l : Nat} (hi : i < P.m) (hk : k < P.m) (hj : j < P.n) (hl : l < P.n) (α β : Fin 3) :
    toFun (R.eval (conePanelKern s kpanelTable base I P.m P.n)) (A.row0.getD 0 + 3 * (j * P.m + i) + α.val)
        (A.row0.getD 0 + 3 * (l * P.m + k) + β.val)
      = ((List.range s).map fun sec =>
          hessian (ctxAt (sectionBase (withD base (-P.offset)) s sec) (I sec) i k j l) .sub (domOf P)
            (velOps (sectionBase (withD base (-P.offset)) s sec))
            (massW (sectionBase (withD base (-P.offset)) s sec) P.offset) (fld3 α) (fld3 β)).sum := by
  rw [calc_kM_conePanelKern s kpanelTable P A R base I hfin h hplace]
  have ha' : (withD base (-P.offset)).a ≠ 0 := ha
  have hb' : ∀ sec, (sectionBase (withD base (-P.offset)) s sec).b ≠ 0 := hb
  have hδ : -(withD base (-P.offset)).d = P.offset := by rw [withD_d, neg_neg]
  unfold coneCooOf domOf
  rw [kpanelTable_fkM, kpanelTable_fkMy1y2]
  cases P.y1 <;> cases P.y2 <;> simp only
  · rw [kM_matrix_kpanel (withD base (-P.offset)) I hI s ha' hb' P.m P.n _ hi hk hj hl α β, hδ]
  · rw [kM_matrix_kpanel (withD base (-P.offset)) I hI s ha' hb' P.m P.n _ hi hk hj hl α β, hδ]
  · rw [kM_matrix_kpanel (withD base (-P.offset)) I hI s ha' hb' P.m P.n _ hi hk hj hl α β, hδ]
  · rw [kMy1y2_matrix_kpanel (withD base (-P.offset)) I hI s ha' hb' P.m P.n _ hi hk hj hl α β, hδ]

open GlueExample in
/-- non-vacuity (conical model): the witness panel (offset `1/10`, strip from `y1 = 0.0`, model attribute `kpanel`) on the rational instance
of Spec/PanelGlueKernelsCone.lean with the 41 sections of the source -/
example {i k j l : Nat} (hi : i < conePanelExM.m) (hk : k < conePanelExM.m) (hj : j < conePanelExM.n) (hl : l < conePanelExM.n)
    (α β : Fin 3) :
    ∃ R, (calcKM conePanelExM {}).res = .ok R ∧ domOf conePanelExM = .sub ∧ conePanelExM.offset = 1 / 10 ∧
      toFun (R.eval (conePanelKern 41 kpanelTable qBase (fun _ => qI) conePanelExM.m conePanelExM.n))
          ((({} : Args ℚ).row0.getD 0) + 3 * (j * conePanelExM.m + i) + α.val)
          ((({} : Args ℚ).row0.getD 0) + 3 * (l * conePanelExM.m + k) + β.val)
        = ((List.range 41).map fun sec =>
            hessian (ctxAt (sectionBase (withD qBase (-conePanelExM.offset)) 41 sec) qI i k j l) .sub (domOf conePanelExM)
              (velOps (sectionBase (withD qBase (-conePanelExM.offset)) 41 sec))
              (massW (sectionBase (withD qBase (-conePanelExM.offset)) 41 sec) conePanelExM.offset) (fld3 α) (fld3 β)).sum :=
  ⟨_, rfl, rfl, rfl, calc_kM_eq_kinetic_hessian_kpanel 41 conePanelExM {} _ qBase (fun _ => qI) (fun _ => qI_comm)
    (by norm_num [qBase]) (fun sec => (qBase_section_b_pos 41 sec).ne') rfl rfl rfl hi hk hj hl α β⟩

end glue

end Compmech.Panel.C04
