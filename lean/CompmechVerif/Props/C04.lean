/-
C04 — Mass matrix = Hessian of the kinetic energy of a plate of density `mu`, thickness `h`, whose
material points move as `u − z w,x`, `v − z w,y`, `w`.
The theorems COMPUTE where the kernels put the mid-plane: at `z = −d` (`massW P (−P.d)`), whereas
`laminate.py` stacks the plies from `−t/2 + offset`, i.e. mid-plane at `z = +offset`; hence the glue
must pass `d = −offset` (`Panel.calc_kM` passed `+offset` until fix ca9efb9, see known_findings.json:
C04-mass-offset-sign).  Which sign the running glue passes is checked by tools/props/C04.py.
Models regenerated from compmech/panel/models/*.pyx on every run.
-/
import CompmechVerif.Gen.Panel.Plate
import CompmechVerif.Gen.Panel.PlateW
import CompmechVerif.Gen.Panel.CPanel
import CompmechVerif.Gen.Panel.KPanel
import CompmechVerif.Spec.Kinematics
import CompmechVerif.Core.OpSpecTactics
import CompmechVerif.Core.OpSpecLemmas
import Mathlib.Tactic.FinCases
import Mathlib.Data.Fintype.Basic

set_option linter.unnecessarySeqFocus false

namespace Compmech.Panel.C04
open Compmech.Panel Compmech.Gen

variable {K : Type} [Field K] [CharZero K]

theorem massW_symm (P : PCtx K) (δ : K) (p q : Fin 5) : massW P δ p q = massW P δ q p := by
  fin_cases p <;> fin_cases q <;> rfl

theorem kM_entry_plate_partial (P : PCtx K) (ha : P.a ≠ 0) (hb : P.b ≠ 0) (ro co : Fin 3) :
    Plate.fkM.entry ro co P = hessian P .full .full (velOps P) (massW P (-P.d)) (fld3 ro) (fld3 co) := by
  fin_cases ro <;> fin_cases co <;> entry_eq_form [velOps, massW]

theorem kMy1y2_entry_plate_partial (P : PCtx K) (ha : P.a ≠ 0) (hb : P.b ≠ 0) (ro co : Fin 3) :
    Plate.fkMy1y2.entry ro co P = hessian P .full .sub (velOps P) (massW P (-P.d)) (fld3 ro) (fld3 co) := by
  fin_cases ro <;> fin_cases co <;> entry_eq_form [velOps, massW]

theorem kM_entry_cpanel_partial (P : PCtx K) (ha : P.a ≠ 0) (hb : P.b ≠ 0) (ro co : Fin 3) :
    CPanel.fkM.entry ro co P = hessian P .full .full (velOps P) (massW P (-P.d)) (fld3 ro) (fld3 co) := by
  fin_cases ro <;> fin_cases co <;> entry_eq_form [velOps, massW]

theorem kMy1y2_entry_cpanel_partial (P : PCtx K) (ha : P.a ≠ 0) (hb : P.b ≠ 0) (ro co : Fin 3) :
    CPanel.fkMy1y2.entry ro co P = hessian P .full .sub (velOps P) (massW P (-P.d)) (fld3 ro) (fld3 co) := by
  fin_cases ro <;> fin_cases co <;> entry_eq_form [velOps, massW]

theorem kM_entry_kpanel_partial (P : PCtx K) (ha : P.a ≠ 0) (hb : P.b ≠ 0) (ro co : Fin 3) :
    KPanel.fkM.entry ro co P = hessian P .sub .full (velOps P) (massW P (-P.d)) (fld3 ro) (fld3 co) := by
  fin_cases ro <;> fin_cases co <;> entry_eq_form [velOps, massW]

theorem kMy1y2_entry_kpanel_partial (P : PCtx K) (ha : P.a ≠ 0) (hb : P.b ≠ 0) (ro co : Fin 3) :
    KPanel.fkMy1y2.entry ro co P = hessian P .sub .sub (velOps P) (massW P (-P.d)) (fld3 ro) (fld3 co) := by
  fin_cases ro <;> fin_cases co <;> entry_eq_form [velOps, massW]


/-! ### symmetry of the whole mass matrix: `M[r, c] = M[c, r]` for every pair of degrees of freedom
(`P.swap`: the same integrals with the roles of the row and column basis functions exchanged) -/

theorem kM_symm_plate (P : PCtx K) (ha : P.a ≠ 0) (hb : P.b ≠ 0) (ro co : Fin 3) :
    Plate.fkM.entry ro co P = Plate.fkM.entry co ro P.swap := by
  rw [kM_entry_plate_partial P ha hb, kM_entry_plate_partial P.swap ha hb]
  exact (hessian_swap P _ _ (velOps P) (massW P (-P.d)) (massW_symm P (-P.d)) _ _).symm

theorem kMy1y2_symm_plate (P : PCtx K) (ha : P.a ≠ 0) (hb : P.b ≠ 0) (ro co : Fin 3) :
    Plate.fkMy1y2.entry ro co P = Plate.fkMy1y2.entry co ro P.swap := by
  rw [kMy1y2_entry_plate_partial P ha hb, kMy1y2_entry_plate_partial P.swap ha hb]
  exact (hessian_swap P _ _ (velOps P) (massW P (-P.d)) (massW_symm P (-P.d)) _ _).symm

theorem kM_symm_cpanel (P : PCtx K) (ha : P.a ≠ 0) (hb : P.b ≠ 0) (ro co : Fin 3) :
    CPanel.fkM.entry ro co P = CPanel.fkM.entry co ro P.swap := by
  rw [kM_entry_cpanel_partial P ha hb, kM_entry_cpanel_partial P.swap ha hb]
  exact (hessian_swap P _ _ (velOps P) (massW P (-P.d)) (massW_symm P (-P.d)) _ _).symm

theorem kMy1y2_symm_cpanel (P : PCtx K) (ha : P.a ≠ 0) (hb : P.b ≠ 0) (ro co : Fin 3) :
    CPanel.fkMy1y2.entry ro co P = CPanel.fkMy1y2.entry co ro P.swap := by
  rw [kMy1y2_entry_cpanel_partial P ha hb, kMy1y2_entry_cpanel_partial P.swap ha hb]
  exact (hessian_swap P _ _ (velOps P) (massW P (-P.d)) (massW_symm P (-P.d)) _ _).symm

theorem kM_symm_kpanel (P : PCtx K) (ha : P.a ≠ 0) (hb : P.b ≠ 0) (ro co : Fin 3) :
    KPanel.fkM.entry ro co P = KPanel.fkM.entry co ro P.swap := by
  rw [kM_entry_kpanel_partial P ha hb, kM_entry_kpanel_partial P.swap ha hb]
  exact (hessian_swap P _ _ (velOps P) (massW P (-P.d)) (massW_symm P (-P.d)) _ _).symm

theorem kMy1y2_symm_kpanel (P : PCtx K) (ha : P.a ≠ 0) (hb : P.b ≠ 0) (ro co : Fin 3) :
    KPanel.fkMy1y2.entry ro co P = KPanel.fkMy1y2.entry co ro P.swap := by
  rw [kMy1y2_entry_kpanel_partial P ha hb, kMy1y2_entry_kpanel_partial P.swap ha hb]
  exact (hessian_swap P _ _ (velOps P) (massW P (-P.d)) (massW_symm P (-P.d)) _ _).symm

end Compmech.Panel.C04
