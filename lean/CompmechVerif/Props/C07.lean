/-
C07 — static analysis: the load vector is the loads' virtual work and `K c = f` is solved.
`Model/Static.lean` is tied to `Panel.calc_fext`, `PanelAssembly.calc_fext` and `compmech.sparse.solve`, `Model/BayLoads.lean` to
`StiffPanelBay.calc_fext`, `PanelAssembly.__init__/calc_fext` (running `col_start`), `sparse.solve` with its own `used_cols`,
`Analysis.static(NLgeom=False)` and `static()` by the correspondences of tools/props/C07.py; the shape-function rows `g` are those of the regenerated kernel `cfg`
(Gen/Field), which C11 proves to be the amplitude-derivative of the very series that `uvw` evaluates.
-/
import CompmechVerif.Model.StaticLemmas
import CompmechVerif.Gen.Field.Clt
import CompmechVerif.Gen.Field.CltW
import Mathlib.Tactic.Ring
import Mathlib.Algebra.BigOperators.Fin
import Mathlib.Tactic.NormNum

namespace Compmech.Static.C07
open Compmech.Static Finset

variable {K : Type} [Field K]

/-- For ANY sets of constant and incrementable point forces, any load factor, any placement `col0` inside any
`size`: the product of the external force vector with any amplitude vector equals the sum over forces of
force × displacement of the series at the force location; constant forces unscaled, incrementable ones × `inc`. -/
theorem fext_dot_c_eq_work (forces forcesInc : List (Force K)) (inc : K) (col0 n size : ℕ) (h : col0 + n ≤ size)
    (c : ℕ → K) :
    ∑ k ∈ range size, calcFext forces forcesInc inc col0 n k * c k =
      (forces.map fun F => F.work col0 n c).sum + inc * (forcesInc.map fun F => F.work col0 n c).sum :=
  fext_dot_c_aux forces forcesInc inc col0 n size h c

/-- assemblies: the global vector does the virtual work of every panel's forces against that panel's own slice -/
theorem assembly_fext_dot_c_eq_work (ps : List (PanelLoads K)) (inc : K) (size : ℕ)
    (h : ∀ p ∈ ps, p.col0 + p.n ≤ size) (c : ℕ → K) :
    ∑ k ∈ range size, assemblyFext ps inc k * c k =
      (ps.map fun p => (p.forces.map fun F => F.work p.col0 p.n c).sum
        + inc * (p.forcesInc.map fun F => F.work p.col0 p.n c).sum).sum :=
  assembly_fext_dot_c_aux ps inc size h c

/-- the rows of `g` written by the kernel `cfg` are exactly the amplitude-derivatives of the displacement series
evaluated by `cfuvw` (same flags, same dof map), so `Force.disp` IS the displacement the package reports -/
theorem shape_rows_match_field (X : Compmech.Panel.FCtx K) :
    Compmech.Gen.Field.Clt.cfuvw.u X = X.c .u * Compmech.Gen.Field.Clt.cfg.g00 X ∧
    Compmech.Gen.Field.Clt.cfuvw.v X = X.c .v * Compmech.Gen.Field.Clt.cfg.g11 X ∧
    Compmech.Gen.Field.Clt.cfuvw.w X = X.c .w * Compmech.Gen.Field.Clt.cfg.g22 X ∧
    Compmech.Gen.Field.CltW.cfw.w X = X.c .w * Compmech.Gen.Field.CltW.cfg.g00 X := by
  refine ⟨?_, ?_, ?_, ?_⟩ <;> simp only [panel_entry] <;> ring

/-- `sparse.solve`: if the solver's answer solves the reduced system, the scattered vector satisfies every row of
the full system belonging to a used column and vanishes on the removed amplitudes -/
theorem solve_sound (A : ℕ → ℕ → K) (b : ℕ → K) (n : ℕ) (used : List ℕ) (hnodup : used.Nodup)
    (hused : ∀ k ∈ used, k < n) (px : ℕ → K)
    (hsol : ∀ r, r < used.length →
      ∑ s ∈ range used.length, A (used.getD r 0) (used.getD s 0) * px s = b (used.getD r 0)) :
    (∀ i ∈ used, ∑ j ∈ range n, A i j * scatter used px j = b i) ∧
      (∀ k, k ∉ used → scatter used px k = 0) :=
  solve_sound_aux A b n used hnodup hused px hsol

/-- the solution depends linearly on the solver's answer (hence on the loads, the reduced system being linear) -/
theorem solve_linear (used : List ℕ) (px py : ℕ → K) (α β : K) (k : ℕ) :
    scatter used (fun s => α * px s + β * py s) k = α * scatter used px k + β * scatter used py k :=
  scatter_linear used px py α β k

/-! ### stiffened bay (`StiffPanelBay.calc_fext`, Model/BayLoads.lean) -/

/-- Stiffened bay, for ANY number of forces on the skin and on every stiffener part (flange of every 2-D blade that has one,
base and flange of every T), any numbers of stiffeners: the product of the vector `calc_fext()` returns with any amplitude vector
`c` equals the sum over all forces of force × displacement `(u, v, w)` of the force's OWN component at the force location,
evaluated with that component's own slice of `c` — the slices being laid one after the other in the order skin, blade flanges
(pad-up only blades have none and take no room), T base, T flange (`partsWork` walks `b.parts` with that running offset) —, and the
vector has exactly the length of all slices together.  All forces the method reads are constant ones (unscaled): the method has
no load factor, see `bay_fext_no_load_factor`. -/
theorem bay_fext_dot_c_eq_work (b : BayLoads K) (c : ℕ → K) :
    ∑ k ∈ range (bayFext b).length, (bayFext b).getD k 0 * c k = partsWork c 0 b.parts ∧
      (bayFext b).length = (b.parts.map PartLoads.n).sum :=
  ⟨bay_fext_dot_c_aux b c, bayFext_length b⟩

/-- The offsets at which the method's successive `np.concatenate` calls put the parts (the length of the vector built so far,
as logged by the model of the loops) are the running sums of the part sizes, every part has its own `get_size()` entries, and
every force of its list was accumulated. -/
theorem bay_fext_offsets (b : BayLoads K) : (bayLayout b).map Placed.triple = layoutFrom 0 b.parts :=
  bay_layout_aux b

/-- The accumulation clause: two load sets on the same bay (same skin series, same stiffeners and part sizes), applied
together — every force list of the bay is the first set's list followed by the second set's —, give the entrywise SUM of the
two vectors; in particular a second force on a skin, flange or base never replaces the first one. -/
theorem bay_fext_additive (b d : BayLoads K) (h : SameLayout b d) :
    bayFext (b.add d) = List.zipWith (· + ·) (bayFext b) (bayFext d) :=
  bay_fext_additive_aux b d h

/-- What the bay's method does about load factors, as written: it has no `inc` parameter (a call with that keyword raises
`TypeError`, so the non-linear drivers cannot use it), and the incrementable lists `forces_inc` that flanges and bases carry as
`Panel` objects are not read — emptying them changes neither the vector nor the layout. -/
theorem bay_fext_no_load_factor (b : BayLoads K) (inc : K) :
    bayCalcFext (some inc) b = .error "TypeError" ∧ bayCalcFext none b = .ok (bayFext b) ∧
      bayFext b.dropInc = bayFext b ∧ bayLayout b.dropInc = bayLayout b :=
  ⟨rfl, rfl, by rw [bayFext, bayRun_dropInc]; rfl, by rw [bayLayout, bayRun_dropInc]; rfl⟩

/-- Hence the virtual-work identity WITH incrementable forces (`partsWorkInc`: what the property asks of `Panel` and
`PanelAssembly`) fails for a bay whose flange was loaded through `flange.add_force(…, cte=False)`: one unit force `fz` on a
one-amplitude flange, `c = 1`, load factor 1 — the bay's vector does no work, the force does work 1. -/
theorem bay_fext_incrementable_ignored_counterexample :
    ∃ (b : BayLoads ℚ) (c : ℕ → ℚ),
      ∑ k ∈ range (bayFext b).length, (bayFext b).getD k 0 * c k ≠ partsWorkInc c 1 0 b.parts := by
  refine ⟨⟨3, 0, 0, [], [some ⟨1, [], [⟨fun a => if a = 2 then 1 else 0, fun a _ => if a = 2 then 1 else 0⟩]⟩], []⟩,
    fun _ => 1, ?_⟩
  simp [bayFext, bayRun, fextBladeLoop, fextTLoop, accumulate, BayLoads.skinSize, BayLoads.parts, partsWorkInc,
    Force.work, Force.disp, Fin.sum_univ_three]

/-! ### assemblies with the running `col_start` of `PanelAssembly.__init__` -/

/-- `PanelAssembly.calc_fext(inc)` with the `col_start` offsets that `__init__` computes (advancing by `3·m·n` per panel, every
panel's own vector having `num·m·n ≤ 3·m·n` entries): its product with any `c` is the sum over ALL panels — none is skipped — of
the work of the panel's constant forces plus `inc ×` the work of its incrementable ones, against the panel's own slice of `c`;
`inc` not passed means 1. -/
theorem assembly_fext_col_start_dot_c_eq_work (ps : List (AsmPanel K)) (inc : Option K) (c : ℕ → K)
    (h : ∀ p ∈ ps, p.num ≤ 3) :
    ∑ k ∈ range (asmSize ps), asmCalcFext ps inc k * c k = ((asmLoadsFrom ps 0).map (panelWork (inc.getD 1) c)).sum :=
  asm_fext_dot_c_aux ps inc c h

/-- A panel that carries ONLY incrementable forces (anywhere in an assembly: `pre` panels before it, `post` after it) contributes
`inc ×` the work of those forces against its own slice, which starts at the total size of the panels before it: the assembly's
`fext · c` is that of the assembly with this panel unloaded plus exactly this term. -/
theorem assembly_fext_incremental_only (pre post : List (AsmPanel K)) (p : AsmPanel K) (hp : p.forces = [])
    (inc : Option K) (c : ℕ → K) (h : ∀ q ∈ pre ++ p :: post, q.num ≤ 3) :
    ∑ k ∈ range (asmSize (pre ++ p :: post)), asmCalcFext (pre ++ p :: post) inc k * c k =
      ∑ k ∈ range (asmSize (pre ++ p.unloaded :: post)), asmCalcFext (pre ++ p.unloaded :: post) inc k * c k
        + inc.getD 1 * (p.forcesInc.map fun F => F.work (asmSize pre) p.size c).sum :=
  asm_incremental_only_aux pre post p hp inc c h

/-! ### `Analysis.static(NLgeom=False)` / `static()` -/

/-- Under the solver contract (`SolvesReduced`: the sparse solver's answer solves the reduced system it is handed — the
hypothesis of `solve_sound`), when both callables return: the linear analysis stores exactly one vector `c`; `K c = f` holds on
every amplitude whose column of `K` has a non-zero entry (`remove_null_cols` keeps exactly those), `c` vanishes on every
amplitude whose column of `K` is null, where `K` is what `calc_k0(silent=…)` returned and `f` what `calc_fext(silent=…)` returned
WITHOUT an `inc` keyword; no exception escapes.  (What that `f` is: `static_loads_at_full_load_factor`.) -/
theorem static_linear_solves [DecidableEq K] (cb : Callables K) (sp : Spsolve K) (pre : AnalysisState K)
    (f : ℕ → K) (k0 : ℕ → ℕ → K) (hf : cb.calcFext none = .ok f) (hk : cb.calcK0 = .ok k0)
    (hsol : SolvesReduced sp k0 f cb.size) :
    ∃ c, (analysisStatic cb sp pre).post.cs = [c] ∧ (analysisStatic cb sp pre).raised = none ∧
      (∀ i, i < cb.size → (∃ r, r < cb.size ∧ k0 r i ≠ 0) → ∑ j ∈ range cb.size, k0 i j * c j = f i) ∧
      (∀ k, (∀ r, r < cb.size → k0 r k = 0) → c k = 0) := by
  refine ⟨solve sp k0 f cb.size, by simp [analysisStatic, hf, hk], by simp [analysisStatic, hf, hk], ?_, ?_⟩
  · intro i hi hex
    exact (solve_sound_used_aux sp k0 f cb.size hsol).1 i ((mem_usedCols k0 cb.size i).2 ⟨hi, hex⟩)
  · intro k hk0
    apply (solve_sound_used_aux sp k0 f cb.size hsol).2 k
    intro hmem
    obtain ⟨_, r, hr, hne⟩ := (mem_usedCols k0 cb.size k).1 hmem
    exact hne (hk0 r hr)

/-- The load vector the linear analysis solves for: `calc_fext` is called without `inc`, so a `Panel` and a `PanelAssembly`
deliver their vector at the default `inc = 1.` (incrementable forces at full value), a bay its vector of constant forces. -/
theorem static_loads_at_full_load_factor (forces forcesInc : List (Force K)) (n : ℕ) (ps : List (AsmPanel K))
    (b : BayLoads K) (k0 : ℕ → ℕ → K) :
    (panelCallables forces forcesInc n k0).calcFext none = .ok (calcFext forces forcesInc 1 0 n) ∧
      (asmCallables ps k0).calcFext none = .ok (asmCalcFext ps (some 1)) ∧
      (bayCallables b k0).calcFext none = .ok (fun k => (bayFext b).getD k 0) :=
  ⟨rfl, rfl, rfl⟩

/-- Linearity in the loads from the solver contract alone: same stiffness, three load cases `f₁`, `f₂` and `α f₁ + β f₂`; if the
solver's answers solve the reduced systems and the reduced system has at most one solution, the stored solution of the combined
case is `α c₁ + β c₂` on every amplitude. -/
theorem static_linear_in_loads [DecidableEq K] (n : ℕ) (k0 : ℕ → ℕ → K) (f₁ f₂ : ℕ → K) (α β : K) (sp : Spsolve K)
    (pre₁ pre₂ pre₃ : AnalysisState K)
    (h₁ : SolvesReduced sp k0 f₁ n) (h₂ : SolvesReduced sp k0 f₂ n)
    (h₃ : SolvesReduced sp k0 (fun k => α * f₁ k + β * f₂ k) n)
    (huniq : ∀ x y : ℕ → K,
      (∀ r, r < (usedCols k0 n).length →
        ∑ s ∈ range (usedCols k0 n).length, reducedMat k0 (usedCols k0 n) r s * x s
          = ∑ s ∈ range (usedCols k0 n).length, reducedMat k0 (usedCols k0 n) r s * y s) →
      ∀ s, s < (usedCols k0 n).length → x s = y s) :
    ∃ c₁ c₂ c₃,
      (analysisStatic ⟨n, fun _ => .ok f₁, .ok k0⟩ sp pre₁).post.cs = [c₁] ∧
      (analysisStatic ⟨n, fun _ => .ok f₂, .ok k0⟩ sp pre₂).post.cs = [c₂] ∧
      (analysisStatic ⟨n, fun _ => .ok fun k => α * f₁ k + β * f₂ k, .ok k0⟩ sp pre₃).post.cs = [c₃] ∧
      ∀ k, c₃ k = α * c₁ k + β * c₂ k :=
  ⟨_, _, _, by simp [analysisStatic], by simp [analysisStatic], by simp [analysisStatic],
    solve_linear_in_loads_aux sp k0 n f₁ f₂ α β h₁ h₂ h₃ huniq⟩

/-- What the linear analysis reports: whatever an earlier analysis left in `increments` / `cs` is dropped; when the callables
return, `increments = [1.]`, one solution vector, `last_analysis = 'static'`, and the calls made are `calc_fext` (without `inc`),
`calc_k0`, `solve`, in this order; when `calc_fext` raises, the exception escapes after the reset: empty `increments` and `cs`,
`last_analysis` unchanged, `calc_k0` never called.  The function `static(K, fext)` reports `[1.]` and the one solution too. -/
theorem static_increments [DecidableEq K] (cb : Callables K) (sp : Spsolve K) (pre : AnalysisState K) :
    (∀ f k0, cb.calcFext none = .ok f → cb.calcK0 = .ok k0 →
      (analysisStatic cb sp pre).post.increments = [1] ∧
      (analysisStatic cb sp pre).post.cs = [solve sp k0 f cb.size] ∧
      (analysisStatic cb sp pre).post.lastAnalysis = "static" ∧
      (analysisStatic cb sp pre).calls = [StaticCall.calcFext false, StaticCall.calcK0, StaticCall.solve]) ∧
    (∀ e, cb.calcFext none = .error e →
      analysisStatic cb sp pre = ⟨⟨[], [], pre.lastAnalysis⟩, [StaticCall.calcFext false], some e⟩) ∧
    (∀ (A : ℕ → ℕ → K) (f : ℕ → K) (n : ℕ), staticFn sp A f n = ([1], [solve sp A f n])) := by
  refine ⟨?_, ?_, fun _ _ _ => rfl⟩
  · intro f k0 hf hk
    simp [analysisStatic, hf, hk]
  · intro e he
    simp [analysisStatic, he]

/-! ### Non-vacuity: concrete instances of the new statements (ℚ) -/

/-- a force `(fx, fy, fz)` whose three shape rows are all `g` -/
def exForce (fx fy fz : ℚ) (g : List ℚ) : Force ℚ :=
  ⟨fun a => if a = 0 then fx else if a = 1 then fy else fz, fun _ j => g.getD j 0⟩

/-- skin of 3 amplitudes with two forces; a pad-up only blade; a blade whose 2-amplitude flange carries two constant forces and
an incrementable one; a T with two forces on its 1-amplitude base and an unloaded 2-amplitude flange -/
def exBay : BayLoads ℚ :=
  ⟨3, 1, 1, [exForce 1 0 0 [1, 2, 3], exForce 0 0 2 [1, 0, 1]],
   [none, some ⟨2, [exForce 1 1 1 [1, 1], exForce 0 0 1 [0, 5]], [exForce 7 7 7 [1, 1]]⟩],
   [(⟨1, [exForce 0 1 0 [4], exForce 0 1 0 [6]], []⟩, ⟨2, [], []⟩)]⟩

/-- both forces of every part are in the vector (`[3, 8]` = `[3, 3] + [0, 5]`, `10 = 4 + 6`), the incrementable one is not -/
example : bayFext exBay = [3, 2, 5, 3, 8, 10, 0, 0] := by
  simp [bayFext, bayRun, fextBladeLoop, fextTLoop, accumulate, exBay, exForce, BayLoads.skinSize, Force.at,
    Fin.sum_univ_three, List.range_succ]
  norm_num

/-- the log: skin at 0, flange of blade number 1 (number 0 has none) at 3, T base at 5, T flange at 6 -/
example : (bayLayout exBay).map (fun e => (e.tag, e.idx, e.off, e.size, e.nforces)) =
    [(tagSkin, 0, 0, 3, 2), (tagBladeFlange, 1, 3, 2, 2), (tagTBase, 0, 5, 1, 2), (tagTFlange, 0, 6, 2, 0)] := by
  simp [bayLayout, bayRun, fextBladeLoop, fextTLoop, exBay, BayLoads.skinSize, accumulate_length]

/-- `bay_fext_dot_c_eq_work` at `c = (1, 1, …)`: both sides are 31 -/
example : ∑ k ∈ range (bayFext exBay).length, (bayFext exBay).getD k 0 * (fun _ => (1 : ℚ)) k = 31 ∧
    partsWork (fun _ => (1 : ℚ)) 0 exBay.parts = 31 := by
  have h := (bay_fext_dot_c_eq_work exBay (fun _ => (1 : ℚ))).1
  refine ⟨?_, ?_⟩
  · rw [h]
    simp [partsWork, BayLoads.parts, exBay, exForce, BayLoads.skinSize, Force.work, Force.disp, Fin.sum_univ_three,
      Finset.sum_range_succ]
    norm_num
  · simp [partsWork, BayLoads.parts, exBay, exForce, BayLoads.skinSize, Force.work, Force.disp, Fin.sum_univ_three,
      Finset.sum_range_succ]
    norm_num

/-- `bay_fext_additive` is not vacuous: a bay has the layout of itself, and loading it twice doubles the vector -/
example : SameLayout exBay exBay := ⟨rfl, rfl, rfl⟩
example : bayFext (exBay.add exBay) = [6, 4, 10, 6, 16, 20, 0, 0] := by
  rw [bay_fext_additive exBay exBay ⟨rfl, rfl, rfl⟩]
  have : bayFext exBay = [3, 2, 5, 3, 8, 10, 0, 0] := by
    simp [bayFext, bayRun, fextBladeLoop, fextTLoop, accumulate, exBay, exForce, BayLoads.skinSize, Force.at,
      Fin.sum_univ_three, List.range_succ]
    norm_num
  rw [this]
  norm_num


/-- two panels of 3 amplitudes each; the second carries one incrementable force and no constant one -/
def exAsm : List (AsmPanel ℚ) :=
  [⟨3, 1, 1, [exForce 1 0 0 [1, 1, 1]], []⟩, ⟨3, 1, 1, [], [exForce 0 0 2 [1, 2, 3]]⟩]

/-- … and is not skipped: at `inc = 1/2` its slice `[3, 6)` holds `1/2 · 2 · [1, 2, 3]` -/
example : (List.range (asmSize exAsm)).map (asmCalcFext exAsm (some (1 / 2))) = [1, 1, 1, 1, 2, 3] := by
  simp [asmSize, asmCalcFext, asmLoadsFrom, assemblyFext, calcFext, placed, panelFext, exAsm, exForce, AsmPanel.step,
    AsmPanel.size, Force.at, Fin.sum_univ_three, List.range_succ]

/-- the premise of `assembly_fext_incremental_only` holds for it, and the term it adds is `1/2 · 2 · (1 + 2 + 3) = 6` at `c = 1` -/
example : (exAsm[1]'(by decide)).forces = [] ∧ (∀ q ∈ exAsm, q.num ≤ 3) ∧
    (1 / 2 : ℚ) * ((exAsm[1]'(by decide)).forcesInc.map fun F => F.work (asmSize [exAsm[0]'(by decide)]) 3 (fun _ => 1)).sum = 6 := by
  refine ⟨rfl, by simp [exAsm], ?_⟩
  simp [exAsm, exForce, Force.work, Force.disp, Fin.sum_univ_three, Finset.sum_range_succ]
  norm_num

/-- a 3 × 3 stiffness whose middle amplitude has no stiffness, loads `(2, 5, 4)`, and a solver that answers `(1, 1)` -/
def exK0 : ℕ → ℕ → ℚ := fun i j => if i = 0 ∧ j = 0 then 2 else if i = 2 ∧ j = 2 then 4 else 0
def exF : ℕ → ℚ := fun k => if k = 0 then 2 else if k = 1 then 5 else 4
def exSp : Spsolve ℚ := fun _ _ _ _ => 1

example : usedCols exK0 3 = [0, 2] := by decide

example : SolvesReduced exSp exK0 exF 3 := by
  have hu : usedCols exK0 3 = [0, 2] := by decide
  intro r hr
  rw [hu] at hr ⊢
  have : r = 0 ∨ r = 1 := by simp at hr; omega
  rcases this with rfl | rfl <;> simp [reducedMat, reducedVec, exK0, exF, exSp, Finset.sum_range_succ]

/-- the stored solution is `(1, 0, 1)` whatever was stored before; the load 5 on the amplitude without stiffness is not balanced -/
example (pre : AnalysisState ℚ) :
    ((analysisStatic ⟨3, fun _ => .ok exF, .ok exK0⟩ exSp pre).post.cs.map fun c => (List.range 3).map c) = [[1, 0, 1]] ∧
    (analysisStatic ⟨3, fun _ => .ok exF, .ok exK0⟩ exSp pre).post.increments = [1] := by
  have hu : usedCols exK0 3 = [0, 2] := by decide
  simp [analysisStatic, solve, hu, scatter, exSp, List.range_succ, List.idxOf?, List.findIdx?_cons]

/-- a bay callable raises when handed a load factor; the analysis then leaves an empty result and the old `last_analysis` -/
example (b : BayLoads ℚ) (k0 : ℕ → ℕ → ℚ) : (bayCallables b k0).calcFext (some 1) = .error "TypeError" := rfl
example (pre : AnalysisState ℚ) :
    analysisStatic ⟨3, fun _ => .error "ValueError", .ok exK0⟩ exSp pre
      = ⟨⟨[], [], pre.lastAnalysis⟩, [StaticCall.calcFext false], some "ValueError"⟩ := rfl

end Compmech.Static.C07
